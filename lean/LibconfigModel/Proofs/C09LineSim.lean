import LibconfigModel.Proofs.C02DenoteMain
import LibconfigModel.Proofs.C09LineStep
/-
  C09L, the simulation, part 1 — Proofs/C02DenoteSim.lean with positions: the input as a
  sequence of items, the outcome of a simulation (arrival in a configuration, or an abort with the
  right message IN THE RIGHT SCAN STATE), closing brackets, scalars (adjacent strings included) in
  every context that admits one, and the elements of an array.  The proofs are those of
  Proofs/C02DenoteSim.lean, line by line; what is new is the bookkeeping of where an abort happens.
-/
namespace Libconfig.C09L
open Libconfig C02P C05P C02C C01PP C04 C04R Denote C02D

/-! ### the input as items -/

/-- what remains to be read, as items (`InpI` of Proofs/C02DenoteSim.lean, with positions) -/
def InpJ (E : ParserEnv) (pos : Nat → ScanState) (la : Lookahead) (sc : ScanState)
    (items : List Denote.Item) : Prop :=
  ∃ raw, InpQ E pos la sc (raw ++ [tEOF]) ∧ raw.map itemOf = items ∧ RawOK raw

section
variable {E : ParserEnv} {pos : Nat → ScanState} {o : Options}

/-- look at the next token without consuming it; `pos ks.length`, the scan state right after it,
is `pos items.length` -/
theorem InpJ.peekL {la : Lookahead} {sc : ScanState} {items : List Denote.Item}
    (h : InpJ E pos la sc items) :
    ∃ t v ks, InpQ E pos la sc ((t, v) :: ks) ∧ ks.length = items.length ∧
      translateTok P t < 23 ∧ normK (translateTok P t) = hk items ∧
      ∀ la' sc', InpQ E pos la' sc' ((t, v) :: ks) → InpJ E pos la' sc' items := by
  obtain ⟨raw, hin, hmap, hok⟩ := h
  cases raw with
  | nil =>
    subst hmap
    refine ⟨0, {}, [], hin, rfl, kind_lt 0, ?_, fun la' sc' h' => ⟨[], h', rfl, hok⟩⟩
    rw [kind_eof]; rfl
  | cons tv raw' =>
    obtain ⟨t, v⟩ := tv
    subst hmap
    refine ⟨t, v, raw' ++ [tEOF], hin, by simp, kind_lt t, ?_,
      fun la' sc' h' => ⟨(t, v) :: raw', h', rfl, hok⟩⟩
    have := kindRel_norm (kindRel_itemOf t v (hok _ List.mem_cons_self).1)
    rw [this]
    exact hk_cons _ _ _

theorem InpJ.peek {la : Lookahead} {sc : ScanState} {items : List Denote.Item}
    (h : InpJ E pos la sc items) :
    ∃ t v ks, InpQ E pos la sc ((t, v) :: ks) ∧ translateTok P t < 23 ∧
      normK (translateTok P t) = hk items ∧
      ∀ la' sc', InpQ E pos la' sc' ((t, v) :: ks) → InpJ E pos la' sc' items := by
  obtain ⟨t, v, ks, h1, _, h2, h3, h4⟩ := h.peekL
  exact ⟨t, v, ks, h1, h2, h3, h4⟩

/-- the next token is the one behind the item in front; `pos ks.length`, the scan state right
after it, is `pos (rest.length + 1)` -/
theorem InpJ.popL {la : Lookahead} {sc : ScanState} {it : Denote.Item} {rest : List Denote.Item}
    (h : InpJ E pos la sc (it :: rest)) :
    ∃ t v ks, InpQ E pos la sc ((t, v) :: ks) ∧ ks.length = rest.length + 1 ∧
      KindRel it (translateTok P t) ∧ ValRel it v ∧
      (∀ s, it = .name s → validName s = true) ∧
      ∀ la' sc', InpQ E pos la' sc' ks → InpJ E pos la' sc' rest := by
  obtain ⟨raw, hin, hmap, hok⟩ := h
  cases raw with
  | nil => cases hmap
  | cons tv raw' =>
    obtain ⟨t, v⟩ := tv
    simp only [List.map_cons, List.cons.injEq] at hmap
    obtain ⟨h1, h2⟩ := hmap
    subst h1
    subst h2
    have hm := hok _ List.mem_cons_self
    refine ⟨t, v, raw' ++ [tEOF], hin, by simp, kindRel_itemOf t v hm.1, valRel_itemOf t v, hm.2,
      fun la' sc' h' => ⟨raw', h', rfl, fun tv htv => hok tv (List.mem_cons_of_mem _ htv)⟩⟩

theorem InpJ.pop {la : Lookahead} {sc : ScanState} {it : Denote.Item} {rest : List Denote.Item}
    (h : InpJ E pos la sc (it :: rest)) :
    ∃ t v ks, InpQ E pos la sc ((t, v) :: ks) ∧ KindRel it (translateTok P t) ∧ ValRel it v ∧
      (∀ s, it = .name s → validName s = true) ∧
      ∀ la' sc', InpQ E pos la' sc' ks → InpJ E pos la' sc' rest := by
  obtain ⟨t, v, ks, h1, _, h2, h3, h4, h5⟩ := h.popL
  exact ⟨t, v, ks, h1, h2, h3, h4, h5⟩

/-- with nothing fetched the scanner is in the state right after the last token consumed -/
theorem InpQ.here {sc : ScanState} {ks : List (Nat × TokVal)} (h : InpQ E pos none sc ks) :
    sc = pos ks.length := h.1

/-! ### outcomes -/

/-- the outcome of simulating a step of the interpreter: if it reads `x` and leaves `rest`, the
loop arrives in a configuration that is `Good`; if it rejects the text, the loop aborts with
the message -/
def SimQ (E : ParserEnv) (pos : Nat → ScanState) (a : MC) {α : Type} (res : Denote.ResAt α)
    (Good : α → List Denote.Item → MC → Prop) : Prop :=
  match res with
  | .ok x rest => ∃ b, Reaches E a b ∧ Good x rest b
  | .error k w => AbortsAt E a k.text (pos (reportAt k w).length)

theorem SimQ.of_reaches {a a' : MC} {α : Type} {res : Denote.ResAt α}
    {Good : α → List Denote.Item → MC → Prop} (h1 : Reaches E a a') (h2 : SimQ E pos a' res Good) :
    SimQ E pos a res Good := by
  cases res with
  | ok x rest =>
    obtain ⟨b, hb, hg⟩ := h2
    exact ⟨b, h1.trans hb, hg⟩
  | error k w => exact AbortsAt.of_reaches h1 h2

theorem reportAt_syntax (w : List Denote.Item) : reportAt .syntax w = w := by
  cases w <;> rfl

theorem reportAt_dup (w : List Denote.Item) : reportAt .duplicateName w = w := by
  cases w <;> rfl

/-- the position reported for a mismatching element that is one token (not a string): its own -/
theorem report_nonstring {it : Denote.Item} (rest : List Denote.Item)
    (hns : ∀ s, it ≠ .string s) :
    (reportAt .arrayElemType (lastLiteral (it :: rest))).length = rest.length + 1 := by
  rw [lastLiteral_other _ (fun s r h => by injection h with h1 _; exact hns s h1)]
  cases it
  case string s => exact absurd rfl (hns s)
  all_goals rfl

/-- the position reported for a mismatching element that is a string: that of the token behind
its last literal -/
theorem report_string (s : Bytes) (tl : List Denote.Item) :
    reportAt .arrayElemType (lastLiteral (.string s :: tl)) = (strings tl).2 := by
  obtain ⟨s', h⟩ := lastLiteral_strings tl s
  rw [h]
  rfl

/-- the configuration after a value has been read into its slot -/
def AfterValue (E : ParserEnv) (pos : Nat → ScanState) (o : Options) (qv q : Nat) (vq : TokVal)
    (stk : List (Nat × TokVal)) (K : Node → Node) (pp : Path) (pn : Node) (pre : List Node)
    (d : Nat) (x : Node) (rest : List Denote.Item) (b : MC) : Prop :=
  ∃ la sc ctx vv, b = ⟨(qv, vv) :: (q, vq) :: stk, la, sc, ctx⟩ ∧ InpJ E pos la sc rest ∧
    Filled K pp pn pre x ctx ∧ Inv true o ctx ∧ nestingFrom d rest ≤ 1665

/-! ### closing an aggregate -/

/-- the closing bracket of an aggregate: shift it, reduce `array / list / group: OPEN $@n body
CLOSE` (which moves `ctx->parent` back up), reduce `value: array / list / group` -/
theorem sim_close (hE : Compiled E) {q qv : Nat} (hgv : gotoTo P q 34 = qv)
    {s3 s2 s1 se sv k r r2 lhs : Nat} {close : Denote.Item} (hkc : ∀ k', KindRel close k' → k' = k)
    (hsh : actAt P s3 k = some (se : Int)) (hse0 : 0 < se)
    (hs3f : s3 ≠ 6) (hsef : se ≠ 6) (hsvf : sv ≠ 6)
    (hred : ∀ k' < 23, redOK P se k' r = true) (hrule : RuleIs r lhs 4 .aggEnd)
    (hgoto : gotoTo P q lhs = sv)
    (hred2 : ∀ k' < 23, redOK P sv k' r2 = true) (hrule2 : RuleIs r2 34 1 .none)
    {v3 v2 v1 vq : TokVal} {stk : List (Nat × TokVal)} {la : Lookahead} {sc : ScanState}
    {ctx : ParseCtx} {K : Node → Node} {pp : Path} {pn : Node} {pre : List Node} {a : Node}
    {st : Option Path} {rest : List Denote.Item}
    (hd : stk.length + 5 < 10000) (hH : Hole K pp)
    (hV : View ctx (fun y => K { pn with kids := pre ++ [y] }) (pp ++ [pre.length]) a none st)
    (hinv : Inv true o ctx)
    (hI : InpJ E pos la sc (close :: rest)) :
    ∃ la' sc' ctx' vv st', Reaches E
        ⟨(s3, v3) :: (s2, v2) :: (s1, v1) :: (q, vq) :: stk, la, sc, ctx⟩
        ⟨(qv, vv) :: (q, vq) :: stk, la', sc', ctx'⟩ ∧
      InpJ E pos la' sc' rest ∧ View ctx' K pp { pn with kids := pre ++ [a] } none st' ∧
      Inv true o ctx' := by
  obtain ⟨t, v, ks, hin, hkr, _, _, hcont⟩ := hI.pop
  obtain ⟨sc1, ctx1, hR1, hI1, hS1⟩ := pshiftQ hE (v0 := v3)
    (rest := (s2, v2) :: (s1, v1) :: (q, vq) :: stk) (ctx := ctx) (by dp) hs3f (hkc _ hkr) hsh hse0
    hin
  obtain ⟨t', v', ks', hin', hk23, _, hrest⟩ := (hcont _ _ hI1).peek
  obtain ⟨la2, sc2, ctx2, vv2, hR2, hI2, hP2, hinv2⟩ := preduceIQ hE
    (Post := fun c2 => View c2 K pp { pn with kids := pre ++ [a] } none st)
    (pushed := [(se, v), (s3, v3), (s2, v2), (s1, v1)]) (p := q) (vp := vq) (rest := stk)
    rfl rfl (by dp) hsef (hred _ hk23) hrule rfl hgoto hin' (hinv.of_same hS1)
    (fun ctx₁ l f hs => act_aggEnd hH ((hV.of_same hS1.sem).of_same hs.sem) _ l f)
  obtain ⟨la3, sc3, ctx3, vv3, hR3, hI3, hS3⟩ := preduce0Q hE (ctx := ctx2)
    (pushed := [(sv, vv2)]) (p := q) (vp := vq) (rest := stk)
    rfl rfl (by dp) hsvf (hred2 _ hk23) hrule2 rfl hgv hI2
  exact ⟨la3, sc3, ctx3, vv3, st, (hR1.trans hR2).trans hR3, hrest _ _ hI3, hP2.of_same hS3.sem,
    hinv2.of_same hS3⟩

/-! ### scalars -/

section
variable {K : Node → Node} {pp : Path} {pn : Node} {st : Option Path} {pre : List Node}
  {nm : Option Bytes}

/-- a one-token scalar: shift it, reduce `simple_value: TOKEN` running its action -/
theorem sim_tok1 (hE : Compiled E) {q qs : Nat} (hC : ScalCtx q qs) {it : Denote.Item}
    {rest : List Denote.Item} {k s r : Nat} {act : ParseAct}
    (hkc : ∀ k', KindRel it k' → k' = k) (hsh : actAt P q k = some (s : Int))
    (hs0 : 0 < s) (hsf : s ≠ 6) (hred : ∀ k' < 23, redOK P s k' r = true)
    (hrule : RuleIs r 36 1 act) {vq : TokVal} {stk : List (Nat × TokVal)} {la : Lookahead}
    {sc : ScanState} {ctx : ParseCtx} {Post : ParseCtx → Prop}
    (hact : ∀ ctx₁ v l f, Same true ctx ctx₁ → ValRel it v →
      ∃ ctx₂, runAction act ctx₁ v l f = .ok ctx₂ ∧ Post ctx₂)
    (hd : stk.length + 2 < 10000) (hinv : Inv true o ctx)
    (hI : InpJ E pos la sc (it :: rest)) :
    ∃ la' sc' ctx' vv, Reaches E ⟨(q, vq) :: stk, la, sc, ctx⟩
        ⟨(qs, vv) :: (q, vq) :: stk, la', sc', ctx'⟩ ∧
      InpJ E pos la' sc' rest ∧ Post ctx' ∧ Inv true o ctx' := by
  obtain ⟨t, v, ks, hin, hkr, hvr, _, hcont⟩ := hI.pop
  obtain ⟨sc1, ctx1, hR1, hI1, hS1⟩ := pshiftQ hE (v0 := vq) (rest := stk) (ctx := ctx)
    (by omega) hC.notFinal (hkc _ hkr) hsh hs0 hin
  obtain ⟨t', v', ks', hin', hk23, _, hrest⟩ := (hcont _ _ hI1).peek
  obtain ⟨la2, sc2, ctx2, vv, hR2, hI2, hP2, hinv2⟩ := preduceIQ hE (Post := Post)
    (pushed := [(s, v)]) (p := q) (vp := vq) (rest := stk) rfl rfl (by dp) hsf
    (hred _ hk23) hrule rfl hC.gSimple hin' (hinv.of_same hS1)
    (fun ctx₁ l f hs => hact ctx₁ v l f (hS1.trans hs) hvr)
  exact ⟨la2, sc2, ctx2, vv, hR1.trans hR2, hrest _ _ hI2, hP2, hinv2⟩

/-- a one-token scalar whose action aborts -/
theorem sim_tok1_abort (hE : Compiled E) {q qs : Nat} (hC : ScalCtx q qs) {it : Denote.Item}
    {rest : List Denote.Item} {k s r : Nat} {act : ParseAct} {text : Bytes}
    (hkc : ∀ k', KindRel it k' → k' = k) (hsh : actAt P q k = some (s : Int))
    (hs0 : 0 < s) (hsf : s ≠ 6) (hred : ∀ k' < 23, redOK P s k' r = true)
    (hrule : RuleIs r 36 1 act) {vq : TokVal} {stk : List (Nat × TokVal)} {la : Lookahead}
    {sc : ScanState} {ctx : ParseCtx}
    (hninf : P.pact.get s = P.pactNinf)
    (hact : ∀ ctx₁ v l f, Same true ctx ctx₁ →
      ∃ ctx₂, runAction act ctx₁ v l f = .abort ctx₂ ∧
        ctx₂.cfg.errText = some text ∧ ctx₂.cfg.errLine = l)
    (hd : stk.length + 2 < 10000)
    (hI : InpJ E pos la sc (it :: rest)) :
    AbortsAt E ⟨(q, vq) :: stk, la, sc, ctx⟩ text (pos (rest.length + 1)) := by
  obtain ⟨t, v, ks, hin, hlen, hkr, hvr, _, hcont⟩ := hI.popL
  obtain ⟨sc1, ctx1, hR1, hI1, hS1⟩ := pshiftQ hE (v0 := vq) (rest := stk) (ctx := ctx)
    (by omega) hC.notFinal (hkc _ hkr) hsh hs0 hin
  obtain ⟨t', v', ks', hin', hk23, _, hrest⟩ := (hcont _ _ hI1).peek
  refine AbortsAt.of_reaches hR1 ?_
  rw [← hlen, ← hI1.here]
  exact preduce_abort_here hE (stk := (s, v) :: (q, vq) :: stk) rfl (by dp) hsf
    (hred _ hk23) hrule hninf hin' (fun ctx₁ l f hs => hact ctx₁ v l f (hS1.trans hs))

/-- the string literals that follow a string literal: each is shifted and appended -/
theorem sim_strings (hE : Compiled E) {q qs : Nat} (hC : ScalCtx q qs) (l : List Denote.Item) :
    ∀ (acc : Bytes) (vq v22 : TokVal) (stk : List (Nat × TokVal)) (la : Lookahead)
      (sc : ScanState) (ctx : ParseCtx),
    stk.length + 3 < 10000 → InpJ E pos la sc l → View ctx K pp pn (some acc) st →
    Inv true o ctx →
    ∃ la' sc' ctx' vv, Reaches E ⟨(22, v22) :: (q, vq) :: stk, la, sc, ctx⟩
        ⟨(22, vv) :: (q, vq) :: stk, la', sc', ctx'⟩ ∧
      InpJ E pos la' sc' (strings l).2 ∧
      View ctx' K pp pn (some (acc ++ (strings l).1)) st ∧ Inv true o ctx' := by
  induction l with
  | nil =>
    intro acc vq v22 stk la sc ctx _ hI hV hinv
    rw [strings_other _ (fun _ _ h => by cases h)]
    simp only [List.append_nil]
    exact ⟨la, sc, ctx, v22, Reaches.refl _ _, hI, hV, hinv⟩
  | cons it tl ih =>
    intro acc vq v22 stk la sc ctx hd hI hV hinv
    cases it
    case string s =>
      rw [strings_cons]
      simp only
      obtain ⟨t, v, ks, hin, hkr, hvr, _, hcont⟩ := hI.pop
      have hvs : v.sval = s := hvr
      obtain ⟨sc1, ctx1, hR1, hI1, hS1⟩ := pshiftQ hE (v0 := v22) (rest := (q, vq) :: stk)
        (ctx := ctx) (by dp) (by decide) (show translateTok P t = 9 from hkr) sh_22_string
        (by decide) hin
      obtain ⟨t', v', ks', hin', hk23, _, hrest⟩ := (hcont _ _ hI1).peek
      obtain ⟨la2, sc2, ctx2, vv2, hR2, hI2, hP2, hinv2⟩ := preduceIQ hE
        (Post := fun c2 => View c2 K pp pn (some (acc ++ s)) st)
        (pushed := [(31, v), (22, v22)]) (p := q) (vp := vq) (rest := stk) rfl rfl (by dp)
        (by decide) (red_31 _ hk23) rule_22 rfl hC.gString hin' (hinv.of_same hS1)
        (fun ctx₁ l f hs => by
          obtain ⟨c2, h1, h2⟩ := act_stringNext ((hV.of_same hS1.sem).of_same hs.sem) v l f
          rw [hvs] at h2
          exact ⟨c2, h1, h2⟩)
      obtain ⟨la3, sc3, ctx3, vv3, hR3, hI3, hV3, hinv3⟩ := ih (acc ++ s) vq vv2 stk la2 sc2 ctx2
        hd (hrest _ _ hI2) hP2 hinv2
      rw [List.append_assoc] at hV3
      exact ⟨la3, sc3, ctx3, vv3, (hR1.trans hR2).trans hR3, hI3, hV3, hinv3⟩
    all_goals
      rw [strings_other _ (fun _ _ h => by cases h)]
      simp only [List.append_nil]
      exact ⟨la, sc, ctx, v22, Reaches.refl _ _, hI, hV, hinv⟩

/-- what the simulation of a scalar establishes: if the type fits (always, outside arrays) the
loop arrives with `simple_value` pushed and the slot filled; if not, it aborts -/
def ScalarSim (E : ParserEnv) (pos : Nat → ScanState) (o : Options) (q qs : Nat) (vq : TokVal)
    (stk : List (Nat × TokVal)) (la : Lookahead) (sc : ScanState) (ctx : ParseCtx)
    (K : Node → Node) (pp : Path) (pn : Node) (pre : List Node) (x : Node)
    (items rest : List Denote.Item) : Prop :=
  ((pn.ty = T_ARRAY → checkType pn x.ty = true) →
    ∃ la' sc' ctx' vv, Reaches E ⟨(q, vq) :: stk, la, sc, ctx⟩
        ⟨(qs, vv) :: (q, vq) :: stk, la', sc', ctx'⟩ ∧
      InpJ E pos la' sc' rest ∧ Filled K pp pn pre x ctx' ∧ Inv true o ctx') ∧
  (pn.ty = T_ARRAY → checkType pn x.ty = false →
    AbortsAt E ⟨(q, vq) :: stk, la, sc, ctx⟩ Generated.ERR_ARRAY_ELEM_TYPE
      (pos (reportAt .arrayElemType (lastLiteral items)).length))

/-- a one-token scalar, both outcomes -/
theorem sim_scal1 (hE : Compiled E) {q qs : Nat} (hC : ScalCtx q qs) {it : Denote.Item}
    {rest : List Denote.Item} {k s r ty : Nat} {act : ParseAct} {x : Node}
    (hkc : ∀ k', KindRel it k' → k' = k) (hsh : actAt P q k = some (s : Int))
    (hs0 : 0 < s) (hsf : s ≠ 6) (hred : ∀ k' < 23, redOK P s k' r = true)
    (hrule : RuleIs r 36 1 act) (hsa : ScalAct act ty) (hxty : x.ty = ty)
    (hninf : P.pact.get s = P.pactNinf) (hns : ∀ s', it ≠ .string s')
    {vq : TokVal} {stk : List (Nat × TokVal)} {la : Lookahead} {sc : ScanState} {ctx : ParseCtx}
    (hok : ∀ ctx₁ v l f, View ctx₁ K pp pn none st → ValRel it v →
      (pn.ty = T_ARRAY → checkType pn ty = true) →
      ∃ ctx₂, runAction act ctx₁ v l f = .ok ctx₂ ∧ Filled K pp pn pre x ctx₂)
    (hd : stk.length + 2 < 10000) (hinv : Inv true o ctx) (hV : View ctx K pp pn none st)
    (hI : InpJ E pos la sc (it :: rest)) :
    ScalarSim E pos o q qs vq stk la sc ctx K pp pn pre x (it :: rest) rest := by
  rw [ScalarSim, hxty, report_nonstring rest hns]
  constructor
  · intro hck
    exact sim_tok1 hE hC hkc hsh hs0 hsf hred hrule
      (fun ctx₁ v l f hs hvr => hok ctx₁ v l f (hV.of_same hs.sem) hvr hck) hd hinv hI
  · intro hpa hck
    exact sim_tok1_abort hE hC hkc hsh hs0 hsf hred hrule hninf
      (fun ctx₁ v l f hs => ⟨_, act_mismatch hsa (hV.of_same hs.sem) hpa hck v l f,
        yyerror_text ((hinv.of_same hs).err rfl) _ _, yyerror_line ((hinv.of_same hs).err rfl) _ _⟩)
      hd hI

/-- a scalar in any context that admits one -/
theorem sim_scalar (hE : Compiled E) {q qs : Nat} (hC : ScalCtx q qs) {items rest : List Denote.Item}
    {x : Node} (hs : scalar nm items = some (x, rest))
    {vq : TokVal} {stk : List (Nat × TokVal)} {la : Lookahead} {sc : ScanState} {ctx : ParseCtx}
    (hd : stk.length + 4 < 10000) (hI : InpJ E pos la sc items)
    (hV : View ctx K pp pn none st) (hS : Slot st pp pn pre nm) (hinv : Inv true o ctx) :
    ScalarSim E pos o q qs vq stk la sc ctx K pp pn pre x items rest := by
  cases items with
  | nil => simp [scalar] at hs
  | cons it tl =>
    cases it
    case boolean i =>
      simp only [scalar, Option.some.injEq, Prod.mk.injEq] at hs
      obtain ⟨rfl, rfl⟩ := hs
      exact sim_scal1 hE hC (it := .boolean i) (k := 3) (fun _ h => h) hC.boolean (by decide) (by decide) red_9 rule_23
        scalAct_bool rfl ninf_9 (fun _ h => by cases h)
        (fun ctx₁ v l f hV1 hvr hck => by
          have hvr : v.ival = i := hvr
          obtain ⟨c2, h1, h2⟩ := act_bool hV1 hS hck v l f
          rw [hvr] at h2
          exact ⟨c2, h1, h2⟩) (by omega) hinv hV hI
    case integer i =>
      simp only [scalar, Option.some.injEq, Prod.mk.injEq] at hs
      obtain ⟨rfl, rfl⟩ := hs
      exact sim_scal1 hE hC (it := .integer i) (k := 4) (fun _ h => h) hC.integer (by decide) (by decide) red_10 rule_24
        scalAct_int rfl ninf_10 (fun _ h => by cases h)
        (fun ctx₁ v l f hV1 hvr hck => by
          have hvr : v.ival = i := hvr
          obtain ⟨c2, h1, h2⟩ := act_int hV1 hS hck v l f
          rw [hvr] at h2
          exact ⟨c2, h1, h2⟩) (by omega) hinv hV hI
    case integer64 i =>
      simp only [scalar, Option.some.injEq, Prod.mk.injEq] at hs
      obtain ⟨rfl, rfl⟩ := hs
      exact sim_scal1 hE hC (it := .integer64 i) (k := 6) (fun _ h => h) hC.integer64 (by decide) (by decide) red_12
        rule_25 scalAct_int64 rfl ninf_12 (fun _ h => by cases h)
        (fun ctx₁ v l f hV1 hvr hck => by
          have hvr : v.ival = i := hvr
          obtain ⟨c2, h1, h2⟩ := act_int64 hV1 hS hck v l f
          rw [hvr] at h2
          exact ⟨c2, h1, h2⟩) (by omega) hinv hV hI
    case hex i =>
      simp only [scalar, Option.some.injEq, Prod.mk.injEq] at hs
      obtain ⟨rfl, rfl⟩ := hs
      exact sim_scal1 hE hC (it := .hex i) (k := 5) (fun _ h => h) hC.hex (by decide) (by decide) red_11 rule_26
        scalAct_hex rfl ninf_11 (fun _ h => by cases h)
        (fun ctx₁ v l f hV1 hvr hck => by
          have hvr : v.ival = i := hvr
          obtain ⟨c2, h1, h2⟩ := act_hex hV1 hS hck v l f
          rw [hvr] at h2
          exact ⟨c2, h1, h2⟩) (by omega) hinv hV hI
    case hex64 i =>
      simp only [scalar, Option.some.injEq, Prod.mk.injEq] at hs
      obtain ⟨rfl, rfl⟩ := hs
      exact sim_scal1 hE hC (it := .hex64 i) (k := 7) (fun _ h => h) hC.hex64 (by decide) (by decide) red_13 rule_27
        scalAct_hex64 rfl ninf_13 (fun _ h => by cases h)
        (fun ctx₁ v l f hV1 hvr hck => by
          have hvr : v.ival = i := hvr
          obtain ⟨c2, h1, h2⟩ := act_hex64 hV1 hS hck v l f
          rw [hvr] at h2
          exact ⟨c2, h1, h2⟩) (by omega) hinv hV hI
    case float b =>
      simp only [scalar, Option.some.injEq, Prod.mk.injEq] at hs
      obtain ⟨rfl, rfl⟩ := hs
      exact sim_scal1 hE hC (it := .float b) (k := 8) (fun _ h => h) hC.float (by decide) (by decide) red_14 rule_28
        scalAct_float rfl ninf_14 (fun _ h => by cases h)
        (fun ctx₁ v l f hV1 hvr hck => by
          have hvr : v.fval = b := hvr
          obtain ⟨c2, h1, h2⟩ := act_float hV1 hS hck v l f
          rw [hvr] at h2
          exact ⟨c2, h1, h2⟩) (by omega) hinv hV hI
    case string s =>
      simp only [scalar, Option.some.injEq, Prod.mk.injEq] at hs
      obtain ⟨rfl, rfl⟩ := hs
      -- the first literal
      obtain ⟨t, v, ks, hin, hkr, hvr, _, hcont⟩ := hI.pop
      have hvs : v.sval = s := hvr
      obtain ⟨sc1, ctx1, hR1, hI1, hS1⟩ := pshiftQ hE (v0 := vq) (rest := stk) (ctx := ctx)
        (by omega) hC.notFinal (show translateTok P t = 9 from hkr) hC.string (by decide) hin
      obtain ⟨t', v', ks', hin', hk23, _, hrest⟩ := (hcont _ _ hI1).peek
      obtain ⟨la2, sc2, ctx2, vv2, hR2, hI2, hP2, hinv2⟩ := preduceIQ hE
        (Post := fun c2 => View c2 K pp pn (some s) st)
        (pushed := [(15, v)]) (p := q) (vp := vq) (rest := stk) rfl rfl (by dp)
        (by decide) (red_15 _ hk23) rule_21 rfl hC.gString hin' (hinv.of_same hS1)
        (fun ctx₁ l f hs => by
          obtain ⟨c2, h1, h2⟩ := act_stringFirst ((hV.of_same hS1.sem).of_same hs.sem) v l f
          rw [hvs] at h2
          exact ⟨c2, h1, h2⟩)
      -- the literals that follow
      obtain ⟨la3, sc3, ctx3, vv3, hR3, hI3, hV3, hinv3⟩ := sim_strings hE hC tl s vq vv2 stk la2 sc2
        ctx2 (by omega) (hrest _ _ hI2) hP2 hinv2
      -- `simple_value: string`
      obtain ⟨t3, v3, ks3, hin3, hlen3, hk23', hn3, hrest3⟩ := hI3.peekL
      have hne9 : translateTok P t3 ≠ 9 := by
        exact ne_of_hk hn3 rfl (hk_ne_9 (strings_head tl))
      rw [ScalarSim, report_string, ← hlen3]
      constructor
      · intro hck
        obtain ⟨la4, sc4, ctx4, vv4, hR4, hI4, hP4, hinv4⟩ := preduceIQ hE
          (Post := Filled K pp pn pre
            { name := nm, ty := T_STRING, sval := some (s ++ (strings tl).1) })
          (pushed := [(22, vv3)]) (p := q) (vp := vq) (rest := stk) rfl rfl (by dp)
          (by decide) (red_22 _ hk23' hne9) rule_29 rfl hC.gSimple hin3 hinv3
          (fun ctx₁ l f hs => act_string (hV3.of_same hs.sem) hS hck _ l f)
        exact ⟨la4, sc4, ctx4, vv4, ((hR1.trans hR2).trans hR3).trans hR4, hrest3 _ _ hI4, hP4,
          hinv4⟩
      · intro hpa hck
        refine AbortsAt.of_reaches ((hR1.trans hR2).trans hR3) ?_
        exact preduce_abort_la hE (stk := (22, vv3) :: (q, vq) :: stk) rfl (by dp) (by decide)
          (red_22 _ hk23' hne9) rule_29 nn_22 hin3
          (fun ctx₁ l f hs => ⟨_, act_string_mismatch (hV3.of_same hs.sem) hpa hck _ l f,
            yyerror_text (ctx := { ctx₁ with str := none }) ((hinv3.of_same hs).err rfl) _ _,
            yyerror_line (ctx := { ctx₁ with str := none }) ((hinv3.of_same hs).err rfl) _ _⟩)
    all_goals simp [scalar] at hs

end

/-! ### arrays -/

theorem checkType_array {a k0 : Node} {tl : List Node} (hty : a.ty = T_ARRAY)
    (hk : a.kids = k0 :: tl) (ty' : Nat) : checkType a ty' = (k0.ty == ty') := by
  unfold checkType
  rw [hk]
  simp only
  rw [hty]
  rfl

/-- the rest of an array, from the state after `simple_value_list` to the state after the value
that the array is -/
theorem sim_arrayRest (hE : Compiled E) {q qv : Nat} (hC : ValCtx q qv) (ty : Nat) :
    ∀ (fuel : Nat) (acc : List Node) (items : List Denote.Item) (v33 v25 v16 vq : TokVal)
      (stk : List (Nat × TokVal)) (la : Lookahead) (sc : ScanState) (ctx : ParseCtx)
      (K : Node → Node) (pp : Path) (pn : Node) (pre : List Node) (a : Node) (st : Option Path)
      (r : Node) (d : Nat),
    items.length < fuel → stk.length + 1 ≤ 6 * d + 5 → InpJ E pos la sc items → Hole K pp →
    View ctx (fun y => K { pn with kids := pre ++ [y] }) (pp ++ [pre.length]) a none st →
    stripPos a = r → r.ty = T_ARRAY → r.kids = acc →
    (∃ k0 tl, a.kids = k0 :: tl ∧ k0.ty = ty) → Inv true o ctx →
    nestingFrom (d + 1) items ≤ 1665 →
    SimQ E pos ⟨(33, v33) :: (25, v25) :: (16, v16) :: (q, vq) :: stk, la, sc, ctx⟩
      (arrayRestAt ty fuel acc items)
      (fun elems rest b => AfterValue E pos o qv q vq stk K pp pn pre d { r with kids := elems }
        rest b) := by
  intro fuel
  induction fuel with
  | zero => intro acc items _ _ _ _ _ _ _ _ _ _ _ _ _ _ _ _ hf; exact absurd hf (Nat.not_lt_zero _)
  | succ fuel ih =>
    intro acc items v33 v25 v16 vq stk la sc ctx K pp pn pre a st r d hf hd hI hH hV hA hrty hracc
      hhead hinv hnest
    have hd1 : d + 1 ≤ 1665 := Nat.le_trans (le_nestingFrom _ _) hnest
    have haty : a.ty = T_ARRAY := (stripPos_ty' hA).trans hrty
    cases arrayRestView items with
    | done r' =>
      rw [arrayRestAt_done]
      -- `simple_value_list_optional: simple_value_list`
      obtain ⟨t, v, ks, hin, hk23, hn, hrest⟩ := hI.peek
      obtain ⟨la1, sc1, ctx1, vv1, hR1, hI1, hS1⟩ := preduce0Q hE (ctx := ctx)
        (pushed := [(33, v33)]) (p := 25) (vp := v25) (rest := (16, v16) :: (q, vq) :: stk)
        rfl rfl (by dp) (by decide) (red_33 _ hk23 (ne_of_hk hn rfl (by simp [hk]))) rule_39 rfl
        go_25_svlo hin
      -- `]`
      obtain ⟨la2, sc2, ctx2, vv2, st2, hR2, hI2, hV2, hinv2⟩ := sim_close hE hC.gValue
        (close := .arrayEnd) (k := 14) (fun _ h => h) sh_34_arrayEnd (by decide) (by decide)
        (by decide) (by decide) red_41 rule_14 hC.gArray red_19 rule_18
        (v3 := vv1) (v2 := v25) (v1 := v16) (vq := vq) (stk := stk)
        (by omega) hH (hV.of_same hS1.sem) (hinv.of_same hS1) (hrest _ _ hI1)
      refine ⟨_, hR1.trans hR2, la2, sc2, ctx2, vv2, rfl, hI2, ⟨a, st2, hV2, ?_⟩, hinv2, ?_⟩
      · rw [hA, ← hracc]; cases r; rfl
      · exact Nat.le_trans (nesting_close (.inl rfl)) hnest
    | comma rest' =>
      rw [arrayRestAt_comma]
      have hnest' : nestingFrom (d + 1) rest' ≤ 1665 := by
        rw [nesting_flat rfl] at hnest; exact hnest
      -- the comma
      obtain ⟨t, v, ks, hin, hkr, _, _, hcont⟩ := hI.pop
      obtain ⟨sc1, ctx1, hR1, hI1, hS1⟩ := pshiftQ hE (v0 := v33)
        (rest := (25, v25) :: (16, v16) :: (q, vq) :: stk) (ctx := ctx) (by dp) (by decide)
        (show translateTok P t = 17 from hkr) sh_33_comma (by decide) hin
      have hI1' := hcont _ _ hI1
      have hV1 := hV.of_same hS1.sem
      have hinv1 := hinv.of_same hS1
      cases hs : scalar none rest' with
      | none =>
        simp only
        -- `simple_value_list: simple_value_list ,`
        obtain ⟨t2, v2, ks2, hin2, hk23, hn2, hrest2⟩ := hI1'.peek
        obtain ⟨la2, sc2, ctx2, vv2, hR2, hI2, hS2⟩ := preduce0Q hE (ctx := ctx1)
          (pushed := [(40, v), (33, v33)]) (p := 25) (vp := v25)
          (rest := (16, v16) :: (q, vq) :: stk)
          rfl rfl (by dp) (by decide)
          (red_40 _ hk23 (scalStart_of_hk hk23 hn2 (scalar_none hs))) rule_37 rfl go_25_svl hin2
        refine SimQ.of_reaches (hR1.trans hR2) ?_
        exact ih acc rest' vv2 v25 v16 vq stk la2 sc2 ctx2 K pp pn pre a st r d
          (by simp only [List.length_cons] at hf; omega) hd (hrest2 _ _ hI2) hH
          (hV1.of_same hS2.sem) hA hrty hracc hhead (hinv1.of_same hS2) hnest'
      | some p =>
        obtain ⟨x, rest''⟩ := p
        simp only
        obtain ⟨k0, tl, hk0, hty0⟩ := hhead
        have hck : checkType a x.ty = (k0.ty == x.ty) := checkType_array haty hk0 _
        have hsim := sim_scalar (o := o) hE scal_40 hs (vq := v)
          (stk := (33, v33) :: (25, v25) :: (16, v16) :: (q, vq) :: stk) (by dp) hI1' hV1
          (Slot.elem (.inr haty) rfl rfl) hinv1
        by_cases hxt : x.ty ≠ ty
        · rw [if_pos hxt]
          show AbortsAt E _ ErrKind.arrayElemType.text _
          rw [text_elem]
          refine AbortsAt.of_reaches hR1 (hsim.2 haty ?_)
          rw [hck, hty0]
          exact beq_false_of_ne (fun h => hxt h.symm)
        · rw [if_neg hxt]
          have hxt : x.ty = ty := Classical.not_not.mp hxt
          obtain ⟨la2, sc2, ctx2, vv2, hR2, hI2, ⟨n', st2, hV2, hn'⟩, hinv2⟩ := hsim.1 (fun _ => by
            rw [hck, hty0, hxt]; exact beq_self_eq_true _)
          -- `simple_value_list: simple_value_list , simple_value`
          obtain ⟨t3, v3, ks3, hin3, hk23, _, hrest3⟩ := hI2.peek
          obtain ⟨la3, sc3, ctx3, vv3, hR3, hI3, hS3⟩ := preduce0Q hE (ctx := ctx2)
            (pushed := [(45, vv2), (40, v), (33, v33)]) (p := 25) (vp := v25)
            (rest := (16, v16) :: (q, vq) :: stk)
            rfl rfl (by dp) (by decide) (red_45 _ hk23) rule_36 rfl go_25_svl hin3
          refine SimQ.of_reaches ((hR1.trans hR2).trans hR3) ?_
          have := ih (acc ++ [x]) rest'' vv3 v25 v16 vq stk la3 sc3 ctx3 K pp pn pre
            { a with kids := a.kids ++ [n'] } st2 { r with kids := acc ++ [x] } d
            (by
              have := scalar_length hs
              simp only [List.length_cons] at hf; omega)
            hd (hrest3 _ _ hI3) hH (hV2.of_same hS3.sem)
            (by
              rw [stripPos_kids' hA, stripPosList_snoc, stripPos_kids_eq hA, hracc, hn'])
            hrty rfl ⟨k0, tl ++ [n'], by simp [hk0], hty0⟩ (hinv2.of_same hS3)
            (by rw [scalar_nesting _ hs]; exact hnest')
          exact this
    | other _ h1 h2 =>
      rw [arrayRestAt_other _ _ _ _ h1 h2]
      show AbortsAt E _ ErrKind.syntax.text _
      rw [text_syntax, reportAt_syntax]
      obtain ⟨t, v, ks, hin, hlen, hk23, hn, hrest⟩ := hI.peekL
      rw [← hlen]
      obtain ⟨la1, sc1, ctx1, vv1, hR1, hI1, hS1⟩ := preduce0Q hE (ctx := ctx)
        (pushed := [(33, v33)]) (p := 25) (vp := v25) (rest := (16, v16) :: (q, vq) :: stk)
        rfl rfl (by dp) (by decide) (red_33 _ hk23 (ne_of_hk hn rfl (hk_ne_17 h2))) rule_39 rfl
        go_25_svlo hin
      refine AbortsAt.of_reaches hR1 ?_
      exact perrorQ hE (stk := (34, vv1) :: (25, v25) :: (16, v16) :: (q, vq) :: stk) rfl (by dp)
        (by decide) (err_34 _ hk23 (ne_of_hk hn rfl (hk_ne_14 h1))) nn_34 hI1
        (hinv.of_same hS1).err

end

end Libconfig.C09L
