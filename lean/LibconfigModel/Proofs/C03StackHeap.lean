import LibconfigModel.Proofs.C03StackInv
/-
  C03S, part 2 (S4): an allocator monitor judges the log of `BisonStack.lean`.

  `Heap` is the allocator's view: which heap blocks are allocated (with their number of
  slots), which have been released, how many were handed out.  `Heap.step` lets one access
  pass only if it goes to the automatic arrays or to a block that is allocated at that
  moment, with the number of slots the log claims for it; `YYSTACK_FREE` only of an allocated
  heap block.  The first half of the file is about the monitor alone (what its acceptance
  means: no use after release, no double release, counts); the second half shows that the log
  of every execution is accepted and what the allocator's view is afterwards.
-/
namespace Libconfig.C03SP

open Libconfig Libconfig.BisonStack

variable {V : Type}

/-! ### the monitor -/

structure Heap where
  /-- blocks allocated and not released: `(id, slots)` -/
  live : List (Nat × Nat) := []
  /-- released blocks, newest first -/
  freed : List Nat := []
  /-- number of blocks handed out -/
  next : Nat := 0
deriving Repr, DecidableEq

/-- number of slots of the allocated block `id` -/
def slotsOf : List (Nat × Nat) → Nat → Option Nat
  | [], _ => none
  | p :: rest, id => if p.1 = id then some p.2 else slotsOf rest id

/-- the block `b` can be used, and has this many slots (`I` = `YYINITDEPTH` for the automatic
arrays) -/
def Heap.cap (I : Nat) (h : Heap) : Blk → Option Nat
  | .auto => some I
  | .heap id => slotsOf h.live id

def Heap.step (I : Nat) (h : Heap) : Access → Option Heap
  | .storeS b cap _ => if h.cap I b = some cap then some h else none
  | .storeV b cap _ => if h.cap I b = some cap then some h else none
  | .loadS b cap _ _ => if h.cap I b = some cap then some h else none
  | .loadV b cap _ _ => if h.cap I b = some cap then some h else none
  | .garbageV b cap _ => if h.cap I b = some cap then some h else none
  | .copyS src sc dst dc _ => if h.cap I src = some sc ∧ h.cap I dst = some dc then some h else none
  | .copyV src sc dst dc _ => if h.cap I src = some sc ∧ h.cap I dst = some dc then some h else none
  | .alloc .auto _ => none
  | .alloc (.heap id) n =>
    if id = h.next then some { h with live := (id, n) :: h.live, next := h.next + 1 } else none
  | .allocFail _ => some h
  | .free .auto => none
  | .free (.heap id) =>
    if (slotsOf h.live id).isSome then
      some { h with live := h.live.filter (fun p => p.1 ≠ id), freed := id :: h.freed }
    else none

/-- the monitor on a log (newest first) from the view `h0` -/
def Heap.runFrom (I : Nat) (h0 : Heap) : List Access → Option Heap
  | [] => some h0
  | a :: log => (Heap.runFrom I h0 log).bind (fun h => h.step I a)

/-- the monitor on a whole log: nothing allocated at the start -/
def Heap.check (I : Nat) (log : List Access) : Option Heap := Heap.runFrom I {} log

theorem runFrom_append (I : Nat) (h0 : Heap) (post pre : List Access) :
    Heap.runFrom I h0 (post ++ pre) = (Heap.runFrom I h0 pre).bind (fun h1 => Heap.runFrom I h1 post) := by
  induction post with
  | nil => simp [Heap.runFrom]
  | cons a post ih =>
    rw [List.cons_append, Heap.runFrom, ih]
    cases Heap.runFrom I h0 pre with
    | none => rfl
    | some h1 => rfl

/-- the blocks an access names -/
def blocksOf : Access → List Blk
  | .storeS b _ _ => [b]
  | .storeV b _ _ => [b]
  | .loadS b _ _ _ => [b]
  | .loadV b _ _ _ => [b]
  | .garbageV b _ _ => [b]
  | .copyS src _ dst _ _ => [src, dst]
  | .copyV src _ dst _ _ => [src, dst]
  | .alloc b _ => [b]
  | .allocFail _ => []
  | .free b => [b]

/-- the view of the allocator is consistent -/
structure Heap.WF (h : Heap) : Prop where
  liveLt : ∀ p ∈ h.live, p.1 < h.next
  freedLt : ∀ id ∈ h.freed, id < h.next
  disj : ∀ id ∈ h.freed, slotsOf h.live id = none
  nodup : h.freed.Nodup
  all : ∀ id, id < h.next → id ∈ h.freed ∨ (slotsOf h.live id).isSome

theorem slotsOf_mem {live : List (Nat × Nat)} {id c : Nat} (h : slotsOf live id = some c) :
    (id, c) ∈ live := by
  induction live with
  | nil => cases h
  | cons p rest ih =>
    rw [slotsOf] at h
    split at h
    · rename_i hp
      cases h
      rw [← hp]
      exact List.mem_cons_self
    · exact List.mem_cons_of_mem _ (ih h)

theorem slotsOf_none_of_lt {live : List (Nat × Nat)} {n id : Nat} (h : ∀ p ∈ live, p.1 < n)
    (hid : n ≤ id) : slotsOf live id = none := by
  cases hs : slotsOf live id with
  | none => rfl
  | some c => have := h _ (slotsOf_mem hs); simp only at this; omega

theorem slotsOf_filter_ne (live : List (Nat × Nat)) (id id' : Nat) (h : id' ≠ id) :
    slotsOf (live.filter (fun p => p.1 ≠ id)) id' = slotsOf live id' := by
  induction live with
  | nil => rfl
  | cons p rest ih =>
    rw [List.filter_cons]
    by_cases hp : p.1 = id
    · simp only [hp, ne_eq, not_true_eq_false, decide_false, Bool.false_eq_true, if_false]
      rw [ih, slotsOf, if_neg (by omega)]
    · simp only [ne_eq, hp, not_false_eq_true, decide_true, if_true]
      rw [slotsOf, slotsOf, ih]

theorem slotsOf_filter_self (live : List (Nat × Nat)) (id : Nat) :
    slotsOf (live.filter (fun p => p.1 ≠ id)) id = none := by
  induction live with
  | nil => rfl
  | cons p rest ih =>
    rw [List.filter_cons]
    by_cases hp : p.1 = id
    · simp only [hp, ne_eq, not_true_eq_false, decide_false, Bool.false_eq_true, if_false]
      exact ih
    · simp only [ne_eq, hp, not_false_eq_true, decide_true, if_true]
      rw [slotsOf, if_neg hp]
      exact ih

theorem wf_init : Heap.WF {} :=
  { liveLt := fun p hp => by cases hp
    freedLt := fun id hid => by cases hid
    disj := fun id hid => by cases hid
    nodup := List.nodup_nil
    all := fun id hid => by have : id < 0 := hid; omega }

/-- a step of the monitor keeps the view consistent, never forgets a released block and only
changes the view on `alloc` / `free` -/
theorem step_wf (I : Nat) (h h' : Heap) (a : Access) (hw : h.WF) (hs : h.step I a = some h') :
    h'.WF ∧ (∀ id ∈ h.freed, id ∈ h'.freed) ∧ h.next ≤ h'.next := by
  cases a with
  | storeS b cap idx => simp only [Heap.step] at hs; split at hs <;> cases hs; exact ⟨hw, fun _ h => h, Nat.le_refl _⟩
  | storeV b cap idx => simp only [Heap.step] at hs; split at hs <;> cases hs; exact ⟨hw, fun _ h => h, Nat.le_refl _⟩
  | loadS b cap idx i => simp only [Heap.step] at hs; split at hs <;> cases hs; exact ⟨hw, fun _ h => h, Nat.le_refl _⟩
  | loadV b cap idx i => simp only [Heap.step] at hs; split at hs <;> cases hs; exact ⟨hw, fun _ h => h, Nat.le_refl _⟩
  | garbageV b cap idx => simp only [Heap.step] at hs; split at hs <;> cases hs; exact ⟨hw, fun _ h => h, Nat.le_refl _⟩
  | copyS src sc dst dc n => simp only [Heap.step] at hs; split at hs <;> cases hs; exact ⟨hw, fun _ h => h, Nat.le_refl _⟩
  | copyV src sc dst dc n => simp only [Heap.step] at hs; split at hs <;> cases hs; exact ⟨hw, fun _ h => h, Nat.le_refl _⟩
  | allocFail n => simp only [Heap.step] at hs; cases hs; exact ⟨hw, fun _ h => h, Nat.le_refl _⟩
  | alloc b n =>
    cases b with
    | auto => simp only [Heap.step] at hs; cases hs
    | heap id =>
      simp only [Heap.step] at hs
      split at hs
      · rename_i hid
        cases hs
        refine ⟨?_, fun _ h => h, Nat.le_succ _⟩
        exact {
          liveLt := by
            intro p hp
            rcases List.mem_cons.mp hp with rfl | hp
            · show id < h.next + 1; omega
            · have := hw.liveLt p hp; show p.1 < h.next + 1; omega
          freedLt := fun i hi => by have := hw.freedLt i hi; show i < h.next + 1; omega
          disj := by
            intro i hi
            show slotsOf ((id, n) :: h.live) i = none
            rw [slotsOf, if_neg (by have := hw.freedLt i hi; simp only; omega)]
            exact hw.disj i hi
          nodup := hw.nodup
          all := by
            intro i hi
            have hi' : i < h.next + 1 := hi
            show i ∈ h.freed ∨ (slotsOf ((id, n) :: h.live) i).isSome
            rw [slotsOf]
            by_cases hii : id = i
            · right; rw [if_pos hii]; rfl
            · rw [if_neg hii]; exact hw.all i (by omega) }
      · cases hs
  | free b =>
    cases b with
    | auto => simp only [Heap.step] at hs; cases hs
    | heap id =>
      simp only [Heap.step] at hs
      split at hs
      · rename_i hlive
        cases hs
        have hnotfreed : id ∉ h.freed := fun hf => by rw [hw.disj id hf] at hlive; cases hlive
        refine ⟨?_, fun _ h => List.mem_cons_of_mem _ h, Nat.le_refl _⟩
        exact {
          liveLt := fun p hp => hw.liveLt p (List.mem_filter.mp hp).1
          freedLt := by
            intro i hi
            rcases List.mem_cons.mp hi with rfl | hi
            · obtain ⟨c, hc⟩ := Option.isSome_iff_exists.mp hlive
              exact hw.liveLt _ (slotsOf_mem hc)
            · exact hw.freedLt i hi
          disj := by
            intro i hi
            show slotsOf (h.live.filter _) i = none
            rcases List.mem_cons.mp hi with rfl | hi
            · exact slotsOf_filter_self _ _
            · rw [slotsOf_filter_ne _ _ _ (fun e : i = id => hnotfreed (by rw [← e]; exact hi))]
              exact hw.disj i hi
          nodup := List.nodup_cons.mpr ⟨hnotfreed, hw.nodup⟩
          all := by
            intro i hi
            show i ∈ id :: h.freed ∨ (slotsOf (h.live.filter _) i).isSome
            by_cases hii : i = id
            · left; rw [hii]; exact List.mem_cons_self
            · rw [slotsOf_filter_ne _ _ _ hii]
              rcases hw.all i hi with hf | hl
              · exact .inl (List.mem_cons_of_mem _ hf)
              · exact .inr hl }
      · cases hs

theorem runFrom_wf (I : Nat) : ∀ (log : List Access) (h0 h : Heap), h0.WF →
    Heap.runFrom I h0 log = some h → h.WF ∧ (∀ id ∈ h0.freed, id ∈ h.freed) ∧ h0.next ≤ h.next := by
  intro log
  induction log with
  | nil => intro h0 h hw hr; cases hr; exact ⟨hw, fun _ h => h, Nat.le_refl _⟩
  | cons a log ih =>
    intro h0 h hw hr
    rw [Heap.runFrom] at hr
    cases hm : Heap.runFrom I h0 log with
    | none => rw [hm] at hr; cases hr
    | some h1 =>
      rw [hm] at hr
      obtain ⟨w1, f1, n1⟩ := ih h0 h1 hw hm
      obtain ⟨w2, f2, n2⟩ := step_wf I h1 h a w1 hr
      exact ⟨w2, fun id hid => f2 id (f1 id hid), Nat.le_trans n1 n2⟩

theorem check_wf (I : Nat) (log : List Access) (h : Heap) (hc : Heap.check I log = some h) : h.WF :=
  (runFrom_wf I log {} h wf_init hc).1

/-- an access accepted by the monitor does not name a released block -/
theorem step_not_freed (I : Nat) (h h' : Heap) (a : Access) (hw : h.WF) (hs : h.step I a = some h')
    (id : Nat) (hid : id ∈ h.freed) : Blk.heap id ∉ blocksOf a := by
  have hnone := hw.disj id hid
  have hlt := hw.freedLt id hid
  have key : ∀ cap, h.cap I (.heap id) ≠ some cap := by
    intro cap hc
    rw [Heap.cap, hnone] at hc
    cases hc
  intro hmem
  cases a with
  | storeS b cap idx =>
    simp only [blocksOf, List.mem_singleton] at hmem; subst hmem
    simp only [Heap.step] at hs; split at hs
    · rename_i hc; exact key _ hc
    · cases hs
  | storeV b cap idx =>
    simp only [blocksOf, List.mem_singleton] at hmem; subst hmem
    simp only [Heap.step] at hs; split at hs
    · rename_i hc; exact key _ hc
    · cases hs
  | loadS b cap idx i =>
    simp only [blocksOf, List.mem_singleton] at hmem; subst hmem
    simp only [Heap.step] at hs; split at hs
    · rename_i hc; exact key _ hc
    · cases hs
  | loadV b cap idx i =>
    simp only [blocksOf, List.mem_singleton] at hmem; subst hmem
    simp only [Heap.step] at hs; split at hs
    · rename_i hc; exact key _ hc
    · cases hs
  | garbageV b cap idx =>
    simp only [blocksOf, List.mem_singleton] at hmem; subst hmem
    simp only [Heap.step] at hs; split at hs
    · rename_i hc; exact key _ hc
    · cases hs
  | copyS src sc dst dc n =>
    simp only [Heap.step] at hs; split at hs
    · rename_i hc
      simp only [blocksOf, List.mem_cons, List.not_mem_nil, or_false] at hmem
      rcases hmem with rfl | rfl
      · exact key _ hc.1
      · exact key _ hc.2
    · cases hs
  | copyV src sc dst dc n =>
    simp only [Heap.step] at hs; split at hs
    · rename_i hc
      simp only [blocksOf, List.mem_cons, List.not_mem_nil, or_false] at hmem
      rcases hmem with rfl | rfl
      · exact key _ hc.1
      · exact key _ hc.2
    · cases hs
  | allocFail n => simp [blocksOf] at hmem
  | alloc b n =>
    simp only [blocksOf, List.mem_singleton] at hmem; subst hmem
    simp only [Heap.step] at hs; split at hs
    · rename_i he; omega
    · cases hs
  | free b =>
    simp only [blocksOf, List.mem_singleton] at hmem; subst hmem
    simp only [Heap.step] at hs; split at hs
    · rename_i hl; rw [hnone] at hl; cases hl
    · cases hs

/-- **No use after release** (what acceptance by the monitor means, 1): once `YYSTACK_FREE (b)`
is in the log, no later entry — load, store, copy, another release, an allocation — names `b`.
(The log is newest first: `post` is what happened after the release.) -/
theorem check_no_use_after_free (I : Nat) (post pre : List Access) (b : Blk) (h : Heap)
    (hc : Heap.check I (post ++ .free b :: pre) = some h) : ∀ a ∈ post, b ∉ blocksOf a := by
  unfold Heap.check at hc
  rw [runFrom_append] at hc
  cases hm : Heap.runFrom I {} (.free b :: pre) with
  | none => rw [hm] at hc; cases hc
  | some h1 =>
    rw [hm] at hc
    simp only [Option.bind_some] at hc
    have hw1 := (runFrom_wf I _ {} h1 wf_init hm).1
    -- `b` is a heap block that `h1` lists as released
    rw [Heap.runFrom] at hm
    cases hm0 : Heap.runFrom I {} pre with
    | none => rw [hm0] at hm; cases hm
    | some h0 =>
      rw [hm0] at hm
      simp only [Option.bind_some] at hm
      cases b with
      | auto => simp only [Heap.step] at hm; cases hm
      | heap id =>
        have hfreed : id ∈ h1.freed := by
          simp only [Heap.step] at hm
          split at hm
          · cases hm; exact List.mem_cons_self
          · cases hm
        clear hm hm0
        -- induction over what follows
        revert h
        induction post with
        | nil => intro _ _ a ha; cases ha
        | cons a post ih =>
          intro h hc
          rw [Heap.runFrom] at hc
          cases hm2 : Heap.runFrom I h1 post with
          | none => rw [hm2] at hc; cases hc
          | some h2 =>
            rw [hm2] at hc
            simp only [Option.bind_some] at hc
            obtain ⟨w2, f2, _⟩ := runFrom_wf I post h1 h2 hw1 hm2
            intro a' ha'
            rcases List.mem_cons.mp ha' with rfl | ha'
            · exact step_not_freed I h2 h a' w2 hc id (f2 id hfreed)
            · exact ih h2 hm2 a' ha'

/-- the automatic arrays are never released, nothing but a heap block is ever allocated -/
theorem check_auto (I : Nat) : ∀ (log : List Access) (h : Heap), Heap.check I log = some h →
    Access.free .auto ∉ log := by
  intro log
  induction log with
  | nil => intro _ _ hm; cases hm
  | cons a log ih =>
    intro h hc hm
    unfold Heap.check at hc ih
    rw [Heap.runFrom] at hc
    cases hm1 : Heap.runFrom I {} log with
    | none => rw [hm1] at hc; cases hc
    | some h1 =>
      rw [hm1] at hc
      rcases List.mem_cons.mp hm with rfl | hm
      · simp only [Option.bind_some, Heap.step] at hc; cases hc
      · exact ih h1 hm1 hm

/-- number of `YYSTACK_ALLOC`s that returned block `id` -/
def allocCount (id : Nat) : List Access → Nat
  | [] => 0
  | .alloc (.heap i) _ :: log => (if i = id then 1 else 0) + allocCount id log
  | _ :: log => allocCount id log

/-- number of `YYSTACK_FREE`s of block `id` -/
def freeCount (id : Nat) : List Access → Nat
  | [] => 0
  | .free (.heap i) :: log => (if i = id then 1 else 0) + freeCount id log
  | _ :: log => freeCount id log

/-- **Counts** (what acceptance means, 2): block `id` was allocated once if `id` is below the
number of blocks handed out and never otherwise; it was released once if the allocator lists
it as released and never otherwise. -/
theorem check_counts (I : Nat) : ∀ (log : List Access) (h : Heap), Heap.check I log = some h →
    ∀ id, allocCount id log = (if id < h.next then 1 else 0) ∧
      freeCount id log = (if id ∈ h.freed then 1 else 0) := by
  intro log
  induction log with
  | nil =>
    intro h hc id
    cases hc
    simp [allocCount, freeCount]
  | cons a log ih =>
    intro h hc id
    have hc' := hc
    unfold Heap.check at hc ih
    rw [Heap.runFrom] at hc
    cases hm1 : Heap.runFrom I {} log with
    | none => rw [hm1] at hc; cases hc
    | some h1 =>
      rw [hm1] at hc
      simp only [Option.bind_some] at hc
      obtain ⟨ih1, ih2⟩ := ih h1 hm1 id
      have hw1 := check_wf I log h1 hm1
      have same : h = h1 → (∀ i n, a ≠ .alloc (.heap i) n) → (∀ i, a ≠ .free (.heap i)) →
          allocCount id (a :: log) = (if id < h.next then 1 else 0) ∧
          freeCount id (a :: log) = (if id ∈ h.freed then 1 else 0) := by
        intro he ha hf
        subst he
        constructor
        · rw [← ih1]
          cases a with
          | alloc b n => cases b with
            | auto => rfl
            | heap i => exact absurd rfl (ha i n)
          | _ => rfl
        · rw [← ih2]
          cases a with
          | free b => cases b with
            | auto => rfl
            | heap i => exact absurd rfl (hf i)
          | _ => rfl
      cases a with
      | storeS b cap idx =>
        simp only [Heap.step] at hc; split at hc <;> cases hc
        exact same rfl (fun _ _ h => by cases h) (fun _ h => by cases h)
      | storeV b cap idx =>
        simp only [Heap.step] at hc; split at hc <;> cases hc
        exact same rfl (fun _ _ h => by cases h) (fun _ h => by cases h)
      | loadS b cap idx i =>
        simp only [Heap.step] at hc; split at hc <;> cases hc
        exact same rfl (fun _ _ h => by cases h) (fun _ h => by cases h)
      | loadV b cap idx i =>
        simp only [Heap.step] at hc; split at hc <;> cases hc
        exact same rfl (fun _ _ h => by cases h) (fun _ h => by cases h)
      | garbageV b cap idx =>
        simp only [Heap.step] at hc; split at hc <;> cases hc
        exact same rfl (fun _ _ h => by cases h) (fun _ h => by cases h)
      | copyS src sc dst dc n =>
        simp only [Heap.step] at hc; split at hc <;> cases hc
        exact same rfl (fun _ _ h => by cases h) (fun _ h => by cases h)
      | copyV src sc dst dc n =>
        simp only [Heap.step] at hc; split at hc <;> cases hc
        exact same rfl (fun _ _ h => by cases h) (fun _ h => by cases h)
      | allocFail n =>
        simp only [Heap.step] at hc; cases hc
        exact same rfl (fun _ _ h => by cases h) (fun _ h => by cases h)
      | alloc b n =>
        cases b with
        | auto => simp only [Heap.step] at hc; cases hc
        | heap i =>
          simp only [Heap.step] at hc
          split at hc
          · rename_i hi
            cases hc
            constructor
            · show (if i = id then 1 else 0) + allocCount id log = if id < h1.next + 1 then 1 else 0
              rw [ih1, hi]
              by_cases h1' : h1.next = id
              · rw [if_pos h1', if_neg (by omega), if_pos (by omega)]
              · rw [if_neg h1']
                by_cases h2 : id < h1.next
                · rw [if_pos h2, if_pos (by omega)]
                · rw [if_neg h2, if_neg (by omega)]
            · exact ih2
          · cases hc
      | free b =>
        cases b with
        | auto => simp only [Heap.step] at hc; cases hc
        | heap i =>
          simp only [Heap.step] at hc
          split at hc
          · rename_i hl
            cases hc
            constructor
            · exact ih1
            · show (if i = id then 1 else 0) + freeCount id log = if id ∈ i :: h1.freed then 1 else 0
              rw [ih2]
              have hnotfreed : i ∉ h1.freed := fun hf => by rw [hw1.disj i hf] at hl; cases hl
              by_cases h1' : i = id
              · subst h1'
                rw [if_pos rfl, if_neg hnotfreed, if_pos List.mem_cons_self]
              · rw [if_neg h1']
                by_cases h2 : id ∈ h1.freed
                · rw [if_pos h2, if_pos (List.mem_cons_of_mem _ h2)]
                · rw [if_neg h2, if_neg (by
                    intro hm
                    rcases List.mem_cons.mp hm with rfl | hm
                    · exact h1' rfl
                    · exact h2 hm)]
          · cases hc

/-! ### the log of every execution is accepted -/

/-- the heap blocks the parser holds: none after `yyparse` has returned, none while the stacks
are in the automatic arrays, otherwise the block `yyss` points to -/
def liveOf (s : State V) : List (Nat × Nat) :=
  match s.status, s.loc with
  | .done _, _ => []
  | _, .auto => []
  | _, .heap id => [(id, s.ss.length)]

/-- the allocator's view that belongs to a state: the blocks `0 … nextId - 1` have been handed
out, all but the one the parser holds have been released, in this order -/
def heapOf (s : State V) : Heap :=
  { live := liveOf s, freed := (List.range (s.nextId - (liveOf s).length)).reverse, next := s.nextId }

/-- the monitor accepts the log and ends with the view that belongs to the state -/
def HeapInv (P : Params) (s : State V) : Prop := Heap.check P.I s.log = some (heapOf s)

theorem heapOf_congr (t s : State V) (h1 : t.status = s.status) (h2 : t.loc = s.loc)
    (h3 : t.ss.length = s.ss.length) (h4 : t.nextId = s.nextId) : heapOf t = heapOf s := by
  unfold heapOf liveOf
  rw [h1, h2, h3, h4]

theorem heap_plain (I : Nat) (h : Heap) (b : Blk) (cap : Nat) (hcap : h.cap I b = some cap) :
    ∀ (new log : List Access), Heap.check I log = some h → (∀ a ∈ new, plain b cap a) →
      Heap.check I (new ++ log) = some h := by
  intro new
  induction new with
  | nil => intro log hc _; exact hc
  | cons a new ih =>
    intro log hc hnew
    have h1 := ih log hc (fun a ha => hnew a (List.mem_cons_of_mem _ ha))
    have ha := hnew a List.mem_cons_self
    unfold Heap.check at h1 ⊢
    rw [List.cons_append, Heap.runFrom, h1]
    simp only [Option.bind_some]
    cases a with
    | storeS b' c i => obtain ⟨rfl, rfl⟩ := ha; simp only [Heap.step]; rw [if_pos hcap]
    | storeV b' c i => obtain ⟨rfl, rfl⟩ := ha; simp only [Heap.step]; rw [if_pos hcap]
    | loadS b' c i j => obtain ⟨rfl, rfl⟩ := ha; simp only [Heap.step]; rw [if_pos hcap]
    | loadV b' c i j => obtain ⟨rfl, rfl⟩ := ha; simp only [Heap.step]; rw [if_pos hcap]
    | garbageV b' c i => obtain ⟨rfl, rfl⟩ := ha; simp only [Heap.step]; rw [if_pos hcap]
    | copyS _ _ _ _ _ => exact ha.elim
    | copyV _ _ _ _ _ => exact ha.elim
    | alloc _ _ => exact ha.elim
    | allocFail _ => exact ha.elim
    | free _ => exact ha.elim

theorem loc_cases {s : State V}
    (h : s.loc = (match s.nextId with | 0 => .auto | k + 1 => .heap k)) :
    (s.loc = .auto ∧ s.nextId = 0) ∨ ∃ k, s.loc = .heap k ∧ s.nextId = k + 1 := by
  cases hn : s.nextId with
  | zero => rw [hn] at h; exact .inl ⟨h, rfl⟩
  | succ k => rw [hn] at h; exact .inr ⟨k, h, rfl⟩

/-- while the parser runs, the block `yyss` points to is usable and has `ss.length` slots in
the allocator's view (for the automatic arrays: `YYINITDEPTH` slots) -/
theorem cur_cap (P : Params) (hP : P.OK) (s : State V) (hr : s.status = .running)
    (hcap : s.ss.length = s.stacksize) (hsize : s.stacksize = min (P.I * 2 ^ s.nextId) P.M)
    (hw : s.loc = (match s.nextId with | 0 => .auto | k + 1 => .heap k)) :
    (heapOf s).cap P.I s.loc = some s.ss.length := by
  rcases loc_cases hw with ⟨hl, hn⟩ | ⟨k, hl, hn⟩
  · rw [hl]
    show some P.I = _
    rw [hcap, hsize, hn]
    have := hP.M
    simp only [Nat.pow_zero, Nat.mul_one]
    congr 1
    omega
  · rw [hl]
    show slotsOf (liveOf s) k = _
    unfold liveOf
    rw [hr, hl]
    simp [slotsOf]

theorem range_reverse_succ (k : Nat) : (List.range (k + 1)).reverse = k :: (List.range k).reverse := by
  rw [List.range_succ, List.reverse_append]
  rfl

/-- `yyreturnlab` entered from a running state: the loads are accepted, the block is released
if it is a heap block, afterwards the allocator holds nothing for the parser -/
theorem returnLab_heap (P : Params) (r : Result) (len : Nat) (s : State V)
    (hr : s.status = .running)
    (hc : (heapOf s).cap P.I s.loc = some s.ss.length)
    (hw : s.loc = (match s.nextId with | 0 => .auto | k + 1 => .heap k))
    (hlen : len ≤ s.ssp) (hsame : s.vsp = s.ssp) (htop : s.ssp < s.ss.length)
    (hcap : s.vs.length = s.ss.length)
    (hS : ∀ i, i ≤ s.ssp → isInit s.ss i = true) (hV : ∀ i, 1 ≤ i → i ≤ s.vsp → isInit s.vs i = true)
    (hh : HeapInv P s) : HeapInv P (returnLab r len s) := by
  obtain ⟨new, heq, hnew⟩ := returnLab_spec r len s hlen hsame htop hcap hS hV
  rw [heq]
  unfold HeapInv at hh ⊢
  have h1 := heap_plain P.I (heapOf s) s.loc s.ss.length hc new s.log hh (fun a ha => (hnew a ha).2)
  show Heap.check P.I (freeOf s.loc ++ (new ++ s.log)) = _
  rcases loc_cases hw with ⟨hl, hn⟩ | ⟨k, hl, hn⟩
  · rw [hl]
    show Heap.check P.I (new ++ s.log) = _
    rw [h1]
    congr 1
    unfold heapOf liveOf
    simp only [hr, hl]
  · rw [hl]
    unfold Heap.check at h1 ⊢
    show Heap.runFrom P.I {} (Access.free (.heap k) :: (new ++ s.log)) = _
    rw [Heap.runFrom, h1]
    simp only [Option.bind_some]
    unfold heapOf liveOf
    simp only [hr, hl, hn, Heap.step, slotsOf, if_true, Option.isSome_some, List.length_cons,
      List.length_nil]
    simp [range_reverse_succ]

theorem setState_heap (P : Params) (hP : P.OK) (st : Nat) (ok : Bool) (s : State V) (h : Pre P s)
    (hh : HeapInv P s) : HeapInv P (setState P st ok s) := by
  obtain ⟨c1, c2, c3, c4⟩ := setState_cases P hP st ok s
  have hc := cur_cap P hP s h.running h.capS h.size h.where_
  have htop : s.ssp < s.ss.length := by rw [h.capS]; exact h.room
  have hS := initS_stored st s htop h.initS
  have hlen : (s.ss.set s.ssp (some st)).length = s.ss.length := List.length_set ..
  -- the store itself
  have hstored : HeapInv P (stored st s) := by
    unfold HeapInv at hh ⊢
    rw [heapOf_congr (stored st s) s rfl rfl hlen rfl]
    exact heap_plain P.I (heapOf s) s.loc s.ss.length hc [.storeS s.loc s.ss.length s.ssp] s.log hh
      (fun a ha => by rcases List.mem_cons.mp ha with rfl | ha; exact ⟨rfl, rfl⟩; cases ha)
  have hfailed : HeapInv P (failed P st s) := by
    unfold HeapInv at hstored ⊢
    rw [heapOf_congr (failed P st s) (stored st s) rfl rfl rfl rfl]
    unfold Heap.check at hstored ⊢
    show Heap.runFrom P.I {} (.allocFail _ :: (stored st s).log) = _
    rw [Heap.runFrom, hstored]
    rfl
  rcases Nat.lt_or_ge (s.ssp + 1) s.stacksize with hlt | hge
  · rw [c1 hlt]; exact hstored
  · have heq : s.ssp + 1 = s.stacksize := by have := h.room; omega
    rcases Nat.lt_or_ge s.stacksize P.M with hM | hM
    · cases ok with
      | false =>
        rw [c3 heq hM rfl]
        refine returnLab_heap P .nomem 0 (failed P st s) h.running ?_ h.where_ (Nat.zero_le _) h.same
          (by show _ < (s.ss.set _ _).length; rw [hlen]; exact htop)
          (by show _ = (s.ss.set _ _).length; rw [hlen]; exact h.capV) hS h.initV hfailed
        rw [heapOf_congr (failed P st s) s rfl rfl hlen rfl]
        show _ = some (s.ss.set _ _).length
        rw [hlen]; exact hc
      | true =>
        rw [c4 heq hM rfl]
        have hlt := lt_newSize P s.stacksize (by omega) hM
        have hl1 : s.ssp + 1 ≤ (s.ss.set s.ssp (some st)).length := by rw [hlen]; omega
        have hrl : (relocate (s.ss.set s.ssp (some st)) (s.ssp + 1) (newSize P s.stacksize)).length =
            newSize P s.stacksize := length_relocate _ _ _ hl1 (by omega)
        unfold HeapInv at hstored ⊢
        rw [heapOf_congr (stored st s) s rfl rfl hlen rfl] at hstored
        unfold Heap.check at hstored ⊢
        have hrun := h.running
        have hcV := h.capV
        have hlog : (grown P st s).log = (freeOf s.loc ++
            [.copyV s.loc s.vs.length (.heap s.nextId) (newSize P s.stacksize) (s.ssp + 1),
             .copyS s.loc s.ss.length (.heap s.nextId) (newSize P s.stacksize) (s.ssp + 1),
             .alloc (.heap s.nextId) (newSize P s.stacksize)]) ++ (stored st s).log := by
          simp [grown, stored]
        rw [hlog, runFrom_append, hstored]
        simp only [Option.bind_some]
        rcases loc_cases h.where_ with ⟨hl, hn⟩ | ⟨k, hl, hn⟩
        · have hI : s.ss.length = P.I := by
            rw [hl] at hc
            exact (Option.some.inj hc).symm
          have hH : heapOf s = Heap.mk [] [] 0 := by
            unfold heapOf liveOf
            simp only [hrun, hl, hn]
            rfl
          have hG : heapOf (grown P st s) = Heap.mk [(0, newSize P s.stacksize)] [] 1 := by
            unfold heapOf liveOf
            simp only [grown, hrun, hn, hrl]
            rfl
          rw [hG, hH, hl, hn, hcV, hI]
          simp [freeOf, Heap.runFrom, Heap.step, Heap.cap, slotsOf]
        · have hH : heapOf s = Heap.mk [(k, s.ss.length)] (List.range k).reverse (k + 1) := by
            unfold heapOf liveOf
            simp only [hrun, hl, hn]
            simp
          have hG : heapOf (grown P st s) =
              Heap.mk [(k + 1, newSize P s.stacksize)] (k :: (List.range k).reverse) (k + 2) := by
            unfold heapOf liveOf
            simp only [grown, hrun, hn, hrl]
            simp [range_reverse_succ]
          rw [hG, hH, hl, hn, hcV]
          simp [freeOf, Heap.runFrom, Heap.step, Heap.cap, slotsOf]
    · rw [c2 heq hM]
      refine returnLab_heap P .nomem 0 (stored st s) h.running ?_ h.where_ (Nat.zero_le _) h.same
        (by show _ < (s.ss.set _ _).length; rw [hlen]; exact htop)
        (by show _ = (s.ss.set _ _).length; rw [hlen]; exact h.capV) hS h.initV hstored
      rw [heapOf_congr (stored st s) s rfl rfl hlen rfl]
      show _ = some (s.ss.set _ _).length
      rw [hlen]; exact hc

theorem cur_cap_inv (P : Params) (hP : P.OK) (s : State V) (h : Inv P s) (hr : s.status = .running) :
    (heapOf s).cap P.I s.loc = some s.ss.length :=
  cur_cap P hP s hr (h.capS hr) (h.size hr) h.where_

/-- plain accesses to the current block of a running state keep the allocator's view; so do
changes of the stack pointers -/
theorem plain_heap (P : Params) (hP : P.OK) (s t : State V) (h : Inv P s) (hr : s.status = .running)
    (hh : HeapInv P s) (new : List Access) (hnew : ∀ a ∈ new, plain s.loc s.ss.length a)
    (h1 : t.status = s.status) (h2 : t.loc = s.loc) (h3 : t.ss.length = s.ss.length)
    (h4 : t.nextId = s.nextId) (h5 : t.log = new ++ s.log) : HeapInv P t := by
  unfold HeapInv at hh ⊢
  rw [heapOf_congr t s h1 h2 h3 h4, h5]
  exact heap_plain P.I (heapOf s) s.loc s.ss.length (cur_cap_inv P hP s h hr) new s.log hh hnew

theorem pushed_heap (P : Params) (hP : P.OK) (v : V) (s : State V) (h : Inv P s)
    (hr : s.status = .running) (hh : HeapInv P s) : HeapInv P (pushed v s) :=
  plain_heap P hP s (pushed v s) h hr hh [.storeV s.loc s.vs.length (s.vsp + 1)]
    (fun a ha => by
      rcases List.mem_cons.mp ha with rfl | ha
      · exact ⟨rfl, h.capV⟩
      · cases ha) rfl rfl rfl rfl rfl

theorem shiftStep_heap (P : Params) (hP : P.OK) (st : Nat) (v : V) (ok : Bool) (s : State V)
    (h : Inv P s) (hr : s.status = .running) (hh : HeapInv P s) :
    HeapInv P (shiftStep P st v ok s) :=
  setState_heap P hP st ok _ (pre_pushed P v s h hr) (pushed_heap P hP v s h hr hh)

theorem preload_plain (n : Nat) (s : State V) (hc : s.vs.length = s.ss.length) :
    plain s.loc s.ss.length (preload n s) := by
  unfold preload
  split
  · exact ⟨rfl, hc⟩
  · exact ⟨rfl, hc⟩

theorem popped_heap (P : Params) (hP : P.OK) (n : Nat) (s : State V) (h : Inv P s)
    (hr : s.status = .running) (hh : HeapInv P s) : HeapInv P (popped n s) :=
  plain_heap P hP s (popped n s) h hr hh [preload n s]
    (fun a ha => by
      rcases List.mem_cons.mp ha with rfl | ha
      · exact preload_plain n s h.capV
      · cases ha) rfl rfl rfl rfl rfl

theorem fault_heap (P : Params) (s : State V) (hr : s.status = .running) (hh : HeapInv P s) :
    HeapInv P { s with status := .fault } := by
  unfold HeapInv at hh ⊢
  have : heapOf { s with status := .fault } = heapOf s := by
    unfold heapOf liveOf
    simp only [hr]
    cases s.loc <;> rfl
  rw [this]
  exact hh

theorem reduceStep_heap (P : Params) (hP : P.OK) (n st : Nat) (v : V) (ok : Bool) (s : State V)
    (h : Inv P s) (hr : s.status = .running) (hh : HeapInv P s) :
    HeapInv P (reduceStep P n st v ok s) := by
  rcases Nat.lt_or_ge s.ssp n with hn | hn
  · unfold reduceStep
    rw [if_pos hn]
    exact fault_heap P s hr hh
  · rw [reduceStep_eq P n st v ok s hn]
    have hi := inv_popped P n s h hr hn
    have hp := popped_heap P hP n s h hr hh
    have hq := pushed_heap P hP v (popped n s) hi hr hp
    have hpre := pre_pushed P v _ hi hr
    refine setState_heap P hP st ok _ (pre_log P _ _ hpre ?_) ?_
    · exact ⟨by have := h.top; omega, h.initS _ (by omega)⟩
    · -- one more plain load
      unfold HeapInv at hq ⊢
      have hc : (heapOf (pushed v (popped n s))).cap P.I s.loc = some s.ss.length := by
        rw [heapOf_congr (pushed v (popped n s)) s rfl rfl rfl rfl]
        exact cur_cap_inv P hP s h hr
      have := heap_plain P.I _ s.loc s.ss.length hc
        [.loadS s.loc s.ss.length (s.ssp - n) (isInit s.ss (s.ssp - n))] _ hq
        (fun a ha => by
          rcases List.mem_cons.mp ha with rfl | ha
          · exact ⟨rfl, rfl⟩
          · cases ha)
      exact this

theorem errPop_heap (P : Params) (hP : P.OK) : ∀ (k : Nat) (s : State V), Inv P s →
    s.status = .running → HeapInv P s → HeapInv P (errPop k s) := by
  intro k
  induction k with
  | zero => intro s _ _ hh; exact hh
  | succ k ih =>
    intro s h hr hh
    rw [errPop]
    split
    · exact returnLab_heap P .abort 0 s hr (cur_cap_inv P hP s h hr) h.where_ (Nat.zero_le _) h.same
        h.top h.capV h.initS h.initV hh
    · rename_i h0
      have hnew : ∀ a ∈ [Access.loadS s.loc s.ss.length (s.ssp - 1) (isInit s.ss (s.ssp - 1)),
          Access.loadV s.loc s.vs.length s.vsp (isInit s.vs s.vsp)], a.ok := by
        intro a ha
        simp only [List.mem_cons, List.not_mem_nil, or_false] at ha
        have htop := h.top
        rcases ha with rfl | rfl
        · exact ⟨by omega, h.initS _ (by omega)⟩
        · exact ⟨by rw [h.capV, h.same]; exact htop, h.initV _ (by rw [h.same]; omega) (Nat.le_refl _)⟩
      refine ih _ (inv_pop P 1 _ s h (by omega) hnew) hr ?_
      refine plain_heap P hP s _ h hr hh
        [.loadS s.loc s.ss.length (s.ssp - 1) (isInit s.ss (s.ssp - 1)),
          .loadV s.loc s.vs.length s.vsp (isInit s.vs s.vsp)] ?_ rfl rfl rfl rfl rfl
      intro a ha
      simp only [List.mem_cons, List.not_mem_nil, or_false] at ha
      rcases ha with rfl | rfl
      · exact ⟨rfl, rfl⟩
      · exact ⟨rfl, h.capV⟩

theorem finish_heap (P : Params) (hP : P.OK) (r : Result) (len : Nat) (s : State V) (h : Inv P s)
    (hr : s.status = .running) (hh : HeapInv P s) : HeapInv P (returnLab r len s) := by
  rcases Nat.lt_or_ge s.ssp len with hn | hn
  · unfold returnLab
    rw [if_pos hn]
    exact fault_heap P s hr hh
  · exact returnLab_heap P r len s hr (cur_cap_inv P hP s h hr) h.where_ hn h.same h.top h.capV
      h.initS h.initV hh

theorem step_heap (P : Params) (hP : P.OK) (s : State V) (e : Event V) (h : Inv P s)
    (hh : HeapInv P s) : HeapInv P (step P s e) := by
  unfold step
  split
  · rename_i hr
    cases e with
    | shift st v ok => exact shiftStep_heap P hP st v ok s h hr hh
    | reduce n st v ok => exact reduceStep_heap P hP n st v ok s h hr hh
    | errPop k => exact errPop_heap P hP k s h hr hh
    | finish r len => exact finish_heap P hP r len s h hr hh
  · exact hh

theorem run_heap (P : Params) (hP : P.OK) : ∀ (es : List (Event V)) (s : State V), Inv P s →
    HeapInv P s → HeapInv P (run P es s)
  | [], _, _, hh => hh
  | e :: es, s, h, hh =>
    run_heap P hP es (step P s e) (step_inv P hP s e h) (step_heap P hP s e h hh)

theorem init_heap (P : Params) (hP : P.OK) (ok : Bool) : HeapInv P (init P ok : State V) :=
  setState_heap P hP 0 ok _ (pre_start P hP) rfl

end Libconfig.C03SP
