import LibconfigModel.Read
import LibconfigModel.Proofs.C09
/-
  Helper lemmas for property C11 (reads release every file and buffer whatever
  point they fail at): the ledger invariant carried through `yylex` and the parser
  loop, and the unwinding performed by `readCore`.
-/
namespace Libconfig.C11P

open Libconfig Libconfig.C09P

/-! ### ledger algebra -/

theorem run_append (L : Ledger) (a b : List IOEvent) : L.run (a ++ b) = (L.run a).run b := by
  simp [Ledger.run, List.foldl_append]

theorem run_nil (L : Ledger) : L.run [] = L := rfl

theorem run_cons (L : Ledger) (e : IOEvent) (es : List IOEvent) : L.run (e :: es) = (L.step e).run es := rfl

/-- `Good w base L opens n`: the ledger `L` holds exactly `opens` (the streams of the
include stack) on top of `base` (what was open before the parse started), `n` live
include buffers, no buffer was deleted twice, and every stray `fclose` names a path that
cannot be opened at all (the model emits `fclose` for a frame whose current file failed to
open, where the C code tests `current_stream` first). -/
structure Good (w : World) (base : List Bytes) (L : Ledger) (opens : List Bytes) (n : Nat) : Prop where
  opened : L.opened = opens ++ base
  bufs : L.bufs = n
  under : L.under = 0
  stray : ∀ p ∈ L.stray, w.open? p = none

/-- everything in the list can be opened -/
def AllOpenable (w : World) (l : List Bytes) : Prop := ∀ p ∈ l, (w.open? p).isSome = true

/-- the contribution of one frame to `openOf` -/
def frameOpen (w : World) (f : Frame) : List Bytes :=
  match f.files[f.cur]? with
  | some p => if (w.open? p).isSome then [p] else []
  | none => []

/-- the `fclose` event(s) emitted when the stream of a frame is given up -/
def closeEv (f : Frame) : List IOEvent :=
  match f.files[f.cur]? with
  | some p => [IOEvent.fclose p]
  | none => []

theorem openOf_cons (w : World) (f : Frame) (fs : List Frame) :
    openOf w (f :: fs) = frameOpen w f ++ openOf w fs := rfl

theorem allOpenable_openOf (w : World) : ∀ fs, AllOpenable w (openOf w fs)
  | [] => fun _ h => by cases h
  | f :: fs => by
    intro p hp
    rw [openOf_cons, List.mem_append] at hp
    rcases hp with hp | hp
    · unfold frameOpen at hp
      split at hp
      · split at hp
        · rename_i h; simp only [List.mem_singleton] at hp; subst hp; exact h
        · cases hp
      · cases hp
    · exact allOpenable_openOf w fs p hp

theorem allOpenable_append {w : World} {a b : List Bytes} (ha : AllOpenable w a) (hb : AllOpenable w b) :
    AllOpenable w (a ++ b) := by
  intro p hp
  rcases List.mem_append.mp hp with h | h
  · exact ha p h
  · exact hb p h

/-- giving up the stream of the innermost frame -/
theorem good_close {w : World} {base : List Bytes} {L : Ledger} {f : Frame} {rest : List Bytes} {n : Nat}
    (hb : AllOpenable w base) (hr : AllOpenable w rest)
    (h : Good w base L (frameOpen w f ++ rest) n) :
    Good w base (L.run (closeEv f)) rest n := by
  unfold closeEv
  unfold frameOpen at h
  split
  · rename_i p hp
    rw [hp] at h
    simp only at h
    by_cases ho : (w.open? p).isSome = true
    · rw [if_pos ho] at h
      have hop : L.opened = p :: (rest ++ base) := by rw [h.opened]; rfl
      have hmem : p ∈ L.opened := by rw [hop]; exact List.mem_cons_self
      refine ⟨?_, ?_, ?_, ?_⟩
      · simp only [Ledger.run, List.foldl_cons, List.foldl_nil, Ledger.step, if_pos hmem]
        rw [hop, List.erase_cons_head]
      · simp only [Ledger.run, List.foldl_cons, List.foldl_nil, Ledger.step, if_pos hmem]; exact h.bufs
      · simp only [Ledger.run, List.foldl_cons, List.foldl_nil, Ledger.step, if_pos hmem]; exact h.under
      · simp only [Ledger.run, List.foldl_cons, List.foldl_nil, Ledger.step, if_pos hmem]; exact h.stray
    · rw [if_neg ho] at h
      have hnone : w.open? p = none := by
        cases hw : w.open? p with
        | none => rfl
        | some c => rw [hw] at ho; simp at ho
      have hnm : p ∉ L.opened := by
        intro hm
        rw [h.opened] at hm
        have := allOpenable_append hr hb p (by simpa using hm)
        exact ho this
      refine ⟨?_, ?_, ?_, ?_⟩
      · simp only [Ledger.run, List.foldl_cons, List.foldl_nil, Ledger.step, if_neg hnm]
        simpa using h.opened
      · simp only [Ledger.run, List.foldl_cons, List.foldl_nil, Ledger.step, if_neg hnm]; exact h.bufs
      · simp only [Ledger.run, List.foldl_cons, List.foldl_nil, Ledger.step, if_neg hnm]; exact h.under
      · simp only [Ledger.run, List.foldl_cons, List.foldl_nil, Ledger.step, if_neg hnm]
        intro q hq
        rcases List.mem_append.mp hq with hq | hq
        · exact h.stray q hq
        · simp only [List.mem_singleton] at hq; subst hq; exact hnone
  · rename_i hp
    rw [hp] at h
    exact h

theorem good_fopen_ok {w : World} {base : List Bytes} {L : Ledger} {opens : List Bytes} {n : Nat} (p : Bytes)
    (h : Good w base L opens n) : Good w base (L.step (.fopen p true)) (p :: opens) n :=
  ⟨by simp [Ledger.step, h.opened], h.bufs, h.under, h.stray⟩

theorem good_fopen_fail {w : World} {base : List Bytes} {L : Ledger} {opens : List Bytes} {n : Nat} (p : Bytes)
    (h : Good w base L opens n) : Good w base (L.step (.fopen p false)) opens n := h

theorem good_newBuf {w : World} {base : List Bytes} {L : Ledger} {opens : List Bytes} {n : Nat}
    (h : Good w base L opens n) : Good w base (L.step .newBuf) opens (n + 1) :=
  ⟨h.opened, by simp [Ledger.step, h.bufs], h.under, h.stray⟩

theorem good_delBuf {w : World} {base : List Bytes} {L : Ledger} {opens : List Bytes} {n : Nat}
    (h : Good w base L opens (n + 1)) : Good w base (L.step .delBuf) opens n := by
  have hb := h.bufs
  refine ⟨?_, ?_, ?_, ?_⟩ <;> simp only [Ledger.step, hb]
  · exact h.opened
  · exact h.under
  · exact h.stray

/-! ### the invariant on scanner states -/

/-- The ledger of the events so far holds exactly the streams of the include stack (on
top of `base`) and one buffer per frame. -/
def Inv (w : World) (base : List Bytes) (s : ScanState) : Prop :=
  Good w base (Ledger.run { opened := base } s.events) (openOf w s.stack) s.stack.length

end Libconfig.C11P

namespace Libconfig.C11P

open Libconfig Libconfig.C09P

/-! ### `libconfig_scanctx_next_include_file` -/

theorem frameOpen_of_none {w : World} {f : Frame} (h : f.files[f.cur]? = none) : frameOpen w f = [] := by
  unfold frameOpen; rw [h]

theorem nextIncludeFile_good (w : World) (base : List Bytes) (L : Ledger) (s : ScanState) (first : Bool)
    (f : Frame) (fs : List Frame) (n : Nat) (hst : s.stack = f :: fs) (hb : AllOpenable w base)
    (h : Good w base (L.run s.events) ((if first then [] else frameOpen w f) ++ openOf w fs) n) :
    (∃ cur', (nextIncludeFile w s first).1.stack = { f with cur := cur' } :: fs) ∧
    Good w base (L.run (nextIncludeFile w s first).1.events) (openOf w (nextIncludeFile w s first).1.stack) n ∧
    ((nextIncludeFile w s first).2.1 = none →
      openOf w (nextIncludeFile w s first).1.stack = openOf w fs) := by
  unfold nextIncludeFile
  rw [hst]
  simp only
  -- the ledger after the `fclose` of the stream given up (none for the first file of a frame)
  have hclosed : Good w base
      (L.run (s.events ++ (if first then [] else
        match f.files[f.cur]? with
        | some p => [IOEvent.fclose p]
        | none => []))) (openOf w fs) n := by
    cases first with
    | true => simpa using h
    | false =>
      simp only [Bool.false_eq_true, ↓reduceIte] at h ⊢
      rw [run_append]
      exact good_close hb (allOpenable_openOf w fs) h
  generalize (if first then ([] : List IOEvent) else
        match f.files[f.cur]? with
        | some p => [IOEvent.fclose p]
        | none => []) = ev at hclosed
  generalize (if first then 0 else f.cur + 1) = cur
  cases hf : f.files[cur]? with
  | none =>
    simp only
    have hfo : frameOpen w { f with cur := cur } = [] := frameOpen_of_none hf
    refine ⟨⟨cur, rfl⟩, ?_, fun _ => ?_⟩
    · rw [openOf_cons, hfo]; exact hclosed
    · rw [openOf_cons, hfo]; rfl
  | some p =>
    simp only
    cases hw : w.open? p with
    | some content =>
      simp only
      have hfo : frameOpen w { f with cur := cur } = [p] := by
        unfold frameOpen; simp [hf, hw]
      refine ⟨⟨cur, rfl⟩, ?_, fun hc => by cases hc⟩
      rw [openOf_cons, hfo, run_append]
      exact good_fopen_ok p hclosed
    | none =>
      simp only
      have hfo : frameOpen w { f with cur := cur } = [] := by
        unfold frameOpen; simp [hf, hw]
      refine ⟨⟨cur, rfl⟩, ?_, fun _ => ?_⟩
      · rw [openOf_cons, hfo, run_append]
        exact hclosed
      · rw [openOf_cons, hfo]; rfl

end Libconfig.C11P

namespace Libconfig.C11P

open Libconfig Libconfig.C09P

/-! ### the invariant through `yylex` -/

theorem yylex_inv (T : FlexTables) (acts : List ScanAct) (w : World) (ic : IncludeCfg) (base : List Bytes)
    (hb : AllOpenable w base) :
    ∀ (fuel : Nat) (s : ScanState), Inv w base s → Inv w base (yylex T acts w ic fuel s).1 := by
  intro fuel
  induction fuel with
  | zero => intro s h; rw [yylex]; exact h
  | succ fuel ih =>
    intro s h
    rw [yylex]
    split
    · split
      · exact h
      · rename_i f fs hst
        have hn := nextIncludeFile_good w base { opened := base } s false f fs (fs.length + 1) hst hb
          (by
            have := h
            unfold Inv at this
            rw [hst, openOf_cons] at this
            simpa using this)
        split
        rename_i s1 content err heq
        rw [heq] at hn; simp only at hn
        obtain ⟨⟨cur', hstack⟩, hgood, hnone⟩ := hn
        have hlen : s1.stack.length = fs.length + 1 := by rw [hstack]; rfl
        have h1 : Inv w base s1 := by unfold Inv; rw [hlen]; exact hgood
        split
        · -- next file of the frame: delete the buffer, create a new one
          apply ih
          unfold Inv
          simp only
          rw [run_append, run_cons, run_cons, run_nil, hlen]
          exact good_newBuf (good_delBuf hgood)
        · split
          · exact h1
          · -- pop
            apply ih
            unfold Inv
            simp only
            rw [run_append, run_cons, run_nil]
            rw [hnone rfl] at hgood
            exact good_delBuf hgood
    · rename_i rule len hnext
      extract_lets text lineno bol s'
      have hs' : Inv w base s' := h
      clear_value s'
      split
      all_goals try exact ih _ hs'
      all_goals try exact hs'
      rename_i path s2 _ errTok _
      have hs2 : Inv w base s2 := hs'
      clear_value s2 path
      split
      · exact hs2
      split
      · exact hs2
      · exact ih _ hs2
      · exact ih _ hs2
      · rename_i files hne _
        extract_lets s1
        have hn := nextIncludeFile_good w base { opened := base } s1 true
          { files := files, cur := 0, parent := s2.buf } s2.stack s2.stack.length rfl hb
          (by
            have h2 : Good w base (Ledger.run { opened := base } s2.events) (openOf w s2.stack)
                s2.stack.length := hs2
            simpa [s1] using h2)
        split
        rename_i s3 content err heq
        rw [heq] at hn; simp only at hn
        obtain ⟨⟨cur', hstack⟩, hgood, hnone⟩ := hn
        split
        · apply ih
          unfold Inv
          simp only
          rw [run_append, run_cons, run_nil, hstack]
          rw [hstack] at hgood
          exact good_newBuf hgood
        · unfold Inv
          simp only
          rw [hnone rfl] at hgood
          exact hgood

end Libconfig.C11P

namespace Libconfig.C11P

open Libconfig Libconfig.C09P

/-! ### the parser loop, the unwinding of `__config_read` -/

/-- the events `readCore` appends for the frames left on the stack -/
def unwindOf (st : List Frame) : List IOEvent :=
  st.flatMap fun f =>
    (match f.files[f.cur]? with | some p => [IOEvent.fclose p] | none => []) ++ [IOEvent.delBuf]

theorem unwind_good {w : World} {base : List Bytes} (hb : AllOpenable w base) :
    ∀ (st : List Frame) (L : Ledger), Good w base L (openOf w st) st.length →
      Good w base (L.run (unwindOf st)) [] 0
  | [], L, h => h
  | f :: fs, L, h => by
    have hc : Good w base (L.run (closeEv f)) (openOf w fs) (fs.length + 1) :=
      good_close hb (allOpenable_openOf w fs) (by rw [openOf_cons] at h; exact h)
    have hd := good_delBuf hc
    have := unwind_good hb fs _ hd
    have hu : unwindOf (f :: fs) = closeEv f ++ ([IOEvent.delBuf] ++ unwindOf fs) := by
      simp [unwindOf, closeEv]
    rw [hu, run_append, run_append]
    exact this

theorem readCore_events (w : World) (c : Config) (filename : Option Bytes) (inp : Bytes) (fuel : Nat) :
    (readCore w c filename inp fuel).events =
      (parseOf w (start c filename) filename inp fuel).1.events ++
        unwindOf (parseOf w (start c filename) filename inp fuel).1.stack := rfl

theorem parseOf_inv (w : World) (c0 : Config) (filename : Option Bytes) (inp : Bytes) (fuel : Nat)
    (base : List Bytes) (hb : AllOpenable w base) :
    Inv w base (parseOf w c0 filename inp fuel).1 :=
  yyparseLoop_scan _ (Inv w base) (fun s hs => yylex_inv _ _ _ _ base hb _ s hs) fuel _ _ _ _
    ⟨rfl, rfl, rfl, fun _ h => by cases h⟩

/-- whatever the outcome of the parse, when `readCore` returns the ledger is back to what
it was before -/
theorem readCore_good (w : World) (c : Config) (filename : Option Bytes) (inp : Bytes) (fuel : Nat)
    (base : List Bytes) (hb : AllOpenable w base) :
    Good w base (Ledger.run { opened := base } (readCore w c filename inp fuel).events) [] 0 := by
  rw [readCore_events, run_append]
  exact unwind_good hb _ _ (parseOf_inv w _ filename inp fuel base hb)

end Libconfig.C11P

namespace Libconfig.C11P

open Libconfig Libconfig.C09P Libconfig.C16P

/-! ### joint invariants of scanner state and parse context through the parser loop -/

structure Joint (E : ParserEnv) (K : ScanState → ParseCtx → Prop) : Prop where
  yyerror : ∀ s c line text, K s c → K s (c.yyerror line text)
  act : ∀ s c a v, K s c → K s (actCtx (runAction a c v s.buf.lineno s.currentFilename))
  lex : ∀ s c, K s c →
    match yylex E.T E.sacts E.w E.ic E.lexFuel s with
    | (s', .includeError _ text file line) =>
      K s' { c with cfg := { c.cfg with errText := some text, errFile := file, errLine := line } }
    | (s', _) => K s' c

theorem yyparseLoop_joint {E : ParserEnv} {K : ScanState → ParseCtx → Prop} (hK : Joint E K) :
    ∀ (fuel : Nat) (stack : List (Nat × TokVal)) (la : Lookahead) (s : ScanState) (ctx : ParseCtx),
      K s ctx → K (yyparseLoop E fuel stack la s ctx).1 (yyparseLoop E fuel stack la s ctx).2.1 := by
  intro fuel
  induction fuel with
  | zero => intro stack la s ctx h; rw [yyparseLoop]; exact h
  | succ fuel ih =>
    intro stack la s ctx hs
    rw [yyparseLoop.eq_def]
    split
    · rename_i h; cases h
    rename_i stack la s ctx _ _ _ _ _ fuel' hf
    cases hf
    extract_lets P v reduce syntaxError src fetched
    have hsyn : ∀ s c, K s c → K (syntaxError s c).1 (syntaxError s c).2.1 :=
      fun s c h => hK.yyerror _ _ _ _ h
    have hred : ∀ rule la s c, K s c → K (reduce rule la s c).1 (reduce rule la s c).2.1 := by
      intro rule la s c h
      have ha := hK.act s c (E.acts.getD rule .unknown) v h
      simp only [reduce]
      split
      · rename_i c' heq; rw [heq] at ha; exact ha
      · rename_i c' heq; rw [heq] at ha; exact ha
      · rename_i c' heq; rw [heq] at ha; exact ih _ _ _ _ ha
    have hfetch : K fetched.1 fetched.2.2.2 := by
      simp only [fetched]
      split
      · exact hs
      · have := hK.lex s ctx hs
        split <;> (rename_i heq; rw [heq] at this; exact this)
    clear_value fetched syntaxError reduce
    split
    · exact hs
    rename_i state v0 tail
    split
    · exact hK.yyerror _ _ _ _ hs
    split
    · exact hs
    extract_lets r dflt yyn
    have hdflt : ∀ la s c, K s c → K (dflt la s c).1 (dflt la s c).2.1 := by
      intro la s c h
      simp only [dflt]
      split
      · exact hsyn _ _ h
      · exact hred _ _ _ _ h
    clear_value dflt
    split
    · exact hdflt _ _ _ hs
    rcases fetched with ⟨s1, la1, r1, c1⟩
    simp only at hfetch
    split
    · rename_i heq; cases heq; exact hfetch
    · rename_i heq; cases heq; exact hfetch
    · rename_i heq; cases heq
      extract_lets tok idx a
      split
      · exact hdflt _ _ _ hfetch
      split
      · split
        · exact hsyn _ _ hfetch
        · exact hred _ _ _ _ hfetch
      · exact ih _ _ _ _ hfetch

end Libconfig.C11P

namespace Libconfig.C11P

open Libconfig Libconfig.C09P Libconfig.C16P

/-! ### every path the scanner mentions is recorded in the file-name vector -/

/-- The files of every frame, every path an event names and the top file name are in
`filenames` (the `strvec` that `__config_read` hands over to the configuration). -/
structure Names (s : ScanState) : Prop where
  frames : ∀ f ∈ s.stack, ∀ p ∈ f.files, p ∈ s.filenames
  events : ∀ e ∈ s.events, ∀ p, e.path = some p → p ∈ s.filenames
  top : ∀ p, s.topFile = some p → p ∈ s.filenames

theorem names_of {s s' : ScanState} (h : Names s) (hf : ∀ p ∈ s.filenames, p ∈ s'.filenames)
    (hst : ∀ f ∈ s'.stack, f ∈ s.stack ∨ ∀ p ∈ f.files, p ∈ s'.filenames)
    (hev : ∀ e ∈ s'.events, e ∈ s.events ∨ ∀ p, e.path = some p → p ∈ s'.filenames)
    (htop : s'.topFile = s.topFile) : Names s' where
  frames := fun f hfm p hp => by
    rcases hst f hfm with h1 | h1
    · exact hf p (h.frames f h1 p hp)
    · exact h1 p hp
  events := fun e he p hp => by
    rcases hev e he with h1 | h1
    · exact hf p (h.events e h1 p hp)
    · exact h1 p hp
  top := fun p hp => hf p (h.top p (htop ▸ hp))

theorem currentFilename_mem {s : ScanState} (h : Names s) (p : Bytes) (hp : s.currentFilename = some p) :
    p ∈ s.filenames := by
  unfold ScanState.currentFilename at hp
  split at hp
  · rename_i f fs hst
    exact h.frames f (by rw [hst]; exact List.mem_cons_self) p (List.mem_of_getElem? hp)
  · exact h.top p hp

theorem nextIncludeFile_names (w : World) (s : ScanState) (first : Bool) (f : Frame) (fs : List Frame)
    (hst : s.stack = f :: fs) :
    (nextIncludeFile w s first).1.filenames = s.filenames ∧
    (nextIncludeFile w s first).1.topFile = s.topFile ∧
    (∃ cur', (nextIncludeFile w s first).1.stack = { f with cur := cur' } :: fs) ∧
    (∀ e ∈ (nextIncludeFile w s first).1.events, e ∈ s.events ∨ ∀ p, e.path = some p → p ∈ f.files) := by
  unfold nextIncludeFile
  rw [hst]
  simp only
  have hev : ∀ e ∈ (if first then ([] : List IOEvent) else
        match f.files[f.cur]? with
        | some p => [IOEvent.fclose p]
        | none => []), ∀ p, e.path = some p → p ∈ f.files := by
    intro e he p hp
    cases first with
    | true => simp at he
    | false =>
      simp only [Bool.false_eq_true, ↓reduceIte] at he
      split at he
      · rename_i q hq
        simp only [List.mem_singleton] at he
        subst he
        simp only [IOEvent.path, Option.some.injEq] at hp
        subst hp
        exact List.mem_of_getElem? hq
      · cases he
  generalize (if first then ([] : List IOEvent) else
        match f.files[f.cur]? with
        | some p => [IOEvent.fclose p]
        | none => []) = ev at hev
  generalize (if first then 0 else f.cur + 1) = cur
  cases hf : f.files[cur]? with
  | none =>
    simp only
    refine ⟨trivial, trivial, ⟨cur, rfl⟩, fun e he => ?_⟩
    rcases List.mem_append.mp he with h | h
    · exact Or.inl h
    · exact Or.inr (hev e h)
  | some p =>
    simp only
    have hp : p ∈ f.files := List.mem_of_getElem? hf
    cases hw : w.open? p with
    | some content =>
      simp only
      refine ⟨trivial, trivial, ⟨cur, rfl⟩, fun e he => ?_⟩
      simp only [List.mem_append, List.mem_singleton] at he
      rcases he with (h | h) | h
      · exact Or.inl h
      · exact Or.inr (hev e h)
      · subst h; right; intro q hq; simp only [IOEvent.path, Option.some.injEq] at hq; subst hq; exact hp
    | none =>
      simp only
      refine ⟨trivial, trivial, ⟨cur, rfl⟩, fun e he => ?_⟩
      simp only [List.mem_append, List.mem_singleton] at he
      rcases he with (h | h) | h
      · exact Or.inl h
      · exact Or.inr (hev e h)
      · subst h; right; intro q hq; simp only [IOEvent.path, Option.some.injEq] at hq; subst hq; exact hp

/-- what one call of `yylex` guarantees about names -/
structure NamesPost (s : ScanState) (r : ScanState × LexOut) : Prop where
  names : Names r.1
  mono : ∀ p ∈ s.filenames, p ∈ r.1.filenames
  errFile : ∀ t text file line, r.2 = .includeError t text file line → file = r.1.currentFilename

theorem namesPost_trans {s s' : ScanState} {r : ScanState × LexOut}
    (hm : ∀ p ∈ s.filenames, p ∈ s'.filenames) (h : NamesPost s' r) : NamesPost s r :=
  ⟨h.names, fun p hp => h.mono p (hm p hp), h.errFile⟩

theorem namesPost_trans' {s s' : ScanState} {r : ScanState × LexOut}
    (h : NamesPost s' r) (hm : ∀ p ∈ s.filenames, p ∈ s'.filenames) : NamesPost s r :=
  namesPost_trans hm h

theorem namesPost_ret {s s' : ScanState} {o : LexOut} (h : Names s')
    (hm : ∀ p ∈ s.filenames, p ∈ s'.filenames)
    (ho : ∀ t text file line, o = .includeError t text file line → file = s'.currentFilename) :
    NamesPost s (s', o) := ⟨h, hm, ho⟩

theorem yylex_names (T : FlexTables) (acts : List ScanAct) (w : World) (ic : IncludeCfg) :
    ∀ (fuel : Nat) (s : ScanState), Names s → NamesPost s (yylex T acts w ic fuel s) := by
  intro fuel
  induction fuel with
  | zero => intro s h; rw [yylex]; exact namesPost_ret h (fun _ h => h) (fun _ _ _ _ h => by cases h)
  | succ fuel ih =>
    intro s h
    rw [yylex]
    split
    · split
      · exact namesPost_ret h (fun _ h => h) (fun _ _ _ _ h => by cases h)
      · rename_i f fs hst
        have hn := nextIncludeFile_names w s false f fs hst
        split
        rename_i s1 content err heq
        rw [heq] at hn; simp only at hn
        obtain ⟨hfn, htop, ⟨cur', hstack⟩, hev⟩ := hn
        have hfm : ∀ p ∈ f.files, p ∈ s.filenames := h.frames f (by rw [hst]; exact List.mem_cons_self)
        have h1 : Names s1 := names_of h (fun p hp => hfn ▸ hp)
          (fun g hg => by
            rw [hstack] at hg
            rcases List.mem_cons.mp hg with hg | hg
            · right; subst hg; intro p hp; rw [hfn]; exact hfm p hp
            · left; rw [hst]; exact List.mem_cons_of_mem _ hg)
          (fun e he => by
            rcases hev e he with h2 | h2
            · exact Or.inl h2
            · right; intro p hp; rw [hfn]; exact hfm p (h2 p hp))
          htop
        have hm1 : ∀ p ∈ s.filenames, p ∈ s1.filenames := fun p hp => hfn ▸ hp
        split
        · refine namesPost_trans' (ih _ ?_) hm1
          exact names_of h1 (fun _ hp => hp) (fun g hg => Or.inl hg)
            (fun e he => by
              simp only [List.mem_append, List.mem_cons, List.not_mem_nil, or_false] at he
              rcases he with he | he | he
              · exact Or.inl he
              · subst he; right; intro p hp; cases hp
              · subst he; right; intro p hp; cases hp) rfl
        · split
          · exact namesPost_ret h1 hm1 (fun _ _ _ _ h => by cases h; rfl)
          · refine namesPost_trans' (ih _ ?_) hm1
            exact names_of h1 (fun _ hp => hp)
              (fun g hg => by left; rw [hstack]; exact List.mem_cons_of_mem _ hg)
              (fun e he => by
                simp only [List.mem_append, List.mem_cons, List.not_mem_nil, or_false] at he
                rcases he with he | he
                · exact Or.inl he
                · subst he; right; intro p hp; cases hp) rfl
    · rename_i rule len hnext
      extract_lets text lineno bol s'
      have hs' : Names s' := ⟨h.frames, h.events, h.top⟩
      have hm' : ∀ p ∈ s.filenames, p ∈ s'.filenames := fun _ hp => hp
      clear_value s'
      have hnm : ∀ s'' : ScanState, s''.filenames = s'.filenames → s''.stack = s'.stack →
          s''.events = s'.events → s''.topFile = s'.topFile → Names s'' := fun s'' h1 h2 h3 h4 =>
        names_of hs' (fun p hp => h1 ▸ hp) (fun g hg => Or.inl (h2 ▸ hg)) (fun e he => Or.inl (h3 ▸ he)) h4
      have hrec : ∀ s'' : ScanState, s''.filenames = s'.filenames → s''.stack = s'.stack →
          s''.events = s'.events → s''.topFile = s'.topFile →
          NamesPost s (yylex T acts w ic fuel s'') := fun s'' h1 h2 h3 h4 =>
        namesPost_trans (fun p hp => h1 ▸ hm' p hp) (ih s'' (hnm s'' h1 h2 h3 h4))
      have hret : ∀ (s'' : ScanState) (o : LexOut), s''.filenames = s'.filenames → s''.stack = s'.stack →
          s''.events = s'.events → s''.topFile = s'.topFile →
          (∀ t text file line, o ≠ .includeError t text file line) →
          NamesPost s (s'', o) := fun s'' o h1 h2 h3 h4 ho =>
        namesPost_ret (hnm s'' h1 h2 h3 h4) (fun p hp => h1 ▸ hm' p hp)
          (fun t text file line h => absurd h (ho t text file line))
      split
      case h_7 =>
        rename_i path s2 _ errTok _
        have hs2 : Names s2 := ⟨hs'.frames, hs'.events, hs'.top⟩
        have hm2 : ∀ p ∈ s.filenames, p ∈ s2.filenames := hm'
        clear_value s2 path
        split
        · exact namesPost_ret hs2 hm2 (fun _ _ _ _ h => by cases h; rfl)
        split
        · exact namesPost_ret hs2 hm2 (fun _ _ _ _ h => by cases h; rfl)
        · exact namesPost_trans' (ih _ ⟨hs2.frames, hs2.events, hs2.top⟩) hm2
        · exact namesPost_trans' (ih _ ⟨hs2.frames, hs2.events, hs2.top⟩) hm2
        · rename_i files hne _
          extract_lets s1
          have hs1 : Names s1 := names_of hs2 (fun p hp => List.mem_append_left _ hp)
            (fun g hg => by
              rcases List.mem_cons.mp hg with hg | hg
              · right; subst hg; intro p hp; exact List.mem_append_right _ hp
              · exact Or.inl hg)
            (fun e he => Or.inl he) rfl
          have hm1 : ∀ p ∈ s.filenames, p ∈ s1.filenames := fun p hp => List.mem_append_left _ (hm2 p hp)
          have hn := nextIncludeFile_names w s1 true
            { files := files, cur := 0, parent := s2.buf } s2.stack rfl
          split
          rename_i s3 content err heq
          rw [heq] at hn; simp only at hn
          obtain ⟨hfn, htop, ⟨cur', hstack⟩, hev⟩ := hn
          have hfm : ∀ p ∈ files, p ∈ s1.filenames := fun p hp => List.mem_append_right _ hp
          have h3 : Names s3 := names_of hs1 (fun p hp => hfn ▸ hp)
            (fun g hg => by
              rw [hstack] at hg
              rcases List.mem_cons.mp hg with hg | hg
              · right; subst hg; intro p hp; rw [hfn]; exact hfm p hp
              · left; exact List.mem_cons_of_mem _ hg)
            (fun e he => by
              rcases hev e he with h2 | h2
              · exact Or.inl h2
              · right; intro p hp; rw [hfn]; exact hfm p (h2 p hp))
            htop
          have hm3 : ∀ p ∈ s.filenames, p ∈ s3.filenames := fun p hp => hfn ▸ hm1 p hp
          split
          · refine namesPost_trans' (ih _ ?_) hm3
            exact names_of h3 (fun _ hp => hp) (fun g hg => Or.inl hg)
              (fun e he => by
                simp only [List.mem_append, List.mem_cons, List.not_mem_nil, or_false] at he
                rcases he with he | he
                · exact Or.inl he
                · subst he; right; intro p hp; cases hp) rfl
          · refine namesPost_ret (s' := { s3 with stack := _ }) ?_ hm3 (fun _ _ _ _ h => by cases h; rfl)
            exact names_of h3 (fun _ hp => hp)
              (fun g hg => by left; rw [hstack]; exact List.mem_cons_of_mem _ hg)
              (fun e he => Or.inl he) rfl
      all_goals first
        | exact hrec _ rfl rfl rfl rfl
        | exact hret _ _ rfl rfl rfl rfl (fun _ _ _ _ h => by cases h)

end Libconfig.C11P

namespace Libconfig.C11P

open Libconfig Libconfig.C09P Libconfig.C16P

/-! ### the error file name stays inside the file-name vector -/

/-- semantic actions never touch `error_file` -/
def REf (c c' : ParseCtx) : Prop := c'.cfg.errFile = c.cfg.errFile

theorem ref_yyerror (c : ParseCtx) (line : Nat) (text : Bytes) : REf c (c.yyerror line text) := by
  unfold ParseCtx.yyerror REf
  split <;> rfl

theorem ref_actAggStart (c : ParseCtx) (ty line : Nat) (file : Option Bytes) :
    REf c (actCtx (actAggStart c ty line file)) := by
  unfold actAggStart REf
  repeat' split
  all_goals rfl

theorem ref_actValue (c : ParseCtx) (setter : Node → Option Node) (ty : Nat)
    (fmt : Option Nat) (line : Nat) (file : Option Bytes) (err : Bytes) :
    REf c (actCtx (actValue c setter ty fmt line file err)) := by
  unfold actValue
  extract_lets setFmt
  clear_value setFmt
  repeat' split
  all_goals first | rfl | exact ref_yyerror _ _ _

theorem ref_runAction (act : ParseAct) (c : ParseCtx) (v : TokVal) (line : Nat)
    (file : Option Bytes) : REf c (actCtx (runAction act c v line file)) := by
  cases act <;> simp only [runAction]
  all_goals first
    | rfl
    | exact ref_actAggStart _ _ _ _
    | exact ref_actValue _ _ _ _ _ _ _
    | skip
  case aggEnd => repeat' split
                 all_goals rfl
  case settingName =>
    repeat' split
    all_goals first | rfl | exact ref_yyerror _ _ _

/-- the scanner's names invariant together with "the error file is a recorded name" -/
def KErr (s : ScanState) (c : ParseCtx) : Prop :=
  Names s ∧ ∀ p, c.cfg.errFile = some p → p ∈ s.filenames

theorem joint_KErr (E : ParserEnv) : Joint E KErr where
  yyerror := fun s c line text h => ⟨h.1, fun p hp => h.2 p (ref_yyerror c line text ▸ hp)⟩
  act := fun s c a v h => ⟨h.1, fun p hp => h.2 p (ref_runAction a c v _ _ ▸ hp)⟩
  lex := fun s c h => by
    have hp := yylex_names E.T E.sacts E.w E.ic E.lexFuel s h.1
    generalize yylex E.T E.sacts E.w E.ic E.lexFuel s = r at hp
    rcases r with ⟨s', o⟩
    have hk : KErr s' c := ⟨hp.names, fun p hq => hp.mono p (h.2 p hq)⟩
    cases o with
    | includeError t text file line =>
      refine ⟨hp.names, fun p hq => ?_⟩
      have := hp.errFile t text file line rfl
      simp only at hq this
      rw [this] at hq
      exact currentFilename_mem hp.names p hq
    | tok t v => exact hk
    | eof => exact hk
    | echo b => exact hk
    | outOfFuel => exact hk

theorem scan0_names (filename : Option Bytes) (inp : Bytes) : Names (scan0 filename inp) where
  frames := fun f hf => by cases hf
  events := fun e he => by cases he
  top := fun p hp => by
    have : filename = some p := hp
    subst this
    exact List.mem_singleton.mpr rfl

theorem parseOf_KErr (w : World) (c0 : Config) (filename : Option Bytes) (inp : Bytes) (fuel : Nat)
    (h0 : c0.errFile = none) :
    KErr (parseOf w c0 filename inp fuel).1 (parseOf w c0 filename inp fuel).2.1 :=
  yyparseLoop_joint (joint_KErr _) fuel _ _ _ _
    ⟨scan0_names filename inp, fun p hp => by rw [h0] at hp; cases hp⟩

theorem start_errFile (c : Config) (filename : Option Bytes) : (start c filename).errFile = none := rfl

/-- every event of `readCore` names a recorded file -/
theorem readCore_events_named (w : World) (c : Config) (filename : Option Bytes) (inp : Bytes) (fuel : Nat) :
    ∀ e ∈ (readCore w c filename inp fuel).events, ∀ p, e.path = some p →
      p ∈ (readCore w c filename inp fuel).cfg.filenames := by
  have hk := (parseOf_KErr w (start c filename) filename inp fuel (start_errFile c filename)).1
  intro e he p hp
  rw [readCore_cfg, finish_filenames]
  rw [readCore_events] at he
  rcases List.mem_append.mp he with he | he
  · exact hk.events e he p hp
  · unfold unwindOf at he
    rw [List.mem_flatMap] at he
    obtain ⟨f, hf, he⟩ := he
    rcases List.mem_append.mp he with he | he
    · split at he
      · rename_i q hq
        simp only [List.mem_singleton] at he
        subst he
        simp only [IOEvent.path, Option.some.injEq] at hp
        subst hp
        exact hk.frames f hf _ (List.mem_of_getElem? hq)
      · cases he
    · simp only [List.mem_singleton] at he
      subst he
      cases hp

theorem readCore_errFile_named (w : World) (c : Config) (filename : Option Bytes) (inp : Bytes) (fuel : Nat) :
    ∀ p, (readCore w c filename inp fuel).cfg.errFile = some p →
      p ∈ (readCore w c filename inp fuel).cfg.filenames := by
  have hk := parseOf_KErr w (start c filename) filename inp fuel (start_errFile c filename)
  intro p hp
  rw [readCore_cfg] at hp ⊢
  rw [finish_filenames]
  by_cases hr : (parseOf w (start c filename) filename inp fuel).2.2 = .accept
  · have : (finish (parseOf w (start c filename) filename inp fuel)).errFile =
        (parseOf w (start c filename) filename inp fuel).2.1.cfg.errFile := by
      unfold finish; simp [hr]
    rw [this] at hp
    exact hk.2 p hp
  · rw [finish_errFile _ hr] at hp
    exact currentFilename_mem hk.1 p hp

end Libconfig.C11P
