import LibconfigModel.Proofs.C09LineMain
import LibconfigModel.Proofs.C09
/-
  C09L, from the core statement to the statement about a scanner run: the positional lexing
  relation `LexesToPos` (the tokens of a run, each with the scan state right after it was
  returned), the scan state `stateAfter … i` right after the token with index `i`, how such a run
  gives the position function `pos` of Proofs/C09LineStep.lean, and the arithmetic that turns
  "the items not yet read" into token indices (`offence`, `reportIndex` of DenotePos.lean).
-/
namespace Libconfig.C09L
open Libconfig C02P C05P C02C C01PP C04 C04R Denote C02D

/-! ### vocabulary -/

/-- `C02Denote.LexesToPlain` with positions: calling `yylex` repeatedly from `s` returns the
tokens of `ptoks` — each recorded with the scan state right after it was returned: the line
counter of the current buffer, the include stack, hence the current file — and then end of input,
ending in `s'`; no include error occurs.  (Files that are included successfully are read INSIDE a
call of `yylex`: the token returned may come from another file than the one before.) -/
inductive LexesToPos (E : ParserEnv) :
    ScanState → List ((Nat × TokVal) × ScanState) → ScanState → Prop where
  | eof (s s' : ScanState) : yylex E.T E.sacts E.w E.ic E.lexFuel s = (s', .eof) →
      LexesToPos E s [] s'
  | tok (s s₁ s' : ScanState) (t : Nat) (v : TokVal) (rest : List ((Nat × TokVal) × ScanState)) :
      yylex E.T E.sacts E.w E.ic E.lexFuel s = (s₁, .tok t v) → LexesToPos E s₁ rest s' →
      LexesToPos E s (((t, v), s₁) :: rest) s'

/-- the tokens of a run -/
def tokensOf (ptoks : List ((Nat × TokVal) × ScanState)) : List (Nat × TokVal) :=
  ptoks.map (·.1)

/-- the scan state right after the token with index `i` was returned; for the end-of-input
pseudo token (`i = ptoks.length`, or beyond): the state `sEnd` in which the scanner has reported
the end of the input -/
def stateAfter (ptoks : List ((Nat × TokVal) × ScanState)) (sEnd : ScanState) (i : Nat) :
    ScanState :=
  match ptoks[i]? with
  | some p => p.2
  | none => sEnd

theorem tokensOf_length (ptoks : List ((Nat × TokVal) × ScanState)) :
    (tokensOf ptoks).length = ptoks.length := List.length_map _

/-! ### from a run to the position function -/

/-- the scan state in which `n` tokens (the end marker included) are still to come -/
def posOf (s₀ : ScanState) (ptoks : List ((Nat × TokVal) × ScanState)) (sEnd : ScanState)
    (n : Nat) : ScanState :=
  if n = ptoks.length + 1 then s₀ else stateAfter ptoks sEnd (ptoks.length - n)

theorem lexQ_of_pos {E : ParserEnv} {s s' : ScanState} {ptoks : List ((Nat × TokVal) × ScanState)}
    (h : LexesToPos E s ptoks s') : ∀ pos : Nat → ScanState, pos (ptoks.length + 1) = s →
    (∀ j, j ≤ ptoks.length → pos (ptoks.length - j) = stateAfter ptoks s' j) →
    LexQ E pos (tokensOf ptoks ++ [tEOF]) := by
  induction h with
  | eof s s' hy =>
    intro pos h1 h2
    have h0 : pos 0 = s' := h2 0 (Nat.le_refl _)
    refine LexQ.eof ?_
    rw [h0]
    simp only [List.length_nil, Nat.zero_add] at h1
    rw [h1]
    exact hy
  | tok s s₁ s' t v rest hy _ ih =>
    intro pos h1 h2
    have hs1 : pos (rest.length + 1) = s₁ := h2 0 (Nat.zero_le _)
    have hlen : (tokensOf rest ++ [tEOF]).length = rest.length + 1 := by
      rw [List.length_append, tokensOf_length]; rfl
    refine LexQ.tok t v (tokensOf rest ++ [tEOF]) ?_ (ih pos hs1 ?_)
    · rw [hlen, hs1]
      simp only [List.length_cons] at h1
      rw [h1]
      exact hy
    · intro j hj
      have := h2 (j + 1) (by simp only [List.length_cons]; omega)
      simp only [List.length_cons, Nat.add_sub_add_right] at this
      rw [this]
      unfold stateAfter
      simp only [List.getElem?_cons_succ]

theorem lexQ_posOf {E : ParserEnv} {s₀ s' : ScanState} {ptoks : List ((Nat × TokVal) × ScanState)}
    (h : LexesToPos E s₀ ptoks s') : LexQ E (posOf s₀ ptoks s') (tokensOf ptoks ++ [tEOF]) := by
  refine lexQ_of_pos h _ ?_ ?_
  · unfold posOf
    rw [if_pos rfl]
  · intro j hj
    unfold posOf
    rw [if_neg (by omega)]
    congr 1
    omega

theorem posOf_le {s₀ s' : ScanState} {ptoks : List ((Nat × TokVal) × ScanState)} {n : Nat}
    (h : n ≤ ptoks.length) : posOf s₀ ptoks s' n = stateAfter ptoks s' (ptoks.length - n) := by
  unfold posOf
  rw [if_neg (by omega)]

/-! ### items and indices -/

theorem itemOf_string (t : Nat) (v : TokVal) :
    (∃ s, itemOf (t, v) = .string s) ↔ t = Generated.tokens.string := by
  constructor
  · intro ⟨s, h⟩
    rw [itemOf_eq] at h
    by_cases h0 : t = Generated.tokens.boolean
    · rw [if_pos h0] at h; cases h
    rw [if_neg h0] at h
    by_cases h1 : t = Generated.tokens.integer
    · rw [if_pos h1] at h; cases h
    rw [if_neg h1] at h
    by_cases h2 : t = Generated.tokens.integer64
    · rw [if_pos h2] at h; cases h
    rw [if_neg h2] at h
    by_cases h3 : t = Generated.tokens.hex
    · rw [if_pos h3] at h; cases h
    rw [if_neg h3] at h
    by_cases h4 : t = Generated.tokens.hex64
    · rw [if_pos h4] at h; cases h
    rw [if_neg h4] at h
    by_cases h5 : t = Generated.tokens.float
    · rw [if_pos h5] at h; cases h
    rw [if_neg h5] at h
    by_cases h6 : t = Generated.tokens.string
    · exact h6
    rw [if_neg h6] at h
    by_cases h7 : t = Generated.tokens.name
    · rw [if_pos h7] at h; cases h
    rw [if_neg h7] at h
    by_cases h8 : t = Generated.tokens.equals
    · rw [if_pos h8] at h; cases h
    rw [if_neg h8] at h
    by_cases h9 : t = Generated.tokens.arrayStart
    · rw [if_pos h9] at h; cases h
    rw [if_neg h9] at h
    by_cases h10 : t = Generated.tokens.arrayEnd
    · rw [if_pos h10] at h; cases h
    rw [if_neg h10] at h
    by_cases h11 : t = Generated.tokens.listStart
    · rw [if_pos h11] at h; cases h
    rw [if_neg h11] at h
    by_cases h12 : t = Generated.tokens.listEnd
    · rw [if_pos h12] at h; cases h
    rw [if_neg h12] at h
    by_cases h13 : t = Generated.tokens.groupStart
    · rw [if_pos h13] at h; cases h
    rw [if_neg h13] at h
    by_cases h14 : t = Generated.tokens.groupEnd
    · rw [if_pos h14] at h; cases h
    rw [if_neg h14] at h
    by_cases h15 : t = Generated.tokens.comma
    · rw [if_pos h15] at h; cases h
    rw [if_neg h15] at h
    by_cases h16 : t = Generated.tokens.semicolon
    · rw [if_pos h16] at h; cases h
    rw [if_neg h16] at h
    cases h
  · intro h
    subst h
    exact ⟨v.sval, rfl⟩

/-- the token at an index is a string literal iff the item behind it is one -/
theorem isStringAt_iff (toks : List (Nat × TokVal)) (i : Nat) :
    isStringAt toks i = true ↔ ∃ s, (toks.map itemOf)[i]? = some (.string s) := by
  unfold isStringAt
  rw [List.getElem?_map]
  cases h : toks[i]? with
  | none => simp
  | some tv =>
    obtain ⟨t, v⟩ := tv
    simp only [beq_iff_eq, Option.map_some, Option.some.injEq]
    exact (itemOf_string t v).symm

theorem getElem?_suffix {α : Type} {w l : List α} (h : w <:+ l) :
    l[l.length - w.length]? = w.head? := by
  obtain ⟨pre, rfl⟩ := h
  rw [List.length_append, Nat.add_sub_cancel, List.getElem?_append_right (Nat.le_refl _),
    Nat.sub_self]
  cases w <;> rfl

theorem isStringAt_suffix {toks : List (Nat × TokVal)} {w : List Denote.Item}
    (hw : w <:+ toks.map itemOf) :
    isStringAt toks (toks.length - w.length) = true ↔ ∃ s r, w = .string s :: r := by
  have hget := getElem?_suffix hw
  rw [List.length_map] at hget
  rw [isStringAt_iff, hget]
  cases w with
  | nil =>
    constructor
    · intro ⟨s, hs⟩; cases hs
    · intro ⟨s, r, h⟩; cases h
  | cons it tl =>
    constructor
    · intro ⟨s, hs⟩
      injection hs with hs
      exact ⟨s, tl, by rw [hs]⟩
    · intro ⟨s, r, h⟩
      injection h with h1 _
      exact ⟨s, by rw [h1]; rfl⟩

/-- **`reportIndex` is `reportAt` in terms of indices**: if the items not yet read at the
offence are `w`, the index of the token whose position is reported is the number of tokens in
front of `reportAt k w` -/
theorem reportIndex_eq {toks : List (Nat × TokVal)} {k : ErrKind} {w : List Denote.Item}
    (hw : w <:+ toks.map itemOf) :
    reportIndex toks (k, toks.length - w.length) = toks.length - (reportAt k w).length := by
  have hlen : w.length ≤ toks.length := by
    have := hw.length_le
    rw [List.length_map] at this
    exact this
  unfold reportIndex reportedLate
  simp only
  cases k
  case arrayElemType =>
    simp only [Bool.true_and]
    by_cases hstr : ∃ s r, w = .string s :: r
    · rw [(isStringAt_suffix hw).mpr hstr]
      obtain ⟨s, r, rfl⟩ := hstr
      simp only [if_true]
      show _ = toks.length - r.length
      simp only [List.length_cons] at hlen ⊢
      omega
    · have hf : isStringAt toks (toks.length - w.length) = false := by
        cases hi : isStringAt toks (toks.length - w.length) with
        | false => rfl
        | true => exact absurd ((isStringAt_suffix hw).mp hi) hstr
      rw [hf]
      have : reportAt .arrayElemType w = w := by
        cases w with
        | nil => rfl
        | cons it tl =>
          cases it
          case string s => exact absurd ⟨s, tl, rfl⟩ hstr
          all_goals rfl
      rw [this]
      rfl
  all_goals
    simp only [Bool.false_and]
    first | (rw [reportAt_syntax]; rfl) | (rw [reportAt_dup]; rfl)

theorem reportAt_length_le (k : ErrKind) (w : List Denote.Item) :
    (reportAt k w).length ≤ w.length := by
  cases k
  case arrayElemType =>
    cases w with
    | nil => exact Nat.le_refl _
    | cons it tl =>
      cases it
      case string s => exact Nat.le_succ _
      all_goals exact Nat.le_refl _
  all_goals
    first | (rw [reportAt_syntax]; exact Nat.le_refl _) | (rw [reportAt_dup]; exact Nat.le_refl _)

/-! ### the core statement, in terms of a run and of indices -/

/-- `offence_core` for a run with positions: the scan state in which `yyparse` returns, and the
line it records, are those right after the token with index `reportIndex …` -/
theorem position_core {E : ParserEnv} {o : Options} (hE : Compiled E)
    (ptoks : List ((Nat × TokVal) × ScanState)) (hraw : RawOK (tokensOf ptoks))
    (hnest : nesting (tokensOf ptoks) ≤ 1665) {fuel : Nat} {s₀ s₁ s' : ScanState}
    {ctx₀ ctx' : ParseCtx} {r : ParseResult} (hlex : LexesToPos E s₀ ptoks s₁)
    (hroot : stripPos ctx₀.cfg.root = { ty := T_GROUP }) (hpar : ctx₀.parent = some [])
    (hstr : ctx₀.str = none) (hinv : Inv true o ctx₀)
    (h : yyparse E fuel s₀ ctx₀ = (s', ctx', r)) (hr : r ≠ .outOfFuel)
    {k : ErrKind} {i : Nat} (hd : offence o (tokensOf ptoks) = some (k, i)) :
    r = .abort ∧ ctx'.cfg.errText = some k.text ∧
      ctx'.cfg.errLine =
        (stateAfter ptoks s₁ (reportIndex (tokensOf ptoks) (k, i))).buf.lineno ∧
      s' = stateAfter ptoks s₁ (reportIndex (tokensOf ptoks) (k, i)) := by
  unfold offence at hd
  cases hoa : offenceAt o (tokensOf ptoks) with
  | none => rw [hoa] at hd; cases hd
  | some p =>
    obtain ⟨k', w⟩ := p
    rw [hoa] at hd
    simp only [Option.map_some, Option.some.injEq, Prod.mk.injEq] at hd
    obtain ⟨rfl, rfl⟩ := hd
    have hw := offenceAt_suffix hoa
    have hwl : w.length ≤ ptoks.length := by
      have := hw.length_le
      rw [List.length_map, tokensOf_length] at this
      exact this
    have hrl : (reportAt k' w).length ≤ ptoks.length :=
      Nat.le_trans (reportAt_length_le k' w) hwl
    have hs0 : posOf s₀ ptoks s₁ ((tokensOf ptoks).length + 1) = s₀ := by
      unfold posOf
      rw [tokensOf_length, if_pos rfl]
    rw [← hs0] at h
    have hc := offence_core (pos := posOf s₀ ptoks s₁) hE (tokensOf ptoks) hraw hnest
      (lexQ_posOf hlex) hroot hpar hstr hinv h hr hoa
    rw [posOf_le hrl] at hc
    rw [reportIndex_eq hw, tokensOf_length]
    exact hc

/-! ### the top-level file name is never touched -/

theorem nextIncludeFile_topFile (w : World) (s : ScanState) (first : Bool) :
    (nextIncludeFile w s first).1.topFile = s.topFile :=
  (C09P.nextIncludeFile_spec w s first).1

theorem yylex_topFile (T : FlexTables) (acts : List ScanAct) (w : World) (ic : IncludeCfg)
    (K : Option Bytes) :
    ∀ (fuel : Nat) (s : ScanState), s.topFile = K → (yylex T acts w ic fuel s).1.topFile = K := by
  intro fuel
  induction fuel with
  | zero => intro s h; rw [yylex]; exact h
  | succ fuel ih =>
    intro s h
    rw [yylex]
    split
    · split
      · exact h
      · rename_i f fs hst
        have hn := nextIncludeFile_topFile w s false
        split
        rename_i s1 content err heq
        rw [heq] at hn; simp only at hn
        have h1 : s1.topFile = K := hn.trans h
        split
        · exact ih _ h1
        · split
          · exact h1
          · exact ih _ h1
    · rename_i rule len hnext
      extract_lets text lineno bol s'
      have hs' : s'.topFile = K := h
      clear_value s'
      split
      all_goals try exact ih _ hs'
      all_goals try exact hs'
      rename_i path s2 _ errTok _
      have hs2 : s2.topFile = K := hs'
      clear_value s2 path
      split
      · exact hs2
      split
      · exact hs2
      · exact ih _ hs2
      · exact ih _ hs2
      · rename_i files hne _
        extract_lets s1
        have hn := nextIncludeFile_topFile w s1 true
        split
        rename_i s3 content err heq
        rw [heq] at hn; simp only at hn
        have htop : s3.topFile = K := hn.trans hs2
        split
        · exact ih _ htop
        · exact htop

/-- every scan state of a run has the top-level file name of the first -/
theorem stateAfter_topFile {E : ParserEnv} {s s' : ScanState}
    {ptoks : List ((Nat × TokVal) × ScanState)} (h : LexesToPos E s ptoks s') (i : Nat) :
    (stateAfter ptoks s' i).topFile = s.topFile := by
  induction h generalizing i with
  | eof s s' hy =>
    have := yylex_topFile E.T E.sacts E.w E.ic s.topFile E.lexFuel s rfl
    rw [hy] at this
    exact this
  | tok s s₁ s' t v rest hy _ ih =>
    have h1 := yylex_topFile E.T E.sacts E.w E.ic s.topFile E.lexFuel s rfl
    rw [hy] at h1
    cases i with
    | zero => exact h1
    | succ j =>
      have := ih j
      unfold stateAfter at this ⊢
      simp only [List.getElem?_cons_succ]
      rw [this]
      exact h1

/-- outside included files the current file is the top-level file -/
theorem currentFilename_top {s : ScanState} (h : s.stack = []) : s.currentFilename = s.topFile := by
  unfold ScanState.currentFilename
  rw [h]

end Libconfig.C09L
