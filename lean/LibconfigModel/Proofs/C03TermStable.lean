import LibconfigModel.Proofs.C03TermLex
import LibconfigModel.Proofs.C03TermFuel
/-
  C03T, the model's fuel is not observable: above the bounds, neither the fuel handed to every
  `yylex` call nor the fuel of the parser loop changes what a read returns.
-/
namespace Libconfig.C03T
open Libconfig C03P

/-! ### the scanner -/

/-- with no readable file, an empty include stack and more fuel than bytes left, the result of
`yylex` does not depend on the fuel -/
theorem yylex_irrel_gen (T : FlexTables) (acts : List ScanAct) (hact : ActsOK T acts) (hpos : PosOK T)
    (w : World) (hw : NoFiles w) (ic : IncludeCfg) :
    ∀ (fuel : Nat) (s : ScanState), ScanOK s → s.stack = [] → s.buf.rest.length < fuel →
      ∀ fuel', s.buf.rest.length < fuel' → yylex T acts w ic fuel' s = yylex T acts w ic fuel s := by
  intro fuel
  induction fuel with
  | zero => intro s _ _ h; exact absurd h (Nat.not_lt_zero _)
  | succ fuel ih =>
    intro s h hst hlen fuel' hlen'
    cases fuel' with
    | zero => exact absurd hlen' (Nat.not_lt_zero _)
    | succ fuel' =>
    rw [yylex, yylex]
    split
    · split
      · rfl
      · rename_i f fs hst'
        rw [hst] at hst'; cases hst'
    · rename_i rule len hnext
      have hok := hact s.sc h.sc s.buf.bol s.buf.rest h.buf rule len hnext
      have hl := hpos s.sc h.sc s.buf.bol s.buf.rest rule len hnext
      extract_lets text lineno bol s' path s2
      have hs' : ScanOK s' := ⟨h.sc, fun x hx => h.buf x (List.mem_of_mem_drop hx), h.parents⟩
      have hst' : s'.stack = [] := hst
      have hlt0 : s'.buf.rest.length < s.buf.rest.length := by
        show (s.buf.rest.drop len).length < _
        rw [List.length_drop]; omega
      have h0 : Generated.SC_INITIAL < 5 := by decide
      have hrec : ∀ s'' : ScanState, s''.sc < 5 → s''.stack = s'.stack → s''.buf = s'.buf →
          yylex T acts w ic fuel' s'' = yylex T acts w ic fuel s'' := by
        intro s'' h1 h2 h3
        exact ih s'' ⟨h1, h3 ▸ hs'.buf, h2 ▸ hs'.parents⟩ (h2.trans hst') (by rw [h3]; omega) fuel'
          (by rw [h3]; omega)
      have hs2 : s2.sc = s'.sc ∧ s2.stack = s'.stack ∧ s2.buf = s'.buf := ⟨rfl, rfl, rfl⟩
      clear_value s' path s2
      split
      all_goals try (rename_i heq; rw [heq] at hok)
      all_goals try (exact absurd hok (by decide))
      all_goals try (exact hrec _ hs'.sc rfl rfl)
      all_goals try rfl
      case h_1 =>
        rename_i sc
        have hsc : sc < 5 := by simpa [actOK] using hok
        exact hrec _ hsc rfl rfl
      case h_7 =>
        obtain ⟨e1, e2, e3⟩ := hs2
        split
        · rfl
        split
        · rfl
        · exact hrec _ h0 e2 e3
        · exact hrec _ h0 e2 e3
        · rename_i files hne _
          extract_lets s1
          have hnone := nif_noFiles w hw s1 true
          split
          rename_i s3 content err heq
          rw [heq] at hnone; simp only at hnone
          subst hnone
          rfl

theorem yylex_irrel (w : World) (hw : NoFiles w) (ic : IncludeCfg) (fuel fuel' : Nat) (s : ScanState)
    (hs : ScanOK s) (hst : s.stack = []) (hf : s.buf.rest.length < fuel)
    (hf' : s.buf.rest.length < fuel') : lex w ic fuel' s = lex w ic fuel s :=
  yylex_irrel_gen _ _ gen_actsOK (fun sc hsc bol inp r n h => next_pos sc hsc bol inp r n h)
    w hw ic fuel s hs hst hf fuel' hf'

/-! ### the parser loop under a change of the scanner's fuel -/

theorem yystep_lexFuel (E : ParserEnv) (f' : Nat) (X : PState)
    (h : yylex E.T E.sacts E.w E.ic f' X.s = yylex E.T E.sacts E.w E.ic E.lexFuel X.s) :
    yystep { E with lexFuel := f' } X = yystep E X := by
  rcases X with ⟨stack, la, s, ctx⟩
  unfold yystep
  dsimp only at h ⊢
  rw [h]

/-- if the two fuels give the same `yylex` results on a set `J` of scanner states that `yylex`
does not leave, the loop started in `J` does not notice the difference -/
theorem loop_lexFuel (E : ParserEnv) (f' : Nat) (J : ScanState → Prop)
    (hJ : ∀ s, J s → J (yylex E.T E.sacts E.w E.ic E.lexFuel s).1)
    (hagree : ∀ s, J s → yylex E.T E.sacts E.w E.ic f' s = yylex E.T E.sacts E.w E.ic E.lexFuel s) :
    ∀ (fuel : Nat) (X : PState), J X.s →
      yyparseLoop { E with lexFuel := f' } fuel X.stack X.la X.s X.ctx =
        yyparseLoop E fuel X.stack X.la X.s X.ctx := by
  intro fuel
  induction fuel with
  | zero =>
    intro X _
    rw [yyparseLoop, yyparseLoop]
  | succ fuel ih =>
    intro X hX
    rw [yyparseLoop_succ, yyparseLoop_succ, yystep_lexFuel E f' X (hagree _ hX)]
    generalize hs : yystep E X = o
    cases o with
    | inl r => rfl
    | inr Y =>
      refine ih Y ?_
      rcases yystep_scan E X Y hs with h | h
      · rw [h]; exact hX
      · rw [h]; exact hJ _ hX

/-! ### a whole read -/

/-- the parse performed by `readCore` does not depend on the fuel, above `8·|inp| + 10` -/
theorem parseOf_irrel (w : World) (hw : NoFiles w) (c0 : Config) (filename : Option Bytes)
    (inp : Bytes) (hi : BytesOK inp) (fuel fuel' : Nat) (hf : 8 * inp.length + 10 ≤ fuel)
    (hf' : 8 * inp.length + 10 ≤ fuel') :
    C09P.parseOf w c0 filename inp fuel = C09P.parseOf w c0 filename inp fuel' := by
  unfold C09P.parseOf
  have hs : ScanOK (C09P.scan0 filename inp) := ⟨Nat.zero_lt_succ 4, hi, fun f hf => by cases hf⟩
  have hlen0 : (C09P.scan0 filename inp).buf.rest.length = inp.length := rfl
  -- the loop's own fuel
  obtain ⟨toks, s', hl, hlen⟩ := lexes_exists (theEnv w c0 fuel)
    (fun s hs hst hf => yylex_strict w hw _ fuel s hs hst hf) inp.length (C09P.scan0 filename inp) hs rfl
    (Nat.le_refl _) (by show inp.length < fuel; omega)
  rw [hlen0] at hlen
  have h1 := yyparse_stable (E := theEnv w c0 fuel) C02P.edges_ok ranks_ok fuel fuel'
    (C09P.scan0 filename inp) s' { cfg := c0 } toks hl
    (by show (7 + 1) * (toks.length + 1) + 1 + 1 ≤ fuel; omega)
    (by show (7 + 1) * (toks.length + 1) + 1 + 1 ≤ fuel'; omega)
  -- the scanner's fuel
  have h2 := loop_lexFuel (theEnv w c0 fuel) fuel'
    (fun s => ScanOK s ∧ s.stack = [] ∧ s.buf.rest.length ≤ inp.length)
    (fun s hJ => by
      have := yylex_strict w hw { fn := c0.includeFn, dir := c0.includeDir } fuel s hJ.1 hJ.2.1
        (by have := hJ.2.2; omega)
      exact ⟨this.ok, this.stack, Nat.le_trans this.le hJ.2.2⟩)
    (fun s hJ => yylex_irrel w hw { fn := c0.includeFn, dir := c0.includeDir } fuel fuel' s hJ.1 hJ.2.1
      (by have := hJ.2.2; omega) (by have := hJ.2.2; omega))
    fuel' (initial (C09P.scan0 filename inp) { cfg := c0 }) ⟨hs, rfl, Nat.le_refl _⟩
  exact h1.trans h2.symm

/-- what `readCore` makes of the outcome of the parse -/
def outOf (c : Config) (p : ScanState × ParseCtx × ParseResult) : ReadOut :=
  let log0 := ((c.setError ERR_NONE none).clear).2
  let unwind : List IOEvent := p.1.stack.flatMap fun f =>
    (match f.files[f.cur]? with | some p => [IOEvent.fclose p] | none => []) ++ [IOEvent.delBuf]
  { cfg := C09P.finish p, ok := p.2.2 == .accept, result := p.2.2, dtorLog := log0 ++ p.2.1.log,
    events := p.1.events ++ unwind }

theorem readCore_eq (w : World) (c : Config) (filename : Option Bytes) (inp : Bytes) (fuel : Nat) :
    readCore w c filename inp fuel =
      outOf c (C09P.parseOf w (C09P.start c filename) filename inp fuel) := rfl

end Libconfig.C03T
