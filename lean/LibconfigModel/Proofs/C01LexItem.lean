import LibconfigModel.Proofs.C01LexSeq
import LibconfigModel.Properties.C18
/-
  C01L, part 9 (M1 summary) — every good item other than a string literal is one lexeme of the
  INITIAL start condition, for the table-driven matcher and for the documented rule list
  (through `C18_equiv`).
-/
namespace Libconfig.C01L
open Flex ScanSpec

/-- the scanner rule (number in scanner.l) that reads the item; 0 for a string literal, which
takes several rules, and for `???` -/
def itemRule : WTok → Nat
  | .ws b => if b = [10] then 28 else 29
  | .name _ => 36
  | .assign _ => 30
  | .semi => 46
  | .comma => 31
  | .punct c => punctRule c
  | .bool v => if v then 34 else 35
  | .int bits _ hex => if bits == 64 then (if hex then 41 else 39) else (if hex then 40 else 38)
  | .float .. => 37
  | .str _ => 0
  | .unknown => 0

def isStr : WTok → Bool
  | .str _ => true
  | _ => false

/-- a good item that is not a string literal is one lexeme of its rule, delimited by the
bytes of `itemFollow` -/
theorem item_lexeme (t : WTok) (hg : GoodTok t) (hns : isStr t = false) :
    Lexeme t.bytes (itemRule t) (itemFollow t) ∧ itemRule t ≠ 0 := by
  cases t with
  | ws b =>
    simp only [GoodTok] at hg
    rcases hg with rfl | ⟨hne, hb⟩
    · exact ⟨lex_punct 10 (by decide), by first | decide | simp [itemRule]⟩
    · have h10 := blank_ne_nl' hb
      simp only [itemRule, itemFollow, h10, if_false, WTok.bytes]
      exact ⟨lex_blank b hne hb, by first | decide | simp [itemRule]⟩
  | name nm =>
    simp only [GoodTok] at hg
    exact ⟨(lex_name nm hg.1 hg.2).weaken delim_nameFollow, by first | decide | simp [itemRule]⟩
  | assign c =>
    simp only [GoodTok] at hg
    rcases hg with rfl | rfl
    · exact ⟨lex_punct 61 (by decide), by first | decide | simp [itemRule]⟩
    · exact ⟨lex_punct 58 (by decide), by first | decide | simp [itemRule]⟩
  | semi => exact ⟨lex_punct 59 (by decide), by first | decide | simp [itemRule]⟩
  | comma => exact ⟨lex_punct 44 (by decide), by first | decide | simp [itemRule]⟩
  | punct c =>
    simp only [GoodTok] at hg
    rcases hg with rfl | rfl | rfl | rfl | rfl | rfl <;> exact ⟨lex_punct _ (by decide), by first | decide | simp [itemRule]⟩
  | bool v =>
    cases v
    · simp only [WTok.bytes, Bool.false_eq_true, if_false, C01P.bytes_false, itemRule]
      exact ⟨lex_false.weaken delim_nameFollow, by first | decide | simp [itemRule]⟩
    · simp only [WTok.bytes, if_true, C01P.bytes_true, itemRule]
      exact ⟨lex_true.weaken delim_nameFollow, by first | decide | simp [itemRule]⟩
  | int bits v hex =>
    simp only [GoodTok] at hg
    obtain ⟨neg, ds, hds, hne, hdig⟩ := intToDec_shape v
    rcases hg with ⟨rfl, _⟩ | ⟨rfl, _⟩ <;> cases hex
    · have e : (WTok.int 32 v false).bytes = signBytes neg ++ ds := by simp [WTok.bytes, hds]
      rw [e]; exact ⟨lex_dec neg ds hne hdig, by first | decide | simp [itemRule]⟩
    · have e : (WTok.int 32 v true).bytes = [48, 120] ++ hexOfInt 32 v := by simp [WTok.bytes]
      rw [e]; exact ⟨lex_hex _ (C01P.natToHex_ne_nil _) (C01P.natToHex_digits _), by first | decide | simp [itemRule]⟩
    · have e : (WTok.int 64 v false).bytes = signBytes neg ++ ds ++ [76] := by simp [WTok.bytes, hds]
      rw [e]; exact ⟨lex_dec64 neg ds hne hdig, by first | decide | simp [itemRule]⟩
    · have e : (WTok.int 64 v true).bytes = [48, 120] ++ hexOfInt 64 v ++ [76] := by simp [WTok.bytes]
      rw [e]; exact ⟨lex_hex64 _ (C01P.natToHex_ne_nil _) (C01P.natToHex_digits _), by first | decide | simp [itemRule]⟩
  | float b text =>
    simp only [GoodTok] at hg
    obtain ⟨neg, ip, fp, ex, rfl, hne, hip, hfp, hex, hsome⟩ := hg.1
    exact ⟨lex_float neg ip fp ex hne hip hfp hex hsome, by first | decide | simp [itemRule]⟩
  | str x => cases hns
  | unknown => exact absurd hg (by simp [GoodTok])

/-- **M1, table side**: the compiled matcher, in INITIAL, at or away from the beginning of a
line, on the item followed by anything that starts with one of its delimiters, selects the
item's rule and exactly the item's bytes -/
theorem item_next (t : WTok) (hg : GoodTok t) (hns : isStr t = false) (rest : Bytes)
    (hf : FollowOK (itemFollow t) rest) (bol : Bool) :
    next T 0 bol (t.bytes ++ rest) = some (itemRule t, t.bytes.length) :=
  (item_lexeme t hg hns).1.next (item_lexeme t hg hns).2 bol rest hf

/-- **M1, specification side**: the same for the documented rule list — `t.bytes` is the
longest prefix matched by an active rule, and `itemRule t` is the earliest rule matching it -/
theorem item_selects (t : WTok) (hg : GoodTok t) (hns : isStr t = false) (rest : Bytes)
    (hf : FollowOK (itemFollow t) rest) (hrest : ∀ b ∈ rest, b < 256) (bol : Bool) :
    Selects documented 0 bol (t.bytes ++ rest) (itemRule t) t.bytes.length := by
  have hb : ∀ b ∈ t.bytes ++ rest, b < 256 := mem_append_lt (item_lexeme t hg hns).1.lt hrest
  rw [← C18.C18_flex_longest_first 0 (by omega) bol _ hb]
  exact item_next t hg hns rest hf bol

end Libconfig.C01L
