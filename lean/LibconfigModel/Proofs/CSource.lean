import LibconfigModel.Generated.CSource
/-
  Proofs for `Properties/CSource.lean`: each translated C function body of
  `Generated/CSource.lean`, run by `exec` of `CSrc.lean`, computes what the
  corresponding model function of `Api.lean` / `Tree.lean` says.  Pattern:
  unfold the body with `simp only [exec, eval, ...]`, split on the type code
  (and option bit / range test), close each branch with `simp` + `omega`.
-/
set_option linter.unusedSimpArgs false
namespace Libconfig.CSrc
open Libconfig.Generated.CSource

theorem wrap32_small (k : Nat) (h : k < 65536) : wrap32 (k : Int) = k := by
  unfold wrap32; simp only []; split <;> omega
theorem wrap32_fits (v : Int) (h1 : -2147483648 ≤ v) (h2 : v ≤ 2147483647) : wrap32 v = v := by
  unfold wrap32; simp only []; split <;> omega
theorem wrap64_fits (v : Int) (h1 : -9223372036854775808 ≤ v) (h2 : v ≤ 9223372036854775807) : wrap64 v = v := by
  unfold wrap64; simp only []; split <;> omega

theorem fits32_iff (v : Int) : fits32 v = true ↔ (-2147483648 ≤ v ∧ v ≤ 2147483647) := by
  unfold fits32
  rw [Bool.and_eq_true, decide_eq_true_eq, decide_eq_true_eq]; exact Iff.rfl
theorem fits64_iff (v : Int) : fits64 v = true ↔ (-9223372036854775808 ≤ v ∧ v ≤ 9223372036854775807) := by
  unfold fits64
  rw [Bool.and_eq_true, decide_eq_true_eq, decide_eq_true_eq]; exact Iff.rfl

theorem xor_mask32 (x : Nat) (h : x < 4294967296) : 4294967295 ^^^ x = 4294967295 - x := by
  apply Nat.eq_of_testBit_eq
  intro i
  have e1 : (4294967295 : Nat) = 2 ^ 32 - 1 := by decide
  have e2 : 4294967295 - x = 2 ^ 32 - (x + 1) := by omega
  rw [Nat.testBit_xor, e2, Nat.testBit_two_pow_sub_succ (by omega), e1, Nat.testBit_two_pow_sub_one]
  by_cases hi : i < 32
  · simp [hi]
  · have : x.testBit i = false :=
      Nat.testBit_lt_two_pow (Nat.lt_of_lt_of_le h (Nat.pow_le_pow_right (n := 2) (by decide) (by omega : 32 ≤ i)))
    simp [hi, this]

theorem u32_lt (v : Int) : u32 v < 4294967296 := by unfold u32; omega
theorem u32_sint32 (x : Nat) (h : x < 4294967296) : u32 (sint32 x) = x := by
  unfold u32 sint32; split <;> omega
theorem sint32_u32 (v : Int) (h : fits32 v = true) : sint32 (u32 v) = v := by
  have := (fits32_iff v).1 h
  unfold u32 sint32; split <;> omega
theorem sint32_store (raw : Nat) (v : Int) (h : fits32 v = true) :
    sint32 (raw / 4294967296 * 4294967296 + u32 v) = v := by
  have := (fits32_iff v).1 h
  unfold u32 sint32; split <;> omega
theorem sint32_store' (raw : Nat) (v : Int) (h : fits32 v = true) :
    sint32 (raw / 4294967296 * 4294967296 + (v % 4294967296).toNat) = v := sint32_store raw v h
theorem sint64_u64 (v : Int) (h : fits64 v = true) : sint64 (u64 v) = v := by
  have := (fits64_iff v).1 h
  unfold u64 sint64; split <;> omega
theorem sint32_range (x : Nat) : -2147483648 ≤ sint32 x ∧ sint32 x ≤ 2147483647 := by
  unfold sint32; split <;> omega
theorem u16_small (k : Nat) (h : k < 65536) : u16 (k : Int) = k := by unfold u16; omega
theorem sint32_inj (a b : Nat) (ha : a < 4294967296) (hb : b < 4294967296) (h : sint32 a = sint32 b) : a = b := by
  unfold sint32 at h; split at h <;> split at h <;> omega
theorem p_get_int (n : Node) (c : Config) (st : St) (h : Rep n c st) :
    exec src_config_setting_get_int.body st =
      match n.getInt (c.opt OPT_AUTOCONVERT) with
      | some v => .returned (some (.i 1)) { st with outs := upd st.outs 1 (.i v) }
      | none => retI 0 st := by
  obtain ⟨hty, htr, hfmt, hopts, hor, hdf, h32, h64, hfl⟩ := h
  have hw : wrap32 (st.sty : Int) = (n.ty : Int) := by rw [hty]; exact wrap32_small _ htr
  simp only [src_config_setting_get_int, exec, eval, loadLV, evalCast, wrapTy, seek, seekDflt, hw]
  rcases (by omega : n.ty = 2 ∨ n.ty = 3 ∨ n.ty = 4 ∨ (n.ty ≠ 2 ∧ n.ty ≠ 3 ∧ n.ty ≠ 4)) with h2 | h3 | h4 | ho
  · simp [h2, Node.getInt, storeLV, Res.unbreak, h32 (Or.inl h2)]
  · have := h64 h3
    by_cases hf : fits32 n.ival = true
    · have hb : -2147483648 ≤ n.ival ∧ n.ival ≤ 2147483647 := (fits32_iff _).1 hf
      simp [h3, Node.getInt, storeLV, Res.unbreak, evalBin, evalUn, wrapTy, this, b2i, wrap32_fits, wrap64_fits, hf, hb, T_INT, T_INT64]
    · have hb : ¬ (-2147483648 ≤ n.ival ∧ n.ival ≤ 2147483647) := fun h => hf ((fits32_iff _).2 h)
      simp [h3, Node.getInt, Res.unbreak, evalBin, evalUn, wrapTy, this, b2i, wrap32_fits, wrap64_fits, hf, hb, T_INT, T_INT64]
  · have := hfl h4
    simp [h4, Node.getInt, storeLV, Res.unbreak, this, b2i, u32, Config.opt, optGet, hopts, T_INT, T_INT64, T_FLOAT]
    by_cases ha : c.options % 2 = 1 <;> simp [ha]
  · obtain ⟨a, b, d⟩ := ho
    have a' : ¬ ((n.ty : Int) = 2) := by omega
    have b' : ¬ ((n.ty : Int) = 3) := by omega
    have d' : ¬ ((n.ty : Int) = 4) := by omega
    simp [a, b, d, a', b', d', Node.getInt, Res.unbreak]

theorem p_get_int64 (n : Node) (c : Config) (st : St) (h : Rep n c st) :
    exec src_config_setting_get_int64.body st =
      match n.getInt64 (c.opt OPT_AUTOCONVERT) with
      | some v => .returned (some (.i 1)) { st with outs := upd st.outs 1 (.i v) }
      | none => retI 0 st := by
  obtain ⟨hty, htr, hfmt, hopts, hor, hdf, h32, h64, hfl⟩ := h
  have hw : wrap32 (st.sty : Int) = (n.ty : Int) := by rw [hty]; exact wrap32_small _ htr
  simp only [src_config_setting_get_int64, exec, eval, loadLV, evalCast, wrapTy, seek, seekDflt, hw]
  rcases (by omega : n.ty = 2 ∨ n.ty = 3 ∨ n.ty = 4 ∨ (n.ty ≠ 2 ∧ n.ty ≠ 3 ∧ n.ty ≠ 4)) with h2 | h3 | h4 | ho
  · have := h32 (Or.inl h2)
    have hb := sint32_range st.raw
    simp [h2, Node.getInt64, storeLV, Res.unbreak, this, wrap64_fits, T_INT, T_INT64]
    rw [wrap64_fits _ (by omega) (by omega)]
  · simp [h3, Node.getInt64, storeLV, Res.unbreak, h64 h3, T_INT, T_INT64]
  · have := hfl h4
    simp [h4, Node.getInt64, storeLV, Res.unbreak, this, b2i, u32, Config.opt, optGet, hopts, T_INT, T_INT64, T_FLOAT]
    by_cases ha : c.options % 2 = 1 <;> simp [ha]
  · obtain ⟨a, b, d⟩ := ho
    have a' : ¬ ((n.ty : Int) = 2) := by omega
    have b' : ¬ ((n.ty : Int) = 3) := by omega
    have d' : ¬ ((n.ty : Int) = 4) := by omega
    simp [a, b, d, a', b', d', Node.getInt64, Res.unbreak]

theorem p_get_float (n : Node) (c : Config) (st : St) (h : Rep n c st) :
    exec src_config_setting_get_float.body st =
      match n.getFloat (c.opt OPT_AUTOCONVERT) with
      | some b => .returned (some (.i 1)) { st with outs := upd st.outs 1 (.f b) }
      | none => retI 0 st := by
  obtain ⟨hty, htr, hfmt, hopts, hor, hdf, h32, h64, hfl⟩ := h
  have hw : wrap32 (st.sty : Int) = (n.ty : Int) := by rw [hty]; exact wrap32_small _ htr
  simp only [src_config_setting_get_float, exec, eval, loadLV, evalCast, wrapTy, seek, seekDflt, hw]
  rcases (by omega : n.ty = 2 ∨ n.ty = 3 ∨ n.ty = 4 ∨ (n.ty ≠ 2 ∧ n.ty ≠ 3 ∧ n.ty ≠ 4)) with h2 | h3 | h4 | ho
  · have := h32 (Or.inl h2)
    simp [h2, Node.getFloat, storeLV, Res.unbreak, this, b2i, u32, Config.opt, optGet, hopts, T_INT, T_INT64, T_FLOAT]
    by_cases ha : c.options % 2 = 1 <;> simp [ha]
  · have := h64 h3
    simp [h3, Node.getFloat, storeLV, Res.unbreak, this, b2i, u32, Config.opt, optGet, hopts, T_INT, T_INT64, T_FLOAT]
    by_cases ha : c.options % 2 = 1 <;> simp [ha]
  · simp [h4, Node.getFloat, storeLV, Res.unbreak, hfl h4, T_INT, T_INT64, T_FLOAT]
  · obtain ⟨a, b, d⟩ := ho
    have a' : ¬ ((n.ty : Int) = 2) := by omega
    have b' : ¬ ((n.ty : Int) = 3) := by omega
    have d' : ¬ ((n.ty : Int) = 4) := by omega
    simp [a, b, d, a', b', d', Node.getFloat, Res.unbreak]

theorem p_get_bool (n : Node) (c : Config) (st : St) (h : Rep n c st) :
    exec src_config_setting_get_bool.body st = retI n.getBool st := by
  obtain ⟨hty, htr, hfmt, hopts, hor, hdf, h32, h64, hfl⟩ := h
  have hw : wrap32 (st.sty : Int) = (n.ty : Int) := by rw [hty]; exact wrap32_small _ htr
  simp only [src_config_setting_get_bool, exec, eval, loadLV, evalCast, wrapTy, evalBin, hw]
  by_cases h6 : n.ty = 6
  · simp [h6, Node.getBool, b2i, h32 (Or.inr h6)]
  · have h6' : ¬ ((n.ty : Int) = 6) := by omega
    simp [h6, h6', Node.getBool, b2i]

theorem p_get_format (n : Node) (c : Config) (st : St) (h : Rep n c st)
    (hf : n.fmt < 65536 ∧ c.defaultFormat < 65536) :
    exec src_config_setting_get_format.body st = retI (effFormat c n) st := by
  obtain ⟨hty, htr, hfmt, hopts, hor, hdf, h32, h64, hfl⟩ := h
  have hw1 : wrap32 (st.sfmt : Int) = (n.fmt : Int) := by rw [hfmt]; exact wrap32_small _ hf.1
  have hw2 : wrap32 (st.dfmt : Int) = (c.defaultFormat : Int) := by rw [hdf]; exact wrap32_small _ hf.2
  simp only [src_config_setting_get_format, exec, eval, loadLV, evalCast, wrapTy, evalBin, hw1, hw2]
  by_cases h0 : n.fmt = 0
  · simp [h0, effFormat, b2i]; omega
  · have h0' : ¬ ((n.fmt : Int) = 0) := by omega
    simp [h0, h0', effFormat, b2i]; omega

theorem p_set_int (n : Node) (c : Config) (st : St) (h : Rep n c st) (v : Int)
    (hv : fits32 v = true) (harg : st.vars 1 = .i v) :
    match n.setInt (c.opt OPT_AUTOCONVERT) v with
    | some n' => ∃ st', exec src_config_setting_set_int.body st = retI 1 st' ∧ Rep n' c st' ∧ Frame st st'
    | none => exec src_config_setting_set_int.body st = retI 0 st := by
  obtain ⟨hty, htr, hfmt, hopts, hor, hdf, h32, h64, hfl⟩ := h
  have hw : wrap32 (st.sty : Int) = (n.ty : Int) := by rw [hty]; exact wrap32_small _ htr
  have hb := (fits32_iff v).1 hv
  have hv64 : fits64 v = true := (fits64_iff v).2 (by omega)
  have hw64 : wrap64 v = v := wrap64_fits v (by omega) (by omega)
  simp only [src_config_setting_set_int, exec, eval, loadLV, evalCast, wrapTy, seek, seekDflt, hw, harg]
  rcases (by omega : n.ty = 0 ∨ n.ty = 2 ∨ n.ty = 3 ∨ n.ty = 4 ∨ (n.ty ≠ 0 ∧ n.ty ≠ 2 ∧ n.ty ≠ 3 ∧ n.ty ≠ 4)) with h0 | h2 | h3 | h4 | ho
  · simp [h0, Node.setInt, storeLV, Res.unbreak, harg, retI]
    constructor <;> constructor <;>
      simp [hty, hfmt, hopts, hor, hdf, u16, sint32_store _ _ hv, T_INT, T_BOOL, T_INT64, T_FLOAT]
  · simp [h2, Node.setInt, storeLV, Res.unbreak, harg, retI]
    constructor <;> constructor <;>
      simp [hty, h2, hfmt, hopts, hor, hdf, sint32_store _ _ hv, T_INT, T_BOOL, T_INT64, T_FLOAT]
  · simp [h3, Node.setInt, storeLV, Res.unbreak, harg, retI, hw64]
    constructor <;> constructor <;>
      simp [hty, h3, hfmt, hopts, hor, hdf, sint64_u64 _ hv64, T_INT, T_BOOL, T_INT64, T_FLOAT]
  · simp [h4, Node.setInt, storeLV, Res.unbreak, harg, retI, b2i, u32, Config.opt, optGet, hopts, T_INT, T_BOOL, T_INT64, T_FLOAT]
    by_cases ha : c.options % 2 = 1 <;> simp [ha]
    constructor <;> constructor <;>
      simp [hty, h4, hfmt, hopts, hor, hdf, T_INT, T_BOOL, T_INT64, T_FLOAT]
  · obtain ⟨z, a, b, d⟩ := ho
    have z' : ¬ ((n.ty : Int) = 0) := by omega
    have a' : ¬ ((n.ty : Int) = 2) := by omega
    have b' : ¬ ((n.ty : Int) = 3) := by omega
    have d' : ¬ ((n.ty : Int) = 4) := by omega
    simp [z, a, b, d, z', a', b', d', Node.setInt, Res.unbreak]

theorem p_set_int64 (n : Node) (c : Config) (st : St) (h : Rep n c st) (v : Int)
    (hv : fits64 v = true) (harg : st.vars 1 = .i v) :
    match n.setInt64 (c.opt OPT_AUTOCONVERT) v with
    | some n' => ∃ st', exec src_config_setting_set_int64.body st = retI 1 st' ∧ Rep n' c st' ∧ Frame st st'
    | none => exec src_config_setting_set_int64.body st = retI 0 st := by
  obtain ⟨hty, htr, hfmt, hopts, hor, hdf, h32, h64, hfl⟩ := h
  have hw : wrap32 (st.sty : Int) = (n.ty : Int) := by rw [hty]; exact wrap32_small _ htr
  have hb := (fits64_iff v).1 hv
  simp only [src_config_setting_set_int64, exec, eval, loadLV, evalCast, wrapTy, seek, seekDflt, hw, harg]
  rcases (by omega : n.ty = 0 ∨ n.ty = 2 ∨ n.ty = 3 ∨ n.ty = 4 ∨ (n.ty ≠ 0 ∧ n.ty ≠ 2 ∧ n.ty ≠ 3 ∧ n.ty ≠ 4)) with h0 | h2 | h3 | h4 | ho
  · simp [h0, Node.setInt64, storeLV, Res.unbreak, harg, retI]
    constructor <;> constructor <;>
      simp [hty, hfmt, hopts, hor, hdf, u16, sint64_u64 _ hv, T_INT, T_BOOL, T_INT64, T_FLOAT]
  · by_cases hf : fits32 v = true
    · have hb32 : -2147483648 ≤ v ∧ v ≤ 2147483647 := (fits32_iff _).1 hf
      simp [h2, Node.setInt64, storeLV, Res.unbreak, harg, retI, evalBin, evalUn, wrapTy, b2i, wrap32_fits, wrap64_fits, hf, hb32, T_INT, T_INT64]
      constructor <;> constructor <;>
        simp [hty, h2, hfmt, hopts, hor, hdf, sint32_store _ _ hf, T_INT, T_BOOL, T_INT64, T_FLOAT]
    · have hb32 : ¬ (-2147483648 ≤ v ∧ v ≤ 2147483647) := fun h => hf ((fits32_iff _).2 h)
      simp [h2, Node.setInt64, storeLV, Res.unbreak, harg, retI, evalBin, evalUn, wrapTy, b2i, wrap32_fits, wrap64_fits, hf, hb32, T_INT, T_INT64]
  · simp [h3, Node.setInt64, storeLV, Res.unbreak, harg, retI]
    constructor <;> constructor <;>
      simp [hty, h3, hfmt, hopts, hor, hdf, sint64_u64 _ hv, T_INT, T_BOOL, T_INT64, T_FLOAT]
  · simp [h4, Node.setInt64, storeLV, Res.unbreak, harg, retI, b2i, u32, Config.opt, optGet, hopts, T_INT, T_BOOL, T_INT64, T_FLOAT]
    by_cases ha : c.options % 2 = 1 <;> simp [ha]
    constructor <;> constructor <;>
      simp [hty, h4, hfmt, hopts, hor, hdf, T_INT, T_BOOL, T_INT64, T_FLOAT]
  · obtain ⟨z, a, b, d⟩ := ho
    have z' : ¬ ((n.ty : Int) = 0) := by omega
    have a' : ¬ ((n.ty : Int) = 2) := by omega
    have b' : ¬ ((n.ty : Int) = 3) := by omega
    have d' : ¬ ((n.ty : Int) = 4) := by omega
    simp [z, a, b, d, z', a', b', d', Node.setInt64, Res.unbreak]

theorem cast32_fits (b : Nat) : fits32 (if floatCastOk32 b = true then F64.trunc b else INT_MIN) = true := by
  by_cases hc : floatCastOk32 b = true
  · simp only [hc, if_true]
    unfold floatCastOk32 at hc
    exact (Bool.and_eq_true _ _ ▸ hc).2
  · rw [if_neg hc]; decide
theorem cast64_fits (b : Nat) : fits64 (if floatCastOk64 b = true then F64.trunc b else LLONG_MIN) = true := by
  by_cases hc : floatCastOk64 b = true
  · simp only [hc, if_true]
    unfold floatCastOk64 at hc
    exact (Bool.and_eq_true _ _ ▸ hc).2
  · rw [if_neg hc]; decide

theorem p_set_float (n : Node) (c : Config) (st : St) (h : Rep n c st) (b : Nat)
    (harg : st.vars 1 = .f b) :
    match n.setFloat (c.opt OPT_AUTOCONVERT) b with
    | some n' => ∃ st', exec src_config_setting_set_float.body st = retI 1 st' ∧ Rep n' c st' ∧ Frame st st'
    | none => exec src_config_setting_set_float.body st = retI 0 st := by
  obtain ⟨hty, htr, hfmt, hopts, hor, hdf, h32, h64, hfl⟩ := h
  have hw : wrap32 (st.sty : Int) = (n.ty : Int) := by rw [hty]; exact wrap32_small _ htr
  have c32 := cast32_fits b
  have c64 := cast64_fits b
  simp only [src_config_setting_set_float, exec, eval, loadLV, evalCast, wrapTy, seek, seekDflt, hw, harg]
  rcases (by omega : n.ty = 0 ∨ n.ty = 2 ∨ n.ty = 3 ∨ n.ty = 4 ∨ (n.ty ≠ 0 ∧ n.ty ≠ 2 ∧ n.ty ≠ 3 ∧ n.ty ≠ 4)) with h0 | h2 | h3 | h4 | ho
  · simp [h0, Node.setFloat, storeLV, Res.unbreak, harg, retI]
    constructor <;> constructor <;>
      simp [hty, hfmt, hopts, hor, hdf, u16, T_INT, T_BOOL, T_INT64, T_FLOAT]
  · simp [h2, Node.setFloat, storeLV, Res.unbreak, harg, retI, b2i, u32, Config.opt, optGet, hopts, T_INT, T_BOOL, T_INT64, T_FLOAT]
    by_cases ha : c.options % 2 = 1 <;> simp [ha]
    constructor <;> constructor <;>
      simp [hty, h2, hfmt, hopts, hor, hdf, sint32_store' _ _ c32, T_INT, T_BOOL, T_INT64, T_FLOAT]
  · simp [h3, Node.setFloat, storeLV, Res.unbreak, harg, retI, b2i, u32, Config.opt, optGet, hopts, T_INT, T_BOOL, T_INT64, T_FLOAT]
    by_cases ha : c.options % 2 = 1 <;> simp [ha]
    constructor <;> constructor <;>
      simp [hty, h3, hfmt, hopts, hor, hdf, sint64_u64 _ c64, T_INT, T_BOOL, T_INT64, T_FLOAT]
  · simp [h4, Node.setFloat, storeLV, Res.unbreak, harg, retI, T_INT, T_BOOL, T_INT64, T_FLOAT]
    constructor <;> constructor <;>
      simp [hty, h4, hfmt, hopts, hor, hdf, T_INT, T_BOOL, T_INT64, T_FLOAT]
  · obtain ⟨z, a, b, d⟩ := ho
    have z' : ¬ ((n.ty : Int) = 0) := by omega
    have a' : ¬ ((n.ty : Int) = 2) := by omega
    have b' : ¬ ((n.ty : Int) = 3) := by omega
    have d' : ¬ ((n.ty : Int) = 4) := by omega
    simp [z, a, b, d, z', a', b', d', Node.setFloat, Res.unbreak]

theorem p_set_bool (n : Node) (c : Config) (st : St) (h : Rep n c st) (v : Int)
    (hv : fits32 v = true) (harg : st.vars 1 = .i v) :
    match n.setBool v with
    | some n' => ∃ st', exec src_config_setting_set_bool.body st = retI 1 st' ∧ Rep n' c st' ∧ Frame st st'
    | none => exec src_config_setting_set_bool.body st = retI 0 st := by
  obtain ⟨hty, htr, hfmt, hopts, hor, hdf, h32, h64, hfl⟩ := h
  have hw : wrap32 (st.sty : Int) = (n.ty : Int) := by rw [hty]; exact wrap32_small _ htr
  simp only [src_config_setting_set_bool, exec, eval, loadLV, evalCast, wrapTy, evalBin, hw, harg]
  rcases (by omega : n.ty = 0 ∨ n.ty = 6 ∨ (n.ty ≠ 0 ∧ n.ty ≠ 6)) with h0 | h6 | ho
  · simp [h0, Node.setBool, storeLV, harg, retI, b2i]
    constructor <;> constructor <;>
      simp [hty, hfmt, hopts, hor, hdf, u16, sint32_store _ _ hv, T_INT, T_BOOL, T_INT64, T_FLOAT]
  · simp [h6, Node.setBool, storeLV, harg, retI, b2i]
    constructor <;> constructor <;>
      simp [hty, h6, hfmt, hopts, hor, hdf, u16, sint32_store _ _ hv, T_INT, T_BOOL, T_INT64, T_FLOAT]
  · obtain ⟨z, a⟩ := ho
    have z' : ¬ ((n.ty : Int) = 0) := by omega
    have a' : ¬ ((n.ty : Int) = 6) := by omega
    simp [z, a, z', a', Node.setBool, b2i]

theorem p_set_format (n : Node) (c : Config) (st : St) (h : Rep n c st) (f : Nat)
    (hf : f < 65536) (harg : st.vars 1 = .i f) :
    match n.setFormat f with
    | some n' => ∃ st', exec src_config_setting_set_format.body st = retI 1 st' ∧ Rep n' c st' ∧ Frame st st'
    | none => exec src_config_setting_set_format.body st = retI 0 st := by
  obtain ⟨hty, htr, hfmt, hopts, hor, hdf, h32, h64, hfl⟩ := h
  have hw : wrap32 (st.sty : Int) = (n.ty : Int) := by rw [hty]; exact wrap32_small _ htr
  have hwf : wrap32 (f : Int) = (f : Int) := wrap32_small _ hf
  simp only [src_config_setting_set_format, exec, eval, loadLV, evalCast, wrapTy, evalBin, hw, hwf, harg]
  have hu : u16 (f : Int) = f := u16_small f hf
  rcases (by omega : n.ty = 2 ∨ n.ty = 3 ∨ (n.ty ≠ 2 ∧ n.ty ≠ 3)) with h2 | h3 | ⟨a, b⟩ <;>
  rcases (by omega : f = 0 ∨ f = 1 ∨ (f ≠ 0 ∧ f ≠ 1)) with f0 | f1 | ⟨d, e⟩
  · simp [h2, f0, Node.setFormat, storeLV, harg, retI, b2i, T_INT, T_INT64, FMT_DEFAULT, FMT_HEX]
    constructor <;> constructor <;>
      simp [hty, h2, hfmt, hopts, hor, hdf, hu, u16, h32, T_INT, T_BOOL, T_INT64, T_FLOAT]
  · simp [h2, f1, Node.setFormat, storeLV, harg, retI, b2i, T_INT, T_INT64, FMT_DEFAULT, FMT_HEX]
    constructor <;> constructor <;>
      simp [hty, h2, hfmt, hopts, hor, hdf, hu, u16, h32, T_INT, T_BOOL, T_INT64, T_FLOAT]
  · have d' : ¬ ((f : Int) = 0) := by omega
    have e' : ¬ ((f : Int) = 1) := by omega
    simp [h2, d, e, d', e', Node.setFormat, b2i, T_INT, T_INT64, FMT_DEFAULT, FMT_HEX]
  · simp [h3, f0, Node.setFormat, storeLV, harg, retI, b2i, T_INT, T_INT64, FMT_DEFAULT, FMT_HEX]
    constructor <;> constructor <;>
      simp [hty, h3, hfmt, hopts, hor, hdf, hu, u16, h64, T_INT, T_BOOL, T_INT64, T_FLOAT]
  · simp [h3, f1, Node.setFormat, storeLV, harg, retI, b2i, T_INT, T_INT64, FMT_DEFAULT, FMT_HEX]
    constructor <;> constructor <;>
      simp [hty, h3, hfmt, hopts, hor, hdf, hu, u16, h64, T_INT, T_BOOL, T_INT64, T_FLOAT]
  · have d' : ¬ ((f : Int) = 0) := by omega
    have e' : ¬ ((f : Int) = 1) := by omega
    simp [h3, d, e, d', e', Node.setFormat, b2i, T_INT, T_INT64, FMT_DEFAULT, FMT_HEX]
  all_goals
    have a' : ¬ ((n.ty : Int) = 2) := by omega
    have b' : ¬ ((n.ty : Int) = 3) := by omega
    simp [a, b, a', b', Node.setFormat, b2i, T_INT, T_INT64, FMT_DEFAULT, FMT_HEX]

theorem p_type_is_scalar (st : St) (t : Int) (harg : st.vars 0 = .i t) :
    exec src_config_type_is_scalar.body st = retI (if isScalarTy t then 1 else 0) st := by
  simp only [src_config_type_is_scalar, exec, eval, loadLV, evalBin, harg]
  by_cases h2 : 2 ≤ t <;> by_cases h6 : t ≤ 6 <;> simp [isScalarTy, b2i, h2, h6, retI]

theorem p_is_scalar (n : Node) (c : Config) (st : St) (h : Rep n c st) :
    exec src_config_setting_is_scalar.body st = retI (if isScalarTy n.ty then 1 else 0) st := by
  obtain ⟨hty, htr, hfmt, hopts, hor, hdf, h32, h64, hfl⟩ := h
  have hw : wrap32 (st.sty : Int) = (n.ty : Int) := by rw [hty]; exact wrap32_small _ htr
  simp only [src_config_setting_is_scalar, exec, eval, loadLV, evalCast, wrapTy, hw]
  by_cases hs : isScalarTy (n.ty : Int) = true <;> simp [hs, b2i, retI]

theorem p_is_aggregate (n : Node) (c : Config) (st : St) (h : Rep n c st) :
    exec src_config_setting_is_aggregate.body st = retI (if isAggregateTy n.ty then 1 else 0) st := by
  obtain ⟨hty, htr, hfmt, hopts, hor, hdf, h32, h64, hfl⟩ := h
  have hw : wrap32 (st.sty : Int) = (n.ty : Int) := by rw [hty]; exact wrap32_small _ htr
  simp only [src_config_setting_is_aggregate, exec, eval, loadLV, evalCast, wrapTy, evalBin, hw]
  rcases (by omega : n.ty = 7 ∨ n.ty = 8 ∨ n.ty = 1 ∨ (n.ty ≠ 7 ∧ n.ty ≠ 8 ∧ n.ty ≠ 1)) with h7 | h8 | h1 | ⟨a, b, d⟩
  · simp [h7, isAggregateTy, b2i, retI, T_ARRAY, T_LIST, T_GROUP]
  · simp [h8, isAggregateTy, b2i, retI, T_ARRAY, T_LIST, T_GROUP]
  · simp [h1, isAggregateTy, b2i, retI, T_ARRAY, T_LIST, T_GROUP]
  · have a' : ¬ ((n.ty : Int) = 7) := by omega
    have b' : ¬ ((n.ty : Int) = 8) := by omega
    have d' : ¬ ((n.ty : Int) = 1) := by omega
    simp [a, b, d, a', b', d', isAggregateTy, b2i, retI, T_ARRAY, T_LIST, T_GROUP]

theorem p_get_option (st : St) (k : Int) (hk : fits32 k = true) (ho : st.opts < 4294967296)
    (harg : st.vars 1 = .i k) :
    exec src_config_get_option.body st = retI (if optGet st.opts (u32 k) then 1 else 0) st := by
  simp only [src_config_get_option, exec, eval, loadLV, evalBin, harg, bitsOf, ofBits, u32_sint32 _ ho]
  have hlt : st.opts &&& u32 k < 4294967296 := Nat.lt_of_le_of_lt Nat.and_le_right (u32_lt k)
  have hiff : (sint32 (st.opts &&& u32 k) = k) ↔ (st.opts &&& u32 k) = u32 k := by
    constructor
    · intro h
      exact sint32_inj _ _ hlt (u32_lt k) (by rw [h, sint32_u32 k hk])
    · intro h
      rw [h, sint32_u32 k hk]
  by_cases hc : (st.opts &&& u32 k) = u32 k
  · have := hiff.2 hc
    simp [optGet, b2i, retI, hc, this, sint32_u32 k hk]
  · have : ¬ sint32 (st.opts &&& u32 k) = k := fun h => hc (hiff.1 h)
    simp [optGet, b2i, retI, hc, this]

theorem p_set_options (st : St) (k : Int) (_hk : fits32 k = true) (harg : st.vars 1 = .i k) :
    exec src_config_set_options.body st = .normal { st with opts := u32 k } := by
  simp [src_config_set_options, exec, eval, loadLV, storeLV, harg]

theorem p_get_options (st : St) (_ho : st.opts < 4294967296) :
    exec src_config_get_options.body st = retI (sint32 st.opts) st := by
  simp [src_config_get_options, exec, eval, loadLV, retI]

theorem p_get_tab_width (st : St) : exec src_config_get_tab_width.body st = retI st.tabw st := by
  simp [src_config_get_tab_width, exec, eval, loadLV, retI]

theorem p_get_float_precision (st : St) : exec src_config_get_float_precision.body st = retI st.prec st := by
  simp [src_config_get_float_precision, exec, eval, loadLV, retI]

theorem p_set_float_precision (st : St) (d : Nat) (hd : d < 65536) (harg : st.vars 1 = .i d) :
    exec src_config_set_float_precision.body st = .normal { st with prec := d } := by
  simp [src_config_set_float_precision, exec, eval, loadLV, storeLV, harg, u16_small d hd]

theorem p_set_tab_width (c : Config) (st : St) (w : Nat) (hw : w < 65536) (harg : st.vars 1 = .i w) :
    exec src_config_set_tab_width.body st = .normal { st with tabw := (c.setTabWidth w).tabWidth } := by
  have hww : wrap32 (w : Int) = (w : Int) := wrap32_small _ hw
  simp only [src_config_set_tab_width, exec, eval, loadLV, evalCast, wrapTy, evalBin, hww, harg]
  by_cases h15 : w ≤ 15
  · have h15' : (w : Int) ≤ 15 := by omega
    have e : (w : Int) % 65536 = w := by omega
    simp [h15, h15', b2i, storeLV, Config.setTabWidth, e, u16_small w hw]
  · have h15' : ¬ (w : Int) ≤ 15 := by omega
    simp [h15, h15', b2i, storeLV, Config.setTabWidth, u16]

theorem p_set_option (c : Config) (st : St) (ho : st.opts = c.options) (hr : c.options < 4294967296)
    (k fl : Int) (_hk : fits32 k = true) (harg : st.vars 1 = .i k) (hfl : st.vars 2 = .i fl) :
    exec src_config_set_option.body st =
      .normal { st with opts := (c.setOption (u32 k) (fl != 0)).options } := by
  have hr' : st.opts < 4294967296 := ho ▸ hr
  have hku := u32_lt k
  simp only [src_config_set_option, exec, eval, loadLV, evalBin, evalUn, harg, hfl, bitsOf, ofBits, widthMask,
    u32_sint32 _ hr']
  by_cases hz : fl = 0
  · have hx : u32 (sint32 (4294967295 - u32 k)) = 4294967295 - u32 k := u32_sint32 _ (by omega)
    have ha : u32 (sint32 (c.options &&& (4294967295 - u32 k))) = c.options &&& (4294967295 - u32 k) :=
      u32_sint32 _ (Nat.lt_of_le_of_lt Nat.and_le_left hr)
    simp [hz, storeLV, Config.setOption, xor_mask32 _ hku, Nat.mod_eq_of_lt hku, ho, hx, ha]
  · have hor : u32 (sint32 (c.options ||| u32 k)) = c.options ||| u32 k :=
      u32_sint32 _ (Nat.or_lt_two_pow (n := 32) hr hku)
    simp [hz, storeLV, Config.setOption, ho, hor]

/-! ### the child list -/

theorem p_length (n : Node) (st : St) (h : RepKids n st) :
    exec src_config_setting_length.body st = retI n.length st := by
  obtain ⟨hty, htr, hk, hkt, hl⟩ := h
  simp only [src_config_setting_length, exec, eval, loadLV, evalCast, evalUn, wrapTy, hty]
  by_cases ha : isAggregateTy n.ty = true
  · rcases hk with hk | ⟨hk, he⟩
    · have hw : wrap32 (n.kids.length : Int) = n.kids.length := wrap32_fits _ (by omega) (by omega)
      have hm : ((n.kids.length : Int) % 4294967296) = n.kids.length := by omega
      simp [ha, hk, b2i, Node.length, Node.isAggregate, hw, hm, retI]
    · simp [ha, hk, he, b2i, Node.length, Node.isAggregate, retI]
  · simp [ha, b2i, Node.length, Node.isAggregate, retI]

theorem p_list_checktype (n : Node) (st : St) (h : RepKids n st) (t : Nat) (ht : t < 2147483648)
    (harg : st.vars 1 = .i t) :
    exec src_config_list_checktype.body st = retI (if checkType n t then 1 else 0) st := by
  obtain ⟨hty, htr, hk, hkt, hl⟩ := h
  have hw : wrap32 (st.sty : Int) = (n.ty : Int) := by rw [hty]; exact wrap32_small _ htr
  simp only [src_config_list_checktype, exec, eval, loadLV, evalCast, evalUn, evalBin, wrapTy, hw, harg]
  rcases hk with hk | ⟨hk, he⟩
  · cases hkids : n.kids with
    | nil => simp [hk, hkids, b2i, checkType, retI]
    | cons k ks =>
      have hkty : k.ty < 65536 := hkt k (by simp [hkids])
      have hw2 : wrap32 (k.ty : Int) = (k.ty : Int) := wrap32_small _ hkty
      have hlen : ¬ (((ks.length + 1 : Nat) : Int) % 4294967296 = 0) := by
        have : (ks.length + 1) < 2147483648 := by simpa [hkids] using hl
        omega
      have hne : ¬ ((ks.length : Int) + 1 = 0) := by omega
      have hk' : st.kids = some (k.ty :: ks.map (·.ty)) := by simpa [hkids] using hk
      by_cases h8 : n.ty = 8
      · have h8' : (n.ty : Int) = 8 := by omega
        simp [hk', hkids, b2i, checkType, retI, h8, h8', T_LIST, hne, hw]
      · have h8' : ¬ ((n.ty : Int) = 8) := by omega
        by_cases he : k.ty = t
        · have he' : (k.ty : Int) = (t : Int) := by omega
          have hwt : wrap32 (t : Int) = (t : Int) := wrap32_fits _ (by omega) (by omega)
          simp [hwt, hk', hkids, b2i, checkType, retI, h8, h8', T_LIST, hw2, hne, hw, harg, he, he']
        · have he' : ¬ ((k.ty : Int) = (t : Int)) := by omega
          simp [hk', hkids, b2i, checkType, retI, h8, h8', T_LIST, hw2, hne, hw, harg, he, he']
  · simp [hk, he, b2i, checkType, retI]

end Libconfig.CSrc
