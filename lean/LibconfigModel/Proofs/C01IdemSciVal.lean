import LibconfigModel.Proofs.C01IdemSciText
/-
  C01F, part 7 (scientific notation) — what `strtod` reads off the text written with `%.{P}g`
  (`P` = the precision, or 17 for the re-rendering), in canonical form: a positive ratio `N/Dn`
  equal to `d0·10^sh`, where `sh = x0 - P + 1` and `d0 = round-half-even(|b| / 10^sh)`.
  Consequence: the text never reads back as an infinity (the second side condition that
  `C01L.floatOK` keeps as a hypothesis under `CONFIG_OPTION_ALLOW_SCIENTIFIC_NOTATION`).
-/
namespace Libconfig.C01I
open Libconfig F64 C01P C01L
open Libconfig.F64R (dist sMag)

/-! ### arithmetic of powers of ten -/

theorem pow10_pos (n : Nat) : 0 < 10 ^ n := Nat.pow_pos (by omega)

/-- `D·10^z = d·10^y` and `a + y = c + z` give `D·10^a = d·10^c` -/
theorem cross_pow (D d z y a c : Nat) (h : D * 10 ^ z = d * 10 ^ y) (he : a + y = c + z) :
    D * 10 ^ a = d * 10 ^ c := by
  apply Nat.eq_of_mul_eq_mul_right (pow10_pos z)
  calc D * 10 ^ a * 10 ^ z = D * 10 ^ z * 10 ^ a := Nat.mul_right_comm _ _ _
    _ = d * 10 ^ y * 10 ^ a := by rw [h]
    _ = d * 10 ^ (y + a) := by rw [Nat.mul_assoc, ← Nat.pow_add]
    _ = d * 10 ^ (c + z) := by rw [show y + a = c + z by omega]
    _ = d * 10 ^ c * 10 ^ z := by rw [Nat.pow_add, Nat.mul_assoc]

/-! ### the canonical form of the value read back -/

/-- the scale of the digits: `sh = x0 - P + 1` -/
def gSh (b P : Nat) : Int := gX0 b - (P : Int) + 1

/-- the rounded quotient `d0 = round-half-even(|b| / 10^sh)` -/
def gQ (b P : Nat) : Nat := gD0 (ratOf b).1 (ratOf b).2 (gSh b P)

/-- what is read back: `ofRat` of a positive ratio equal to `d0·10^sh` -/
structure ReadVal (neg : Bool) (text : Bytes) (d0 : Nat) (sh : Int) (N Dn : Nat) : Prop where
  npos : 0 < N
  dpos : 0 < Dn
  value : strtod text = ofRat neg N Dn
  ratio : N * 10 ^ (-sh).toNat = d0 * 10 ^ sh.toNat * Dn

/-- the text `libconfig_format_double` makes of `%.{P}g` of a finite non-zero double -/
def sciText (b P : Nat) : Bytes :=
  postProc (gTail (signBytes (signBit b)) P (gDX b P).1 (gDX b P).2)

theorem sciText_value (b P : Nat) (hfin : isFinite b = true) (hm : mant b ≠ 0) (hP : 1 ≤ P)
    (hP70 : P ≤ 70) :
    ∃ N Dn, ReadVal (signBit b) (sciText b P) (gQ b P) (gSh b P) N Dn := by
  have hs := gDX_spec b P hfin hm hP
  have hx := hs.xcase
  have hx0lo := hs.x0lo
  have hx0hi := hs.x0hi
  have hdpos : 0 < (gDX b P).1 := Nat.lt_of_lt_of_le (pow10_pos _) hs.dlo
  obtain ⟨D, k, z, y, hT⟩ := gTail_value (signBit b) P (gDX b P).1 (gDX b P).2 hP hP70 hdpos hs.dhi
    (by omega) (by omega)
  have hDpos := pos_of_mul_pow hT.digits hdpos
  refine ⟨D * 10 ^ k.toNat, 10 ^ (-k).toNat, Nat.mul_pos hDpos (pow10_pos _), pow10_pos _,
    hT.value, ?_⟩
  have hval := hs.val
  have hsc := hT.scale
  unfold gQ gSh
  rw [← hval]
  generalize (gDX b P).1 = d at *
  generalize (gDX b P).2 = x at *
  generalize gX0 b = x0 at *
  -- D·10^(k⁺ + sh⁻) = d·10^(c + sh⁺ + k⁻)
  have := cross_pow D d z y (k.toNat + (-(x0 - (P : Int) + 1)).toNat)
    ((x - x0).toNat + (x0 - (P : Int) + 1).toNat + (-k).toNat) hT.digits (by omega)
  rw [Nat.mul_assoc, ← Nat.pow_add, this, Nat.mul_assoc, Nat.mul_assoc, ← Nat.pow_add, ← Nat.pow_add,
    Nat.add_assoc]

/-! ### the zero case -/

theorem sci_zero_text (b p : Nat) (hfin : isFinite b = true) (hm : mant b = 0) :
    fmtG b p = signBytes (signBit b) ++ [48] := by
  rw [fmtG_eq]
  simp only [hfin, Bool.not_true, Bool.false_eq_true, if_false, hm, if_true, sign_eq]

theorem strtod_zero_text (neg : Bool) :
    strtod (postProc (signBytes neg ++ [48])) = mkBits neg 0 0 := by
  cases neg <;> decide

/-! ### the exponent style keeps its text -/

theorem gTail_exp_keep (sign : Bytes) (p d : Nat) (x : Int)
    (hst : (decide (x < -4) || decide (x ≥ (p : Int))) = true) :
    postProc (gTail sign p d x) = gTail sign p d x := by
  unfold gTail
  rw [if_pos hst]
  simp only []
  unfold postProc
  have : (sign ++ List.take 1 (pad0 p (natToDec d)) ++
      (if (stripZeros (List.drop 1 (pad0 p (natToDec d)))).isEmpty = true then []
        else 46 :: stripZeros (List.drop 1 (pad0 p (natToDec d)))) ++
      [101, if x < 0 then 45 else 43] ++
      (if (natToDec x.natAbs).length < 2 then 48 :: natToDec x.natAbs
        else natToDec x.natAbs)).contains 101 = true := by
    rw [List.contains_iff_mem]; simp
  rw [this]; rfl

/-! ### magnitudes -/

/-- everything `%.{P}g` prints in fixed style is below `10^70` (for `P ≤ 70`) -/
theorem small_lt_thr70 : 10 ^ 70 * 2 ^ 1074 < F64R.thr := by decide +kernel

/-- the largest finite magnitude (DBL_MAX), scaled by 2^1074 -/
def sMax : Nat := (2 ^ 53 - 1) * 2 ^ (971 + 1074)

/-- the largest finite magnitude, times `1 + 1/(2·10^16)`, is below the overflow threshold -/
theorem max17_lt_thr : (2 * 10 ^ 16 + 1) * sMax < F64R.thr * (2 * 10 ^ 16) := by
  decide +kernel

theorem sMag_le_max (b : Nat) (hfin : isFinite b = true) : sMag b ≤ sMax := by
  have h1 := F64R.mant_lt b
  have h2 := expo_le b hfin
  have h3 := expo_ge b
  unfold sMag sMax
  have : 2 ^ (expo b + 1074).toNat ≤ 2 ^ (971 + 1074) :=
    Nat.pow_le_pow_right (by decide) (by omega)
  exact Nat.mul_le_mul (by omega) this

/-- fixed style: the value is at most `10^M` when `P + sh ≤ M` -/
theorem readVal_fixed_small {neg : Bool} {text : Bytes} {d0 : Nat} {sh : Int} {N Dn : Nat}
    (h : ReadVal neg text d0 sh N Dn) (P M : Nat) (hd0 : d0 ≤ 10 ^ P) (hsh : (P : Int) + sh ≤ M) :
    N ≤ 10 ^ M * Dn := by
  have h1 : d0 * 10 ^ sh.toNat ≤ 10 ^ M * 10 ^ (-sh).toNat := by
    calc d0 * 10 ^ sh.toNat ≤ 10 ^ P * 10 ^ sh.toNat := Nat.mul_le_mul_right _ hd0
      _ = 10 ^ (P + sh.toNat) := (Nat.pow_add ..).symm
      _ ≤ 10 ^ (M + (-sh).toNat) := Nat.pow_le_pow_right (by omega) (by omega)
      _ = 10 ^ M * 10 ^ (-sh).toNat := Nat.pow_add ..
  have h2 : N * 10 ^ (-sh).toNat ≤ 10 ^ M * Dn * 10 ^ (-sh).toNat := by
    rw [h.ratio]
    calc d0 * 10 ^ sh.toNat * Dn ≤ 10 ^ M * 10 ^ (-sh).toNat * Dn := Nat.mul_le_mul_right _ h1
      _ = 10 ^ M * Dn * 10 ^ (-sh).toNat := Nat.mul_right_comm _ _ _
  exact Nat.le_of_mul_le_mul_right h2 (pow10_pos _)

/-- the facts about the rounded quotient, in the vocabulary of this file -/
theorem gQ_spec (b P : Nat) (hfin : isFinite b = true) (hm : mant b ≠ 0) (hP : 1 ≤ P) :
    gQ b P = divRoundEven ((ratOf b).1 * 10 ^ (-gSh b P).toNat) ((ratOf b).2 * 10 ^ (gSh b P).toNat) ∧
    10 ^ (P - 1) * ((ratOf b).2 * 10 ^ (gSh b P).toNat) ≤ (ratOf b).1 * 10 ^ (-gSh b P).toNat ∧
    (ratOf b).1 * 10 ^ (-gSh b P).toNat < 10 ^ P * ((ratOf b).2 * 10 ^ (gSh b P).toNat) ∧
    10 ^ (P - 1) ≤ gQ b P ∧ gQ b P ≤ 10 ^ P := by
  have hs := gDX_spec b P hfin hm hP
  refine ⟨gD0_eq _ _ _, ?_, ?_, hs.qlo, hs.qhi⟩
  · have := hs.slo; unfold LeP at this; unfold gSh; rw [← Nat.mul_assoc]; exact this
  · have := hs.shi; unfold LtP at this; unfold gSh; rw [← Nat.mul_assoc]; exact this

/-- seventeen digits: the value read back exceeds the magnitude by a factor of at most
`1 + 1/(2·10^16)`, hence stays below the overflow threshold -/
theorem readVal17_lt {neg : Bool} {text : Bytes} {b N Dn : Nat} (hfin : isFinite b = true)
    (hm : mant b ≠ 0) (h : ReadVal neg text (gQ b 17) (gSh b 17) N Dn) :
    N * 2 ^ 1074 < F64R.thr * Dn := by
  obtain ⟨hq, hlo, -, -, -⟩ := gQ_spec b 17 hfin hm (by omega)
  obtain ⟨hn, hd, hrat, -, -⟩ := ratOf_spec b hfin hm
  have hS := sMag_le_max b hfin
  have hthr := max17_lt_thr
  have hratio := h.ratio
  have hDn := h.dpos
  have hem : 0 < 10 ^ (-gSh b 17).toNat := pow10_pos _
  have hep : 0 < 10 ^ (gSh b 17).toNat := pow10_pos _
  have hmpos : 0 < (ratOf b).2 * 10 ^ (gSh b 17).toNat := Nat.mul_pos hd hep
  have hhalf := (dre_half ((ratOf b).1 * 10 ^ (-gSh b 17).toNat)
    ((ratOf b).2 * 10 ^ (gSh b 17).toNat) hmpos).1
  rw [← hq] at hhalf
  simp only [show 17 - 1 = 16 from rfl] at hlo
  generalize gQ b 17 = d0 at *
  generalize (ratOf b).1 = num at *
  generalize (ratOf b).2 = den at *
  generalize sMag b = S at *
  generalize 10 ^ (-gSh b 17).toNat = em at *
  generalize 10 ^ (gSh b 17).toNat = ep at *
  generalize hT : (2 : Nat) ^ 1074 = T at *
  generalize sMax = Smax at *
  generalize F64R.thr = thr at *
  -- A·d0·m ≤ (A+1)·n
  have a1 : 2 * 10 ^ 16 * (d0 * (den * ep)) ≤ (2 * 10 ^ 16 + 1) * (num * em) := by
    unfold dist at hhalf
    generalize d0 * (den * ep) = X at *
    generalize num * em = n at *
    generalize den * ep = m at *
    omega
  have hpos : 0 < 2 * 10 ^ 16 * (den * em) := Nat.mul_pos (by decide) (Nat.mul_pos hd hem)
  apply Nat.lt_of_mul_lt_mul_right (a := 2 * 10 ^ 16 * (den * em))
  calc N * T * (2 * 10 ^ 16 * (den * em))
      = 2 * 10 ^ 16 * (N * em) * T * den := by ac_rfl
    _ = 2 * 10 ^ 16 * (d0 * ep * Dn) * T * den := by rw [hratio]
    _ = (2 * 10 ^ 16 * (d0 * (den * ep))) * (Dn * T) := by ac_rfl
    _ ≤ ((2 * 10 ^ 16 + 1) * (num * em)) * (Dn * T) := Nat.mul_le_mul_right _ a1
    _ = (2 * 10 ^ 16 + 1) * (num * T) * (em * Dn) := by ac_rfl
    _ = (2 * 10 ^ 16 + 1) * (S * den) * (em * Dn) := by rw [hrat]
    _ = ((2 * 10 ^ 16 + 1) * S) * (den * em * Dn) := by ac_rfl
    _ ≤ ((2 * 10 ^ 16 + 1) * Smax) * (den * em * Dn) :=
        Nat.mul_le_mul_right _ (Nat.mul_le_mul_left _ hS)
    _ < (thr * (2 * 10 ^ 16)) * (den * em * Dn) :=
        Nat.mul_lt_mul_of_pos_right hthr (Nat.mul_pos (Nat.mul_pos hd hem) hDn)
    _ = thr * Dn * (2 * 10 ^ 16 * (den * em)) := by ac_rfl

theorem small_lt_thr80 : 10 ^ 80 * 2 ^ 1074 < F64R.thr := by decide +kernel

/-- fixed style never overflows -/
theorem readVal_fixed_lt {neg : Bool} {text : Bytes} {d0 : Nat} {sh : Int} {N Dn : Nat}
    (h : ReadVal neg text d0 sh N Dn) (P : Nat) (hd0 : d0 ≤ 10 ^ P) (hsh : (P : Int) + sh ≤ 80) :
    N * 2 ^ 1074 < F64R.thr * Dn := by
  have h1 := readVal_fixed_small h P 80 hd0 hsh
  have h2 := small_lt_thr80
  have hDn := h.dpos
  generalize (2 : Nat) ^ 1074 = T at *
  generalize F64R.thr = thr at *
  calc N * T ≤ 10 ^ 80 * Dn * T := Nat.mul_le_mul_right _ h1
    _ = 10 ^ 80 * T * Dn := Nat.mul_right_comm _ _ _
    _ < thr * Dn := Nat.mul_lt_mul_of_pos_right h2 hDn

/-! ### the written text in terms of `sciText` -/

/-- the precision `%.{p}g` works with -/
def effP (p : Nat) : Nat := if p = 0 then 1 else p

theorem fmtG_nonzero (b p : Nat) (hfin : isFinite b = true) (hm : mant b ≠ 0) :
    fmtG b p = gTail (signBytes (signBit b)) (effP p) (gDX b (effP p)).1 (gDX b (effP p)).2 := by
  rw [fmtG_eq]
  simp only [hfin, Bool.not_true, Bool.false_eq_true, if_false, hm, sign_eq]
  rfl

theorem postProc_fmtG (b p : Nat) (hfin : isFinite b = true) (hm : mant b ≠ 0) :
    postProc (fmtG b p) = sciText b (effP p) := by
  rw [fmtG_nonzero b p hfin hm]; rfl

/-- the written text, scientific notation allowed, for the library's buffer: the rendering is
never cut, and the 17-digit re-rendering is chosen exactly when the short one overflows -/
theorem formatDouble_sci (b p : Nat) (hfin : isFinite b = true) (hp : p ≤ 70) :
    formatDouble 341 b p true =
      postProc (if isInf (strtod (fmtG b p)) = true then fmtG b 17 else fmtG b p) := by
  have hfit : ∀ q, q ≤ 70 → (fmtG b q).take (341 - 4) = fmtG b q := by
    intro q hq
    apply List.take_of_length_le
    have := fmtG_length b q hfin
    split at this <;> omega
  rw [formatDouble_eq]
  unfold rawText
  simp only [Bool.true_and, if_true, hfin, hfit p hp]
  by_cases hc : isInf (strtod (fmtG b p)) = true
  · simp only [if_pos hc, hfit 17 (by omega)]
  · simp only [if_neg hc, hfit p hp]

theorem isInf_readVal {neg : Bool} {text : Bytes} {d0 : Nat} {sh : Int} {N Dn : Nat}
    (h : ReadVal neg text d0 sh N Dn) (hlt : N * 2 ^ 1074 < F64R.thr * Dn) :
    isInf (strtod text) = false := by
  rw [h.value]
  exact isInf_ofRat_lt neg N Dn h.npos h.dpos hlt

/-- the text `%.{P}g` of a non-zero finite double does not read back as an infinity when it is in
fixed style, or has 17 digits -/
theorem sciText_no_overflow (b P : Nat) (hfin : isFinite b = true) (hm : mant b ≠ 0) (hP : 1 ≤ P)
    (hP70 : P ≤ 70)
    (hcase : P = 17 ∨ (decide ((gDX b P).2 < -4) || decide ((gDX b P).2 ≥ (P : Int))) = false) :
    isInf (strtod (sciText b P)) = false := by
  obtain ⟨N, Dn, hrv⟩ := sciText_value b P hfin hm hP hP70
  rcases hcase with rfl | hst
  · exact isInf_readVal hrv (readVal17_lt hfin hm hrv)
  · have hs := gDX_spec b P hfin hm hP
    have hx := hs.xcase
    simp only [Bool.or_eq_false_iff, decide_eq_false_iff_not, Int.not_lt] at hst
    refine isInf_readVal hrv (readVal_fixed_lt hrv P (gQ_spec b P hfin hm hP).2.2.2.2 ?_)
    unfold gSh
    omega

/-- **no overflow on the way back**, scientific notation allowed (precision ≤ 70): the text
written for a finite double never reads back as an infinity -/
theorem sci_no_overflow (b p : Nat) (hfin : isFinite b = true) (hp : p ≤ 70) :
    isInf (strtod (formatDouble 341 b p true)) = false := by
  rw [formatDouble_sci b p hfin hp]
  by_cases hm : mant b = 0
  · rw [sci_zero_text b p hfin hm, sci_zero_text b 17 hfin hm]
    simp only [ite_self]
    rw [strtod_zero_text]
    exact isInf_zero _
  · have hP : 1 ≤ effP p := by unfold effP; split <;> omega
    have hP70 : effP p ≤ 70 := by unfold effP; split <;> omega
    by_cases hc : isInf (strtod (fmtG b p)) = true
    · rw [if_pos hc, postProc_fmtG b 17 hfin hm]
      exact sciText_no_overflow b 17 hfin hm (by decide) (by decide) (.inl rfl)
    · rw [if_neg hc, postProc_fmtG b p hfin hm]
      by_cases hst : (decide ((gDX b (effP p)).2 < -4) ||
          decide ((gDX b (effP p)).2 ≥ ((effP p : Nat) : Int))) = true
      · -- exponent style: the text is the rendering itself
        have : sciText b (effP p) = fmtG b p := by
          unfold sciText
          rw [gTail_exp_keep _ _ _ _ hst, ← fmtG_nonzero b p hfin hm]
        rw [this]
        simpa using hc
      · exact sciText_no_overflow b (effP p) hfin hm hP hP70 (.inr (by simpa using hst))

end Libconfig.C01I

