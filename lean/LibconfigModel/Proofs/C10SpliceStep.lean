import LibconfigModel.Proofs.C10SpliceText
/-
  Helper lemmas for Properties/C10Splice.lean: single iterations of the `yylex` loop in
  closed form (simple actions, BEGIN, append, the three end-of-buffer cases), monotonicity
  of `yylex` in its fuel, `Steps` (k iterations that return nothing), and the run of the
  include machinery over one directive line (`directive_prefix`, `directive_close_skip`,
  `directive_close_push`).
-/
set_option autoImplicit false

namespace Libconfig.C10S

open Libconfig Libconfig.C10 Libconfig.C10P

/-- the buffer after a match of `len` bytes by rule `rule` -/
def advBuf (T : FlexTables) (b : Buf) (rule len : Nat) : Buf :=
  { rest := b.rest.drop len,
    bol := match (b.rest.take len).getLast? with
      | some c => c == 10
      | none => b.bol,
    lineno := if T.canMatchEol.getN rule != 0 then b.lineno + countNl (b.rest.take len)
      else b.lineno }

/-- effect of a simple action: the new start condition and the token returned, if any -/
def simpleOut (a : ScanAct) (sc : Nat) (text : Bytes) : Nat × Option (Nat × TokVal) :=
  match a with
  | .begin sc' => (sc', none)
  | .ignore => (sc, none)
  | .tok t => (sc, some (t, {}))
  | .tokBool t v => (sc, some (t, { ival := v }))
  | .tokName t => (sc, some (t, { sval := text }))
  | .tokFloat .. | .tokInteger .. | .tokInteger64 .. | .tokHex .. | .tokHex64 .. =>
    (sc, some (numericTok a text))
  | _ => (sc, none)

/-- one iteration of `yylex` on a rule with a simple action -/
theorem yylex_simple (T : FlexTables) (acts : List ScanAct) (w : World) (ic : IncludeCfg)
    (fuel : Nat) (s : ScanState) (rule len : Nat)
    (hnext : Flex.next T s.sc s.buf.bol s.buf.rest = some (rule, len))
    (hs : simpleAct (acts.getD rule .unknown) = true) :
    yylex T acts w ic (fuel + 1) s =
      match simpleOut (acts.getD rule .unknown) s.sc (s.buf.rest.take len) with
      | (sc', none) => yylex T acts w ic fuel { s with buf := advBuf T s.buf rule len, sc := sc' }
      | (sc', some (t, v)) => ({ s with buf := advBuf T s.buf rule len, sc := sc' }, .tok t v) := by
  rw [yylex, hnext]
  simp only
  generalize acts.getD rule .unknown = a at hs ⊢
  cases a <;> simp only [simpleAct] at hs <;> first | rfl | cases hs

/-- one iteration of `yylex` on a BEGIN action -/
theorem yylex_begin (T : FlexTables) (acts : List ScanAct) (w : World) (ic : IncludeCfg)
    (fuel : Nat) (s : ScanState) (rule len sc' : Nat)
    (hnext : Flex.next T s.sc s.buf.bol s.buf.rest = some (rule, len))
    (ha : acts.getD rule .unknown = .begin sc') :
    yylex T acts w ic (fuel + 1) s =
      yylex T acts w ic fuel { s with buf := advBuf T s.buf rule len, sc := sc' } := by
  rw [yylex, hnext]
  simp only [ha]
  rfl

/-- one iteration of `yylex` on an append-the-lexeme action -/
theorem yylex_appendText (T : FlexTables) (acts : List ScanAct) (w : World) (ic : IncludeCfg)
    (fuel : Nat) (s : ScanState) (rule len : Nat)
    (hnext : Flex.next T s.sc s.buf.bol s.buf.rest = some (rule, len))
    (ha : acts.getD rule .unknown = .appendText) :
    yylex T acts w ic (fuel + 1) s =
      yylex T acts w ic fuel { s with buf := advBuf T s.buf rule len,
                                      str := s.str ++ cstr (s.buf.rest.take len) } := by
  rw [yylex, hnext]
  simp only [ha]
  rfl

/-- end of the top-level buffer: end of input -/
theorem yylex_eof_top (T : FlexTables) (acts : List ScanAct) (w : World) (ic : IncludeCfg)
    (fuel : Nat) (s : ScanState) (hnext : Flex.next T s.sc s.buf.bol s.buf.rest = none)
    (hst : s.stack = []) : yylex T acts w ic (fuel + 1) s = (s, .eof) := by
  rw [yylex, hnext]
  simp only [hst]

/-- the `fclose` of the file that has just ended -/
def closeEv (f : Frame) : List IOEvent :=
  match f.files[f.cur]? with
  | some p => [IOEvent.fclose p]
  | none => []

/-- end of an included file, the frame has another file and it can be opened -/
theorem yylex_eof_next (T : FlexTables) (acts : List ScanAct) (w : World) (ic : IncludeCfg)
    (fuel : Nat) (s : ScanState) (f : Frame) (fs : List Frame) (q content : Bytes)
    (hnext : Flex.next T s.sc s.buf.bol s.buf.rest = none) (hst : s.stack = f :: fs)
    (hq : f.files[f.cur + 1]? = some q) (hopen : w.open? q = some content) :
    yylex T acts w ic (fuel + 1) s =
      yylex T acts w ic fuel { s with buf := { rest := content },
                                      stack := { f with cur := f.cur + 1 } :: fs,
                                      events := s.events ++ closeEv f ++ [.fopen q true] ++
                                        [.delBuf, .newBuf] } := by
  rw [yylex, hnext]
  simp only [hst, nextIncludeFile, hq, hopen, Bool.false_eq_true, ↓reduceIte]
  rfl

/-- end of the last file of a frame: back to the parent buffer -/
theorem yylex_eof_pop (T : FlexTables) (acts : List ScanAct) (w : World) (ic : IncludeCfg)
    (fuel : Nat) (s : ScanState) (f : Frame) (fs : List Frame)
    (hnext : Flex.next T s.sc s.buf.bol s.buf.rest = none) (hst : s.stack = f :: fs)
    (hq : f.files[f.cur + 1]? = none) :
    yylex T acts w ic (fuel + 1) s =
      yylex T acts w ic fuel { s with buf := f.parent, stack := fs,
                                      events := s.events ++ closeEv f ++ [.delBuf] } := by
  rw [yylex, hnext]
  simp only [hst, nextIncludeFile, hq, Bool.false_eq_true, ↓reduceIte]
  rfl

/-! ### fuel -/

/-- more fuel does not change the result of a call that did not run out of fuel -/
theorem yylex_mono1 (T : FlexTables) (acts : List ScanAct) (w : World) (ic : IncludeCfg) :
    ∀ (fuel : Nat) (s : ScanState), (yylex T acts w ic fuel s).2 ≠ .outOfFuel →
      yylex T acts w ic (fuel + 1) s = yylex T acts w ic fuel s := by
  intro fuel
  induction fuel with
  | zero => intro s h; exact (h (by rw [yylex])).elim
  | succ n ih =>
    intro s
    rw [yylex, yylex]
    simp (config := { zeta := false }) only
    repeat' split
    all_goals first | (intro _; rfl) | (intro h; exact ih _ h) | skip
    all_goals simp only
    all_goals repeat' split
    all_goals first | (intro _; rfl) | (intro h; exact ih _ h) | skip

theorem yylex_mono (T : FlexTables) (acts : List ScanAct) (w : World) (ic : IncludeCfg)
    (fuel : Nat) (s : ScanState) (h : (yylex T acts w ic fuel s).2 ≠ .outOfFuel) :
    ∀ k, yylex T acts w ic (fuel + k) s = yylex T acts w ic fuel s := by
  intro k
  induction k with
  | zero => rfl
  | succ k ih =>
    rw [← Nat.add_assoc, yylex_mono1 T acts w ic (fuel + k) s (by rw [ih]; exact h), ih]

/-! ### silent progress of one `yylex` call -/

/-- `k` iterations of the loop of `yylex` lead from `s` to `s'` without returning -/
def Steps (w : World) (ic : IncludeCfg) (k : Nat) (s s' : ScanState) : Prop :=
  ∀ fuel, yylex T acts w ic (fuel + k) s = yylex T acts w ic fuel s'

theorem Steps.one {w : World} {ic : IncludeCfg} {s s' : ScanState}
    (h : ∀ fuel, yylex T acts w ic (fuel + 1) s = yylex T acts w ic fuel s') : Steps w ic 1 s s' := h

theorem Steps.trans {w : World} {ic : IncludeCfg} {a b : Nat} {s s' s'' : ScanState}
    (h1 : Steps w ic a s s') (h2 : Steps w ic b s' s'') : Steps w ic (a + b) s s'' := by
  intro fuel
  rw [show fuel + (a + b) = (fuel + b) + a by omega, h1, h2]

/-- from `s` the call of `yylex` goes on from `s'` with strictly less fuel, whenever it does not
run out of fuel: the iterations in between return nothing -/
def Silent (w : World) (ic : IncludeCfg) (s s' : ScanState) : Prop :=
  ∀ fuel, (yylex T acts w ic fuel s).2 ≠ .outOfFuel →
    ∃ fuel', fuel' < fuel ∧ yylex T acts w ic fuel s = yylex T acts w ic fuel' s'

theorem Steps.silent {w : World} {ic : IncludeCfg} {k : Nat} {s s' : ScanState} (hk : 0 < k)
    (h : Steps w ic k s s') : Silent w ic s s' := by
  intro fuel hne
  by_cases hlt : fuel < k
  · exfalso
    have h1 := yylex_mono T acts w ic fuel s hne (k - fuel)
    have h2 := h 0
    rw [show fuel + (k - fuel) = 0 + k by omega, h2] at h1
    apply hne
    rw [← h1, yylex]
  · refine ⟨fuel - k, by omega, ?_⟩
    rw [← h (fuel - k)]
    congr 1
    omega

theorem acts_22 : acts.getD 22 .unknown = .begin 4 := by decide
theorem acts_23 : acts.getD 23 .unknown = .appendText := by decide
theorem acts_27 : acts.getD 27 .unknown = .includeDirective Generated.tokens.error := by decide

/-- **A directive line, up to the closing quote.**  At the beginning of a line in INITIAL,
on a directive line `l` (followed by `tail`), the call of `yylex` matches the directive prefix
(rule 22, BEGIN INCLUDE) and the path (rule 23, appended to the string buffer) without
returning, and stands before the closing quote with the path in the string buffer. -/
theorem directive_prefix (w : World) (ic : IncludeCfg) (s : ScanState) (l tail path rest : Bytes)
    (hd : directive? l = some (path, rest)) (hrest : s.buf.rest = l ++ tail)
    (hb : ByteText (l ++ tail)) (hl : 10 ∉ l) (hsc : s.sc = 0) (hbol : s.buf.bol = true)
    (hstr : s.str = []) :
    ∃ s' k, 0 < k ∧ k ≤ 2 ∧ Steps w ic k s s' ∧ s'.sc = 4 ∧ s'.str = path ∧
      s'.buf.rest = 34 :: (rest ++ tail) ∧
      s'.buf.bol = false ∧ s'.stack = s.stack ∧ s'.topFile = s.topFile := by
  obtain ⟨b1, b2, rfl, hb1, hb2, hne, hpath⟩ := directive?_shape hd
  have hbl := (byteText_append.mp hb).1
  -- step 1: the directive prefix
  have hre1 : s.buf.rest = (b1 ++ kw ++ b2 ++ [34]) ++ (path ++ 34 :: (rest ++ tail)) := by
    rw [hrest]; simp
  have hv : ∀ c, (path ++ 34 :: (rest ++ tail)).head? = some c → c < 256 := by
    intro c hc
    have hmem : c ∈ path ++ 34 :: (rest ++ tail) := List.mem_of_mem_head? hc
    have : c ∈ (b1 ++ kw ++ b2 ++ 34 :: (path ++ 34 :: rest)) ++ tail := by
      simp only [List.mem_append, List.mem_cons] at hmem ⊢
      rcases hmem with h | h | h | h
      · exact .inl (.inr (.inr (.inl h)))
      · exact .inl (.inr (.inr (.inr (.inl h))))
      · exact .inl (.inr (.inr (.inr (.inr h))))
      · exact .inr h
    exact (hb c this).2
  have hn1 : Flex.next T s.sc s.buf.bol s.buf.rest
      = some (22, b1.length + 8 + b2.length + 1) := by
    rw [hsc, hbol, hre1]
    have := next_include_open b1 b2 (path ++ 34 :: (rest ++ tail)) hb1 hb2 hne hv
    simpa using this
  have hlen : (b1 ++ kw ++ b2 ++ [34]).length = b1.length + 8 + b2.length + 1 := by
    simp only [kw, List.length_append, List.length_cons, List.length_nil]
  let sa : ScanState := { s with buf := advBuf T s.buf 22 (b1.length + 8 + b2.length + 1), sc := 4 }
  have h1 : Steps w ic 1 s sa :=
    Steps.one fun fuel => yylex_begin T acts w ic fuel s 22 _ 4 hn1 acts_22
  have hsa_rest : sa.buf.rest = path ++ 34 :: (rest ++ tail) := by
    show (s.buf.rest.drop _) = _
    rw [hre1, ← hlen, List.drop_left]
  have hsa_bol : sa.buf.bol = false := by
    show (match (s.buf.rest.take _).getLast? with | some c => c == 10 | none => s.buf.bol) = false
    rw [hre1, ← hlen, List.take_left, List.getLast?_concat]
    rfl
  -- step 2: the path
  by_cases hpe : path = []
  · subst hpe
    refine ⟨sa, 1, by omega, by omega, h1, rfl, hstr, ?_, hsa_bol, rfl, rfl⟩
    rw [hsa_rest]; rfl
  · have hpb : ∀ c ∈ path, c < 256 ∧ c ≠ 34 ∧ c ≠ 92 := by
      intro c hc
      refine ⟨(hbl c ?_).2, hpath c hc⟩
      simp [hc]
    have hn2 : Flex.next T sa.sc sa.buf.bol sa.buf.rest = some (23, path.length) := by
      rw [hsa_bol, hsa_rest]
      exact next_path path (rest ++ tail) hpe hpb
    let sb : ScanState := { sa with buf := advBuf T sa.buf 23 path.length,
                                    str := sa.str ++ cstr (sa.buf.rest.take path.length) }
    have h2 : Steps w ic 1 sa sb :=
      Steps.one fun fuel => yylex_appendText T acts w ic fuel sa 23 _ hn2 acts_23
    have hpbt : ByteText path := fun c hc => hbl c (by simp [hc])
    refine ⟨sb, 2, by omega, by omega, h1.trans h2, rfl, ?_, ?_, ?_, rfl, rfl⟩
    · show s.str ++ cstr (sa.buf.rest.take path.length) = path
      rw [hstr, hsa_rest, List.take_left, cstr_of_byteText hpbt]
      rfl
    · show sa.buf.rest.drop path.length = _
      rw [hsa_rest, List.drop_left]
    · show (match (sa.buf.rest.take path.length).getLast? with
        | some c => c == 10 | none => sa.buf.bol) = false
      rw [hsa_rest, List.take_left]
      obtain ⟨c, hc⟩ := Option.isSome_iff_exists.mp (List.getLast?_isSome.mpr hpe)
      rw [hc]
      have hcm : c ∈ path := List.mem_of_getLast? hc
      have : c ≠ 10 := by
        intro h10
        apply hl
        rw [← h10]
        simp [hcm]
      simpa using this

theorem atDirective_close (sb : ScanState) (v : Bytes) (hsc : sb.sc = 4)
    (hrest : sb.buf.rest = 34 :: v) (hbol : sb.buf.bol = false)
    (hv : ∀ c, v.head? = some c → c < 256) :
    AtDirective T acts sb 27 1 Generated.tokens.error := by
  refine ⟨?_, acts_27⟩
  rw [hsc, hbol, hrest]
  exact next_close v hv

theorem consumed_close_rest (sb : ScanState) (v : Bytes) (hrest : sb.buf.rest = 34 :: v) :
    (consumed T sb 27 1).buf.rest = v := by
  show sb.buf.rest.drop 1 = v
  rw [hrest]; rfl

theorem consumed_close_bol (sb : ScanState) (v : Bytes) (hrest : sb.buf.rest = 34 :: v) :
    (consumed T sb 27 1).buf.bol = false := by
  show (match (sb.buf.rest.take 1).getLast? with | some c => c == 10 | none => sb.buf.bol) = false
  rw [hrest]; rfl

/-- **The closing quote, empty file list**: the directive is skipped. -/
theorem directive_close_skip (w : World) (ic : IncludeCfg) (sb : ScanState) (path v : Bytes)
    (hsc : sb.sc = 4) (hstr : sb.str = path) (hrest : sb.buf.rest = 34 :: v)
    (hbol : sb.buf.bol = false) (hv : ∀ c, v.head? = some c → c < 256) (hbt : ByteText path)
    (hd : sb.stack.length < 10) (hfn : includeFnEval ic.fn ic.dir path = (some [], none)) :
    ∃ s', Steps w ic 1 sb s' ∧ s'.sc = 0 ∧ s'.str = [] ∧ s'.buf.rest = v ∧ s'.buf.bol = false ∧
      s'.stack = sb.stack ∧ s'.topFile = sb.topFile := by
  have hat := atDirective_close sb v hsc hrest hbol hv
  refine ⟨{ consumed T sb 27 1 with sc := Generated.SC_INITIAL },
    Steps.one fun fuel => C10_empty_list T acts w ic fuel sb 27 1 _ hat hd
      (.inr (by rw [hstr, cstr_of_byteText hbt]; exact hfn)),
    rfl, rfl, consumed_close_rest sb v hrest, consumed_close_bol sb v hrest, rfl, rfl⟩

/-- **The closing quote, first file opened**: a frame is pushed, scanning continues in the
file. -/
theorem directive_close_push (w : World) (ic : IncludeCfg) (sb : ScanState) (path v : Bytes)
    (hsc : sb.sc = 4) (hstr : sb.str = path) (hrest : sb.buf.rest = 34 :: v)
    (hbol : sb.buf.bol = false) (hv : ∀ c, v.head? = some c → c < 256) (hbt : ByteText path)
    (hd : sb.stack.length < 10) (p : Bytes) (ps : List Bytes) (content : Bytes)
    (hfn : includeFnEval ic.fn ic.dir path = (some (p :: ps), none))
    (hopen : w.open? p = some content) :
    ∃ s', Steps w ic 1 sb s' ∧ s'.sc = 0 ∧ s'.str = [] ∧ s'.buf.rest = content ∧
      s'.buf.bol = true ∧ s'.topFile = sb.topFile ∧
      ∃ ln, s'.stack = { files := p :: ps, cur := 0, parent := ⟨v, false, ln⟩ } :: sb.stack := by
  have hat := atDirective_close sb v hsc hrest hbol hv
  refine ⟨_, Steps.one fun fuel => C10_push T acts w ic fuel sb 27 1 _ hat hd p ps content
      (by rw [hstr, cstr_of_byteText hbt]; exact hfn) hopen,
    rfl, rfl, rfl, rfl, rfl, (consumed T sb 27 1).buf.lineno, ?_⟩
  show _ :: _ = _
  congr 2
  have h1 := consumed_close_rest sb v hrest
  have h2 := consumed_close_bol sb v hrest
  generalize (consumed T sb 27 1).buf = b at h1 h2 ⊢
  cases b
  simp only at h1 h2
  subst h1 h2
  rfl

end Libconfig.C10S
