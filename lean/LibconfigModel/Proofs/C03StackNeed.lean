import LibconfigModel.Proofs.C03StackSeeded
/-
  C03S, part 8 (S3, "only as large as needed"): the stacks are extended only when the block in
  use has been filled.  `hwmOf` reads the deepest stack so far off the log (every entry is
  created by a store `*yyssp = …` into slot `idx`, which makes `idx + 1` entries); the invariant
  `Need`: the block allocated last was allocated because a stack of `YYINITDEPTH · 2^(k-1)`
  entries — the whole previous block — had been reached.
-/
namespace Libconfig.C03SP

open Libconfig Libconfig.BisonStack

variable {V : Type}

/-- the largest number of entries the stacks ever held, according to the log -/
def hwmOf : List Access → Nat
  | [] => 0
  | .storeS _ _ idx :: log => max (idx + 1) (hwmOf log)
  | _ :: log => hwmOf log

theorem hwmOf_cons_le (a : Access) (log : List Access) : hwmOf log ≤ hwmOf (a :: log) := by
  cases a <;> simp only [hwmOf, Nat.le_refl]
  exact Nat.le_max_right _ _

theorem hwmOf_append_le (new log : List Access) : hwmOf log ≤ hwmOf (new ++ log) := by
  induction new with
  | nil => exact Nat.le_refl _
  | cons a new ih => exact Nat.le_trans ih (hwmOf_cons_le a _)

theorem hwmOf_mem (b : Blk) (cap idx : Nat) : ∀ (log : List Access), .storeS b cap idx ∈ log →
    idx + 1 ≤ hwmOf log := by
  intro log
  induction log with
  | nil => intro h; cases h
  | cons a log ih =>
    intro h
    rcases List.mem_cons.mp h with rfl | h
    · exact Nat.le_max_left _ _
    · exact Nat.le_trans (ih h) (hwmOf_cons_le a log)

/-- the newest block was needed -/
def Need (P : Params) (s : State V) : Prop :=
  s.nextId = 0 ∨ P.I * 2 ^ (s.nextId - 1) ≤ hwmOf s.log

/-- steps that leave `nextId` alone and only add to the log keep `Need` -/
theorem need_mono (P : Params) (s t : State V) (h : Need P s) (h1 : t.nextId = s.nextId)
    (h2 : ∃ new, t.log = new ++ s.log) : Need P t := by
  obtain ⟨new, h2⟩ := h2
  unfold Need at h ⊢
  rw [h1, h2]
  rcases h with h | h
  · exact .inl h
  · exact .inr (Nat.le_trans h (hwmOf_append_le new s.log))

theorem returnLab_nextId (r : Result) (len : Nat) (s : State V) :
    (returnLab r len s).nextId = s.nextId := by
  have h := ctl_returnLab r len s
  have h1 : (returnLab r len s).nextId = (ctlOf (returnLab r len s)).nextId := rfl
  rw [h1, h]
  unfold Ctl.returnLab
  split
  · rfl
  · show (Ctl.cleanup _ _).nextId = _
    generalize ({ ctlOf s with ssp := (ctlOf s).ssp - len, vsp := (ctlOf s).vsp - len } : Ctl).ssp = fuel
    have : ∀ (fuel : Nat) (c : Ctl), (Ctl.cleanup fuel c).nextId = c.nextId := by
      intro fuel
      induction fuel with
      | zero => intro c; rfl
      | succ fuel ih =>
        intro c
        rw [Ctl.cleanup]
        split
        · rfl
        · rw [ih]
    rw [this]
    rfl

theorem setState_need (P : Params) (hP : P.OK) (st : Nat) (ok : Bool) (t : State V) (h : Pre P t)
    (hn : Need P t) : Need P (setState P st ok t) := by
  obtain ⟨c1, c2, c3, c4⟩ := setState_cases P hP st ok t
  rcases Nat.lt_or_ge (t.ssp + 1) t.stacksize with hlt | hge
  · rw [c1 hlt]
    exact need_mono P t _ hn rfl ⟨[_], rfl⟩
  · have heq : t.ssp + 1 = t.stacksize := by have := h.room; omega
    rcases Nat.lt_or_ge t.stacksize P.M with hM | hM
    · cases ok with
      | false =>
        rw [c3 heq hM rfl]
        obtain ⟨new, hnew⟩ := returnLab_log .nomem 0 (failed P st t)
        exact need_mono P t _ hn (returnLab_nextId _ _ _)
          ⟨new ++ [.allocFail (newSize P t.stacksize), .storeS t.loc t.ss.length t.ssp], by
            rw [hnew]; simp [failed]⟩
      | true =>
        rw [c4 heq hM rfl]
        right
        show P.I * 2 ^ (t.nextId + 1 - 1) ≤ hwmOf (grown P st t).log
        rw [Nat.add_sub_cancel]
        have hsz := h.size
        have h2 : P.I * 2 ^ t.nextId = t.ssp + 1 := by
          have : min (P.I * 2 ^ t.nextId) P.M < P.M := by rw [← hsz]; exact hM
          omega
        rw [h2]
        apply hwmOf_mem t.loc t.ss.length t.ssp
        unfold grown
        simp
    · rw [c2 heq hM]
      obtain ⟨new, hnew⟩ := returnLab_log .nomem 0 (stored st t)
      exact need_mono P t _ hn (returnLab_nextId _ _ _)
        ⟨new ++ [.storeS t.loc t.ss.length t.ssp], by rw [hnew]; simp [stored]⟩

theorem errPop_need (P : Params) : ∀ (k : Nat) (s : State V), Need P s → Need P (errPop k s) := by
  intro k
  induction k with
  | zero => intro s h; exact h
  | succ k ih =>
    intro s h
    rw [errPop]
    split
    · exact need_mono P s _ h (returnLab_nextId _ _ _) (returnLab_log _ _ _)
    · exact ih _ (need_mono P s _ h rfl ⟨[_, _], rfl⟩)

theorem step_need (P : Params) (hP : P.OK) (s : State V) (e : Event V) (h : Inv P s)
    (hn : Need P s) : Need P (step P s e) := by
  unfold step
  split
  · rename_i hr
    cases e with
    | shift st v ok =>
      show Need P (shiftStep P st v ok s)
      rw [shiftStep_eq]
      exact setState_need P hP st ok _ (pre_pushed P v s h hr) (need_mono P s _ hn rfl ⟨[_], rfl⟩)
    | reduce n st v ok =>
      show Need P (reduceStep P n st v ok s)
      rcases Nat.lt_or_ge s.ssp n with hlt | hge
      · unfold reduceStep
        rw [if_pos hlt]
        exact need_mono P s _ hn rfl ⟨[], rfl⟩
      · rw [reduceStep_eq P n st v ok s hge]
        have hi := inv_popped P n s h hr hge
        refine setState_need P hP st ok _ (pre_log P _ _ (pre_pushed P v _ hi hr) ?_) ?_
        · exact ⟨by have := h.top; omega, h.initS _ (by omega)⟩
        · exact need_mono P s _ hn rfl ⟨[_, _, _], rfl⟩
    | errPop k => exact errPop_need P k s hn
    | finish r len => exact need_mono P s _ hn (returnLab_nextId _ _ _) (returnLab_log _ _ _)
  · exact hn

theorem run_need (P : Params) (hP : P.OK) : ∀ (es : List (Event V)) (s : State V), Inv P s →
    Need P s → Need P (run P es s)
  | [], _, _, hn => hn
  | e :: es, s, h, hn =>
    run_need P hP es (step P s e) (step_inv P hP s e h) (step_need P hP s e h hn)

theorem init_need (P : Params) (hP : P.OK) (ok : Bool) : Need P (init P ok : State V) :=
  setState_need P hP 0 ok _ (pre_start P hP) (.inl rfl)

/-- **Only as large as needed**: while the parser runs, `yystacksize` is `YYINITDEPTH`, or at most
twice the deepest stack so far. -/
theorem size_needed (P : Params) (s : State V) (h : Inv P s) (hn : Need P s)
    (hr : s.status = .running) : s.stacksize ≤ max P.I (2 * hwmOf s.log) := by
  rw [h.size hr]
  cases hk : s.nextId with
  | zero =>
    simp only [Nat.pow_zero, Nat.mul_one]
    omega
  | succ k =>
    have h1 : P.I * 2 ^ k ≤ hwmOf s.log := by
      rcases hn with h0 | h1
      · rw [hk] at h0; cases h0
      · rw [hk, Nat.add_sub_cancel] at h1; exact h1
    have e : P.I * 2 ^ (k + 1) = 2 * (P.I * 2 ^ k) := by rw [Nat.pow_succ]; ac_rfl
    rw [e]
    omega

end Libconfig.C03SP
