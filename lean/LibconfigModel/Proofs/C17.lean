import LibconfigModel.Cpp
import LibconfigModel.Proofs.C06
import LibconfigModel.Proofs.C16
import LibconfigModel.Proofs.C04
/-
  Helper lemmas for property C17 (statements live in Properties/C17.lean).
-/
namespace Libconfig.C17P

open Libconfig.Cpp

/-! ### type codes -/

theorem isNumberTy_iff (t : Nat) : isNumberTy t = true ↔ t = T_INT ∨ t = T_INT64 ∨ t = T_FLOAT := by
  unfold isNumberTy; simp [Bool.or_eq_true, beq_iff_eq, or_assoc]

/-- `Setting::isAggregate()` (`_type >= TypeGroup` on the C++ enumeration) is
`config_setting_is_aggregate` -/
theorem cppIsAggregate_eq (ty : Nat) : cppIsAggregate ty = isAggregateTy ty := by
  unfold cppIsAggregate cppType isAggregateTy
  by_cases h1 : ty = 1
  · subst h1; decide
  by_cases h2 : ty = 2
  · subst h2; decide
  by_cases h3 : ty = 3
  · subst h3; decide
  by_cases h4 : ty = 4
  · subst h4; decide
  by_cases h5 : ty = 5
  · subst h5; decide
  by_cases h6 : ty = 6
  · subst h6; decide
  by_cases h7 : ty = 7
  · subst h7; decide
  by_cases h8 : ty = 8
  · subst h8; decide
  simp [h1, h2, h3, h4, h5, h6, h7, h8]

/-! ### the path text -/

theorem component_ne_nil (k : Node) (i : Nat) (h : k.name ≠ some []) : component k i ≠ [] := by
  unfold component
  cases hn : k.name with
  | none => simp
  | some nm =>
    simp only
    intro he; subst he; exact h hn

/-- `__constructPath` writes exactly the text that `renderPath` gives for "names where there are
names, dots as separators, no leading dot" — provided no setting on the way has an empty name -/
theorem constructPathAux_render : ∀ (ip : Path) (n : Node) (acc txt : Bytes) (lead : Bool),
    C06P.NoEmpty n → (lead = !acc.isEmpty) →
    renderPath n ip (ip.map fun _ => { useName := true, sep := 46 }) lead = some txt →
    constructPathAux n ip acc = acc ++ txt := by
  intro ip
  induction ip with
  | nil =>
    intro n acc txt lead _ _ h
    simp only [renderPath] at h
    cases h; simp [constructPathAux]
  | cons i ip ih =>
    intro n acc txt lead hne hl h
    simp only [List.map_cons, renderPath] at h
    cases hk : n.kids[i]? with
    | none => simp [hk] at h
    | some k =>
      simp only [hk] at h
      have hkname : k.name ≠ some [] := by
        have := hne [] n (by simp [Node.get?]) k (List.mem_of_getElem? hk)
        exact this
      cases hr : renderPath k ip (ip.map fun _ => { useName := true, sep := 46 }) true with
      | none => simp [hr] at h
      | some rest =>
        simp only [hr, Option.map_some, Option.some.injEq] at h
        replace h : ((if lead = true then [46] else []) ++ component k i) ++ rest = txt := by
          rw [← h]; unfold component; cases k.name <;> rfl
        rw [constructPathAux]
        simp only [hk]
        have hne' : ((if acc.isEmpty then acc else acc ++ [46]) ++ component k i) ≠ [] := by
          intro he
          have := List.append_eq_nil_iff.mp he
          exact component_ne_nil k i hkname this.2
        have hl' : (true = !((if acc.isEmpty then acc else acc ++ [46]) ++ component k i).isEmpty) := by
          cases hx : ((if acc.isEmpty then acc else acc ++ [46]) ++ component k i) with
          | nil => exact absurd hx hne'
          | cons a b => rfl
        rw [ih k _ rest true (C06P.NoEmpty.child hne hk) hl' hr, ← h]
        cases ha : acc.isEmpty with
        | true =>
          have : acc = [] := List.isEmpty_iff.mp ha
          subst this
          simp [hl]
        | false =>
          simp [hl, ha, List.append_assoc]

theorem constructPath_eq_cppGetPath (n : Node) (hne : C06P.NoEmpty n) (ip : Path) (txt : Bytes)
    (h : cppGetPath n ip = some txt) : constructPath n ip = txt := by
  unfold constructPath
  have := constructPathAux_render ip n [] txt false hne rfl h
  simpa using this


/-! ### wrapping changes nothing but hooks -/

theorem wrapNode_kids (n : Node) : (wrapNode n).kids = n.kids := by unfold wrapNode; split <;> rfl
theorem wrapNode_name (n : Node) : (wrapNode n).name = n.name := by unfold wrapNode; split <;> rfl
theorem wrapNode_ty (n : Node) : (wrapNode n).ty = n.ty := by unfold wrapNode; split <;> rfl
theorem wrapNode_ival (n : Node) : (wrapNode n).ival = n.ival := by unfold wrapNode; split <;> rfl
theorem wrapNode_fval (n : Node) : (wrapNode n).fval = n.fval := by unfold wrapNode; split <;> rfl
theorem wrapNode_sval (n : Node) : (wrapNode n).sval = n.sval := by unfold wrapNode; split <;> rfl
theorem wrapNode_fmt (n : Node) : (wrapNode n).fmt = n.fmt := by unfold wrapNode; split <;> rfl
theorem wrapNode_line (n : Node) : (wrapNode n).line = n.line := by unfold wrapNode; split <;> rfl
theorem wrapNode_file (n : Node) : (wrapNode n).file = n.file := by unfold wrapNode; split <;> rfl

/-- a second `wrapSetting` finds the wrapper and creates nothing -/
theorem wrapNode_idem (n : Node) : wrapNode (wrapNode n) = wrapNode n := by
  unfold wrapNode
  by_cases h : n.hook = 0 <;> simp [h]

theorem wrapNode_hook_ne (n : Node) : (wrapNode n).hook ≠ 0 := by
  unfold wrapNode
  by_cases h : n.hook = 0 <;> simp [h]

theorem wrapAlong_name : ∀ (p : Path) (n : Node), (wrapAlong n p).name = n.name := by
  intro p n
  cases p with
  | nil => simp [wrapAlong, wrapNode_name]
  | cons i p =>
    rw [wrapAlong]
    split <;> simp [wrapNode_name]

/-- the setting addressed by `p` is the same setting, now with a wrapper -/
theorem get?_wrapAlong_self : ∀ (p : Path) (n m : Node), n.get? p = some m →
    (wrapAlong n p).get? p = some (wrapNode m) := by
  intro p
  induction p with
  | nil => intro n m h; simp [Node.get?] at h; subst h; simp [wrapAlong, Node.get?]
  | cons i p ih =>
    intro n m h
    rw [Node.get?] at h
    cases hk : n.kids[i]? with
    | none => simp [hk] at h
    | some k =>
      simp only [hk] at h
      rw [wrapAlong]
      simp only [wrapNode_kids, hk]
      rw [Node.get?]
      have hi : i < n.kids.length := by
        rcases List.getElem?_eq_some_iff.mp hk with ⟨hlt, _⟩; exact hlt
      simp [List.getElem?_set_self hi, ih k m h]

/-- `__constructPath` does not look at hooks -/
theorem constructPathAux_wrapAlong : ∀ (q p : Path) (n : Node) (acc : Bytes),
    constructPathAux (wrapAlong n p) q acc = constructPathAux n q acc := by
  intro q
  induction q with
  | nil => intro p n acc; simp [constructPathAux]
  | cons j q ih =>
    intro p n acc
    cases p with
    | nil =>
      simp only [wrapAlong]
      rw [constructPathAux, constructPathAux, wrapNode_kids]
    | cons i p =>
      rw [wrapAlong]
      simp only [wrapNode_kids]
      cases hk : n.kids[i]? with
      | none =>
        simp only []
        rw [constructPathAux, constructPathAux, wrapNode_kids]
      | some k =>
        simp only []
        rw [constructPathAux, constructPathAux]
        simp only []
        by_cases hji : j = i
        · subst hji
          have hi : j < n.kids.length := by
            rcases List.getElem?_eq_some_iff.mp hk with ⟨hlt, _⟩; exact hlt
          simp only [List.getElem?_set_self hi, hk]
          have hc : component (wrapAlong k p) j = component k j := by
            unfold component; rw [wrapAlong_name]
          rw [hc, ih]
        · have : (n.kids.set i (wrapAlong k p))[j]? = n.kids[j]? := by
            rw [List.getElem?_set_ne]; exact fun h => hji h.symm
          rw [this]

theorem constructPath_wrapAlong (root : Node) (p q : Path) :
    constructPath (wrapAlong root p) q = constructPath root q :=
  constructPathAux_wrapAlong q p root []

theorem excPath_wrapAlong (root : Node) (p q : Path) (w : Where) :
    excPath (wrapAlong root p) q w = excPath root q w := by
  cases w <;> simp [excPath, constructPath_wrapAlong]

/-! ### lemmas used by the statements of Properties/C17.lean -/

theorem elemOf_zero (n : Node) (h : n.length > 0) : elemOf n 0 = .ok 0 := by
  unfold Node.length at h
  cases ha : n.isAggregate with
  | false => simp [ha] at h
  | true =>
    simp only [ha, if_true] at h
    unfold elemOf getElem toUnsigned
    simp only [ha]
    cases hk : n.kids with
    | nil => simp [hk] at h
    | cons k ks => simp

/-- the auto-convert escape of `assertType` never applies to groups -/
theorem assertGroup (auto : Bool) (n : Node) : assertType auto n T_GROUP = (n.ty == T_GROUP) := by
  unfold assertType isNumberTy
  simp only [T_GROUP, T_INT, T_INT64, T_FLOAT]
  have hc : ((1 : Nat) == n.ty) = (n.ty == 1) := by
    by_cases h : n.ty = 1
    · simp [h]
    · have h' : ¬ (1 = n.ty) := fun e => h e.symm
      simp [beq_eq_false_iff_ne.mpr h, beq_eq_false_iff_ne.mpr h']
  rw [hc]; simp

theorem read_ok_result (w : World) (c : Config) (src : Source) (fuel : Nat) :
    (read w c src fuel).ok = ((read w c src fuel).result == .accept) := by
  cases src with
  | string b => rfl
  | stream b => rfl
  | file path =>
    simp only [read]
    cases w.open? path <;> rfl

theorem toTypeCode_le (t : Nat) : toTypeCode t ≤ 8 := by
  unfold toTypeCode; repeat' split
  all_goals decide

theorem add_list (dtor ov : Bool) (n : Node) (tc : Nat) (hl : n.ty = T_LIST) (hle : tc ≤ 8) :
    (n.add dtor ov none (tc : Int)).isSome = true := by
  have h1 : ¬ ((tc : Int) < 0) := by omega
  have h2 : ¬ ((tc : Int) > 8) := by omega
  simp [Node.add, hl, Node.create, Node.isAggregate, isAggregateTy, h1, h2, T_LIST, T_ARRAY, T_GROUP]

theorem add_array (dtor ov : Bool) (n : Node) (tc : Nat) (ha : n.ty = T_ARRAY) (hs : isScalarTy (tc : Int) = true)
    (hk : ∀ k0 ks, n.kids = k0 :: ks → k0.ty = tc) :
    (n.add dtor ov none (tc : Int)).isSome = true := by
  have hs' := hs
  simp only [isScalarTy, Bool.and_eq_true, decide_eq_true_eq] at hs'
  have h1 : ¬ ((tc : Int) < 0) := by omega
  have h2 : ¬ ((tc : Int) > 8) := by omega
  have hc : checkType n tc = true := by
    unfold checkType
    cases hkids : n.kids with
    | nil => rfl
    | cons k0 ks => simp [ha, hk k0 ks hkids, T_ARRAY, T_LIST]
  simp [Node.add, ha, Node.create, Node.isAggregate, isAggregateTy, h1, h2, hs, hc, T_LIST, T_ARRAY, T_GROUP]

theorem cppType_big (ty : Nat) (h : 9 ≤ ty) : cppType ty = TypeNone := by
  unfold cppType
  have h1 : ty ≠ 1 := by omega
  have h2 : ty ≠ 2 := by omega
  have h3 : ty ≠ 3 := by omega
  have h4 : ty ≠ 4 := by omega
  have h5 : ty ≠ 5 := by omega
  have h6 : ty ≠ 6 := by omega
  have h7 : ty ≠ 7 := by omega
  have h8 : ty ≠ 8 := by omega
  simp [h1, h2, h3, h4, h5, h6, h7, h8]

theorem ty_split (ty : Nat) : ty = 0 ∨ ty = 1 ∨ ty = 2 ∨ ty = 3 ∨ ty = 4 ∨ ty = 5 ∨ ty = 6 ∨ ty = 7 ∨ ty = 8 ∨ 9 ≤ ty := by
  omega

theorem cpp_isGroup (ty : Nat) : (cppType ty == TypeGroup) = (ty == T_GROUP) := by
  rcases ty_split ty with h | h | h | h | h | h | h | h | h | h
  all_goals first | (subst h; decide) | skip
  rw [cppType_big _ h]
  have : ty ≠ 1 := by omega
  simp [this, T_GROUP, TypeNone, TypeGroup]

theorem cpp_isArray (ty : Nat) : (cppType ty == TypeArray) = (ty == T_ARRAY) := by
  rcases ty_split ty with h | h | h | h | h | h | h | h | h | h
  all_goals first | (subst h; decide) | skip
  rw [cppType_big _ h]
  have : ty ≠ 7 := by omega
  simp [this, T_ARRAY, TypeNone, TypeArray]

theorem cpp_isList (ty : Nat) : (cppType ty == TypeList) = (ty == T_LIST) := by
  rcases ty_split ty with h | h | h | h | h | h | h | h | h | h
  all_goals first | (subst h; decide) | skip
  rw [cppType_big _ h]
  have : ty ≠ 8 := by omega
  simp [this, T_LIST, TypeNone, TypeList]

theorem cpp_isString (ty : Nat) : (cppType ty == TypeString) = (ty == T_STRING) := by
  rcases ty_split ty with h | h | h | h | h | h | h | h | h | h
  all_goals first | (subst h; decide) | skip
  rw [cppType_big _ h]
  have : ty ≠ 5 := by omega
  simp [this, T_STRING, TypeNone, TypeString]

theorem cpp_isScalar (ty : Nat) :
    (decide (cppType ty > TypeNone) && decide (cppType ty < TypeGroup)) = isScalarTy (ty : Int) := by
  rcases ty_split ty with h | h | h | h | h | h | h | h | h | h
  all_goals first | (subst h; decide) | skip
  rw [cppType_big _ h]
  have : ¬ ((ty : Int) ≤ 6) := by omega
  simp [isScalarTy, this, TypeNone]

theorem cpp_isNumber (ty : Nat) :
    (cppType ty == TypeInt || cppType ty == TypeInt64 || cppType ty == TypeFloat) = isNumberTy ty := by
  rcases ty_split ty with h | h | h | h | h | h | h | h | h | h
  all_goals first | (subst h; decide) | skip
  rw [cppType_big _ h]
  have h2 : ty ≠ 2 := by omega
  have h3 : ty ≠ 3 := by omega
  have h4 : ty ≠ 4 := by omega
  simp [isNumberTy, h2, h3, h4, T_INT, T_INT64, T_FLOAT, TypeNone, TypeInt, TypeInt64, TypeFloat]

end Libconfig.C17P
