import LibconfigModel.Proofs.C03Term
/-
  C03T, the fuel of the parser loop: when the scanner delivers finitely many tokens and then
  the end of input, the potential

      (R + 1) · (tokens still to be consumed, end marker included) + rank(top state) + 1

  strictly decreases with every iteration (a shift trades `R + 1` for at most `R` of rank, a
  reduction lowers the rank), so that much fuel suffices and more fuel changes nothing.
-/
namespace Libconfig.C03T
open Libconfig C03P

/-- an upper bound `n` on the tokens still to be consumed (the end marker counts as one),
given the lookahead: without lookahead the scanner still delivers fewer than `n` tokens before
the end of input; a lookahead of kind 0 is the last thing consumed (the scanner is not called
again: see `shift_edge`); any other lookahead counts as one more -/
def Rem (E : ParserEnv) (la : Lookahead) (s : ScanState) (n : Nat) : Prop :=
  match la with
  | none => ∃ toks s', C02P.Lexes E s toks s' ∧ toks.length + 1 ≤ n
  | some (t, _) =>
    (translateTok E.P t = 0 ∧ 1 ≤ n) ∨ ∃ toks s', C02P.Lexes E s toks s' ∧ toks.length + 2 ≤ n

theorem translateTok_zero (P : LalrTables) : translateTok P 0 = 0 := by
  unfold translateTok
  rfl

/-- fetching the lookahead does not change the count -/
theorem fetched_rem {E : ParserEnv} {la : Lookahead} {s s1 : ScanState} {t : Nat} {v : TokVal}
    {n : Nat} (hf : Fetched E la s t v s1) (hr : Rem E la s n) : Rem E (some (t, v)) s1 n := by
  cases hf
  case «have» hla =>
    subst hla
    exact hr
  case tok hla hy =>
    subst hla
    obtain ⟨toks, s', hl, hn⟩ := hr
    cases hl with
    | eof _ _ hy' => rw [hy] at hy'; cases hy'
    | tok _ s₁ _ t' v' rest hy' hrest =>
      rw [hy] at hy'
      cases hy'
      exact .inr ⟨rest, s', hrest, by simp only [List.length_cons] at hn; omega⟩
    | incl _ s₁ _ t' text file line rest hy' hrest => rw [hy] at hy'; cases hy'
  case eof hla hy =>
    subst hla
    obtain ⟨toks, s', hl, hn⟩ := hr
    exact .inl ⟨translateTok_zero _, by omega⟩
  case incl hla hy =>
    subst hla
    obtain ⟨toks, s', hl, hn⟩ := hr
    cases hl with
    | eof _ _ hy' => rw [hy] at hy'; cases hy'
    | tok _ s₁ _ t' v' rest hy' hrest => rw [hy] at hy'; cases hy'
    | incl _ s₁ _ t' text' file' line' rest hy' hrest =>
      rw [hy] at hy'
      cases hy'
      exact .inr ⟨rest, s', hrest, by simp only [List.length_cons] at hn; omega⟩

/-- the invariant of the fuel argument: the stack is a certificate path, and either the final
state is on top (the next iteration accepts) or `n` bounds what is still to be consumed -/
def Good (E : ParserEnv) (ed : List (Nat × Nat)) (X : PState) (n : Nat) : Prop :=
  StackPath ed X.stack ∧ (topState X.stack = E.P.final ∨ Rem E X.la X.s n)

/-- the potential -/
def pot (rk : List Nat) (R : Nat) (X : PState) (n : Nat) : Nat :=
  (R + 1) * n + rkOf rk (topState X.stack) + 1

/-- every iteration that continues lowers the potential -/
theorem step_good {E : ParserEnv} {ed : List (Nat × Nat)} {rk : List Nat} {R : Nat}
    (F : C02P.Facts E.P ed) (RF : RankFacts E.P ed rk R) {X Y : PState} {n : Nat}
    (hg : Good E ed X n) (h : yystep E X = .inr Y) :
    ∃ n', Good E ed Y n' ∧ pot rk R Y n' < pot rk R X n := by
  obtain ⟨_, _, hnf, hcase⟩ := yystep_inr E X Y h
  have hrem : Rem E X.la X.s n := hg.2.resolve_left hnf
  have hpY := step_path F hg.1 h
  rcases hcase with ⟨t, v, a, hf, hact, hpos, hst, hla⟩ | ⟨rule, hrule, ⟨yyval, hst⟩, hla⟩
  · have hr := fetched_rem hf hrem
    obtain ⟨hedge, hfin⟩ := shift_edge F (hg.1.top_lt F) hnf hact hpos
    have hrq := RF.le _ (F.ed_ok _ _ hedge).2.2
    have htopY : topState Y.stack = a.toNat := by rw [hst]; rfl
    rcases hr with ⟨h0, h1⟩ | ⟨toks, s', hl, hn⟩
    · refine ⟨0, ⟨hpY, .inl (by rw [htopY]; exact hfin h0)⟩, ?_⟩
      unfold pot
      rw [htopY]
      have : (R + 1) * 1 ≤ (R + 1) * n := Nat.mul_le_mul_left _ h1
      omega
    · obtain ⟨m, rfl⟩ : ∃ m, n = m + 1 := ⟨n - 1, by omega⟩
      refine ⟨m, ⟨hpY, .inr ?_⟩, ?_⟩
      · rw [hla]
        exact ⟨toks, s', hl, by omega⟩
      · unfold pot
        rw [htopY, Nat.mul_succ]
        omega
  · have hrk := reduce_rank F RF hg.1 hnf hrule
    refine ⟨n, ⟨hpY, .inr ?_⟩, ?_⟩
    · rcases hla with ⟨h1, h2⟩ | ⟨t, v, hf, h1⟩
      · rw [h1, h2]; exact hrem
      · rw [h1]; exact fetched_rem hf hrem
    · unfold pot
      rw [hst]
      show _ + rkOf rk (gotoTarget E.P rule _) + 1 < _
      omega

/-- **Fuel that suffices**: from a good state, the potential bounds the number of iterations
left, so with that much fuel the loop does not end with `.outOfFuel` -/
theorem loop_fuel {E : ParserEnv} {ed : List (Nat × Nat)} {rk : List Nat} {R : Nat}
    (F : C02P.Facts E.P ed) (RF : RankFacts E.P ed rk R) :
    ∀ (fuel : Nat) (X : PState) (n : Nat), Good E ed X n → pot rk R X n ≤ fuel →
      (yyparseLoop E fuel X.stack X.la X.s X.ctx).2.2 ≠ .outOfFuel := by
  intro fuel
  induction fuel with
  | zero =>
    intro X n _ hp
    unfold pot at hp
    omega
  | succ fuel ih =>
    intro X n hg hp
    rw [yyparseLoop_succ]
    generalize hs : yystep E X = o
    cases o with
    | inl r =>
      obtain ⟨s1, c1, res⟩ := r
      show res ≠ .outOfFuel
      intro hres
      subst hres
      obtain ⟨hla, hy⟩ := (yystep_lex E X s1 c1 .outOfFuel hs).1 rfl
      rcases hg.2 with hfin | hrem
      · rcases yystep_final E X hg.1.ne_nil hfin with h1 | h1 <;> rw [hs] at h1 <;> cases h1
      · rw [hla] at hrem
        obtain ⟨toks, s', hl, _⟩ := hrem
        cases hl with
        | eof _ _ hy' => rw [hy] at hy'; cases hy'
        | tok _ _ _ _ _ _ hy' _ => rw [hy] at hy'; cases hy'
        | incl _ _ _ _ _ _ _ _ hy' _ => rw [hy] at hy'; cases hy'
    | inr Y =>
      obtain ⟨n', hg', hpot⟩ := step_good F RF hg hs
      exact ih Y n' hg' (by omega)

/-- … and with any two amounts of fuel above the potential the loop returns the same thing:
the model's fuel is not observable -/
theorem loop_stable {E : ParserEnv} {ed : List (Nat × Nat)} {rk : List Nat} {R : Nat}
    (F : C02P.Facts E.P ed) (RF : RankFacts E.P ed rk R) :
    ∀ (fuel fuel' : Nat) (X : PState) (n : Nat), Good E ed X n → pot rk R X n ≤ fuel →
      pot rk R X n ≤ fuel' →
      yyparseLoop E fuel X.stack X.la X.s X.ctx = yyparseLoop E fuel' X.stack X.la X.s X.ctx := by
  intro fuel
  induction fuel with
  | zero =>
    intro fuel' X n _ hp
    unfold pot at hp
    omega
  | succ fuel ih =>
    intro fuel' X n hg hp hp'
    cases fuel' with
    | zero => unfold pot at hp'; omega
    | succ fuel' =>
      rw [yyparseLoop_succ, yyparseLoop_succ]
      generalize hs : yystep E X = o
      cases o with
      | inl r => rfl
      | inr Y =>
        obtain ⟨n', hg', hpot⟩ := step_good F RF hg hs
        exact ih fuel' Y n' hg' (by omega) (by omega)

/-- the initial configuration of `yyparse` is good when the scanner delivers `toks` and then
the end of input -/
theorem initial_good {E : ParserEnv} (ed : List (Nat × Nat)) {s₀ s' : ScanState}
    {toks : List (Nat × TokVal)} (ctx₀ : ParseCtx) (hl : C02P.Lexes E s₀ toks s') :
    Good E ed (initial s₀ ctx₀) (toks.length + 1) :=
  ⟨.base _, .inr ⟨toks, s', hl, Nat.le_refl _⟩⟩

/-- `yyparse` with fuel `(R+1)·(n+1) + rank(0) + 1` for `n` tokens -/
theorem yyparse_fuel {E : ParserEnv} {ed : List (Nat × Nat)} {rk : List Nat} {R : Nat}
    (hok : C02P.staticOK E.P ed = true) (hrk : rankOK E.P ed rk R = true)
    (fuel : Nat) (s₀ s' : ScanState) (ctx₀ : ParseCtx) (toks : List (Nat × TokVal))
    (hl : C02P.Lexes E s₀ toks s') (hf : (R + 1) * (toks.length + 1) + rkOf rk 0 + 1 ≤ fuel) :
    (yyparse E fuel s₀ ctx₀).2.2 ≠ .outOfFuel :=
  loop_fuel (C02P.facts_of_static hok) (rankFacts_of hrk) fuel (initial s₀ ctx₀) _
    (initial_good ed ctx₀ hl) hf

theorem yyparse_stable {E : ParserEnv} {ed : List (Nat × Nat)} {rk : List Nat} {R : Nat}
    (hok : C02P.staticOK E.P ed = true) (hrk : rankOK E.P ed rk R = true)
    (fuel fuel' : Nat) (s₀ s' : ScanState) (ctx₀ : ParseCtx) (toks : List (Nat × TokVal))
    (hl : C02P.Lexes E s₀ toks s') (hf : (R + 1) * (toks.length + 1) + rkOf rk 0 + 1 ≤ fuel)
    (hf' : (R + 1) * (toks.length + 1) + rkOf rk 0 + 1 ≤ fuel') :
    yyparse E fuel s₀ ctx₀ = yyparse E fuel' s₀ ctx₀ :=
  loop_stable (C02P.facts_of_static hok) (rankFacts_of hrk) fuel fuel' (initial s₀ ctx₀) _
    (initial_good ed ctx₀ hl) hf hf'

end Libconfig.C03T
