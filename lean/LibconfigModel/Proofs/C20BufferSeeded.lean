import LibconfigModel.Proofs.C20BufferRun
/-
  C20B helpers, part 5: the seeded change `while ( num_to_read < 0 )`, for arbitrary
  constants.  In scanner.c the buffer grows exactly in the states in which the token in
  progress fills it (`yytext_ptr` at the start of the buffer, `yy_n_chars + 1 = yy_buf_size`;
  `Progress.grow`).  With the seeded test, the end-of-buffer action in such a state calls
  `YY_INPUT` for 0 bytes.
-/
namespace Libconfig.C20BP

open Libconfig Libconfig.FlexBuffer

theorem mem_log_statusStage (ntm : Nat) (s : State) (a : Access) (h : a ∈ s.log) :
    a ∈ (statusStage ntm s).log := by
  unfold statusStage
  split
  · split
    · simp [restart, flush, loadBufferState, h]
    · exact h
  · exact h

theorem mem_log_extendStage (P : Params) (ntm : Nat) (s : State) (a : Access) (h : a ∈ s.log) :
    a ∈ (extendStage P ntm s).log := by
  unfold extendStage
  split
  · simp [h]
  · exact h

theorem mem_log_sentinelStage (ntm : Nat) (s : State) (a : Access) (h : a ∈ s.log) :
    a ∈ (sentinelStage ntm s).log := by
  simp [sentinelStage, h]

theorem mem_log_eobExit (amount : Nat) (r : State × Ret) (a : Access) (h : a ∈ r.1.log) :
    a ∈ (eobExit amount r).1.log := by
  rw [(eobExit_fields amount r).2.2.2.2.2.2.2.2]; exact h

/-- with the seeded test the growth loop does nothing as long as `number_to_move + 1 ≤
yy_buf_size` — also when there is no room for a single byte -/
theorem growLoop_seeded (P : Params) (hT : P.test = growTestSeeded) (fuel ntm : Nat) (s : State)
    (h : ntm + 1 ≤ s.bufSize) : growLoop P fuel ntm s = s := by
  cases fuel with
  | zero => rfl
  | succ f =>
    rw [growLoop, if_neg]
    rw [hT, growTestSeeded_true]
    unfold numToRead
    omega

/-- The seeded scanner, in a state in which the token in progress fills the buffer: the
end-of-buffer action asks `YY_INPUT` for 0 bytes at offset `yy_n_chars`. -/
theorem seeded_zero_read (P : Params) (hT : P.test = growTestSeeded) (k : Nat) (s : State)
    (h1 : s.textPtr = 0) (h2 : s.nChars + 1 = s.bufSize) (h3 : s.status ≠ .eofPending) :
    ∃ alloc, Access.input alloc s.nChars 0 ∈ (eobStep P k s).1.log := by
  -- the state in which `yy_get_next_buffer` is called
  have e1 : (eobEnter s).cBufP = s.nChars + 1 := by
    unfold eobEnter; simp only [doBeforeAction, restoreHold]; cases s.status <;> rfl
  have e2 : (eobEnter s).textPtr = 0 := by
    unfold eobEnter; simp only [doBeforeAction, restoreHold]; cases s.status <;> exact h1
  have e3 : (eobEnter s).nChars = s.nChars := by
    unfold eobEnter; simp only [doBeforeAction, restoreHold]; cases s.status <;> rfl
  have e4 : (eobEnter s).bufSize = s.bufSize := by
    unfold eobEnter; simp only [doBeforeAction, restoreHold]; cases s.status <;> rfl
  have e5 : (eobEnter s).status ≠ .eofPending := by
    unfold eobEnter; simp only [doBeforeAction, restoreHold]
    cases hs : s.status
    · simp
    · simp
    · exact absurd hs h3
  have hnf : ¬ (eobEnter s).cBufP > (eobEnter s).nChars + 1 := by rw [e1, e3]; omega
  have hntm : (eobEnter s).cBufP - (eobEnter s).textPtr - 1 = s.nChars := by rw [e1, e2]; omega
  have hstep : eobStep P k s =
      eobExit ((eobEnter s).cBufP - (eobEnter s).textPtr - 1) (getNextBuffer P k (eobEnter s)) := rfl
  rw [hstep, getNextBuffer_eq P k (eobEnter s) s.nChars hnf hntm]
  generalize eobEnter s = e at e1 e2 e3 e4 e5
  -- the read stage logs the offending call …
  have hread : Access.input (moveStage s.nChars e).ch.length s.nChars 0 ∈
      (readStage P k s.nChars (moveStage s.nChars e)).log := by
    have hg : growLoop P (s.nChars + 2) s.nChars (moveStage s.nChars e) = moveStage s.nChars e :=
      growLoop_seeded P hT _ _ _ (by show s.nChars + 1 ≤ e.bufSize; omega)
    have hn0 : numToRead (moveStage s.nChars e).bufSize s.nChars = 0 := by
      show numToRead e.bufSize s.nChars = 0
      unfold numToRead; omega
    have hst : (moveStage s.nChars e).status = e.status := rfl
    unfold readStage
    cases hs : e.status with
    | eofPending => exact absurd hs e5
    | new =>
      rw [hst, hs]
      simp only [hg, hn0]
      have : ¬ (0 : Int) > (P.R : Int) := by omega
      simp [this]
    | normal =>
      rw [hst, hs]
      simp only [hg, hn0]
      have : ¬ (0 : Int) > (P.R : Int) := by omega
      simp [this]
  -- … and the later stages only add to the log
  exact ⟨_, mem_log_eobExit _ _ _ (mem_log_sentinelStage _ _ _ (mem_log_extendStage P _ _ _
    (mem_log_statusStage _ _ _ hread)))⟩


/-! ### such a state is reachable, whatever the constants -/

/-- the same constants with the test of scanner.c -/
def unseeded (P : Params) : Params := { P with test := growTestC }

theorem unseeded_ok (P : Params) (hB : 0 < P.B) (hR : 0 < P.R) : (unseeded P).OK := ⟨hB, hR, rfl⟩

theorem eobEnter_cBufP (s : State) : (eobEnter s).cBufP = s.nChars + 1 := by
  unfold eobEnter; simp only [doBeforeAction, restoreHold]; cases s.status <;> rfl

theorem eobEnter_textPtr (s : State) : (eobEnter s).textPtr = s.textPtr := by
  unfold eobEnter; simp only [doBeforeAction, restoreHold]; cases s.status <;> rfl

theorem eobEnter_nChars (s : State) : (eobEnter s).nChars = s.nChars := by
  unfold eobEnter; simp only [doBeforeAction, restoreHold]; cases s.status <;> rfl

theorem eobEnter_bufSize (s : State) : (eobEnter s).bufSize = s.bufSize := by
  unfold eobEnter; simp only [doBeforeAction, restoreHold]; cases s.status <;> rfl

/-- As long as there is room for at least one byte behind the text to keep, the two tests
agree: the seeded scanner does what scanner.c does. -/
theorem eobStep_unseeded (P : Params) (hT : P.test = growTestSeeded) (k : Nat) (s : State)
    (htp : s.textPtr ≤ s.nChars) (hroom : s.nChars - s.textPtr + 1 < s.bufSize) :
    eobStep P k s = eobStep (unseeded P) k s := by
  have hnf : ¬ (eobEnter s).cBufP > (eobEnter s).nChars + 1 := by
    rw [eobEnter_cBufP, eobEnter_nChars]; omega
  have hntm : (eobEnter s).cBufP - (eobEnter s).textPtr - 1 = s.nChars - s.textPtr := by
    rw [eobEnter_cBufP, eobEnter_textPtr]; omega
  have h1 : eobStep P k s =
      eobExit ((eobEnter s).cBufP - (eobEnter s).textPtr - 1) (getNextBuffer P k (eobEnter s)) := rfl
  have h2 : eobStep (unseeded P) k s =
      eobExit ((eobEnter s).cBufP - (eobEnter s).textPtr - 1)
        (getNextBuffer (unseeded P) k (eobEnter s)) := rfl
  rw [h1, h2, getNextBuffer_eq P k _ _ hnf hntm, getNextBuffer_eq (unseeded P) k _ _ hnf hntm]
  have hb := eobEnter_bufSize s
  generalize eobEnter s = e at hb
  generalize s.nChars - s.textPtr = ntm at hroom
  have hread : readStage P k ntm (moveStage ntm e) = readStage (unseeded P) k ntm (moveStage ntm e) := by
    have hmb : (moveStage ntm e).bufSize = e.bufSize := rfl
    have g1 : growLoop P (ntm + 2) ntm (moveStage ntm e) = moveStage ntm e :=
      growLoop_seeded P hT _ _ _ (by rw [hmb, hb]; omega)
    have g2 : growLoop (unseeded P) (ntm + 2) ntm (moveStage ntm e) = moveStage ntm e := by
      rw [growLoop_eq (unseeded P) rfl ntm _ (by rw [hmb, hb]; omega), if_neg (by rw [hmb, hb]; omega)]
    unfold readStage
    rw [g1, g2]
    rfl
  rw [hread]
  rfl

/-- what the search for a full buffer maintains -/
structure Filling (P : Params) (s : State) : Prop where
  inv : Inv (unseeded P) s
  text : s.textPtr = 0
  status : s.status ≠ .eofPending
  size : s.bufSize = P.B
  /-- the stream can still fill the buffer -/
  supply : s.bufSize ≤ s.nChars + s.rest.length

/-- one more read while the buffer is not full -/
theorem filling_step (P : Params) (hB : 0 < P.B) (hR : 0 < P.R) (hT : P.test = growTestSeeded)
    (s : State) (h : Filling P s) (hlt : s.nChars + 1 < s.bufSize) :
    Filling P (eobStep P 1 s).1 ∧ s.nChars < (eobStep P 1 s).1.nChars := by
  have hinv := h.inv
  have htp : s.textPtr ≤ s.nChars := by rw [h.text]; exact Nat.zero_le _
  rw [eobStep_unseeded P hT 1 s htp (by rw [h.text]; omega)]
  have hP' := unseeded_ok P hB hR
  obtain ⟨data, H⟩ := eobStep_progress (unseeded P) hP' 1 s hinv
  obtain ⟨E, G, _⟩ := eobStep_spec (unseeded P) hP' 1 s hinv
  have hinv' := eobStep_inv (unseeded P) hP' 1 s hinv
  have hw := length_window (unseeded P) s hinv
  have hw' := length_window (unseeded P) _ hinv'
  generalize eobStep (unseeded P) 1 s = r at H G hinv' hw'
  have hrest : s.rest ≠ [] := by
    intro hc
    have := h.supply
    rw [hc] at this
    simp only [List.length_nil] at this
    omega
  have hret := H.live h.status (Nat.le_refl _) hrest
  have hd : data ≠ [] := by
    rcases H.result with ⟨_, hd⟩ | ⟨hr, _⟩ | ⟨hr, _⟩
    · exact hd
    · rw [hret] at hr; exact absurd hr (by decide)
    · rw [hret] at hr; exact absurd hr (by decide)
  have hdl : 0 < data.length := List.length_pos_iff.mpr hd
  have hwl := congrArg List.length H.window
  rw [List.length_append, hw, hw', G.textPtr, h.text] at hwl
  have hsl := congrArg List.length H.stream
  rw [List.length_append] at hsl
  have hsize : r.1.bufSize = s.bufSize := by
    rcases H.grow with hg | ⟨_, _, hg, _⟩
    · exact hg
    · rw [hw, h.text] at hg; omega
  refine ⟨{
    inv := hinv'
    text := G.textPtr
    status := by
      rw [G.status, if_neg (by rw [h.text]; omega), E.status, Ne, enteredStatus_eof]
      exact h.status
    size := by rw [hsize]; exact h.size
    supply := by rw [hsize]; have := h.supply; omega }, by omega⟩

/-- from a filling state the buffer gets full after some more reads -/
theorem filling_full (P : Params) (hB : 0 < P.B) (hR : 0 < P.R) (hT : P.test = growTestSeeded) :
    ∀ (d : Nat) (s : State), Filling P s → s.bufSize - 1 - s.nChars ≤ d →
      ∃ n, Filling P (run P (List.replicate n (.eob 1)) s) ∧
        (run P (List.replicate n (.eob 1)) s).nChars + 1 =
          (run P (List.replicate n (.eob 1)) s).bufSize := by
  intro d
  induction d with
  | zero =>
    intro s h hd
    have := h.inv.room
    exact ⟨0, h, by show s.nChars + 1 = s.bufSize; omega⟩
  | succ d ih =>
    intro s h hd
    by_cases hfull : s.nChars + 1 = s.bufSize
    · exact ⟨0, h, hfull⟩
    · have := h.inv.room
      obtain ⟨h', hlt⟩ := filling_step P hB hR hT s h (by omega)
      have hsz : (eobStep P 1 s).1.bufSize = s.bufSize := by rw [h'.size, h.size]
      obtain ⟨n, hn⟩ := ih _ h' (by rw [hsz]; omega)
      exact ⟨n + 1, hn⟩

theorem create_filling (P : Params) (hB : 0 < P.B) :
    Filling P (create P (List.replicate P.B 97)) where
  inv := create_inv (unseeded P) hB _
  text := rfl
  status := by simp [create, flush, loadBufferState]
  size := rfl
  supply := by
    show P.B ≤ 0 + (List.replicate P.B 97).length
    simp

/-- For all constants `YY_BUF_SIZE > 0`, `YY_READ_BUF_SIZE > 0`, the scanner with the seeded
test `num_to_read < 0` reaches a call of `YY_INPUT` for 0 bytes: on a stream of `YY_BUF_SIZE`
bytes in which the matcher finds no token end, after enough refills. -/
theorem seeded_breaks (P : Params) (hB : 0 < P.B) (hR : 0 < P.R) (hT : P.test = growTestSeeded) :
    ∃ n, ¬ ∀ a ∈ (run P (List.replicate (n + 1) (.eob 1)) (create P (List.replicate P.B 97))).log,
      a.ok := by
  obtain ⟨n, hf, hfull⟩ := filling_full P hB hR hT P.B _ (create_filling P hB)
    (by show P.B - 1 - 0 ≤ P.B; omega)
  refine ⟨n, ?_⟩
  have hrun : run P (List.replicate (n + 1) (.eob 1)) (create P (List.replicate P.B 97)) =
      (eobStep P 1 (run P (List.replicate n (.eob 1)) (create P (List.replicate P.B 97)))).1 := by
    rw [List.replicate_succ', run_snoc]
  rw [hrun]
  obtain ⟨alloc, hmem⟩ := seeded_zero_read P hT 1 _ hf.text hfull hf.status
  intro hall
  have := hall _ hmem
  simp only [Access.ok] at this
  omega

end Libconfig.C20BP
