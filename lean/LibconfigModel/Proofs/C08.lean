import LibconfigModel.Scanner
/-
  Helper lemmas for property C08 (numeric literals are stored exactly or rejected).
-/
namespace Libconfig.C08P

open Libconfig

/-! ### character classes -/

theorem isDigit_bounds {c : Nat} (h : isDigit c = true) : 48 ≤ c ∧ c ≤ 57 := by
  simpa [isDigit] using h

theorem isOctDigit_of_zero : isOctDigit 48 = true := by decide

theorem not_hex_76 : isHexDigit 76 = false := by decide
theorem not_digit_76 : isDigit 76 = false := by decide
theorem not_oct_76 : isOctDigit 76 = false := by decide

/-! ### `takeWhile` / `drop` on `ds ++ suffix` -/

theorem takeWhile_append_stop (p : Nat → Bool) (ds suf : List Nat)
    (hd : ∀ c ∈ ds, p c = true) (hs : suf.head?.all (fun c => !p c) = true) :
    (ds ++ suf).takeWhile p = ds := by
  rw [List.takeWhile_append_of_pos hd]
  cases suf with
  | nil => simp
  | cons c r =>
    have : p c = false := by simpa using hs
    simp [this]

theorem drop_length_append (ds suf : List Nat) : (ds ++ suf).drop ds.length = suf := by
  simp

/-- `takeWhile p` of a list that contains a failing element stops strictly inside it. -/
theorem takeWhile_split (p : Nat → Bool) (ds : List Nat) (h : ds.all p = false) :
    ∃ c q, ds = ds.takeWhile p ++ c :: q ∧ p c = false := by
  induction ds with
  | nil => simp at h
  | cons a t ih =>
    by_cases ha : p a = true
    · have ht : t.all p = false := by
        simpa [List.all_cons, ha] using h
      obtain ⟨c, q, hq, hc⟩ := ih ht
      refine ⟨c, q, ?_, hc⟩
      rw [List.takeWhile_cons_of_pos ha, List.cons_append, ← hq]
    · have ha' : p a = false := by simpa using ha
      exact ⟨a, t, by rw [List.takeWhile_cons_of_neg ha]; rfl, ha'⟩

theorem takeWhile_append_inner (p : Nat → Bool) (pre q suf : List Nat) (c : Nat)
    (hpre : ∀ x ∈ pre, p x = true) (hc : p c = false) :
    (pre ++ c :: q ++ suf).takeWhile p = pre := by
  rw [List.append_assoc, List.takeWhile_append_of_pos hpre]
  simp [hc]

/-! ### `parseInteger` -/

def sval (neg : Bool) (a : Nat) : Int := if neg then -(a : Int) else (a : Int)

theorem stripLL_suf (suf : Bytes) (h : suf = [] ∨ suf = [76] ∨ suf = [76, 76]) : stripLL suf = [] := by
  rcases h with h | h | h <;> subst h <;> rfl

theorem stripLL_digit (c : Nat) (r : Bytes) (h : isDigit c = true) : stripLL (c :: r) = c :: r := by
  have := isDigit_bounds h
  unfold stripLL
  split
  · next heq => injection heq with h1; omega
  · next heq => injection heq with h1; omega
  · rfl

theorem suf_head (p : Nat → Bool) (h76 : p 76 = false) (suf : Bytes)
    (h : suf = [] ∨ suf = [76] ∨ suf = [76, 76]) : suf.head?.all (fun c => !p c) = true := by
  rcases h with h | h | h <;> subst h <;> simp [h76]

def isOctHead (r : Bytes) : Bool := match r with | 48 :: _ => true | _ => false

/-- body of `parseInteger` after the sign has been split off and the base chosen -/
def pIntBody (neg : Bool) (r : Bytes) (oct : Bool) : Option Int :=
  let ds := if oct then r.takeWhile isOctDigit else r.takeWhile isDigit
  if ds.isEmpty then none else
  let rest := stripLL (r.drop ds.length)
  if !rest.isEmpty then none else
  let v := sval neg (digitsVal (if oct then 8 else 10) ds)
  if fits64 v then some v else none

theorem parseInteger_unfold (s : Bytes) (neg : Bool) (r : Bytes) (hs : splitSign s = (neg, r)) :
    parseInteger s = pIntBody neg r (isOctHead r) := by
  unfold parseInteger
  rw [hs]
  rfl

theorem isOctHead_zero (t : Bytes) : isOctHead (48 :: t) = true := rfl

theorem isOctHead_ne (c : Nat) (t : Bytes) (hc : c ≠ 48) : isOctHead (c :: t) = false := by
  unfold isOctHead
  split
  · next heq => injection heq with h1; exact absurd h1 hc
  · rfl

theorem parseInteger_core (s : Bytes) (neg : Bool) (ds suf : Bytes) (hne : ds ≠ [])
    (hd : ∀ c ∈ ds, isDigit c = true) (hsuf : suf = [] ∨ suf = [76] ∨ suf = [76, 76])
    (hs : splitSign s = (neg, ds ++ suf)) :
    parseInteger s =
      if ds.head? = some 48 then
        (if ds.all isOctDigit then
          (if fits64 (sval neg (digitsVal 8 ds)) then some (sval neg (digitsVal 8 ds)) else none)
         else none)
      else (if fits64 (sval neg (digitsVal 10 ds)) then some (sval neg (digitsVal 10 ds)) else none) := by
  rw [parseInteger_unfold s neg _ hs]
  obtain ⟨c, t, rfl⟩ : ∃ c t, ds = c :: t := by
    cases ds with
    | nil => exact absurd rfl hne
    | cons c t => exact ⟨c, t, rfl⟩
  by_cases hc : c = 48
  · subst hc
    rw [List.cons_append, isOctHead_zero, ← List.cons_append]
    unfold pIntBody
    simp only [List.head?_cons, if_true]
    by_cases hall : (48 :: t).all isOctDigit = true
    · have htw : (48 :: t ++ suf).takeWhile isOctDigit = 48 :: t :=
        takeWhile_append_stop isOctDigit (48 :: t) suf (by simpa using hall)
          (suf_head _ not_oct_76 suf hsuf)
      rw [htw, drop_length_append, stripLL_suf suf hsuf]
      simp [hall]
    · have hall' : (48 :: t).all isOctDigit = false := by simpa using hall
      obtain ⟨c, q, hq, hcq⟩ := takeWhile_split isOctDigit (48 :: t) hall'
      have hpre : ∀ x ∈ (48 :: t).takeWhile isOctDigit, isOctDigit x = true :=
        fun x hx => (List.all_eq_true.mp List.all_takeWhile) x hx
      have htw : (48 :: t ++ suf).takeWhile isOctDigit = (48 :: t).takeWhile isOctDigit := by
        have := takeWhile_append_inner isOctDigit _ q suf c hpre hcq
        rwa [← hq] at this
      have hcd : isDigit c = true := hd c (by rw [hq]; simp)
      have hdrop : (48 :: t ++ suf).drop ((48 :: t).takeWhile isOctDigit).length = c :: (q ++ suf) := by
        have : (48 :: t ++ suf) = (48 :: t).takeWhile isOctDigit ++ c :: (q ++ suf) := by
          rw [← List.cons_append, ← List.append_assoc, ← hq]
        rw [this]; simp
      have hne' : ((48 :: t).takeWhile isOctDigit).isEmpty = false := by
        rw [List.takeWhile_cons_of_pos isOctDigit_of_zero]; rfl
      rw [htw, hdrop, stripLL_digit c _ hcd]
      simp [hall', hne']
  · rw [List.cons_append, isOctHead_ne c _ hc, ← List.cons_append]
    have htw : (c :: t ++ suf).takeWhile isDigit = c :: t :=
      takeWhile_append_stop isDigit (c :: t) suf hd (suf_head _ not_digit_76 suf hsuf)
    unfold pIntBody
    simp only [Bool.false_eq_true, if_false, htw]
    rw [drop_length_append, stripLL_suf suf hsuf]
    simp [hc]

theorem splitSign_digit (r : Bytes) (h : r.head?.all isDigit = true) (hne : r ≠ []) :
    splitSign r = (false, r) := by
  cases r with
  | nil => exact absurd rfl hne
  | cons c t =>
    have := isDigit_bounds (by simpa using h : isDigit c = true)
    unfold splitSign
    split
    · next heq => injection heq with h1; omega
    · next heq => injection heq with h1; omega
    · rfl

theorem splitSign_minus (r : Bytes) : splitSign (45 :: r) = (true, r) := rfl
theorem splitSign_plus (r : Bytes) : splitSign (43 :: r) = (false, r) := rfl

/-! ### `parseHex64` -/

theorem parseHex64_core (x : Nat) (ds suf : Bytes) (hd : ∀ c ∈ ds, isHexDigit c = true)
    (hsuf : suf = [] ∨ suf = [76] ∨ suf = [76, 76]) :
    parseHex64 ([48, x] ++ ds ++ suf) =
      if digitsVal 16 ds < 18446744073709551616 then some (digitsVal 16 ds) else none := by
  unfold parseHex64
  have h1 : ([48, x] ++ ds ++ suf).drop 2 = ds ++ suf := by simp
  rw [h1, takeWhile_append_stop isHexDigit ds suf hd (suf_head _ not_hex_76 suf hsuf)]

/-! ### two's-complement wrapping -/

theorem wrap32_pattern (v : Nat) (h : v < 4294967296) :
    wrap32 v % 4294967296 = v ∧ fits32 (wrap32 v) = true := by
  unfold wrap32 fits32 INT_MIN INT_MAX
  simp only []
  split <;> simp <;> omega

theorem wrap64_pattern (v : Nat) (h : v < 18446744073709551616) :
    wrap64 v % 18446744073709551616 = v ∧ fits64 (wrap64 v) = true := by
  unfold wrap64 fits64 LLONG_MIN LLONG_MAX
  simp only []
  split <;> simp <;> omega

/-! ### `F64.ofRat` never produces a NaN -/

open F64

def finish (neg : Bool) (m : Nat) (s : Int) : Nat :=
  let (m, s) := if m ≥ 2^53 then (m / 2, s - 1) else (m, s)
  let e : Int := -s
  if m < 2^52 then mkBits neg 0 m
  else
    let ef : Int := e + 1075
    if ef ≥ 2047 then mkBits neg 2047 0 else mkBits neg ef.toNat (m - 2^52)

theorem mkBits_fields (neg : Bool) (e f : Nat) (he : e < 2048) (hf : f < 4503599627370496) :
    expField (mkBits neg e f) = e ∧ fracField (mkBits neg e f) = f ∧ mkBits neg e f < 2 ^ 64 ∧
      signBit (mkBits neg e f) = neg := by
  unfold expField fracField mkBits signBit
  cases neg <;> simp <;> omega

theorem mkBits_ok (neg : Bool) (e f : Nat) (he : e < 2048) (hf : f < 4503599627370496)
    (h : e = 2047 → f = 0) :
    isNaN (mkBits neg e f) = false ∧ mkBits neg e f < 2 ^ 64 := by
  obtain ⟨h1, h2, h3, -⟩ := mkBits_fields neg e f he hf
  refine ⟨?_, h3⟩
  unfold isNaN
  rw [h1, h2]
  by_cases h47 : e = 2047
  · simp [h47, h h47]
  · simp [h47]

theorem finish_ok (neg : Bool) (m : Nat) (s : Int) (hm : m < 2 ^ 54) :
    isNaN (finish neg m s) = false ∧ finish neg m s < 2 ^ 64 := by
  unfold finish
  simp only [Nat.reducePow] at hm ⊢
  by_cases h53 : m ≥ 9007199254740992
  · simp only [h53, if_true]
    split
    · exact mkBits_ok _ _ _ (by omega) (by omega) (by omega)
    · split
      · exact mkBits_ok _ _ _ (by omega) (by omega) (by omega)
      · exact mkBits_ok _ _ _ (by omega) (by omega) (by omega)
  · simp only [h53, if_false]
    split
    · exact mkBits_ok _ _ _ (by omega) (by omega) (by omega)
    · split
      · exact mkBits_ok _ _ _ (by omega) (by omega) (by omega)
      · exact mkBits_ok _ _ _ (by omega) (by omega) (by omega)

theorem divRoundEven_le (n d : Nat) : divRoundEven n d ≤ n / d + 1 := by
  unfold divRoundEven
  simp only []
  split
  · omega
  · split
    · split <;> omega
    · omega

theorem divRoundEven_ge (n d : Nat) : n / d ≤ divRoundEven n d := by
  unfold divRoundEven
  simp only []
  split
  · omega
  · split
    · split <;> omega
    · omega

def scale (num den : Nat) (s : Int) : Nat × Nat :=
  if s ≥ 0 then (num * 2^s.toNat, den) else (num, den * 2^((-s).toNat))

def s0Of (num den : Nat) : Int := 53 - ((bitLen num : Int) - (bitLen den : Int))

def s1Of (num den : Nat) : Int :=
  let s0 := s0Of num den
  let q0 := (scale num den s0).1 / (scale num den s0).2
  if q0 ≥ 2^53 then s0 - 1 else if q0 < 2^52 then s0 + 1 else s0

def chooseS (num den : Nat) : Int :=
  if s1Of num den > 1074 then 1074 else s1Of num den

/-- `2^max(s,0)` and `2^max(-s,0)` -/
def up (s : Int) : Nat := 2 ^ s.toNat
def dn (s : Int) : Nat := 2 ^ (-s).toNat

theorem up_pos (s : Int) : 0 < up s := Nat.pow_pos (by decide)
theorem dn_pos (s : Int) : 0 < dn s := Nat.pow_pos (by decide)

theorem scale_eq (num den : Nat) (s : Int) : scale num den s = (num * up s, den * dn s) := by
  unfold scale up dn
  split
  · next h => rw [show (-s).toNat = 0 by omega]; simp
  · next h => rw [show s.toNat = 0 by omega]; simp

/-- `2^s = 2^t · 2^j` for `s = t + j`, written without negative exponents -/
theorem up_dn_rel (t : Int) (j : Nat) : up (t + j) * dn t = up t * dn (t + j) * 2 ^ j := by
  unfold up dn
  simp only [← Nat.pow_add]
  congr 1
  omega

/-- `Q s k` : `num·2^s / den < 2^k` -/
def Q (num den : Nat) (s : Int) (k : Nat) : Prop := num * up s < 2 ^ k * (den * dn s)

theorem Q_shift (num den : Nat) (t : Int) (j k : Nat) : Q num den (t + j) (k + j) ↔ Q num den t k := by
  unfold Q
  have hrel := up_dn_rel t j
  generalize up (t + j) = US at *
  generalize up t = UT at *
  have hDS := dn_pos (t + j)
  have hDT := dn_pos t
  generalize dn (t + j) = DS at *
  generalize dn t = DT at *
  have hJ : 0 < 2 ^ j := Nat.pow_pos (by decide)
  rw [Nat.pow_add]
  generalize 2 ^ j = J at *
  generalize 2 ^ k = K at *
  have e1 : num * UT * (DS * J) = num * US * DT := by
    calc num * UT * (DS * J) = num * (UT * DS * J) := by ac_rfl
      _ = num * (US * DT) := by rw [hrel]
      _ = num * US * DT := by ac_rfl
  have e2 : K * (den * DT) * (DS * J) = K * J * (den * DS) * DT := by ac_rfl
  have hc : 0 < DS * J := Nat.mul_pos hDS hJ
  constructor
  · intro h
    apply Nat.lt_of_mul_lt_mul_right (a := DS * J)
    rw [e1, e2]
    exact Nat.mul_lt_mul_of_pos_right h hDT
  · intro h
    apply Nat.lt_of_mul_lt_mul_right (a := DT)
    rw [← e1, ← e2]
    exact Nat.mul_lt_mul_of_pos_right h hc

theorem Q_mono_k (num den : Nat) (s : Int) (k k' : Nat) (hk : k ≤ k') (h : Q num den s k) :
    Q num den s k' := by
  unfold Q at *
  exact Nat.lt_of_lt_of_le h (Nat.mul_le_mul_right _ (Nat.pow_le_pow_right (by decide) hk))

theorem Q_mono_s (num den : Nat) (s t : Int) (k : Nat) (hts : t ≤ s) (h : Q num den s k) :
    Q num den t k := by
  have hs : s = t + ((s - t).toNat : Nat) := by omega
  rw [hs] at h
  exact (Q_shift num den t _ k).mp (Q_mono_k _ _ _ _ _ (Nat.le_add_right _ _) h)

theorem Q_iff_div (num den : Nat) (hd : 0 < den) (s : Int) (k : Nat) :
    (scale num den s).1 / (scale num den s).2 < 2 ^ k ↔ Q num den s k := by
  rw [scale_eq]
  exact Nat.div_lt_iff_lt_mul (Nat.mul_pos hd (dn_pos s))

theorem lt_pow_bitLen (n : Nat) : n < 2 ^ bitLen n := by
  unfold bitLen
  split
  · next h => subst h; decide
  · exact Nat.lt_log2_self

theorem pow_bitLen_le (n : Nat) (hn : 0 < n) : 2 ^ bitLen n ≤ 2 * n := by
  unfold bitLen
  rw [if_neg (by omega), Nat.pow_succ]
  have := Nat.log2_self_le (n := n) (by omega)
  omega

theorem Q_s0 (num den : Nat) (hd : 0 < den) : Q num den (s0Of num den) 54 := by
  unfold Q
  have h1 := lt_pow_bitLen num
  have h2 := pow_bitLen_le den hd
  have hrel : 2 ^ bitLen num * up (s0Of num den) = 2 ^ 53 * 2 ^ bitLen den * dn (s0Of num den) := by
    unfold up dn s0Of
    simp only [← Nat.pow_add]
    congr 1
    omega
  calc num * up (s0Of num den) < 2 ^ bitLen num * up (s0Of num den) :=
        Nat.mul_lt_mul_of_pos_right h1 (up_pos _)
    _ = 2 ^ 53 * 2 ^ bitLen den * dn (s0Of num den) := hrel
    _ ≤ 2 ^ 53 * (2 * den) * dn (s0Of num den) :=
        Nat.mul_le_mul_right _ (Nat.mul_le_mul_left _ h2)
    _ = 2 ^ 54 * (den * dn (s0Of num den)) := by
        rw [show (2:Nat) ^ 54 = 2 ^ 53 * 2 from rfl]; ac_rfl

theorem Q_s1 (num den : Nat) (hd : 0 < den) : Q num den (s1Of num den) 53 := by
  unfold s1Of
  simp only []
  split
  · have := Q_s0 num den hd
    rw [show s0Of num den = (s0Of num den - 1) + ((1 : Nat) : Int) by omega] at this
    exact (Q_shift num den _ 1 53).mp this
  · next h53 =>
    have h53' : (scale num den (s0Of num den)).1 / (scale num den (s0Of num den)).2 < 2 ^ 53 := by omega
    split
    · next h52 =>
      exact (Q_shift num den _ 1 52).mpr ((Q_iff_div num den hd _ 52).mp h52)
    · exact (Q_iff_div num den hd _ 53).mp h53'

theorem Q_chooseS (num den : Nat) (hd : 0 < den) : Q num den (chooseS num den) 53 := by
  refine Q_mono_s num den (s1Of num den) _ 53 ?_ (Q_s1 num den hd)
  unfold chooseS
  split <;> omega

theorem m_bound (num den : Nat) (hd : 0 < den) :
    divRoundEven (scale num den (chooseS num den)).1 (scale num den (chooseS num den)).2 < 2 ^ 54 := by
  have h := (Q_iff_div num den hd _ 53).mpr (Q_chooseS num den hd)
  have := divRoundEven_le (scale num den (chooseS num den)).1 (scale num den (chooseS num den)).2
  simp only [Nat.reducePow] at h ⊢
  omega

/-- `ofRat` restated with the named pieces above -/
theorem ofRat_eq (neg : Bool) (num den : Nat) :
    ofRat neg num den =
      if num = 0 then mkBits neg 0 0 else
        finish neg (divRoundEven (scale num den (chooseS num den)).1 (scale num den (chooseS num den)).2)
          (chooseS num den) := by
  unfold ofRat
  rfl

theorem ofRat_ok (neg : Bool) (num den : Nat) (hd : den > 0) :
    isNaN (ofRat neg num den) = false ∧ ofRat neg num den < 2 ^ 64 := by
  rw [ofRat_eq]
  split
  · exact mkBits_ok neg 0 0 (by decide) (by decide) (by intro h; cases h)
  · exact finish_ok neg _ _ (m_bound num den hd)

end Libconfig.C08P
