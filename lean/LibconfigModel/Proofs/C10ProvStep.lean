import LibconfigModel.Proofs.C09LineStep
import LibconfigModel.DenoteProv
/-
  C10P (provenance of the tree), machinery: a reduction whose semantic action succeeds, WITH the
  scan state in which the action runs — the one thing `greduceQ` / `preduceQ` of
  Proofs/C09LineStep.lean hide (there only an action that ABORTS has to know where it is).  The
  action of a state that reduces without consulting the lookahead runs in the present scan state;
  the action of a state that consults it runs in the scan state right after the next token.  And
  the table facts that say which is which for the states whose actions record a position.
-/
namespace Libconfig.C10Prov
open Libconfig C02P C05P C02C C01PP C02D C09L

/-- the source position a grammar action records when it runs in the scan state `s`
(`CAPTURE_PARSE_POS`: the line counter of the current buffer, the current file name) -/
def stampOf (s : ScanState) : Denote.Stamp := (s.buf.lineno, s.currentFilename)

section
variable {E : ParserEnv} {pos : Nat → ScanState}

/-- `greduceQ` telling where: the tables reduce by `r` in front of the next token and the action
succeeds; `Post` may depend on the scan state the action ran in -/
theorem greduceP {stk pushed : List (Nat × TokVal)} {p : Nat}
    {vp : TokVal} {rest : List (Nat × TokVal)} {s : Nat} {v0 : TokVal}
    {rest0 : List (Nat × TokVal)} {la : Lookahead} {sc : ScanState} {ctx : ParseCtx} {t : Nat}
    {v : TokVal} {ks : List (Nat × TokVal)} {r : Nat} {Post : ScanState → ParseCtx → Prop}
    (hstk : stk = pushed ++ (p, vp) :: rest) (htop : stk = (s, v0) :: rest0)
    (hdepth : stk.length < E.P.maxDepth) (hfin : s ≠ E.P.final)
    (hred : redOK E.P s (translateTok E.P t) r = true)
    (hlen : (E.P.r2.get r).toNat = pushed.length)
    (hinp : InpQ E pos la sc ((t, v) :: ks))
    (hact : ∀ sa : ScanState, ∃ ctx₂,
      runAction (E.acts.getD r .unknown) ctx v0 sa.buf.lineno sa.currentFilename = .ok ctx₂ ∧
        Post sa ctx₂) :
    ∃ la' sc' ctx' vv, Reaches E ⟨stk, la, sc, ctx⟩
        ⟨(gotoTo E.P p (E.P.r1.get r).toNat, vv) :: (p, vp) :: rest, la', sc', ctx'⟩ ∧
      InpQ E pos la' sc' ((t, v) :: ks) ∧ Post sc' ctx' ∧
      sc' = (if (E.P.pact.get s == E.P.pactNinf) = true then sc else pos ks.length) := by
  obtain ⟨la', sc', hinp', hsc', hb⟩ := reduce_bodyQ ctx htop hdepth hfin hred hinp
  obtain ⟨ctx₂, ha, hpost⟩ := hact sc'
  have hhead : (stk.headD (0, {})).2 = v0 := by rw [htop]; rfl
  refine ⟨la', sc', ctx₂, yyvalOf stk pushed.length, Reaches.of_body (fun rec => ?_), hinp', hpost,
    hsc'⟩
  simp only
  rw [hb rec]
  exact reduceK_eq hstk hlen (by rw [hhead]; exact ha) rec

/-- over the compiled tables, carrying the invariant along -/
theorem preduceP {o : Denote.Options} (hE : Compiled E)
    {stk pushed : List (Nat × TokVal)} {p : Nat}
    {vp : TokVal} {rest : List (Nat × TokVal)} {s : Nat} {v0 : TokVal}
    {rest0 : List (Nat × TokVal)} {la : Lookahead} {sc : ScanState} {ctx : ParseCtx} {t : Nat}
    {v : TokVal} {ks : List (Nat × TokVal)} {r lhs len q' : Nat} {act : ParseAct}
    {Post : ScanState → ParseCtx → Prop}
    (hstk : stk = pushed ++ (p, vp) :: rest) (htop : stk = (s, v0) :: rest0)
    (hdepth : stk.length < 10000) (hfin : s ≠ 6)
    (hred : redOK P s (translateTok P t) r = true)
    (hrule : RuleIs r lhs len act) (hlen : len = pushed.length)
    (hgoto : gotoTo P p lhs = q')
    (hinp : InpQ E pos la sc ((t, v) :: ks)) (hinv : Inv true o ctx)
    (hact : ∀ ctx₁ (sa : ScanState), Same true ctx ctx₁ →
      ∃ ctx₂, runAction act ctx₁ v0 sa.buf.lineno sa.currentFilename = .ok ctx₂ ∧ Post sa ctx₂) :
    ∃ la' sc' ctx' vv, Reaches E ⟨stk, la, sc, ctx⟩ ⟨(q', vv) :: (p, vp) :: rest, la', sc', ctx'⟩ ∧
      InpQ E pos la' sc' ((t, v) :: ks) ∧ Post sc' ctx' ∧ Inv true o ctx' ∧
      sc' = (if (P.pact.get s == P.pactNinf) = true then sc else pos ks.length) := by
  obtain ⟨h1, h2, h3⟩ := hrule
  have h := greduceP (E := E) (pos := pos) (Post := fun sa c => Post sa c ∧ Inv true o c) hstk htop
    (by rw [hE.tables]; exact hdepth)
    (by rw [hE.tables]; exact hfin) (by rw [hE.tables]; exact hred)
    (by rw [hE.tables, h2]; exact hlen) hinp
    (by
      rw [hE.acts, h3]
      intro sa
      obtain ⟨ctx₂, ha, hp⟩ := hact ctx sa (Same.refl _ _)
      exact ⟨ctx₂, ha, hp, hinv.of_ok ha⟩)
  rw [hE.tables, h1, hgoto] at h
  obtain ⟨la', sc', ctx', vv, hR, hI, ⟨hP, hinv'⟩, hsc⟩ := h
  exact ⟨la', sc', ctx', vv, hR, hI, hP, hinv', hsc⟩

/-- the action of a state that reduces WITHOUT consulting the lookahead runs in the present scan
state -/
theorem preduceP_here {o : Denote.Options} (hE : Compiled E)
    {stk pushed : List (Nat × TokVal)} {p : Nat}
    {vp : TokVal} {rest : List (Nat × TokVal)} {s : Nat} {v0 : TokVal}
    {rest0 : List (Nat × TokVal)} {la : Lookahead} {sc : ScanState} {ctx : ParseCtx} {t : Nat}
    {v : TokVal} {ks : List (Nat × TokVal)} {r lhs len q' : Nat} {act : ParseAct}
    {Post : ParseCtx → Prop}
    (hstk : stk = pushed ++ (p, vp) :: rest) (htop : stk = (s, v0) :: rest0)
    (hdepth : stk.length < 10000) (hfin : s ≠ 6)
    (hred : redOK P s (translateTok P t) r = true)
    (hrule : RuleIs r lhs len act) (hlen : len = pushed.length)
    (hgoto : gotoTo P p lhs = q') (hninf : P.pact.get s = P.pactNinf)
    (hinp : InpQ E pos la sc ((t, v) :: ks)) (hinv : Inv true o ctx)
    (hact : ∀ ctx₁, Same true ctx ctx₁ →
      ∃ ctx₂, runAction act ctx₁ v0 sc.buf.lineno sc.currentFilename = .ok ctx₂ ∧ Post ctx₂) :
    ∃ la' sc' ctx' vv, Reaches E ⟨stk, la, sc, ctx⟩ ⟨(q', vv) :: (p, vp) :: rest, la', sc', ctx'⟩ ∧
      InpQ E pos la' sc' ((t, v) :: ks) ∧ Post ctx' ∧ Inv true o ctx' := by
  obtain ⟨h1, h2, h3⟩ := hrule
  obtain ⟨la', sc', hinp', hsc', hb⟩ := reduce_bodyQ (E := E) (pos := pos) ctx htop
    (by rw [hE.tables]; exact hdepth) (by rw [hE.tables]; exact hfin)
    (by rw [hE.tables]; exact hred) hinp
  rw [hE.tables, if_pos (by rw [hninf]; exact beq_self_eq_true _)] at hsc'
  subst hsc'
  obtain ⟨ctx₂, ha, hpost⟩ := hact ctx (Same.refl _ _)
  have hhead : (stk.headD (0, {})).2 = v0 := by rw [htop]; rfl
  have hR : Reaches E ⟨stk, la, sc', ctx⟩
      ⟨(gotoTo E.P p (E.P.r1.get r).toNat, yyvalOf stk pushed.length) :: (p, vp) :: rest, la', sc',
        ctx₂⟩ := by
    refine Reaches.of_body (fun rec => ?_)
    simp only
    rw [hb rec]
    exact reduceK_eq hstk (by rw [hE.tables, h2]; exact hlen)
      (by rw [hhead, hE.acts, h3]; exact ha) rec
  rw [hE.tables, h1, hgoto] at hR
  exact ⟨la', sc', ctx₂, _, hR, hinp', hpost, hinv.of_ok ha⟩

/-- the action of a state that reduces AFTER consulting the lookahead runs in the scan state right
after the next token -/
theorem preduceP_la {o : Denote.Options} (hE : Compiled E)
    {stk pushed : List (Nat × TokVal)} {p : Nat}
    {vp : TokVal} {rest : List (Nat × TokVal)} {s : Nat} {v0 : TokVal}
    {rest0 : List (Nat × TokVal)} {la : Lookahead} {sc : ScanState} {ctx : ParseCtx} {t : Nat}
    {v : TokVal} {ks : List (Nat × TokVal)} {r lhs len q' : Nat} {act : ParseAct}
    {Post : ParseCtx → Prop}
    (hstk : stk = pushed ++ (p, vp) :: rest) (htop : stk = (s, v0) :: rest0)
    (hdepth : stk.length < 10000) (hfin : s ≠ 6)
    (hred : redOK P s (translateTok P t) r = true)
    (hrule : RuleIs r lhs len act) (hlen : len = pushed.length)
    (hgoto : gotoTo P p lhs = q') (hnn : P.pact.get s ≠ P.pactNinf)
    (hinp : InpQ E pos la sc ((t, v) :: ks)) (hinv : Inv true o ctx)
    (hact : ∀ ctx₁, Same true ctx ctx₁ →
      ∃ ctx₂, runAction act ctx₁ v0 (pos ks.length).buf.lineno (pos ks.length).currentFilename =
        .ok ctx₂ ∧ Post ctx₂) :
    ∃ la' sc' ctx' vv, Reaches E ⟨stk, la, sc, ctx⟩ ⟨(q', vv) :: (p, vp) :: rest, la', sc', ctx'⟩ ∧
      InpQ E pos la' sc' ((t, v) :: ks) ∧ Post ctx' ∧ Inv true o ctx' := by
  obtain ⟨h1, h2, h3⟩ := hrule
  obtain ⟨la', sc', hinp', hsc', hb⟩ := reduce_bodyQ (E := E) (pos := pos) ctx htop
    (by rw [hE.tables]; exact hdepth) (by rw [hE.tables]; exact hfin)
    (by rw [hE.tables]; exact hred) hinp
  rw [hE.tables, if_neg (by simpa using hnn)] at hsc'
  subst hsc'
  obtain ⟨ctx₂, ha, hpost⟩ := hact ctx (Same.refl _ _)
  have hhead : (stk.headD (0, {})).2 = v0 := by rw [htop]; rfl
  have hR : Reaches E ⟨stk, la, sc, ctx⟩
      ⟨(gotoTo E.P p (E.P.r1.get r).toNat, yyvalOf stk pushed.length) :: (p, vp) :: rest, la',
        pos ks.length, ctx₂⟩ := by
    refine Reaches.of_body (fun rec => ?_)
    simp only
    rw [hb rec]
    exact reduceK_eq hstk (by rw [hE.tables, h2]; exact hlen)
      (by rw [hhead, hE.acts, h3]; exact ha) rec
  rw [hE.tables, h1, hgoto] at hR
  exact ⟨la', pos ks.length, ctx₂, _, hR, hinp', hpost, hinv.of_ok ha⟩

end

/-! ### which states consult the lookahead

(beyond `ninf_1`, `ninf_9` … `ninf_14`, `nn_22` of Proofs/C09LineStep.lean) -/

/-- after `[`: `$@2` is run without looking at the next token -/
theorem ninf_16 : P.pact.get 16 = P.pactNinf := by decide +kernel
/-- after `(`: `$@3` is run without looking at the next token -/
theorem ninf_17 : P.pact.get 17 = P.pactNinf := by decide +kernel
/-- after `{`: `$@4` is run without looking at the next token -/
theorem ninf_18 : P.pact.get 18 = P.pactNinf := by decide +kernel

end Libconfig.C10Prov
