import LibconfigModel.Proofs.C09LineLex
import LibconfigModel.Proofs.C10ProvSim3
/-
  C10P (provenance of the tree), the whole parse — the accepting direction of
  Proofs/C02DenoteMain.lean with the tree kept exactly: `yyparse` over the compiled tables, started
  on a cleared configuration in front of the tokens of a text that the stamped interpreter of
  DenoteProv.lean accepts, accepts and leaves EXACTLY the tree that interpreter builds when every
  token is stamped with the line counter and the current file of the scan state right after it —
  unless the fuel of the model runs out.  Then: from the position function to a run with positions
  (`LexesToPos`) and token indices (`denoteAt`), and the corollaries of naturality on the level of
  whole texts (`denoteAt` against `denote`, against `denoteProv`, path by path).
-/
namespace Libconfig.C10Prov
open Libconfig C02P C05P C02C C01PP C04 C04R Denote C02D C09L

section
variable {E : ParserEnv} {pos : Nat → ScanState} {o : Options}

/-- a cleared root: an empty group, whatever its position -/
theorem root_of_strip {root : Node} (h : stripPos root = { ty := T_GROUP }) :
    root = stamped { ty := T_GROUP } (root.line, root.file) :=
  eq_of_stripPos h rfl

/-- the parse of an accepted text follows the stamped interpreter -/
theorem prov_sim (hE : Compiled E) (toks : List (Nat × TokVal)) (hraw : RawOK toks)
    (hnest : nesting toks ≤ 1665) {ctx₀ : ParseCtx}
    (hlex : LexQ E pos (toks ++ [tEOF]))
    (hroot : stripPos ctx₀.cfg.root = { ty := T_GROUP }) (hpar : ctx₀.parent = some [])
    (hstr : ctx₀.str = none) (hinv : Inv true o ctx₀) {members : List Node}
    (hs : settingsP (stampAt pos) o (toks.length + 1) [] (toks.map itemOf) = .ok members []) :
    ∃ la1 sc1 ctx1 vv v2, Reaches E ⟨[(0, {})], none, pos (toks.length + 1), ctx₀⟩
      ⟨[(6, vv), (2, v2), (0, {})], la1, sc1, ctx1⟩ ∧
      ctx1.cfg.root = stamped { ty := T_GROUP, kids := members }
        (ctx₀.cfg.root.line, ctx₀.cfg.root.file) := by
  have hr0 := root_of_strip hroot
  have hV : View ctx₀ (fun x => x) [] ctx₀.cfg.root none ctx₀.setting :=
    ⟨Hole.root, rfl, hpar, hstr, rfl⟩
  have hI : InpJ E pos none (pos (toks.length + 1)) (toks.map itemOf) :=
    ⟨toks, ⟨by simp, hlex⟩, rfl, hraw⟩
  have hsim := (sim_allP (pos := pos) (o := o) hE (toks.length + 1)).2.2 [] (toks.map itemOf) 0 3
    mem_0 ({} : TokVal) [] [(0, {})] none (pos (toks.length + 1)) ctx₀ (fun x => x) []
    ctx₀.cfg.root ctx₀.setting 0 (.inl rfl) (by simp) (by simp) hI hV (by rw [hr0]; rfl)
    (by rw [hr0]; rfl) hinv hnest
  rw [hs] at hsim
  obtain ⟨b, hR1, stkS, la1, sc1, ctx1, st1, rfl, hshape, hI1, hV1, hinv1, _, hstop⟩ := hsim
  obtain ⟨t, v, ks, hin, hk23, hn, hrest⟩ := hI1.peek
  have hne10 : translateTok P t ≠ 10 := ne_of_hk hn rfl (hk_ne_10 hstop)
  -- `configuration`
  have hconf : ∃ la2 sc2 ctx2 vv2, Reaches E ⟨stkS, la1, sc1, ctx1⟩
      ⟨[(2, vv2), (0, {})], la2, sc2, ctx2⟩ ∧
      InpQ E pos la2 sc2 ((t, v) :: ks) ∧ Same true ctx1 ctx2 := by
    rcases hshape with rfl | ⟨v3, rfl⟩
    · exact preduce0Q hE (ctx := ctx1)
        (pushed := []) (p := 0) (vp := ({} : TokVal)) (rest := [])
        rfl rfl (by dp) (by decide) (red_0 _ hk23 hne10) rule_2 rfl go_0_conf hin
    · exact preduce0Q hE (ctx := ctx1)
        (pushed := [(3, v3)]) (p := 0) (vp := ({} : TokVal)) (rest := [])
        rfl rfl (by dp) (by decide) (red_3 _ hk23 hne10) rule_3 rfl go_0_conf hin
  obtain ⟨la2, sc2, ctx2, vv2, hR2, hI2, hS2⟩ := hconf
  -- the end marker
  have hk0 : translateTok P t = 0 := normK_eq _ hk23 0 (by decide) (by decide) hn
  obtain ⟨sc3, ctx3, hR3, _, hS3⟩ := pshiftQ hE (v0 := vv2) (rest := [(0, ({} : TokVal))])
    (ctx := ctx2) (by dp) (by decide) hk0 sh_2_eof (by decide) hI2
  refine ⟨none, sc3, ctx3, _, vv2, (hR1.trans hR2).trans hR3, ?_⟩
  rw [hS3.sem.1, hS2.sem.1, hV1.root]
  show { ctx₀.cfg.root with kids := members } = _
  rw [hr0]
  rfl

/-- **The provenance of the tree, core statement**: under the hypotheses of
`C02D.denote_ok_core` with a scanner run without include errors whose scan states are `pos`: if the
stamped interpreter accepts the text, then whatever `yyparse` returns with enough fuel is: accept,
with exactly the tree that interpreter builds from the stamps `stampAt pos`. -/
theorem prov_core (hE : Compiled E) (toks : List (Nat × TokVal)) (hraw : RawOK toks)
    (hnest : nesting toks ≤ 1665) {fuel : Nat} {s' : ScanState} {ctx₀ ctx' : ParseCtx}
    {r : ParseResult} (hlex : LexQ E pos (toks ++ [tEOF]))
    (hroot : stripPos ctx₀.cfg.root = { ty := T_GROUP }) (hpar : ctx₀.parent = some [])
    (hstr : ctx₀.str = none) (hinv : Inv true o ctx₀)
    (h : yyparse E fuel (pos (toks.length + 1)) ctx₀ = (s', ctx', r)) (hr : r ≠ .outOfFuel)
    {members : List Node}
    (hs : settingsP (stampAt pos) o (toks.length + 1) [] (toks.map itemOf) = .ok members []) :
    r = .accept ∧ ctx'.cfg.root = stamped { ty := T_GROUP, kids := members }
      (ctx₀.cfg.root.line, ctx₀.cfg.root.file) := by
  obtain ⟨la1, sc1, ctx1, vv, v2, hR, hroot1⟩ :=
    prov_sim (o := o) hE toks hraw hnest hlex hroot hpar hstr hinv hs
  rw [yyparse_eq_run'] at h
  rcases hR.part fuel with hout | ⟨fuel', heq⟩
  · rw [h] at hout
    exact absurd hout hr
  · rw [h] at heq
    cases fuel' with
    | zero =>
      rw [run_zero] at heq
      injection heq with _ h2
      injection h2 with _ h3
      exact absurd h3 hr
    | succ f =>
      rw [run_accept' hE] at heq
      injection heq with _ h2
      injection h2 with h3 h4
      exact ⟨h4, by rw [h3]; exact hroot1⟩

/-- … and with enough fuel the parse does return -/
theorem prov_total (hE : Compiled E) (toks : List (Nat × TokVal)) (hraw : RawOK toks)
    (hnest : nesting toks ≤ 1665) {ctx₀ : ParseCtx} (hlex : LexQ E pos (toks ++ [tEOF]))
    (hroot : stripPos ctx₀.cfg.root = { ty := T_GROUP }) (hpar : ctx₀.parent = some [])
    (hstr : ctx₀.str = none) (hinv : Inv true o ctx₀) {members : List Node}
    (hs : settingsP (stampAt pos) o (toks.length + 1) [] (toks.map itemOf) = .ok members []) :
    ∃ N s' ctx', (∀ fuel, N ≤ fuel →
        yyparse E fuel (pos (toks.length + 1)) ctx₀ = (s', ctx', .accept)) ∧
      ctx'.cfg.root = stamped { ty := T_GROUP, kids := members }
        (ctx₀.cfg.root.line, ctx₀.cfg.root.file) := by
  obtain ⟨la1, sc1, ctx1, vv, v2, hR, hroot1⟩ :=
    prov_sim (o := o) hE toks hraw hnest hlex hroot hpar hstr hinv hs
  obtain ⟨n, hn⟩ := hR.steps
  refine ⟨n + 1, sc1, ctx1, ?_, hroot1⟩
  intro fuel hfuel
  obtain ⟨f, rfl⟩ : ∃ f, fuel = (f + 1) + n := ⟨fuel - (n + 1), by omega⟩
  rw [yyparse_eq_run', hn, run_accept' hE]

end

/-! ### on the level of whole texts -/

theorem stamped_stamped (n : Node) (p q : Stamp) : stamped (stamped n p) q = stamped n q := rfl

theorem stamped_line (n : Node) (p : Stamp) : (stamped n p).line = p.1 := rfl
theorem stamped_file (n : Node) (p : Stamp) : (stamped n p).file = p.2 := rfl
theorem stamped_kids (n : Node) (p : Stamp) : (stamped n p).kids = n.kids := rfl

/-- what `denoteAt` answers, in terms of `settingsP` -/
theorem denoteAt_ok {o : Options} {σ : Nat → Stamp} {root : Stamp} {toks : List (Nat × TokVal)}
    {T : Node} (h : denoteAt o σ root toks = .ok T) :
    ∃ members, settingsP (fun k => σ (toks.length - k)) o (toks.length + 1) [] (toks.map itemOf) =
        .ok members [] ∧ T = stamped { ty := T_GROUP, kids := members } root := by
  unfold denoteAt at h
  split at h
  · cases h
  · rename_i members heq
    injection h with h
    exact ⟨members, heq, h.symm⟩
  · cases h

/-- **forgetting the positions gives `denote`** -/
theorem denoteAt_erase (o : Options) (σ : Nat → Stamp) (root : Stamp)
    (toks : List (Nat × TokVal)) :
    denote o toks =
      match denoteAt o σ root toks with
      | .ok T => .ok (stripPos T)
      | .error k => .error k := by
  unfold denote denoteAt
  have := settingsP_erase (fun k => σ (toks.length - k)) o (toks.length + 1) [] (toks.map itemOf)
  rw [show stripPosList [] = [] from rfl] at this
  rw [this]
  cases settingsP (fun k => σ (toks.length - k)) o (toks.length + 1) [] (toks.map itemOf) with
  | error k => rfl
  | ok members rest =>
    cases rest with
    | nil =>
      show Denote.Result.ok _ = Denote.Result.ok _
      rw [stripPos_eq]
      rfl
    | cons it tl => rfl

/-- a text `denote` accepts is one `denoteAt` accepts, with the same tree positions apart -/
theorem denoteAt_of_denote {o : Options} (σ : Nat → Stamp) (root : Stamp)
    {toks : List (Nat × TokVal)} {t : Node} (h : denote o toks = .ok t) :
    ∃ T, denoteAt o σ root toks = .ok T ∧ stripPos T = t := by
  have := denoteAt_erase o σ root toks
  rw [h] at this
  cases hd : denoteAt o σ root toks with
  | ok T =>
    rw [hd] at this
    injection this with this
    exact ⟨T, rfl, this.symm⟩
  | error k => rw [hd] at this; cases this

/-- **`denoteAt` is the provenance tree, re-stamped**: every setting of `denoteAt o σ root toks`
carries the stamp `σ i`, `i` the index the provenance tree holds in its place -/
theorem denoteAt_nat (o : Options) (σ : Nat → Stamp) (root : Stamp) (toks : List (Nat × TokVal)) :
    denoteAt o σ root toks =
      match denoteProv o toks with
      | .ok T => .ok (stamped (restamp (fun p => σ p.1) T) root)
      | .error k => .error k := by
  unfold denoteProv denoteAt
  have := settingsP_nat (g := fun p => σ p.1) (σ := fun k => (toks.length - k, none))
    (σ' := fun k => σ (toks.length - k)) (N := (toks.map itemOf).length) (fun _ _ => rfl) o
    (toks.length + 1) [] (toks.map itemOf) (Nat.le_refl _)
  rw [show restampList (fun p : Stamp => σ p.1) [] = [] from rfl] at this
  rw [this]
  cases settingsP (fun k => ((toks.length - k, none) : Stamp)) o (toks.length + 1) []
      (toks.map itemOf) with
  | error k => rfl
  | ok members rest =>
    cases rest with
    | nil =>
      show Denote.Result.ok _ = Denote.Result.ok _
      rw [restamp_stamped, stamped_stamped]
    | cons it tl => rfl

/-- a proper path does not see the root's own position -/
theorem get?_stamped (n : Node) (q : Stamp) (i : Nat) (p : Path) :
    (stamped n q).get? (i :: p) = n.get? (i :: p) := by
  rw [C04.get?_cons, C04.get?_cons, stamped_kids]

/-- **path by path**: the setting at a proper path of `denoteAt o σ root toks` carries the stamp of
the token `provIndex` names; the root carries `root` -/
theorem denoteAt_path {o : Options} {σ : Nat → Stamp} {root : Stamp} {toks : List (Nat × TokVal)}
    {T : Node} (h : denoteAt o σ root toks = .ok T) :
    T.line = root.1 ∧ T.file = root.2 ∧
    ∀ (p : Path) (n : Node), p ≠ [] → T.get? p = some n →
      ∃ i, provIndex o toks p = some i ∧ n.line = (σ i).1 ∧ n.file = (σ i).2 := by
  rw [denoteAt_nat] at h
  cases hp : denoteProv o toks with
  | error k => rw [hp] at h; cases h
  | ok Tp =>
    rw [hp] at h
    injection h with h
    subst h
    refine ⟨rfl, rfl, fun p n hne hn => ?_⟩
    cases p with
    | nil => exact absurd rfl hne
    | cons i p =>
      rw [get?_stamped, get?_restamp] at hn
      unfold provIndex
      rw [hp]
      simp only
      cases hg : Tp.get? (i :: p) with
      | none => rw [hg] at hn; cases hn
      | some m =>
        rw [hg] at hn
        simp only [Option.map_some, Option.some.injEq] at hn
        refine ⟨m.line, rfl, ?_, ?_⟩
        · rw [← hn, restamp_eq]
        · rw [← hn, restamp_eq]

/-- the paths of the provenance tree are those of the tree `denote` computes -/
theorem provIndex_isSome {o : Options} {toks : List (Nat × TokVal)} {t : Node}
    (h : denote o toks = .ok t) (i : Nat) (p : Path) :
    (provIndex o toks (i :: p)).isSome = (t.get? (i :: p)).isSome := by
  obtain ⟨T, hT, hst⟩ := denoteAt_of_denote (fun i => (i, none)) (0, none) h
  have hT' : denoteProv o toks = .ok T := hT
  unfold provIndex
  rw [hT']
  simp only
  rw [← hst, stripPos_restamp, get?_restamp]
  simp only [Option.isSome_map]

/-! ### the core statement, in terms of a run and of indices -/

/-- the stamps of a run, by token index -/
def runStamp (ptoks : List ((Nat × TokVal) × ScanState)) (sEnd : ScanState) : Nat → Stamp :=
  fun i => stampOf (stateAfter ptoks sEnd i)

/-- `prov_core` for a run with positions: the tree `yyparse` leaves is `denoteAt` of the stamps of
the run -/
theorem provenance_core {E : ParserEnv} {o : Options} (hE : Compiled E)
    (ptoks : List ((Nat × TokVal) × ScanState)) (hraw : RawOK (tokensOf ptoks))
    (hnest : nesting (tokensOf ptoks) ≤ 1665) {fuel : Nat} {s₀ s₁ s' : ScanState}
    {ctx₀ ctx' : ParseCtx} {r : ParseResult} (hlex : LexesToPos E s₀ ptoks s₁)
    (hroot : stripPos ctx₀.cfg.root = { ty := T_GROUP }) (hpar : ctx₀.parent = some [])
    (hstr : ctx₀.str = none) (hinv : Inv true o ctx₀)
    (h : yyparse E fuel s₀ ctx₀ = (s', ctx', r)) (hr : r ≠ .outOfFuel) {T : Node}
    (hd : denoteAt o (runStamp ptoks s₁) (ctx₀.cfg.root.line, ctx₀.cfg.root.file)
      (tokensOf ptoks) = .ok T) :
    r = .accept ∧ ctx'.cfg.root = T := by
  obtain ⟨members, hs, rfl⟩ := denoteAt_ok hd
  have hs0 : posOf s₀ ptoks s₁ ((tokensOf ptoks).length + 1) = s₀ := by
    unfold posOf
    rw [tokensOf_length, if_pos rfl]
  rw [← hs0] at h
  refine prov_core (pos := posOf s₀ ptoks s₁) (o := o) hE (tokensOf ptoks) hraw hnest
    (lexQ_posOf hlex) hroot hpar hstr hinv h hr ?_
  rw [← hs]
  refine settingsP_congr o _ [] _ (fun k hk => ?_)
  rw [List.length_map, tokensOf_length] at hk
  show stampOf (posOf s₀ ptoks s₁ k) = stampOf (stateAfter ptoks s₁ ((tokensOf ptoks).length - k))
  rw [posOf_le hk, tokensOf_length]

/-- … and the parse does return: with any fuel above a bound -/
theorem provenance_total {E : ParserEnv} {o : Options} (hE : Compiled E)
    (ptoks : List ((Nat × TokVal) × ScanState)) (hraw : RawOK (tokensOf ptoks))
    (hnest : nesting (tokensOf ptoks) ≤ 1665) {s₀ s₁ : ScanState}
    {ctx₀ : ParseCtx} (hlex : LexesToPos E s₀ ptoks s₁)
    (hroot : stripPos ctx₀.cfg.root = { ty := T_GROUP }) (hpar : ctx₀.parent = some [])
    (hstr : ctx₀.str = none) (hinv : Inv true o ctx₀) {T : Node}
    (hd : denoteAt o (runStamp ptoks s₁) (ctx₀.cfg.root.line, ctx₀.cfg.root.file)
      (tokensOf ptoks) = .ok T) :
    ∃ N s' ctx', (∀ fuel, N ≤ fuel → yyparse E fuel s₀ ctx₀ = (s', ctx', .accept)) ∧
      ctx'.cfg.root = T := by
  obtain ⟨members, hs, rfl⟩ := denoteAt_ok hd
  have hs0 : posOf s₀ ptoks s₁ ((tokensOf ptoks).length + 1) = s₀ := by
    unfold posOf
    rw [tokensOf_length, if_pos rfl]
  have := prov_total (pos := posOf s₀ ptoks s₁) (o := o) hE (tokensOf ptoks) hraw hnest
    (lexQ_posOf hlex) hroot hpar hstr hinv (members := members) (by
      rw [← hs]
      refine settingsP_congr o _ [] _ (fun k hk => ?_)
      rw [List.length_map, tokensOf_length] at hk
      show stampOf (posOf s₀ ptoks s₁ k) =
        stampOf (stateAfter ptoks s₁ ((tokensOf ptoks).length - k))
      rw [posOf_le hk, tokensOf_length])
  rw [hs0] at this
  exact this

end Libconfig.C10Prov
