import LibconfigModel.Proofs.C02Static
import LibconfigModel.Proofs.C05
/-
  C02, dynamic part: `yyparseLoop` keeps its state stack a path of certificate edges and every
  entry above the bottom can be decorated with a valid derivation tree whose root is the
  accessing symbol of the state; at acceptance the only tree left derives `configuration` and
  its yield is the sequence of token kinds consumed.
-/
namespace Libconfig.C02P
open Libconfig Grammar C05P

/-! ### trees -/

theorem yieldList_append (a b : List Tree) : yieldList (a ++ b) = yieldList a ++ yieldList b := by
  induction a with
  | nil => simp [yieldList]
  | cons t ts ih => simp [yieldList, ih, List.append_assoc]

theorem validList_iff (l : List Tree) : ValidList l ↔ ∀ t ∈ l, t.Valid := by
  induction l with
  | nil => simp [ValidList]
  | cons t ts ih => simp [ValidList, ih]

theorem yield_node (r : Nat) (kids : List Tree) : (Tree.node r kids).yield = yieldList kids := by
  rw [Tree.yield]

theorem yield_leaf (t : Nat) : (Tree.leaf t).yield = [t] := by
  rw [Tree.yield]

/-- replacing the top `n` trees by a node over them does not change the yield of the stack -/
theorem yield_reduce (r n : Nat) (trees : List Tree) :
    yieldList ((Tree.node r (trees.take n).reverse :: trees.drop n).reverse) =
      yieldList trees.reverse := by
  conv => rhs; rw [← List.take_append_drop n trees]
  rw [List.reverse_cons, List.reverse_append, yieldList_append, yieldList_append]
  simp [yieldList, yield_node]

theorem yield_shift (tok : Nat) (trees : List Tree) :
    yieldList ((Tree.leaf tok :: trees).reverse) = yieldList trees.reverse ++ [tok] := by
  rw [List.reverse_cons, yieldList_append]
  simp [yieldList, yield_leaf]

/-! ### Boolean helpers -/

theorem edgeB_mem {ed : List (Nat × Nat)} {p q : Nat} (h : edgeB ed p q = true) : (p, q) ∈ ed := by
  unfold edgeB at h
  rw [List.any_eq_true] at h
  obtain ⟨⟨a, b⟩, he, h2⟩ := h
  rw [Bool.and_eq_true] at h2
  have h3 : a = p := Nat.eq_of_beq_eq_true h2.1
  have h4 : b = q := Nat.eq_of_beq_eq_true h2.2
  subst h3; subst h4; exact he

theorem not_beq {a b : Nat} (h : (!Nat.beq a b) = true) : a ≠ b := by
  intro hab
  subst hab
  rw [Nat.beq_refl] at h
  cases h

theorem blt_lt {a b : Nat} (h : Nat.blt a b = true) : a < b := Nat.le_of_ble_eq_true h

/-- consequence of an `all … (!(e.2 == s) || f e.1)` test -/
theorem all_pred {ed : List (Nat × Nat)} {s : Nat} {f : Nat → Bool}
    (h : (ed.all fun e => !(Nat.beq e.2 s) || f e.1) = true) {p : Nat} (hp : (p, s) ∈ ed) :
    f p = true := by
  rw [List.all_eq_true] at h
  have := h _ hp
  simp only [Nat.beq_refl, Bool.not_true, Bool.false_or] at this
  exact this

/-! ### the facts established by the static check -/

structure Facts (P : LalrTables) (ed : List (Nat × Nat)) : Prop where
  ntok : P.ntokens = 23
  final_ne : P.final ≠ 0
  zero_lt : 0 < P.nstates
  ed_ok : ∀ p q, (p, q) ∈ ed → q ≠ 0 ∧ p < P.nstates ∧ q < P.nstates
  tr : ∀ i, i ≤ P.maxutok → (P.translate.get i).toNat < P.ntokens
  st : ∀ s, s < P.nstates → s ≠ P.final → stateOK P ed s = true

theorem facts_of_static {P : LalrTables} {ed : List (Nat × Nat)} (h : staticOK P ed = true) :
    Facts P ed := by
  unfold staticOK at h
  simp only [Bool.and_eq_true] at h
  obtain ⟨⟨⟨⟨⟨h1, h2⟩, h3⟩, h4⟩, h5⟩, h6⟩ := h
  refine ⟨Nat.eq_of_beq_eq_true h1, not_beq h2, blt_lt h3, ?_, ?_, ?_⟩
  · intro p q hpq
    rw [List.all_eq_true] at h4
    have := h4 _ hpq
    simp only [Bool.and_eq_true] at this
    exact ⟨not_beq this.1.1, blt_lt this.1.2, blt_lt this.2⟩
  · intro i hi
    exact blt_lt (allBelow_spec h5 i (Nat.lt_succ_of_le hi))
  · intro s hs hne
    have := allBelow_spec h6 s hs
    simp only [Bool.or_eq_true] at this
    rcases this with h7 | h7
    · exact absurd (Nat.eq_of_beq_eq_true h7) hne
    · exact h7

theorem translateTok_lt {P : LalrTables} {ed : List (Nat × Nat)} (F : Facts P ed) (t : Nat) :
    translateTok P t < P.ntokens := by
  unfold translateTok
  split
  · rw [F.ntok]; decide
  · split
    · rename_i h; exact F.tr t h
    · rw [F.ntok]; decide

/-! ### the stack invariant -/

/-- the state stack (top first) is a path of certificate edges from state 0, and `trees` (top
first) decorates the entries above the bottom with valid trees rooted in the accessing symbols -/
inductive PathOK (P : LalrTables) (ed : List (Nat × Nat)) : List (Nat × TokVal) → List Tree → Prop where
  | base (v : TokVal) : PathOK P ed [(0, v)] []
  | push (p q : Nat) (v v' : TokVal) (rest : List (Nat × TokVal)) (trees : List Tree) (t : Tree) :
      PathOK P ed ((p, v) :: rest) trees → (p, q) ∈ ed → t.Valid → t.sym = stosN P q →
      PathOK P ed ((q, v') :: (p, v) :: rest) (t :: trees)

theorem PathOK.top_lt {P : LalrTables} {ed : List (Nat × Nat)} (F : Facts P ed)
    {s : Nat} {v : TokVal} {rest : List (Nat × TokVal)} {trees : List Tree}
    (h : PathOK P ed ((s, v) :: rest) trees) : s < P.nstates := by
  cases h with
  | base => exact F.zero_lt
  | push p _ v0 _ rest0 trees0 t h0 he _ _ => exact (F.ed_ok _ _ he).2.2

/-- a path whose top is the initial state is the empty path -/
theorem PathOK.bottom {P : LalrTables} {ed : List (Nat × Nat)} (F : Facts P ed)
    {v : TokVal} {rest : List (Nat × TokVal)} {trees : List Tree}
    (h : PathOK P ed ((0, v) :: rest) trees) : rest = [] ∧ trees = [] := by
  cases h with
  | base => exact ⟨rfl, rfl⟩
  | push p _ v0 _ rest0 trees0 t h0 he _ _ => exact absurd rfl (F.ed_ok _ _ he).1

/-- popping a handle -/
theorem pop {P : LalrTables} {ed : List (Nat × Nat)} {k : Nat → Bool} :
    ∀ (βr : List Nat) (s : Nat) (v : TokVal) (rest : List (Nat × TokVal)) (trees : List Tree),
      PathOK P ed ((s, v) :: rest) trees → spellsRev P ed k βr s = true →
      ∃ p v' rest', ((s, v) :: rest).drop βr.length = (p, v') :: rest' ∧
        PathOK P ed ((p, v') :: rest') (trees.drop βr.length) ∧ k p = true ∧
        (trees.take βr.length).map Tree.sym = βr ∧ (∀ t ∈ trees.take βr.length, t.Valid) := by
  intro βr
  induction βr with
  | nil =>
    intro s v rest trees hp hs
    exact ⟨s, v, rest, rfl, hp, hs, rfl, fun t ht => by simp at ht⟩
  | cons X βr ih =>
    intro s v rest trees hp hs
    rw [spellsRev] at hs
    simp only [Bool.and_eq_true] at hs
    obtain ⟨⟨hX, hs0⟩, hall⟩ := hs
    have hX : stosN P s = X := Nat.eq_of_beq_eq_true hX
    have hs0 : s ≠ 0 := not_beq hs0
    cases hp with
    | base => exact absurd rfl hs0
    | push p _ v0 _ rest0 trees0 t h0 he hv hsym =>
      have hsp := all_pred hall he
      obtain ⟨p', v', rest', hd, hpath, hk, hsyms, hval⟩ := ih p v0 rest0 trees0 h0 hsp
      refine ⟨p', v', rest', ?_, ?_, hk, ?_, ?_⟩
      · simpa using hd
      · simpa using hpath
      · simp only [List.length_cons, List.take_succ_cons, List.map_cons, hsyms, hsym, hX]
      · intro t' ht'
        simp only [List.length_cons, List.take_succ_cons, List.mem_cons] at ht'
        rcases ht' with h1 | h1
        · rw [h1]; exact hv
        · exact hval _ h1

/-! ### tokens -/

/-- the same relation as `C02.LexesTo` (which lives in the statement file) -/
inductive Lexes (E : ParserEnv) : ScanState → List (Nat × TokVal) → ScanState → Prop where
  | eof (s s' : ScanState) : yylex E.T E.sacts E.w E.ic E.lexFuel s = (s', .eof) → Lexes E s [] s'
  | tok (s s₁ s' : ScanState) (t : Nat) (v : TokVal) (rest : List (Nat × TokVal)) :
      yylex E.T E.sacts E.w E.ic E.lexFuel s = (s₁, .tok t v) → Lexes E s₁ rest s' →
      Lexes E s ((t, v) :: rest) s'
  | incl (s s₁ s' : ScanState) (t : Nat) (text : Bytes) (file : Option Bytes) (line : Nat)
      (rest : List (Nat × TokVal)) :
      yylex E.T E.sacts E.w E.ic E.lexFuel s = (s₁, .includeError t text file line) →
      Lexes E s₁ rest s' → Lexes E s ((t, {}) :: rest) s'

def kinds (P : LalrTables) (toks : List (Nat × TokVal)) : List Nat :=
  toks.map fun tv => translateTok P tv.1

/-- the scanner never hands out a token number that translates to the end marker -/
def TokNZ (E : ParserEnv) : Prop :=
  ∀ s s₁, (∀ t v, yylex E.T E.sacts E.w E.ic E.lexFuel s = (s₁, .tok t v) → translateTok E.P t ≠ 0) ∧
    (∀ t text file line, yylex E.T E.sacts E.w E.ic E.lexFuel s = (s₁, .includeError t text file line) →
      translateTok E.P t ≠ 0)

/-- what remains to be consumed, given the lookahead: either the lookahead is a proper token and
the rest is still to be lexed, or it is the end marker and the scanner is never called again -/
def Rem (E : ParserEnv) (la : Lookahead) (s : ScanState) (toks : List (Nat × TokVal))
    (s' : ScanState) : Prop :=
  match la with
  | none => Lexes E s toks s'
  | some (t, v) =>
    (translateTok E.P t ≠ 0 ∧ ∃ rest, toks = (t, v) :: rest ∧ Lexes E s rest s') ∨
    (translateTok E.P t = 0 ∧ toks = [] ∧ s' = s)

def Goal (E : ParserEnv) (trees : List Tree) (la : Lookahead) (s s' : ScanState) : Prop :=
  ∃ toks, Rem E la s toks s' ∧ Derivable (yieldList trees.reverse ++ kinds E.P toks)

def Inv (P : LalrTables) (ed : List (Nat × Nat)) (stack : List (Nat × TokVal)) (trees : List Tree) : Prop :=
  PathOK P ed stack trees ∧ (stack.headD (0, {})).1 ≠ P.final

def RecOK (E : ParserEnv) (ed : List (Nat × Nat)) (rec : PRec) : Prop :=
  ∀ stack la s ctx s' ctx' trees, rec stack la s ctx = (s', ctx', .accept) →
    Inv E.P ed stack trees → Goal E trees la s s'

/-- once the end marker is shifted the scanner is not called again -/
def RecDone (E : ParserEnv) (rec : PRec) : Prop :=
  ∀ v rest s ctx s' ctx', rec ((E.P.final, v) :: rest) none s ctx = (s', ctx', .accept) → s' = s

/-! ### one iteration -/

theorem reduceK_ok {E : ParserEnv} {ed : List (Nat × Nat)} {rec : PRec}
    (hrec : RecOK E ed rec) (state : Nat) (v : TokVal) (rest : List (Nat × TokVal)) (rule : Nat)
    (la : Lookahead) (s : ScanState) (ctx : ParseCtx) (s' : ScanState) (ctx' : ParseCtx)
    (trees : List Tree) (hinv : Inv E.P ed ((state, v) :: rest) trees)
    (hr : ruleOK E.P ed state rule = true)
    (h : reduceK E rec ((state, v) :: rest) rule la s ctx = (s', ctx', .accept)) :
    Goal E trees la s s' := by
  unfold ruleOK at hr
  simp only [Bool.and_eq_true] at hr
  obtain ⟨⟨⟨⟨hr1, hr2⟩, hlen⟩, hlhs⟩, hsp⟩ := hr
  have hr1 : 1 ≤ rule := Nat.le_of_ble_eq_true hr1
  have hr2 : rule < rules.length := blt_lt hr2
  have hlen : (E.P.r2.get rule).toNat = (rules.getD rule (0, [])).2.length := Nat.eq_of_beq_eq_true hlen
  have hlhs : (E.P.r1.get rule).toNat = (rules.getD rule (0, [])).1 := Nat.eq_of_beq_eq_true hlhs
  obtain ⟨p, v', rest', hd, hpath, hk, hsyms, hval⟩ := pop _ _ _ _ _ hinv.1 hsp
  rw [List.length_reverse, ← hlen] at hd hpath hsyms hval
  unfold gotoOK at hk
  simp only [Bool.and_eq_true] at hk
  obtain ⟨⟨hedge, hstos⟩, hnf⟩ := hk
  unfold reduceK at h
  simp only at h
  split at h
  · cases h
  · cases h
  · rw [hd] at h
    have g := hrec _ _ _ _ _ _ (Tree.node rule (trees.take (E.P.r2.get rule).toNat).reverse ::
      trees.drop (E.P.r2.get rule).toNat) h (by
        refine ⟨PathOK.push _ _ _ _ _ _ _ hpath ?_ ?_ ?_, ?_⟩
        · simp only [List.headD_cons, hlhs]
          exact edgeB_mem hedge
        · rw [Tree.Valid]
          refine ⟨hr1, hr2, ?_, (validList_iff _).2 ?_⟩
          · rw [List.map_reverse, hsyms, List.reverse_reverse]
          · intro t ht
            exact hval t (List.mem_reverse.mp ht)
        · simp only [List.headD_cons, hlhs, Tree.sym]
          exact (Nat.eq_of_beq_eq_true hstos).symm
        · simp only [List.headD_cons, hlhs]
          exact not_beq hnf)
    obtain ⟨toks, hrem, hder⟩ := g
    rw [yield_reduce] at hder
    exact ⟨toks, hrem, hder⟩

theorem dfltK_ok {E : ParserEnv} {ed : List (Nat × Nat)} {rec : PRec} (F : Facts E.P ed)
    (hrec : RecOK E ed rec) (state : Nat) (v : TokVal) (rest : List (Nat × TokVal))
    (la : Lookahead) (s : ScanState) (ctx : ParseCtx) (s' : ScanState) (ctx' : ParseCtx)
    (trees : List Tree) (hinv : Inv E.P ed ((state, v) :: rest) trees)
    (h : dfltK E rec ((state, v) :: rest) state la s ctx = (s', ctx', .accept)) :
    Goal E trees la s s' := by
  have hst := F.st state (hinv.1.top_lt F) hinv.2
  unfold stateOK at hst
  simp only [Bool.and_eq_true, Bool.or_eq_true] at hst
  unfold dfltK at h
  simp only at h
  split at h
  · cases h
  · rename_i hne
    rcases hst.1 with h0 | h0
    · rw [Nat.eq_of_beq_eq_true h0] at hne
      exact absurd rfl hne
    · exact reduceK_ok hrec _ _ _ _ _ _ _ _ _ _ hinv h0 h

/-- the part of an iteration that acts on the lookahead `(t, v)` -/
def actK (E : ParserEnv) (rec : PRec) (stack : List (Nat × TokVal)) (state : Nat)
    (t : Nat) (v : TokVal) (s : ScanState) (ctx : ParseCtx) : POut :=
  let P := E.P
  let yyn := P.pact.get state
  let tok := translateTok P t
  let idx := yyn + tok
  if idx < 0 || idx > P.last || P.check.get idx.toNat != tok then
    dfltK E rec stack state (some (t, v)) s ctx
  else
    let a := P.table.get idx.toNat
    if a ≤ 0 then
      if a == P.tableNinf then syntaxErrorK s ctx
      else reduceK E rec stack (-a).toNat (some (t, v)) s ctx
    else
      rec ((a.toNat, v) :: stack) none s ctx

theorem bodyK_cons (E : ParserEnv) (rec : PRec) (state : Nat) (v0 : TokVal)
    (rest : List (Nat × TokVal)) (la : Lookahead) (s : ScanState) (ctx : ParseCtx) :
    bodyK E rec ((state, v0) :: rest) la s ctx =
      if ((state, v0) :: rest).length ≥ E.P.maxDepth then
        (s, ctx.yyerror s.buf.lineno Generated.ERR_EXHAUSTED, .exhausted)
      else if state == E.P.final then (s, ctx, .accept)
      else if E.P.pact.get state == E.P.pactNinf then dfltK E rec ((state, v0) :: rest) state la s ctx
      else
        match fetchK E la s ctx with
        | (s, _, some r, ctx) => (s, ctx, r)
        | (s, none, none, ctx) => (s, ctx, .crash)
        | (s, some (t, v), none, ctx) => actK E rec ((state, v0) :: rest) state t v s ctx := rfl

theorem actK_ok {E : ParserEnv} {ed : List (Nat × Nat)} {rec : PRec} (F : Facts E.P ed)
    (hrec : RecOK E ed rec) (hdone : RecDone E rec)
    (state : Nat) (v0 : TokVal) (rest : List (Nat × TokVal)) (t : Nat) (v : TokVal)
    (s : ScanState) (ctx : ParseCtx) (s' : ScanState) (ctx' : ParseCtx)
    (trees : List Tree) (hinv : Inv E.P ed ((state, v0) :: rest) trees)
    (hpact : ¬ (E.P.pact.get state == E.P.pactNinf) = true)
    (h : actK E rec ((state, v0) :: rest) state t v s ctx = (s', ctx', .accept)) :
    Goal E trees (some (t, v)) s s' := by
  have hst := F.st state (hinv.1.top_lt F) hinv.2
  unfold stateOK at hst
  simp only [Bool.and_eq_true] at hst
  have hent := allBelow_spec hst.2 _ (translateTok_lt F t)
  unfold actK at h
  simp only at h
  split at h
  · exact dfltK_ok F hrec _ _ _ _ _ _ _ _ _ hinv h
  · rename_i hguard
    have hact : actAt E.P state (translateTok E.P t) =
        some (E.P.table.get (E.P.pact.get state + ↑(translateTok E.P t)).toNat) := by
      unfold actAt
      simp only
      rw [if_neg hpact, if_neg hguard]
    unfold entryOK at hent
    rw [hact] at hent
    simp only at hent
    split at h
    · rename_i hle
      rw [if_pos hle] at hent
      split at h
      · cases h
      · rename_i hninf
        simp only [Bool.or_eq_true] at hent
        rcases hent with h0 | h0
        · exact absurd h0 hninf
        · exact reduceK_ok hrec _ _ _ _ _ _ _ _ _ _ hinv h0 h
    · rename_i hle
      rw [if_neg hle] at hent
      unfold shiftOK at hent
      simp only [Bool.and_eq_true] at hent
      obtain ⟨⟨hedge, hstos⟩, hcase⟩ := hent
      have hedge := edgeB_mem hedge
      have hstos : stosN E.P (E.P.table.get (E.P.pact.get state + ↑(translateTok E.P t)).toNat).toNat =
          translateTok E.P t := Nat.eq_of_beq_eq_true hstos
      split at hcase
      · -- the end marker is shifted: the stack is `[state, 0]` and `state` is accessed by `configuration`
        rename_i htok0
        have htok0 : translateTok E.P t = 0 := Nat.eq_of_beq_eq_true htok0
        simp only [Bool.and_eq_true] at hcase
        obtain ⟨⟨⟨hq, hconf⟩, hp0⟩, hall⟩ := hcase
        have hq := Nat.eq_of_beq_eq_true hq
        have hconf : stosN E.P state = configuration := Nat.eq_of_beq_eq_true hconf
        have hp0 : state ≠ 0 := not_beq hp0
        rw [hq] at h
        have hs' := hdone _ _ _ _ _ _ h
        refine ⟨[], Or.inr ⟨htok0, rfl, hs'⟩, ?_⟩
        have hpath := hinv.1
        cases hpath with
        | base => exact absurd rfl hp0
        | push p _ v1 _ rest1 trees1 T h1 he hv hsym =>
          have hp : p = 0 := Nat.eq_of_beq_eq_true (all_pred (f := fun x => Nat.beq x 0) hall he)
          subst hp
          obtain ⟨_, htr⟩ := h1.bottom F
          subst htr
          refine ⟨T, hv, hsym.trans hconf, ?_⟩
          simp [kinds, yieldList]
      · rename_i htok0
        have htok0 : translateTok E.P t ≠ 0 := fun h0 => htok0 (by rw [h0]; rfl)
        have hq := not_beq hcase
        have g := hrec _ _ _ _ _ _ (Tree.leaf (translateTok E.P t) :: trees) h (by
          refine ⟨PathOK.push _ _ _ _ _ _ _ hinv.1 hedge ?_ ?_, ?_⟩
          · rw [Tree.Valid]
            have := translateTok_lt F t
            rw [F.ntok] at this
            simp only [isTerminal, this, decide_true]
          · exact hstos.symm
          · exact hq)
        obtain ⟨toks, hrem, hder⟩ := g
        refine ⟨(t, v) :: toks, Or.inl ⟨htok0, toks, rfl, hrem⟩, ?_⟩
        rw [yield_shift, List.append_assoc] at hder
        exact hder

theorem fetchK_some (E : ParserEnv) (l : Nat × TokVal) (s : ScanState) (ctx : ParseCtx) :
    fetchK E (some l) s ctx = (s, some l, none, ctx) := rfl

theorem bodyK_ok {E : ParserEnv} {ed : List (Nat × Nat)} {rec : PRec} (F : Facts E.P ed)
    (hnz : TokNZ E) (hrec : RecOK E ed rec) (hdone : RecDone E rec) : RecOK E ed (bodyK E rec) := by
  intro stack la s ctx s' ctx' trees h hinv
  cases stack with
  | nil => cases hinv.1
  | cons top rest =>
    obtain ⟨state, v0⟩ := top
    rw [bodyK_cons] at h
    split at h
    · cases h
    split at h
    · rename_i hfin
      exact absurd (by simpa using hfin) hinv.2
    split at h
    · exact dfltK_ok F hrec _ _ _ _ _ _ _ _ _ hinv h
    rename_i hpact
    cases la with
    | some l =>
      obtain ⟨t, v⟩ := l
      rw [fetchK_some] at h
      exact actK_ok F hrec hdone _ _ _ _ _ _ _ _ _ _ hinv hpact h
    | none =>
      unfold fetchK at h
      simp only at h
      rcases hy : yylex E.T E.sacts E.w E.ic E.lexFuel s with ⟨s1, o⟩
      rw [hy] at h
      cases o with
      | tok t v =>
        simp only at h
        obtain ⟨toks, hrem, hder⟩ := actK_ok F hrec hdone _ _ _ _ _ _ _ _ _ _ hinv hpact h
        rcases hrem with ⟨_, rest', hr1, hr2⟩ | ⟨h0, _, _⟩
        · exact ⟨toks, by rw [hr1]; exact Lexes.tok _ _ _ _ _ _ hy hr2, hder⟩
        · exact absurd h0 ((hnz s s1).1 t v hy)
      | eof =>
        simp only at h
        obtain ⟨toks, hrem, hder⟩ := actK_ok F hrec hdone _ _ _ _ _ _ _ _ _ _ hinv hpact h
        rcases hrem with ⟨h0, _⟩ | ⟨_, hr1, hr2⟩
        · exact absurd rfl h0
        · exact ⟨toks, by rw [hr1, hr2]; exact Lexes.eof _ _ hy, hder⟩
      | includeError t text file line =>
        simp only at h
        obtain ⟨toks, hrem, hder⟩ := actK_ok F hrec hdone _ _ _ _ _ _ _ _ _ _ hinv hpact h
        rcases hrem with ⟨_, rest', hr1, hr2⟩ | ⟨h0, _, _⟩
        · exact ⟨toks, by rw [hr1]; exact Lexes.incl _ _ _ _ _ _ _ _ hy hr2, hder⟩
        · exact absurd h0 ((hnz s s1).2 t text file line hy)
      | echo b => simp only at h; cases h
      | outOfFuel => simp only at h; cases h

theorem bodyK_done (E : ParserEnv) (rec : PRec) : RecDone E (bodyK E rec) := by
  intro v rest s ctx s' ctx' h
  rw [bodyK_cons] at h
  split at h
  · cases h
  · simp only [beq_self_eq_true, if_true] at h
    cases h
    rfl

theorem loop_ok {E : ParserEnv} {ed : List (Nat × Nat)} (F : Facts E.P ed) (hnz : TokNZ E) :
    ∀ fuel, RecOK E ed (yyparseLoop E fuel) ∧ RecDone E (yyparseLoop E fuel) := by
  intro fuel
  induction fuel with
  | zero =>
    refine ⟨?_, ?_⟩
    · intro stack la s ctx s' ctx' trees h; cases h
    · intro v rest s ctx s' ctx' h; cases h
  | succ fuel ih =>
    have e : yyparseLoop E (fuel + 1) = bodyK E (yyparseLoop E fuel) := by
      funext stack la s ctx; exact yyparseLoop_succ E fuel stack la s ctx
    rw [e]
    exact ⟨bodyK_ok F hnz ih.1 ih.2, bodyK_done E _⟩

/-- soundness of `yyparse` for any environment whose tables pass the static check -/
theorem yyparse_sound {E : ParserEnv} {ed : List (Nat × Nat)} (hok : staticOK E.P ed = true)
    (hnz : TokNZ E) (fuel : Nat) (s₀ s' : ScanState) (ctx₀ ctx' : ParseCtx)
    (h : yyparse E fuel s₀ ctx₀ = (s', ctx', .accept)) :
    ∃ toks, Lexes E s₀ toks s' ∧ Derivable (kinds E.P toks) := by
  have F := facts_of_static hok
  obtain ⟨toks, hrem, hder⟩ := (loop_ok F hnz fuel).1 _ _ _ _ _ _ [] h
    ⟨PathOK.base _, fun h0 => F.final_ne h0.symm⟩
  exact ⟨toks, hrem, by simpa [yieldList] using hder⟩

/-! ### the scanner's token numbers -/

/-- no token number mentioned by a scanner action translates to the end marker -/
def actTokOK (P : LalrTables) : ScanAct → Bool
  | .endString t => translateTok P t != 0
  | .includeDirective e => translateTok P e != 0
  | .tok t => translateTok P t != 0
  | .tokBool t _ => translateTok P t != 0
  | .tokName t => translateTok P t != 0
  | .tokFloat t e => translateTok P t != 0 && translateTok P e != 0
  | .tokInteger t32 t64 e => translateTok P t32 != 0 && translateTok P t64 != 0 && translateTok P e != 0
  | .tokInteger64 t e => translateTok P t != 0 && translateTok P e != 0
  | .tokHex t e => translateTok P t != 0 && translateTok P e != 0
  | .tokHex64 t e => translateTok P t != 0 && translateTok P e != 0
  | _ => true

def outOK (P : LalrTables) : LexOut → Prop
  | .tok t _ => translateTok P t ≠ 0
  | .includeError t _ _ _ => translateTok P t ≠ 0
  | _ => True

theorem numericTok_ok (P : LalrTables) (a : ScanAct) (text : Bytes) (ha : actTokOK P a = true)
    (hnum : match a with
      | .tokFloat .. | .tokInteger .. | .tokInteger64 .. | .tokHex .. | .tokHex64 .. => True
      | _ => False) :
    translateTok P (numericTok a text).1 ≠ 0 := by
  cases a <;> simp only at hnum
  all_goals
    simp only [actTokOK, Bool.and_eq_true, bne_iff_ne, ne_eq] at ha
    unfold numericTok
    simp only
    repeat' split
    all_goals first | exact ha.1 | exact ha.2 | exact ha.1.1 | exact ha.1.2

theorem yylex_outOK (P : LalrTables) (T : FlexTables) (acts : List ScanAct) (w : World) (ic : IncludeCfg)
    (hacts : ∀ rule, actTokOK P (acts.getD rule .unknown) = true)
    (herr : translateTok P Generated.tokens.error ≠ 0) :
    ∀ (fuel : Nat) (s : ScanState), outOK P (yylex T acts w ic fuel s).2 := by
  intro fuel
  induction fuel with
  | zero => intro s; rw [yylex]; trivial
  | succ fuel ih =>
    intro s
    rw [yylex]
    split
    · split
      · trivial
      · split
        split
        · exact ih _
        · split
          · exact herr
          · exact ih _
    · rename_i rule len hnext
      extract_lets text lineno bol s'
      clear_value s'
      have ha := hacts rule
      split
      all_goals try exact ih _
      all_goals try trivial
      · rename_i heq; rw [heq] at ha
        show translateTok P _ ≠ 0
        simpa [actTokOK] using ha
      · rename_i path s2 _ errTok heq
        rw [heq] at ha
        have he : translateTok P errTok ≠ 0 := by simpa [actTokOK] using ha
        clear_value s2 path
        split
        · exact he
        split
        · exact he
        · exact ih _
        · exact ih _
        · extract_lets s1
          split
          split
          · exact ih _
          · exact he
      · rename_i heq; rw [heq] at ha
        show translateTok P _ ≠ 0
        simpa [actTokOK] using ha
      · rename_i heq; rw [heq] at ha
        show translateTok P _ ≠ 0
        simpa [actTokOK] using ha
      · rename_i heq; rw [heq] at ha
        show translateTok P _ ≠ 0
        simpa [actTokOK] using ha
      all_goals
        rename_i heq
        rw [heq] at ha
        rw [heq]
        exact numericTok_ok P _ text ha trivial

theorem scanActions_ok : Generated.scanActions.all (actTokOK Generated.parser) = true := by
  decide +kernel

theorem tokNZ_theEnv (w : World) (c : Config) (fuel : Nat) : TokNZ (theEnv w c fuel) := by
  have hacts : ∀ rule, actTokOK Generated.parser (Generated.scanActions.getD rule .unknown) = true := by
    intro rule
    rw [List.getD_eq_getElem?_getD]
    cases hr : Generated.scanActions[rule]? with
    | none => rfl
    | some a => exact List.all_eq_true.mp scanActions_ok a (List.mem_of_getElem? hr)
  have herr : translateTok Generated.parser Generated.tokens.error ≠ 0 := by decide +kernel
  intro s s₁
  have h := yylex_outOK Generated.parser Generated.scanner Generated.scanActions w
    { fn := c.includeFn, dir := c.includeDir } hacts herr fuel s
  refine ⟨?_, ?_⟩
  · intro t v hy
    have hy' : yylex Generated.scanner Generated.scanActions w { fn := c.includeFn, dir := c.includeDir }
      fuel s = (s₁, .tok t v) := hy
    rw [hy'] at h; exact h
  · intro t text file line hy
    have hy' : yylex Generated.scanner Generated.scanActions w { fn := c.includeFn, dir := c.includeDir }
      fuel s = (s₁, .includeError t text file line) := hy
    rw [hy'] at h; exact h

end Libconfig.C02P
