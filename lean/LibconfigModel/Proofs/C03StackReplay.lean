import LibconfigModel.Proofs.C03StackInv
/-
  C03S, part 5: the integer shadow of `BisonStack.lean`, for kernel-evaluated replays at the
  constants of grammar.c.

  The control flow of the stack code never looks at what the slots hold.  `Ctl` keeps the
  integers only — where the stacks are, `yystacksize`, the number of slots of the two arrays,
  the two offsets, the status, the number of allocations and (newest first) the number of slots
  of every block `YYSTACK_ALLOC` has returned — and `Ctl.step` is `BisonStack.step` on them.
  `ctl_run` says that this shadow is exact for every execution; it costs a few arithmetic
  operations per event, so runs of `YYMAXDEPTH` events can be evaluated by the kernel (the lists
  of the full model cannot: each `List.set` is linear).
-/
namespace Libconfig.C03SP

open Libconfig Libconfig.BisonStack

variable {V : Type}

structure Ctl where
  loc : Blk
  stacksize : Nat
  /-- slots of the state array -/
  capS : Nat
  /-- slots of the value array -/
  capV : Nat
  ssp : Nat
  vsp : Nat
  status : Status
  nextId : Nat
  /-- slots of every block allocated so far, newest first -/
  sizes : List Nat
deriving Repr, DecidableEq

def allocSlots : Access → Option Nat
  | .alloc _ n => some n
  | .storeS _ _ _ => none
  | .storeV _ _ _ => none
  | .loadS _ _ _ _ => none
  | .loadV _ _ _ _ => none
  | .garbageV _ _ _ => none
  | .copyS _ _ _ _ _ => none
  | .copyV _ _ _ _ _ => none
  | .allocFail _ => none
  | .free _ => none

/-- the integers of a state -/
def ctlOf (s : State V) : Ctl :=
  { loc := s.loc, stacksize := s.stacksize, capS := s.ss.length, capV := s.vs.length, ssp := s.ssp,
    vsp := s.vsp, status := s.status, nextId := s.nextId, sizes := s.log.filterMap allocSlots }

def Ctl.cleanup : Nat → Ctl → Ctl
  | 0, c => c
  | fuel + 1, c =>
    if c.ssp = 0 then c else Ctl.cleanup fuel { c with ssp := c.ssp - 1, vsp := c.vsp - 1 }

def Ctl.returnLab (r : Result) (len : Nat) (c : Ctl) : Ctl :=
  if len > c.ssp then { c with status := .fault } else
  let c1 := { c with ssp := c.ssp - len, vsp := c.vsp - len }
  { Ctl.cleanup c1.ssp c1 with status := .done r }

def Ctl.growStack (P : Params) (ok : Bool) (c : Ctl) : Ctl :=
  let yysize := c.ssp + 1
  if P.M ≤ c.stacksize then Ctl.returnLab .nomem 0 c else
  let sz := if P.M < 2 * c.stacksize then P.M else 2 * c.stacksize
  if !ok then Ctl.returnLab .nomem 0 { c with stacksize := sz } else
  let c1 : Ctl :=
    { c with loc := .heap c.nextId, stacksize := sz, nextId := c.nextId + 1
             capS := min yysize c.capS + (sz - yysize), capV := min yysize c.capV + (sz - yysize)
             ssp := yysize - 1, vsp := yysize - 1, sizes := sz :: c.sizes }
  if P.test c1.stacksize c1.ssp then Ctl.returnLab .abort 0 c1 else c1

def Ctl.setState (P : Params) (ok : Bool) (c : Ctl) : Ctl :=
  if P.test c.stacksize c.ssp then Ctl.growStack P ok c else c

def Ctl.shiftStep (P : Params) (ok : Bool) (c : Ctl) : Ctl :=
  Ctl.setState P ok { c with vsp := c.vsp + 1, ssp := c.ssp + 1 }

def Ctl.reduceStep (P : Params) (n : Nat) (ok : Bool) (c : Ctl) : Ctl :=
  if n > c.ssp then { c with status := .fault } else
  Ctl.setState P ok { c with ssp := c.ssp - n + 1, vsp := c.vsp - n + 1 }

def Ctl.errPop : Nat → Ctl → Ctl
  | 0, c => c
  | k + 1, c =>
    if c.ssp = 0 then Ctl.returnLab .abort 0 c
    else Ctl.errPop k { c with ssp := c.ssp - 1, vsp := c.vsp - 1 }

def Ctl.step (P : Params) (c : Ctl) (e : Event V) : Ctl :=
  match c.status with
  | .running =>
    match e with
    | .shift _ _ ok => Ctl.shiftStep P ok c
    | .reduce n _ _ ok => Ctl.reduceStep P n ok c
    | .errPop k => Ctl.errPop k c
    | .finish r len => Ctl.returnLab r len c
  | _ => c

def Ctl.run (P : Params) (es : List (Event V)) (c : Ctl) : Ctl := es.foldl (Ctl.step P) c

/-! ### exactness -/

theorem as_storeS (b : Blk) (c i : Nat) : allocSlots (.storeS b c i) = none := rfl
theorem as_storeV (b : Blk) (c i : Nat) : allocSlots (.storeV b c i) = none := rfl
theorem as_loadS (b : Blk) (c i : Nat) (x : Bool) : allocSlots (.loadS b c i x) = none := rfl
theorem as_loadV (b : Blk) (c i : Nat) (x : Bool) : allocSlots (.loadV b c i x) = none := rfl
theorem as_garbageV (b : Blk) (c i : Nat) : allocSlots (.garbageV b c i) = none := rfl
theorem as_copyS (b : Blk) (c : Nat) (d : Blk) (e n : Nat) : allocSlots (.copyS b c d e n) = none := rfl
theorem as_copyV (b : Blk) (c : Nat) (d : Blk) (e n : Nat) : allocSlots (.copyV b c d e n) = none := rfl
theorem as_alloc (b : Blk) (n : Nat) : allocSlots (.alloc b n) = some n := rfl
theorem as_allocFail (n : Nat) : allocSlots (.allocFail n) = none := rfl
theorem as_free (b : Blk) : allocSlots (.free b) = none := rfl

theorem length_relocate' {α : Type} (old : List (Option α)) (n sz : Nat) :
    (relocate old n sz).length = min n old.length + (sz - n) := by
  unfold relocate
  rw [List.length_append, List.length_take, List.length_replicate]

theorem ctl_cleanup : ∀ (fuel : Nat) (s : State V), ctlOf (cleanup fuel s) = Ctl.cleanup fuel (ctlOf s) := by
  intro fuel
  induction fuel with
  | zero => intro s; rfl
  | succ fuel ih =>
    intro s
    rw [cleanup, Ctl.cleanup, apply_ite ctlOf, ih]
    rfl

/-- the end of `yyreturnlab` -/
def finishFree (r : Result) (t : State V) : State V :=
  match t.loc with
  | .auto => { t with status := .done r }
  | .heap id => { t with status := .done r, log := .free (.heap id) :: t.log }

theorem ctl_finishFree (r : Result) (t : State V) :
    ctlOf (finishFree r t) = { ctlOf t with status := .done r } := by
  unfold finishFree
  cases hl : t.loc with
  | auto =>
    simp only
    unfold ctlOf
    simp only [hl]
  | heap id =>
    simp only
    unfold ctlOf
    simp only [hl, List.filterMap_cons, as_free]

theorem ctl_returnLab (r : Result) (len : Nat) (s : State V) :
    ctlOf (returnLab r len s) = Ctl.returnLab r len (ctlOf s) := by
  have e : returnLab r len s =
      if len > s.ssp then { s with status := .fault }
      else finishFree r (cleanup (s.ssp - len) { s with ssp := s.ssp - len, vsp := s.vsp - len }) := rfl
  rw [e, apply_ite ctlOf, ctl_finishFree, ctl_cleanup]
  rfl

/-- the state behind the two `YYSTACK_RELOCATE`s and the release of the old block -/
def relocated (P : Params) (s : State V) : State V :=
  { s with loc := .heap s.nextId, stacksize := newSize P s.stacksize, nextId := s.nextId + 1
           ss := relocate s.ss (s.ssp + 1) (newSize P s.stacksize)
           vs := relocate s.vs (s.ssp + 1) (newSize P s.stacksize)
           ssp := s.ssp + 1 - 1, vsp := s.ssp + 1 - 1
           log := freeOf s.loc ++
             [.copyV s.loc s.vs.length (.heap s.nextId) (newSize P s.stacksize) (s.ssp + 1),
              .copyS s.loc s.ss.length (.heap s.nextId) (newSize P s.stacksize) (s.ssp + 1),
              .alloc (.heap s.nextId) (newSize P s.stacksize)] ++ s.log }

def Ctl.relocated (P : Params) (c : Ctl) : Ctl :=
  { c with loc := .heap c.nextId, stacksize := newSize P c.stacksize, nextId := c.nextId + 1
           capS := min (c.ssp + 1) c.capS + (newSize P c.stacksize - (c.ssp + 1))
           capV := min (c.ssp + 1) c.capV + (newSize P c.stacksize - (c.ssp + 1))
           ssp := c.ssp + 1 - 1, vsp := c.ssp + 1 - 1, sizes := newSize P c.stacksize :: c.sizes }

theorem ctl_relocated (P : Params) (s : State V) :
    ctlOf (relocated P s) = Ctl.relocated P (ctlOf s) := by
  unfold ctlOf relocated Ctl.relocated
  have hf : (freeOf s.loc).filterMap allocSlots = [] := by
    cases s.loc <;> rfl
  simp only [length_relocate', List.filterMap_append, List.filterMap_cons, List.filterMap_nil, hf,
    as_copyV, as_copyS, as_alloc, List.nil_append, List.cons_append]

/-- the state in which `YYNOMEM` is taken after `YYSTACK_ALLOC` has failed -/
def allocFailed (P : Params) (s : State V) : State V :=
  { s with stacksize := newSize P s.stacksize
           log := .allocFail (newSize P s.stacksize) :: s.log }

theorem growStack_eq (P : Params) (ok : Bool) (s : State V) :
    growStack P ok s =
      if P.M ≤ s.stacksize then returnLab .nomem 0 s
      else if !ok then returnLab .nomem 0 (allocFailed P s)
      else if P.test (relocated P s).stacksize (relocated P s).ssp then returnLab .abort 0 (relocated P s)
      else relocated P s := by
  unfold growStack relocated
  simp only
  split
  · rfl
  · split
    · rfl
    · cases s.loc <;> rfl

theorem ctl_growStack (P : Params) (ok : Bool) (s : State V) :
    ctlOf (growStack P ok s) = Ctl.growStack P ok (ctlOf s) := by
  rw [growStack_eq]
  simp only [apply_ite ctlOf, ctl_returnLab, ctl_relocated]
  have e : ctlOf (allocFailed P s) = { ctlOf s with stacksize := newSize P s.stacksize } := by
    unfold ctlOf allocFailed
    simp only [List.filterMap_cons, as_allocFail]
  rw [e]
  have e2 : (relocated P s).stacksize = (Ctl.relocated P (ctlOf s)).stacksize := rfl
  have e3 : (relocated P s).ssp = (Ctl.relocated P (ctlOf s)).ssp := rfl
  rw [e2, e3]
  rfl

theorem ctl_setState (P : Params) (st : Nat) (ok : Bool) (s : State V) :
    ctlOf (setState P st ok s) =
      Ctl.setState P ok (ctlOf s) := by
  have e : ctlOf (stored st s) = ctlOf s := by
    unfold ctlOf stored
    simp only [List.length_set, List.filterMap_cons, as_storeS]
  have hs : setState P st ok s =
      if P.test s.stacksize s.ssp then growStack P ok (stored st s) else stored st s := rfl
  rw [hs, apply_ite ctlOf, ctl_growStack, e]
  rfl

theorem ctl_shiftStep (P : Params) (st : Nat) (v : V) (ok : Bool) (s : State V) :
    ctlOf (shiftStep P st v ok s) = Ctl.shiftStep P ok (ctlOf s) := by
  rw [shiftStep_eq, ctl_setState]
  unfold Ctl.shiftStep
  congr 1
  unfold ctlOf pushed
  simp only [List.length_set, List.filterMap_cons, as_storeV]

theorem allocSlots_preload (n : Nat) (s : State V) : allocSlots (preload n s) = none := by
  unfold preload
  split <;> rfl

theorem ctl_reduceStep (P : Params) (n st : Nat) (v : V) (ok : Bool) (s : State V) :
    ctlOf (reduceStep P n st v ok s) = Ctl.reduceStep P n ok (ctlOf s) := by
  by_cases hn : n > s.ssp
  · have hn' : n > (ctlOf s).ssp := hn
    unfold reduceStep Ctl.reduceStep
    rw [if_pos hn, if_pos hn']
    rfl
  · have hn' : ¬ n > (ctlOf s).ssp := hn
    rw [reduceStep_eq P n st v ok s (by omega), ctl_setState]
    unfold Ctl.reduceStep
    rw [if_neg hn']
    congr 1
    unfold ctlOf pushed popped
    simp only [List.length_set, List.filterMap_cons, List.filterMap_append, List.filterMap_nil,
      as_loadS, as_storeV, allocSlots_preload, List.nil_append]

theorem ctl_errPop : ∀ (k : Nat) (s : State V), ctlOf (errPop k s) = Ctl.errPop k (ctlOf s) := by
  intro k
  induction k with
  | zero => intro s; rfl
  | succ k ih =>
    intro s
    rw [errPop, Ctl.errPop]
    show ctlOf (if s.ssp = 0 then _ else _) = if s.ssp = 0 then _ else _
    split
    · exact ctl_returnLab _ _ _
    · rw [ih]
      rfl

theorem ctl_step (P : Params) (s : State V) (e : Event V) :
    ctlOf (step P s e) = Ctl.step P (ctlOf s) e := by
  unfold step Ctl.step
  show ctlOf (match s.status with | .running => _ | _ => s) = match s.status with | .running => _ | _ => ctlOf s
  cases hs : s.status with
  | running =>
    simp only
    cases e with
    | shift st v ok => exact ctl_shiftStep P st v ok s
    | reduce n st v ok => exact ctl_reduceStep P n st v ok s
    | errPop k => exact ctl_errPop k s
    | finish r len => exact ctl_returnLab r len s
  | done r => rfl
  | fault => rfl

/-- **The shadow is exact**: the integers of the state after any execution are what the integer
machine computes from the integers of the start state. -/
theorem ctl_run (P : Params) : ∀ (es : List (Event V)) (s : State V),
    ctlOf (run P es s) = Ctl.run P es (ctlOf s)
  | [], _ => rfl
  | e :: es, s => by
    show ctlOf (run P es (step P s e)) = Ctl.run P es (Ctl.step P (ctlOf s) e)
    rw [ctl_run P es, ctl_step]

/-- the integers after the declarations of `yyparse` and the first `yysetstate` -/
def Ctl.init (P : Params) (ok : Bool) : Ctl :=
  Ctl.setState P ok
    { loc := .auto, stacksize := P.I, capS := P.I, capV := P.I, ssp := 0, vsp := 0, status := .running,
      nextId := 0, sizes := [] }

theorem ctl_init (P : Params) (ok : Bool) : ctlOf (init P ok : State V) = Ctl.init P ok := by
  unfold init Ctl.init
  rw [ctl_setState]
  congr 1
  unfold ctlOf start
  simp

end Libconfig.C03SP
