import LibconfigModel.Proofs.C09LineSim2
import LibconfigModel.Proofs.C10ProvSim
/-
  C10P (provenance of the tree), the simulation, part 2 — the accepting half of
  Proofs/C09LineSim2.lean with the tree kept exactly: opening an aggregate (the mid-rule actions
  `$@2`, `$@3`, `$@4` run by default reduction right after the bracket: that is the position a new
  element records), the three statements, and values.  `sim_setting_end` of
  Proofs/C09LineSim2.lean is reused as it is.
-/
namespace Libconfig.C10Prov
open Libconfig C02P C05P C02C C01PP C04 C04R Denote C02D C09L

section
variable {E : ParserEnv} {pos : Nat → ScanState} {o : Options}

/-! ### opening an aggregate -/

/-- the opening bracket of an aggregate: shift it, run the mid-rule action that creates the
aggregate (or gives the fresh member its type) and moves `ctx->parent` down — in the scan state
right after the bracket -/
theorem sim_openP (hE : Compiled E) {q : Nat} (hqf : q ≠ 6) {opn : Denote.Item}
    {k s1 s2 r lhs ty : Nat}
    {act : ParseAct} (hkc : ∀ k', KindRel opn k' → k' = k) (hsh : actAt P q k = some (s1 : Int))
    (hs0 : 0 < s1) (hsf : s1 ≠ 6) (hred : ∀ k' < 23, redOK P s1 k' r = true)
    (hrule : RuleIs r lhs 0 act) (hninf : P.pact.get s1 = P.pactNinf)
    (hact : ∀ ctx v l f, runAction act ctx v l f = actAggStart ctx ty l f) (hty : ty ≤ 8)
    (hgoto : gotoTo P s1 lhs = s2)
    {vq : TokVal} {stk : List (Nat × TokVal)} {la : Lookahead} {sc : ScanState} {ctx : ParseCtx}
    {K : Node → Node} {pp : Path} {pn : Node} {st : Option Path} {pre : List Node}
    {nm : Option Bytes} {mk : Option Nat} {rest : List Denote.Item}
    (hek : elemKey (opn :: rest) = rest.length + 1)
    (hd : stk.length + 3 < 10000) (hI : InpJ E pos la sc (opn :: rest))
    (hV : View ctx K pp pn none st) (hS : SlotP st pp pn pre nm (mk.map (stampAt pos)))
    (hna : pn.ty ≠ T_ARRAY) (hinv : Inv true o ctx) :
    ∃ la' sc' ctx' vv v1 st', Reaches E ⟨(q, vq) :: stk, la, sc, ctx⟩
        ⟨(s2, vv) :: (s1, v1) :: (q, vq) :: stk, la', sc', ctx'⟩ ∧
      InpJ E pos la' sc' rest ∧
      View ctx' (fun y => K { pn with kids := pre ++ [y] }) (pp ++ [pre.length])
        (stamped { name := nm, ty := ty } (stampAt pos (keyOf mk (opn :: rest)))) none st' ∧
      Inv true o ctx' := by
  obtain ⟨t, v, ks, hin, hlen, hkr, _, _, hcont⟩ := hI.popL
  obtain ⟨sc1, ctx1, hR1, hI1, hS1⟩ := pshiftQ hE (v0 := vq) (rest := stk) (ctx := ctx)
    (by omega) hqf (hkc _ hkr) hsh hs0 hin
  have hsc1 : sc1 = pos (elemKey (opn :: rest)) := by rw [hI1.here, hlen, hek]
  obtain ⟨t', v', ks', hin', hk23, _, hrest⟩ := (hcont _ _ hI1).peek
  obtain ⟨la2, sc2, ctx2, vv2, hR2, hI2, ⟨st2, hV2⟩, hinv2⟩ := preduceP_here hE
    (Post := fun c2 => ∃ st', View c2 (fun y => K { pn with kids := pre ++ [y] })
      (pp ++ [pre.length])
      (stamped { name := nm, ty := ty } (stampAt pos (keyOf mk (opn :: rest)))) none st')
    (pushed := []) (p := s1) (vp := v) (rest := (q, vq) :: stk) rfl rfl (by dp)
    hsf (hred _ hk23) hrule rfl hgoto hninf hin' (hinv.of_same hS1)
    (fun ctx₁ hs => by
      rw [hact, hsc1]
      obtain ⟨c2, st', h1, h2⟩ := act_aggStartP ((hV.of_same hS1.sem).of_same hs.sem) hS hna
        ty hty (pos (elemKey (opn :: rest))).buf.lineno (pos (elemKey (opn :: rest))).currentFilename
      rw [slotStamp_key] at h2
      exact ⟨c2, h1, st', h2⟩)
  exact ⟨la2, sc2, ctx2, vv2, v, st2, hR1.trans hR2, hrest _ _ hI2, hV2, hinv2⟩

/-! ### the three statements -/

/-- VALUE: in a place for a value, in front of the items of a value, the loop arrives with
`value` pushed and the slot filled with exactly the node the stamped interpreter builds -/
def ValueSimP (E : ParserEnv) (pos : Nat → ScanState) (o : Options) (fuel : Nat) : Prop :=
  ∀ (nm : Option Bytes) (mk : Option Nat) (items : List Denote.Item) (q qv : Nat)
    (stk : List (Nat × TokVal))
    (ex : List Nat) (vq : TokVal) (la : Lookahead) (sc : ScanState) (ctx : ParseCtx)
    (K : Node → Node) (pp : Path) (pn : Node) (st : Option Path) (pre : List Node) (d : Nat),
    VCtx q qv stk ex → items.length < fuel → stk.length + 1 ≤ 6 * d + 5 →
    InpJ E pos la sc items → View ctx K pp pn none st →
    SlotP st pp pn pre nm (mk.map (stampAt pos)) → pn.ty ≠ T_ARRAY → Inv true o ctx →
    nestingFrom d items ≤ 1665 →
    SimP E ⟨(q, vq) :: stk, la, sc, ctx⟩ (valueP (stampAt pos) o fuel nm mk items)
      (AfterValueP E pos o qv q vq stk K pp pn pre d)

/-- LIST REST: after an element of a list, up to and including the closing parenthesis -/
def ListRestSimP (E : ParserEnv) (pos : Nat → ScanState) (o : Options) (fuel : Nat) : Prop :=
  ∀ (acc : List Node) (items : List Denote.Item) (q qv : Nat), ValCtx q qv →
    ∀ (v36 v26 v17 vq : TokVal) (stk : List (Nat × TokVal)) (la : Lookahead) (sc : ScanState)
      (ctx : ParseCtx) (K : Node → Node) (pp : Path) (pn : Node) (pre : List Node) (a : Node)
      (st : Option Path) (d : Nat),
    items.length < fuel → stk.length + 1 ≤ 6 * d + 5 → InpJ E pos la sc items → Hole K pp →
    View ctx (fun y => K { pn with kids := pre ++ [y] }) (pp ++ [pre.length]) a none st →
    a.ty = T_LIST → a.kids = acc → Inv true o ctx →
    nestingFrom (d + 1) items ≤ 1665 →
    SimP E ⟨(36, v36) :: (26, v26) :: (17, v17) :: (q, vq) :: stk, la, sc, ctx⟩
      (listRestP (stampAt pos) o fuel acc items)
      (fun elems rest b => AfterValueP E pos o qv q vq stk K pp pn pre d { a with kids := elems }
        rest b)

/-- the configuration after the settings of a group have been read: the bottom of the group's
stack segment, possibly with `setting_list` on top -/
def AfterSettingsP (E : ParserEnv) (pos : Nat → ScanState) (o : Options) (q0 q1 : Nat) (v0 : TokVal)
    (stk0 : List (Nat × TokVal)) (K : Node → Node) (pp : Path) (pn : Node) (d : Nat)
    (members : List Node) (rest : List Denote.Item) (b : MC) : Prop :=
  ∃ stkS la sc ctx st', b = ⟨stkS, la, sc, ctx⟩ ∧
    (stkS = (q0, v0) :: stk0 ∨ ∃ v1, stkS = (q1, v1) :: (q0, v0) :: stk0) ∧
    InpJ E pos la sc rest ∧ View ctx K pp { pn with kids := members } none st' ∧
    Inv true o ctx ∧ nestingFrom d rest ≤ 1665 ∧
    ∀ nm r', rest ≠ .name nm :: r'

/-- SETTINGS: the settings of a group (or of the configuration) -/
def SettingsSimP (E : ParserEnv) (pos : Nat → ScanState) (o : Options) (fuel : Nat) : Prop :=
  ∀ (members : List Node) (items : List Denote.Item) (q0 q1 : Nat), MemCtx q0 q1 →
    ∀ (v0 : TokVal) (stk0 stkS : List (Nat × TokVal)) (la : Lookahead) (sc : ScanState)
      (ctx : ParseCtx) (K : Node → Node) (pp : Path) (pn : Node) (st : Option Path)
      (d : Nat),
    (stkS = (q0, v0) :: stk0 ∨ ∃ v1, stkS = (q1, v1) :: (q0, v0) :: stk0) →
    items.length < fuel → stk0.length + 1 ≤ 6 * d + 1 → InpJ E pos la sc items →
    View ctx K pp pn none st → pn.ty = T_GROUP → pn.kids = members →
    Inv true o ctx → nestingFrom d items ≤ 1665 →
    SimP E ⟨stkS, la, sc, ctx⟩ (settingsP (stampAt pos) o fuel members items)
      (AfterSettingsP E pos o q0 q1 v0 stk0 K pp pn d)

/-! ### values -/

theorem value_stepP (hE : Compiled E) (fuel : Nat) (ihv : ValueSimP E pos o fuel)
    (ihl : ListRestSimP E pos o fuel) (ihs : SettingsSimP E pos o fuel) :
    ValueSimP E pos o (fuel + 1) := by
  intro nm mk items q qv stk ex vq la sc ctx K pp pn st pre d hX hf hd hI hV hS hna hinv hnest
  have hC := hX.val
  have hd0 : d ≤ 1665 := Nat.le_trans (le_nestingFrom _ _) hnest
  cases valueView items with
  | arrNil r' =>
    rw [valueP_arr_nil]
    obtain ⟨la1, sc1, ctx1, vv1, v1, st1, hR1, hI1, hV1, hinv1⟩ := sim_openP hE
      (vq := vq) (stk := stk) hC.scal.notFinal (opn := .arrayStart) (k := 13) (fun _ h => h)
      hC.arrayStart (by decide)
      (by decide) red_16 rule_13 ninf_16 (ty := T_ARRAY) (fun _ _ _ _ => rfl) (by decide) go_16_M2
      rfl (by omega) hI hV hS hna hinv
    -- `simple_value_list_optional:` empty
    obtain ⟨t, v, ks, hin, hk23, hn, hrest⟩ := hI1.peek
    obtain ⟨la2, sc2, ctx2, vv2, hR2, hI2, hS2⟩ := preduce0Q hE (ctx := ctx1)
      (pushed := []) (p := 25) (vp := vv1) (rest := (16, v1) :: (q, vq) :: stk)
      rfl rfl (by dp) (by decide)
      (red_25 _ hk23 (scalStart_of_hk hk23 hn (by simp [hk]))) rule_38 rfl go_25_svlo hin
    -- `]`
    obtain ⟨la3, sc3, ctx3, vv3, st3, hR3, hI3, hV3, hinv3⟩ := sim_close hE hC.gValue
      (close := .arrayEnd) (k := 14) (fun _ h => h) sh_34_arrayEnd (by decide) (by decide)
      (by decide) (by decide) red_41 rule_14 hC.gArray red_19 rule_18
      (v3 := vv2) (v2 := vv1) (v1 := v1) (vq := vq) (stk := stk)
      (by omega) hV.hole (hV1.of_same hS2.sem) (hinv1.of_same hS2) (hrest _ _ hI2)
    refine ⟨_, (hR1.trans hR2).trans hR3, la3, sc3, ctx3, vv3, rfl, hI3, ⟨st3, hV3⟩, hinv3, ?_⟩
    refine Nat.le_trans ?_ hnest
    exact Nat.le_trans (nesting_close (.inl rfl)) (nesting_open (.inl rfl))
  | arr rest' hne =>
    rw [valueP_arr _ _ _ _ _ _ hne]
    have hnest1 : nestingFrom (d + 1) rest' ≤ 1665 := Nat.le_trans (nesting_open (.inl rfl)) hnest
    have hd1 : d + 1 ≤ 1665 := Nat.le_trans (le_nestingFrom _ _) hnest1
    obtain ⟨la1, sc1, ctx1, vv1, v1, st1, hR1, hI1, hV1, hinv1⟩ := sim_openP hE
      (vq := vq) (stk := stk) hC.scal.notFinal (opn := .arrayStart) (k := 13) (fun _ h => h)
      hC.arrayStart (by decide)
      (by decide) red_16 rule_13 ninf_16 (ty := T_ARRAY) (fun _ _ _ _ => rfl) (by decide) go_16_M2
      rfl (by omega) hI hV hS hna hinv
    cases hs : scalarP (stampAt pos) none none rest' with
    | none => trivial
    | some p =>
      obtain ⟨x, rest''⟩ := p
      simp only
      obtain ⟨x0, hs0, _⟩ := scalarP_some hs
      obtain ⟨la2, sc2, ctx2, vv2, hR2, hI2, ⟨st2, hV2⟩, hinv2⟩ := sim_scalarP (o := o) hE scal_25 hs
        (vq := vv1) (stk := (16, v1) :: (q, vq) :: stk) (by dp) hI1 hV1
        (SlotP.elem (.inr rfl) rfl rfl) hinv1 (fun _ => rfl)
      -- `simple_value_list: simple_value`
      obtain ⟨t3, v3, ks3, hin3, hk23, _, hrest3⟩ := hI2.peek
      obtain ⟨la3, sc3, ctx3, vv3, hR3, hI3, hS3⟩ := preduce0Q hE (ctx := ctx2)
        (pushed := [(32, vv2)]) (p := 25) (vp := vv1) (rest := (16, v1) :: (q, vq) :: stk)
        rfl rfl (by dp) (by decide) (red_32 _ hk23) rule_35 rfl go_25_svl hin3
      have harr := sim_arrayRestP (o := o) hE hC x.ty fuel [x] rest'' vv3 vv1 v1 vq stk la3 sc3 ctx3
        K pp pn pre
        (stamped { name := nm, ty := T_ARRAY, kids := [x] }
          (stampAt pos (keyOf mk (.arrayStart :: rest')))) st2 d
        (by
          have := scalar_length hs0
          simp only [List.length_cons] at hf; omega)
        hd (hrest3 _ _ hI3) hV.hole (hV2.of_same hS3.sem) rfl rfl ⟨x, [], rfl, rfl⟩
        (hinv2.of_same hS3)
        (by rw [scalar_nesting _ hs0]; exact hnest1)
      refine SimP.of_reaches ((hR1.trans hR2).trans hR3) ?_
      cases har : arrayRestP (stampAt pos) x.ty fuel [x] rest'' with
      | error k => trivial
      | ok elems rest3 => rw [har] at harr; exact harr
  | lstNil r' =>
    rw [valueP_lst_nil]
    obtain ⟨la1, sc1, ctx1, vv1, v1, st1, hR1, hI1, hV1, hinv1⟩ := sim_openP hE
      (vq := vq) (stk := stk) hC.scal.notFinal (opn := .listStart) (k := 15) (fun _ h => h)
      hC.listStart (by decide)
      (by decide) red_17 rule_15 ninf_17 (ty := T_LIST) (fun _ _ _ _ => rfl) (by decide) go_17_M3
      rfl (by omega) hI hV hS hna hinv
    -- `value_list_optional:` empty
    obtain ⟨t, v, ks, hin, hk23, hn, hrest⟩ := hI1.peek
    obtain ⟨la2, sc2, ctx2, vv2, hR2, hI2, hS2⟩ := preduce0Q hE (ctx := ctx1)
      (pushed := []) (p := 26) (vp := vv1) (rest := (17, v1) :: (q, vq) :: stk)
      rfl rfl (by dp) (by decide)
      (red_26 _ hk23 (valStart_of_hk hk23 hn rfl)) rule_33 rfl go_26_vlo hin
    -- `)`
    obtain ⟨la3, sc3, ctx3, vv3, st3, hR3, hI3, hV3, hinv3⟩ := sim_close hE hC.gValue
      (close := .listEnd) (k := 16) (fun _ h => h) sh_37_listEnd (by decide) (by decide)
      (by decide) (by decide) red_43 rule_16 hC.gList red_20 rule_19
      (v3 := vv2) (v2 := vv1) (v1 := v1) (vq := vq) (stk := stk)
      (by omega) hV.hole (hV1.of_same hS2.sem) (hinv1.of_same hS2) (hrest _ _ hI2)
    refine ⟨_, (hR1.trans hR2).trans hR3, la3, sc3, ctx3, vv3, rfl, hI3, ⟨st3, hV3⟩, hinv3, ?_⟩
    refine Nat.le_trans ?_ hnest
    exact Nat.le_trans (nesting_close (.inr (.inl rfl))) (nesting_open (.inr (.inl rfl)))
  | lst rest' hne =>
    rw [valueP_lst _ _ _ _ _ _ hne]
    have hnest1 : nestingFrom (d + 1) rest' ≤ 1665 :=
      Nat.le_trans (nesting_open (.inr (.inl rfl))) hnest
    have hd1 : d + 1 ≤ 1665 := Nat.le_trans (le_nestingFrom _ _) hnest1
    obtain ⟨la1, sc1, ctx1, vv1, v1, st1, hR1, hI1, hV1, hinv1⟩ := sim_openP hE
      (vq := vq) (stk := stk) hC.scal.notFinal (opn := .listStart) (k := 15) (fun _ h => h)
      hC.listStart (by decide)
      (by decide) red_17 rule_15 ninf_17 (ty := T_LIST) (fun _ _ _ _ => rfl) (by decide) go_17_M3
      rfl (by omega) hI hV hS hna hinv
    -- the first element
    have h1 := ihv none none rest' 26 35 ((17, v1) :: (q, vq) :: stk) [16] vv1 la1 sc1 ctx1 _ _ _
      st1 [] (d + 1) (.first _) (by simp only [List.length_cons] at hf; omega) (by dp) hI1
      hV1 (SlotP.elem (.inl rfl) rfl rfl) (by show T_LIST ≠ T_ARRAY; decide) hinv1 hnest1
    cases hv : valueP (stampAt pos) o fuel none none rest' with
    | error k => trivial
    | ok x rest1 =>
      rw [hv] at h1
      simp only
      obtain ⟨b, hR2, la2, sc2, ctx2, vv2, rfl, hI2, ⟨st2, hV2⟩, hinv2, hnest2⟩ := h1
      -- `value_list: value`
      obtain ⟨t3, v3, ks3, hin3, hk23, _, hrest3⟩ := hI2.peek
      obtain ⟨la3, sc3, ctx3, vv3, hR3, hI3, hS3⟩ := preduce0Q hE (ctx := ctx2)
        (pushed := [(35, vv2)]) (p := 26) (vp := vv1) (rest := (17, v1) :: (q, vq) :: stk)
        rfl rfl (by dp) (by decide) (red_35 _ hk23) rule_30 rfl go_26_vl hin3
      have hlst := ihl [x] rest1 q qv hC vv3 vv1 v1 vq stk la3 sc3 ctx3 K pp pn pre
        (stamped { name := nm, ty := T_LIST, kids := [x] }
          (stampAt pos (keyOf mk (.listStart :: rest')))) st2 d
        (by
          have := valueP_length hv
          simp only [List.length_cons] at hf; omega)
        hd (hrest3 _ _ hI3) hV.hole (hV2.of_same hS3.sem) rfl rfl (hinv2.of_same hS3) hnest2
      refine SimP.of_reaches ((hR1.trans hR2).trans hR3) ?_
      cases hl : listRestP (stampAt pos) o fuel [x] rest1 with
      | error k => trivial
      | ok elems rest3 => rw [hl] at hlst; exact hlst
  | grp rest' =>
    rw [valueP_grp]
    have hnest1 : nestingFrom (d + 1) rest' ≤ 1665 :=
      Nat.le_trans (nesting_open (.inr (.inr rfl))) hnest
    have hd1 : d + 1 ≤ 1665 := Nat.le_trans (le_nestingFrom _ _) hnest1
    obtain ⟨la1, sc1, ctx1, vv1, v1, st1, hR1, hI1, hV1, hinv1⟩ := sim_openP hE
      (vq := vq) (stk := stk) hC.scal.notFinal (opn := .groupStart) (k := 18) (fun _ h => h)
      hC.groupStart (by decide)
      (by decide) red_18 rule_40 ninf_18 (ty := T_GROUP) (fun _ _ _ _ => rfl) (by decide) go_18_M4
      rfl (by omega) hI hV hS hna hinv
    -- the members
    have h1 := ihs [] rest' 27 38 mem_27 vv1 ((18, v1) :: (q, vq) :: stk)
      ((27, vv1) :: (18, v1) :: (q, vq) :: stk) la1 sc1 ctx1 _ _ _ st1
      (d + 1) (.inl rfl)
      (by simp only [List.length_cons] at hf; omega) (by dp) hI1 hV1 rfl rfl hinv1 hnest1
    cases hs : settingsP (stampAt pos) o fuel [] rest' with
    | error k => trivial
    | ok members rest1 =>
      rw [hs] at h1
      obtain ⟨b, hR2, stkS, la2, sc2, ctx2, st2, rfl, hshape, hI2, hV2, hinv2, hnest2,
        hstop⟩ := h1
      -- `setting_list_optional`
      obtain ⟨t3, v3, ks3, hin3, hlen3, hk23, hn3, hrest3⟩ := hI2.peekL
      have hne10 : translateTok P t3 ≠ 10 := ne_of_hk hn3 rfl (hk_ne_10 hstop)
      have hslo : ∃ la3 sc3 ctx3 vv3, Reaches E ⟨stkS, la2, sc2, ctx2⟩
          ⟨(39, vv3) :: (27, vv1) :: (18, v1) :: (q, vq) :: stk, la3, sc3, ctx3⟩ ∧
          InpQ E pos la3 sc3 ((t3, v3) :: ks3) ∧ Same true ctx2 ctx3 := by
        rcases hshape with rfl | ⟨v38, rfl⟩
        · exact preduce0Q hE (ctx := ctx2)
            (pushed := []) (p := 27) (vp := vv1) (rest := (18, v1) :: (q, vq) :: stk)
            rfl rfl (by dp) (by decide) (red_27 _ hk23 hne10) rule_6 rfl go_27_slo hin3
        · exact preduce0Q hE (ctx := ctx2)
            (pushed := [(38, v38)]) (p := 27) (vp := vv1) (rest := (18, v1) :: (q, vq) :: stk)
            rfl rfl (by dp) (by decide) (red_38 _ hk23 hne10) rule_7 rfl go_27_slo hin3
      obtain ⟨la3, sc3, ctx3, vv3, hR3, hI3, hS3⟩ := hslo
      cases rest1 with
      | nil => trivial
      | cons it r2 =>
        cases it
        case groupEnd =>
          simp only
          -- `}`
          obtain ⟨la4, sc4, ctx4, vv4, st4, hR4, hI4, hV4, hinv4⟩ := sim_close hE hC.gValue
            (close := .groupEnd) (k := 19) (fun _ h => h) sh_39_groupEnd (by decide) (by decide)
            (by decide) (by decide) red_44 rule_41 hC.gGroup red_24 rule_20
            (v3 := vv3) (v2 := vv1) (v1 := v1) (vq := vq) (stk := stk)
            (by omega) hV.hole (hV2.of_same hS3.sem) (hinv2.of_same hS3) (hrest3 _ _ hI3)
          refine ⟨_, ((hR1.trans hR2).trans hR3).trans hR4, la4, sc4, ctx4, vv4, rfl, hI4,
            ⟨st4, hV4⟩, hinv4, ?_⟩
          exact Nat.le_trans (nesting_close (.inr (.inr rfl))) hnest2
        all_goals trivial
  | other _ h1 h2 h3 =>
    rw [valueP_other _ _ _ _ _ _ h1 h2 h3]
    cases hs : scalarP (stampAt pos) nm mk items with
    | none => trivial
    | some p =>
      obtain ⟨x, rest1⟩ := p
      simp only
      obtain ⟨x0, hs0, _⟩ := scalarP_some hs
      obtain ⟨la2, sc2, ctx2, vv2, hR2, hI2, hF2, hinv2⟩ := sim_scalarP (o := o) hE hC.scal hs
        (vq := vq) (stk := stk) (by omega) hI hV hS hinv (fun h => absurd h hna)
      -- `value: simple_value`
      obtain ⟨t3, v3, ks3, hin3, hk23, _, hrest3⟩ := hI2.peek
      obtain ⟨la3, sc3, ctx3, vv3, hR3, hI3, hS3⟩ := preduce0Q hE (ctx := ctx2)
        (pushed := [(23, vv2)]) (p := q) (vp := vq) (rest := stk)
        rfl rfl (by dp) (by decide) (red_23 _ hk23) rule_17 rfl hC.gValue hin3
      obtain ⟨st', hV'⟩ := hF2
      refine ⟨_, hR2.trans hR3, la3, sc3, ctx3, vv3, rfl, hrest3 _ _ hI3,
        ⟨st', hV'.of_same hS3.sem⟩, hinv2.of_same hS3, ?_⟩
      rw [scalar_nesting _ hs0]
      exact hnest

end

end Libconfig.C10Prov
