import LibconfigModel.Proofs.C02Complete
/-
  C01 (parsing half), machinery: parser configurations, a fuel-free reachability relation over
  `yyparseLoop`, the remaining input as a token list, and the two kinds of single iteration
  (shift / reduce) as reachability steps.  Everything here holds for an arbitrary parser
  environment; the facts about the compiled tables are in C01ParseStatic.lean.
-/
namespace Libconfig.C01PP
open Libconfig C02P C05P C02C

/-- a configuration of the parser loop -/
structure MC where
  stk : List (Nat × TokVal)
  la : Lookahead
  sc : ScanState
  ctx : ParseCtx

def run (E : ParserEnv) (fuel : Nat) (m : MC) : POut := yyparseLoop E fuel m.stk m.la m.sc m.ctx

/-- From `a` the loop arrives in `b`: with whatever fuel it is started in `a`, it either runs
out of fuel or continues as from `b` (`part`); and it does arrive, after a fixed number of
iterations (`steps`). -/
structure Reaches (E : ParserEnv) (a b : MC) : Prop where
  part : ∀ fuel, (run E fuel a).2.2 = .outOfFuel ∨ ∃ fuel', run E fuel a = run E fuel' b
  steps : ∃ n, ∀ fuel, run E (fuel + n) a = run E fuel b

theorem Reaches.refl (E : ParserEnv) (a : MC) : Reaches E a a :=
  ⟨fun fuel => .inr ⟨fuel, rfl⟩, ⟨0, fun _ => rfl⟩⟩

theorem Reaches.trans {E : ParserEnv} {a b c : MC} (h1 : Reaches E a b) (h2 : Reaches E b c) :
    Reaches E a c := by
  constructor
  · intro fuel
    rcases h1.part fuel with h | ⟨f1, h⟩
    · exact .inl h
    · rcases h2.part f1 with h' | ⟨f2, h'⟩
      · left; rw [h]; exact h'
      · right; exact ⟨f2, h.trans h'⟩
  · obtain ⟨n1, hn1⟩ := h1.steps
    obtain ⟨n2, hn2⟩ := h2.steps
    refine ⟨n2 + n1, fun fuel => ?_⟩
    rw [← Nat.add_assoc, hn1, hn2]

theorem run_zero (E : ParserEnv) (a : MC) : run E 0 a = (a.sc, a.ctx, .outOfFuel) := by
  unfold run
  rw [yyparseLoop]

theorem Reaches.of_body {E : ParserEnv} {a b : MC}
    (h : ∀ rec, bodyK E rec a.stk a.la a.sc a.ctx = rec b.stk b.la b.sc b.ctx) : Reaches E a b := by
  have step : ∀ n, run E (n + 1) a = run E n b := by
    intro n
    unfold run
    rw [yyparseLoop_succ]
    exact h _
  constructor
  · intro fuel
    cases fuel with
    | zero => left; rw [run_zero]
    | succ n => right; exact ⟨n, step n⟩
  · exact ⟨1, step⟩

/-! ### the remaining input -/

/-- the tokens (number and value, the end marker `(0, {})` included) that the scanner will
deliver from `sc` on start with the list `ks` (the empty list says nothing); an include error
is handed over as its error token with an empty value, as `yyparseLoop` does -/
inductive LexT (E : ParserEnv) : ScanState → List (Nat × TokVal) → Prop where
  | nil (sc : ScanState) : LexT E sc []
  | eof (sc sc' : ScanState) : yylex E.T E.sacts E.w E.ic E.lexFuel sc = (sc', .eof) →
      LexT E sc [(0, {})]
  | tok (sc sc' : ScanState) (t : Nat) (v : TokVal) (ks : List (Nat × TokVal)) :
      yylex E.T E.sacts E.w E.ic E.lexFuel sc = (sc', .tok t v) → LexT E sc' ks →
      LexT E sc ((t, v) :: ks)
  | incl (sc sc' : ScanState) (t : Nat) (text : Bytes) (file : Option Bytes) (line : Nat)
      (ks : List (Nat × TokVal)) :
      yylex E.T E.sacts E.w E.ic E.lexFuel sc = (sc', .includeError t text file line) →
      LexT E sc' ks → LexT E sc ((t, {}) :: ks)

/-- the tokens still to be consumed, given the lookahead -/
def Inp (E : ParserEnv) (la : Lookahead) (sc : ScanState) (ks : List (Nat × TokVal)) : Prop :=
  match la with
  | none => LexT E sc ks
  | some tv => ∃ ks', ks = tv :: ks' ∧ LexT E sc ks'

/-- two parse contexts agree on everything the semantic actions build on (an include error
changes the error fields of the configuration only) -/
def SameSem (a b : ParseCtx) : Prop :=
  b.cfg.root = a.cfg.root ∧ b.parent = a.parent ∧ b.setting = a.setting ∧ b.str = a.str

theorem SameSem.refl (a : ParseCtx) : SameSem a a := ⟨rfl, rfl, rfl, rfl⟩

theorem SameSem.trans {a b c : ParseCtx} (h1 : SameSem a b) (h2 : SameSem b c) : SameSem a c :=
  ⟨h2.1.trans h1.1, h2.2.1.trans h1.2.1, h2.2.2.1.trans h1.2.2.1, h2.2.2.2.trans h1.2.2.2⟩

theorem fetch_inp {E : ParserEnv} {la : Lookahead} {sc : ScanState} (ctx : ParseCtx) {t : Nat}
    {v : TokVal} {ks : List (Nat × TokVal)} (h : Inp E la sc ((t, v) :: ks)) :
    ∃ sc' ctx', fetchK E la sc ctx = (sc', some (t, v), none, ctx') ∧ LexT E sc' ks ∧
      SameSem ctx ctx' := by
  cases la with
  | some l =>
    obtain ⟨ks', h1, h2⟩ := h
    injection h1 with h3 h4
    subst h4
    subst h3
    exact ⟨sc, ctx, rfl, h2, SameSem.refl _⟩
  | none =>
    unfold Inp at h
    simp only at h
    unfold fetchK
    simp only
    cases h with
    | eof _ sc' hy =>
      rw [hy]
      exact ⟨sc', ctx, rfl, LexT.nil _, SameSem.refl _⟩
    | tok _ sc' _ _ _ hy hl =>
      rw [hy]
      exact ⟨sc', ctx, rfl, hl, SameSem.refl _⟩
    | incl _ sc' _ text file line _ hy hl =>
      rw [hy]
      exact ⟨sc', _, rfl, hl, ⟨rfl, rfl, rfl, rfl⟩⟩

/-! ### single iterations -/

/-- the tables shift the next token: one iteration pushes the target state with the token's
value -/
theorem step_shift {E : ParserEnv} {s : Nat} {v0 : TokVal} {rest : List (Nat × TokVal)}
    {la : Lookahead} {sc : ScanState} {ctx : ParseCtx} {t : Nat} {v : TokVal}
    {ks : List (Nat × TokVal)} {q : Int}
    (hdepth : rest.length + 1 < E.P.maxDepth) (hfin : s ≠ E.P.final)
    (hact : actAt E.P s (translateTok E.P t) = some q) (hq : 0 < q)
    (hinp : Inp E la sc ((t, v) :: ks)) :
    ∃ sc' ctx', Reaches E ⟨(s, v0) :: rest, la, sc, ctx⟩
        ⟨(q.toNat, v) :: (s, v0) :: rest, none, sc', ctx'⟩ ∧
      Inp E none sc' ks ∧ SameSem ctx ctx' := by
  obtain ⟨sc', ctx', hf, hl, hs⟩ := fetch_inp ctx hinp
  refine ⟨sc', ctx', Reaches.of_body (fun rec => ?_), hl, hs⟩
  simp only
  rw [bodyK_cons]
  rw [if_neg (by simp only [List.length_cons, ge_iff_le]; omega)]
  rw [if_neg (by simpa using hfin)]
  split
  · rename_i hp
    rw [actAt_ninf hp] at hact
    cases hact
  rename_i hp
  rw [hf]
  simp only
  unfold actK
  simp only
  split
  · rename_i hg
    rw [actAt_guard hp hg] at hact
    cases hact
  · rename_i hg
    rw [actAt_entry hp hg] at hact
    injection hact with hact
    rw [hact]
    rw [if_neg (by omega)]

/-- the value `$$ = $1` of a reduction of length `n` (the top of the stack for an empty rule) -/
def yyvalOf (stk : List (Nat × TokVal)) (n : Nat) : TokVal :=
  if n == 0 then (stk.headD (0, {})).2 else ((stk.drop (n - 1)).headD (0, {})).2

theorem reduceK_eq {E : ParserEnv} {stk pushed : List (Nat × TokVal)} {p : Nat}
    {vp : TokVal} {rest : List (Nat × TokVal)} {r : Nat} {la : Lookahead} {sc : ScanState}
    {ctx ctx' : ParseCtx}
    (hstk : stk = pushed ++ (p, vp) :: rest)
    (hlen : (E.P.r2.get r).toNat = pushed.length)
    (hact : runAction (E.acts.getD r .unknown) ctx (stk.headD (0, {})).2 sc.buf.lineno
      sc.currentFilename = .ok ctx') (rec : PRec) :
    reduceK E rec stk r la sc ctx =
      rec ((gotoTo E.P p (E.P.r1.get r).toNat, yyvalOf stk pushed.length) :: (p, vp) :: rest)
        la sc ctx' := by
  unfold reduceK
  simp only
  rw [hact]
  simp only
  subst hstk
  rw [hlen, List.drop_left]
  rfl

/-- the tables reduce by `r` in front of the next token (by default, with or without
consulting the lookahead, or by an explicit entry): one iteration runs the action, pops the
handle `pushed` and pushes the goto target -/
theorem step_reduce {E : ParserEnv} {stk pushed : List (Nat × TokVal)} {p : Nat} {vp : TokVal}
    {rest : List (Nat × TokVal)} {s : Nat} {v0 : TokVal} {rest0 : List (Nat × TokVal)}
    {la : Lookahead} {sc : ScanState} {ctx : ParseCtx} {t : Nat} {v : TokVal}
    {ks : List (Nat × TokVal)} {r : Nat} {Post : ParseCtx → Prop}
    (hstk : stk = pushed ++ (p, vp) :: rest) (htop : stk = (s, v0) :: rest0)
    (hdepth : stk.length < E.P.maxDepth) (hfin : s ≠ E.P.final)
    (hred : redOK E.P s (translateTok E.P t) r = true)
    (hlen : (E.P.r2.get r).toNat = pushed.length)
    (hinp : Inp E la sc ((t, v) :: ks))
    (hact : ∀ ctx₁ l f, SameSem ctx ctx₁ →
      ∃ ctx₂, runAction (E.acts.getD r .unknown) ctx₁ v0 l f = .ok ctx₂ ∧ Post ctx₂) :
    ∃ la' sc' ctx' vv, Reaches E ⟨stk, la, sc, ctx⟩
        ⟨(gotoTo E.P p (E.P.r1.get r).toNat, vv) :: (p, vp) :: rest, la', sc', ctx'⟩ ∧
      Inp E la' sc' ((t, v) :: ks) ∧ Post ctx' := by
  unfold redOK at hred
  simp only [Bool.and_eq_true] at hred
  obtain ⟨hr0, hred⟩ := hred
  have hr0 : r ≠ 0 := not_beq hr0
  have hhead : (stk.headD (0, {})).2 = v0 := by rw [htop]; rfl
  have hnd : ¬ ((s, v0) :: rest0).length ≥ E.P.maxDepth := by
    rw [← htop]; omega
  have hnf : ¬ (s == E.P.final) = true := by simpa using hfin
  -- the default reduction, once we know `defact s = r`
  have dflt : ∀ (la₁ : Lookahead) (sc₁ : ScanState) (ctx₁ : ParseCtx), SameSem ctx ctx₁ →
      (E.P.defact.get s).toNat = r →
      ∃ ctx₂, (∀ rec, dfltK E rec stk s la₁ sc₁ ctx₁ =
        rec ((gotoTo E.P p (E.P.r1.get r).toNat, yyvalOf stk pushed.length) :: (p, vp) :: rest)
          la₁ sc₁ ctx₂) ∧ Post ctx₂ := by
    intro la₁ sc₁ ctx₁ hs hdef
    obtain ⟨ctx₂, ha, hpost⟩ := hact ctx₁ sc₁.buf.lineno sc₁.currentFilename hs
    rw [← hhead] at ha
    refine ⟨ctx₂, ?_, hpost⟩
    intro rec
    unfold dfltK
    simp only
    rw [hdef, if_neg (by simpa using hr0)]
    exact reduceK_eq hstk hlen ha rec
  by_cases hp : (E.P.pact.get s == E.P.pactNinf) = true
  · rw [actAt_ninf hp] at hred
    simp only at hred
    obtain ⟨ctx₂, hb, hpost⟩ := dflt la sc ctx (SameSem.refl _) (Nat.eq_of_beq_eq_true hred)
    refine ⟨la, sc, ctx₂, yyvalOf stk pushed.length, Reaches.of_body (fun rec => ?_), hinp, hpost⟩
    simp only
    rw [htop, bodyK_cons, if_neg hnd, if_neg hnf, if_pos hp, ← htop]
    exact hb rec
  · obtain ⟨sc', ctx', hf, hl, hs⟩ := fetch_inp ctx hinp
    have hinp' : Inp E (some (t, v)) sc' ((t, v) :: ks) := ⟨ks, rfl, hl⟩
    by_cases hg : (E.P.pact.get s + ↑(translateTok E.P t) < 0 ||
        E.P.pact.get s + ↑(translateTok E.P t) > ↑E.P.last ||
        E.P.check.get (E.P.pact.get s + ↑(translateTok E.P t)).toNat != ↑(translateTok E.P t)) = true
    · rw [actAt_guard hp hg] at hred
      simp only at hred
      obtain ⟨ctx₂, hb, hpost⟩ := dflt (some (t, v)) sc' ctx' hs (Nat.eq_of_beq_eq_true hred)
      refine ⟨some (t, v), sc', ctx₂, yyvalOf stk pushed.length, Reaches.of_body (fun rec => ?_), hinp', hpost⟩
      simp only
      rw [htop, bodyK_cons, if_neg hnd, if_neg hnf, if_neg hp, hf]
      simp only
      unfold actK
      simp only
      rw [if_pos hg, ← htop]
      exact hb rec
    · rw [actAt_entry hp hg] at hred
      simp only [Bool.and_eq_true, decide_eq_true_eq] at hred
      obtain ⟨⟨hle, hninf⟩, hrule⟩ := hred
      obtain ⟨ctx₂, ha, hpost⟩ := hact ctx' sc'.buf.lineno sc'.currentFilename hs
      rw [← hhead] at ha
      refine ⟨some (t, v), sc', ctx₂, yyvalOf stk pushed.length, Reaches.of_body (fun rec => ?_), hinp', hpost⟩
      simp only
      rw [htop, bodyK_cons, if_neg hnd, if_neg hnf, if_neg hp, hf]
      simp only
      unfold actK
      simp only
      rw [if_neg hg, if_pos hle, if_neg (by simpa using hninf), Nat.eq_of_beq_eq_true hrule, ← htop]
      exact reduceK_eq hstk hlen ha rec

/-- a state that reduces by default without consulting the lookahead (`yypact` is the
"default only" value): one iteration runs the action, pops the handle and pushes the goto target;
lookahead and scanner are untouched -/
theorem step_reduce_ninf {E : ParserEnv} {stk pushed : List (Nat × TokVal)} {p : Nat}
    {vp : TokVal} {rest : List (Nat × TokVal)} {s : Nat} {v0 : TokVal}
    {rest0 : List (Nat × TokVal)} {la : Lookahead} {sc : ScanState} {ctx : ParseCtx} {r : Nat}
    {Post : ParseCtx → Prop}
    (hstk : stk = pushed ++ (p, vp) :: rest) (htop : stk = (s, v0) :: rest0)
    (hdepth : stk.length < E.P.maxDepth) (hfin : s ≠ E.P.final)
    (hninf : E.P.pact.get s = E.P.pactNinf) (hdef : (E.P.defact.get s).toNat = r) (hr0 : r ≠ 0)
    (hlen : (E.P.r2.get r).toNat = pushed.length)
    (hact : ∀ l f, ∃ ctx₂, runAction (E.acts.getD r .unknown) ctx v0 l f = .ok ctx₂ ∧ Post ctx₂) :
    ∃ ctx' vv, Reaches E ⟨stk, la, sc, ctx⟩
        ⟨(gotoTo E.P p (E.P.r1.get r).toNat, vv) :: (p, vp) :: rest, la, sc, ctx'⟩ ∧ Post ctx' := by
  have hhead : (stk.headD (0, {})).2 = v0 := by rw [htop]; rfl
  have hnd : ¬ ((s, v0) :: rest0).length ≥ E.P.maxDepth := by
    rw [← htop]; omega
  have hnf : ¬ (s == E.P.final) = true := by simpa using hfin
  obtain ⟨ctx₂, ha, hpost⟩ := hact sc.buf.lineno sc.currentFilename
  rw [← hhead] at ha
  refine ⟨ctx₂, yyvalOf stk pushed.length, Reaches.of_body (fun rec => ?_), hpost⟩
  simp only
  rw [htop, bodyK_cons, if_neg hnd, if_neg hnf, if_pos (by rw [hninf]; simp), ← htop]
  unfold dfltK
  simp only
  rw [hdef, if_neg (by simpa using hr0)]
  exact reduceK_eq hstk hlen ha rec

/-- the final state on top of a stack below the limit: the next iteration accepts -/
theorem run_final {E : ParserEnv} {v : TokVal} {rest : List (Nat × TokVal)} {la : Lookahead}
    {sc : ScanState} {ctx : ParseCtx} (hdepth : rest.length + 1 < E.P.maxDepth) (fuel : Nat) :
    run E (fuel + 1) ⟨(E.P.final, v) :: rest, la, sc, ctx⟩ = (sc, ctx, .accept) := by
  unfold run
  rw [yyparseLoop_succ, bodyK_cons]
  rw [if_neg (by simp only [List.length_cons, ge_iff_le]; omega)]
  rw [if_pos (by simp)]

end Libconfig.C01PP
