import LibconfigModel.LookupSpec
import LibconfigModel.WF
import LibconfigModel.Step
/-
  Helper lemmas for property C06 (path lookup).
-/
namespace Libconfig.C06P

/-! ### listSearch -/

theorem listSearch_spec (kids : List Node) (nm : Bytes) (i0 i : Nat) (k : Node)
    (h : listSearch kids nm i0 = some (i, k)) :
    ∃ j, i = i0 + j ∧ kids[j]? = some k ∧ k.name = some nm := by
  induction kids generalizing i0 with
  | nil => simp [listSearch] at h
  | cons x xs ih =>
    simp only [listSearch] at h
    split at h
    · rename_i hx
      simp only [Option.some.injEq, Prod.mk.injEq] at h
      obtain ⟨rfl, rfl⟩ := h
      exact ⟨0, by simp, by simp, by simpa using hx⟩
    · obtain ⟨j, hj, hk, hn⟩ := ih (i0 + 1) h
      exact ⟨j + 1, by omega, by simpa using hk, hn⟩

theorem listSearch_none_of_forall (kids : List Node) (nm : Bytes) (i0 : Nat)
    (h : ∀ k ∈ kids, k.name ≠ some nm) : listSearch kids nm i0 = none := by
  induction kids generalizing i0 with
  | nil => simp [listSearch]
  | cons x xs ih =>
    have hx : x.name ≠ some nm := h x (by simp)
    simp only [listSearch]
    rw [if_neg (by simpa using hx)]
    exact ih (i0 + 1) (fun k hk => h k (by simp [hk]))

theorem listSearch_complete (kids : List Node) (nm : Bytes) (i0 i : Nat) (k : Node)
    (hnd : (kids.map (·.name)).Nodup) (hk : kids[i]? = some k) (hn : k.name = some nm) :
    listSearch kids nm i0 = some (i0 + i, k) := by
  induction kids generalizing i0 i with
  | nil => simp at hk
  | cons x xs ih =>
    simp only [List.map_cons, List.nodup_cons] at hnd
    cases i with
    | zero =>
      simp only [List.getElem?_cons_zero, Option.some.injEq] at hk
      subst hk
      simp [listSearch, hn]
    | succ i =>
      simp only [List.getElem?_cons_succ] at hk
      have hmem : k ∈ xs := List.mem_of_getElem? hk
      have hx : x.name ≠ some nm := by
        intro hx
        apply hnd.1
        rw [hx, ← hn]
        exact List.mem_map_of_mem hmem
      simp only [listSearch]
      rw [if_neg (by simpa using hx)]
      rw [ih (i0 + 1) i hnd.2 hk]
      congr 2
      omega

/-! ### `lookupFrom` = `resolve` -/

def NoEmpty (n : Node) : Prop :=
  ∀ p m, n.get? p = some m → ∀ k ∈ m.kids, k.name ≠ some []

theorem NoEmpty.child {n k : Node} {i : Nat} (h : NoEmpty n) (hk : n.kids[i]? = some k) : NoEmpty k := by
  intro p m hm
  apply h (i :: p) m
  simp [Node.get?, hk, hm]

theorem NoEmpty.search {n : Node} (h : NoEmpty n) (i0 : Nat) : listSearch n.kids [] i0 = none :=
  listSearch_none_of_forall _ _ _ (h [] n rfl)

/-- The body of the loop, given the text `p1` after the optional separator. -/
def loopBody (fuel : Nat) (cur : Node) (acc : Path) (p1 : Bytes) : Option Path :=
    match p1 with
    | 91 :: r =>
      let (v, used) := strtol10 r
      if used == 0 then none else
      match r.drop used with
      | 93 :: r' =>
        if v < 0 || v > INT_MAX then none else
        match getElem cur v.toNat with
        | none => none
        | some k => lookupLoop fuel k (acc ++ [v.toNat]) r'
      | _ => none
    | _ =>
      if cur.ty == T_GROUP then
        let nm := p1.takeWhile notSep
        let rest := p1.dropWhile notSep
        match listSearch cur.kids nm 0 with
        | none => none
        | some (i, k) => lookupLoop fuel k (acc ++ [i]) rest
      else
        if !p1.isEmpty || acc.isEmpty then none else some acc

theorem lookupLoop_cons (fuel : Nat) (cur : Node) (acc : Path) (c : Nat) (cs : Bytes) :
    lookupLoop (fuel+1) cur acc (c :: cs) = loopBody fuel cur acc (if isPathSep c then cs else c :: cs) := by
  rfl

theorem lookupLoop_nil (fuel : Nat) (cur : Node) (acc : Path) :
    lookupLoop fuel cur acc [] = if acc.isEmpty then none else some acc := by
  cases fuel <;> rfl

def parseBody (fuel : Nat) (p1 : Bytes) : Option (List PStep × Bool) :=
    match p1 with
    | [] => some ([], true)
    | 91 :: r =>
      let (v, used) := strtol10 r
      if used == 0 then none else
      match r.drop used with
      | 93 :: r' =>
        if v < 0 || v > INT_MAX then none else
        (parseSteps fuel r').map fun (steps, t) => (.index v.toNat :: steps, t)
      | _ => none
    | _ =>
      let nm := p1.takeWhile notSep
      if nm.isEmpty then none else
      (parseSteps fuel (p1.dropWhile notSep)).map fun (steps, t) => (.name nm :: steps, t)

theorem parseSteps_cons (fuel : Nat) (c : Nat) (cs : Bytes) :
    parseSteps (fuel+1) (c :: cs) = parseBody fuel (if isPathSep c then cs else c :: cs) := by
  rfl

theorem parseSteps_nil (fuel : Nat) : parseSteps fuel [] = some ([], false) := by
  cases fuel <;> rfl


def contSpec (cur : Node) (acc : Path) : Option (List PStep × Bool) → Option Path
  | none => none
  | some (steps, trailing) =>
    match walk cur steps with
    | none => none
    | some (q, m) =>
      if (acc ++ q).isEmpty then none
      else if trailing && m.ty == T_GROUP then none else some (acc ++ q)

def specLoop (fuel : Nat) (cur : Node) (acc : Path) (p : Bytes) : Option Path :=
  contSpec cur acc (parseSteps fuel p)

theorem contSpec_step (cur : Node) (acc : Path) (st : PStep) (o : Option (List PStep × Bool)) :
    contSpec cur acc (o.map fun (steps, t) => (st :: steps, t)) =
      match walkStep cur st with
      | none => none
      | some (i, k) => contSpec k (acc ++ [i]) o := by
  cases o with
  | none => cases walkStep cur st <;> simp [contSpec]
  | some o =>
    obtain ⟨steps, t⟩ := o
    simp only [Option.map_some, contSpec, walk]
    cases walkStep cur st with
    | none => rfl
    | some ik =>
      obtain ⟨i, k⟩ := ik
      simp only
      cases walk k steps with
      | none => rfl
      | some qm =>
        obtain ⟨q, m⟩ := qm
        simp


theorem loopBody_nil (fuel : Nat) (cur : Node) (acc : Path) :
    loopBody fuel cur acc [] =
      if cur.ty == T_GROUP then
        match listSearch cur.kids [] 0 with
        | none => none
        | some (i, k) => lookupLoop fuel k (acc ++ [i]) []
      else if acc.isEmpty then none else some acc := by
  simp [loopBody]

theorem loopBody_name (fuel : Nat) (cur : Node) (acc : Path) (x : Nat) (r : Bytes) (hx : x ≠ 91) :
    loopBody fuel cur acc (x :: r) =
      if cur.ty == T_GROUP then
        match listSearch cur.kids ((x :: r).takeWhile notSep) 0 with
        | none => none
        | some (i, k) => lookupLoop fuel k (acc ++ [i]) ((x :: r).dropWhile notSep)
      else none := by
  unfold loopBody
  split
  · rename_i h; cases h; exact absurd rfl hx
  · simp

theorem parseBody_name (fuel : Nat) (x : Nat) (r : Bytes) (hx : x ≠ 91) :
    parseBody fuel (x :: r) =
      if ((x :: r).takeWhile notSep).isEmpty then none else
      (parseSteps fuel ((x :: r).dropWhile notSep)).map fun (steps, t) =>
        (.name ((x :: r).takeWhile notSep) :: steps, t) := by
  unfold parseBody
  split
  · rename_i h; cases h
  · rename_i h; cases h; exact absurd rfl hx
  · rfl

theorem loopBody_idx (fuel : Nat) (cur : Node) (acc : Path) (r : Bytes) :
    loopBody fuel cur acc (91 :: r) =
      if (strtol10 r).2 == 0 then none else
      match r.drop (strtol10 r).2 with
      | 93 :: r' =>
        if (strtol10 r).1 < 0 || (strtol10 r).1 > INT_MAX then none else
        match getElem cur (strtol10 r).1.toNat with
        | none => none
        | some k => lookupLoop fuel k (acc ++ [(strtol10 r).1.toNat]) r'
      | _ => none := by
  rfl

theorem parseBody_idx (fuel : Nat) (r : Bytes) :
    parseBody fuel (91 :: r) =
      if (strtol10 r).2 == 0 then none else
      match r.drop (strtol10 r).2 with
      | 93 :: r' =>
        if (strtol10 r).1 < 0 || (strtol10 r).1 > INT_MAX then none else
        (parseSteps fuel r').map fun (steps, t) => (.index (strtol10 r).1.toNat :: steps, t)
      | _ => none := by
  rfl

theorem loop_eq_spec (fuel : Nat) : ∀ (cur : Node) (acc : Path) (p : Bytes), NoEmpty cur →
    lookupLoop fuel cur acc p = specLoop fuel cur acc p := by
  induction fuel with
  | zero =>
    intro cur acc p _
    cases p with
    | nil => simp [lookupLoop_nil, specLoop, contSpec, parseSteps_nil, walk]
    | cons c cs => simp [lookupLoop, specLoop, contSpec, parseSteps]
  | succ fuel ih =>
    intro cur acc p hne
    cases p with
    | nil => simp [lookupLoop_nil, specLoop, contSpec, parseSteps_nil, walk]
    | cons c cs =>
      rw [lookupLoop_cons, specLoop, parseSteps_cons]
      generalize (if isPathSep c then cs else c :: cs) = p1
      cases p1 with
      | nil =>
        rw [loopBody_nil, hne.search]
        simp only [parseBody, contSpec, walk, List.append_nil, Bool.true_and]
        by_cases hg : (cur.ty == T_GROUP) = true <;> by_cases ha : acc.isEmpty = true <;> simp [hg, ha]
      | cons x r =>
        by_cases hx : x = 91
        · subst hx
          rw [loopBody_idx, parseBody_idx]
          split
          · rfl
          · split
            · split
              · rfl
              · rw [contSpec_step]
                simp only [walkStep, getElem]
                by_cases hagg : cur.isAggregate = true
                · simp only [hagg, if_true]
                  cases hk : cur.kids[(strtol10 r).1.toNat]? with
                  | none => rfl
                  | some k =>
                    simp only [Option.map_some]
                    exact ih _ _ _ (hne.child hk)
                · simp only [hagg]; rfl
            · rfl
        · rw [loopBody_name _ _ _ _ _ hx, parseBody_name _ _ _ hx]
          generalize (x :: r).takeWhile notSep = nm
          generalize (x :: r).dropWhile notSep = rest
          by_cases hnm : nm.isEmpty = true
          · have : nm = [] := by simpa using hnm
            subst this
            simp [hne.search, contSpec]
          · rw [if_neg hnm, contSpec_step]
            simp only [walkStep]
            split
            · cases hs : listSearch cur.kids nm 0 with
              | none => rfl
              | some ik =>
                obtain ⟨i, k⟩ := ik
                obtain ⟨j, _, hk, _⟩ := listSearch_spec _ _ _ _ _ hs
                exact ih _ _ _ (hne.child hk)
            · rfl

theorem walk_length : ∀ (steps : List PStep) (n : Node) (q : Path) (m : Node),
    walk n steps = some (q, m) → q.length = steps.length := by
  intro steps
  induction steps with
  | nil => intro n q m h; simp [walk] at h; simp [h.1]
  | cons st rest ih =>
    intro n q m h
    simp only [walk] at h
    split at h
    · cases h
    · rename_i i k _
      cases hw : walk k rest with
      | none => simp [hw] at h
      | some qm =>
        obtain ⟨q', m'⟩ := qm
        simp only [hw, Option.map_some, Option.some.injEq, Prod.mk.injEq] at h
        obtain ⟨rfl, rfl⟩ := h
        simp [ih k q' m' hw]

theorem lookupFrom_eq_resolve (n : Node) (h : NoEmpty n) (path : Bytes) :
    lookupFrom n path = resolve n path := by
  rw [lookupFrom, loop_eq_spec _ _ _ _ h, specLoop, resolve]
  cases parseSteps (path.length + 1) path with
  | none => rfl
  | some st =>
    obtain ⟨steps, t⟩ := st
    simp only [contSpec, List.nil_append]
    cases hw : walk n steps with
    | none => simp
    | some qm =>
      obtain ⟨q, m⟩ := qm
      have hl := walk_length _ _ _ _ hw
      have : q.isEmpty = steps.isEmpty := by
        cases q <;> cases steps <;> simp_all
      simp [this]

/-! ### soundness -/

theorem walk_denotes_gen (D : Node → List PStep → Path → Prop)
    (hnil : ∀ n, D n [] [])
    (hname : ∀ (n k : Node) (nm : Bytes) (i : Nat) (rest : List PStep) (q : Path),
      n.ty = T_GROUP → n.kids[i]? = some k → k.name = some nm → D k rest q →
      D n (.name nm :: rest) (i :: q))
    (hindex : ∀ (n k : Node) (i : Nat) (rest : List PStep) (q : Path),
      n.isAggregate = true → n.kids[i]? = some k → D k rest q →
      D n (.index i :: rest) (i :: q)) :
    ∀ (steps : List PStep) (n : Node) (q : Path) (m : Node),
      walk n steps = some (q, m) → D n steps q ∧ n.get? q = some m := by
  intro steps
  induction steps with
  | nil =>
    intro n q m h
    simp only [walk, Option.some.injEq, Prod.mk.injEq] at h
    obtain ⟨rfl, rfl⟩ := h
    exact ⟨hnil _, rfl⟩
  | cons st rest ih =>
    intro n q m h
    simp only [walk] at h
    cases hs : walkStep n st with
    | none => simp [hs] at h
    | some ik =>
      obtain ⟨i, k⟩ := ik
      simp only [hs] at h
      cases hw : walk k rest with
      | none => simp [hw] at h
      | some qm =>
        obtain ⟨q', m'⟩ := qm
        simp only [hw, Option.map_some, Option.some.injEq, Prod.mk.injEq] at h
        obtain ⟨rfl, rfl⟩ := h
        obtain ⟨hd, hg⟩ := ih k q' m' hw
        cases st with
        | name nm =>
          simp only [walkStep] at hs
          split at hs
          · rename_i hty
            obtain ⟨j, hj, hk, hn⟩ := listSearch_spec _ _ _ _ _ hs
            have : i = j := by omega
            subst this
            refine ⟨hname n k nm i rest q' (by simpa using hty) hk hn hd, ?_⟩
            simp [Node.get?, hk, hg]
          · cases hs
        | index j =>
          simp only [walkStep] at hs
          split at hs
          · rename_i hagg
            cases hk : n.kids[j]? with
            | none => simp [hk] at hs
            | some k' =>
              simp only [hk, Option.map_some, Option.some.injEq, Prod.mk.injEq] at hs
              obtain ⟨rfl, rfl⟩ := hs
              refine ⟨hindex n k' j rest q' hagg hk hd, ?_⟩
              simp [Node.get?, hk, hg]
          · cases hs

theorem sound_walk (n : Node) (hn : NoEmpty n) (path : Bytes) (q : Path)
    (h : lookupFrom n path = some q) :
    ∃ steps trailing m, parseSteps (path.length + 1) path = some (steps, trailing) ∧ steps ≠ [] ∧
      walk n steps = some (q, m) ∧ q ≠ [] := by
  rw [lookupFrom_eq_resolve n hn, resolve] at h
  cases hp : parseSteps (path.length + 1) path with
  | none => simp [hp] at h
  | some st =>
    obtain ⟨steps, t⟩ := st
    simp only [hp] at h
    split at h
    · cases h
    · rename_i hse
      cases hw : walk n steps with
      | none => simp [hw] at h
      | some qm =>
        obtain ⟨q', m⟩ := qm
        simp only [hw] at h
        split at h
        · cases h
        · simp only [Option.some.injEq] at h
          subst h
          have hl := walk_length _ _ _ _ hw
          refine ⟨steps, t, m, rfl, ?_, hw, ?_⟩
          · simpa using hse
          · intro hq; subst hq; cases steps <;> simp_all

/-! ### decimal rendering and `strtol` -/

theorem natToBaseAux_append (b : Nat) : ∀ (fuel n : Nat) (acc : Bytes),
    natToBaseAux b fuel n acc = natToBaseAux b fuel n [] ++ acc := by
  intro fuel
  induction fuel with
  | zero => intro n acc; simp [natToBaseAux]
  | succ fuel ih =>
    intro n acc
    simp only [natToBaseAux]
    split
    · simp
    · rw [ih (n / b) (_ :: acc), ih (n / b) [_]]
      simp

theorem digitsVal_snoc (xs : Bytes) (d : Nat) :
    digitsVal 10 (xs ++ [d]) = digitsVal 10 xs * 10 + hexVal d := by
  simp [digitsVal, List.foldl_append]

theorem isDigit_digitChar (d : Nat) (h : d < 10) : isDigit (digitChar d) = true := by
  simp only [digitChar, if_pos h, isDigit, Bool.and_eq_true, decide_eq_true_eq]
  omega

theorem hexVal_digitChar (d : Nat) (h : d < 10) : hexVal (digitChar d) = d := by
  have := isDigit_digitChar d h
  simp only [hexVal, this, if_true]
  simp only [digitChar, if_pos h]
  omega

theorem digitsVal_aux : ∀ (fuel n : Nat), n ≤ fuel → digitsVal 10 (natToBaseAux 10 fuel n []) = n := by
  intro fuel
  induction fuel with
  | zero => intro n h; have : n = 0 := by omega
            subst this; simp [natToBaseAux, digitsVal]
  | succ fuel ih =>
    intro n h
    simp only [natToBaseAux]
    split
    · rename_i h0; subst h0; simp [digitsVal]
    · rw [natToBaseAux_append, digitsVal_snoc, ih (n / 10) (by omega),
        hexVal_digitChar _ (Nat.mod_lt _ (by decide))]
      omega

theorem aux_digits : ∀ (fuel n : Nat), ∀ c ∈ natToBaseAux 10 fuel n [], isDigit c = true := by
  intro fuel
  induction fuel with
  | zero => intro n c hc; simp [natToBaseAux] at hc
  | succ fuel ih =>
    intro n c hc
    simp only [natToBaseAux] at hc
    split at hc
    · simp at hc
    · rw [natToBaseAux_append] at hc
      simp only [List.mem_append, List.mem_singleton] at hc
      rcases hc with hc | rfl
      · exact ih _ _ hc
      · exact isDigit_digitChar _ (Nat.mod_lt _ (by decide))

theorem natToDec_digits (i : Nat) : ∀ c ∈ natToDec i, isDigit c = true := by
  intro c hc
  simp only [natToDec, natToBase] at hc
  split at hc
  · simp only [List.mem_singleton] at hc; subst hc; decide
  · exact aux_digits _ _ _ hc

theorem natToDec_ne_nil (i : Nat) : natToDec i ≠ [] := by
  simp only [natToDec, natToBase]
  split
  · simp
  · rename_i h
    cases i with
    | zero => exact absurd rfl h
    | succ i =>
      simp only [natToBaseAux, if_neg h]
      rw [natToBaseAux_append]
      simp

theorem digitsVal_natToDec (i : Nat) : digitsVal 10 (natToDec i) = i := by
  simp only [natToDec, natToBase]
  split
  · rename_i h; subst h; decide
  · exact digitsVal_aux _ _ (Nat.le_refl _)

theorem isDigit_not_space (c : Nat) (h : isDigit c = true) : isSpace c = false := by
  simp only [isDigit, Bool.and_eq_true, decide_eq_true_eq] at h
  simp only [isSpace, Bool.or_eq_false_iff, Bool.and_eq_false_iff, decide_eq_false_iff_not, beq_eq_false_iff_ne]
  omega


def signSplit (r : Bytes) : Bool × Nat × Bytes :=
  match r with
  | 45 :: r' => (true, 1, r')
  | 43 :: r' => (false, 1, r')
  | _ => (false, 0, r)

def strtolTail (wsl : Nat) (r : Bytes) : Int × Nat :=
  let (neg, sl, r) := signSplit r
  let ds := r.takeWhile isDigit
  if ds.isEmpty then (0, 0) else
  let a : Int := digitsVal 10 ds
  let v : Int := if neg then -a else a
  let v := if v > LLONG_MAX then LLONG_MAX else if v < LLONG_MIN then LLONG_MIN else v
  (v, wsl + sl + ds.length)

theorem strtol10_eq (s : Bytes) :
    strtol10 s = strtolTail (s.takeWhile isSpace).length (s.dropWhile isSpace) := rfl

theorem signSplit_digit (d : Nat) (t : Bytes) (hdd : isDigit d = true) :
    signSplit (d :: t) = (false, 0, d :: t) := by
  unfold signSplit
  split
  · rename_i h; cases h; simp [isDigit] at hdd
  · rename_i h; cases h; simp [isDigit] at hdd
  · rfl

theorem strtolTail_digits (d : Nat) (t : Bytes) (hdd : isDigit d = true) :
    strtolTail 0 (d :: t) =
      if ((d :: t).takeWhile isDigit).isEmpty then (0, 0) else
      let a : Int := digitsVal 10 ((d :: t).takeWhile isDigit)
      (if a > LLONG_MAX then LLONG_MAX else if a < LLONG_MIN then LLONG_MIN else a,
        0 + 0 + ((d :: t).takeWhile isDigit).length) := by
  unfold strtolTail
  rw [signSplit_digit d t hdd]
  rfl

theorem strtol10_digits (ds rest : Bytes) (hne : ds ≠ []) (hd : ∀ c ∈ ds, isDigit c = true)
    (hmax : (digitsVal 10 ds : Int) ≤ INT_MAX) :
    strtol10 (ds ++ 93 :: rest) = ((digitsVal 10 ds : Int), ds.length) := by
  cases ds with
  | nil => exact absurd rfl hne
  | cons d ds' =>
    have hdd : isDigit d = true := hd d (by simp)
    have hsp : isSpace d = false := isDigit_not_space d hdd
    have htw : List.takeWhile isDigit (d :: (ds' ++ 93 :: rest)) = d :: ds' := by
      rw [← List.cons_append, List.takeWhile_append_of_pos hd]
      simp [List.takeWhile, isDigit]
    rw [strtol10_eq]
    simp only [List.cons_append, List.takeWhile_cons, hsp, List.dropWhile_cons]
    simp only [Bool.false_eq_true, if_false, List.length_nil]
    rw [strtolTail_digits d _ hdd, htw]
    have h1 : ¬ ((digitsVal 10 (d :: ds') : Int) > LLONG_MAX) := by
      simp only [INT_MAX, LLONG_MAX] at *; omega
    have h2 : ¬ ((digitsVal 10 (d :: ds') : Int) < LLONG_MIN) := by
      simp only [LLONG_MIN] at *; omega
    simp [h1, h2]

/-! ### completeness -/

def okChar (c : Nat) : Bool := isAlpha c || isDigit c || c == 42 || c == 95 || c == 45

theorem okChar_notSep (c : Nat) (h : okChar c = true) : notSep c = true := by
  simp only [okChar, isAlpha, isUpper, isLower, isDigit, Bool.or_eq_true, Bool.and_eq_true,
    decide_eq_true_eq, beq_iff_eq] at h
  simp only [notSep, isPathSep, Bool.not_eq_true', Bool.or_eq_false_iff, beq_eq_false_iff_ne]
  omega

theorem validName_spec (nm : Bytes) (h : validName nm = true) :
    ∃ c cs, nm = c :: cs ∧ c ≠ 91 ∧ isPathSep c = false ∧ ∀ x ∈ nm, notSep x = true := by
  cases nm with
  | nil => simp [validName] at h
  | cons c cs =>
    simp only [validName, Bool.and_eq_true, List.all_eq_true] at h
    obtain ⟨hc, hcs⟩ := h
    have hc' : okChar c = true := by
      simp only [okChar, Bool.or_eq_true] at hc ⊢
      rcases hc with hc | hc <;> simp [hc]
    have hns := okChar_notSep c hc'
    refine ⟨c, cs, rfl, ?_, ?_, ?_⟩
    · intro h91; subst h91
      simp [isAlpha, isUpper, isLower] at hc
    · simpa [notSep] using hns
    · intro x hx
      simp only [List.mem_cons] at hx
      rcases hx with rfl | hx
      · exact hns
      · exact okChar_notSep x (hcs x hx)

/-- a text that is empty or begins with a path separator -/
def SepStart (t : Bytes) : Prop := ∀ c t', t = c :: t' → isPathSep c = true

theorem takeWhile_name (nm rest : Bytes) (hnm : ∀ x ∈ nm, notSep x = true) (hr : SepStart rest) :
    (nm ++ rest).takeWhile notSep = nm ∧ (nm ++ rest).dropWhile notSep = rest := by
  rw [List.takeWhile_append_of_pos hnm, List.dropWhile_append_of_pos hnm]
  cases rest with
  | nil => simp
  | cons c t' => simp [notSep, hr c t' rfl]

theorem lookupLoop_lead (fuel : Nat) (cur : Node) (acc : Path) (s : Nat) (p1 : Bytes)
    (hs : isPathSep s = true) :
    lookupLoop (fuel+1) cur acc (s :: p1) = loopBody fuel cur acc p1 := by
  rw [lookupLoop_cons, if_pos hs]

theorem lookupLoop_nolead (fuel : Nat) (cur : Node) (acc : Path) (x : Nat) (t : Bytes)
    (hx : isPathSep x = false) :
    lookupLoop (fuel+1) cur acc (x :: t) = loopBody fuel cur acc (x :: t) := by
  rw [lookupLoop_cons, if_neg (by simp [hx])]

theorem loopBody_name_step (fuel : Nat) (cur k : Node) (acc : Path) (nm rest : Bytes) (i : Nat)
    (hty : cur.ty = T_GROUP) (hs : listSearch cur.kids nm 0 = some (i, k))
    (hv : validName nm = true) (hr : SepStart rest) :
    loopBody fuel cur acc (nm ++ rest) = lookupLoop fuel k (acc ++ [i]) rest := by
  obtain ⟨c, cs, rfl, h91, _, hall⟩ := validName_spec nm hv
  obtain ⟨h1, h2⟩ := takeWhile_name (c :: cs) rest hall hr
  rw [List.cons_append, loopBody_name _ _ _ _ _ h91, ← List.cons_append, h1, h2, hs]
  simp [hty]

theorem loopBody_idx_step (fuel : Nat) (cur k : Node) (acc : Path) (rest : Bytes) (i : Nat)
    (hagg : cur.isAggregate = true) (hk : cur.kids[i]? = some k) (hi : (i : Int) ≤ INT_MAX) :
    loopBody fuel cur acc (91 :: (natToDec i ++ 93 :: rest)) = lookupLoop fuel k (acc ++ [i]) rest := by
  have hst := strtol10_digits (natToDec i) rest (natToDec_ne_nil i) (natToDec_digits i)
    (by rw [digitsVal_natToDec]; exact hi)
  rw [digitsVal_natToDec] at hst
  rw [loopBody_idx, hst]
  have hlen : (natToDec i).length ≠ 0 := by
    have := natToDec_ne_nil i
    cases h : natToDec i <;> simp_all
  simp only [beq_iff_eq, hlen, if_false, List.drop_left, Int.toNat_natCast]
  have h1 : ¬ ((i : Int) < 0) := by omega
  have h2 : ¬ ((i : Int) > INT_MAX) := by omega
  simp [h1, h2, getElem, hagg, hk]


theorem WF.child {n k : Node} {i : Nat} (h : n.WF) (hk : n.kids[i]? = some k) : k.WF := by
  intro p m hm
  apply h (i :: p) m
  simp [Node.get?, hk, hm]

theorem wf_agg {n k : Node} {i : Nat} (h : n.LocalWF) (hk : n.kids[i]? = some k) :
    n.isAggregate = true := by
  cases hagg : n.isAggregate with
  | true => rfl
  | false =>
    have := h.scalarNoKids hagg
    rw [this] at hk
    simp at hk

theorem wf_named {n k : Node} {i : Nat} {nm : Bytes} (h : n.LocalWF) (hk : n.kids[i]? = some k)
    (hn : k.name = some nm) :
    n.ty = T_GROUP ∧ validName nm = true ∧ listSearch n.kids nm 0 = some (i, k) := by
  have hmem : k ∈ n.kids := List.mem_of_getElem? hk
  have hagg := wf_agg h hk
  have hty : n.ty = T_GROUP := by
    simp only [Node.isAggregate, isAggregateTy, Bool.or_eq_true, beq_iff_eq] at hagg
    rcases hagg with (ha | hl) | hg
    · have := h.arrayNameless ha k hmem
      rw [this] at hn; cases hn
    · have := h.listNameless hl k hmem
      rw [this] at hn; cases hn
    · exact hg
  obtain ⟨nm', hnm', hv⟩ := h.groupNames hty k hmem
  have : nm' = nm := by rw [hn] at hnm'; cases hnm'; rfl
  subst this
  refine ⟨hty, hv, ?_⟩
  have := listSearch_complete n.kids nm' 0 i k (h.groupDistinct hty) hk hn
  simpa using this

theorem renderPath_nil (n : Node) (chs : List Choice) (lead : Bool) :
    renderPath n [] chs lead = some [] := by
  cases chs <;> rfl

theorem renderPath_cons {n : Node} {i : Nat} {ip : Path} {chs : List Choice} {lead : Bool} {txt : Bytes}
    (h : renderPath n (i :: ip) chs lead = some txt) :
    ∃ ch chs' k rest, chs = ch :: chs' ∧ n.kids[i]? = some k ∧ renderPath k ip chs' true = some rest ∧
      txt = (if lead then [ch.sep] else []) ++
        (match k.name, ch.useName with
          | some nm, true => nm
          | _, _ => [91] ++ natToDec i ++ [93]) ++ rest := by
  cases chs with
  | nil => simp [renderPath] at h
  | cons ch chs' =>
    simp only [renderPath] at h
    cases hk : n.kids[i]? with
    | none => simp [hk] at h
    | some k =>
      simp only [hk] at h
      cases hr : renderPath k ip chs' true with
      | none => simp [hr] at h
      | some rest =>
        simp only [hr, Option.map_some, Option.some.injEq] at h
        exact ⟨ch, chs', k, rest, rfl, rfl, hr, h.symm⟩

theorem render_sepStart {n : Node} {ip : Path} {chs : List Choice} {txt : Bytes}
    (hsep : ∀ c ∈ chs, isPathSep c.sep = true)
    (h : renderPath n ip chs true = some txt) : SepStart txt := by
  intro c t' ht
  cases ip with
  | nil =>
    rw [renderPath_nil] at h
    cases h; cases ht
  | cons i ip =>
    obtain ⟨ch, chs', k, rest, rfl, _, _, rfl⟩ := renderPath_cons h
    simp only [if_true, List.cons_append, List.nil_append, List.cons.injEq] at ht
    rw [← ht.1]
    exact hsep ch (by simp)

theorem complete_aux : ∀ (ip : Path) (n : Node) (chs : List Choice) (lead : Bool) (txt : Bytes)
    (fuel : Nat) (acc : Path), n.WF → (∀ i ∈ ip, (i : Int) ≤ INT_MAX) →
    (∀ c ∈ chs, isPathSep c.sep = true) → renderPath n ip chs lead = some txt →
    txt.length < fuel → acc ++ ip ≠ [] → lookupLoop fuel n acc txt = some (acc ++ ip) := by
  intro ip
  induction ip with
  | nil =>
    intro n chs lead txt fuel acc _ _ _ hr _ hne
    rw [renderPath_nil] at hr
    cases hr
    rw [lookupLoop_nil]
    have : acc ≠ [] := by simpa using hne
    cases acc <;> simp_all
  | cons i ip ih =>
    intro n chs lead txt fuel acc hwf hidx hsep hr hfuel _
    obtain ⟨ch, chs', k, rest, rfl, hk, hrest, rfl⟩ := renderPath_cons hr
    have hlwf : n.LocalWF := hwf [] n rfl
    have hwfk : k.WF := WF.child hwf hk
    have hss : SepStart rest := render_sepStart (fun c hc => hsep c (by simp [hc])) hrest
    have hchsep : isPathSep ch.sep = true := hsep ch (by simp)
    have hi : (i : Int) ≤ INT_MAX := hidx i (by simp)
    generalize hcomp : (match k.name, ch.useName with
          | some nm, true => nm
          | _, _ => [91] ++ natToDec i ++ [93]) = comp at hfuel ⊢
    have hshape : comp = [91] ++ natToDec i ++ [93] ∨ (k.name = some comp) := by
      cases hkn : k.name with
      | none => rw [hkn] at hcomp; exact Or.inl hcomp.symm
      | some nm =>
        cases hu : ch.useName with
        | false => rw [hkn, hu] at hcomp; exact Or.inl hcomp.symm
        | true => rw [hkn, hu] at hcomp; simp only at hcomp; subst hcomp; exact Or.inr rfl
    have hhead : ∃ x t, comp = x :: t ∧ isPathSep x = false := by
      rcases hshape with rfl | hkn
      · exact ⟨91, natToDec i ++ [93], by simp, by decide⟩
      · obtain ⟨_, hv, _⟩ := wf_named hlwf hk hkn
        obtain ⟨c, cs, hc, _, hsepc, _⟩ := validName_spec comp hv
        exact ⟨c, cs, hc, hsepc⟩
    obtain ⟨x, t, hxt, hx⟩ := hhead
    cases fuel with
    | zero => omega
    | succ fuel =>
      have hrec : lookupLoop fuel k (acc ++ [i]) rest = some (acc ++ i :: ip) := by
        have := ih k chs' true rest fuel (acc ++ [i]) hwfk (fun j hj => hidx j (by simp [hj]))
          (fun c hc => hsep c (by simp [hc])) hrest
          (by subst hxt; simp only [List.length_append, List.length_cons] at hfuel; omega) (by simp)
        simpa using this
      have hb : loopBody fuel n acc (comp ++ rest) = some (acc ++ i :: ip) := by
        rcases hshape with rfl | hkn
        · have : [91] ++ natToDec i ++ [93] ++ rest = 91 :: (natToDec i ++ 93 :: rest) := by simp
          rw [this, loopBody_idx_step fuel n k acc rest i (wf_agg hlwf hk) hk hi, hrec]
        · obtain ⟨hty, hv, hs⟩ := wf_named hlwf hk hkn
          rw [loopBody_name_step fuel n k acc comp rest i hty hs hv hss, hrec]
      cases lead with
      | true =>
        simp only [if_true, List.cons_append, List.nil_append]
        rw [lookupLoop_lead _ _ _ _ _ hchsep]
        exact hb
      | false =>
        subst hxt
        simp only [Bool.false_eq_true, if_false, List.nil_append, List.cons_append]
        rw [lookupLoop_nolead _ _ _ _ _ hx]
        simpa using hb

theorem complete (n : Node) (hwf : n.WF) (ip : Path) (hne : ip ≠ [])
    (hidx : ∀ i ∈ ip, (i : Int) ≤ INT_MAX)
    (chs : List Choice) (hsep : ∀ c ∈ chs, isPathSep c.sep = true) (lead : Bool)
    (txt : Bytes) (hr : renderPath n ip chs lead = some txt) :
    lookupFrom n txt = some ip := by
  have := complete_aux ip n chs lead txt (txt.length + 1) [] hwf hidx hsep hr (by omega) (by simpa using hne)
  simpa [lookupFrom] using this

theorem render_exists : ∀ (ip : Path) (n m : Node) (lead : Bool) (f : Nat → Choice),
    n.get? ip = some m → ∃ txt, renderPath n ip (ip.map f) lead = some txt := by
  intro ip
  induction ip with
  | nil => intro n m lead f _; exact ⟨[], renderPath_nil _ _ _⟩
  | cons i ip ih =>
    intro n m lead f h
    simp only [Node.get?] at h
    cases hk : n.kids[i]? with
    | none => simp [hk] at h
    | some k =>
      simp only [hk] at h
      obtain ⟨rest, hrest⟩ := ih k m true f h
      simp only [List.map_cons, renderPath, hk, hrest, Option.map_some]
      exact ⟨_, rfl⟩

theorem getPath (n : Node) (hwf : n.WF) (ip : Path) (m : Node) (hne : ip ≠ [])
    (hv : n.get? ip = some m) (hidx : ∀ i ∈ ip, (i : Int) ≤ INT_MAX) :
    ∃ txt, cppGetPath n ip = some txt ∧ lookupFrom n txt = some ip := by
  obtain ⟨txt, htxt⟩ := render_exists ip n m false (fun _ => { useName := true, sep := 46 }) hv
  refine ⟨txt, htxt, ?_⟩
  refine complete n hwf ip hne hidx _ ?_ false txt htxt
  intro c hc
  simp only [List.mem_map] at hc
  obtain ⟨_, _, rfl⟩ := hc
  decide

theorem noEmpty_of_WF (n : Node) (h : n.WF) : NoEmpty n := by
  intro p m hm k hk hname
  have hl : m.LocalWF := h p m hm
  obtain ⟨i, hi⟩ := List.getElem?_of_mem hk
  obtain ⟨_, hv, _⟩ := wf_named hl hi hname
  simp [validName] at hv

end Libconfig.C06P
