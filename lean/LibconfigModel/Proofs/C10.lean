import LibconfigModel.Read
import LibconfigModel.Proofs.C05
/-
  Helper definitions and lemmas for property C10 (@include is equivalent to textual
  inlining, with provenance and a depth limit).
-/
namespace Libconfig.C10P

open Libconfig

/-- The scanner state after the matched text (`rule`, `len`) has been consumed and
`ctx->string` has been taken: what the `<INCLUDE>\"` action of lib/scanner.l starts from.
(This is, literally, the state `yylex` builds before it looks at the action.) -/
def consumed (T : FlexTables) (s : ScanState) (rule len : Nat) : ScanState :=
  let text := s.buf.rest.take len
  let lineno := if T.canMatchEol.getN rule != 0 then s.buf.lineno + countNl text else s.buf.lineno
  let bol := match text.getLast? with
    | some c => c == 10
    | none => s.buf.bol
  { s with buf := { rest := s.buf.rest.drop len, bol := bol, lineno := lineno }, str := [] }

/-- the scanner is about to run the include action: the next match is rule `rule` of
length `len`, and that rule's action is the directive action -/
def AtDirective (T : FlexTables) (acts : List ScanAct) (s : ScanState) (rule len errTok : Nat) : Prop :=
  Flex.next T s.sc s.buf.bol s.buf.rest = some (rule, len) ∧
  acts.getD rule .unknown = .includeDirective errTok

theorem consumed_stack (T : FlexTables) (s : ScanState) (rule len : Nat) :
    (consumed T s rule len).stack = s.stack := rfl

theorem consumed_currentFilename (T : FlexTables) (s : ScanState) (rule len : Nat) :
    (consumed T s rule len).currentFilename = s.currentFilename := rfl

/-- the include action runs on the closing quote: a one-byte match that is not a newline
leaves the line number alone -/
theorem consumed_lineno (T : FlexTables) (s : ScanState) (rule len : Nat)
    (h : countNl (s.buf.rest.take len) = 0) : (consumed T s rule len).buf.lineno = s.buf.lineno := by
  simp only [consumed]
  split <;> simp [h]

/-! ### `config_setting_add` appends -/

theorem create_last {parent p' : Node} {name : Option Bytes} {ty : Nat}
    (h : parent.create name ty = some p') :
    p'.kids[p'.kids.length - 1]? = some { name := name, ty := ty } := by
  unfold Node.create at h
  split at h
  · cases h
  · cases h
    simp

theorem add_last {dtor ov : Bool} {parent n' : Node} {name : Option Bytes} {ty : Int} {i : Nat}
    {log : List Nat} (h : parent.add dtor ov name ty = some (n', i, log)) :
    ∃ k, n'.kids[i]? = some k := by
  unfold Node.add at h
  iterate 3 (split at h; · cases h)
  generalize (if (parent.ty == T_ARRAY || parent.ty == T_LIST) = true then none else name) = name0 at h
  simp only at h
  cases name0 <;> simp only at h <;>
  · split at h
    · cases h
    split at h
    · cases h
    split at h
    · cases h
    rename_i p'' hc
    simp only [Option.some.injEq, Prod.mk.injEq] at h
    obtain ⟨rfl, rfl, -⟩ := h
    exact ⟨_, create_last hc⟩

end Libconfig.C10P
