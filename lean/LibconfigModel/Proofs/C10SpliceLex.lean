import LibconfigModel.Properties.C18
import LibconfigModel.Scanner
/-
  Helper lemmas for Properties/C10Splice.lean, scanner side.

  * the compiled automaton on the pieces of a directive line: `^[ \t]*@include[ \t]+"`
    is matched as rule 22 up to the opening quote, a path without `"` and `\` as one
    match of rule 23, the closing quote as rule 27 (finite facts about the translated
    tables, decided by the kernel over closed sets of automaton states);
  * in the start conditions INITIAL and SINGLE_LINE_COMMENT no lexeme other than the
    one-byte lexeme `\n` contains a newline, and the only rule that depends on the
    beginning-of-line flag needs a `"`: the match at the head of a quote-free line does not
    depend on what follows the line nor on the flag (from `C18_equiv` and the documented
    rule list);
  * the rules that can be selected on such a line have "simple" actions (skip, change
    between INITIAL and SINGLE_LINE_COMMENT, return a token computed from the lexeme), and
    one iteration of `yylex` on them is given in closed form.
-/
set_option autoImplicit false

namespace Libconfig.C10S

open Libconfig Flex ScanSpec

/-! ### running the automaton -/

/-- run the automaton over `u`; `none` when it jams on the way -/
def runJ (T : FlexTables) : Nat → Bytes → Option Nat
  | s, [] => some s
  | s, c :: cs => if step T s c == T.jamState then none else runJ T (step T s c) cs

theorem runJ_cons_of_ne (T : FlexTables) {s c : Nat} (cs : Bytes) (h : step T s c ≠ T.jamState) :
    runJ T s (c :: cs) = runJ T (step T s c) cs := by
  simp only [runJ, beq_iff_eq, h, ↓reduceIte]

theorem runJ_append (T : FlexTables) : ∀ (u v : Bytes) (s : Nat),
    runJ T s (u ++ v) = (runJ T s u).bind fun s' => runJ T s' v
  | [], _, _ => rfl
  | c :: cs, v, s => by
    simp only [List.cons_append, runJ]
    split
    · rfl
    · exact runJ_append T cs v _

/-- while the automaton does not jam, the matching loop just goes on (what it remembers as
the last accepting position is overridden by whatever accepts later) -/
theorem scan_through (T : FlexTables) (u v : Bytes) : ∀ (s s' pos : Nat) (last : Option (Nat × Nat)),
    runJ T s u = some s' →
    ∃ last', scan T s (u ++ v) pos last = scan T s' v (pos + u.length) last' := by
  induction u with
  | nil =>
    intro s s' pos last h
    simp only [runJ, Option.some.injEq] at h
    subst h
    exact ⟨last, rfl⟩
  | cons c cs ih =>
    intro s s' pos last h
    simp only [runJ] at h
    split at h
    · cases h
    · rename_i hj
      obtain ⟨last', hl⟩ := ih (step T s c) s' (pos + 1)
        (if T.accept.getN s != 0 then some (T.accept.getN s, pos) else last) h
      refine ⟨last', ?_⟩
      simp only [List.cons_append, scan, hj, Bool.false_eq_true, ↓reduceIte, List.length_cons]
      rw [hl]
      congr 1
      omega

/-- in an accepting state on which the next byte (if any) jams, the match ends here -/
theorem scan_land (T : FlexTables) (s pos : Nat) (last : Option (Nat × Nat)) (v : Bytes)
    (hacc : T.accept.getN s ≠ 0) (hjam : ∀ c, v.head? = some c → step T s c = T.jamState) :
    scan T s v pos last = some (T.accept.getN s, pos) := by
  cases v with
  | nil => simp [scan, hacc]
  | cons c cs =>
    have := hjam c rfl
    simp [scan, hacc, this]

/-- `S` is closed under the bytes `cs`, without jamming -/
def closedUnder (T : FlexTables) (S : List Nat) (cs : List Nat) : Bool :=
  S.all fun s => cs.all fun c => step T s c != T.jamState && S.contains (step T s c)

theorem closedUnder_step {T : FlexTables} {S cs : List Nat} (h : closedUnder T S cs = true)
    {s c : Nat} (hs : s ∈ S) (hc : c ∈ cs) : step T s c ≠ T.jamState ∧ step T s c ∈ S := by
  simp only [closedUnder, List.all_eq_true, Bool.and_eq_true, bne_iff_ne, ne_eq,
    List.contains_iff_mem] at h
  exact h s hs c hc

theorem runJ_closed {T : FlexTables} {S cs : List Nat} (h : closedUnder T S cs = true) :
    ∀ (u : Bytes) (s : Nat), s ∈ S → (∀ c ∈ u, c ∈ cs) → ∃ s', s' ∈ S ∧ runJ T s u = some s'
  | [], s, hs, _ => ⟨s, hs, rfl⟩
  | c :: u, s, hs, hu => by
    have hc := closedUnder_step h hs (hu c (List.mem_cons_self ..))
    obtain ⟨s', hs', hr⟩ := runJ_closed h u (step T s c) hc.2
      (fun x hx => hu x (List.mem_cons_of_mem _ hx))
    refine ⟨s', hs', ?_⟩
    rw [runJ_cons_of_ne T u hc.1, hr]

/-! ### the pieces of a directive line under the compiled automaton -/

abbrev T : FlexTables := Generated.scanner
abbrev acts : List ScanAct := Generated.scanActions

def blanks : List Nat := [32, 9]
/-- `@include` -/
def kw : Bytes := [64, 105, 110, 99, 108, 117, 100, 101]

/-- the bytes an include path may consist of as far as rule 23 `[^\"\\]+` is concerned -/
def pathBytes : List Nat := (List.range 256).filter fun c => c != 34 && c != 92

theorem mem_pathBytes {c : Nat} (h : c < 256) (h1 : c ≠ 34) (h2 : c ≠ 92) : c ∈ pathBytes := by
  simp only [pathBytes, List.mem_filter, List.mem_range, Bool.and_eq_true, bne_iff_ne, ne_eq]
  exact ⟨h, h1, h2⟩

/-- every byte `0 … n-1` jams in state `s` -/
def jamsBelow (T : FlexTables) (s : Nat) : Nat → Bool
  | 0 => true
  | n + 1 => Nat.beq (step T s n) T.jamState && jamsBelow T s n

theorem jamsBelow_spec {T : FlexTables} {s : Nat} : ∀ {n : Nat}, jamsBelow T s n = true →
    ∀ c, c < n → step T s c = T.jamState := by
  intro n
  induction n with
  | zero => intro _ c hc; omega
  | succ n ih =>
    intro h c hc
    simp only [jamsBelow, Bool.and_eq_true] at h
    by_cases hcn : c = n
    · subst hcn; exact Nat.eq_of_beq_eq_true h.1
    · exact ih h.2 c (by omega)

/-- INITIAL at the beginning of a line -/
def q0 : Nat := startState 0 true
/-- states while reading the leading blanks -/
def S1 : List Nat := [q0, step T q0 32, step T (step T q0 32) 32]
/-- state after `@include` -/
def qKw : Nat := (runJ T q0 kw).getD 0
/-- states while reading the blanks before the quote -/
def S2 : List Nat := [step T qKw 32, step T (step T qKw 32) 32]
/-- state after the opening quote -/
def qOpen : Nat := step T (step T qKw 32) 34

/-- INCLUDE away from the beginning of a line -/
def p0 : Nat := startState 4 false
/-- states while reading the path -/
def SP : List Nat := [step T p0 97, step T (step T p0 97) 97]
/-- state after the closing quote -/
def qClose : Nat := step T p0 34

/-- the finite facts about the translated tables used below -/
def directiveTablesOK : Bool :=
  -- leading blanks, then `@include` from any of these states
  closedUnder T S1 blanks && S1.all (fun s => match runJ T s kw with
    | some x => Nat.beq x qKw
    | none => false) &&
  -- at least one blank, more blanks, the quote: rule 22, and nothing longer
  blanks.all (fun c => step T qKw c != T.jamState && S2.contains (step T qKw c)) &&
  closedUnder T S2 blanks &&
  S2.all (fun s => Nat.beq (step T s 34) qOpen) && qOpen != T.jamState &&
  Nat.beq (T.accept.getN qOpen) 22 && jamsBelow T qOpen 256 &&
  -- the path: rule 23 up to the closing quote
  pathBytes.all (fun c => step T p0 c != T.jamState && SP.contains (step T p0 c)) &&
  closedUnder T SP pathBytes &&
  SP.all (fun s => Nat.beq (T.accept.getN s) 23 && Nat.beq (step T s 34) T.jamState) &&
  -- the closing quote: rule 27
  qClose != T.jamState && Nat.beq (T.accept.getN qClose) 27 && jamsBelow T qClose 256 &&
  Nat.beq (T.accept.getN p0) 0

theorem directiveTables_ok : directiveTablesOK = true := by decide +kernel

theorem mem_blanks {c : Nat} (h : c = 32 ∨ c = 9) : c ∈ blanks := by
  rcases h with rfl | rfl <;> simp [blanks]

/-- **The directive prefix.**  At the beginning of a line in INITIAL, blanks, `@include`, at
least one blank and a quote are matched as rule 22 up to and including the quote, whatever
follows. -/
theorem next_include_open (b1 b2 v : Bytes) (h1 : ∀ c ∈ b1, c = 32 ∨ c = 9)
    (h2 : ∀ c ∈ b2, c = 32 ∨ c = 9) (hne : b2 ≠ []) (hv : ∀ c, v.head? = some c → c < 256) :
    next T 0 true (b1 ++ kw ++ b2 ++ 34 :: v) = some (22, b1.length + 8 + b2.length + 1) := by
  have hT := directiveTables_ok
  simp only [directiveTablesOK, Bool.and_eq_true] at hT
  obtain ⟨⟨⟨⟨⟨⟨⟨⟨⟨⟨⟨⟨⟨⟨hc1, hkw⟩, hb⟩, hc2⟩, hq⟩, hqj⟩, hacc⟩, hjam⟩, -⟩, -⟩, -⟩, -⟩, -⟩, -⟩, -⟩ := hT
  -- leading blanks
  obtain ⟨s1, hs1, hr1⟩ := runJ_closed hc1 b1 q0 (by simp [S1]) (fun c hc => mem_blanks (h1 c hc))
  -- the keyword
  have hr2 : runJ T s1 kw = some qKw := by
    have := (List.all_eq_true.mp hkw) s1 hs1
    split at this
    · rename_i x hx; rw [hx, Nat.eq_of_beq_eq_true this]
    · cases this
  -- the blanks before the quote
  obtain ⟨c, b2', rfl⟩ := List.exists_cons_of_ne_nil hne
  have hcb := (List.all_eq_true.mp hb) c (mem_blanks (h2 c (List.mem_cons_self ..)))
  simp only [Bool.and_eq_true, bne_iff_ne, ne_eq, List.contains_iff_mem] at hcb
  obtain ⟨s3, hs3, hr3⟩ := runJ_closed hc2 b2' (step T qKw c) hcb.2
    (fun x hx => mem_blanks (h2 x (List.mem_cons_of_mem _ hx)))
  have hq' : step T s3 34 = qOpen := Nat.eq_of_beq_eq_true ((List.all_eq_true.mp hq) s3 hs3)
  have hqj' : qOpen ≠ T.jamState := by simpa using hqj
  -- all together
  have hrun : runJ T q0 (b1 ++ kw ++ (c :: b2') ++ [34]) = some qOpen := by
    rw [runJ_append, runJ_append, runJ_append, hr1, Option.bind_some, hr2, Option.bind_some,
      runJ_cons_of_ne T b2' hcb.1, hr3, Option.bind_some, runJ_cons_of_ne T [] (by rw [hq']; exact hqj'),
      hq']
    rfl
  obtain ⟨last', hl⟩ := scan_through T (b1 ++ kw ++ (c :: b2') ++ [34]) v q0 qOpen 0 none hrun
  have happ : b1 ++ kw ++ c :: b2' ++ 34 :: v = (b1 ++ kw ++ (c :: b2') ++ [34]) ++ v := by simp
  unfold next
  rw [happ, show startState 0 true = q0 from rfl, hl, scan_land T qOpen _ last' v (by rw [Nat.eq_of_beq_eq_true hacc]; decide)
    (fun x hx => jamsBelow_spec hjam x (hv x hx)), Nat.eq_of_beq_eq_true hacc]
  simp [kw]
  omega

/-- **The path.**  In INCLUDE a non-empty run of bytes other than `"` and `\` followed by a
quote is one match of rule 23. -/
theorem next_path (path v : Bytes) (hne : path ≠ [])
    (hp : ∀ c ∈ path, c < 256 ∧ c ≠ 34 ∧ c ≠ 92) :
    next T 4 false (path ++ 34 :: v) = some (23, path.length) := by
  have hT := directiveTables_ok
  simp only [directiveTablesOK, Bool.and_eq_true] at hT
  obtain ⟨⟨⟨⟨⟨⟨⟨-, hfirst⟩, hcl⟩, hsp⟩, -⟩, -⟩, -⟩, -⟩ := hT
  obtain ⟨c, cs, rfl⟩ := List.exists_cons_of_ne_nil hne
  have hc := hp c (List.mem_cons_self ..)
  have hcb := (List.all_eq_true.mp hfirst) c (mem_pathBytes hc.1 hc.2.1 hc.2.2)
  simp only [Bool.and_eq_true, bne_iff_ne, ne_eq, List.contains_iff_mem] at hcb
  obtain ⟨s', hs', hr⟩ := runJ_closed hcl cs (step T p0 c) hcb.2
    (fun x hx => by
      have := hp x (List.mem_cons_of_mem _ hx)
      exact mem_pathBytes this.1 this.2.1 this.2.2)
  have hrun : runJ T p0 (c :: cs) = some s' := by
    rw [runJ_cons_of_ne T cs hcb.1, hr]
  obtain ⟨last', hl⟩ := scan_through T (c :: cs) (34 :: v) p0 s' 0 none hrun
  have hs := (List.all_eq_true.mp hsp) s' hs'
  simp only [Bool.and_eq_true] at hs
  have hacc : T.accept.getN s' = 23 := Nat.eq_of_beq_eq_true hs.1
  unfold next
  rw [show startState 4 false = p0 from rfl, hl, scan_land T s' _ last' (34 :: v) (by rw [hacc]; decide)
    (fun x hx => by
      simp only [List.head?_cons, Option.some.injEq] at hx
      subst hx
      exact Nat.eq_of_beq_eq_true hs.2), hacc]
  simp

/-- **The closing quote.**  In INCLUDE a quote is rule 27, whatever follows. -/
theorem next_close (v : Bytes) (hv : ∀ c, v.head? = some c → c < 256) :
    next T 4 false (34 :: v) = some (27, 1) := by
  have hT := directiveTables_ok
  simp only [directiveTablesOK, Bool.and_eq_true] at hT
  obtain ⟨⟨⟨⟨-, hqj⟩, hacc⟩, hjam⟩, -⟩ := hT
  have hqj' : qClose ≠ T.jamState := by simpa using hqj
  have hrun : runJ T p0 [34] = some qClose := by
    rw [runJ_cons_of_ne T [] hqj']
    rfl
  obtain ⟨last', hl⟩ := scan_through T [34] v p0 qClose 0 none hrun
  rw [List.singleton_append] at hl
  unfold next
  rw [show startState 4 false = p0 from rfl, hl, scan_land T qClose _ last' v (by rw [Nat.eq_of_beq_eq_true hacc]; decide)
    (fun x hx => jamsBelow_spec hjam x (hv x hx)), Nat.eq_of_beq_eq_true hacc]
  rfl

/-- at the end of a buffer the matcher reports end of input (the start states do not accept) -/
theorem next_nil (sc : Nat) (hsc : sc < 5) (bol : Bool) : next T sc bol [] = none := by
  have : ∀ sc, sc < 5 → ∀ bol, next T sc bol [] = none := by decide +kernel
  exact this sc hsc bol

/-! ### the documented rule list: lexemes of INITIAL and SINGLE_LINE_COMMENT -/

/-- expressions all of whose words are one byte long -/
def isSingle : Rx → Bool
  | .cls _ => true
  | .alt a b => isSingle a && isSingle b
  | _ => false

theorem isSingle_length : ∀ {r : Rx}, isSingle r = true → ∀ {w : List Nat}, Rx.Matches r w →
    w.length = 1 := by
  intro r
  induction r with
  | empty => intro h; cases h
  | eps => intro h; cases h
  | cls m => intro _ w hm; obtain ⟨b, rfl, _⟩ := Rx.matches_cls_iff.mp hm; rfl
  | cat a b _ _ => intro h; cases h
  | alt a b iha ihb =>
    intro h w hm
    simp only [isSingle, Bool.and_eq_true] at h
    rcases Rx.matches_alt_iff.mp hm with hm | hm
    · exact iha h.1 hm
    · exact ihb h.2 hm
  | star a _ => intro h; cases h

/-- every word of the expression contains a byte of the class `m` (the class occurs
literally in a mandatory position) -/
def mustContain (m : Nat) : Rx → Bool
  | .empty => true
  | .eps => false
  | .cls c => Nat.beq c m
  | .cat a b => mustContain m a || mustContain m b
  | .alt a b => mustContain m a && mustContain m b
  | .star _ => false

theorem mustContain_spec {m : Nat} : ∀ {r : Rx} {w : List Nat}, Rx.Matches r w →
    mustContain m r = true → ∃ b, b ∈ w ∧ Rx.mem m b = true := by
  intro r w hm
  induction hm with
  | eps => intro h; cases h
  | cls hb =>
    intro h
    rw [← Nat.eq_of_beq_eq_true h]
    exact ⟨_, List.mem_singleton.mpr rfl, hb⟩
  | cat _ _ ih1 ih2 =>
    intro h
    simp only [mustContain, Bool.or_eq_true] at h
    rcases h with h | h
    · obtain ⟨b, hb, hm⟩ := ih1 h; exact ⟨b, List.mem_append_left _ hb, hm⟩
    · obtain ⟨b, hb, hm⟩ := ih2 h; exact ⟨b, List.mem_append_right _ hb, hm⟩
  | altL _ ih => intro h; simp only [mustContain, Bool.and_eq_true] at h; exact ih h.1
  | altR _ ih => intro h; simp only [mustContain, Bool.and_eq_true] at h; exact ih h.2
  | starNil => intro h; cases h
  | starCons _ _ _ _ => intro h; cases h

/-- a check of every rule of a list, with its number -/
def allRules (f : Nat → SpecRule → Bool) : Nat → List SpecRule → Bool
  | _, [] => true
  | i, r :: rs => f i r && allRules f (i + 1) rs

theorem allRules_spec {f : Nat → SpecRule → Bool} : ∀ {rules : List SpecRule} {k : Nat},
    allRules f k rules = true → ∀ i rule, k ≤ i → rules[i - k]? = some rule → f i rule = true := by
  intro rules
  induction rules with
  | nil => intro k _ i rule _ hget; simp at hget
  | cons r rs ih =>
    intro k h i rule hk hget
    simp only [allRules, Bool.and_eq_true] at h
    by_cases hik : i = k
    · subst hik
      simp only [Nat.sub_self, List.getElem?_cons_zero, Option.some.injEq] at hget
      subst hget
      exact h.1
    · have : i - k = (i - (k + 1)) + 1 := by omega
      rw [this, List.getElem?_cons_succ] at hget
      exact ih h.2 i rule (by omega) hget

/-- actions that skip, switch between INITIAL and SINGLE_LINE_COMMENT, or return a token
computed from the lexeme alone -/
def simpleAct : ScanAct → Bool
  | .begin sc => Nat.beq sc 0 || Nat.beq sc 1
  | .ignore => true
  | .tok _ => true
  | .tokBool _ _ => true
  | .tokName _ => true
  | .tokFloat .. => true
  | .tokInteger .. => true
  | .tokInteger64 .. => true
  | .tokHex .. => true
  | .tokHex64 .. => true
  | _ => false

/-- the facts about the documented rule list used below:
* a rule active in INITIAL or SINGLE_LINE_COMMENT whose language has a word with a newline
  matches single bytes only;
* a rule anchored at the beginning of a line needs a `"`;
* the rules active in INITIAL or SINGLE_LINE_COMMENT other than 4 (`/*`), 8 (`"`), 22
  (anchored) and 48 (flex's default rule) have simple actions in the compiled scanner. -/
def rulesOK : Bool :=
  allRules (fun _ r => !(r.active 0 true || r.active 1 true) || !mentionsNl r.rx || isSingle r.rx)
    1 documented &&
  allRules (fun _ r => !r.bol || mustContain cQuote r.rx) 1 documented &&
  allRules (fun i r => !(r.active 0 false || r.active 1 false) || Nat.beq i 4 || Nat.beq i 8 ||
    Nat.beq i 48 || simpleAct (acts.getD i .unknown)) 1 documented

theorem rules_ok : rulesOK = true := by decide +kernel

theorem mem_cQuote : ∀ b, b < 256 → Rx.mem cQuote b = true → b = 34 := by decide +kernel
theorem mem_cSlash : ∀ b, b < 256 → Rx.mem cSlash b = true → b = 47 := by decide +kernel
theorem mem_cStar : ∀ b, b < 256 → Rx.mem cStar b = true → b = 42 := by decide +kernel

theorem active_mono {r : SpecRule} {sc : Nat} {bol : Bool} (h : r.active sc bol = true) :
    r.active sc true = true := by
  simp only [SpecRule.active, Bool.and_eq_true, Bool.or_eq_true, Bool.not_eq_true'] at h ⊢
  exact ⟨h.1, .inr trivial⟩

theorem active_false_mono {r : SpecRule} {sc : Nat} {bol : Bool} (h : r.active sc false = true) :
    r.active sc bol = true := by
  simp only [SpecRule.active, Bool.and_eq_true, Bool.or_eq_true, Bool.not_eq_true'] at h ⊢
  rcases h.2 with h2 | h2
  · exact ⟨h.1, .inl h2⟩
  · cases h2

theorem ruleMatches_of_false {sc : Nat} {bol : Bool} {i : Nat} {w : List Nat}
    (h : RuleMatches documented sc false i w) : RuleMatches documented sc bol i w := by
  obtain ⟨rule, h1, hget, ha, hm⟩ := h
  exact ⟨rule, h1, hget, active_false_mono ha, hm⟩

/-- a word matched by an anchored rule contains a quote: on quote-free words the
beginning-of-line flag does not matter -/
theorem ruleMatches_to_false {sc : Nat} {bol : Bool} {i : Nat} {w : List Nat}
    (hb : ∀ b ∈ w, b < 256) (hq : 34 ∉ w)
    (h : RuleMatches documented sc bol i w) : RuleMatches documented sc false i w := by
  obtain ⟨rule, h1, hget, ha, hm⟩ := h
  refine ⟨rule, h1, hget, ?_, hm⟩
  have hR := rules_ok
  simp only [rulesOK, Bool.and_eq_true] at hR
  have h2 := allRules_spec hR.1.2 i rule h1 hget
  simp only [Bool.or_eq_true, Bool.not_eq_true'] at h2
  simp only [SpecRule.active, Bool.and_eq_true, Bool.or_eq_true, Bool.not_eq_true'] at ha ⊢
  refine ⟨ha.1, .inl ?_⟩
  rcases h2 with h2 | h2
  · exact h2
  · obtain ⟨b, hbw, hmem⟩ := mustContain_spec hm h2
    rw [mem_cQuote b (hb b hbw) hmem] at hbw
    exact (hq hbw).elim

/-- in INITIAL and SINGLE_LINE_COMMENT a lexeme with a newline is one byte long -/
theorem ruleMatches_nl_single {sc : Nat} (hsc : sc = 0 ∨ sc = 1) {bol : Bool} {i : Nat}
    {w : List Nat} (h : RuleMatches documented sc bol i w) (hnl : 10 ∈ w) : w.length = 1 := by
  obtain ⟨rule, h1, hget, ha, hm⟩ := h
  have hR := rules_ok
  simp only [rulesOK, Bool.and_eq_true] at hR
  have h2 := allRules_spec hR.1.1 i rule h1 hget
  have ha' := active_mono ha
  have hmn := mentionsNl_of_matches hm hnl
  rcases hsc with rfl | rfl <;>
  · simp only [ha', hmn, Bool.or_true, Bool.true_or, Bool.not_true, Bool.false_or] at h2
    exact isSingle_length h2 hm

/-- what follows the current line: nothing, or a newline -/
def Follow (t : Bytes) : Prop := t = [] ∨ t.head? = some 10

/-- the unit the next lexeme lies in: the newline itself, or the (non-empty) remainder of the
current line -/
def UnitOK (u t : Bytes) : Prop := u = [10] ∨ (10 ∉ u ∧ Follow t)

theorem selects_within {sc : Nat} (hsc : sc = 0 ∨ sc = 1) {bol : Bool} {u t : Bytes} {r n : Nat}
    (hune : u ≠ []) (hu : UnitOK u t) (h : Selects documented sc bol (u ++ t) r n) :
    n ≤ u.length := by
  apply Nat.le_of_not_lt
  intro hn
  have hle := h.le
  rw [List.length_append] at hle
  have hlen : ((u ++ t).take n).length = n := by
    rw [List.length_take, List.length_append]; omega
  have hnl : 10 ∈ (u ++ t).take n := by
    rw [List.take_append]
    rcases hu with rfl | ⟨_, hf⟩
    · apply List.mem_append_left
      rw [List.take_of_length_le (by simp only [List.length_cons, List.length_nil] at hn ⊢; omega)]
      simp
    · apply List.mem_append_right
      rcases hf with rfl | hf
      · simp only [List.length_nil] at hle; omega
      · cases t with
        | nil => cases hf
        | cons c t' =>
          simp only [List.head?_cons, Option.some.injEq] at hf
          subst hf
          obtain ⟨k, hk⟩ : ∃ k, n - u.length = k + 1 := ⟨n - u.length - 1, by omega⟩
          rw [hk, List.take_succ_cons]
          exact List.mem_cons_self ..
  have h1 := ruleMatches_nl_single hsc h.matched hnl
  have hul : 0 < u.length := List.length_pos_iff.mpr hune
  omega

theorem selects_transfer {sc : Nat} {bol : Bool} {u t : Bytes} {r n : Nat}
    (hn : n ≤ u.length) (hq : 34 ∉ u) (hb : ∀ b ∈ u, b < 256)
    (h : Selects documented sc bol (u ++ t) r n) : Selects documented sc false u r n := by
  have htake : ∀ m, m ≤ u.length → (u ++ t).take m = u.take m := by
    intro m hm
    rw [List.take_append_of_le_length hm]
  have hsub : ∀ m, ∀ b ∈ u.take m, b < 256 := fun m b hb' => hb b (List.mem_of_mem_take hb')
  have hqs : ∀ m, 34 ∉ u.take m := fun m hm => hq (List.mem_of_mem_take hm)
  exact {
    pos := h.pos
    le := hn
    matched := by
      have := h.matched
      rw [htake n hn] at this
      exact ruleMatches_to_false (hsub n) (hqs n) this
    longest := by
      intro m hm hle i hmm
      apply h.longest m hm (by rw [List.length_append]; omega) i
      rw [htake m hle]
      exact ruleMatches_of_false hmm
    first := by
      intro i hi hmm
      apply h.first i hi
      rw [htake n hn]
      exact ruleMatches_of_false hmm }

/-- **Lexemes stay within their line.**  In INITIAL or SINGLE_LINE_COMMENT, at the head of
a quote-free line remainder `u` (or of a newline) the match does not depend on what follows
the line, nor on the beginning-of-line flag. -/
theorem next_unit {sc : Nat} (hsc : sc = 0 ∨ sc = 1) (bol : Bool) {u t : Bytes} (hune : u ≠ [])
    (hu : UnitOK u t) (hq : 34 ∉ u) (hb : ∀ b ∈ u ++ t, b < 256) :
    next T sc bol (u ++ t) = next T sc false u := by
  have hsc5 : sc < 5 := by rcases hsc with rfl | rfl <;> decide
  obtain ⟨r, n, hnext, -⟩ := C18.C18_flex_never_skipped sc hsc5 bol (u ++ t)
    (by intro h; exact hune (List.append_eq_nil_iff.mp h).1) hb
  have hsel := (C18.C18_flex_longest_first sc hsc5 bol (u ++ t) hb r n).mp hnext
  have hbu : ∀ b ∈ u, b < 256 := fun b hb' => hb b (List.mem_append_left _ hb')
  have hsel' := selects_transfer (selects_within hsc hune hu hsel) hq hbu hsel
  rw [hnext, (C18.C18_flex_longest_first sc hsc5 false u hbu r n).mpr hsel']

/-- **What can be matched on a plain line.**  At the head of a non-empty line remainder
without newline, quote and `/*` at its head, some rule with a simple action is selected,
with a non-empty lexeme inside the remainder. -/
theorem next_plain {sc : Nat} (hsc : sc = 0 ∨ sc = 1) {u : Bytes} (hune : u ≠ [])
    (hq : 34 ∉ u) (hc : ¬ [47, 42] <+: u) (hb : ∀ b ∈ u, b < 256) :
    ∃ r n, next T sc false u = some (r, n) ∧ 0 < n ∧ n ≤ u.length ∧
      simpleAct (acts.getD r .unknown) = true := by
  have hsc5 : sc < 5 := by rcases hsc with rfl | rfl <;> decide
  obtain ⟨r, n, hnext, h48⟩ := C18.C18_flex_never_skipped sc hsc5 false u hune hb
  have hsel := (C18.C18_flex_longest_first sc hsc5 false u hb r n).mp hnext
  refine ⟨r, n, hnext, hsel.pos, hsel.le, ?_⟩
  obtain ⟨rule, h1, hget, ha, hm⟩ := hsel.matched
  have hR := rules_ok
  simp only [rulesOK, Bool.and_eq_true] at hR
  have h3 := allRules_spec hR.2 r rule h1 hget
  have hact : (rule.active 0 false || rule.active 1 false) = true := by
    rcases hsc with rfl | rfl <;> simp [ha]
  simp only [hact, Bool.not_true, Bool.false_or, Bool.or_eq_true] at h3
  have hbw : ∀ b ∈ u.take n, b < 256 := fun b hb' => hb b (List.mem_of_mem_take hb')
  rcases h3 with ((h3 | h3) | h3) | h3
  · -- rule 4 would be `/*`
    exfalso
    have hr : r = 4 := Nat.eq_of_beq_eq_true h3
    subst hr
    have : rule = ⟨.cat (.cls cSlash) (.cls cStar), [INITIAL], false⟩ := by
      simp [documented] at hget; exact hget.symm
    subst this
    obtain ⟨x, y, hw, hx, hy⟩ := Rx.matches_cat_iff.mp hm
    obtain ⟨a, rfl, ha'⟩ := Rx.matches_cls_iff.mp hx
    obtain ⟨b, rfl, hb'⟩ := Rx.matches_cls_iff.mp hy
    have ha47 := mem_cSlash a (hbw a (by rw [hw]; simp)) ha'
    have hb42 := mem_cStar b (hbw b (by rw [hw]; simp)) hb'
    subst ha47 hb42
    apply hc
    rw [← List.take_append_drop n u, hw]
    exact ⟨_, rfl⟩
  · -- rule 8 would be a quote
    exfalso
    have hr : r = 8 := Nat.eq_of_beq_eq_true h3
    subst hr
    have : rule = ⟨.cls cQuote, [INITIAL], false⟩ := by
      simp [documented] at hget; exact hget.symm
    subst this
    obtain ⟨a, hw, ha'⟩ := Rx.matches_cls_iff.mp hm
    have ha34 := mem_cQuote a (hbw a (by rw [hw]; simp)) ha'
    subst ha34
    apply hq
    apply List.mem_of_mem_take (i := n)
    rw [hw]; simp
  · exact (h48 (Nat.eq_of_beq_eq_true h3)).elim
  · exact h3

end Libconfig.C10S
