import LibconfigModel.Proofs.C01LexSeq
import LibconfigModel.Proofs.C01LexFloat
import LibconfigModel.Properties.C19
/-
  C01L, part 8 (M3, tree) — the hypothesis `LexOK` on configurations, and the proof that the
  item sequence of a configuration satisfying it is a good sequence (`GoodSeq`): every item is
  readable and is followed by a byte that delimits it.
-/
namespace Libconfig.C01L
open Flex

/-! ### the hypothesis on configurations -/

/-- a setting name the reader reads back as a name: valid (`__config_validate_name`) and not
a spelling of `true` / `false` -/
def nameOK : Option Bytes → Bool
  | none => true
  | some nm => validName nm && !isBoolWord nm

/-- a float value whose text is read back: finite, the `printf` rendering is not cut by the
`snprintf` limit of `libconfig_format_double`, and the text does not overflow when read -/
def floatOK (bufLen : Nat) (c : Config) (b : Nat) : Bool :=
  F64.isFinite b &&
  decide ((C01P.rawText bufLen b c.floatPrecision (c.opt OPT_SCIENTIFIC)).length ≤ bufLen - 4) &&
  !F64.isInf (F64.strtod (formatDouble bufLen b c.floatPrecision (c.opt OPT_SCIENTIFIC)))

/-- a scalar value that is read back as the same token: the integer fits its C type, the
float is as above, the string has no NUL byte; a setting of type NONE (or with a type code
out of range) is written as `???` and is excluded -/
def scalarOK (bufLen : Nat) (c : Config) (ty : Nat) (ival : Int) (fval : Nat) (sval : Option Bytes) : Bool :=
  if ty == T_BOOL then true
  else if ty == T_INT then fits32 ival
  else if ty == T_INT64 then fits64 ival
  else if ty == T_FLOAT then floatOK bufLen c fval
  else if ty == T_STRING then (sval.getD []).all (fun b => decide (1 ≤ b) && decide (b < 256))
  else false

mutual
def nodeOK (bufLen : Nat) (c : Config) : Node → Bool
  | .mk name ty _ ival fval sval kids _ _ _ =>
    nameOK name &&
    (if ty == T_LIST then nodesOK bufLen c kids
     else if ty == T_ARRAY then nodesOK bufLen c kids
     else if ty == T_GROUP then nodesOK bufLen c kids
     else scalarOK bufLen c ty ival fval sval)
def nodesOK (bufLen : Nat) (c : Config) : List Node → Bool
  | [] => true
  | k :: ks => nodeOK bufLen c k && nodesOK bufLen c ks
end

/-- **the hypothesis of C01_lex_items**: every setting has a readable name (or none) and, if it
is a scalar, a readable value -/
def LexOK (bufLen : Nat) (c : Config) : Bool := nodeOK bufLen c c.root

/-! ### first bytes -/

theorem bytesOf_cons (t : WTok) (ts : List WTok) : bytesOf (t :: ts) = t.bytes ++ bytesOf ts := by
  simp [bytesOf]

theorem bytesOf_append (a b : List WTok) : bytesOf (a ++ b) = bytesOf a ++ bytesOf b := by
  simp [bytesOf]

theorem FollowOK.weaken {f g : Nat → Bool} {rest : Bytes} (h : FollowOK f rest)
    (hg : ∀ c, f c = true → g c = true) : FollowOK g rest :=
  fun c hc => ⟨(h c hc).1, hg c (h c hc).2⟩

theorem FollowOK.any {f : Nat → Bool} {rest : Bytes} (h : FollowOK f rest) :
    FollowOK (fun _ => true) rest := h.weaken (fun _ _ => rfl)

theorem followOK_cons {f : Nat → Bool} {t : WTok} {ts : List WTok} {b : Nat} {bs : Bytes}
    (hb : t.bytes = b :: bs) (h256 : b < 256) (hf : f b = true) : FollowOK f (bytesOf (t :: ts)) := by
  intro c hc
  rw [bytesOf_cons, hb] at hc
  simp only [List.cons_append, List.head?_cons, Option.some.injEq] at hc
  subst hc; exact ⟨h256, hf⟩

theorem blankFollow_digit {d : Nat} (h : isDigit d = true) : blankFollow d = true := by
  have := isDigit_lt h
  simp only [isDigit, Bool.and_eq_true, decide_eq_true_eq] at h
  simp only [blankFollow, isBlank, Bool.and_eq_true, Bool.not_eq_true', Bool.or_eq_false_iff,
    beq_eq_false_iff_ne, bne_iff_ne, ne_eq]
  omega

theorem blankFollow_nameStart {c : Nat} (h : (isAlpha c || c == 42) = true) : blankFollow c = true := by
  simp only [isAlpha, isUpper, isLower, Bool.or_eq_true, Bool.and_eq_true, decide_eq_true_eq,
    beq_iff_eq] at h
  simp only [blankFollow, isBlank, Bool.and_eq_true, Bool.not_eq_true', Bool.or_eq_false_iff,
    beq_eq_false_iff_ne, bne_iff_ne, ne_eq]
  omega

/-- every good item other than a run of blanks starts with a byte that ends a run of blanks -/
theorem good_first (t : WTok) (hg : GoodTok t) (hb : ∀ b, t = .ws b → b = [10]) :
    ∃ b bs, t.bytes = b :: bs ∧ b < 256 ∧ blankFollow b = true := by
  cases t with
  | ws b =>
    have := hb b rfl
    subst this
    exact ⟨10, [], rfl, by omega, by decide⟩
  | name nm =>
    simp only [GoodTok] at hg
    cases nm with
    | nil => simp [validName] at hg
    | cons c cs =>
      have h1 := hg.1
      simp only [validName, Bool.and_eq_true] at h1
      refine ⟨c, cs, rfl, ?_, blankFollow_nameStart h1.1⟩
      have := h1.1
      simp only [Bool.or_eq_true, beq_iff_eq] at this
      rcases this with h | h
      · have := isAlpha_lt h; omega
      · omega
  | assign c =>
    simp only [GoodTok] at hg
    rcases hg with rfl | rfl <;> exact ⟨_, [], rfl, by omega, by decide⟩
  | semi => exact ⟨59, [], rfl, by omega, by decide⟩
  | comma => exact ⟨44, [], rfl, by omega, by decide⟩
  | punct c =>
    simp only [GoodTok] at hg
    rcases hg with rfl | rfl | rfl | rfl | rfl | rfl <;> exact ⟨_, [], rfl, by omega, by decide⟩
  | bool v =>
    cases v
    · exact ⟨102, [97, 108, 115, 101], by simp only [WTok.bytes, Bool.false_eq_true, if_false, C01P.bytes_false],
        by omega, by decide⟩
    · exact ⟨116, [114, 117, 101], by simp only [WTok.bytes, if_true, C01P.bytes_true], by omega, by decide⟩
  | int bits v hex =>
    cases hex
    · obtain ⟨neg, ds, hds, hne, hdig⟩ := intToDec_shape v
      cases neg
      · cases ds with
        | nil => exact absurd rfl hne
        | cons d ds =>
          refine ⟨d, ds ++ (if bits == 64 then [76] else []), ?_, ?_, blankFollow_digit (hdig d (List.mem_cons_self ..))⟩
          · simp only [WTok.bytes, Bool.false_eq_true, if_false, hds, signBytes, List.nil_append,
              List.cons_append]
          · have := isDigit_lt (hdig d (List.mem_cons_self ..)); omega
      · refine ⟨45, ds ++ (if bits == 64 then [76] else []), ?_, by omega, by decide⟩
        simp only [WTok.bytes, Bool.false_eq_true, if_false, hds, signBytes, if_true, List.cons_append,
          List.nil_append]
    · exact ⟨48, [120] ++ hexOfInt bits v ++ (if bits == 64 then [76] else []),
        by simp [WTok.bytes], by omega, by decide⟩
  | float b text =>
    simp only [GoodTok] at hg
    obtain ⟨neg, ip, fp, ex, rfl, hne, hip, _⟩ := hg.1
    cases neg
    · cases ip with
      | nil => exact absurd rfl hne
      | cons d ds =>
        refine ⟨d, ds ++ fp ++ ex, by simp [WTok.bytes, signBytes], ?_, blankFollow_digit (hip d (List.mem_cons_self ..))⟩
        have := isDigit_lt (hip d (List.mem_cons_self ..)); omega
    · exact ⟨45, ip ++ fp ++ ex, by simp [WTok.bytes, signBytes], by omega, by decide⟩
  | str x => exact ⟨34, escapeString x ++ [34], by simp [WTok.bytes], by omega, by decide⟩
  | unknown => exact absurd hg (by simp [GoodTok])

/-! ### building good sequences -/

theorem gs_nl {ts : List WTok} (h : GoodSeq ts) (hlt : FollowOK (fun _ => true) (bytesOf ts)) :
    GoodSeq (.ws [10] :: ts) :=
  ⟨.inl rfl, by simpa [itemFollow] using hlt, h⟩

theorem blank_ne_nl_tree {b : Bytes} (hb : ∀ x ∈ b, isBlank x = true) : b ≠ [10] := by
  intro e; subst e
  have := hb 10 (by simp); revert this; decide

theorem gs_blank {b : Bytes} {ts : List WTok} (hne : b ≠ []) (hb : ∀ x ∈ b, isBlank x = true)
    (h : GoodSeq ts) (hbf : FollowOK blankFollow (bytesOf ts)) : GoodSeq (.ws b :: ts) :=
  ⟨.inr ⟨hne, hb⟩, by simpa [itemFollow, blank_ne_nl_tree hb] using hbf, h⟩

theorem first_blank {b : Bytes} {ts : List WTok} (hne : b ≠ []) (hb : ∀ x ∈ b, isBlank x = true) :
    FollowOK (fun _ => true) (bytesOf (.ws b :: ts)) := by
  cases b with
  | nil => exact absurd rfl hne
  | cons x xs => exact followOK_cons (b := x) (bs := xs) rfl (isBlank_lt (hb x (List.mem_cons_self ..))) rfl

theorem indent_blank (d w : Nat) (hd : d > 1) : indent d w ≠ [] ∧ ∀ x ∈ indent d w, isBlank x = true := by
  unfold indent
  split
  · refine ⟨?_, fun x hx => ?_⟩
    · intro e
      have := congrArg List.length e
      simp only [List.length_replicate, List.length_nil] at this
      omega
    · rw [List.mem_replicate] at hx; rw [hx.2]; rfl
  · refine ⟨?_, fun x hx => ?_⟩
    · intro e
      have := congrArg List.length e
      simp only [List.length_replicate, List.length_nil] at this
      omega
    · rw [List.mem_replicate] at hx; rw [hx.2]; rfl

/-- the optional indentation in front of something that does not start with a blank -/
theorem gs_indent (d w : Nat) {ts : List WTok} (h : GoodSeq ts) (hbf : FollowOK blankFollow (bytesOf ts)) :
    GoodSeq ((if d > 1 then [WTok.ws (indent d w)] else []) ++ ts) ∧
    FollowOK (fun _ => true) (bytesOf ((if d > 1 then [WTok.ws (indent d w)] else []) ++ ts)) := by
  split
  · rename_i hd
    have := indent_blank d w hd
    exact ⟨gs_blank this.1 this.2 h hbf, first_blank this.1 this.2⟩
  · exact ⟨h, hbf.any⟩

/-- a single-byte token that may be followed by anything -/
theorem gs_single {t : WTok} {ts : List WTok} (hg : GoodTok t) (hfol : itemFollow t = fun _ => true)
    (h : GoodSeq ts) (hlt : FollowOK (fun _ => true) (bytesOf ts)) : GoodSeq (t :: ts) :=
  ⟨hg, by rw [hfol]; exact hlt, h⟩

theorem assignChar_cases (c : Config) (ty : Nat) :
    (if ty == T_GROUP then (if c.opt OPT_COLON_GROUPS then 58 else 61)
     else (if c.opt OPT_COLON_NONGROUPS then 58 else 61)) = 61 ∨
    (if ty == T_GROUP then (if c.opt OPT_COLON_GROUPS then 58 else 61)
     else (if c.opt OPT_COLON_NONGROUPS then 58 else 61)) = 58 := by
  split <;> split <;> simp

/-- indentation, name, blank, assignment character, blank — in front of a value -/
theorem gs_named (d w : Nat) (nm : Bytes) (ac : Nat) (V : List WTok) (hv : validName nm = true)
    (hb : isBoolWord nm = false) (hac : ac = 61 ∨ ac = 58) (hV : GoodSeq V)
    (hVf : FollowOK blankFollow (bytesOf V)) :
    GoodSeq ((if d > 1 then [WTok.ws (indent d w)] else []) ++
      [.name nm, .ws [32], .assign ac, .ws [32]] ++ V) ∧
    FollowOK (fun _ => true) (bytesOf ((if d > 1 then [WTok.ws (indent d w)] else []) ++
      [.name nm, .ws [32], .assign ac, .ws [32]] ++ V)) := by
  have h4 : GoodSeq (.ws [32] :: V) := gs_blank (by simp) (by decide) hV hVf
  have h3 : GoodSeq (.assign ac :: .ws [32] :: V) :=
    gs_single (by simpa [GoodTok] using hac) rfl h4 (first_blank (by simp) (by decide))
  have h3f : FollowOK blankFollow (bytesOf (.assign ac :: .ws [32] :: V)) := by
    rcases hac with rfl | rfl
    · exact followOK_cons (b := 61) (bs := []) rfl (by omega) (by decide)
    · exact followOK_cons (b := 58) (bs := []) rfl (by omega) (by decide)
  have h2 : GoodSeq (.ws [32] :: .assign ac :: .ws [32] :: V) := gs_blank (by simp) (by decide) h3 h3f
  have hgn : GoodTok (.name nm) := ⟨hv, hb⟩
  have h1 : GoodSeq (.name nm :: .ws [32] :: .assign ac :: .ws [32] :: V) :=
    ⟨hgn, followOK_cons (f := delim) (b := 32) (bs := []) rfl (by omega) (by decide), h2⟩
  obtain ⟨b, bs, hbb, h256, hbf⟩ := good_first (.name nm) hgn (fun b hb => by cases hb)
  have h1f : FollowOK blankFollow (bytesOf (.name nm :: .ws [32] :: .assign ac :: .ws [32] :: V)) :=
    followOK_cons hbb h256 hbf
  have e : (if d > 1 then [WTok.ws (indent d w)] else []) ++
      [.name nm, .ws [32], .assign ac, .ws [32]] ++ V =
      (if d > 1 then [WTok.ws (indent d w)] else []) ++
      (.name nm :: .ws [32] :: .assign ac :: .ws [32] :: V) := by simp
  rw [e]
  exact gs_indent d w h1 h1f

/-! ### scalars -/

theorem scalar_good (bufLen : Nat) (c : Config) (n : Node)
    (h : scalarOK bufLen c n.ty n.ival n.fval n.sval = true) :
    GoodTok (scalarTok bufLen c n) ∧ (∀ x, delim x = true → itemFollow (scalarTok bufLen c n) x = true) ∧
    (∀ b, scalarTok bufLen c n ≠ .ws b) := by
  unfold scalarOK at h
  unfold scalarTok
  simp only []
  split
  · exact ⟨trivial, fun x hx => hx, fun b => by simp⟩
  · rename_i h1
    simp only [h1, Bool.false_eq_true, if_false] at h
    split
    · rename_i h2
      simp only [h2, if_true] at h
      exact ⟨.inl ⟨rfl, h⟩, fun x hx => hx, fun b => by simp⟩
    · rename_i h2
      simp only [h2, Bool.false_eq_true, if_false] at h
      split
      · rename_i h3
        simp only [h3, if_true] at h
        exact ⟨.inr ⟨rfl, h⟩, fun x hx => hx, fun b => by simp⟩
      · rename_i h3
        simp only [h3, Bool.false_eq_true, if_false] at h
        split
        · rename_i h4
          simp only [h4, if_true, floatOK, Bool.and_eq_true, decide_eq_true_eq, Bool.not_eq_true'] at h
          exact ⟨⟨formatDouble_lit bufLen n.fval _ _ h.1.1 h.1.2, h.2⟩, fun x hx => hx, fun b => by simp⟩
        · rename_i h4
          simp only [h4, Bool.false_eq_true, if_false] at h
          split
          · rename_i h5
            simp only [h5, if_true, List.all_eq_true, Bool.and_eq_true, decide_eq_true_eq] at h
            exact ⟨h, fun _ _ => rfl, fun b => by simp⟩
          · rename_i h5
            simp only [h5, Bool.false_eq_true, if_false] at h

/-- optional `;` and newline after a member -/
theorem good_suffix (c : Config) (d : Nat) (hd : 0 < d) {ts : List WTok} (h : GoodSeq ts)
    (hlt : FollowOK (fun _ => true) (bytesOf ts)) :
    GoodSeq (suffixToks c d ++ ts) ∧ FollowOK delim (bytesOf (suffixToks c d ++ ts)) := by
  unfold suffixToks
  have hd0 : d > 0 := hd
  simp only [hd0, if_true]
  have hnl : GoodSeq (.ws [10] :: ts) := gs_nl h hlt
  split
  · exact ⟨gs_single trivial rfl hnl (followOK_cons (b := 10) (bs := []) rfl (by omega) rfl),
      followOK_cons (b := 59) (bs := []) rfl (by omega) (by decide)⟩
  · exact ⟨hnl, followOK_cons (b := 10) (bs := []) rfl (by omega) (by decide)⟩

/-! ### the tree -/

mutual
theorem good_value (bufLen : Nat) (c : Config) :
    (n : Node) → ∀ (d : Nat) (rest : List WTok), nodeOK bufLen c n = true → GoodSeq rest →
      FollowOK delim (bytesOf rest) →
      GoodSeq (wtoksValue bufLen c d n ++ rest) ∧
      (0 < d ∨ n.ty ≠ T_GROUP → FollowOK blankFollow (bytesOf (wtoksValue bufLen c d n ++ rest)))
  | .mk name ty fmt ival fval sval kids hook line file => by
    intro d rest hok hg hdl
    unfold nodeOK at hok
    simp only [Bool.and_eq_true] at hok
    obtain ⟨_, hok⟩ := hok
    unfold wtoksValue
    split
    · -- list
      rename_i hty
      simp only [hty, if_true] at hok
      have hclose : GoodSeq (.punct 41 :: rest) := gs_single (by simp [GoodTok]) rfl hg hdl.any
      have hcl1 : FollowOK blankFollow (bytesOf (.punct 41 :: rest)) :=
        followOK_cons (b := 41) (bs := []) rfl (by omega) (by decide)
      have he := good_elems bufLen c kids (d + 1) (.punct 41 :: rest) (by omega) hok hclose hcl1
      have e : [WTok.punct 40, .ws [32]] ++ wtoksElems bufLen c (d + 1) kids ++ [.punct 41] ++ rest =
          .punct 40 :: .ws [32] :: (wtoksElems bufLen c (d + 1) kids ++ .punct 41 :: rest) := by simp
      rw [e]
      have h1 : GoodSeq (.ws [32] :: (wtoksElems bufLen c (d + 1) kids ++ .punct 41 :: rest)) :=
        gs_blank (by simp) (by decide) he.1 he.2
      exact ⟨gs_single (by simp [GoodTok]) rfl h1 (first_blank (by simp) (by decide)),
        fun _ => followOK_cons (b := 40) (bs := []) rfl (by omega) (by decide)⟩
    · split
      · -- array
        rename_i _ hty
        simp only [hty, if_true, ite_self] at hok
        have hok' : nodesOK bufLen c kids = true := hok
        have hclose : GoodSeq (.punct 93 :: rest) := gs_single (by simp [GoodTok]) rfl hg hdl.any
        have hcl1 : FollowOK blankFollow (bytesOf (.punct 93 :: rest)) :=
          followOK_cons (b := 93) (bs := []) rfl (by omega) (by decide)
        have he := good_elems bufLen c kids (d + 1) (.punct 93 :: rest) (by omega) hok' hclose hcl1
        have e : [WTok.punct 91, .ws [32]] ++ wtoksElems bufLen c (d + 1) kids ++ [.punct 93] ++ rest =
            .punct 91 :: .ws [32] :: (wtoksElems bufLen c (d + 1) kids ++ .punct 93 :: rest) := by simp
        rw [e]
        have h1 : GoodSeq (.ws [32] :: (wtoksElems bufLen c (d + 1) kids ++ .punct 93 :: rest)) :=
          gs_blank (by simp) (by decide) he.1 he.2
        exact ⟨gs_single (by simp [GoodTok]) rfl h1 (first_blank (by simp) (by decide)),
          fun _ => followOK_cons (b := 91) (bs := []) rfl (by omega) (by decide)⟩
      · split
        · -- group
          rename_i hl ha hty
          simp only [hl, ha, hty, Bool.false_eq_true, if_false, if_true] at hok
          by_cases h0 : d > 0
          · -- braces
            have hP : GoodSeq (.punct 125 :: rest) := gs_single (by simp [GoodTok]) rfl hg hdl.any
            have hP1 : FollowOK blankFollow (bytesOf (.punct 125 :: rest)) :=
              followOK_cons (b := 125) (bs := []) rfl (by omega) (by decide)
            have hR := gs_indent d c.tabWidth hP hP1
            have hM := good_members bufLen c kids (d + 1) _ (by omega) hok hR.1 hR.2
            have hB : GoodSeq (.punct 123 :: .ws [10] :: (wtoksMembers bufLen c (d + 1) kids ++
                ((if d > 1 then [WTok.ws (indent d c.tabWidth)] else []) ++ .punct 125 :: rest))) :=
              gs_single (by simp [GoodTok]) rfl (gs_nl hM.1 hM.2)
                (followOK_cons (b := 10) (bs := []) rfl (by omega) rfl)
            have hB1 : FollowOK blankFollow (bytesOf (.punct 123 :: .ws [10] ::
                (wtoksMembers bufLen c (d + 1) kids ++
                ((if d > 1 then [WTok.ws (indent d c.tabWidth)] else []) ++ .punct 125 :: rest)))) :=
              followOK_cons (b := 123) (bs := []) rfl (by omega) (by decide)
            by_cases hbs : c.opt OPT_BRACE_SEPARATE = true
            · have hI := gs_indent d c.tabWidth hB hB1
              have e : (if d > 0 then
                    (if c.opt OPT_BRACE_SEPARATE = true then
                      [WTok.ws [10]] ++ (if d > 1 then [WTok.ws (indent d c.tabWidth)] else [])
                     else []) ++ [.punct 123, .ws [10]]
                   else []) ++ wtoksMembers bufLen c (d + 1) kids ++
                  (if d > 1 then [WTok.ws (indent d c.tabWidth)] else []) ++
                  (if d > 0 then [.punct 125] else []) ++ rest =
                  .ws [10] :: ((if d > 1 then [WTok.ws (indent d c.tabWidth)] else []) ++
                    .punct 123 :: .ws [10] :: (wtoksMembers bufLen c (d + 1) kids ++
                    ((if d > 1 then [WTok.ws (indent d c.tabWidth)] else []) ++ .punct 125 :: rest))) := by
                simp [h0, hbs]
              rw [e]
              exact ⟨gs_nl hI.1 hI.2, fun _ => followOK_cons (b := 10) (bs := []) rfl (by omega) (by decide)⟩
            · have e : (if d > 0 then
                    (if c.opt OPT_BRACE_SEPARATE = true then
                      [WTok.ws [10]] ++ (if d > 1 then [WTok.ws (indent d c.tabWidth)] else [])
                     else []) ++ [.punct 123, .ws [10]]
                   else []) ++ wtoksMembers bufLen c (d + 1) kids ++
                  (if d > 1 then [WTok.ws (indent d c.tabWidth)] else []) ++
                  (if d > 0 then [.punct 125] else []) ++ rest =
                  .punct 123 :: .ws [10] :: (wtoksMembers bufLen c (d + 1) kids ++
                    ((if d > 1 then [WTok.ws (indent d c.tabWidth)] else []) ++ .punct 125 :: rest)) := by
                simp [h0, hbs]
              rw [e]
              exact ⟨hB, fun _ => hB1⟩
          · -- the root: no braces
            have h1 : ¬ d > 1 := by omega
            have hM := good_members bufLen c kids (d + 1) rest (by omega) hok hg hdl.any
            have e : (if d > 0 then
                  (if c.opt OPT_BRACE_SEPARATE = true then
                    [WTok.ws [10]] ++ (if d > 1 then [WTok.ws (indent d c.tabWidth)] else [])
                   else []) ++ [.punct 123, .ws [10]]
                 else []) ++ wtoksMembers bufLen c (d + 1) kids ++
                (if d > 1 then [WTok.ws (indent d c.tabWidth)] else []) ++
                (if d > 0 then [.punct 125] else []) ++ rest =
                wtoksMembers bufLen c (d + 1) kids ++ rest := by
              simp [h0, h1]
            rw [e]
            refine ⟨hM.1, fun h => ?_⟩
            rcases h with h | h
            · exact absurd h h0
            · exact absurd (by simpa using hty) h
        · -- scalar
          rename_i hl ha hgr
          simp only [hl, ha, hgr, Bool.false_eq_true, if_false] at hok
          have hs := scalar_good bufLen c (.mk name ty fmt ival fval sval [] hook line file) hok
          obtain ⟨b, bs, hb, h256, hbf⟩ := good_first _ hs.1 (fun b hb => absurd hb (hs.2.2 b))
          exact ⟨⟨hs.1, hdl.weaken hs.2.1, hg⟩, fun _ => followOK_cons hb h256 hbf⟩
theorem good_elems (bufLen : Nat) (c : Config) :
    (ks : List Node) → ∀ (d : Nat) (rest : List WTok), 0 < d → nodesOK bufLen c ks = true → GoodSeq rest →
      FollowOK blankFollow (bytesOf rest) →
      GoodSeq (wtoksElems bufLen c d ks ++ rest) ∧
      FollowOK blankFollow (bytesOf (wtoksElems bufLen c d ks ++ rest))
  | [] => by
    intro d rest _ _ hg hbf
    simp only [wtoksElems, List.nil_append]
    exact ⟨hg, hbf⟩
  | k :: ks => by
    intro d rest hd hok hg hbf
    unfold nodesOK at hok
    simp only [Bool.and_eq_true] at hok
    unfold wtoksElems
    have ih := good_elems bufLen c ks d rest hd hok.2 hg hbf
    have h1 : GoodSeq (.ws [32] :: (wtoksElems bufLen c d ks ++ rest)) :=
      gs_blank (by simp) (by decide) ih.1 ih.2
    have h1f : FollowOK (fun _ => true) (bytesOf (.ws [32] :: (wtoksElems bufLen c d ks ++ rest))) :=
      first_blank (by simp) (by decide)
    have h2 : GoodSeq ((if ks.isEmpty then [] else [WTok.comma]) ++
        .ws [32] :: (wtoksElems bufLen c d ks ++ rest)) ∧
        FollowOK delim (bytesOf ((if ks.isEmpty then [] else [WTok.comma]) ++
        .ws [32] :: (wtoksElems bufLen c d ks ++ rest))) := by
      split
      · exact ⟨h1, followOK_cons (b := 32) (bs := []) rfl (by omega) (by decide)⟩
      · exact ⟨gs_single trivial rfl h1 h1f, followOK_cons (b := 44) (bs := []) rfl (by omega) (by decide)⟩
    have hv := good_value bufLen c k d _ hok.1 h2.1 h2.2
    have e : wtoksValue bufLen c d k ++ (if ks.isEmpty then [] else [WTok.comma]) ++ [.ws [32]] ++
        wtoksElems bufLen c d ks ++ rest =
        wtoksValue bufLen c d k ++ ((if ks.isEmpty then [] else [WTok.comma]) ++
        .ws [32] :: (wtoksElems bufLen c d ks ++ rest)) := by simp
    rw [e]
    exact ⟨hv.1, hv.2 (.inl hd)⟩
theorem good_members (bufLen : Nat) (c : Config) :
    (ks : List Node) → ∀ (d : Nat) (rest : List WTok), 0 < d → nodesOK bufLen c ks = true → GoodSeq rest →
      FollowOK (fun _ => true) (bytesOf rest) →
      GoodSeq (wtoksMembers bufLen c d ks ++ rest) ∧
      FollowOK (fun _ => true) (bytesOf (wtoksMembers bufLen c d ks ++ rest))
  | [] => by
    intro d rest _ _ hg hlt
    simp only [wtoksMembers, List.nil_append]
    exact ⟨hg, hlt⟩
  | k :: ks => by
    intro d rest hd hok hg hlt
    unfold nodesOK at hok
    simp only [Bool.and_eq_true] at hok
    unfold wtoksMembers
    have ih := good_members bufLen c ks d rest hd hok.2 hg hlt
    -- the suffix: optional `;`, newline
    have hd0 : d > 0 := hd
    have hsuf : GoodSeq (suffixToks c d ++ (wtoksMembers bufLen c d ks ++ rest)) ∧
        FollowOK delim (bytesOf (suffixToks c d ++ (wtoksMembers bufLen c d ks ++ rest))) := by
      unfold suffixToks
      simp only [hd0, if_true]
      have hnl : GoodSeq (.ws [10] :: (wtoksMembers bufLen c d ks ++ rest)) := gs_nl ih.1 ih.2
      split
      · exact ⟨gs_single trivial rfl hnl (followOK_cons (b := 10) (bs := []) rfl (by omega) rfl),
          followOK_cons (b := 59) (bs := []) rfl (by omega) (by decide)⟩
      · exact ⟨hnl, followOK_cons (b := 10) (bs := []) rfl (by omega) (by decide)⟩
    have hv := good_value bufLen c k d _ hok.1 hsuf.1 hsuf.2
    have hv2 := hv.2 (.inl hd)
    -- the name and the assignment character
    have hkname : nameOK k.name = true := by
      have := hok.1
      cases k with
      | mk name ty fmt ival fval sval kids hook line file =>
        unfold nodeOK at this
        simp only [Bool.and_eq_true] at this
        exact this.1
    have hpre : GoodSeq (prefixToks c d k.name k.ty ++ (wtoksValue bufLen c d k ++
          (suffixToks c d ++ (wtoksMembers bufLen c d ks ++ rest)))) ∧
        FollowOK (fun _ => true) (bytesOf (prefixToks c d k.name k.ty ++ (wtoksValue bufLen c d k ++
          (suffixToks c d ++ (wtoksMembers bufLen c d ks ++ rest))))) := by
      unfold prefixToks
      cases hn : k.name with
      | none =>
        simp only [List.append_nil]
        exact gs_indent d c.tabWidth hv.1 hv2
      | some nm =>
        rw [hn] at hkname
        simp only [nameOK, Bool.and_eq_true, Bool.not_eq_true'] at hkname
        simp only []
        exact gs_named d c.tabWidth nm _ _ hkname.1 hkname.2 (assignChar_cases c k.ty) hv.1 hv2
    have e : prefixToks c d k.name k.ty ++ wtoksValue bufLen c d k ++ suffixToks c d ++
        wtoksMembers bufLen c d ks ++ rest =
        prefixToks c d k.name k.ty ++ (wtoksValue bufLen c d k ++
          (suffixToks c d ++ (wtoksMembers bufLen c d ks ++ rest))) := by simp
    rw [e]
    exact hpre
end

/-- the members of the top-level group start with a name (or, for a nameless member, with its
value): not with a blank -/
theorem members_first (bufLen : Nat) (c : Config) (ks : List Node) (hok : nodesOK bufLen c ks = true) :
    FollowOK blankFollow (bytesOf (wtoksMembers bufLen c 1 ks ++ [])) := by
  cases ks with
  | nil => intro x hx; simp [wtoksMembers, bytesOf] at hx
  | cons k ks =>
    unfold nodesOK at hok
    simp only [Bool.and_eq_true] at hok
    have hm := good_members bufLen c ks 1 [] (by omega) hok.2 trivial (fun _ h => by cases h)
    have hsuf := good_suffix c 1 (by omega) hm.1 hm.2
    have hv := good_value bufLen c k 1 _ hok.1 hsuf.1 hsuf.2
    have hkname : nameOK k.name = true := by
      have := hok.1
      cases k with
      | mk name ty fmt ival fval sval kids hook line file =>
        unfold nodeOK at this
        simp only [Bool.and_eq_true] at this
        exact this.1
    unfold wtoksMembers prefixToks
    have e1 : ¬ (1 > 1) := by omega
    cases hn : k.name with
    | none =>
      simp only [e1, if_false, List.nil_append, List.append_nil, List.append_assoc]
      have := hv.2 (.inl (by omega))
      simpa [List.append_assoc] using this
    | some nm =>
      rw [hn] at hkname
      simp only [nameOK, Bool.and_eq_true, Bool.not_eq_true'] at hkname
      obtain ⟨b, bs, hbb, h256, hbf⟩ := good_first (.name nm) ⟨hkname.1, hkname.2⟩ (fun b hb => by cases hb)
      simp only [e1, if_false, List.nil_append, List.cons_append, List.append_assoc]
      exact followOK_cons hbb h256 hbf

/-- the item sequence of a configuration -/
theorem config_good (bufLen : Nat) (c : Config) (hok : nodeOK bufLen c c.root = true) :
    GoodSeq (wtoksConfig bufLen c) := by
  have hv := good_value bufLen c c.root 0 [] hok trivial (fun _ h => by cases h)
  have hs : suffixToks c 0 = [] := by simp [suffixToks]
  cases hn : c.root.name with
  | none =>
    have e : wtoksConfig bufLen c = wtoksValue bufLen c 0 c.root ++ [] := by
      simp [wtoksConfig, prefixToks, hs, hn]
    rw [e]; exact hv.1
  | some nm =>
    have hname : nameOK c.root.name = true := by
      cases hr : c.root with
      | mk name ty fmt ival fval sval kids hook line file =>
        rw [hr] at hok
        unfold nodeOK at hok
        simp only [Bool.and_eq_true] at hok
        exact hok.1
    rw [hn] at hname
    simp only [nameOK, Bool.and_eq_true, Bool.not_eq_true'] at hname
    -- what follows `name = ` does not start with a blank
    have hbf : FollowOK blankFollow (bytesOf (wtoksValue bufLen c 0 c.root ++ [])) := by
      by_cases hg : c.root.ty = T_GROUP
      · cases hr : c.root with
        | mk name ty fmt ival fval sval kids hook line file =>
          rw [hr] at hok hg
          simp only at hg
          subst hg
          unfold nodeOK at hok
          simp only [Bool.and_eq_true] at hok
          have hk : nodesOK bufLen c kids = true := by simpa using hok.2
          have := members_first bufLen c kids hk
          unfold wtoksValue
          simpa [T_GROUP, T_LIST, T_ARRAY] using this
      · exact hv.2 (.inr hg)
    have e : wtoksConfig bufLen c =
        (if 0 > 1 then [WTok.ws (indent 0 c.tabWidth)] else []) ++
        [.name nm, .ws [32],
         .assign (if c.root.ty == T_GROUP then (if c.opt OPT_COLON_GROUPS then 58 else 61)
                  else (if c.opt OPT_COLON_NONGROUPS then 58 else 61)), .ws [32]] ++
        (wtoksValue bufLen c 0 c.root ++ []) := by
      simp [wtoksConfig, prefixToks, hs, hn]
    rw [e]
    exact (gs_named 0 c.tabWidth nm _ _ hname.1 hname.2 (assignChar_cases c c.root.ty) hv.1 hbf).1

end Libconfig.C01L
