import LibconfigModel.Flex
import LibconfigModel.Parser
/-
  Property C03, generated-table safety: Bool-valued checkers that mirror the table
  accesses of the flex matching loop (`Flex.trans`) and of the bison skeleton
  (`yyparseLoop`), written so that the kernel can evaluate them over the translated
  tables (structural recursion on counters, `Nat.blt`/`Nat.ble`, packed tables), and
  the lemmas that turn `checker = true` into the quantified statements.
-/
namespace Libconfig.C03P

open Libconfig

/-- `p 0 && … && p (n-1)`, by structural recursion -/
def allBelow (p : Nat → Bool) : Nat → Bool
  | 0 => true
  | n + 1 => p n && allBelow p n

theorem allBelow_spec {p : Nat → Bool} : ∀ {n : Nat}, allBelow p n = true → ∀ i, i < n → p i = true
  | 0, _, i, hi => by omega
  | n + 1, h, i, hi => by
    simp only [allBelow, Bool.and_eq_true] at h
    by_cases hin : i = n
    · subst hin; exact h.1
    · exact allBelow_spec h.2 i (by omega)

/-! ### the flex transition function -/

/-- `Flex.trans` with every table access checked: the state indexes `yy_base` and `yy_def`,
`yy_base[s] + c` indexes `yy_chk` and `yy_nxt`, the class indexes `yy_meta` when the
default chain enters the template states, the state delivered is one of `1 … jam state`,
and the chase ends before the fuel does (`false` in the `0` case). -/
def transSafe (T : FlexTables) : Nat → Nat → Nat → Bool
  | 0, _, _ => false
  | fuel + 1, s, c =>
    Nat.blt s T.base.len && (Nat.blt s T.deflt.len &&
    (Nat.blt (T.base.getN s + c) T.chk.len && (Nat.blt (T.base.getN s + c) T.nxt.len &&
    (if T.chk.getN (T.base.getN s + c) == s then
       Nat.ble 1 (T.nxt.getN (T.base.getN s + c)) && Nat.ble (T.nxt.getN (T.base.getN s + c)) T.jamState
     else
       (if T.deflt.getN s ≥ T.metaThreshold then Nat.blt c T.metaT.len else true) &&
       transSafe T fuel (T.deflt.getN s)
         (if T.deflt.getN s ≥ T.metaThreshold then T.metaT.getN c else c)))))

/-- a safe chase delivers a state of the automaton -/
theorem transSafe_le (T : FlexTables) : ∀ (fuel s c : Nat), transSafe T fuel s c = true →
    1 ≤ Flex.trans T fuel s c ∧ Flex.trans T fuel s c ≤ T.jamState
  | 0, _, _, h => by simp [transSafe] at h
  | fuel + 1, s, c, h => by
    simp only [transSafe, Bool.and_eq_true] at h
    obtain ⟨_, _, _, _, h⟩ := h
    rw [Flex.trans]
    split
    · rename_i heq
      rw [if_pos heq, Bool.and_eq_true] at h
      exact ⟨Nat.le_of_ble_eq_true h.1, Nat.le_of_ble_eq_true h.2⟩
    · rename_i hne
      rw [if_neg hne, Bool.and_eq_true] at h
      exact transSafe_le T fuel _ _ h.2

/-- a safe chase does not depend on the fuel it was given: it never reaches the `0` case -/
theorem transSafe_fuel (T : FlexTables) : ∀ (fuel s c : Nat), transSafe T fuel s c = true →
    ∀ k, Flex.trans T (fuel + k) s c = Flex.trans T fuel s c
  | 0, _, _, h => by simp [transSafe] at h
  | fuel + 1, s, c, h => by
    intro k
    simp only [transSafe, Bool.and_eq_true] at h
    obtain ⟨_, _, _, _, h⟩ := h
    have e : fuel + 1 + k = (fuel + k) + 1 := by omega
    rw [e, Flex.trans, Flex.trans]
    split
    · rfl
    · rename_i hne
      rw [if_neg hne, Bool.and_eq_true] at h
      exact transSafe_fuel T fuel _ _ h.2 k

/-- the bounds of the first access of a safe chase, as propositions -/
theorem transSafe_first (T : FlexTables) (fuel s c : Nat) (h : transSafe T (fuel + 1) s c = true) :
    s < T.base.len ∧ s < T.deflt.len ∧ T.base.getN s + c < T.chk.len ∧ T.base.getN s + c < T.nxt.len := by
  simp only [transSafe, Bool.and_eq_true] at h
  obtain ⟨h1, h2, h3, h4, _⟩ := h
  exact ⟨Nat.le_of_ble_eq_true h1, Nat.le_of_ble_eq_true h2, Nat.le_of_ble_eq_true h3,
    Nat.le_of_ble_eq_true h4⟩

/-- every state `1 … nStates-1` (flex numbers its states from 1) with every class `< nClasses`
(class 0 is what the end-of-buffer NUL maps to), with the fuel `Flex.step` supplies -/
def flexTransOK (T : FlexTables) (nStates nClasses : Nat) : Bool :=
  allBelow (fun s => Nat.beq s 0 || allBelow (fun c => transSafe T (T.base.len + 1) s c) nClasses) nStates

theorem flexTransOK_spec {T : FlexTables} {nStates nClasses : Nat} (h : flexTransOK T nStates nClasses = true) :
    ∀ s c, 1 ≤ s → s < nStates → c < nClasses → transSafe T (T.base.len + 1) s c = true := by
  intro s c h1 hs hc
  have := allBelow_spec h s hs
  simp only [Bool.or_eq_true] at this
  rcases this with h0 | h2
  · have := Nat.eq_of_beq_eq_true h0; omega
  · exact allBelow_spec h2 c hc

/-- `yy_ec` has 256 entries, each a class `< nClasses`; the class used for an embedded NUL
is one of them; `yy_meta` maps classes to classes; `yy_accept` covers every state and names
a rule or the end-of-buffer action. -/
def flexClassesOK (T : FlexTables) (nClasses : Nat) : Bool :=
  Nat.beq T.ec.len 256 &&
  (allBelow (fun b => Nat.blt (T.ec.getN b) nClasses) 256 &&
  (Nat.blt T.nulClass nClasses &&
  (Nat.beq T.metaT.len nClasses &&
  (allBelow (fun c => Nat.blt (T.metaT.getN c) nClasses) nClasses &&
  (Nat.beq T.accept.len (T.jamState + 1) &&
  (allBelow (fun s => Nat.ble (T.accept.getN s) T.endOfBuffer) (T.jamState + 1) &&
   Nat.beq T.endOfBuffer (T.numRules + 1)))))))

theorem classOf_lt {T : FlexTables} {nClasses : Nat} (h : flexClassesOK T nClasses = true) (b : Nat)
    (hb : b < 256) : Flex.classOf T b < nClasses := by
  simp only [flexClassesOK, Bool.and_eq_true] at h
  obtain ⟨_, hec, hn2, _⟩ := h
  unfold Flex.classOf
  split
  · exact Nat.le_of_ble_eq_true hn2
  · exact Nat.le_of_ble_eq_true (allBelow_spec hec b hb)

/-- one step of the automaton on a byte, from a checked table: the result is a state, and
giving `Flex.trans` more fuel does not change it -/
theorem step_safe {T : FlexTables} {nClasses : Nat}
    (ht : flexTransOK T (T.jamState + 1) nClasses = true) (hc : flexClassesOK T nClasses = true)
    (s b : Nat) (h1 : 1 ≤ s) (hs : s ≤ T.jamState) (hb : b < 256) :
    1 ≤ Flex.step T s b ∧ Flex.step T s b ≤ T.jamState ∧ Flex.step T s b < T.accept.len ∧
    ∀ k, Flex.trans T (T.base.len + 1 + k) s (Flex.classOf T b) = Flex.step T s b := by
  have hsafe := flexTransOK_spec ht s (Flex.classOf T b) h1 (by omega) (classOf_lt hc b hb)
  have hle := transSafe_le T _ _ _ hsafe
  refine ⟨hle.1, hle.2, ?_, transSafe_fuel T _ _ _ hsafe⟩
  simp only [flexClassesOK, Bool.and_eq_true] at hc
  have := Nat.eq_of_beq_eq_true hc.2.2.2.2.2.1
  have h2 := hle.2
  unfold Flex.step at h2 ⊢
  omega

/-! ### the bison tables -/

/-- `0 ≤ i`, as a Bool -/
def nonneg (i : Int) : Bool := decide (0 ≤ i)

/-- the accesses of `yybackup` for parser state `state` and token kind `tok`: `yypact[state]`,
and — when `yypact[state] + tok` is in `0 … YYLAST` — `yycheck`, `yytable`; a positive entry
is a shift to a state `< nstates`, a non-positive one a reduction by a rule `1 … nrules`. -/
def actionOK (P : LalrTables) (state tok : Nat) : Bool :=
  Nat.blt state P.pact.len &&
  (let yyn := P.pact.get state
   let idx := yyn + tok
   if yyn == P.pactNinf then true
   else if idx < 0 || idx > P.last then true
   else
     Nat.blt idx.toNat P.check.len && (Nat.blt idx.toNat P.table.len &&
     (if P.check.get idx.toNat != tok then true
      else
        let a := P.table.get idx.toNat
        if a ≤ 0 then
          (if a == P.tableNinf then true else Nat.ble 1 (-a).toNat && Nat.ble (-a).toNat P.nrules)
        else Nat.blt a.toNat P.nstates)))

/-- the default reduction of a state: `yydefact[state]` is `0` (error) or a rule number -/
def defactOK (P : LalrTables) (state : Nat) : Bool :=
  Nat.blt state P.defact.len && (nonneg (P.defact.get state) && Nat.ble (P.defact.get state).toNat P.nrules)

/-- the accesses of `yyreduce` for rule `rule` when state `top` is uncovered: `yyr1`, `yyr2`,
`yypgoto`, `yydefgoto`, and — when `yypgoto[lhs] + top` is in `0 … YYLAST` — `yycheck`,
`yytable`; the state pushed is `< nstates`. -/
def gotoOK (P : LalrTables) (rule top : Nat) : Bool :=
  Nat.blt rule P.r1.len && (Nat.blt rule P.r2.len && (nonneg (P.r2.get rule) &&
  (decide ((P.ntokens : Int) ≤ P.r1.get rule) &&
  (let lhs := (P.r1.get rule).toNat - P.ntokens
   Nat.blt lhs P.pgoto.len && (Nat.blt lhs P.defgoto.len &&
   (let yyi := P.pgoto.get lhs + top
    if 0 ≤ yyi && yyi ≤ P.last then
      Nat.blt yyi.toNat P.check.len && (Nat.blt yyi.toNat P.table.len &&
      (if P.check.get yyi.toNat == top then
         nonneg (P.table.get yyi.toNat) && Nat.blt (P.table.get yyi.toNat).toNat P.nstates
       else nonneg (P.defgoto.get lhs) && Nat.blt (P.defgoto.get lhs).toNat P.nstates))
    else nonneg (P.defgoto.get lhs) && Nat.blt (P.defgoto.get lhs).toNat P.nstates))))))

/-- `YYTRANSLATE`: the table has `YYMAXUTOK + 1` entries, each a token kind; the kind used for
out-of-range token numbers (2, "invalid token") is one too -/
def translateOK (P : LalrTables) : Bool :=
  Nat.beq P.translate.len (P.maxutok + 1) && (Nat.blt 2 P.ntokens &&
  allBelow (fun t => nonneg (P.translate.get t) && Nat.blt (P.translate.get t).toNat P.ntokens) (P.maxutok + 1))

def lalrBoundsOK (P : LalrTables) : Bool :=
  allBelow (fun state => defactOK P state && allBelow (fun tok => actionOK P state tok) P.ntokens) P.nstates &&
  (allBelow (fun rule => rule == 0 || allBelow (fun top => gotoOK P rule top) P.nstates) (P.nrules + 1) &&
  (translateOK P && (Nat.blt P.final P.nstates && Nat.ble 1 P.nstates)))

theorem lalrBoundsOK_action {P : LalrTables} (h : lalrBoundsOK P = true) (state tok : Nat)
    (hs : state < P.nstates) (ht : tok < P.ntokens) : actionOK P state tok = true ∧ defactOK P state = true := by
  simp only [lalrBoundsOK, Bool.and_eq_true] at h
  have := allBelow_spec h.1 state hs
  simp only [Bool.and_eq_true] at this
  exact ⟨allBelow_spec this.2 tok ht, this.1⟩

theorem lalrBoundsOK_goto {P : LalrTables} (h : lalrBoundsOK P = true) (rule top : Nat)
    (h1 : 1 ≤ rule) (hr : rule ≤ P.nrules) (ht : top < P.nstates) : gotoOK P rule top = true := by
  simp only [lalrBoundsOK, Bool.and_eq_true] at h
  have := allBelow_spec h.2.1 rule (by omega)
  simp only [Bool.or_eq_true, beq_iff_eq] at this
  rcases this with h0 | h2
  · omega
  · exact allBelow_spec h2 top ht

theorem translateTok_lt {P : LalrTables} (h : lalrBoundsOK P = true) (t : Nat) :
    translateTok P t < P.ntokens := by
  simp only [lalrBoundsOK, translateOK, Bool.and_eq_true] at h
  obtain ⟨_, _, ⟨_, h2, htr⟩, _⟩ := h
  have h2' : 2 < P.ntokens := Nat.le_of_ble_eq_true h2
  unfold translateTok
  split
  · omega
  · split
    · rename_i hle
      have := allBelow_spec htr t (by omega)
      simp only [Bool.and_eq_true] at this
      exact Nat.le_of_ble_eq_true this.2
    · exact h2'

/-- no state shifts the `error` token (symbol kind 1): `yyerrlab1` would pop the whole stack
and abort, which is what the model's immediate abort does -/
def noErrorShift (P : LalrTables) : Bool :=
  allBelow (fun state =>
    let yyn := P.pact.get state
    if yyn == P.pactNinf then true
    else
      let idx := yyn + 1
      if idx < 0 || idx > P.last then true
      else P.check.get idx.toNat != 1) P.nstates

theorem noErrorShift_spec {P : LalrTables} (h : noErrorShift P = true) (state : Nat) (hs : state < P.nstates) :
    P.pact.get state = P.pactNinf ∨ P.pact.get state + 1 < 0 ∨ P.pact.get state + 1 > P.last ∨
      P.check.get (P.pact.get state + 1).toNat ≠ 1 := by
  have := allBelow_spec h state hs
  simp only at this
  split at this
  · rename_i heq; exact .inl (by simpa using heq)
  · split at this
    · rename_i hor
      simp only [Bool.or_eq_true, decide_eq_true_eq] at hor
      rcases hor with h1 | h2
      · exact .inr (.inl h1)
      · exact .inr (.inr (.inl h2))
    · exact .inr (.inr (.inr (by simpa using this)))

end Libconfig.C03P
