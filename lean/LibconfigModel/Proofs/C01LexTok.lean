import LibconfigModel.Proofs.C01LexSim
import LibconfigModel.Proofs.C01
/-
  C01L, part 3 (M1) — the lexemes of the writer as paths of the abstract automaton:
  for each kind of item, the automaton stays alive over the item's bytes, ends in a state
  accepting the rule of that kind, and jams on every byte that can follow the item.
-/
namespace Libconfig.C01L
open Flex

/-- bytes `0 … n-1` satisfy `P` -/
def allBelow (P : Nat → Bool) : Nat → Bool
  | 0 => true
  | n + 1 => P n && allBelow P n

theorem allBelow_spec {P : Nat → Bool} : ∀ {n : Nat}, allBelow P n = true → ∀ b, b < n → P b = true := by
  intro n
  induction n with
  | zero => intro _ b hb; omega
  | succ n ih =>
    intro h b hb
    simp only [allBelow, Bool.and_eq_true] at h
    by_cases hbn : b = n
    · subst hbn; exact h.1
    · exact ih h.2 b (by omega)

/-- `bytes` is a lexeme of rule `r` in INITIAL, delimited by any byte of `follow` -/
structure Lexeme (bytes : Bytes) (r : Nat) (follow : Nat → Bool) : Prop where
  lt : ∀ b ∈ bytes, b < 256
  alive : ∀ bol, alive (.start bol) bytes = true
  acc : ∀ bol, aacc (arun (.start bol) bytes) = r
  stop : ∀ bol c, c < 256 → follow c = true → astep (arun (.start bol) bytes) c = .jam

/-- the first byte of what follows is a delimiter (or nothing follows) -/
def FollowOK (follow : Nat → Bool) (rest : Bytes) : Prop :=
  ∀ c, rest.head? = some c → c < 256 ∧ follow c = true

theorem Lexeme.next {bytes : Bytes} {r : Nat} {follow : Nat → Bool} (h : Lexeme bytes r follow)
    (hr : r ≠ 0) (bol : Bool) (rest : Bytes) (hf : FollowOK follow rest) :
    next T 0 bol (bytes ++ rest) = some (r, bytes.length) := by
  have := next_abs bol bytes rest h.lt (h.alive bol) (by rw [h.acc bol]; exact hr) (by
    cases rest with
    | nil => exact .inl rfl
    | cons c cs =>
      have hc := hf c rfl
      exact .inr ⟨c, cs, rfl, hc.1, h.stop bol c hc.1 hc.2⟩)
  rw [this, h.acc bol]

/-! ### single-character tokens and the newline -/

/-- the single bytes the writer emits as tokens, and the newline -/
def isPunct (c : Nat) : Bool :=
  c == 10 || c == 61 || c == 58 || c == 44 || c == 123 || c == 125 || c == 91 || c == 93 ||
  c == 40 || c == 41 || c == 59

theorem lex_punct (c : Nat) (h : isPunct c = true) : Lexeme [c] (punctRule c) (fun _ => true) := by
  simp only [isPunct, Bool.or_eq_true, beq_iff_eq] at h
  have hcases : c = 10 ∨ c = 61 ∨ c = 58 ∨ c = 44 ∨ c = 123 ∨ c = 125 ∨ c = 91 ∨ c = 93 ∨
      c = 40 ∨ c = 41 ∨ c = 59 := by omega
  rcases hcases with rfl | rfl | rfl | rfl | rfl | rfl | rfl | rfl | rfl | rfl | rfl <;>
    exact ⟨by simp, fun bol => by cases bol <;> rfl, fun bol => by cases bol <;> rfl,
      fun bol c _ _ => by cases bol <;> rfl⟩

/-- the opening quote of a string (rule 8) -/
theorem lex_quote : Lexeme [34] 8 (fun _ => true) :=
  ⟨by simp, fun bol => by cases bol <;> rfl, fun bol => by cases bol <;> rfl,
    fun bol c _ _ => by cases bol <;> rfl⟩

/-! ### runs of blanks -/

def blankFollow (c : Nat) : Bool := !isBlank c && c != 64

theorem run_blank (bol : Bool) : ∀ (bs : Bytes), (∀ b ∈ bs, isBlank b = true) →
    arun (.ws bol) bs = .ws bol ∧ alive (.ws bol) bs = true := by
  intro bs
  induction bs with
  | nil => intro _; exact ⟨rfl, rfl⟩
  | cons b bs ih =>
    intro h
    have hb := h b (List.mem_cons_self ..)
    have := ih (fun x hx => h x (List.mem_cons_of_mem _ hx))
    simp only [arun, alive, astep, hb, if_true, A.live, Bool.true_and]
    exact this

theorem isBlank_lt {b : Nat} (h : isBlank b = true) : b < 256 := by
  simp only [isBlank, Bool.or_eq_true, beq_iff_eq] at h; omega

theorem lex_blank (bs : Bytes) (hne : bs ≠ []) (h : ∀ b ∈ bs, isBlank b = true) :
    Lexeme bs 29 blankFollow := by
  cases bs with
  | nil => exact absurd rfl hne
  | cons b bs =>
    have hb := h b (List.mem_cons_self ..)
    have hrun := fun bol => run_blank bol bs (fun x hx => h x (List.mem_cons_of_mem _ hx))
    have hstep : ∀ bol, astep (.start bol) b = .ws bol := by
      intro bol; simp only [astep, hb, if_true]
    refine ⟨fun x hx => isBlank_lt (h x hx), fun bol => ?_, fun bol => ?_, fun bol c _ hc => ?_⟩
    · simp only [alive, hstep, A.live, Bool.true_and]; exact (hrun bol).2
    · simp only [arun, hstep, (hrun bol).1]; rfl
    · simp only [arun, hstep, (hrun bol).1]
      simp only [blankFollow, Bool.and_eq_true, Bool.not_eq_true', bne_iff_ne, ne_eq] at hc
      simp only [astep, hc.1, Bool.false_eq_true, if_false]
      have : (c == 64) = false := by simpa using hc.2
      simp [this]

/-! ### names and the two keywords -/

def kwWord (t : Bool) : Bytes := if t then [116, 114, 117, 101] else [102, 97, 108, 115, 101]

/-- the name spells `true` or `false` in some mixture of cases -/
def isBoolWord (nm : Bytes) : Bool := nm.map lower == kwWord true || nm.map lower == kwWord false

def nameFollow (c : Nat) : Bool := !nameRest c

def nameStartFact (bol : Bool) (b : Nat) : Bool :=
  !(isAlpha b || b == 42) ||
  A.beq (astep (.start bol) b)
    (if lower b == 116 then .kw true 1 else if lower b == 102 then .kw false 1 else .name)

theorem nameStart_ok :
    allBelow (nameStartFact false) 256 = true ∧ allBelow (nameStartFact true) 256 = true := by
  decide +kernel

theorem isAlpha_lt {b : Nat} (h : isAlpha b = true) : b < 128 := by
  simp only [isAlpha, isUpper, isLower, Bool.or_eq_true, Bool.and_eq_true, decide_eq_true_eq] at h
  omega

theorem nameRest_lt {b : Nat} (h : nameRest b = true) : b < 128 := by
  simp only [nameRest, isAlpha, isUpper, isLower, isDigit, Bool.or_eq_true, Bool.and_eq_true,
    decide_eq_true_eq, beq_iff_eq] at h
  omega

theorem astep_start_name (bol : Bool) (b : Nat) (h : (isAlpha b || b == 42) = true) :
    astep (.start bol) b =
      (if lower b == 116 then .kw true 1 else if lower b == 102 then .kw false 1 else .name) := by
  have hb : b < 256 := by
    simp only [Bool.or_eq_true, beq_iff_eq] at h
    rcases h with h | h
    · have := isAlpha_lt h; omega
    · omega
  have hf : nameStartFact bol b = true := by
    cases bol
    · exact allBelow_spec nameStart_ok.1 b hb
    · exact allBelow_spec nameStart_ok.2 b hb
  unfold nameStartFact at hf
  rw [h] at hf
  exact A.beq_eq (by simpa using hf)

theorem run_name : ∀ (cs : Bytes), (∀ c ∈ cs, nameRest c = true) →
    arun .name cs = .name ∧ alive .name cs = true := by
  intro cs
  induction cs with
  | nil => intro _; exact ⟨rfl, rfl⟩
  | cons c cs ih =>
    intro h
    have hc := h c (List.mem_cons_self ..)
    simp only [arun, alive, astep, hc, if_true, A.live, Bool.true_and]
    exact ih (fun x hx => h x (List.mem_cons_of_mem _ hx))

theorem kwLen_true : kwLen true = 4 := rfl
theorem kwLen_false : kwLen false = 5 := rfl

theorem kwWord_drop (t : Bool) (i : Nat) (h : i < kwLen t) :
    (kwWord t).drop i = kwByte t i :: (kwWord t).drop (i + 1) := by
  cases t
  · have : i = 0 ∨ i = 1 ∨ i = 2 ∨ i = 3 ∨ i = 4 := by rw [kwLen_false] at h; omega
    rcases this with rfl | rfl | rfl | rfl | rfl <;> rfl
  · have : i = 0 ∨ i = 1 ∨ i = 2 ∨ i = 3 := by rw [kwLen_true] at h; omega
    rcases this with rfl | rfl | rfl | rfl <;> rfl

theorem kwByte_range (t : Bool) (i : Nat) (h : i < kwLen t) : 97 ≤ kwByte t i ∧ kwByte t i ≤ 122 := by
  cases t
  · have : i = 0 ∨ i = 1 ∨ i = 2 ∨ i = 3 ∨ i = 4 := by rw [kwLen_false] at h; omega
    rcases this with rfl | rfl | rfl | rfl | rfl <;> decide
  · have : i = 0 ∨ i = 1 ∨ i = 2 ∨ i = 3 := by rw [kwLen_true] at h; omega
    rcases this with rfl | rfl | rfl | rfl <;> decide

theorem kwNext_nameRest {t : Bool} {i b : Nat} (h : kwNext t i b = true) : nameRest b = true := by
  simp only [kwNext, Bool.and_eq_true, decide_eq_true_eq, beq_iff_eq] at h
  have hr := kwByte_range t i h.1
  have h2 := h.2
  unfold lower at h2
  have : isAlpha b = true := by
    split at h2
    · rename_i hu; simp [isAlpha, hu]
    · simp only [isAlpha, isLower, Bool.or_eq_true, Bool.and_eq_true, decide_eq_true_eq]
      right; omega
  simp [nameRest, this]

/-- from the state "the first `i` letters of the keyword were read", over name characters:
the automaton falls back to `name`, or it is still inside the keyword and what was read is
the next part of the keyword -/
theorem run_kw (t : Bool) : ∀ (cs : Bytes) (i : Nat), i ≤ kwLen t → (∀ c ∈ cs, nameRest c = true) →
    alive (.kw t i) cs = true ∧
    (arun (.kw t i) cs = .name ∨
     (arun (.kw t i) cs = .kw t (i + cs.length) ∧ i + cs.length ≤ kwLen t ∧
      cs.map lower = ((kwWord t).drop i).take cs.length)) := by
  intro cs
  induction cs with
  | nil => intro i hi _; exact ⟨rfl, .inr ⟨rfl, hi, rfl⟩⟩
  | cons c cs ih =>
    intro i hi h
    have hc := h c (List.mem_cons_self ..)
    have hcs : ∀ x ∈ cs, nameRest x = true := fun x hx => h x (List.mem_cons_of_mem _ hx)
    by_cases hk : kwNext t i c = true
    · have hk' := hk
      simp only [kwNext, Bool.and_eq_true, decide_eq_true_eq, beq_iff_eq] at hk'
      have := ih (i + 1) (by omega) hcs
      simp only [arun, alive, astep, hk, if_true, A.live, Bool.true_and]
      refine ⟨this.1, ?_⟩
      rcases this.2 with h1 | ⟨h1, h2, h3⟩
      · exact .inl h1
      · refine .inr ⟨?_, ?_, ?_⟩
        · rw [h1]; simp only [List.length_cons]; congr 1; omega
        · simp only [List.length_cons]; omega
        · rw [kwWord_drop t i hk'.1]
          simp only [List.map_cons, List.length_cons, List.take_succ_cons, hk'.2, h3]
    · have hk' : kwNext t i c = false := by simpa using hk
      have := run_name cs hcs
      simp only [arun, alive, astep, hk', hc, Bool.false_eq_true, if_false, if_true, A.live,
        Bool.true_and]
      exact ⟨this.2, .inl this.1⟩

/-- a valid name that does not spell a boolean literal is a lexeme of rule 36 `{name}` -/
theorem lex_name (nm : Bytes) (hv : validName nm = true) (hb : isBoolWord nm = false) :
    Lexeme nm 36 nameFollow := by
  cases nm with
  | nil => simp [validName] at hv
  | cons c cs =>
    simp only [validName, Bool.and_eq_true, List.all_eq_true] at hv
    have hcs : ∀ x ∈ cs, nameRest x = true := fun x hx => hv.2 x hx
    have hstart := fun bol => astep_start_name bol c hv.1
    have hc256 : c < 256 := by
      have := hv.1
      simp only [Bool.or_eq_true, beq_iff_eq] at this
      rcases this with h | h
      · have := isAlpha_lt h; omega
      · omega
    -- the state after the name, and that it accepts rule 36 and stays alive
    have key : ∀ bol, alive (.start bol) (c :: cs) = true ∧
        ((arun (.start bol) (c :: cs) = .name) ∨
         ∃ t j, arun (.start bol) (c :: cs) = .kw t j ∧ j ≠ kwLen t) := by
      intro bol
      simp only [arun, alive, hstart bol]
      by_cases h1 : (lower c == 116) = true
      · simp only [h1, if_true, A.live, Bool.true_and]
        have := run_kw true cs 1 (by decide) hcs
        refine ⟨this.1, ?_⟩
        rcases this.2 with h | ⟨h, hle, hmap⟩
        · exact .inl h
        · refine .inr ⟨true, _, h, ?_⟩
          intro hj
          have hlen : cs.length = 3 := by rw [kwLen_true] at hj; omega
          have : isBoolWord (c :: cs) = true := by
            simp only [isBoolWord, List.map_cons, hmap, hlen, beq_iff_eq.mp h1, Bool.or_eq_true]
            left; decide
          rw [this] at hb; cases hb
      · have h1' : (lower c == 116) = false := by simpa using h1
        by_cases h2 : (lower c == 102) = true
        · simp only [h1', h2, Bool.false_eq_true, if_false, if_true, A.live, Bool.true_and]
          have := run_kw false cs 1 (by decide) hcs
          refine ⟨this.1, ?_⟩
          rcases this.2 with h | ⟨h, hle, hmap⟩
          · exact .inl h
          · refine .inr ⟨false, _, h, ?_⟩
            intro hj
            have hlen : cs.length = 4 := by rw [kwLen_false] at hj; omega
            have : isBoolWord (c :: cs) = true := by
              simp only [isBoolWord, List.map_cons, hmap, hlen, beq_iff_eq.mp h2, Bool.or_eq_true]
              right; decide
            rw [this] at hb; cases hb
        · have h2' : (lower c == 102) = false := by simpa using h2
          simp only [h1', h2', Bool.false_eq_true, if_false, A.live, Bool.true_and]
          have := run_name cs hcs
          exact ⟨this.2, .inl this.1⟩
    refine ⟨?_, fun bol => (key bol).1, fun bol => ?_, fun bol x _ hx => ?_⟩
    · intro x hx
      rcases List.mem_cons.mp hx with rfl | hx
      · exact hc256
      · have := nameRest_lt (hcs x hx); omega
    · rcases (key bol).2 with h | ⟨t, j, h, hj⟩
      · rw [h]; rfl
      · rw [h]
        simp only [aacc]
        have : Nat.beq j (kwLen t) = false := by
          cases hbeq : Nat.beq j (kwLen t)
          · rfl
          · exact absurd (Nat.eq_of_beq_eq_true hbeq) hj
        rw [this]; rfl
    · have hx' : nameRest x = false := by simpa [nameFollow] using hx
      rcases (key bol).2 with h | ⟨t, j, h, _⟩
      · rw [h]; simp only [astep, hx', Bool.false_eq_true, if_false]
      · rw [h]
        have : kwNext t j x = false := by
          cases hk : kwNext t j x
          · rfl
          · rw [kwNext_nameRest hk] at hx'; cases hx'
        simp only [astep, this, hx', Bool.false_eq_true, if_false]

/-- the two boolean literals the writer prints: rules 34 and 35 -/
theorem lex_true : Lexeme [116, 114, 117, 101] 34 nameFollow := by
  refine ⟨by decide, fun bol => by cases bol <;> rfl, fun bol => by cases bol <;> rfl,
    fun bol x _ hx => ?_⟩
  have hx' : nameRest x = false := by simpa [nameFollow] using hx
  have : arun (.start bol) [116, 114, 117, 101] = .kw true 4 := by cases bol <;> rfl
  rw [this]
  have hk : kwNext true 4 x = false := by simp [kwNext, kwLen]
  simp only [astep, hk, hx', Bool.false_eq_true, if_false]

theorem lex_false : Lexeme [102, 97, 108, 115, 101] 35 nameFollow := by
  refine ⟨by decide, fun bol => by cases bol <;> rfl, fun bol => by cases bol <;> rfl,
    fun bol x _ hx => ?_⟩
  have hx' : nameRest x = false := by simpa [nameFollow] using hx
  have : arun (.start bol) [102, 97, 108, 115, 101] = .kw false 5 := by cases bol <;> rfl
  rw [this]
  have hk : kwNext false 5 x = false := by simp [kwNext, kwLen]
  simp only [astep, hk, hx', Bool.false_eq_true, if_false]

theorem Lexeme.weaken {bytes : Bytes} {r : Nat} {f g : Nat → Bool} (h : Lexeme bytes r f)
    (hg : ∀ c, g c = true → f c = true) : Lexeme bytes r g :=
  ⟨h.lt, h.alive, h.acc, fun bol c hc hgc => h.stop bol c hc (hg c hgc)⟩

/-! ### numbers -/

/-- the bytes the writer puts after a scalar value: space, tab, newline, `;`, `,` -/
def delim (c : Nat) : Bool := c == 32 || c == 9 || c == 10 || c == 59 || c == 44

theorem delim_cases {c : Nat} (h : delim c = true) : c = 32 ∨ c = 9 ∨ c = 10 ∨ c = 59 ∨ c = 44 := by
  simp only [delim, Bool.or_eq_true, beq_iff_eq] at h; omega

theorem delim_nameFollow (c : Nat) (h : delim c = true) : nameFollow c = true := by
  rcases delim_cases h with rfl | rfl | rfl | rfl | rfl <;> decide

theorem delim_blankFollow_or (c : Nat) (h : delim c = true) : isBlank c = true ∨ blankFollow c = true := by
  rcases delim_cases h with rfl | rfl | rfl | rfl | rfl <;> decide

def digitStartFact (bol : Bool) (b : Nat) : Bool :=
  !isDigit b || A.beq (astep (.start bol) b) (if b == 48 then .zero else .int)

theorem digitStart_ok :
    allBelow (digitStartFact false) 256 = true ∧ allBelow (digitStartFact true) 256 = true := by
  decide +kernel

theorem isDigit_lt {b : Nat} (h : isDigit b = true) : b < 58 := by
  simp only [isDigit, Bool.and_eq_true, decide_eq_true_eq] at h; omega

theorem isHexDigit_lt {b : Nat} (h : isHexDigit b = true) : b < 128 := by
  simp only [isHexDigit, isDigit, Bool.or_eq_true, Bool.and_eq_true, decide_eq_true_eq] at h; omega

def AllDigits (ds : Bytes) : Prop := ∀ d ∈ ds, isDigit d = true

theorem AllDigits.tail {d : Nat} {ds : Bytes} (h : AllDigits (d :: ds)) : AllDigits ds :=
  fun x hx => h x (List.mem_cons_of_mem _ hx)

theorem AllDigits.lt {ds : Bytes} (h : AllDigits ds) : ∀ b ∈ ds, b < 256 := by
  intro b hb; have := isDigit_lt (h b hb); omega

/-- `zero` or `int`: a complete decimal integer has been read -/
def IsNum (a : A) : Prop := a = .zero ∨ a = .int

theorem astep_start_digit (bol : Bool) (b : Nat) (h : isDigit b = true) :
    IsNum (astep (.start bol) b) := by
  have hb : b < 256 := by have := isDigit_lt h; omega
  have hf : digitStartFact bol b = true := by
    cases bol
    · exact allBelow_spec digitStart_ok.1 b hb
    · exact allBelow_spec digitStart_ok.2 b hb
  unfold digitStartFact at hf
  rw [h] at hf
  have := A.beq_eq (by simpa using hf)
  rw [this]
  split
  · exact .inl rfl
  · exact .inr rfl

theorem run_digits_int : ∀ (ds : Bytes), AllDigits ds → arun .int ds = .int ∧ alive .int ds = true := by
  intro ds
  induction ds with
  | nil => intro _; exact ⟨rfl, rfl⟩
  | cons d ds ih =>
    intro h
    have hd := h d (List.mem_cons_self ..)
    simp only [arun, alive, astep, hd, if_true, A.live, Bool.true_and]
    exact ih h.tail

theorem run_digits_num {a : A} (ha : IsNum a) (ds : Bytes) (h : AllDigits ds) :
    IsNum (arun a ds) ∧ alive a ds = true := by
  cases ds with
  | nil => exact ⟨ha, rfl⟩
  | cons d ds =>
    have hd := h d (List.mem_cons_self ..)
    have := run_digits_int ds h.tail
    rcases ha with rfl | rfl <;>
      (simp only [arun, alive, astep, hd, if_true, A.live, Bool.true_and]
       exact ⟨.inr this.1, this.2⟩)

def signBytes (neg : Bool) : Bytes := if neg then [45] else []

/-- sign and digits: the automaton is in `zero`/`int` -/
theorem run_sign_digits (bol neg : Bool) (ds : Bytes) (hne : ds ≠ []) (h : AllDigits ds) :
    IsNum (arun (.start bol) (signBytes neg ++ ds)) ∧
    alive (.start bol) (signBytes neg ++ ds) = true := by
  cases ds with
  | nil => exact absurd rfl hne
  | cons d ds =>
    have hd := h d (List.mem_cons_self ..)
    cases neg
    · have h1 := astep_start_digit bol d hd
      have h2 := run_digits_num h1 ds h.tail
      simp only [signBytes, Bool.false_eq_true, if_false, List.nil_append, arun, alive,
        Bool.and_eq_true]
      refine ⟨h2.1, ?_, h2.2⟩
      rcases h1 with e | e <;> rw [e] <;> rfl
    · have hs : astep (.start bol) 45 = .sign := by cases bol <;> rfl
      have h2 := run_digits_int ds h.tail
      simp only [signBytes, if_true, List.cons_append, List.nil_append, arun, alive, hs]
      simp only [astep, hd, if_true, A.live, Bool.true_and]
      exact ⟨.inr h2.1, h2.2⟩

theorem signBytes_lt (neg : Bool) : ∀ b ∈ signBytes neg, b < 256 := by
  cases neg <;> simp [signBytes]

theorem mem_append_lt {x y : Bytes} (hx : ∀ b ∈ x, b < 256) (hy : ∀ b ∈ y, b < 256) :
    ∀ b ∈ x ++ y, b < 256 := by
  intro b hb
  rcases List.mem_append.mp hb with h | h
  · exact hx b h
  · exact hy b h

theorem num_stop {a : A} (ha : IsNum a) {c : Nat} (hc : delim c = true) : astep a c = .jam := by
  rcases ha with rfl | rfl <;> rcases delim_cases hc with rfl | rfl | rfl | rfl | rfl <;> rfl

/-- `[-]?[0-9]+` delimited: rule 38 `{integer}` -/
theorem lex_dec (neg : Bool) (ds : Bytes) (hne : ds ≠ []) (h : AllDigits ds) :
    Lexeme (signBytes neg ++ ds) 38 delim := by
  refine ⟨mem_append_lt (signBytes_lt neg) h.lt, fun bol => (run_sign_digits bol neg ds hne h).2,
    fun bol => ?_, fun bol c _ hc => num_stop (run_sign_digits bol neg ds hne h).1 hc⟩
  rcases (run_sign_digits bol neg ds hne h).1 with e | e <;> rw [e] <;> rfl

/-- `[-]?[0-9]+L` delimited: rule 39 `{integer64}` -/
theorem lex_dec64 (neg : Bool) (ds : Bytes) (hne : ds ≠ []) (h : AllDigits ds) :
    Lexeme (signBytes neg ++ ds ++ [76]) 39 delim := by
  have hL : ∀ bol, arun (.start bol) (signBytes neg ++ ds ++ [76]) = .intL := by
    intro bol
    rw [arun_append]
    rcases (run_sign_digits bol neg ds hne h).1 with e | e <;> rw [e] <;> rfl
  refine ⟨mem_append_lt (mem_append_lt (signBytes_lt neg) h.lt) (by simp), fun bol => ?_,
    fun bol => by rw [hL bol]; rfl, fun bol c _ hc => ?_⟩
  · rw [alive_append, (run_sign_digits bol neg ds hne h).2]
    rcases (run_sign_digits bol neg ds hne h).1 with e | e <;> rw [e] <;> rfl
  · rw [hL bol]
    rcases delim_cases hc with rfl | rfl | rfl | rfl | rfl <;> rfl

def AllHex (hs : Bytes) : Prop := ∀ d ∈ hs, isHexDigit d = true

theorem AllHex.lt {hs : Bytes} (h : AllHex hs) : ∀ b ∈ hs, b < 256 := by
  intro b hb; have := isHexDigit_lt (h b hb); omega

theorem run_hex : ∀ (hs : Bytes), AllHex hs → arun .hex hs = .hex ∧ alive .hex hs = true := by
  intro hs
  induction hs with
  | nil => intro _; exact ⟨rfl, rfl⟩
  | cons d ds ih =>
    intro h
    have hd := h d (List.mem_cons_self ..)
    simp only [arun, alive, astep, hd, if_true, A.live, Bool.true_and]
    exact ih (fun x hx => h x (List.mem_cons_of_mem _ hx))

theorem run_0x_hex (bol : Bool) (hs : Bytes) (hne : hs ≠ []) (h : AllHex hs) :
    arun (.start bol) ([48, 120] ++ hs) = .hex ∧ alive (.start bol) ([48, 120] ++ hs) = true := by
  have h0 : arun (.start bol) [48, 120] = .zx := by cases bol <;> rfl
  have h1 : alive (.start bol) [48, 120] = true := by cases bol <;> rfl
  rw [arun_append, alive_append, h0, h1]
  cases hs with
  | nil => exact absurd rfl hne
  | cons d ds =>
    have hd := h d (List.mem_cons_self ..)
    have := run_hex ds (fun x hx => h x (List.mem_cons_of_mem _ hx))
    simp only [arun, alive, astep, hd, if_true, A.live, Bool.true_and]
    exact this

/-- `0x[0-9A-F]+` delimited: rule 40 `{hex}` -/
theorem lex_hex (hs : Bytes) (hne : hs ≠ []) (h : AllHex hs) : Lexeme ([48, 120] ++ hs) 40 delim := by
  refine ⟨mem_append_lt (by simp) h.lt, fun bol => (run_0x_hex bol hs hne h).2,
    fun bol => by rw [(run_0x_hex bol hs hne h).1]; rfl, fun bol c _ hc => ?_⟩
  rw [(run_0x_hex bol hs hne h).1]
  rcases delim_cases hc with rfl | rfl | rfl | rfl | rfl <;> rfl

/-- `0x[0-9A-F]+L` delimited: rule 41 `{hex64}` -/
theorem lex_hex64 (hs : Bytes) (hne : hs ≠ []) (h : AllHex hs) :
    Lexeme ([48, 120] ++ hs ++ [76]) 41 delim := by
  have hL : ∀ bol, arun (.start bol) ([48, 120] ++ hs ++ [76]) = .hexL := by
    intro bol; rw [arun_append, (run_0x_hex bol hs hne h).1]; rfl
  refine ⟨mem_append_lt (mem_append_lt (by simp) h.lt) (by simp), fun bol => ?_,
    fun bol => by rw [hL bol]; rfl, fun bol c _ hc => ?_⟩
  · rw [alive_append, (run_0x_hex bol hs hne h).2, (run_0x_hex bol hs hne h).1]; rfl
  · rw [hL bol]
    rcases delim_cases hc with rfl | rfl | rfl | rfl | rfl <;> rfl

/-! ### float literals -/

/-- nothing, or a point and digits -/
def FracP (fp : Bytes) : Prop := fp = [] ∨ ∃ ds, fp = 46 :: ds ∧ AllDigits ds

/-- nothing, or `e`, a sign and at least one digit -/
def ExpP (ex : Bytes) : Prop :=
  ex = [] ∨ ∃ s ds, ex = 101 :: s :: ds ∧ (s = 43 ∨ s = 45) ∧ ds ≠ [] ∧ AllDigits ds

theorem run_digits_frac : ∀ (ds : Bytes), AllDigits ds → arun .frac ds = .frac ∧ alive .frac ds = true := by
  intro ds
  induction ds with
  | nil => intro _; exact ⟨rfl, rfl⟩
  | cons d ds ih =>
    intro h
    have hd := h d (List.mem_cons_self ..)
    simp only [arun, alive, astep, hd, if_true, A.live, Bool.true_and]
    exact ih h.tail

theorem run_digits_fexp : ∀ (ds : Bytes), AllDigits ds → arun .fexp ds = .fexp ∧ alive .fexp ds = true := by
  intro ds
  induction ds with
  | nil => intro _; exact ⟨rfl, rfl⟩
  | cons d ds ih =>
    intro h
    have hd := h d (List.mem_cons_self ..)
    simp only [arun, alive, astep, hd, if_true, A.live, Bool.true_and]
    exact ih h.tail

/-- states from which an exponent part may start -/
def IsMant (a : A) : Prop := a = .zero ∨ a = .int ∨ a = .frac

theorem IsNum.mant {a : A} (h : IsNum a) : IsMant a := by
  rcases h with e | e
  · exact .inl e
  · exact .inr (.inl e)

theorem run_exp {a : A} (ha : IsMant a) (s : Nat) (ds : Bytes) (hs : s = 43 ∨ s = 45) (hne : ds ≠ [])
    (h : AllDigits ds) :
    arun a (101 :: s :: ds) = .fexp ∧ alive a (101 :: s :: ds) = true := by
  have h1 : astep a 101 = .fe := by rcases ha with rfl | rfl | rfl <;> rfl
  have h2 : astep .fe s = .fesign := by rcases hs with rfl | rfl <;> rfl
  cases ds with
  | nil => exact absurd rfl hne
  | cons d ds =>
    have hd := h d (List.mem_cons_self ..)
    have := run_digits_fexp ds h.tail
    simp only [arun, alive, h1, h2]
    simp only [astep, hd, if_true, A.live, Bool.true_and]
    exact this

/-- `-?digits(.digits)?(e[+-]digits)?` with a point or an exponent, delimited: rule 37 -/
theorem lex_float (neg : Bool) (ip fp ex : Bytes) (hne : ip ≠ []) (hip : AllDigits ip)
    (hfp : FracP fp) (hex : ExpP ex) (hsome : fp ≠ [] ∨ ex ≠ []) :
    Lexeme (signBytes neg ++ ip ++ fp ++ ex) 37 delim := by
  -- after the mantissa
  have hfrac : ∀ bol, IsMant (arun (.start bol) (signBytes neg ++ ip ++ fp)) ∧
      alive (.start bol) (signBytes neg ++ ip ++ fp) = true ∧
      (fp ≠ [] → arun (.start bol) (signBytes neg ++ ip ++ fp) = .frac) := by
    intro bol
    have h0 := run_sign_digits bol neg ip hne hip
    rcases hfp with rfl | ⟨ds, rfl, hds⟩
    · rw [List.append_nil]
      exact ⟨IsNum.mant h0.1, h0.2, fun h => absurd rfl h⟩
    · have h1 : astep (arun (.start bol) (signBytes neg ++ ip)) 46 = .frac := by
        rcases h0.1 with e | e <;> rw [e] <;> rfl
      have h2 := run_digits_frac ds hds
      rw [arun_append, alive_append, h0.2]
      have e1 : arun (arun (.start bol) (signBytes neg ++ ip)) (46 :: ds) = .frac := by
        simp only [arun, h1, h2.1]
      have e2 : alive (arun (.start bol) (signBytes neg ++ ip)) (46 :: ds) = true := by
        simp only [alive, h1, A.live, Bool.true_and, h2.2]
      rw [e1, e2]
      exact ⟨.inr (.inr rfl), rfl, fun _ => rfl⟩
  have hfin : ∀ bol, (arun (.start bol) (signBytes neg ++ ip ++ fp ++ ex) = .frac ∨
        arun (.start bol) (signBytes neg ++ ip ++ fp ++ ex) = .fexp) ∧
      alive (.start bol) (signBytes neg ++ ip ++ fp ++ ex) = true := by
    intro bol
    obtain ⟨hm, hal, hfr⟩ := hfrac bol
    rcases hex with rfl | ⟨s, ds, rfl, hs, hdne, hds⟩
    · rw [List.append_nil]
      refine ⟨.inl (hfr ?_), hal⟩
      rcases hsome with h | h
      · exact h
      · exact absurd rfl h
    · have := run_exp hm s ds hs hdne hds
      rw [arun_append, alive_append, hal, this.1, this.2]
      exact ⟨.inr rfl, rfl⟩
  have hlt : ∀ b ∈ signBytes neg ++ ip ++ fp ++ ex, b < 256 := by
    refine mem_append_lt (mem_append_lt (mem_append_lt (signBytes_lt neg) hip.lt) ?_) ?_
    · rcases hfp with rfl | ⟨ds, rfl, hds⟩
      · simp
      · intro b hb
        rcases List.mem_cons.mp hb with rfl | hb
        · omega
        · exact hds.lt b hb
    · rcases hex with rfl | ⟨s, ds, rfl, hs, _, hds⟩
      · simp
      · intro b hb
        rcases List.mem_cons.mp hb with rfl | hb
        · omega
        · rcases List.mem_cons.mp hb with rfl | hb
          · omega
          · exact hds.lt b hb
  refine ⟨hlt, fun bol => (hfin bol).2, fun bol => ?_, fun bol c _ hc => ?_⟩
  · rcases (hfin bol).1 with e | e <;> rw [e] <;> rfl
  · rcases (hfin bol).1 with e | e <;> rw [e] <;>
      rcases delim_cases hc with rfl | rfl | rfl | rfl | rfl <;> rfl

/-! ### the pieces of a string literal (STRING start condition) -/

/-- `bytes` is a lexeme of rule `r` in the STRING start condition -/
structure SLexeme (bytes : Bytes) (r : Nat) (follow : Nat → Bool) : Prop where
  lt : ∀ b ∈ bytes, b < 256
  alive : alive .sstart bytes = true
  acc : aacc (arun .sstart bytes) = r
  stop : ∀ c, c < 256 → follow c = true → astep (arun .sstart bytes) c = .jam

theorem SLexeme.next {bytes : Bytes} {r : Nat} {follow : Nat → Bool} (h : SLexeme bytes r follow)
    (hr : r ≠ 0) (bol : Bool) (rest : Bytes) (hf : FollowOK follow rest) :
    next T 3 bol (bytes ++ rest) = some (r, bytes.length) := by
  have := next_abs_str bol bytes rest h.lt h.alive (by rw [h.acc]; exact hr) (by
    cases rest with
    | nil => exact .inl rfl
    | cons c cs =>
      have hc := hf c rfl
      exact .inr ⟨c, cs, rfl, hc.1, h.stop c hc.1 hc.2⟩)
  rw [this, h.acc]

/-- the closing quote: rule 21 -/
theorem slex_quote : SLexeme [34] 21 (fun _ => true) := ⟨by simp, rfl, rfl, fun _ _ _ => rfl⟩

/-- the two-byte escapes the writer uses: `\"` `\\` `\n` `\r` `\f` `\t` -/
def escRule (x : Nat) : Nat :=
  if x == 34 then 18 else if x == 92 then 17 else if x == 110 then 12 else if x == 114 then 13
  else if x == 102 then 16 else if x == 116 then 14 else 0

theorem slex_esc (x : Nat) (h : x = 34 ∨ x = 92 ∨ x = 110 ∨ x = 114 ∨ x = 102 ∨ x = 116) :
    SLexeme [92, x] (escRule x) (fun _ => true) := by
  rcases h with rfl | rfl | rfl | rfl | rfl | rfl <;>
    exact ⟨by simp, rfl, rfl, fun _ _ _ => rfl⟩

/-- `\xHH`: rule 19 -/
theorem slex_hex (h l : Nat) (hh : isHexDigit h = true) (hl : isHexDigit l = true) :
    SLexeme [92, 120, h, l] 19 (fun _ => true) := by
  have e : arun .sstart [92, 120, h, l] = .done 19 := by
    simp only [arun]
    have : astep (astep .sstart 92) 120 = .bsx := rfl
    rw [this]
    simp only [astep, hh, hl, if_true]
  refine ⟨?_, ?_, by rw [e]; rfl, fun _ _ _ => by rw [e]; rfl⟩
  · intro b hb
    simp only [List.mem_cons, List.not_mem_nil, or_false] at hb
    rcases hb with rfl | rfl | rfl | rfl
    · omega
    · omega
    · have := isHexDigit_lt hh; omega
    · have := isHexDigit_lt hl; omega
  · simp only [alive]
    have : astep (astep .sstart 92) 120 = .bsx := rfl
    have h0 : astep .sstart 92 = .bs := rfl
    rw [this, h0]
    simp only [astep, hh, hl, if_true, A.live, Bool.true_and]

/-- a byte that is copied verbatim into a chunk -/
def plainByte (c : Nat) : Bool := c != 34 && c != 92

def chunkFollow (c : Nat) : Bool := c == 34 || c == 92

theorem run_chunk : ∀ (p : Bytes), (∀ b ∈ p, plainByte b = true) →
    arun .chunk p = .chunk ∧ alive .chunk p = true := by
  intro p
  induction p with
  | nil => intro _; exact ⟨rfl, rfl⟩
  | cons b p ih =>
    intro h
    have hb := h b (List.mem_cons_self ..)
    simp only [plainByte, Bool.and_eq_true, bne_iff_ne, ne_eq] at hb
    have e : astep .chunk b = .chunk := by
      simp only [astep, Bool.or_eq_true, beq_iff_eq, hb.1, hb.2, or_self, if_false]
    simp only [arun, alive, e, A.live, Bool.true_and]
    exact ih (fun x hx => h x (List.mem_cons_of_mem _ hx))

/-- a non-empty run of bytes other than `"` and `\`, followed by one of those: rule 9 -/
theorem slex_chunk (p : Bytes) (hne : p ≠ []) (hp : ∀ b ∈ p, plainByte b = true ∧ b < 256) :
    SLexeme p 9 chunkFollow := by
  cases p with
  | nil => exact absurd rfl hne
  | cons b p =>
    have hb := (hp b (List.mem_cons_self ..)).1
    simp only [plainByte, Bool.and_eq_true, bne_iff_ne, ne_eq] at hb
    have e : astep .sstart b = .chunk := by
      simp only [astep, beq_iff_eq, hb.1, hb.2, if_false]
    have hr := run_chunk p (fun x hx => (hp x (List.mem_cons_of_mem _ hx)).1)
    refine ⟨fun x hx => (hp x hx).2, ?_, ?_, fun c _ hc => ?_⟩
    · simp only [alive, e, A.live, Bool.true_and]; exact hr.2
    · simp only [arun, e, hr.1]; rfl
    · simp only [arun, e, hr.1]
      simp only [chunkFollow] at hc
      simp only [astep, hc, if_true]

end Libconfig.C01L
