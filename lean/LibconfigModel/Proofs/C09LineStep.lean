import LibconfigModel.Proofs.C02DenoteSem
import LibconfigModel.Proofs.C09LineSpec
/-
  C09L (the position of the offending token), machinery: the remaining input WITH the scan state
  after every token, runs that end in an abort AT a given scan state, and the single iterations
  (shift / reduce / reduce-and-abort / syntax error) over the compiled tables, with the scan state
  tracked.  The positional counterpart of Proofs/C02DenoteStep.lean (whose `Same`, and the
  `Reaches`, `MC`, `run` of Proofs/C01ParseStep.lean, are reused); only scanner runs without
  include errors are considered (`plain = true` there).

  The positions are kept in ONE function `pos : Nat → ScanState`, indexed by the number of tokens
  (the end marker included) the scanner has NOT yet delivered: `pos n` is the scan state in which
  `n` tokens are still to come.  So "the scan state right after the token in front of `ks`" is
  `pos ks.length`, whatever has been read before — which lets the simulation lemmas keep the form
  they have in Proofs/C02Denote*.lean.
-/
namespace Libconfig.C09L
open Libconfig C02P C05P C02C C01PP C02D

/-! ### the remaining input, with positions -/

/-- the scanner, started in `pos ks.length`, delivers the tokens `ks` (the end marker `(0, {})`
included; the empty list says nothing), passing through the states `pos (ks.length - 1)`, …,
`pos 0`; no include error occurs -/
inductive LexQ (E : ParserEnv) (pos : Nat → ScanState) : List (Nat × TokVal) → Prop where
  | nil : LexQ E pos []
  | eof : yylex E.T E.sacts E.w E.ic E.lexFuel (pos 1) = (pos 0, .eof) → LexQ E pos [(0, {})]
  | tok (t : Nat) (v : TokVal) (ks : List (Nat × TokVal)) :
      yylex E.T E.sacts E.w E.ic E.lexFuel (pos (ks.length + 1)) = (pos ks.length, .tok t v) →
      LexQ E pos ks → LexQ E pos ((t, v) :: ks)

/-- the tokens still to be consumed, given the lookahead; the scanner is in the state in which
those not yet fetched are still to come -/
def InpQ (E : ParserEnv) (pos : Nat → ScanState) (la : Lookahead) (sc : ScanState)
    (ks : List (Nat × TokVal)) : Prop :=
  match la with
  | none => sc = pos ks.length ∧ LexQ E pos ks
  | some tv => ∃ ks', ks = tv :: ks' ∧ sc = pos ks'.length ∧ LexQ E pos ks'

theorem fetchQ {E : ParserEnv} {pos : Nat → ScanState} {la : Lookahead} {sc : ScanState}
    (ctx : ParseCtx) {t : Nat} {v : TokVal} {ks : List (Nat × TokVal)}
    (h : InpQ E pos la sc ((t, v) :: ks)) :
    fetchK E la sc ctx = (pos ks.length, some (t, v), none, ctx) ∧ LexQ E pos ks := by
  cases la with
  | some l =>
    obtain ⟨ks', h1, h2, h3⟩ := h
    injection h1 with h4 h5
    subst h5
    subst h4
    subst h2
    exact ⟨rfl, h3⟩
  | none =>
    obtain ⟨h1, h2⟩ := h
    subst h1
    unfold fetchK
    simp only
    cases h2 with
    | eof hy =>
      simp only [List.length_cons, List.length_nil, Nat.zero_add] at hy ⊢
      rw [hy]
      exact ⟨rfl, LexQ.nil⟩
    | tok _ _ _ hy hl =>
      simp only [List.length_cons]
      rw [hy]
      exact ⟨rfl, hl⟩

/-! ### runs that end in an abort at a given scan state -/

/-- From `a` the loop — unless the fuel runs out — returns 1 (`YYABORT` or a syntax error), with
the error text `text`, in the scan state `sOff`, and the error line recorded is the line counter
of `sOff`. -/
structure AbortsAt (E : ParserEnv) (a : MC) (text : Bytes) (sOff : ScanState) : Prop where
  part : ∀ fuel, (C01PP.run E fuel a).2.2 = ParseResult.outOfFuel ∨
    ((C01PP.run E fuel a).2.2 = ParseResult.abort ∧
      (C01PP.run E fuel a).2.1.cfg.errText = some text ∧
      (C01PP.run E fuel a).2.1.cfg.errLine = sOff.buf.lineno ∧
      (C01PP.run E fuel a).1 = sOff)

theorem AbortsAt.of_reaches {E : ParserEnv} {a b : MC} {text : Bytes} {sOff : ScanState}
    (h1 : Reaches E a b) (h2 : AbortsAt E b text sOff) : AbortsAt E a text sOff := by
  constructor
  intro fuel
  rcases h1.part fuel with h | ⟨f1, h⟩
  · exact .inl h
  · rw [h]
    exact h2.part f1

theorem AbortsAt.of_body {E : ParserEnv} {a : MC} {text : Bytes} {sOff : ScanState} {out : POut}
    (h : ∀ rec, bodyK E rec a.stk a.la a.sc a.ctx = out) (hr : out.2.2 = .abort)
    (ht : out.2.1.cfg.errText = some text) (hl : out.2.1.cfg.errLine = sOff.buf.lineno)
    (hs : out.1 = sOff) : AbortsAt E a text sOff := by
  have step : ∀ n, C01PP.run E (n + 1) a = out := by
    intro n
    unfold C01PP.run
    rw [yyparseLoop_succ]
    exact h _
  constructor
  intro fuel
  cases fuel with
  | zero => left; rw [run_zero]
  | succ n =>
    right
    rw [step n]
    exact ⟨hr, ht, hl, hs⟩

theorem yyerror_line {ctx : ParseCtx} (h : ctx.cfg.errText = none) (l : Nat) (text : Bytes) :
    (ctx.yyerror l text).cfg.errLine = l := by
  unfold ParseCtx.yyerror
  rw [h]
  rfl

/-! ### single iterations, any environment -/

section
variable {E : ParserEnv} {pos : Nat → ScanState}

/-- the tables shift the next token; afterwards the scanner is in the state right after it -/
theorem gshiftQ {s : Nat} {v0 : TokVal} {rest : List (Nat × TokVal)}
    {la : Lookahead} {sc : ScanState} {ctx : ParseCtx} {t : Nat} {v : TokVal}
    {ks : List (Nat × TokVal)} {q : Int}
    (hdepth : rest.length + 1 < E.P.maxDepth) (hfin : s ≠ E.P.final)
    (hact : actAt E.P s (translateTok E.P t) = some q) (hq : 0 < q)
    (hinp : InpQ E pos la sc ((t, v) :: ks)) :
    Reaches E ⟨(s, v0) :: rest, la, sc, ctx⟩
        ⟨(q.toNat, v) :: (s, v0) :: rest, none, pos ks.length, ctx⟩ ∧
      InpQ E pos none (pos ks.length) ks := by
  obtain ⟨hf, hl⟩ := fetchQ ctx hinp
  refine ⟨Reaches.of_body (fun rec => ?_), rfl, hl⟩
  simp only
  rw [bodyK_cons]
  rw [if_neg (by simp only [List.length_cons, ge_iff_le]; omega)]
  rw [if_neg (by simpa using hfin)]
  split
  · rename_i hp
    rw [actAt_ninf hp] at hact
    cases hact
  rename_i hp
  rw [hf]
  simp only
  unfold actK
  simp only
  split
  · rename_i hg
    rw [actAt_guard hp hg] at hact
    cases hact
  · rename_i hg
    rw [actAt_entry hp hg] at hact
    injection hact with hact
    rw [hact]
    rw [if_neg (by omega)]

/-- an iteration that reduces by `r` in front of the next token: up to the action.  The action
runs in the scan state `sc'`: the present one if the state reduces without consulting the
lookahead, the one right after the next token otherwise. -/
theorem reduce_bodyQ {stk : List (Nat × TokVal)} {s : Nat} {v0 : TokVal}
    {rest0 : List (Nat × TokVal)} {la : Lookahead} {sc : ScanState} (ctx : ParseCtx) {t : Nat}
    {v : TokVal} {ks : List (Nat × TokVal)} {r : Nat}
    (htop : stk = (s, v0) :: rest0)
    (hdepth : stk.length < E.P.maxDepth) (hfin : s ≠ E.P.final)
    (hred : redOK E.P s (translateTok E.P t) r = true)
    (hinp : InpQ E pos la sc ((t, v) :: ks)) :
    ∃ la' sc', InpQ E pos la' sc' ((t, v) :: ks) ∧
      sc' = (if (E.P.pact.get s == E.P.pactNinf) = true then sc else pos ks.length) ∧
      ∀ rec, bodyK E rec stk la sc ctx = reduceK E rec stk r la' sc' ctx := by
  unfold redOK at hred
  simp only [Bool.and_eq_true] at hred
  obtain ⟨hr0, hred⟩ := hred
  have hr0 : r ≠ 0 := not_beq hr0
  have hnd : ¬ ((s, v0) :: rest0).length ≥ E.P.maxDepth := by
    rw [← htop]; omega
  have hnf : ¬ (s == E.P.final) = true := by simpa using hfin
  have dflt : ∀ (la₁ : Lookahead) (sc₁ : ScanState) (ctx₁ : ParseCtx) rec,
      (E.P.defact.get s).toNat = r →
      dfltK E rec stk s la₁ sc₁ ctx₁ = reduceK E rec stk r la₁ sc₁ ctx₁ := by
    intro la₁ sc₁ ctx₁ rec hdef
    unfold dfltK
    simp only
    rw [hdef, if_neg (by simpa using hr0)]
  by_cases hp : (E.P.pact.get s == E.P.pactNinf) = true
  · rw [actAt_ninf hp] at hred
    simp only at hred
    refine ⟨la, sc, hinp, by rw [if_pos hp], fun rec => ?_⟩
    rw [htop, bodyK_cons, if_neg hnd, if_neg hnf, if_pos hp, ← htop]
    exact dflt la sc ctx rec (Nat.eq_of_beq_eq_true hred)
  · obtain ⟨hf, hl⟩ := fetchQ ctx hinp
    have hinp' : InpQ E pos (some (t, v)) (pos ks.length) ((t, v) :: ks) := ⟨ks, rfl, rfl, hl⟩
    refine ⟨some (t, v), pos ks.length, hinp', by rw [if_neg hp], fun rec => ?_⟩
    rw [htop, bodyK_cons, if_neg hnd, if_neg hnf, if_neg hp, hf]
    simp only
    unfold actK
    simp only
    by_cases hg : (E.P.pact.get s + ↑(translateTok E.P t) < 0 ||
        E.P.pact.get s + ↑(translateTok E.P t) > ↑E.P.last ||
        E.P.check.get (E.P.pact.get s + ↑(translateTok E.P t)).toNat != ↑(translateTok E.P t)) = true
    · rw [actAt_guard hp hg] at hred
      simp only at hred
      rw [if_pos hg, ← htop]
      exact dflt _ _ _ rec (Nat.eq_of_beq_eq_true hred)
    · rw [actAt_entry hp hg] at hred
      simp only [Bool.and_eq_true, decide_eq_true_eq] at hred
      obtain ⟨⟨hle, hninf⟩, hrule⟩ := hred
      rw [if_neg hg, if_pos hle, if_neg (by simpa using hninf), Nat.eq_of_beq_eq_true hrule, ← htop]

/-- the tables reduce by `r` in front of the next token and the action succeeds -/
theorem greduceQ {stk pushed : List (Nat × TokVal)} {p : Nat}
    {vp : TokVal} {rest : List (Nat × TokVal)} {s : Nat} {v0 : TokVal}
    {rest0 : List (Nat × TokVal)} {la : Lookahead} {sc : ScanState} {ctx : ParseCtx} {t : Nat}
    {v : TokVal} {ks : List (Nat × TokVal)} {r : Nat} {Post : ParseCtx → Prop}
    (hstk : stk = pushed ++ (p, vp) :: rest) (htop : stk = (s, v0) :: rest0)
    (hdepth : stk.length < E.P.maxDepth) (hfin : s ≠ E.P.final)
    (hred : redOK E.P s (translateTok E.P t) r = true)
    (hlen : (E.P.r2.get r).toNat = pushed.length)
    (hinp : InpQ E pos la sc ((t, v) :: ks))
    (hact : ∀ l f, ∃ ctx₂, runAction (E.acts.getD r .unknown) ctx v0 l f = .ok ctx₂ ∧ Post ctx₂) :
    ∃ la' sc' ctx' vv, Reaches E ⟨stk, la, sc, ctx⟩
        ⟨(gotoTo E.P p (E.P.r1.get r).toNat, vv) :: (p, vp) :: rest, la', sc', ctx'⟩ ∧
      InpQ E pos la' sc' ((t, v) :: ks) ∧ Post ctx' := by
  obtain ⟨la', sc', hinp', _, hb⟩ := reduce_bodyQ ctx htop hdepth hfin hred hinp
  obtain ⟨ctx₂, ha, hpost⟩ := hact sc'.buf.lineno sc'.currentFilename
  have hhead : (stk.headD (0, {})).2 = v0 := by rw [htop]; rfl
  refine ⟨la', sc', ctx₂, yyvalOf stk pushed.length, Reaches.of_body (fun rec => ?_), hinp', hpost⟩
  simp only
  rw [hb rec]
  exact reduceK_eq hstk hlen (by rw [hhead]; exact ha) rec

/-- the tables reduce by `r` in front of the next token and the action aborts, recording the
line it is given: the abort happens in the present scan state if the state reduces without
consulting the lookahead, in the one right after the next token otherwise -/
theorem greduce_abortQ {stk : List (Nat × TokVal)} {s : Nat} {v0 : TokVal}
    {rest0 : List (Nat × TokVal)} {la : Lookahead} {sc : ScanState} {ctx : ParseCtx} {t : Nat}
    {v : TokVal} {ks : List (Nat × TokVal)} {r : Nat} {text : Bytes}
    (htop : stk = (s, v0) :: rest0)
    (hdepth : stk.length < E.P.maxDepth) (hfin : s ≠ E.P.final)
    (hred : redOK E.P s (translateTok E.P t) r = true)
    (hinp : InpQ E pos la sc ((t, v) :: ks))
    (hact : ∀ l f, ∃ ctx₂, runAction (E.acts.getD r .unknown) ctx v0 l f = .abort ctx₂ ∧
        ctx₂.cfg.errText = some text ∧ ctx₂.cfg.errLine = l) :
    AbortsAt E ⟨stk, la, sc, ctx⟩ text
      (if (E.P.pact.get s == E.P.pactNinf) = true then sc else pos ks.length) := by
  obtain ⟨la', sc', _, hsc', hb⟩ := reduce_bodyQ ctx htop hdepth hfin hred hinp
  obtain ⟨ctx₂, ha, htext, hline⟩ := hact sc'.buf.lineno sc'.currentFilename
  have hhead : (stk.headD (0, {})).2 = v0 := by rw [htop]; rfl
  rw [← hsc']
  refine AbortsAt.of_body (out := (sc', ctx₂, .abort)) (fun rec => ?_) rfl htext hline rfl
  simp only
  rw [hb rec]
  unfold reduceK
  simp only
  rw [hhead, ha]

/-- the tables have nothing for the next token: syntax error, in the scan state right after that
token (the state consults the lookahead: a state without default reduction always does) -/
theorem gerrorQ {stk : List (Nat × TokVal)} {s : Nat} {v0 : TokVal}
    {rest0 : List (Nat × TokVal)} {la : Lookahead} {sc : ScanState} {ctx : ParseCtx} {t : Nat}
    {v : TokVal} {ks : List (Nat × TokVal)}
    (htop : stk = (s, v0) :: rest0)
    (hdepth : stk.length < E.P.maxDepth) (hfin : s ≠ E.P.final)
    (herr : errOK E.P s (translateTok E.P t) = true)
    (hp : ¬ (E.P.pact.get s == E.P.pactNinf) = true)
    (hinp : InpQ E pos la sc ((t, v) :: ks))
    (hnone : ctx.cfg.errText = none) :
    AbortsAt E ⟨stk, la, sc, ctx⟩ Generated.ERR_SYNTAX (pos ks.length) := by
  unfold errOK at herr
  simp only [Bool.and_eq_true] at herr
  obtain ⟨hdef, herr⟩ := herr
  have hdef : (E.P.defact.get s).toNat = 0 := Nat.eq_of_beq_eq_true hdef
  have hnd : ¬ ((s, v0) :: rest0).length ≥ E.P.maxDepth := by
    rw [← htop]; omega
  have hnf : ¬ (s == E.P.final) = true := by simpa using hfin
  have dflt : ∀ (la₁ : Lookahead) (sc₁ : ScanState) (ctx₁ : ParseCtx) rec,
      dfltK E rec stk s la₁ sc₁ ctx₁ = syntaxErrorK sc₁ ctx₁ := by
    intro la₁ sc₁ ctx₁ rec
    unfold dfltK
    simp only
    rw [hdef]
    rfl
  obtain ⟨hf, hl⟩ := fetchQ ctx hinp
  refine AbortsAt.of_body (out := syntaxErrorK (pos ks.length) ctx) (fun rec => ?_) rfl
    (yyerror_text hnone _ _) (yyerror_line hnone _ _) rfl
  simp only
  rw [htop, bodyK_cons, if_neg hnd, if_neg hnf, if_neg hp, hf]
  simp only
  unfold actK
  simp only
  by_cases hg : (E.P.pact.get s + ↑(translateTok E.P t) < 0 ||
      E.P.pact.get s + ↑(translateTok E.P t) > ↑E.P.last ||
      E.P.check.get (E.P.pact.get s + ↑(translateTok E.P t)).toNat != ↑(translateTok E.P t)) = true
  · rw [if_pos hg, ← htop]
    exact dflt _ _ _ rec
  · rw [actAt_entry hp hg] at herr
    cases herr

end

/-! ### the same over the compiled tables

The lemmas keep the shape of `pshift`, `preduce`, … of Proofs/C02DenoteStep.lean (`Same true`
included, although without include errors a fetch leaves the parse context alone), so that the
simulation can be carried over line by line; the positions travel in `InpQ`. -/

section
variable {E : ParserEnv} {pos : Nat → ScanState}

theorem pshiftQ (hE : Compiled E) {s : Nat} {v0 : TokVal} {rest : List (Nat × TokVal)}
    {la : Lookahead} {sc : ScanState} {ctx : ParseCtx} {t : Nat} {v : TokVal}
    {ks : List (Nat × TokVal)} {k q : Nat}
    (hdepth : rest.length + 1 < 10000) (hfin : s ≠ 6)
    (hk : translateTok P t = k) (hact : actAt P s k = some (q : Int)) (hq : 0 < q)
    (hinp : InpQ E pos la sc ((t, v) :: ks)) :
    ∃ sc' ctx', Reaches E ⟨(s, v0) :: rest, la, sc, ctx⟩
        ⟨(q, v) :: (s, v0) :: rest, none, sc', ctx'⟩ ∧
      InpQ E pos none sc' ks ∧ Same true ctx ctx' := by
  have h := gshiftQ (E := E) (pos := pos) (s := s) (v0 := v0) (rest := rest) (la := la) (sc := sc)
    (ctx := ctx) (t := t) (v := v) (ks := ks) (q := (q : Int))
    (by rw [hE.tables]; exact hdepth) (by rw [hE.tables]; exact hfin)
    (by rw [hE.tables, hk]; exact hact) (by omega) hinp
  exact ⟨pos ks.length, ctx, by simpa using h.1, h.2, Same.refl _ _⟩

theorem preduceQ (hE : Compiled E) {stk pushed : List (Nat × TokVal)} {p : Nat}
    {vp : TokVal} {rest : List (Nat × TokVal)} {s : Nat} {v0 : TokVal}
    {rest0 : List (Nat × TokVal)} {la : Lookahead} {sc : ScanState} {ctx : ParseCtx} {t : Nat}
    {v : TokVal} {ks : List (Nat × TokVal)} {r lhs len q' : Nat} {act : ParseAct}
    {Post : ParseCtx → Prop}
    (hstk : stk = pushed ++ (p, vp) :: rest) (htop : stk = (s, v0) :: rest0)
    (hdepth : stk.length < 10000) (hfin : s ≠ 6)
    (hred : redOK P s (translateTok P t) r = true)
    (hrule : RuleIs r lhs len act) (hlen : len = pushed.length)
    (hgoto : gotoTo P p lhs = q')
    (hinp : InpQ E pos la sc ((t, v) :: ks))
    (hact : ∀ ctx₁ l f, Same true ctx ctx₁ →
      ∃ ctx₂, runAction act ctx₁ v0 l f = .ok ctx₂ ∧ Post ctx₂) :
    ∃ la' sc' ctx' vv, Reaches E ⟨stk, la, sc, ctx⟩ ⟨(q', vv) :: (p, vp) :: rest, la', sc', ctx'⟩ ∧
      InpQ E pos la' sc' ((t, v) :: ks) ∧ Post ctx' := by
  obtain ⟨h1, h2, h3⟩ := hrule
  have h := greduceQ (E := E) (pos := pos) (Post := Post) hstk htop
    (by rw [hE.tables]; exact hdepth)
    (by rw [hE.tables]; exact hfin) (by rw [hE.tables]; exact hred)
    (by rw [hE.tables, h2]; exact hlen) hinp
    (by rw [hE.acts, h3]; exact fun l f => hact ctx l f (Same.refl _ _))
  rw [hE.tables, h1, hgoto] at h
  exact h

/-- a reduction by a rule without action -/
theorem preduce0Q (hE : Compiled E) {stk pushed : List (Nat × TokVal)} {p : Nat}
    {vp : TokVal} {rest : List (Nat × TokVal)} {s : Nat} {v0 : TokVal}
    {rest0 : List (Nat × TokVal)} {la : Lookahead} {sc : ScanState} {ctx : ParseCtx} {t : Nat}
    {v : TokVal} {ks : List (Nat × TokVal)} {r lhs len q' : Nat}
    (hstk : stk = pushed ++ (p, vp) :: rest) (htop : stk = (s, v0) :: rest0)
    (hdepth : stk.length < 10000) (hfin : s ≠ 6)
    (hred : redOK P s (translateTok P t) r = true)
    (hrule : RuleIs r lhs len .none) (hlen : len = pushed.length)
    (hgoto : gotoTo P p lhs = q')
    (hinp : InpQ E pos la sc ((t, v) :: ks)) :
    ∃ la' sc' ctx' vv, Reaches E ⟨stk, la, sc, ctx⟩ ⟨(q', vv) :: (p, vp) :: rest, la', sc', ctx'⟩ ∧
      InpQ E pos la' sc' ((t, v) :: ks) ∧ Same true ctx ctx' :=
  preduceQ hE (Post := fun c => Same true ctx c) hstk htop hdepth hfin hred hrule hlen hgoto hinp
    (fun ctx₁ _ _ hs => ⟨ctx₁, rfl, hs⟩)

/-- `preduceQ` carrying the invariant along -/
theorem preduceIQ {o : Denote.Options} (hE : Compiled E)
    {stk pushed : List (Nat × TokVal)} {p : Nat}
    {vp : TokVal} {rest : List (Nat × TokVal)} {s : Nat} {v0 : TokVal}
    {rest0 : List (Nat × TokVal)} {la : Lookahead} {sc : ScanState} {ctx : ParseCtx} {t : Nat}
    {v : TokVal} {ks : List (Nat × TokVal)} {r lhs len q' : Nat} {act : ParseAct}
    {Post : ParseCtx → Prop}
    (hstk : stk = pushed ++ (p, vp) :: rest) (htop : stk = (s, v0) :: rest0)
    (hdepth : stk.length < 10000) (hfin : s ≠ 6)
    (hred : redOK P s (translateTok P t) r = true)
    (hrule : RuleIs r lhs len act) (hlen : len = pushed.length)
    (hgoto : gotoTo P p lhs = q')
    (hinp : InpQ E pos la sc ((t, v) :: ks)) (hinv : Inv true o ctx)
    (hact : ∀ ctx₁ l f, Same true ctx ctx₁ →
      ∃ ctx₂, runAction act ctx₁ v0 l f = .ok ctx₂ ∧ Post ctx₂) :
    ∃ la' sc' ctx' vv, Reaches E ⟨stk, la, sc, ctx⟩ ⟨(q', vv) :: (p, vp) :: rest, la', sc', ctx'⟩ ∧
      InpQ E pos la' sc' ((t, v) :: ks) ∧ Post ctx' ∧ Inv true o ctx' := by
  obtain ⟨la', sc', ctx', vv, hR, hI, hP, hinv'⟩ := preduceQ hE
    (Post := fun c => Post c ∧ Inv true o c) hstk htop hdepth hfin hred hrule hlen hgoto hinp
    (fun ctx₁ l f hs => by
      obtain ⟨ctx₂, ha, hp⟩ := hact ctx₁ l f hs
      exact ⟨ctx₂, ha, hp, (hinv.of_same hs).of_ok ha⟩)
  exact ⟨la', sc', ctx', vv, hR, hI, hP, hinv'⟩

/-- the action of a state that reduces WITHOUT consulting the lookahead aborts: in the present
scan state -/
theorem preduce_abort_here (hE : Compiled E) {stk : List (Nat × TokVal)} {s : Nat} {v0 : TokVal}
    {rest0 : List (Nat × TokVal)} {la : Lookahead} {sc : ScanState} {ctx : ParseCtx} {t : Nat}
    {v : TokVal} {ks : List (Nat × TokVal)} {r lhs len : Nat} {act : ParseAct} {text : Bytes}
    (htop : stk = (s, v0) :: rest0)
    (hdepth : stk.length < 10000) (hfin : s ≠ 6)
    (hred : redOK P s (translateTok P t) r = true)
    (hrule : RuleIs r lhs len act) (hninf : P.pact.get s = P.pactNinf)
    (hinp : InpQ E pos la sc ((t, v) :: ks))
    (hact : ∀ ctx₁ l f, Same true ctx ctx₁ →
      ∃ ctx₂, runAction act ctx₁ v0 l f = .abort ctx₂ ∧
        ctx₂.cfg.errText = some text ∧ ctx₂.cfg.errLine = l) :
    AbortsAt E ⟨stk, la, sc, ctx⟩ text sc := by
  obtain ⟨_, _, h3⟩ := hrule
  have h := greduce_abortQ (E := E) (pos := pos) htop
    (by rw [hE.tables]; exact hdepth)
    (by rw [hE.tables]; exact hfin) (by rw [hE.tables]; exact hred)
    hinp (by rw [hE.acts, h3]; exact fun l f => hact ctx l f (Same.refl _ _))
  rw [hE.tables, if_pos (by rw [hninf]; exact beq_self_eq_true _)] at h
  exact h

/-- the action of a state that reduces AFTER consulting the lookahead aborts: in the scan state
right after the next token -/
theorem preduce_abort_la (hE : Compiled E) {stk : List (Nat × TokVal)} {s : Nat} {v0 : TokVal}
    {rest0 : List (Nat × TokVal)} {la : Lookahead} {sc : ScanState} {ctx : ParseCtx} {t : Nat}
    {v : TokVal} {ks : List (Nat × TokVal)} {r lhs len : Nat} {act : ParseAct} {text : Bytes}
    (htop : stk = (s, v0) :: rest0)
    (hdepth : stk.length < 10000) (hfin : s ≠ 6)
    (hred : redOK P s (translateTok P t) r = true)
    (hrule : RuleIs r lhs len act) (hninf : P.pact.get s ≠ P.pactNinf)
    (hinp : InpQ E pos la sc ((t, v) :: ks))
    (hact : ∀ ctx₁ l f, Same true ctx ctx₁ →
      ∃ ctx₂, runAction act ctx₁ v0 l f = .abort ctx₂ ∧
        ctx₂.cfg.errText = some text ∧ ctx₂.cfg.errLine = l) :
    AbortsAt E ⟨stk, la, sc, ctx⟩ text (pos ks.length) := by
  obtain ⟨_, _, h3⟩ := hrule
  have h := greduce_abortQ (E := E) (pos := pos) htop
    (by rw [hE.tables]; exact hdepth)
    (by rw [hE.tables]; exact hfin) (by rw [hE.tables]; exact hred)
    hinp (by rw [hE.acts, h3]; exact fun l f => hact ctx l f (Same.refl _ _))
  rw [hE.tables, if_neg (by simpa using hninf)] at h
  exact h

theorem perrorQ (hE : Compiled E) {stk : List (Nat × TokVal)} {s : Nat} {v0 : TokVal}
    {rest0 : List (Nat × TokVal)} {la : Lookahead} {sc : ScanState} {ctx : ParseCtx} {t : Nat}
    {v : TokVal} {ks : List (Nat × TokVal)}
    (htop : stk = (s, v0) :: rest0)
    (hdepth : stk.length < 10000) (hfin : s ≠ 6)
    (herr : errOK P s (translateTok P t) = true) (hninf : P.pact.get s ≠ P.pactNinf)
    (hinp : InpQ E pos la sc ((t, v) :: ks))
    (hnone : (true = true) → ctx.cfg.errText = none) :
    AbortsAt E ⟨stk, la, sc, ctx⟩ Generated.ERR_SYNTAX (pos ks.length) :=
  gerrorQ (E := E) (pos := pos) htop
    (by rw [hE.tables]; exact hdepth)
    (by rw [hE.tables]; exact hfin) (by rw [hE.tables]; exact herr)
    (by rw [hE.tables]; simpa using hninf) hinp (hnone rfl)

end

/-! ### which states consult the lookahead -/

theorem nn_2 : P.pact.get 2 ≠ P.pactNinf := by decide +kernel
theorem nn_5 : P.pact.get 5 ≠ P.pactNinf := by decide +kernel
theorem nn_8 : P.pact.get 8 ≠ P.pactNinf := by decide +kernel
theorem nn_22 : P.pact.get 22 ≠ P.pactNinf := by decide +kernel
theorem nn_34 : P.pact.get 34 ≠ P.pactNinf := by decide +kernel
theorem nn_37 : P.pact.get 37 ≠ P.pactNinf := by decide +kernel
theorem nn_39 : P.pact.get 39 ≠ P.pactNinf := by decide +kernel

/-- after NAME: `$@1` is run without looking at the next token -/
theorem ninf_1 : P.pact.get 1 = P.pactNinf := by decide +kernel
/-- after a one-token scalar: its action is run without looking at the next token -/
theorem ninf_9 : P.pact.get 9 = P.pactNinf := by decide +kernel
theorem ninf_10 : P.pact.get 10 = P.pactNinf := by decide +kernel
theorem ninf_11 : P.pact.get 11 = P.pactNinf := by decide +kernel
theorem ninf_12 : P.pact.get 12 = P.pactNinf := by decide +kernel
theorem ninf_13 : P.pact.get 13 = P.pactNinf := by decide +kernel
theorem ninf_14 : P.pact.get 14 = P.pactNinf := by decide +kernel

end Libconfig.C09L
