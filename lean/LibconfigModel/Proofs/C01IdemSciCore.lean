import LibconfigModel.Proofs.C01IdemSciErr
/-
  C01F, part 10 (scientific notation) — the arithmetic core of idempotence for `%.{P}g`, and the
  offset form of the decimal exponent (every power of ten multiplied by `10^1000`, so that integer
  exponents become natural numbers).
-/
namespace Libconfig.C01I
open Libconfig F64 C01P C01L
open Libconfig.F64R (dist sMag errR)

/-! ### distances -/

theorem dist_comm (a b : Nat) : dist a b = dist b a := by unfold dist; omega

theorem dist_tri (a b c : Nat) : dist a c ≤ dist a b + dist b c := by unfold dist; omega

/-! ### the arithmetic core -/

/-- what the three cases deliver: `X'` lies in a decade `[10^(P-1)·M₂, 10^P·M₂)` and rounds, on
the grid of spacing `M₂`, to `q` -/
structure Landing (X' M₂ P q : Nat) : Prop where
  lo : 10 ^ (P - 1) * M₂ ≤ X'
  hi : X' < 10 ^ P * M₂
  q : divRoundEven X' M₂ = q

theorem pow10_succ_pred (P : Nat) (hP : 1 ≤ P) : 10 ^ P = 10 * 10 ^ (P - 1) := by
  rw [Nat.mul_comm, ← Nat.pow_succ]; congr 1; omega

theorem pow10_even (P : Nat) (hP : 1 ≤ P) : 10 ^ P % 2 = 0 := by
  rw [pow10_succ_pred P hP]; omega

/-- **same decade, carry up, or drop down.**  `X = S·W` lies in the decade `[10^(P-1)·M, 10^P·M)`
and rounds (grid `M`) to `d0`; `X'` is at least as close to `d0·M` as `X` is, and within
`M/20` of it (the spacing of doubles at `P ≤ 15`).  Then `X'` lands in the same decade with the same
digits, or — when `d0·M` is the upper / lower end of the decade — in the decade above (grid `10·M`,
digits `10^(P-1)`) or below (grid `M/10`, digits `10^P`). -/
theorem core15 (X X' M M' P : Nat) (hP : 1 ≤ P) (hM' : 0 < M') (hMM : M = 10 * M')
    (hlo : 10 ^ (P - 1) * M ≤ X) (hhi : X < 10 ^ P * M)
    (hnear : dist (divRoundEven X M * M) X' ≤ dist (divRoundEven X M * M) X)
    (hfine : divRoundEven X M = 10 ^ (P - 1) → 20 * dist (divRoundEven X M * M) X' ≤ M) :
    Landing X' M P (divRoundEven X M) ∨
    (divRoundEven X M = 10 ^ P ∧ Landing X' (10 * M) P (10 ^ (P - 1))) ∨
    (divRoundEven X M = 10 ^ (P - 1) ∧ Landing X' M' P (10 ^ P)) := by
  have hM : 0 < M := by omega
  obtain ⟨hh1, hh2⟩ := dre_half X M hM
  have hq1 : 10 ^ (P - 1) ≤ divRoundEven X M := dre_ge_of X M _ hM hlo
  have hq2 : divRoundEven X M ≤ 10 ^ P := dre_le_of X M _ hM hhi
  have hpp := pow10_succ_pred P hP
  have hApos : 0 < 10 ^ (P - 1) := pow10_pos _
  generalize divRoundEven X M = d0 at *
  have hC1 : 10 ^ (P - 1) * M ≤ d0 * M := Nat.mul_le_mul_right _ hq1
  have hC2 : d0 * M ≤ 10 ^ P * M := Nat.mul_le_mul_right _ hq2
  have hBA : 10 ^ P * M = 10 * (10 ^ (P - 1) * M) := by rw [hpp, Nat.mul_assoc]
  have h2X' : 2 * dist X' (d0 * M) ≤ M := by
    rw [dist_comm X', ← dist_comm (d0 * M) X] at *; omega
  by_cases hX1 : X' < 10 ^ (P - 1) * M
  · -- below the decade
    right; right
    have hd0 : d0 = 10 ^ (P - 1) := by
      false_or_by_contra
      rename_i hne
      have : 10 ^ (P - 1) + 1 ≤ d0 := by omega
      have := Nat.mul_le_mul_right M this
      rw [Nat.add_mul, Nat.one_mul] at this
      unfold dist at *
      generalize d0 * M = C at *
      generalize 10 ^ (P - 1) * M = A at *
      omega
    refine ⟨hd0, ?_⟩
    have hfine := hfine hd0
    have hC : d0 * M = 10 ^ P * M' := by
      rw [hd0, hMM, hpp]; ac_rfl
    have hA : 10 ^ (P - 1) * M = 10 ^ P * M' := by rw [← hd0]; exact hC
    have hlo' : 10 ^ (P - 1) * M' ≤ 10 ^ P * M' - M' := by
      rw [hpp, Nat.mul_assoc]
      have : M' ≤ 10 ^ (P - 1) * M' := Nat.le_mul_of_pos_left _ hApos
      generalize 10 ^ (P - 1) * M' = B at *
      omega
    refine ⟨?_, by rw [← hA]; exact hX1, ?_⟩
    · unfold dist at *
      rw [hC] at hfine
      generalize 10 ^ P * M' = C at *
      generalize 10 ^ (P - 1) * M' = B at *
      omega
    · apply dre_unique X' M' (10 ^ P) hM'
      · rw [← hC, dist_comm]; omega
      · intro _; exact pow10_even P hP
  · by_cases hX2 : X' < 10 ^ P * M
    · -- the same decade
      left
      refine ⟨by omega, hX2, ?_⟩
      apply dre_unique X' M d0 hM
      · rw [dist_comm]; rw [dist_comm X] at hh1; omega
      · intro ht
        apply hh2
        rw [dist_comm] at ht
        rw [dist_comm X] at hh1 ⊢
        omega
    · -- above the decade
      right; left
      have hd0 : d0 = 10 ^ P := by
        false_or_by_contra
        rename_i hne
        have : d0 + 1 ≤ 10 ^ P := by omega
        have := Nat.mul_le_mul_right M this
        rw [Nat.add_mul, Nat.one_mul] at this
        unfold dist at *
        generalize d0 * M = C at *
        generalize 10 ^ P * M = B at *
        omega
      refine ⟨hd0, ?_⟩
      have hC : d0 * M = 10 ^ (P - 1) * (10 * M) := by
        rw [hd0, hpp]; ac_rfl
      refine ⟨?_, ?_, ?_⟩
      · rw [← hC, hd0]; omega
      · have : 10 ^ P * (10 * M) = 10 * (10 ^ P * M) := by ac_rfl
        rw [this]
        rw [hd0] at hnear hh1
        unfold dist at hnear hh1
        have : M ≤ 10 ^ P * M := Nat.le_mul_of_pos_left _ (pow10_pos _)
        generalize 10 ^ P * M = B at *
        omega
      · apply dre_unique X' (10 * M) (10 ^ (P - 1)) (by omega)
        · rw [← hC]; omega
        · intro ht
          exfalso
          rw [← hC] at ht
          omega

/-- **seventeen digits are exact.**  `X = S·W` lies at or above `10^(P-1)·M` with `10^(P-1) > 2^53`,
`X` and `X'` are both within `M/2` of the same grid point, and two different doubles are a
relative `2^-53` apart: then `S' = S`. -/
theorem core17 (S S' W M P C : Nat) (hM : 0 < M) (hP : 17 ≤ P)
    (hlo : 10 ^ (P - 1) * M ≤ S * W) (h1 : 2 * dist C (S * W) ≤ M) (h2 : 2 * dist C (S' * W) ≤ M)
    (hsp : S' ≠ S → S ≤ dist S' S * 2 ^ 53) : S' = S := by
  false_or_by_contra
  rename_i hne
  have hsp := hsp hne
  have htri : dist (S' * W) (S * W) ≤ M := by
    have := dist_tri (S' * W) C (S * W)
    rw [dist_comm (S' * W) C] at this
    omega
  rw [← F64R.dist_mul_right] at htri
  have h16 : 2 ^ 53 < 10 ^ (P - 1) :=
    Nat.lt_of_lt_of_le (by decide : 2 ^ 53 < 10 ^ 16) (Nat.pow_le_pow_right (by omega) (by omega))
  have c1 : 10 ^ (P - 1) * M ≤ 2 ^ 53 * M := by
    calc 10 ^ (P - 1) * M ≤ S * W := hlo
      _ ≤ dist S' S * 2 ^ 53 * W := Nat.mul_le_mul_right _ hsp
      _ = 2 ^ 53 * (dist S' S * W) := by ac_rfl
      _ ≤ 2 ^ 53 * M := Nat.mul_le_mul_left _ htri
  have := Nat.le_of_mul_le_mul_right c1 hM
  omega

/-! ### the offset form of powers of ten -/

/-- `10^1000`: the offset -/
def W10 : Nat := 10 ^ 1000
/-- `10^a`, multiplied by the offset -/
def E10 (a : Int) : Nat := 10 ^ (a + 1000).toNat

theorem W10_pos : 0 < W10 := pow10_pos _
theorem E10_pos (a : Int) : 0 < E10 a := pow10_pos _

theorem E10_add (a : Int) (q : Nat) (ha : -1000 ≤ a) : E10 (a + q) = 10 ^ q * E10 a := by
  unfold E10
  rw [← Nat.pow_add]; congr 1; omega

/-- the two factorisations behind the bridge: `E10 a = 10^a⁺·R`, `W10 = 10^a⁻·R` -/
theorem E10_split (a : Int) (ha : -1000 ≤ a) :
    E10 a = 10 ^ a.toNat * 10 ^ (1000 - (-a).toNat) ∧ W10 = 10 ^ (-a).toNat * 10 ^ (1000 - (-a).toNat) := by
  unfold E10 W10
  constructor
  · rw [← Nat.pow_add]; congr 1; omega
  · rw [← Nat.pow_add]; congr 1; omega

theorem E10_mono (a c : Int) (h : a ≤ c) : E10 a ≤ E10 c := by
  unfold E10
  exact Nat.pow_le_pow_right (by omega) (by omega)

attribute [irreducible] W10 E10

theorem LeP_offset (X Y : Nat) (a : Int) (ha : -1000 ≤ a) : LeP X Y a ↔ X * E10 a ≤ Y * W10 := by
  obtain ⟨h1, h2⟩ := E10_split a ha
  have hR : 0 < 10 ^ (1000 - (-a).toNat) := pow10_pos _
  unfold LeP
  rw [h1, h2, ← Nat.mul_assoc, ← Nat.mul_assoc]
  exact (Nat.mul_le_mul_right_iff hR).symm

theorem LtP_offset (X Y : Nat) (a : Int) (ha : -1000 ≤ a) : LtP X Y a ↔ Y * W10 < X * E10 a := by
  obtain ⟨h1, h2⟩ := E10_split a ha
  have hR : 0 < 10 ^ (1000 - (-a).toNat) := pow10_pos _
  unfold LtP
  rw [h1, h2, ← Nat.mul_assoc, ← Nat.mul_assoc]
  exact (Nat.mul_lt_mul_right hR).symm

theorem gD0_offset (num den : Nat) (sh : Int) (ha : -1000 ≤ sh) :
    gD0 num den sh = divRoundEven (num * W10) (den * E10 sh) := by
  obtain ⟨h1, h2⟩ := E10_split sh ha
  have hR : 0 < 10 ^ (1000 - (-sh).toNat) := pow10_pos _
  rw [gD0_eq, h1, h2, ← Nat.mul_assoc, ← Nat.mul_assoc, dre_scale _ _ _ hR]

/-- replacing the ratio `num/den` by the equal ratio `S/T` -/
theorem dre_ratio (num den S T A B : Nat) (hd : 0 < den) (hT : 0 < T) (h : num * T = S * den) :
    divRoundEven (num * A) (den * B) = divRoundEven (S * A) (T * B) := by
  rw [← dre_scale (num * A) (den * B) T hT, ← dre_scale (S * A) (T * B) den hd]
  congr 1
  · calc num * A * T = num * T * A := Nat.mul_right_comm _ _ _
      _ = S * den * A := by rw [h]
      _ = S * A * den := Nat.mul_right_comm _ _ _
  · ac_rfl

theorem le_ratio (num den S T A B : Nat) (hd : 0 < den) (hT : 0 < T) (h : num * T = S * den) :
    den * A ≤ num * B ↔ T * A ≤ S * B := by
  have e1 : den * A * T = T * A * den := by ac_rfl
  have e2 : num * B * T = S * B * den := by
    calc num * B * T = num * T * B := Nat.mul_right_comm _ _ _
      _ = S * den * B := by rw [h]
      _ = S * B * den := Nat.mul_right_comm _ _ _
  calc den * A ≤ num * B ↔ den * A * T ≤ num * B * T := (Nat.mul_le_mul_right_iff hT).symm
    _ ↔ T * A * den ≤ S * B * den := by rw [e1, e2]
    _ ↔ T * A ≤ S * B := Nat.mul_le_mul_right_iff hd

theorem lt_ratio (num den S T A B : Nat) (hd : 0 < den) (hT : 0 < T) (h : num * T = S * den) :
    num * B < den * A ↔ S * B < T * A := by
  have := le_ratio num den S T A B hd hT h
  omega

end Libconfig.C01I

