import LibconfigModel.Proofs.C09LineSim3
/-
  C09L, the whole parse — the rejecting direction of Proofs/C02DenoteMain.lean with positions:
  `yyparse` over the compiled tables, started on a cleared configuration in front of the tokens of
  a text that the reference interpreter rejects, aborts with the denoted message IN THE SCAN STATE
  RIGHT AFTER THE TOKEN `reportAt` NAMES, and records the line counter of that state — unless the
  fuel of the model runs out.
-/
namespace Libconfig.C09L
open Libconfig C02P C05P C02C C01PP C04 C04R Denote C02D

section
variable {E : ParserEnv} {pos : Nat → ScanState} {o : Options}

/-- what the simulation of a rejected text establishes -/
def OffenceSim (E : ParserEnv) (pos : Nat → ScanState) (s₀ : ScanState) (ctx₀ : ParseCtx) :
    Option (ErrKind × List Denote.Item) → Prop
  | none => True
  | some (k, w) => AbortsAt E ⟨[(0, {})], none, s₀, ctx₀⟩ k.text (pos (reportAt k w).length)

/-- the parse of a rejected text follows the interpreter, positions included -/
theorem offence_sim (hE : Compiled E) (toks : List (Nat × TokVal)) (hraw : RawOK toks)
    (hnest : nesting toks ≤ 1665) {ctx₀ : ParseCtx}
    (hlex : LexQ E pos (toks ++ [tEOF]))
    (hroot : stripPos ctx₀.cfg.root = { ty := T_GROUP }) (hpar : ctx₀.parent = some [])
    (hstr : ctx₀.str = none) (hinv : Inv true o ctx₀) :
    OffenceSim E pos (pos (toks.length + 1)) ctx₀ (offenceAt o toks) := by
  have hV : View ctx₀ (fun x => x) [] ctx₀.cfg.root none ctx₀.setting :=
    ⟨Hole.root, rfl, hpar, hstr, rfl⟩
  have hI : InpJ E pos none (pos (toks.length + 1)) (toks.map itemOf) :=
    ⟨toks, ⟨by simp, hlex⟩, rfl, hraw⟩
  have hsim := (sim_all (pos := pos) (o := o) hE (toks.length + 1)).2.2 [] (toks.map itemOf) 0 3
    mem_0 ({} : TokVal) [] [(0, {})] none (pos (toks.length + 1)) ctx₀ (fun x => x) []
    ctx₀.cfg.root ctx₀.setting
    { ty := T_GROUP } 0 (.inl rfl) (by simp) (by simp) hI hV hroot rfl rfl hinv hnest
  unfold offenceAt
  cases hs : settingsAt o (toks.length + 1) [] (toks.map itemOf) with
  | error k w =>
    rw [hs] at hsim
    exact hsim
  | ok members rest =>
    rw [hs] at hsim
    obtain ⟨b, hR1, stkS, la1, sc1, ctx1, pn1, st1, rfl, hshape, hI1, hV1, hpn1, hinv1, _, hstop⟩ :=
      hsim
    cases rest with
    | nil => trivial
    | cons it tl =>
      obtain ⟨t, v, ks, hin, hlen, hk23, hn, hrest⟩ := hI1.peekL
      have hne10 : translateTok P t ≠ 10 := ne_of_hk hn rfl (hk_ne_10 hstop)
      -- `configuration`
      have hconf : ∃ la2 sc2 ctx2 vv2, Reaches E ⟨stkS, la1, sc1, ctx1⟩
          ⟨[(2, vv2), (0, {})], la2, sc2, ctx2⟩ ∧
          InpQ E pos la2 sc2 ((t, v) :: ks) ∧ Same true ctx1 ctx2 := by
        rcases hshape with rfl | ⟨v3, rfl⟩
        · exact preduce0Q hE (ctx := ctx1)
            (pushed := []) (p := 0) (vp := ({} : TokVal)) (rest := [])
            rfl rfl (by dp) (by decide) (red_0 _ hk23 hne10) rule_2 rfl go_0_conf hin
        · exact preduce0Q hE (ctx := ctx1)
            (pushed := [(3, v3)]) (p := 0) (vp := ({} : TokVal)) (rest := [])
            rfl rfl (by dp) (by decide) (red_3 _ hk23 hne10) rule_3 rfl go_0_conf hin
      obtain ⟨la2, sc2, ctx2, vv2, hR2, hI2, hS2⟩ := hconf
      show AbortsAt E _ ErrKind.syntax.text _
      rw [text_syntax, reportAt_syntax, ← hlen]
      refine AbortsAt.of_reaches (hR1.trans hR2) ?_
      exact perrorQ hE rfl (by dp) (by decide) (err_2 _ hk23 (ne_of_hk hn rfl hk_ne_0)) nn_2 hI2
        (hinv1.of_same hS2).err

/-- **The position of the offence, core statement**: under the hypotheses of
`C02D.denote_error_core` with a scanner run without include errors whose scan states are `pos`
(`pos n`: the state in which `n` tokens, the end marker included, are still to come): if the
interpreter of DenotePos.lean rejects the text for `k`, the items not yet read at the offence
being `w`, then whatever `yyparse` returns with enough fuel is 1, with the message of `k`, in the
scan state right after the token `reportAt k w` begins with, and the error line recorded is the
line counter of that state. -/
theorem offence_core (hE : Compiled E) (toks : List (Nat × TokVal)) (hraw : RawOK toks)
    (hnest : nesting toks ≤ 1665) {fuel : Nat} {s' : ScanState} {ctx₀ ctx' : ParseCtx}
    {r : ParseResult} (hlex : LexQ E pos (toks ++ [tEOF]))
    (hroot : stripPos ctx₀.cfg.root = { ty := T_GROUP }) (hpar : ctx₀.parent = some [])
    (hstr : ctx₀.str = none) (hinv : Inv true o ctx₀)
    (h : yyparse E fuel (pos (toks.length + 1)) ctx₀ = (s', ctx', r)) (hr : r ≠ .outOfFuel)
    {k : ErrKind} {w : List Denote.Item} (hd : offenceAt o toks = some (k, w)) :
    r = .abort ∧ ctx'.cfg.errText = some k.text ∧
      ctx'.cfg.errLine = (pos (reportAt k w).length).buf.lineno ∧
      s' = pos (reportAt k w).length := by
  have hsim := offence_sim (o := o) hE toks hraw hnest hlex hroot hpar hstr hinv
  rw [hd] at hsim
  have := hsim.part fuel
  rw [← yyparse_eq_run', h] at this
  rcases this with hout | hab
  · exact absurd hout hr
  · exact hab

end

end Libconfig.C09L
