import LibconfigModel.Proofs.C02DenoteStatic
import LibconfigModel.Proofs.C02DenoteSpec
/-
  C02D, semantic side: what the grammar actions do to the tree under construction in the
  situations an arbitrary text can produce — beyond those of Proofs/C01ParseSem.lean (whose
  `Hole` / `View` / `Slot` vocabulary is reused): a setting name that is already taken (rejected,
  or, with overrides, the earlier setting removed), adjacent strings, array elements of the wrong
  type; and the invariant that a successful action leaves the error text and the options alone.
-/
namespace Libconfig.C02D
open Libconfig C02P C05P C02C C01PP C04 C04R Denote

/-! ### the invariant on the parse context -/

/-- the options are those the interpreter was given; when no include error occurs, no error
text has been recorded yet -/
structure Inv (plain : Bool) (o : Options) (ctx : ParseCtx) : Prop where
  ov : ctx.cfg.opt OPT_ALLOW_OVERRIDES = o.allowOverrides
  err : plain = true → ctx.cfg.errText = none

theorem Inv.of_same {plain : Bool} {o : Options} {a b : ParseCtx} (h : Inv plain o a)
    (hs : Same plain a b) : Inv plain o b := by
  have hopt : b.cfg.options = a.cfg.options := congrArg (·.1) hs.attrs
  refine ⟨?_, fun hp => (hs.err hp).trans (h.err hp)⟩
  rw [← h.ov]
  unfold Config.opt
  rw [hopt]

theorem actAggStart_ok_err {ctx ctx₂ : ParseCtx} {ty l : Nat} {f : Option Bytes}
    (h : actAggStart ctx ty l f = .ok ctx₂) : ctx₂.cfg.errText = ctx.cfg.errText := by
  unfold actAggStart at h
  repeat' split at h
  all_goals first | (cases h; done) | (injection h with h; subst h; rfl)

theorem actValue_ok_err {ctx ctx₂ : ParseCtx} {setter : Node → Option Node} {ty : Nat}
    {fmt : Option Nat} {l : Nat} {f : Option Bytes} {e : Bytes}
    (h : actValue ctx setter ty fmt l f e = .ok ctx₂) : ctx₂.cfg.errText = ctx.cfg.errText := by
  rw [actValue_eq] at h
  repeat' split at h
  all_goals first | (cases h; done) | (injection h with h; subst h; rfl)

/-- a successful action does not touch the error text -/
theorem runAction_ok_err {act : ParseAct} {ctx ctx₂ : ParseCtx} {v : TokVal} {l : Nat}
    {f : Option Bytes} (h : runAction act ctx v l f = .ok ctx₂) :
    ctx₂.cfg.errText = ctx.cfg.errText := by
  cases act <;> simp only [runAction] at h
  case none => injection h with h; subst h; rfl
  case settingName =>
    repeat' split at h
    all_goals first | (cases h; done) | (injection h with h; subst h; rfl)
  case arrayStart => exact actAggStart_ok_err h
  case listStart => exact actAggStart_ok_err h
  case groupStart => exact actAggStart_ok_err h
  case aggEnd =>
    repeat' split at h
    all_goals first | (cases h; done) | (injection h with h; subst h; rfl)
  case stringFirst => injection h with h; subst h; rfl
  case stringNext => injection h with h; subst h; rfl
  case valBool => exact actValue_ok_err h
  case valInt => exact actValue_ok_err h
  case valInt64 => exact actValue_ok_err h
  case valHex => exact actValue_ok_err h
  case valHex64 => exact actValue_ok_err h
  case valFloat => exact actValue_ok_err h
  case valString => exact actValue_ok_err (ctx := { ctx with str := none }) h
  case unknown => cases h

theorem Inv.of_ok {plain : Bool} {o : Options} {act : ParseAct} {ctx ctx₂ : ParseCtx} {v : TokVal}
    {l : Nat} {f : Option Bytes} (h : Inv plain o ctx) (ha : runAction act ctx v l f = .ok ctx₂) :
    Inv plain o ctx₂ := by
  have hat := runAction_attrs act ctx v l f
  rw [ha] at hat
  have hopt : ctx₂.cfg.options = ctx.cfg.options := congrArg (·.1) hat
  refine ⟨?_, fun hp => (runAction_ok_err ha).trans (h.err hp)⟩
  rw [← h.ov]
  unfold Config.opt
  rw [hopt]

/-- `preduce` carrying the invariant along -/
theorem preduceI {E : ParserEnv} {plain : Bool} {o : Options} (hE : Compiled E)
    {stk pushed : List (Nat × TokVal)} {p : Nat}
    {vp : TokVal} {rest : List (Nat × TokVal)} {s : Nat} {v0 : TokVal}
    {rest0 : List (Nat × TokVal)} {la : Lookahead} {sc : ScanState} {ctx : ParseCtx} {t : Nat}
    {v : TokVal} {ks : List (Nat × TokVal)} {r lhs len q' : Nat} {act : ParseAct}
    {Post : ParseCtx → Prop}
    (hstk : stk = pushed ++ (p, vp) :: rest) (htop : stk = (s, v0) :: rest0)
    (hdepth : stk.length < 10000) (hfin : s ≠ 6)
    (hred : redOK P s (translateTok P t) r = true)
    (hrule : RuleIs r lhs len act) (hlen : len = pushed.length)
    (hgoto : gotoTo P p lhs = q')
    (hinp : InpP E plain la sc ((t, v) :: ks)) (hinv : Inv plain o ctx)
    (hact : ∀ ctx₁ l f, Same plain ctx ctx₁ →
      ∃ ctx₂, runAction act ctx₁ v0 l f = .ok ctx₂ ∧ Post ctx₂) :
    ∃ la' sc' ctx' vv, Reaches E ⟨stk, la, sc, ctx⟩ ⟨(q', vv) :: (p, vp) :: rest, la', sc', ctx'⟩ ∧
      InpP E plain la' sc' ((t, v) :: ks) ∧ Post ctx' ∧ Inv plain o ctx' := by
  obtain ⟨la', sc', ctx', vv, hR, hI, hP, hinv'⟩ := preduce hE
    (Post := fun c => Post c ∧ Inv plain o c) hstk htop hdepth hfin hred hrule hlen hgoto hinp
    (fun ctx₁ l f hs => by
      obtain ⟨ctx₂, ha, hp⟩ := hact ctx₁ l f hs
      exact ⟨ctx₂, ha, hp, (hinv.of_same hs).of_ok ha⟩)
  exact ⟨la', sc', ctx', vv, hR, hI, hP, hinv'⟩

/-! ### `stripPos` -/

theorem stripPos_kids (pn : Node) (ks : List Node) :
    stripPos { pn with kids := ks } = { stripPos pn with kids := stripPosList ks } := by
  rw [stripPos_eq, stripPos_eq]

theorem stripPos_kids' {pn r : Node} (h : stripPos pn = r) (ks : List Node) :
    stripPos { pn with kids := ks } = { r with kids := stripPosList ks } := by
  rw [stripPos_kids, h]

theorem stripPos_kids_eq {pn r : Node} (h : stripPos pn = r) : stripPosList pn.kids = r.kids := by
  rw [← h, stripPos_eq]

theorem stripPos_ty' {pn r : Node} (h : stripPos pn = r) : pn.ty = r.ty := by
  rw [← h, stripPos_eq]

theorem stripPosList_snoc (ks : List Node) (k : Node) :
    stripPosList (ks ++ [k]) = stripPosList ks ++ [stripPos k] := by
  rw [stripPosList_append]
  rfl

theorem map_eraseIdx {α β : Type} (f : α → β) (l : List α) (i : Nat) :
    (l.eraseIdx i).map f = (l.map f).eraseIdx i := by
  induction l generalizing i with
  | nil => rfl
  | cons x xs ih =>
    cases i with
    | zero => rfl
    | succ i => simp only [List.eraseIdx_cons_succ, List.map_cons, ih]

/-- `enter` only looks at the names -/
theorem enter_strip (o : Options) (kids : List Node) (nm : Bytes) :
    enter o (stripPosList kids) nm = (enter o kids nm).map stripPosList := by
  unfold enter
  rw [stripPosList_map, List.findIdx?_map]
  have : ((fun k : Node => k.name == some nm) ∘ stripPos) = (fun k : Node => k.name == some nm) := by
    funext k
    show ((stripPos k).name == some nm) = _
    rw [stripPos_eq]
  rw [this]
  cases List.findIdx? (fun k : Node => k.name == some nm) kids with
  | none => simp [stripPosList_map]
  | some i =>
    simp only
    split
    · simp [stripPosList_map, map_eraseIdx]
    · rfl

/-! ### `$@1` in general -/

theorem add_group {dtor ov : Bool} {pn : Node} {nm : Bytes} (hg : pn.ty = T_GROUP)
    (hvalid : validName nm = true) :
    match enter { allowOverrides := ov } pn.kids nm with
    | some kids' => ∃ log, pn.add dtor ov (some nm) (T_NONE : Nat) =
        some ({ pn with kids := kids' ++ [{ name := some nm, ty := T_NONE }] }, kids'.length, log)
    | none => pn.add dtor ov (some nm) (T_NONE : Nat) = none := by
  rw [add_refines]
  unfold Spec.add enter
  show match (match Spec.memberIdx pn.kids nm with
    | none => some pn.kids
    | some i => if ov = true then some (pn.kids.eraseIdx i) else none) with
    | some kids' => _
    | none => _
  cases hm : Spec.memberIdx pn.kids nm with
  | none =>
    simp only
    refine ⟨[], ?_⟩
    simp [hg, Node.isAggregate, isAggregateTy, T_GROUP, T_ARRAY, T_LIST, hvalid, hm]
  | some i =>
    simp only
    cases ov with
    | true =>
      simp only [if_true]
      refine ⟨match pn.kids[i]? with | some old => destroyLog dtor old | none => [], ?_⟩
      simp [hg, Node.isAggregate, isAggregateTy, T_GROUP, T_ARRAY, T_LIST, hvalid, hm]
      rfl
    | false =>
      simp [hg, Node.isAggregate, isAggregateTy, T_GROUP, T_ARRAY, T_LIST, hvalid, hm]

/-- `$@1` when the name may be taken already: the new (typeless) member is appended behind the
members that remain — or the parse is aborted with "duplicate setting name" -/
theorem act_settingName_gen {ctx : ParseCtx} {K : Node → Node} {pp : Path} {pn : Node}
    {str : Option Bytes} {st : Option Path} (hV : View ctx K pp pn str st) (hg : pn.ty = T_GROUP)
    {nm : Bytes} (hvalid : validName nm = true) (v : TokVal) (hv : v.sval = nm) (l : Nat)
    (f : Option Bytes) (o : Options) (hov : ctx.cfg.opt OPT_ALLOW_OVERRIDES = o.allowOverrides) :
    match enter o pn.kids nm with
    | some kids' => ∃ ctx₂, runAction .settingName ctx v l f = .ok ctx₂ ∧
        View ctx₂ K pp
          { pn with kids := kids' ++ [{ name := some nm, ty := T_NONE, line := l, file := f }] }
          str (some (pp ++ [kids'.length]))
    | none => runAction .settingName ctx v l f =
        .abort ({ ctx with setting := none }.yyerror l Generated.ERR_DUPLICATE_SETTING) := by
  have hadd := add_group (dtor := ctx.cfg.destructor) (ov := ctx.cfg.opt OPT_ALLOW_OVERRIDES) hg hvalid
  have ho : ({ allowOverrides := ctx.cfg.opt OPT_ALLOW_OVERRIDES } : Options) = o := by
    cases o; simp only at hov; rw [hov]
  rw [ho] at hadd
  cases he : enter o pn.kids nm with
  | none =>
    rw [he] at hadd
    simp only at hadd ⊢
    simp only [runAction]
    rw [hV.nodeAt, hV.parent]
    simp only
    rw [hv, hadd]
  | some kids' =>
    rw [he] at hadd
    simp only at hadd ⊢
    obtain ⟨log, hadd⟩ := hadd
    simp only [runAction]
    rw [hV.nodeAt, hV.parent]
    simp only
    rw [hv, hadd]
    simp only
    refine ⟨_, rfl, hV.hole, ?_, hV.parent, hV.str, rfl⟩
    rw [capture_root]
    show ((ctx.cfg.root.modify _ pp).modify _ _) = _
    rw [hV.root, hV.hole.mod, (hV.hole.kid pn kids').mod]
    rfl

/-! ### adjacent strings -/

theorem act_stringNext {ctx : ParseCtx} {K : Node → Node} {pp : Path} {pn : Node}
    {st : Option Path} {s : Bytes} (hV : View ctx K pp pn (some s) st) (v : TokVal) (l : Nat)
    (f : Option Bytes) :
    ∃ ctx₂, runAction .stringNext ctx v l f = .ok ctx₂ ∧ View ctx₂ K pp pn (some (s ++ v.sval)) st := by
  simp only [runAction]
  refine ⟨_, rfl, hV.hole, hV.root, hV.parent, ?_, hV.setting⟩
  show some (ctx.str.getD [] ++ v.sval) = some (s ++ v.sval)
  rw [hV.str]
  rfl

/-! ### scalar values -/

/-- the slot is filled with a setting that is `x`, source position apart -/
def Filled (K : Node → Node) (pp : Path) (pn : Node) (pre : List Node) (x : Node)
    (ctx₂ : ParseCtx) : Prop :=
  ∃ n' st', View ctx₂ K pp { pn with kids := pre ++ [n'] } none st' ∧ stripPos n' = x

section
variable {ctx : ParseCtx} {K : Node → Node} {pp : Path} {pn : Node} {st : Option Path}
  {pre : List Node} {nm : Option Bytes}

theorem act_bool (hV : View ctx K pp pn none st) (hS : Slot st pp pn pre nm)
    (hck : pn.ty = T_ARRAY → checkType pn T_BOOL = true) (v : TokVal) (l : Nat) (f : Option Bytes) :
    ∃ ctx₂, runAction .valBool ctx v l f = .ok ctx₂ ∧
      Filled K pp pn pre { name := nm, ty := T_BOOL, ival := v.ival } ctx₂ := by
  simp only [runAction]
  obtain ⟨ctx₂, n', st', h1, h2, h3⟩ := act_value hV hS (setter := fun n => n.setBool v.ival)
    (ty := T_BOOL) (fmt := none) (R := fun nm => { name := nm, ty := T_BOOL, ival := v.ival }) hck
    (by
      intro nm t0 l0 f0 h
      rcases h with rfl | rfl <;> exact ⟨_, rfl, rfl⟩)
    l f Generated.ERR_ARRAY_ELEM_TYPE
  exact ⟨ctx₂, h1, n', st', h2, h3⟩

theorem act_int (hV : View ctx K pp pn none st) (hS : Slot st pp pn pre nm)
    (hck : pn.ty = T_ARRAY → checkType pn T_INT = true) (v : TokVal) (l : Nat) (f : Option Bytes) :
    ∃ ctx₂, runAction .valInt ctx v l f = .ok ctx₂ ∧
      Filled K pp pn pre { name := nm, ty := T_INT, ival := v.ival, fmt := FMT_DEFAULT } ctx₂ := by
  simp only [runAction]
  obtain ⟨ctx₂, n', st', h1, h2, h3⟩ := act_value hV hS
    (setter := fun n => n.setInt (ctx.cfg.opt OPT_AUTOCONVERT) v.ival)
    (ty := T_INT) (fmt := some FMT_DEFAULT)
    (R := fun nm => { name := nm, ty := T_INT, ival := v.ival, fmt := FMT_DEFAULT }) hck
    (by
      intro nm t0 l0 f0 h
      rcases h with rfl | rfl <;> exact ⟨_, rfl, rfl⟩)
    l f Generated.ERR_ARRAY_ELEM_TYPE
  exact ⟨ctx₂, h1, n', st', h2, h3⟩

theorem act_hex (hV : View ctx K pp pn none st) (hS : Slot st pp pn pre nm)
    (hck : pn.ty = T_ARRAY → checkType pn T_INT = true) (v : TokVal) (l : Nat) (f : Option Bytes) :
    ∃ ctx₂, runAction .valHex ctx v l f = .ok ctx₂ ∧
      Filled K pp pn pre { name := nm, ty := T_INT, ival := v.ival, fmt := FMT_HEX } ctx₂ := by
  simp only [runAction]
  obtain ⟨ctx₂, n', st', h1, h2, h3⟩ := act_value hV hS
    (setter := fun n => n.setInt (ctx.cfg.opt OPT_AUTOCONVERT) v.ival)
    (ty := T_INT) (fmt := some FMT_HEX)
    (R := fun nm => { name := nm, ty := T_INT, ival := v.ival, fmt := FMT_HEX }) hck
    (by
      intro nm t0 l0 f0 h
      rcases h with rfl | rfl <;> exact ⟨_, rfl, rfl⟩)
    l f Generated.ERR_ARRAY_ELEM_TYPE
  exact ⟨ctx₂, h1, n', st', h2, h3⟩

theorem act_int64 (hV : View ctx K pp pn none st) (hS : Slot st pp pn pre nm)
    (hck : pn.ty = T_ARRAY → checkType pn T_INT64 = true) (v : TokVal) (l : Nat)
    (f : Option Bytes) :
    ∃ ctx₂, runAction .valInt64 ctx v l f = .ok ctx₂ ∧
      Filled K pp pn pre { name := nm, ty := T_INT64, ival := v.ival, fmt := FMT_DEFAULT } ctx₂ := by
  simp only [runAction]
  obtain ⟨ctx₂, n', st', h1, h2, h3⟩ := act_value hV hS
    (setter := fun n => n.setInt64 (ctx.cfg.opt OPT_AUTOCONVERT) v.ival)
    (ty := T_INT64) (fmt := some FMT_DEFAULT)
    (R := fun nm => { name := nm, ty := T_INT64, ival := v.ival, fmt := FMT_DEFAULT }) hck
    (by
      intro nm t0 l0 f0 h
      rcases h with rfl | rfl <;> exact ⟨_, rfl, rfl⟩)
    l f Generated.ERR_ARRAY_ELEM_TYPE
  exact ⟨ctx₂, h1, n', st', h2, h3⟩

theorem act_hex64 (hV : View ctx K pp pn none st) (hS : Slot st pp pn pre nm)
    (hck : pn.ty = T_ARRAY → checkType pn T_INT64 = true) (v : TokVal) (l : Nat)
    (f : Option Bytes) :
    ∃ ctx₂, runAction .valHex64 ctx v l f = .ok ctx₂ ∧
      Filled K pp pn pre { name := nm, ty := T_INT64, ival := v.ival, fmt := FMT_HEX } ctx₂ := by
  simp only [runAction]
  obtain ⟨ctx₂, n', st', h1, h2, h3⟩ := act_value hV hS
    (setter := fun n => n.setInt64 (ctx.cfg.opt OPT_AUTOCONVERT) v.ival)
    (ty := T_INT64) (fmt := some FMT_HEX)
    (R := fun nm => { name := nm, ty := T_INT64, ival := v.ival, fmt := FMT_HEX }) hck
    (by
      intro nm t0 l0 f0 h
      rcases h with rfl | rfl <;> exact ⟨_, rfl, rfl⟩)
    l f Generated.ERR_ARRAY_ELEM_TYPE
  exact ⟨ctx₂, h1, n', st', h2, h3⟩

theorem act_float (hV : View ctx K pp pn none st) (hS : Slot st pp pn pre nm)
    (hck : pn.ty = T_ARRAY → checkType pn T_FLOAT = true) (v : TokVal) (l : Nat)
    (f : Option Bytes) :
    ∃ ctx₂, runAction .valFloat ctx v l f = .ok ctx₂ ∧
      Filled K pp pn pre { name := nm, ty := T_FLOAT, fval := v.fval } ctx₂ := by
  simp only [runAction]
  obtain ⟨ctx₂, n', st', h1, h2, h3⟩ := act_value hV hS
    (setter := fun n => n.setFloat (ctx.cfg.opt OPT_AUTOCONVERT) v.fval)
    (ty := T_FLOAT) (fmt := none)
    (R := fun nm => { name := nm, ty := T_FLOAT, fval := v.fval }) hck
    (by
      intro nm t0 l0 f0 h
      rcases h with rfl | rfl <;> exact ⟨_, rfl, rfl⟩)
    l f Generated.ERR_ARRAY_ELEM_TYPE
  exact ⟨ctx₂, h1, n', st', h2, h3⟩

theorem act_string {sv : Bytes} (hV : View ctx K pp pn (some sv) st) (hS : Slot st pp pn pre nm)
    (hck : pn.ty = T_ARRAY → checkType pn T_STRING = true) (v : TokVal) (l : Nat)
    (f : Option Bytes) :
    ∃ ctx₂, runAction .valString ctx v l f = .ok ctx₂ ∧
      Filled K pp pn pre { name := nm, ty := T_STRING, sval := some sv } ctx₂ := by
  simp only [runAction]
  have hV' : View { ctx with str := none } K pp pn none st :=
    ⟨hV.hole, hV.root, hV.parent, rfl, hV.setting⟩
  obtain ⟨ctx₂, n', st', h1, h2, h3⟩ := act_value hV' hS
    (setter := fun n => n.setString ctx.str)
    (ty := T_STRING) (fmt := none)
    (R := fun nm => { name := nm, ty := T_STRING, sval := some sv }) hck
    (by
      intro nm t0 l0 f0 h
      rw [hV.str]
      rcases h with rfl | rfl <;> exact ⟨_, rfl, rfl⟩)
    l f Generated.ERR_ARRAY_ELEM_TYPE
  exact ⟨ctx₂, h1, n', st', h2, h3⟩

/-! ### an array element of the wrong type -/

theorem setElem_mismatch {setter : Node → Option Node} {ty : Nat} {pn : Node}
    (hck : checkType pn ty = false) : pn.setElem setter ty (-1) = none := by
  unfold Node.setElem
  split
  · rfl
  · rw [if_pos (by decide), hck]
    rfl

theorem actValue_mismatch {str : Option Bytes} (hV : View ctx K pp pn str st)
    (hpa : pn.ty = T_ARRAY) {setter : Node → Option Node} {ty : Nat} {fmt : Option Nat}
    (hck : checkType pn ty = false) (l : Nat) (f : Option Bytes) (e : Bytes) :
    actValue ctx setter ty fmt l f e = .abort (ctx.yyerror l e) := by
  rw [actValue_eq, hV.inTy, hV.inTy]
  have hty : (pn.ty == T_ARRAY || pn.ty == T_LIST) = true := by simp [hpa]
  rw [hty]
  simp only [if_true]
  rw [hV.nodeAt, hV.parent]
  simp only
  rw [setElem_mismatch hck]

/-- the token of a one-token scalar of type `ty`: its action -/
def ScalAct (act : ParseAct) (ty : Nat) : Prop :=
  ∃ (setter : ParseCtx → TokVal → Node → Option Node) (fmt : Option Nat),
    ∀ (ctx : ParseCtx) (v : TokVal) (l : Nat) (f : Option Bytes),
      runAction act ctx v l f =
        actValue ctx (setter ctx v) ty fmt l f Generated.ERR_ARRAY_ELEM_TYPE

theorem scalAct_bool : ScalAct .valBool T_BOOL :=
  ⟨fun _ v n => n.setBool v.ival, none, fun _ _ _ _ => rfl⟩
theorem scalAct_int : ScalAct .valInt T_INT :=
  ⟨fun ctx v n => n.setInt (ctx.cfg.opt OPT_AUTOCONVERT) v.ival, some FMT_DEFAULT, fun _ _ _ _ => rfl⟩
theorem scalAct_hex : ScalAct .valHex T_INT :=
  ⟨fun ctx v n => n.setInt (ctx.cfg.opt OPT_AUTOCONVERT) v.ival, some FMT_HEX, fun _ _ _ _ => rfl⟩
theorem scalAct_int64 : ScalAct .valInt64 T_INT64 :=
  ⟨fun ctx v n => n.setInt64 (ctx.cfg.opt OPT_AUTOCONVERT) v.ival, some FMT_DEFAULT,
    fun _ _ _ _ => rfl⟩
theorem scalAct_hex64 : ScalAct .valHex64 T_INT64 :=
  ⟨fun ctx v n => n.setInt64 (ctx.cfg.opt OPT_AUTOCONVERT) v.ival, some FMT_HEX, fun _ _ _ _ => rfl⟩
theorem scalAct_float : ScalAct .valFloat T_FLOAT :=
  ⟨fun ctx v n => n.setFloat (ctx.cfg.opt OPT_AUTOCONVERT) v.fval, none, fun _ _ _ _ => rfl⟩

/-- a one-token scalar whose type is not the array's: the parse is aborted with "mismatched
element type in array" -/
theorem act_mismatch {act : ParseAct} {ty : Nat} (hact : ScalAct act ty)
    (hV : View ctx K pp pn none st) (hpa : pn.ty = T_ARRAY) (hck : checkType pn ty = false)
    (v : TokVal) (l : Nat) (f : Option Bytes) :
    runAction act ctx v l f = .abort (ctx.yyerror l Generated.ERR_ARRAY_ELEM_TYPE) := by
  obtain ⟨setter, fmt, h⟩ := hact
  rw [h]
  exact actValue_mismatch hV hpa hck l f _

theorem act_string_mismatch {sv : Bytes} (hV : View ctx K pp pn (some sv) st)
    (hpa : pn.ty = T_ARRAY) (hck : checkType pn T_STRING = false) (v : TokVal) (l : Nat)
    (f : Option Bytes) :
    runAction .valString ctx v l f =
      .abort ({ ctx with str := none }.yyerror l Generated.ERR_ARRAY_ELEM_TYPE) := by
  simp only [runAction]
  have hV' : View { ctx with str := none } K pp pn none st :=
    ⟨hV.hole, hV.root, hV.parent, rfl, hV.setting⟩
  exact actValue_mismatch hV' hpa hck l f _

end

end Libconfig.C02D
