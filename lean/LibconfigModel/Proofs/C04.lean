import LibconfigModel.WF
import LibconfigModel.Step
/-
  Helper lemmas for property C04 (well-formedness of the setting tree is an
  invariant of every API operation).  The statements live in
  `LibconfigModel/Properties/C04.lean`.
-/
namespace Libconfig.C04

open Libconfig

/-! ### `get?`, `WF` and the one-level unfolding of `WF` -/

theorem get?_nil (n : Node) : n.get? [] = some n := by simp [Node.get?]

theorem get?_cons (n : Node) (i : Nat) (p : Path) :
    n.get? (i :: p) = (n.kids[i]?).bind (fun k => k.get? p) := by
  rw [Node.get?]
  cases n.kids[i]? <;> rfl

theorem get?_append (n : Node) (p q : Path) :
    n.get? (p ++ q) = (n.get? p).bind (fun m => m.get? q) := by
  induction p generalizing n with
  | nil => simp [get?_nil]
  | cons i p ih =>
    simp only [List.cons_append, get?_cons]
    cases n.kids[i]? with
    | none => rfl
    | some k => simpa using ih k

/-- `WF` unfolds one level: the node itself and each child. -/
theorem WF_iff (n : Node) : n.WF ↔ n.LocalWF ∧ ∀ k ∈ n.kids, k.WF := by
  constructor
  · intro h
    refine ⟨h [] n (get?_nil n), ?_⟩
    intro k hk p m hm
    obtain ⟨i, hi, rfl⟩ := List.getElem_of_mem hk
    apply h (i :: p) m
    rw [get?_cons, List.getElem?_eq_getElem hi]
    exact hm
  · rintro ⟨hl, hk⟩ p m hm
    cases p with
    | nil =>
      rw [get?_nil] at hm
      cases hm
      exact hl
    | cons i p =>
      rw [get?_cons] at hm
      cases hki : n.kids[i]? with
      | none => rw [hki] at hm; cases hm
      | some k =>
        rw [hki] at hm
        exact hk k (List.mem_of_getElem? hki) p m hm

theorem WF.localWF {n : Node} (h : n.WF) : n.LocalWF := ((WF_iff n).mp h).1

theorem WF.kid {n : Node} (h : n.WF) {k : Node} (hk : k ∈ n.kids) : k.WF :=
  ((WF_iff n).mp h).2 k hk

theorem WF.get {n : Node} (h : n.WF) {p : Path} {m : Node} (hm : n.get? p = some m) : m.WF := by
  intro q r hr
  apply h (p ++ q) r
  rw [get?_append, hm]
  exact hr

/-! ### Local well-formedness under the elementary edits -/

structure Compat (n n' : Node) : Prop where
  name : n'.name = n.name
  ty : n.ty ≠ T_NONE → n'.ty = n.ty

theorem Compat.refl (n : Node) : Compat n n := ⟨rfl, fun _ => rfl⟩

theorem LocalWF.congr {n n' : Node} (h : n.LocalWF) (ht : n'.ty = n.ty) (hk : n'.kids = n.kids) :
    n'.LocalWF := by
  obtain ⟨a, b, c, d, e, f, g, h'⟩ := h
  constructor <;> simp only [Node.isAggregate, ht, hk] <;> assumption

theorem LocalWF.noKids {n : Node} (ht : n.ty ≤ 8) (hk : n.kids = []) : n.LocalWF := by
  constructor <;> simp [hk, ht]

theorem isScalarTy_ne_none {t : Nat} (h : isScalarTy t = true) : t ≠ T_NONE := by
  simp [isScalarTy] at h
  show t ≠ 0
  omega

theorem map_set_self {α β} (f : α → β) (l : List α) (i : Nat) (a a' : α)
    (hi : l[i]? = some a) (hf : f a' = f a) : (l.set i a').map f = l.map f := by
  induction l generalizing i with
  | nil => simp
  | cons x xs ih =>
    cases i with
    | zero => simp at hi; subst hi; simp [hf]
    | succ i => simp at hi; simp [ih i hi]

theorem LocalWF.set {n : Node} (h : n.LocalWF) {i : Nat} {k k' : Node}
    (hi : n.kids[i]? = some k) (hc : Compat k k') :
    Node.LocalWF { n with kids := n.kids.set i k' } := by
  have hk : k ∈ n.kids := List.mem_of_getElem? hi
  have hmem : ∀ x ∈ n.kids.set i k', x = k' ∨ x ∈ n.kids := fun x hx =>
    (List.mem_or_eq_of_mem_set hx).symm
  obtain ⟨a, b, c, d, e, f, g, h'⟩ := h
  have hty : n.ty = T_ARRAY → k'.ty = k.ty := fun ht =>
    hc.ty (isScalarTy_ne_none (g ht k hk))
  refine ⟨a, ?_, ?_, ?_, ?_, ?_, ?_, ?_⟩
  · intro hs
    have := b hs
    simp [this] at hk
  · intro ht x hx
    rcases hmem x hx with rfl | hx
    · rw [hc.name]; exact c ht k hk
    · exact c ht x hx
  · intro ht
    show ((n.kids.set i k').map (·.name)).Nodup
    rw [map_set_self _ _ _ _ _ hi hc.name]
    exact d ht
  · intro ht x hx
    rcases hmem x hx with rfl | hx
    · rw [hc.name]; exact e ht k hk
    · exact e ht x hx
  · intro ht x hx
    rcases hmem x hx with rfl | hx
    · rw [hc.name]; exact f ht k hk
    · exact f ht x hx
  · intro ht x hx
    rcases hmem x hx with rfl | hx
    · rw [hty ht]; exact g ht k hk
    · exact g ht x hx
  · intro ht x hx y hy
    have hx' : x.ty = k.ty := by
      rcases hmem x hx with rfl | hx
      · exact hty ht
      · exact h' ht x hx k hk
    have hy' : y.ty = k.ty := by
      rcases hmem y hy with rfl | hy
      · exact hty ht
      · exact h' ht y hy k hk
    rw [hx', hy']

theorem LocalWF.eraseIdx {n : Node} (h : n.LocalWF) (i : Nat) :
    Node.LocalWF { n with kids := n.kids.eraseIdx i } := by
  have hmem : ∀ x ∈ n.kids.eraseIdx i, x ∈ n.kids := fun x hx => List.mem_of_mem_eraseIdx hx
  obtain ⟨a, b, c, d, e, f, g, h'⟩ := h
  refine ⟨a, ?_, ?_, ?_, ?_, ?_, ?_, ?_⟩
  · intro hs
    show n.kids.eraseIdx i = []
    rw [b hs]; rfl
  · exact fun ht x hx => c ht x (hmem x hx)
  · intro ht
    show ((n.kids.eraseIdx i).map (·.name)).Nodup
    exact ((List.eraseIdx_sublist _ _).map _).nodup (d ht)
  · exact fun ht x hx => e ht x (hmem x hx)
  · exact fun ht x hx => f ht x (hmem x hx)
  · exact fun ht x hx => g ht x (hmem x hx)
  · exact fun ht x hx y hy => h' ht x (hmem x hx) y (hmem y hy)

theorem LocalWF.append {n : Node} (h : n.LocalWF) (c : Node)
    (hagg : n.isAggregate = true)
    (hg : n.ty = T_GROUP → ∃ nm, c.name = some nm ∧ validName nm = true ∧
      ∀ k ∈ n.kids, k.name ≠ some nm)
    (hl : n.ty = T_LIST → c.name = none)
    (ha : n.ty = T_ARRAY → c.name = none ∧ isScalarTy c.ty = true ∧ checkType n c.ty = true) :
    Node.LocalWF { n with kids := n.kids ++ [c] } := by
  obtain ⟨a, b, c', d, e, f, g, h'⟩ := h
  have hmem : ∀ x ∈ n.kids ++ [c], x ∈ n.kids ∨ x = c := fun x hx => by
    simpa using hx
  have hty : n.ty = T_ARRAY → ∀ k ∈ n.kids, k.ty = c.ty := by
    intro ht k hk
    have hct := (ha ht).2.2
    unfold checkType at hct
    cases hks : n.kids with
    | nil => simp [hks] at hk
    | cons k0 ks =>
      rw [hks] at hct
      simp [ht, T_ARRAY, T_LIST] at hct
      rw [← hct]
      exact h' ht k hk k0 (by simp [hks])
  refine ⟨a, ?_, ?_, ?_, ?_, ?_, ?_, ?_⟩
  · intro hs
    exact absurd hagg (by simpa [Node.isAggregate] using hs)
  · intro ht x hx
    rcases hmem x hx with hx | rfl
    · exact c' ht x hx
    · obtain ⟨nm, h1, h2, _⟩ := hg ht
      exact ⟨nm, h1, h2⟩
  · intro ht
    show ((n.kids ++ [c]).map (·.name)).Nodup
    obtain ⟨nm, h1, _, h3⟩ := hg ht
    rw [List.map_append, List.nodup_append]
    refine ⟨d ht, by simp, ?_⟩
    intro x hx y hy
    simp at hy
    subst hy
    obtain ⟨k, hk, rfl⟩ := List.mem_map.mp hx
    rw [h1]
    exact h3 k hk
  · intro ht x hx
    rcases hmem x hx with hx | rfl
    · exact e ht x hx
    · exact hl ht
  · intro ht x hx
    rcases hmem x hx with hx | rfl
    · exact f ht x hx
    · exact (ha ht).1
  · intro ht x hx
    rcases hmem x hx with hx | rfl
    · exact g ht x hx
    · exact (ha ht).2.1
  · intro ht x hx y hy
    have hx' : x.ty = c.ty := by
      rcases hmem x hx with hx | rfl
      · exact hty ht x hx
      · rfl
    have hy' : y.ty = c.ty := by
      rcases hmem y hy with hy | rfl
      · exact hty ht y hy
      · rfl
    rw [hx', hy']

/-! ### `WF` under the elementary edits -/

theorem WF.congr {n n' : Node} (h : n.WF) (ht : n'.ty = n.ty) (hk : n'.kids = n.kids) : n'.WF := by
  rw [WF_iff] at h ⊢
  exact ⟨LocalWF.congr h.1 ht hk, by rw [hk]; exact h.2⟩

theorem WF.leaf {n : Node} (ht : n.ty ≤ 8) (hk : n.kids = []) : n.WF := by
  rw [WF_iff]
  exact ⟨LocalWF.noKids ht hk, by simp [hk]⟩

theorem WF.set {n : Node} (h : n.WF) {i : Nat} {k k' : Node}
    (hi : n.kids[i]? = some k) (hc : Compat k k') (hk' : k'.WF) :
    Node.WF { n with kids := n.kids.set i k' } := by
  rw [WF_iff] at h ⊢
  refine ⟨LocalWF.set h.1 hi hc, ?_⟩
  intro x hx
  rcases List.mem_or_eq_of_mem_set hx with hx | rfl
  · exact h.2 x hx
  · exact hk'

theorem WF.eraseIdx {n : Node} (h : n.WF) (i : Nat) :
    Node.WF { n with kids := n.kids.eraseIdx i } := by
  rw [WF_iff] at h ⊢
  exact ⟨LocalWF.eraseIdx h.1 i, fun x hx => h.2 x (List.mem_of_mem_eraseIdx hx)⟩

theorem WF.append {n : Node} (h : n.WF) (c : Node) (hc : c.WF)
    (hagg : n.isAggregate = true)
    (hg : n.ty = T_GROUP → ∃ nm, c.name = some nm ∧ validName nm = true ∧
      ∀ k ∈ n.kids, k.name ≠ some nm)
    (hl : n.ty = T_LIST → c.name = none)
    (ha : n.ty = T_ARRAY → c.name = none ∧ isScalarTy c.ty = true ∧ checkType n c.ty = true) :
    Node.WF { n with kids := n.kids ++ [c] } := by
  rw [WF_iff] at h ⊢
  refine ⟨LocalWF.append h.1 c hagg hg hl ha, ?_⟩
  intro x hx
  have : x ∈ n.kids ∨ x = c := by simpa using hx
  rcases this with hx | rfl
  · exact h.2 x hx
  · exact hc

/-! ### Lifting an edit of the node at `p` to the root -/

theorem Compat.trans {a b c : Node} (h1 : Compat a b) (h2 : Compat b c) (hne : a.ty ≠ T_NONE) :
    Compat a c :=
  ⟨h2.name.trans h1.name, fun h => by
    have := h1.ty h
    rw [h2.ty (by rw [this]; exact hne), this]⟩

theorem modify_wf (f : Node → Node) (p : Path) : ∀ (root n : Node), root.WF →
    root.get? p = some n → (f n).WF → Compat n (f n) →
    (root.modify f p).WF ∧ Compat root (root.modify f p) := by
  induction p with
  | nil =>
    intro root n hw hg hf hc
    rw [get?_nil] at hg
    cases hg
    simpa [Node.modify] using ⟨hf, hc⟩
  | cons i p ih =>
    intro root n hw hg hf hc
    rw [get?_cons] at hg
    cases hki : root.kids[i]? with
    | none => rw [hki] at hg; cases hg
    | some k =>
      rw [hki] at hg
      have hkw : k.WF := WF.kid hw (List.mem_of_getElem? hki)
      obtain ⟨h1, h2⟩ := ih k n hkw hg hf hc
      have : root.modify f (i :: p) = { root with kids := root.kids.set i (k.modify f p) } := by
        rw [Node.modify]; simp [hki]
      rw [this]
      exact ⟨WF.set hw hki h2 h1, ⟨rfl, fun _ => rfl⟩⟩

/-! ### The scalar setters -/

/-- A node-level setter that keeps the node well-formed and compatible with its parent. -/
def GoodSetter (f : Node → Option Node) : Prop :=
  ∀ n n', n.WF → f n = some n' → n'.WF ∧ Compat n n'

theorem retype_wf {n n' : Node} (h : n.WF) (h0 : (n.ty == T_NONE) = true) (ht : n'.ty ≤ 8)
    (hk : n'.kids = n.kids) (hn : n'.name = n.name) : n'.WF ∧ Compat n n' := by
  have h0' : n.ty = T_NONE := by simpa using h0
  refine ⟨WF.leaf ht ?_, hn, fun hne => absurd h0' hne⟩
  rw [hk]
  exact (WF.localWF h).scalarNoKids (by simp [Node.isAggregate, isAggregateTy, h0'])

theorem samety_wf {n n' : Node} (h : n.WF) (ht : n'.ty = n.ty)
    (hk : n'.kids = n.kids) (hn : n'.name = n.name) : n'.WF ∧ Compat n n' :=
  ⟨WF.congr h ht hk, hn, fun _ => ht⟩

theorem good_setInt (auto : Bool) (v : Int) : GoodSetter (fun n => n.setInt auto v) := by
  intro n n' hw h
  simp only [Node.setInt] at h
  split at h
  · cases h; exact retype_wf hw ‹_› (by simp; decide) rfl rfl
  split at h
  · cases h; exact samety_wf hw rfl rfl rfl
  split at h
  · cases h; exact samety_wf hw rfl rfl rfl
  split at h
  · split at h
    · cases h; exact samety_wf hw rfl rfl rfl
    · cases h
  · cases h

theorem good_setInt64 (auto : Bool) (v : Int) : GoodSetter (fun n => n.setInt64 auto v) := by
  intro n n' hw h
  simp only [Node.setInt64] at h
  split at h
  · cases h; exact retype_wf hw ‹_› (by simp; decide) rfl rfl
  split at h
  · cases h; exact samety_wf hw rfl rfl rfl
  split at h
  · split at h
    · cases h; exact samety_wf hw rfl rfl rfl
    · cases h
  split at h
  · split at h
    · cases h; exact samety_wf hw rfl rfl rfl
    · cases h
  · cases h

theorem good_setFloat (auto : Bool) (b : Nat) : GoodSetter (fun n => n.setFloat auto b) := by
  intro n n' hw h
  simp only [Node.setFloat] at h
  split at h
  · cases h; exact retype_wf hw ‹_› (by simp; decide) rfl rfl
  split at h
  · cases h; exact samety_wf hw rfl rfl rfl
  split at h
  · split at h
    · cases h; exact samety_wf hw rfl rfl rfl
    · cases h
  split at h
  · split at h
    · cases h; exact samety_wf hw rfl rfl rfl
    · cases h
  · cases h

theorem good_setBool (v : Int) : GoodSetter (fun n => n.setBool v) := by
  intro n n' hw h
  simp only [Node.setBool] at h
  split at h
  · cases h; exact retype_wf hw ‹_› (by simp; decide) rfl rfl
  split at h
  · cases h; exact samety_wf hw rfl rfl rfl
  · cases h

theorem good_setString (v : Option Bytes) : GoodSetter (fun n => n.setString v) := by
  intro n n' hw h
  simp only [Node.setString] at h
  split at h
  · cases h; exact retype_wf hw ‹_› (by simp; decide) rfl rfl
  split at h
  · cases h; exact samety_wf hw rfl rfl rfl
  · cases h

theorem good_setFormat (f : Nat) : GoodSetter (fun n => n.setFormat f) := by
  intro n n' hw h
  simp only [Node.setFormat] at h
  split at h
  · cases h
  · cases h; exact samety_wf hw rfl rfl rfl

/-! ### `create`, `set*_elem`, `remove_elem` -/

theorem isAggregate_of_array_or_list {n : Node} (h : n.ty = T_ARRAY ∨ n.ty = T_LIST) :
    n.isAggregate = true := by
  rcases h with h | h <;> simp [Node.isAggregate, isAggregateTy, h]

theorem setElem_wf {setter : Node → Option Node} {ty : Nat} (hs : GoodSetter setter)
    (hty : isScalarTy ty = true) {n n' : Node} {idx : Int} {i : Nat}
    (hw : n.WF) (h : n.setElem setter ty idx = some (n', i)) : n'.WF ∧ Compat n n' := by
  unfold Node.setElem at h
  split at h
  · cases h
  rename_i hal
  have hal' : n.ty = T_ARRAY ∨ n.ty = T_LIST := by
    simp at hal
    by_cases h7 : n.ty = T_ARRAY
    · exact Or.inl h7
    · exact Or.inr (hal h7)
  have hagg := isAggregate_of_array_or_list hal'
  split at h
  · -- append a fresh element, then set it
    split at h
    · cases h
    rename_i hct
    have hct : checkType n ty = true := by simpa using hct
    simp only [Node.create, hagg] at h
    simp only [Bool.not_true, Bool.false_eq_true, if_false] at h
    have hw1 : Node.WF { n with kids := n.kids ++ [{ name := none, ty := ty }] } := by
      apply WF.append hw
      · exact WF.leaf (by simp [isScalarTy] at hty; show ty ≤ 8; omega) rfl
      · exact hagg
      · intro hg; rcases hal' with h | h <;> rw [hg] at h <;> cases h
      · intro _; rfl
      · intro _; exact ⟨rfl, hty, hct⟩
    split at h
    · cases h
    rename_i e he
    split at h
    · cases h
    rename_i e' hse
    cases h
    have hew : e.WF := WF.kid hw1 (List.mem_of_getElem? he)
    obtain ⟨h1, h2⟩ := hs e e' hew hse
    exact ⟨WF.set hw1 he h2 h1, rfl, fun _ => rfl⟩
  · split at h
    · cases h
    rename_i e he
    split at h
    · cases h
    rename_i e' hse
    cases h
    have he' : n.kids[idx.toNat]? = some e := by
      simpa [getElem, hagg] using he
    have hew : e.WF := WF.kid hw (List.mem_of_getElem? he')
    obtain ⟨h1, h2⟩ := hs e e' hew hse
    exact ⟨WF.set hw he' h2 h1, rfl, fun _ => rfl⟩

theorem removeElem_wf {dtor : Bool} {n n' : Node} {idx : Nat} {log : List Nat}
    (hw : n.WF) (h : n.removeElem dtor idx = some (n', log)) : n'.WF ∧ Compat n n' := by
  unfold Node.removeElem at h
  split at h
  · cases h
  split at h
  · cases h
  cases h
  exact ⟨WF.eraseIdx hw idx, rfl, fun _ => rfl⟩

theorem remove_wf {dtor : Bool} {n n' : Node} {name : Option Bytes} {log : List Nat}
    (hw : n.WF) (h : n.remove dtor name = some (n', log)) : n'.WF ∧ Compat n n' := by
  unfold Node.remove at h
  split at h
  · cases h
  split at h
  · cases h
  split at h
  · cases h
  dsimp only at h
  split at h
  · cases h
  rename_i sp hsp
  split at h
  · cases h
  cases h
  apply modify_wf _ _ _ _ hw hsp
  · exact WF.eraseIdx (WF.get hw hsp) _
  · exact ⟨rfl, fun _ => rfl⟩

/-! ### `__config_list_search` -/

theorem listSearch_some {ks : List Node} {nm : Bytes} {off j : Nat} {k : Node}
    (h : listSearch ks nm off = some (j, k)) :
    ∃ i, j = off + i ∧ ks[i]? = some k ∧ k.name = some nm := by
  induction ks generalizing off with
  | nil => simp [listSearch] at h
  | cons x xs ih =>
    rw [listSearch] at h
    split at h
    · rename_i hx
      simp only [Option.some.injEq, Prod.mk.injEq] at h
      obtain ⟨rfl, rfl⟩ := h
      exact ⟨0, rfl, rfl, by simpa using hx⟩
    · obtain ⟨i, h1, h2, h3⟩ := ih h
      exact ⟨i + 1, by omega, by simpa using h2, h3⟩

theorem listSearch_none {ks : List Node} {nm : Bytes} {off : Nat}
    (h : listSearch ks nm off = none) : ∀ k ∈ ks, k.name ≠ some nm := by
  induction ks generalizing off with
  | nil => simp
  | cons x xs ih =>
    rw [listSearch] at h
    split at h
    · cases h
    · rename_i hx
      intro k hk
      rcases List.mem_cons.mp hk with rfl | hk
      · simpa using hx
      · exact ih h k hk

theorem listSearch_of_nodup {ks : List Node} {nm : Bytes} {off i : Nat} {k : Node}
    (hnd : (ks.map (·.name)).Nodup) (hk : ks[i]? = some k) (hn : k.name = some nm) :
    listSearch ks nm off = some (off + i, k) := by
  induction ks generalizing off i with
  | nil => simp at hk
  | cons x xs ih =>
    rw [listSearch]
    cases i with
    | zero =>
      simp at hk; subst hk
      simp [hn]
    | succ i =>
      simp only [List.getElem?_cons_succ] at hk
      simp only [List.map_cons, List.nodup_cons] at hnd
      have hx : x.name ≠ some nm := by
        intro hx
        apply hnd.1
        rw [hx, ← hn]
        exact List.mem_map.mpr ⟨k, List.mem_of_getElem? hk, rfl⟩
      have : (x.name == some nm) = false := by simpa using hx
      rw [this]
      simp only [Bool.false_eq_true, if_false]
      rw [ih hnd.2 hk]
      congr 2
      omega

/-! ### `lookupFrom` / `remove` on a valid member name -/

theorem validChar_spec {c : Nat}
    (h : (isAlpha c || isDigit c || c == 42 || c == 95 || c == 45) = true) :
    isPathSep c = false ∧ c ≠ 91 := by
  simp [isAlpha, isUpper, isLower, isDigit, isPathSep] at h ⊢
  omega

theorem validName_spec {nm : Bytes} (h : validName nm = true) :
    ∃ c cs, nm = c :: cs ∧ c ≠ 91 ∧ ∀ x ∈ c :: cs, isPathSep x = false := by
  cases nm with
  | nil => simp [validName] at h
  | cons c cs =>
    simp only [validName, Bool.and_eq_true, List.all_eq_true] at h
    have hc := validChar_spec (c := c) (by
      have := h.1
      simp only [Bool.or_eq_true] at this ⊢
      rcases this with h | h <;> simp [h])
    refine ⟨c, cs, rfl, hc.2, ?_⟩
    intro x hx
    rcases List.mem_cons.mp hx with rfl | hx
    · exact hc.1
    · exact (validChar_spec (h.2 x hx)).1

theorem takeWhile_notSep {s : Bytes} (h : ∀ x ∈ s, isPathSep x = false) :
    s.takeWhile notSep = s := by
  induction s with
  | nil => rfl
  | cons c cs ih =>
    rw [List.takeWhile_cons]
    simp only [notSep, h c (by simp), Bool.not_false, if_true]
    rw [ih (fun x hx => h x (by simp [hx]))]

theorem dropWhile_notSep {s : Bytes} (h : ∀ x ∈ s, isPathSep x = false) :
    s.dropWhile notSep = [] := by
  induction s with
  | nil => rfl
  | cons c cs ih =>
    rw [List.dropWhile_cons]
    simp only [notSep, h c (by simp), Bool.not_false, if_true]
    exact ih (fun x hx => h x (by simp [hx]))

theorem lastComponent_go {cur s : Bytes} (h : ∀ x ∈ s, isPathSep x = false) :
    lastComponent.go cur s = cur := by
  induction s with
  | nil => rfl
  | cons c cs ih =>
    rw [lastComponent.go]
    simp only [h c (by simp), Bool.false_eq_true, if_false]
    exact ih (fun x hx => h x (by simp [hx]))

theorem lookupFrom_valid {n : Node} {nm : Bytes} {i : Nat} {k : Node}
    (hg : n.ty = T_GROUP) (hv : validName nm = true)
    (hs : listSearch n.kids nm 0 = some (i, k)) : lookupFrom n nm = some [i] := by
  obtain ⟨c, cs, rfl, h91, hsep⟩ := validName_spec hv
  unfold lookupFrom
  simp only [List.length_cons]
  rw [lookupLoop]
  have hc : isPathSep c = false := hsep c (by simp)
  simp only [hc, Bool.false_eq_true, if_false]
  split
  · rename_i r heq
    simp only [List.cons.injEq] at heq
    exact absurd heq.1 h91
  · simp only [hg, beq_self_eq_true, if_true, takeWhile_notSep hsep, dropWhile_notSep hsep, hs]
    simp [lookupLoop]

theorem remove_valid {dtor : Bool} {n : Node} {nm : Bytes} {i : Nat} {k : Node}
    (hg : n.ty = T_GROUP) (hv : validName nm = true)
    (hs : listSearch n.kids nm 0 = some (i, k)) :
    n.remove dtor (some nm) =
      some ({ n with kids := n.kids.eraseIdx i }, destroyLog dtor k) := by
  obtain ⟨c, cs, rfl, h91, hsep⟩ := validName_spec hv
  have hlast : lastComponent (c :: cs) = c :: cs := lastComponent_go hsep
  unfold Node.remove
  simp only [lookupFrom_valid hg hv hs, hlast]
  simp [hg, get?_nil, hs, Node.modify]

/-! ### `config_setting_add` -/

theorem nodup_not_mem_eraseIdx {α} {l : List α} {i : Nat} {a : α} (hnd : l.Nodup)
    (hi : l[i]? = some a) : a ∉ l.eraseIdx i := by
  induction l generalizing i with
  | nil => simp
  | cons x xs ih =>
    simp only [List.nodup_cons] at hnd
    cases i with
    | zero =>
      simp at hi; subst hi
      simpa using hnd.1
    | succ i =>
      simp only [List.getElem?_cons_succ] at hi
      simp only [List.eraseIdx_cons_succ, List.mem_cons, not_or]
      refine ⟨?_, ih hnd.2 hi⟩
      rintro rfl
      exact hnd.1 (List.mem_of_getElem? hi)

theorem map_eraseIdx' {α β} (f : α → β) (l : List α) (i : Nat) :
    (l.eraseIdx i).map f = (l.map f).eraseIdx i := by
  induction l generalizing i with
  | nil => rfl
  | cons x xs ih =>
    cases i with
    | zero => rfl
    | succ i => simp [ih]

theorem create_wf {n n' : Node} {name : Option Bytes} {ty : Nat} (hw : n.WF)
    (h : n.create name ty = some n') (hty : ty ≤ 8)
    (hg : n.ty = T_GROUP → ∃ nm, name = some nm ∧ validName nm = true ∧
      ∀ k ∈ n.kids, k.name ≠ some nm)
    (hl : n.ty = T_LIST → name = none)
    (ha : n.ty = T_ARRAY → name = none ∧ isScalarTy ty = true ∧ checkType n ty = true) :
    n'.WF ∧ Compat n n' := by
  unfold Node.create at h
  split at h
  · cases h
  rename_i hagg
  cases h
  exact ⟨WF.append hw _ (WF.leaf hty rfl) (by simpa using hagg) hg hl ha, rfl, fun _ => rfl⟩

theorem add_wf {dtor ov : Bool} {n n' : Node} {name : Option Bytes} {ty : Int} {i : Nat}
    {log : List Nat} (hw : n.WF) (h : n.add dtor ov name ty = some (n', i, log)) :
    n'.WF ∧ Compat n n' := by
  unfold Node.add at h
  split at h
  · cases h
  rename_i hrange
  split at h
  · cases h
  rename_i hsc
  split at h
  · cases h
  rename_i hct
  have hty8 : ty.toNat ≤ 8 := by
    simp at hrange
    omega
  have harr : n.ty = T_ARRAY → isScalarTy (ty.toNat : Nat) = true ∧ checkType n ty.toNat = true := by
    intro ha
    have : ((ty.toNat : Nat) : Int) = ty := by simp at hrange; omega
    rw [this]
    simp [ha] at hsc hct
    exact ⟨hsc, hct⟩
  generalize hname : (if (n.ty == T_ARRAY || n.ty == T_LIST) = true then none else name) = name' at h
  dsimp only at h
  cases name' with
  | none =>
    simp only [Bool.false_and, Bool.false_eq_true, if_false] at h
    split at h
    · cases h
    rename_i hng
    have hng : n.ty ≠ T_GROUP := by simpa using hng
    split at h
    · cases h
    rename_i p'' hcr
    cases h
    apply create_wf hw hcr hty8
    · exact fun hg => absurd hg hng
    · exact fun _ => rfl
    · exact fun ha => ⟨rfl, harr ha⟩
  | some nm =>
    have hnal : n.ty ≠ T_ARRAY ∧ n.ty ≠ T_LIST := by
      split at hname
      · cases hname
      · rename_i hc; simpa using hc
    simp only [] at h
    split at h
    · cases h
    rename_i hv
    have hv : validName nm = true := by simpa using hv
    split at h
    · cases h
    rename_i hov
    cases hgm : getMember n nm with
    | none =>
      simp only [hgm, Option.isSome_none, Bool.false_eq_true, if_false] at h
      split at h
      · cases h
      rename_i p'' hcr
      cases h
      apply create_wf hw hcr hty8
      · intro hg
        refine ⟨nm, rfl, hv, ?_⟩
        simp only [getMember, hg, beq_self_eq_true, if_true] at hgm
        exact listSearch_none hgm
      · exact fun hl => absurd hl hnal.2
      · exact fun ha => absurd ha hnal.1
    | some ik =>
      obtain ⟨idx, k⟩ := ik
      simp only [hgm, Option.isSome_some, if_true] at h
      have hg : n.ty = T_GROUP := by
        unfold getMember at hgm
        split at hgm
        · rename_i hg; simpa using hg
        · cases hgm
      have hls : listSearch n.kids nm 0 = some (idx, k) := by
        simpa [getMember, hg] using hgm
      rw [remove_valid hg hv hls] at h
      simp only [] at h
      split at h
      · cases h
      rename_i p'' hcr
      cases h
      obtain ⟨j, hj, hkj, hkn⟩ := listSearch_some hls
      have hidx : idx = j := by omega
      subst hidx
      have hw' := WF.eraseIdx hw idx
      have hnd := (WF.localWF hw).groupDistinct hg
      obtain ⟨h1, h2⟩ := create_wf hw' hcr hty8
        (by
          intro _
          refine ⟨nm, rfl, hv, ?_⟩
          intro x hx hxn
          change x ∈ n.kids.eraseIdx idx at hx
          have : some nm ∉ (n.kids.map (·.name)).eraseIdx idx :=
            nodup_not_mem_eraseIdx hnd (by simp [hkj, hkn])
          apply this
          rw [← map_eraseIdx', ← hxn]
          exact List.mem_map.mpr ⟨x, hx, rfl⟩)
        (fun hl => absurd hl hnal.2)
        (fun ha => absurd ha hnal.1)
      exact ⟨h1, h2.name, fun hne => h2.ty hne⟩

/-! ### The transition function -/

theorem withRoot_wf {s : State} (h : s.cfg.WF) {p : Path} {n : Node} (f : Node → Node)
    (hg : s.cfg.root.get? p = some n) (hw : (f n).WF) (hc : Compat n (f n)) :
    (s.withRoot (s.cfg.root.modify f p)).cfg.WF := by
  obtain ⟨h1, h2⟩ := modify_wf f p _ _ h.nodes hg hw hc
  refine ⟨?_, ?_, h1⟩
  · exact h2.name.trans h.rootNameless
  · have : s.cfg.root.ty ≠ T_NONE := by rw [h.rootGroup]; decide
    exact (h2.ty this).trans h.rootGroup

theorem setAt_wf {s : State} (h : s.cfg.WF) (p : Path) {f : Node → Option Node}
    (hf : GoodSetter f) : (setAt s p f).1.cfg.WF := by
  unfold setAt
  split
  · exact h
  rename_i n hn
  split
  · exact h
  rename_i n' hn'
  obtain ⟨h1, h2⟩ := hf n n' (WF.get h.nodes hn) hn'
  exact withRoot_wf h (fun _ => n') hn h1 h2

theorem setElemAt_wf {s : State} (h : s.cfg.WF) (p : Path) (idx : Int)
    {f : Node → Option Node} {ty : Nat} (hf : GoodSetter f) (hty : isScalarTy ty = true) :
    (setElemAt s p idx f ty).1.cfg.WF := by
  unfold setElemAt
  split
  · exact h
  rename_i n hn
  split
  · exact h
  rename_i n' i hn'
  obtain ⟨h1, h2⟩ := setElem_wf hf hty (WF.get h.nodes hn) hn'
  exact withRoot_wf h (fun _ => n') hn h1 h2

theorem query_wf {s : State} (h : s.cfg.WF) (p : Path) (f : Node → Res) :
    (query s p f).1.cfg.WF := by
  unfold query
  split <;> exact h

theorem emptyGroup_wf : Node.WF { ty := T_GROUP } := WF.leaf (by decide) rfl

theorem init_wf : Config.init.WF := ⟨rfl, rfl, emptyGroup_wf⟩

theorem step_add {s : State} (h : s.cfg.WF) (p : Path) (name : Option Bytes) (ty : Int) :
    (step s (.add p name ty)).1.cfg.WF := by
  simp only [step]
  split
  · exact h
  rename_i n hn
  split
  · exact h
  rename_i n' i log hn'
  obtain ⟨h1, h2⟩ := add_wf (WF.get h.nodes hn) hn'
  exact withRoot_wf h (fun _ => n') hn h1 h2

theorem step_remove {s : State} (h : s.cfg.WF) (p : Path) (name : Option Bytes) :
    (step s (.remove p name)).1.cfg.WF := by
  simp only [step]
  split
  · exact h
  rename_i n hn
  split
  · exact h
  rename_i n' log hn'
  obtain ⟨h1, h2⟩ := remove_wf (WF.get h.nodes hn) hn'
  exact withRoot_wf h (fun _ => n') hn h1 h2

theorem step_removeElem {s : State} (h : s.cfg.WF) (p : Path) (idx : Nat) :
    (step s (.removeElem p idx)).1.cfg.WF := by
  simp only [step]
  split
  · exact h
  rename_i n hn
  split
  · exact h
  rename_i n' log hn'
  obtain ⟨h1, h2⟩ := removeElem_wf (WF.get h.nodes hn) hn'
  exact withRoot_wf h (fun _ => n') hn h1 h2

theorem step_setFloat {s : State} (h : s.cfg.WF) (p : Path) (b : Nat) :
    (step s (.setFloat p b)).1.cfg.WF := by
  simp only [step]
  split
  · exact h
  split
  · exact h
  · exact setAt_wf h p (good_setFloat _ b)

theorem ite_fst_cfg_wf {c : Prop} [Decidable c] {a b : State × Out} (ha : a.1.cfg.WF)
    (hb : b.1.cfg.WF) : (if c then a else b).1.cfg.WF := by
  split <;> assumption

theorem step_setFloatElem {s : State} (h : s.cfg.WF) (p : Path) (idx : Int) (b : Nat) :
    (step s (.setFloatElem p idx b)).1.cfg.WF := by
  simp only [step]
  exact ite_fst_cfg_wf h (setElemAt_wf h p idx (good_setFloat _ b) (by decide))

theorem step_setHook {s : State} (h : s.cfg.WF) (p : Path) (hk : Nat) :
    (step s (.setHook p hk)).1.cfg.WF := by
  simp only [step]
  split
  · exact h
  rename_i n hn
  exact withRoot_wf h _ hn (WF.congr (WF.get h.nodes hn) rfl rfl) ⟨rfl, fun _ => rfl⟩

theorem withCfg_wf {s : State} {c : Config} (h : c.WF) : (s.withCfg c).cfg.WF := h

theorem step_wf (s : State) (op : Op) (h : s.cfg.WF) (hop : ∀ src, op ≠ .read src) :
    (step s op).1.cfg.WF := by
  cases op with
  | add p name ty => exact step_add h p name ty
  | remove p name => exact step_remove h p name
  | removeElem p idx => exact step_removeElem h p idx
  | setInt p v => exact setAt_wf h p (good_setInt _ v)
  | setInt64 p v => exact setAt_wf h p (good_setInt64 _ v)
  | setFloat p b => exact step_setFloat h p b
  | setBool p v => exact setAt_wf h p (good_setBool v)
  | setString p v => exact setAt_wf h p (good_setString v)
  | setIntElem p idx v => exact setElemAt_wf h p idx (good_setInt _ v) (by decide)
  | setInt64Elem p idx v => exact setElemAt_wf h p idx (good_setInt64 _ v) (by decide)
  | setFloatElem p idx b => exact step_setFloatElem h p idx b
  | setBoolElem p idx v => exact setElemAt_wf h p idx (good_setBool v) (by decide)
  | setStringElem p idx v => exact setElemAt_wf h p idx (good_setString v) (by decide)
  | setFormat p f => exact setAt_wf h p (good_setFormat f)
  | setHook p hk => exact step_setHook h p hk
  | setOptions n => exact ⟨h.1, h.2, h.3⟩
  | setOption o f => exact ⟨h.1, h.2, h.3⟩
  | setTabWidth w => exact ⟨h.1, h.2, h.3⟩
  | setFloatPrecision n => exact ⟨h.1, h.2, h.3⟩
  | setDefaultFormat n => exact ⟨h.1, h.2, h.3⟩
  | setIncludeDir d => exact ⟨h.1, h.2, h.3⟩
  | setIncludeFn n => exact ⟨h.1, h.2, h.3⟩
  | setDestructor on => exact ⟨h.1, h.2, h.3⟩
  | setConfigHook hk => exact ⟨h.1, h.2, h.3⟩
  | clear => exact ⟨rfl, rfl, emptyGroup_wf⟩
  | destroy => exact init_wf
  | read src => exact absurd rfl (hop src)
  | get k p => exact query_wf h p _
  | getElemVal k p idx => exact query_wf h p _
  | lookupVal k p name => exact query_wf h p _
  | clookupVal k path => exact h
  | lookup p path => exact query_wf h p _
  | getElem p idx => exact query_wf h p _
  | getMember p name => exact query_wf h p _
  | length p => exact query_wf h p _
  | index p => exact query_wf h p _
  | getFormat p => exact query_wf h p _
  | getOption o => exact h
  | write => exact h
  | writeFile path =>
    have e : (step s (.writeFile path)).1.cfg.root = s.cfg.root := by
      simp only [step]; exact writeFile_root _ _ _
    exact ⟨e ▸ h.1, e ▸ h.2, e ▸ h.3⟩
  | cat path => exact h
  | mkfile p content => exact h
  | mkdir p => exact h
  | rmfile p => exact h

/-! ### Histories -/

theorem foldl_wf (ops : List Op) (hops : ∀ op ∈ ops, ∀ src, op ≠ .read src) (s : State)
    (h : s.cfg.WF) : (ops.foldl (fun s o => (step s o).1) s).cfg.WF := by
  induction ops generalizing s with
  | nil => exact h
  | cons o os ih =>
    simp only [List.foldl_cons]
    apply ih (fun op hop => hops op (by simp [hop]))
    exact step_wf s o h (hops o (by simp))

theorem run_wf (ops : List Op) (hops : ∀ op ∈ ops, ∀ src, op ≠ .read src) :
    (run ops).cfg.WF :=
  foldl_wf ops hops State.init init_wf

/-! ### The executable check -/

theorem nodupB_iff (l : List (Option Bytes)) : nodupB l = true ↔ l.Nodup := by
  induction l with
  | nil => simp [nodupB]
  | cons x xs ih => simp [nodupB, ih]

theorem homogB_iff (ks : List Node) :
    (match ks with
      | [] => true
      | k0 :: ks => ks.all (fun k => k.ty == k0.ty)) = true ↔
    ∀ k ∈ ks, ∀ k' ∈ ks, k.ty = k'.ty := by
  cases ks with
  | nil => simp
  | cons k0 ks =>
    simp only [List.all_eq_true, beq_iff_eq, List.mem_cons]
    constructor
    · intro h k hk k' hk'
      have : ∀ x, x = k0 ∨ x ∈ ks → x.ty = k0.ty := by
        rintro x (rfl | hx)
        · rfl
        · exact h x hx
      rw [this k hk, this k' hk']
    · intro h k hk
      exact h k (Or.inr hk) k0 (Or.inl rfl)

theorem localWFb_iff (n : Node) : n.localWFb = true ↔ n.LocalWF := by
  unfold Node.localWFb
  simp only [Bool.and_eq_true, Bool.or_eq_true, decide_eq_true_eq, nodupB_iff,
    List.all_eq_true, bne_iff_ne, ne_eq, List.isEmpty_iff, Option.isNone_iff_eq_none]
  constructor
  · rintro ⟨⟨⟨⟨h1, h2⟩, h3⟩, h4⟩, h5⟩
    refine ⟨h1, ?_, ?_, ?_, ?_, ?_, ?_, ?_⟩
    · intro hs
      rcases h2 with h2 | h2
      · rw [hs] at h2; cases h2
      · exact h2
    · intro ht k hk
      rcases h3 with h3 | h3
      · exact absurd ht h3
      · have := h3.1 k hk
        cases hn : k.name with
        | none => rw [hn] at this; cases this
        | some nm => rw [hn] at this; exact ⟨nm, rfl, this⟩
    · intro ht
      rcases h3 with h3 | h3
      · exact absurd ht h3
      · exact h3.2
    · intro ht
      rcases h4 with h4 | h4
      · exact absurd ht h4
      · exact h4
    · intro ht k hk
      rcases h5 with h5 | h5
      · exact absurd ht h5
      · exact (h5.1 k hk).1
    · intro ht k hk
      rcases h5 with h5 | h5
      · exact absurd ht h5
      · exact (h5.1 k hk).2
    · intro ht
      rcases h5 with h5 | h5
      · exact absurd ht h5
      · exact (homogB_iff n.kids).mp h5.2
  · rintro ⟨a, b, c, d, e, f, g, h⟩
    refine ⟨⟨⟨⟨a, ?_⟩, ?_⟩, ?_⟩, ?_⟩
    · cases hagg : n.isAggregate with
      | true => exact Or.inl rfl
      | false => exact Or.inr (b hagg)
    · by_cases ht : n.ty = T_GROUP
      · refine Or.inr ⟨?_, d ht⟩
        intro k hk
        obtain ⟨nm, h1, h2⟩ := c ht k hk
        rw [h1]; exact h2
      · exact Or.inl ht
    · by_cases ht : n.ty = T_LIST
      · exact Or.inr (e ht)
      · exact Or.inl ht
    · by_cases ht : n.ty = T_ARRAY
      · exact Or.inr ⟨fun k hk => ⟨f ht k hk, g ht k hk⟩, (homogB_iff n.kids).mpr (h ht)⟩
      · exact Or.inl ht

mutual
theorem wfb_iff : ∀ n : Node, n.wfb = true ↔ n.WF
  | .mk name ty fmt ival fval sval kids hook line file => by
    rw [Node.wfb, Bool.and_eq_true, localWFb_iff, WF_iff, wfbList_iff kids]
theorem wfbList_iff : ∀ ks : List Node, wfbList ks = true ↔ ∀ k ∈ ks, k.WF
  | [] => by simp [wfbList]
  | k :: ks => by
    rw [wfbList, Bool.and_eq_true, wfb_iff k, wfbList_iff ks]
    simp
end

theorem cfg_wfb_iff (c : Config) : c.wfb = true ↔ c.WF := by
  unfold Config.wfb
  simp only [Bool.and_eq_true, Option.isNone_iff_eq_none, beq_iff_eq, wfb_iff]
  constructor
  · rintro ⟨⟨a, b⟩, c⟩; exact ⟨a, b, c⟩
  · rintro ⟨a, b, c⟩; exact ⟨⟨a, b⟩, c⟩

/-! ### Query agreement -/

theorem length_eq (n : Node) (h : n.LocalWF) : n.length = n.kids.length := by
  unfold Node.length
  split
  · rfl
  · rename_i hagg
    rw [h.scalarNoKids (by simpa using hagg)]; rfl

theorem getElem_eq (n : Node) (h : n.LocalWF) (i : Nat) : getElem n i = n.kids[i]? := by
  unfold getElem
  split
  · rfl
  · rename_i hagg
    rw [h.scalarNoKids (by simpa using hagg)]; rfl

theorem getMember_eq (n : Node) (h : n.LocalWF) (hg : n.ty = T_GROUP) (i : Nat) (k : Node)
    (hk : n.kids[i]? = some k) (nm : Bytes) (hn : k.name = some nm) :
    getMember n nm = some (i, k) := by
  unfold getMember
  simp only [hg, beq_self_eq_true, if_true]
  rw [listSearch_of_nodup (h.groupDistinct hg) hk hn]
  simp

theorem getMember_sound (n : Node) (nm : Bytes) (i : Nat) (k : Node)
    (h : getMember n nm = some (i, k)) :
    n.ty = T_GROUP ∧ n.kids[i]? = some k ∧ k.name = some nm := by
  unfold getMember at h
  split at h
  · rename_i hg
    obtain ⟨j, hj, h1, h2⟩ := listSearch_some h
    have : i = j := by omega
    subst this
    exact ⟨by simpa using hg, h1, h2⟩
  · cases h

end Libconfig.C04
