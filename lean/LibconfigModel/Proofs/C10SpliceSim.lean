import LibconfigModel.Proofs.C10SpliceStep
/-
  Helper lemmas for Properties/C10Splice.lean: the simulation between the scanner run with the
  include machinery (run 1) and the scanner run over the spliced text (run 2).

  `flat D s` is the text that remains to be scanned in run 1, spliced: the rest of the current
  buffer, then for every frame the files still to come and the rest of the parent buffer.
  `Rel s₁ s₂` relates the two runs between iterations of the `yylex` loop outside directives:
  run 2 stands at `flat D s₁` with the same start condition; the rest is invariants of run 1
  (`Inv`: start condition INITIAL or SINGLE_LINE_COMMENT, empty string buffer, INITIAL at the
  beginning of a line, the remaining text is a well-formed tree of the depth that is left, a
  directive line only at the beginning of a line; `StackOK`/`TopOK`: the files still to come
  exist and are well-formed, buffers that are not the last of their frame end in a newline,
  a buffer that does not is followed by nothing or a newline in the spliced text).

  The relation is kept by each kind of progress: end of an included file (`rel_pop`,
  `rel_next`: run 1 alone), a lexeme on a plain line or a newline (`rel_unit`: both runs, the
  same rule, the same lexeme), a directive line (`rel_directive`: run 1 alone, 2–3
  iterations).  `yylex_sim'` puts them together for one call of `yylex`; `mu` bounds the
  iterations of run 1 that remain and `yylex_total` is termination of one call.
-/
set_option autoImplicit false

namespace Libconfig.C10S

open Libconfig Libconfig.C10 Libconfig.C10P

section
variable (w : World) (ic : IncludeCfg)

/-! ### induction over the lines of a text -/

theorem lines_ind {P : Bytes → Prop} (h0 : ∀ l, 10 ∉ l → P l)
    (h1 : ∀ l m, 10 ∉ l → P m → P (l ++ 10 :: m)) : ∀ t, P t := by
  intro t
  generalize hn : t.length = n
  induction n using Nat.strongRecOn generalizing t with
  | _ n ih =>
    obtain ⟨l, tail, rfl, hl, ht⟩ := line_split t
    rcases follow_cases ht with rfl | ⟨m, rfl⟩
    · simpa using h0 l hl
    · apply h1 l m hl
      apply ih m.length _ m rfl
      rw [← hn]
      simp only [List.length_append, List.length_cons]
      omega

/-! ### bytes of the spliced text -/

theorem spliceLine_dir (n : Nat) {l path rest : Bytes} {files : List Bytes}
    (hd : directive? l = some (path, rest))
    (hfn : includeFnEval ic.fn ic.dir path = (some files, none)) :
    spliceLine w ic n l = (files.flatMap fun p => splice w ic n ((w.open? p).getD [])) ++ rest := by
  unfold spliceLine
  rw [hd]
  simp only [hfn]

theorem byteText_flatMap {α} {f : α → Bytes} {l : List α} (h : ∀ a ∈ l, ByteText (f a)) :
    ByteText (l.flatMap f) := by
  intro b hb
  obtain ⟨a, ha, hba⟩ := List.mem_flatMap.mp hb
  exact h a ha b hba

theorem rest_sub {l path rest : Bytes} (hd : directive? l = some (path, rest)) :
    ∀ b ∈ rest, b ∈ l := by
  obtain ⟨b1, b2, rfl, -⟩ := directive?_shape hd
  intro b hb
  simp [hb]

theorem path_sub {l path rest : Bytes} (hd : directive? l = some (path, rest)) :
    ∀ b ∈ path, b ∈ l := by
  obtain ⟨b1, b2, rfl, -⟩ := directive?_shape hd
  intro b hb
  simp [hb]

/-- the spliced text of a well-formed tree consists of bytes 1 … 255 (in particular it has no
NUL) -/
theorem splice_bytes : ∀ (D : Nat) (t : Bytes), TreeOK w ic D t → ByteText (splice w ic (D + 1) t) := by
  intro D
  induction D with
  | zero =>
    intro t
    induction t using lines_ind with
    | h0 l hl =>
      intro h
      have hv := treeOK_line (tail := []) hl follow_nil (by simpa using h)
      have := splice_line w ic 0 (l := l) (tail := []) hl follow_nil
      simp only [List.append_nil, spliceTail] at this
      rw [this]
      cases hd : directive? l with
      | none => rw [spliceLine_nondir w ic 0 hd]; exact hv.1
      | some x => exact (hv.2.1.2 x.1 x.2 hd).elim
    | h1 l m hl ih =>
      intro h
      have hv := treeOK_line hl (follow_cons m) h
      rw [splice_line w ic 0 hl (follow_cons m)]
      apply byteText_append.mpr
      constructor
      · cases hd : directive? l with
        | none => rw [spliceLine_nondir w ic 0 hd]; exact hv.1
        | some x => exact (hv.2.1.2 x.1 x.2 hd).elim
      · exact byteText_cons.mpr ⟨by decide, ih (hv.2.2 m rfl)⟩
  | succ D ihD =>
    have hline : ∀ l, ByteText l → LineOK w ic (D + 1) l → ByteText (spliceLine w ic (D + 1) l) := by
      intro l hbl hok
      cases hd : directive? l with
      | none => rw [spliceLine_nondir w ic _ hd]; exact hbl
      | some x =>
        obtain ⟨path, rest⟩ := x
        obtain ⟨files, hfn, hfiles, -⟩ := hok.2 path rest hd
        rw [spliceLine_dir w ic _ hd hfn]
        apply byteText_append.mpr
        constructor
        · apply byteText_flatMap
          intro p hp
          obtain ⟨c, hc, hok⟩ := hfiles p hp
          rw [hc]
          exact ihD c hok
        · exact fun b hb => hbl b (rest_sub hd b hb)
    intro t
    induction t using lines_ind with
    | h0 l hl =>
      intro h
      have hv := treeOK_line (tail := []) hl follow_nil (by simpa using h)
      have := splice_line w ic (D + 1) (l := l) (tail := []) hl follow_nil
      simp only [List.append_nil, spliceTail] at this
      rw [this]
      exact hline l hv.1 hv.2.1
    | h1 l m hl ih =>
      intro h
      have hv := treeOK_line hl (follow_cons m) h
      rw [splice_line w ic (D + 1) hl (follow_cons m)]
      apply byteText_append.mpr
      exact ⟨hline l hv.1 hv.2.1, byteText_cons.mpr ⟨by decide, ih (hv.2.2 m rfl)⟩⟩

/-! ### the remaining text of run 1, spliced -/

/-- the files of a frame still to come -/
def remOf (f : Frame) : List Bytes := f.files.drop (f.cur + 1)

def flatFiles (D : Nat) (rem : List Bytes) : Bytes :=
  rem.flatMap fun p => splice w ic (D + 1) ((w.open? p).getD [])

/-- `D` is the depth left for the current buffer -/
def flatStack : Nat → List Frame → Bytes
  | _, [] => []
  | D, f :: fs =>
    flatFiles w ic D (remOf f) ++ (splice w ic (D + 2) f.parent.rest ++ flatStack (D + 1) fs)

def flat (D : Nat) (s : ScanState) : Bytes :=
  splice w ic (D + 1) s.buf.rest ++ flatStack w ic D s.stack

/-- what follows the files of the innermost frame -/
def after (D : Nat) (f : Frame) (fs : List Frame) : Bytes :=
  splice w ic (D + 2) f.parent.rest ++ flatStack w ic (D + 1) fs

theorem flatStack_cons (D : Nat) (f : Frame) (fs : List Frame) :
    flatStack w ic D (f :: fs) = flatFiles w ic D (remOf f) ++ after w ic D f fs := rfl

/-! ### invariants of run 1 -/

/-- the files still to come exist, are well-formed one level down, and end in a newline
unless nothing or a newline follows the last of them -/
def FilesOK (D : Nat) (aft : Bytes) : List Bytes → Prop
  | [] => True
  | p :: ps =>
    (∃ c, w.open? p = some c ∧ TreeOK w ic D c ∧ (ps ≠ [] → NLT c) ∧
      (ps = [] → NLT c ∨ Follow aft)) ∧ FilesOK D aft ps

/-- the current buffer against the files still to come -/
def CurOK (rest : Bytes) (bol : Bool) (rem : List Bytes) (aft : Bytes) : Prop :=
  (rem ≠ [] → NLT rest ∧ (rest = [] → bol = true)) ∧ (rem = [] → NLT rest ∨ Follow aft)

def TopOK (D : Nat) (rest : Bytes) (bol : Bool) : List Frame → Prop
  | [] => True
  | f :: fs => CurOK rest bol (remOf f) (after w ic D f fs)

def StackOK : Nat → List Frame → Prop
  | _, [] => True
  | D, f :: fs =>
    FilesOK w ic D (after w ic D f fs) (remOf f) ∧ TreeOK w ic (D + 1) f.parent.rest ∧
    directive? (firstLine f.parent.rest) = none ∧ f.parent.bol = false ∧
    TopOK w ic (D + 1) f.parent.rest f.parent.bol fs ∧ StackOK (D + 1) fs

structure Inv (D : Nat) (s : ScanState) : Prop where
  sc01 : s.sc = 0 ∨ s.sc = 1
  str : s.str = []
  bolsc : s.buf.bol = true → s.sc = 0
  text : TreeOK w ic D s.buf.rest
  dirbol : directive? (firstLine s.buf.rest) ≠ none → s.buf.bol = true
  top : TopOK w ic D s.buf.rest s.buf.bol s.stack
  stack : StackOK w ic D s.stack
  depth : D + s.stack.length = 10

/-- the relation between the run with includes (`s₁`) and the run over the spliced text
(`s₂`), between iterations outside directives -/
def Rel (s₁ s₂ : ScanState) : Prop :=
  ∃ D, Inv w ic D s₁ ∧ s₂.sc = s₁.sc ∧ s₂.str = [] ∧ s₂.stack = [] ∧
    s₂.buf.rest = flat w ic D s₁ ∧ (s₁.buf.bol = true → s₂.buf.bol = true)

/-! ### a bound on the remaining iterations of run 1 -/

def stackWt : Nat → List Frame → Nat
  | _, [] => 0
  | D, f :: fs =>
    ((remOf f).map fun p => weight w ic (D + 1) ((w.open? p).getD [])).sum +
      weight w ic (D + 2) f.parent.rest + stackWt (D + 1) fs

/-- an upper bound on the number of iterations of the `yylex` loop until run 1 reports end of
input (the depth left for the current buffer is 10 minus the number of frames) -/
def mu (s : ScanState) : Nat :=
  weight w ic (10 - s.stack.length + 1) s.buf.rest + stackWt w ic (10 - s.stack.length) s.stack

theorem mu_eq {D : Nat} {s : ScanState} (h : D + s.stack.length = 10) :
    mu w ic s = weight w ic (D + 1) s.buf.rest + stackWt w ic D s.stack := by
  unfold mu
  rw [show 10 - s.stack.length = D by omega]

theorem weight_nil (n : Nat) : weight w ic (n + 1) [] = 1 := by
  have := weight_line w ic n (l := []) (tail := []) (by simp) follow_nil
  simpa [lineWeight_nondir w ic _ (directive?_none_of_noquote (line := []) (by simp)),
    weightTail] using this

/-! ### consequences of the invariants -/

theorem filesOK_bytes {D : Nat} {aft : Bytes} : ∀ {rem : List Bytes}, FilesOK w ic D aft rem →
    ByteText (flatFiles w ic D rem)
  | [], _ => by intro b hb; cases hb
  | p :: ps, h => by
    obtain ⟨⟨c, hc, hok, -⟩, hps⟩ := h
    unfold flatFiles
    rw [List.flatMap_cons, hc]
    exact byteText_append.mpr ⟨splice_bytes w ic D c hok, filesOK_bytes hps⟩

theorem flatStack_bytes : ∀ (D : Nat) (st : List Frame), StackOK w ic D st →
    ByteText (flatStack w ic D st)
  | _, [], _ => by intro b hb; cases hb
  | D, f :: fs, h => by
    obtain ⟨hf, hp, -, -, -, hst⟩ := h
    rw [flatStack_cons]
    exact byteText_append.mpr ⟨filesOK_bytes w ic hf,
      byteText_append.mpr ⟨splice_bytes w ic (D + 1) _ hp, flatStack_bytes (D + 1) fs hst⟩⟩

theorem flat_bytes {D : Nat} {s : ScanState} (h : Inv w ic D s) : ByteText (flat w ic D s) :=
  byteText_append.mpr ⟨splice_bytes w ic D _ h.text, flatStack_bytes w ic D _ h.stack⟩

/-- a current buffer that does not end in a newline is followed by nothing or a newline -/
theorem follow_of_not_nlt {D : Nat} {rest : Bytes} {bol : Bool} : ∀ {st : List Frame},
    TopOK w ic D rest bol st → ¬ NLT rest → Follow (flatStack w ic D st)
  | [], _, _ => .inl rfl
  | f :: fs, h, hn => by
    rw [flatStack_cons]
    by_cases hrem : (remOf f) = []
    · rw [hrem]
      rcases h.2 hrem with h | h
      · exact (hn h).elim
      · simpa [flatFiles] using h
    · exact (hn (h.1 hrem).1).elim

theorem not_nlt_of_line {l : Bytes} (hne : l ≠ []) (hl : 10 ∉ l) : ¬ NLT l := by
  rintro (h | h)
  · exact hne h
  · exact hl (List.mem_of_getLast? h)

theorem topOK_drop {D : Nat} {rest : Bytes} {bol bol' : Bool} (n : Nat) {st : List Frame}
    (h : TopOK w ic D rest bol st)
    (hb : ∀ f fs, st = f :: fs → remOf f ≠ [] → rest.drop n = [] → bol' = true) :
    TopOK w ic D (rest.drop n) bol' st := by
  cases st with
  | nil => trivial
  | cons f fs =>
    refine ⟨fun hrem => ⟨nlt_drop n (h.1 hrem).1, fun he => hb f fs rfl hrem he⟩, fun hrem => ?_⟩
    rcases h.2 hrem with h | h
    · exact .inl (nlt_drop n h)
    · exact .inr h

/-! ### the relation is kept: end of an included file -/

theorem remOf_nil {f : Frame} (hq : f.files[f.cur + 1]? = none) : remOf f = [] := by
  unfold remOf
  exact List.drop_eq_nil_iff.mpr (List.getElem?_eq_none_iff.mp hq)

theorem remOf_cons {f : Frame} {q : Bytes} (hq : f.files[f.cur + 1]? = some q) :
    remOf f = q :: remOf { f with cur := f.cur + 1 } := by
  unfold remOf
  obtain ⟨hlt, hget⟩ := List.getElem?_eq_some_iff.mp hq
  rw [List.drop_eq_getElem_cons hlt, hget]

/-- end of the last file of a frame: run 1 pops, run 2 stays -/
theorem rel_pop {s₁ s₂ : ScanState} {f : Frame} {fs : List Frame} (h : Rel w ic s₁ s₂)
    (hre : s₁.buf.rest = []) (hst : s₁.stack = f :: fs) (hq : f.files[f.cur + 1]? = none)
    (ev : List IOEvent) : Rel w ic { s₁ with buf := f.parent, stack := fs, events := ev } s₂ := by
  obtain ⟨D, inv, hsc, hstr, hstk, hrest, hbol⟩ := h
  have hrem := remOf_nil hq
  have hS := inv.stack
  rw [hst] at hS
  obtain ⟨hf, hp, hdir, hpb, htop, hstk'⟩ := hS
  refine ⟨D + 1, ⟨inv.sc01, inv.str, ?_, hp, ?_, htop, hstk', ?_⟩, hsc, hstr, hstk, ?_, ?_⟩
  · intro hb; rw [hpb] at hb; cases hb
  · intro hd; exact (hd hdir).elim
  · have := inv.depth
    rw [hst] at this
    simp only [List.length_cons] at this ⊢
    omega
  · rw [hrest]
    unfold flat
    rw [hre, hst, flatStack_cons, hrem, splice_nil]
    simp [flatFiles, after]
  · intro hb; rw [hpb] at hb; cases hb

/-- end of a file of a frame that has another file: run 1 switches to it, run 2 stays -/
theorem rel_next {s₁ s₂ : ScanState} {f : Frame} {fs : List Frame} {q : Bytes}
    (h : Rel w ic s₁ s₂) (hre : s₁.buf.rest = []) (hst : s₁.stack = f :: fs)
    (hq : f.files[f.cur + 1]? = some q) :
    ∃ c, w.open? q = some c ∧ ∀ ev,
      Rel w ic { s₁ with buf := { rest := c }, stack := { f with cur := f.cur + 1 } :: fs, events := ev }
        s₂ := by
  obtain ⟨D, inv, hsc, hstr, hstk, hrest, hbol⟩ := h
  have hrem := remOf_cons hq
  have hS := inv.stack
  have hT := inv.top
  rw [hst] at hS hT
  obtain ⟨hf, hp, hdir, hpb, htop, hstk'⟩ := hS
  rw [hrem] at hf
  obtain ⟨⟨c, hc, hok, hn1, hn2⟩, hps⟩ := hf
  have hcur := hT.1 (by rw [hrem]; simp)
  have hb1 : s₁.buf.bol = true := hcur.2 hre
  refine ⟨c, hc, fun ev => ⟨D, ⟨inv.sc01, inv.str, fun _ => inv.bolsc hb1, hok, fun _ => rfl,
    ⟨fun hr => ⟨hn1 hr, fun _ => rfl⟩, hn2⟩, ⟨hps, hp, hdir, hpb, htop, hstk'⟩, ?_⟩,
    hsc, hstr, hstk, ?_, fun _ => hbol hb1⟩⟩
  · have := inv.depth
    rw [hst] at this
    simpa using this
  · rw [hrest]
    unfold flat
    rw [hre, hst, flatStack_cons, flatStack_cons, hrem, splice_nil]
    simp [flatFiles, after, hc]

theorem mu_pop {D : Nat} {s₁ : ScanState} {f : Frame} {fs : List Frame}
    (hdepth : D + s₁.stack.length = 10) (hre : s₁.buf.rest = []) (hst : s₁.stack = f :: fs)
    (hq : f.files[f.cur + 1]? = none) (ev : List IOEvent) :
    mu w ic { s₁ with buf := f.parent, stack := fs, events := ev } + 1 = mu w ic s₁ := by
  have hd' : (D + 1) + fs.length = 10 := by
    rw [hst] at hdepth; simp only [List.length_cons] at hdepth; omega
  rw [mu_eq w ic hdepth, mu_eq w ic (s := { s₁ with buf := f.parent, stack := fs, events := ev }) hd',
    hre, hst, weight_nil]
  simp only [stackWt, remOf_nil hq, List.map_nil, List.sum_nil]
  rw [show D + 1 + 1 = D + 2 from rfl]
  omega

theorem mu_next {D : Nat} {s₁ : ScanState} {f : Frame} {fs : List Frame} {q c : Bytes}
    (hdepth : D + s₁.stack.length = 10) (hre : s₁.buf.rest = []) (hst : s₁.stack = f :: fs)
    (hq : f.files[f.cur + 1]? = some q) (hc : w.open? q = some c) (ev : List IOEvent) :
    mu w ic { s₁ with buf := { rest := c }, stack := { f with cur := f.cur + 1 } :: fs, events := ev }
      + 1 = mu w ic s₁ := by
  have hd' : D + ({ f with cur := f.cur + 1 } :: fs).length = 10 := by
    rw [hst] at hdepth; exact hdepth
  generalize hs' : ({ s₁ with buf := { rest := c }, stack := { f with cur := f.cur + 1 } :: fs,
                               events := ev } : ScanState) = s'
  have hs'r : s'.buf.rest = c := by rw [← hs']
  have hs's : s'.stack = { f with cur := f.cur + 1 } :: fs := by rw [← hs']
  rw [mu_eq w ic hdepth, mu_eq w ic (s := s') (by rw [hs's]; exact hd'), hs'r, hs's, hre, hst,
    weight_nil]
  simp only [stackWt, remOf_cons hq, List.map_cons, List.sum_cons, hc, Option.getD_some]
  omega

/-! ### the relation is kept: a lexeme on a plain line, or a newline -/

theorem next_nl {sc : Nat} (hsc : sc = 0 ∨ sc = 1) :
    ∃ r, Flex.next T sc false [10] = some (r, 1) ∧ simpleAct (acts.getD r .unknown) = true ∧
      simpleOut (acts.getD r .unknown) sc [10] = (0, none) := by
  rcases hsc with rfl | rfl
  · exact ⟨28, by decide +kernel, by decide, rfl⟩
  · exact ⟨2, by decide +kernel, by decide, rfl⟩

theorem simpleOut_sc {a : ScanAct} (h : simpleAct a = true) (sc : Nat) (text : Bytes) :
    (simpleOut a sc text).1 = sc ∨ (simpleOut a sc text).1 = 0 ∨ (simpleOut a sc text).1 = 1 := by
  cases a <;> simp only [simpleAct] at h <;> first | exact .inl rfl | cases h | skip
  rename_i sc'
  simp only [Bool.or_eq_true] at h
  rcases h with h | h
  · exact .inr (.inl (Nat.eq_of_beq_eq_true h))
  · exact .inr (.inr (Nat.eq_of_beq_eq_true h))

theorem advBuf_bol_false (b : Buf) (r n : Nat) {l t : Bytes} (hb : b.rest = l ++ t) (hpos : 0 < n)
    (hn : n ≤ l.length) (hl : 10 ∉ l) : (advBuf T b r n).bol = false := by
  show (match (b.rest.take n).getLast? with | some c => c == 10 | none => b.bol) = false
  rw [hb, List.take_append_of_le_length hn]
  have hne : l.take n ≠ [] := by
    intro h
    have := congrArg List.length h
    rw [List.length_take, Nat.min_eq_left hn] at this
    simp at this
    omega
  obtain ⟨c, hc⟩ := Option.isSome_iff_exists.mp (List.getLast?_isSome.mpr hne)
  rw [hc]
  have hcm : c ∈ l := List.mem_of_mem_take (List.mem_of_getLast? hc)
  have : c ≠ 10 := fun h10 => hl (h10 ▸ hcm)
  simpa using this

theorem rel_unit {s₁ s₂ : ScanState} (h : Rel w ic s₁ s₂) (hre : s₁.buf.rest ≠ [])
    (hnd : directive? (firstLine s₁.buf.rest) = none) :
    ∃ r n, Flex.next T s₁.sc s₁.buf.bol s₁.buf.rest = some (r, n) ∧
      Flex.next T s₂.sc s₂.buf.bol s₂.buf.rest = some (r, n) ∧
      simpleAct (acts.getD r .unknown) = true ∧ s₂.buf.rest.take n = s₁.buf.rest.take n ∧
      (∀ sc', mu w ic { s₁ with buf := advBuf T s₁.buf r n, sc := sc' } < mu w ic s₁) ∧
      ∀ sc' o, simpleOut (acts.getD r .unknown) s₁.sc (s₁.buf.rest.take n) = (sc', o) →
        Rel w ic { s₁ with buf := advBuf T s₁.buf r n, sc := sc' }
          { s₂ with buf := advBuf T s₂.buf r n, sc := sc' } := by
  obtain ⟨D, inv, hsc, hstr, hstk, hrest, hbol⟩ := h
  obtain ⟨l, tail, hdec, hl, htail⟩ := line_split s₁.buf.rest
  have hfl : firstLine s₁.buf.rest = l := by rw [hdec]; exact firstLine_append hl htail
  rw [hfl] at hnd
  have htext := inv.text
  rw [hdec] at htext
  have hv := treeOK_line hl htail htext
  have hpl : PlainRem l := plain_nondir hv.2.1.1 hnd
  have hsplice : splice w ic (D + 1) s₁.buf.rest = l ++ spliceTail w ic (D + 1) tail := by
    rw [hdec, splice_line w ic D hl htail, spliceLine_nondir w ic D hnd]
  have hrest₂ : s₂.buf.rest = l ++ (spliceTail w ic (D + 1) tail ++ flatStack w ic D s₁.stack) := by
    rw [hrest]; unfold flat; rw [hsplice, List.append_assoc]
  have hb₁ : ∀ b ∈ s₁.buf.rest, b < 256 := fun b hb => (treeOK_byteText inv.text b hb).2
  have hb₂ : ∀ b ∈ s₂.buf.rest, b < 256 := fun b hb => by
    rw [hrest] at hb
    exact (flat_bytes w ic inv b hb).2
  by_cases hle : l = []
  · -- the newline
    subst hle
    rcases follow_cases htail with rfl | ⟨m, rfl⟩
    · exact (hre (by rw [hdec]; rfl)).elim
    have hdec' : s₁.buf.rest = [10] ++ m := by rw [hdec]; rfl
    have hrest₂' : s₂.buf.rest = [10] ++ (splice w ic (D + 1) m ++ flatStack w ic D s₁.stack) := by
      rw [hrest₂]; rfl
    obtain ⟨r, hnext, hsimple, hout⟩ := next_nl inv.sc01
    have hn₁ : Flex.next T s₁.sc s₁.buf.bol s₁.buf.rest = some (r, 1) := by
      rw [← hnext, hdec']
      exact next_unit inv.sc01 _ (by simp) (.inl rfl) (by simp) (by rw [← hdec']; exact hb₁)
    have hn₂ : Flex.next T s₂.sc s₂.buf.bol s₂.buf.rest = some (r, 1) := by
      rw [← hnext, hsc, hrest₂']
      exact next_unit inv.sc01 _ (by simp) (.inl rfl) (by simp) (by rw [← hrest₂']; exact hb₂)
    refine ⟨r, 1, hn₁, hn₂, hsimple, by rw [hdec', hrest₂']; rfl, ?_, ?_⟩
    · intro sc'
      rw [mu_eq w ic inv.depth, mu_eq w ic (s := { s₁ with buf := advBuf T s₁.buf r 1, sc := sc' })
        inv.depth]
      show weight w ic (D + 1) (s₁.buf.rest.drop 1) + _ < _
      rw [hdec, weight_line w ic D hl htail, lineWeight_nondir w ic _ hnd]
      simp only [List.nil_append, List.drop_succ_cons, List.drop_zero, weightTail, List.length_nil]
      omega
    intro sc' o ho
    have htk : s₁.buf.rest.take 1 = [10] := by rw [hdec']; rfl
    rw [htk, hout] at ho
    simp only [Prod.mk.injEq] at ho
    obtain ⟨rfl, rfl⟩ := ho
    have hbol₁ : (advBuf T s₁.buf r 1).bol = true := by
      show (match (s₁.buf.rest.take 1).getLast? with | some c => c == 10 | none => s₁.buf.bol) = true
      rw [htk]; rfl
    have hbol₂ : (advBuf T s₂.buf r 1).bol = true := by
      show (match (s₂.buf.rest.take 1).getLast? with | some c => c == 10 | none => s₂.buf.bol) = true
      rw [hrest₂']; rfl
    have hr₁ : (advBuf T s₁.buf r 1).rest = m := by
      show s₁.buf.rest.drop 1 = m
      rw [hdec']; rfl
    refine ⟨D, ⟨.inl rfl, inv.str, fun _ => rfl, ?_, fun _ => hbol₁, ?_, inv.stack, inv.depth⟩,
      rfl, hstr, hstk, ?_, fun _ => hbol₂⟩
    · show TreeOK w ic D (advBuf T s₁.buf r 1).rest
      rw [hr₁]; exact hv.2.2 m rfl
    · show TopOK w ic D (s₁.buf.rest.drop 1) (advBuf T s₁.buf r 1).bol s₁.stack
      exact topOK_drop w ic 1 inv.top (fun _ _ _ _ _ => hbol₁)
    · show s₂.buf.rest.drop 1 = splice w ic (D + 1) (advBuf T s₁.buf r 1).rest ++ flatStack w ic D s₁.stack
      rw [hr₁, hrest₂']; rfl
  · -- a lexeme within the line
    have hnn : ¬ NLT l := not_nlt_of_line hle hl
    have hfol : Follow (spliceTail w ic (D + 1) tail ++ flatStack w ic D s₁.stack) := by
      rcases follow_cases htail with rfl | ⟨m, rfl⟩
      · have htop := inv.top
        rw [hdec, List.append_nil] at htop
        simpa [spliceTail] using follow_of_not_nlt w ic htop hnn
      · exact .inr rfl
    have hbl : ∀ b ∈ l, b < 256 := fun b hb => (hv.1 b hb).2
    obtain ⟨r, n, hnext, hpos, hlen, hsimple⟩ :=
      next_plain inv.sc01 hle hpl.1 (plainRem_not_prefix hpl) hbl
    have hn₁ : Flex.next T s₁.sc s₁.buf.bol s₁.buf.rest = some (r, n) := by
      rw [← hnext, hdec]
      exact next_unit inv.sc01 _ hle (.inr ⟨hl, htail⟩) hpl.1 (by rw [← hdec]; exact hb₁)
    have hn₂ : Flex.next T s₂.sc s₂.buf.bol s₂.buf.rest = some (r, n) := by
      rw [← hnext, hsc, hrest₂]
      exact next_unit inv.sc01 _ hle (.inr ⟨hl, hfol⟩) hpl.1 (by rw [← hrest₂]; exact hb₂)
    have htk₁ : s₁.buf.rest.take n = l.take n := by rw [hdec, List.take_append_of_le_length hlen]
    have htk₂ : s₂.buf.rest.take n = l.take n := by rw [hrest₂, List.take_append_of_le_length hlen]
    have hdr₁' : s₁.buf.rest.drop n = l.drop n ++ tail := by
      rw [hdec, List.drop_append_of_le_length hlen]
    refine ⟨r, n, hn₁, hn₂, hsimple, by rw [htk₁, htk₂], ?_, ?_⟩
    · intro sc'
      rw [mu_eq w ic inv.depth, mu_eq w ic (s := { s₁ with buf := advBuf T s₁.buf r n, sc := sc' })
        inv.depth]
      show weight w ic (D + 1) (s₁.buf.rest.drop n) + _ < _
      rw [hdr₁', hdec, weight_line w ic D hl htail,
        weight_line w ic D (fun hm => hl (List.mem_of_mem_drop hm)) htail,
        lineWeight_nondir w ic _ hnd,
        lineWeight_nondir w ic _ (directive?_none_of_noquote (plainRem_drop n hpl).1),
        List.length_drop]
      dsimp only
      omega
    intro sc' o ho
    have hsc' : sc' = 0 ∨ sc' = 1 := by
      have := simpleOut_sc hsimple s₁.sc (s₁.buf.rest.take n)
      rw [ho] at this
      rcases this with h | h | h
      · simp only at h; rw [h]; exact inv.sc01
      · exact .inl h
      · exact .inr h
    have hbol₁ : (advBuf T s₁.buf r n).bol = false := advBuf_bol_false s₁.buf r n hdec hpos hlen hl
    have hdr₁ : s₁.buf.rest.drop n = l.drop n ++ tail := by
      rw [hdec, List.drop_append_of_le_length hlen]
    have hdr₂ : s₂.buf.rest.drop n
        = l.drop n ++ (spliceTail w ic (D + 1) tail ++ flatStack w ic D s₁.stack) := by
      rw [hrest₂, List.drop_append_of_le_length hlen]
    have hld : 10 ∉ l.drop n := fun hm => hl (List.mem_of_mem_drop hm)
    have hpd := plainRem_drop n hpl
    refine ⟨D, ⟨hsc', inv.str, ?_, ?_, ?_, ?_, inv.stack, inv.depth⟩, rfl, hstr, hstk, ?_, ?_⟩
    · intro hb; rw [hbol₁] at hb; cases hb
    · show TreeOK w ic D (s₁.buf.rest.drop n)
      rw [hdr₁]
      exact treeOK_replace hl hld htail htext (byteText_drop n hv.1) (lineOK_of_rem w ic D hpd)
    · intro hd
      exfalso
      apply hd
      show directive? (firstLine (s₁.buf.rest.drop n)) = none
      rw [hdr₁, firstLine_append hld htail]
      exact directive?_none_of_noquote hpd.1
    · show TopOK w ic D (s₁.buf.rest.drop n) (advBuf T s₁.buf r n).bol s₁.stack
      apply topOK_drop w ic n inv.top
      intro f fs hst hrem hnil
      exfalso
      -- the buffer of a file that is not the last of its frame ends in a newline
      rw [hdr₁] at hnil
      have htl : tail = [] := (List.append_eq_nil_iff.mp hnil).2
      have htop := inv.top
      rw [hst] at htop
      have := (htop.1 hrem).1
      rw [hdec, htl, List.append_nil] at this
      exact hnn this
    · show s₂.buf.rest.drop n = splice w ic (D + 1) (s₁.buf.rest.drop n) ++ flatStack w ic D s₁.stack
      rw [hdr₂, hdr₁, splice_line w ic D hld htail,
        spliceLine_nondir w ic D (directive?_none_of_noquote hpd.1), List.append_assoc]
    · intro hb; rw [hbol₁] at hb; cases hb

/-! ### the relation is kept: a directive line -/

theorem filesOK_of_dirOK {D : Nat} {aft rest : Bytes} (hfol : rest = [] → Follow aft) :
    ∀ files : List Bytes, (∀ p ∈ files, ∃ c, w.open? p = some c ∧ TreeOK w ic D c) →
      (∀ p ∈ files.dropLast, ∀ c, w.open? p = some c → NLT c) →
      (∀ p, files.getLast? = some p → ∀ c, w.open? p = some c → NLT c ∨ rest = []) →
      FilesOK w ic D aft files
  | [], _, _, _ => trivial
  | p :: ps, h1, h2, h3 => by
    obtain ⟨c, hc, hok⟩ := h1 p (List.mem_cons_self ..)
    refine ⟨⟨c, hc, hok, ?_, ?_⟩, filesOK_of_dirOK hfol ps
      (fun q hq => h1 q (List.mem_cons_of_mem _ hq)) ?_ ?_⟩
    · intro hne
      apply h2 p _ c hc
      rw [List.dropLast_cons_of_ne_nil hne]
      exact List.mem_cons_self ..
    · intro hnil
      subst hnil
      rcases h3 p rfl c hc with h | h
      · exact .inl h
      · exact .inr (hfol h)
    · intro q hq c' hc'
      have hne : ps ≠ [] := by rintro rfl; cases hq
      apply h2 q _ c' hc'
      rw [List.dropLast_cons_of_ne_nil hne]
      exact List.mem_cons_of_mem _ hq
    · intro q hq c' hc'
      have hne : ps ≠ [] := by rintro rfl; cases hq
      apply h3 q _ c' hc'
      rw [List.getLast?_cons_of_ne_nil hne]
      exact hq

/-- a directive line: run 1 goes through the directive (prefix, path, closing quote, push
or skip) without returning, run 2 stays; afterwards run 1 stands at the start of the first
file, or behind the directive -/
theorem rel_directive {s₁ s₂ : ScanState} (h : Rel w ic s₁ s₂) {x : Bytes × Bytes}
    (hd : directive? (firstLine s₁.buf.rest) = some x) :
    ∃ s₁' k, 0 < k ∧ k ≤ 3 ∧ Steps w ic k s₁ s₁' ∧ Rel w ic s₁' s₂ ∧
      mu w ic s₁' + 3 ≤ mu w ic s₁ := by
  obtain ⟨path, rest⟩ := x
  obtain ⟨D, inv, hsc, hstr, hstk, hrest, hbol⟩ := h
  obtain ⟨l, tail, hdec, hl, htail⟩ := line_split s₁.buf.rest
  have hfl : firstLine s₁.buf.rest = l := by rw [hdec]; exact firstLine_append hl htail
  rw [hfl] at hd
  have htext := inv.text
  rw [hdec] at htext
  have hv := treeOK_line hl htail htext
  have hbol₁ : s₁.buf.bol = true := inv.dirbol (by rw [hfl, hd]; simp)
  have hsc₁ : s₁.sc = 0 := inv.bolsc hbol₁
  have hpr : PlainRem rest := plain_dir hv.2.1.1 hd
  have hbr : ByteText rest := fun b hb => hv.1 b (rest_sub hd b hb)
  have hbp : ByteText path := fun b hb => hv.1 b (path_sub hd b hb)
  have hlr : 10 ∉ rest := fun hm => hl (rest_sub hd 10 hm)
  have hbt : ByteText (l ++ tail) := treeOK_byteText htext
  -- the depth
  obtain ⟨D', rfl⟩ : ∃ D', D = D' + 1 := by
    cases D with
    | zero => exact (hv.2.1.2 path rest hd).elim
    | succ D' => exact ⟨D', rfl⟩
  obtain ⟨files, hfn, hfiles, hdl, hlast⟩ := hv.2.1.2 path rest hd
  have hdepth : s₁.stack.length < 10 := by have := inv.depth; omega
  -- up to the closing quote
  obtain ⟨sb, k0, hk0, hk2, hsil, hsbsc, hsbstr, hsbrest, hsbbol, hsbstack, -⟩ :=
    directive_prefix w ic s₁ l tail path rest hd hdec hbt hl hsc₁ hbol₁ inv.str
  have hhead : ∀ c, (rest ++ tail).head? = some c → c < 256 := by
    intro c hc
    have hmem : c ∈ rest ++ tail := List.mem_of_mem_head? hc
    rcases List.mem_append.mp hmem with hm | hm
    · exact (hbr c hm).2
    · exact ((byteText_append.mp hbt).2 c hm).2
  -- the line is replaced by what the directive stands for
  have hline : l ≠ [] ∧ l.getLast? = some (if rest = [] then 34 else (rest.getLast?.getD 0)) := by
    obtain ⟨b1, b2, rfl, -⟩ := directive?_shape hd
    refine ⟨by simp, ?_⟩
    by_cases hre : rest = []
    · subst hre
      have : b1 ++ kw ++ b2 ++ 34 :: (path ++ [34]) = (b1 ++ kw ++ b2 ++ 34 :: path) ++ [34] := by
        simp
      rw [this, List.getLast?_concat]; rfl
    · simp only [hre, ↓reduceIte]
      have : b1 ++ kw ++ b2 ++ 34 :: (path ++ 34 :: rest) = (b1 ++ kw ++ b2 ++ 34 :: (path ++ [34])) ++ rest := by
        simp
      rw [this, List.getLast?_append]
      obtain ⟨c, hc⟩ := Option.isSome_iff_exists.mp (List.getLast?_isSome.mpr hre)
      rw [hc]; rfl
  have hsuffix : ∃ k, (l ++ tail).drop k = rest ++ tail := by
    obtain ⟨b1, b2, rfl, -⟩ := directive?_shape hd
    refine ⟨(b1 ++ kw ++ b2 ++ 34 :: (path ++ [34])).length, ?_⟩
    have : b1 ++ kw ++ b2 ++ 34 :: (path ++ 34 :: rest) ++ tail
        = (b1 ++ kw ++ b2 ++ 34 :: (path ++ [34])) ++ (rest ++ tail) := by simp
    rw [this, List.drop_left]
  obtain ⟨k, hk⟩ := hsuffix
  -- invariants of the text behind the directive
  have htext' : TreeOK w ic (D' + 1) (rest ++ tail) :=
    treeOK_replace hl hlr htail htext hbr (lineOK_of_rem w ic _ hpr)
  have hfl' : directive? (firstLine (rest ++ tail)) = none := by
    rw [firstLine_append hlr htail]; exact directive?_none_of_noquote hpr.1
  have htop' : TopOK w ic (D' + 1) (rest ++ tail) false s₁.stack := by
    have := inv.top
    rw [hdec] at this
    rw [← hk]
    apply topOK_drop w ic k this
    intro f fs hst hrem hnil
    exfalso
    rw [hk] at hnil
    obtain ⟨hr0, ht0⟩ := List.append_eq_nil_iff.mp hnil
    have htop := inv.top
    rw [hst, hdec, ht0, List.append_nil] at htop
    rcases (htop.1 hrem).1 with h | h
    · exact hline.1 h
    · rw [hline.2, if_pos hr0] at h; cases h
  have hsplice' : splice w ic (D' + 2) (rest ++ tail) = rest ++ spliceTail w ic (D' + 2) tail := by
    rw [splice_line w ic (D' + 1) hlr htail,
      spliceLine_nondir w ic _ (directive?_none_of_noquote hpr.1)]
  have hsplice : splice w ic (D' + 2) s₁.buf.rest =
      (files.flatMap fun p => splice w ic (D' + 1) ((w.open? p).getD [])) ++
        (rest ++ spliceTail w ic (D' + 2) tail) := by
    rw [hdec, splice_line w ic (D' + 1) hl htail, spliceLine_dir w ic _ hd hfn, List.append_assoc]
  have hmu : mu w ic s₁ = 1 + (3 + (files.map fun p => weight w ic (D' + 1)
      ((w.open? p).getD [])).sum + rest.length) + weightTail w ic (D' + 2) tail +
      stackWt w ic (D' + 1) s₁.stack := by
    rw [mu_eq w ic inv.depth, hdec, weight_line w ic (D' + 1) hl htail,
      lineWeight_dir w ic _ hd hfn]
  have hwt' : weight w ic (D' + 2) (rest ++ tail) = 1 + rest.length + weightTail w ic (D' + 2) tail := by
    rw [weight_line w ic (D' + 1) hlr htail,
      lineWeight_nondir w ic _ (directive?_none_of_noquote hpr.1)]
  cases hfs : files with
  | nil =>
    subst hfs
    obtain ⟨s', hsil', hsc', hstr', hrest', hbol', hstack', -⟩ :=
      directive_close_skip w ic sb path (rest ++ tail) hsbsc hsbstr hsbrest hsbbol hhead hbp
        (by rw [hsbstack]; exact hdepth) hfn
    have hmu' : mu w ic s' + 3 ≤ mu w ic s₁ := by
      rw [hmu, mu_eq w ic (D := D' + 1) (by rw [hstack', hsbstack]; exact inv.depth), hrest', hstack',
        hsbstack, hwt']
      simp only [List.map_nil, List.sum_nil]
      omega
    refine ⟨s', k0 + 1, by omega, by omega, hsil.trans hsil', ⟨D' + 1,
      ⟨.inl hsc', hstr', fun _ => hsc', ?_, ?_, ?_, ?_, ?_⟩,
      by rw [hsc, hsc₁, hsc'], hstr, hstk, ?_, ?_⟩, hmu'⟩
    · rw [hrest']; exact htext'
    · rw [hrest']; intro hd'; exact (hd' hfl').elim
    · rw [hrest', hbol', hstack', hsbstack]; exact htop'
    · rw [hstack', hsbstack]; exact inv.stack
    · rw [hstack', hsbstack]; exact inv.depth
    · rw [hrest]
      unfold flat
      rw [hsplice, hrest', hstack', hsbstack, hsplice']
      simp
    · intro hb; rw [hbol'] at hb; cases hb
  | cons p ps =>
    subst hfs
    obtain ⟨c, hc, hcok⟩ := hfiles p (List.mem_cons_self ..)
    obtain ⟨s', hsil', hsc', hstr', hrest', hbol', -, ln, hstack'⟩ :=
      directive_close_push w ic sb path (rest ++ tail) hsbsc hsbstr hsbrest hsbbol hhead hbp
        (by rw [hsbstack]; exact hdepth) p ps c hfn hc
    rw [hsbstack] at hstack'
    -- what follows the files of the new frame
    have haft : after w ic D' { files := p :: ps, cur := 0, parent := ⟨rest ++ tail, false, ln⟩ }
        s₁.stack = (rest ++ spliceTail w ic (D' + 2) tail) ++ flatStack w ic (D' + 1) s₁.stack := by
      unfold after
      rw [hsplice']
    have hfolaft : rest = [] → Follow ((rest ++ spliceTail w ic (D' + 2) tail) ++
        flatStack w ic (D' + 1) s₁.stack) := by
      rintro rfl
      rcases follow_cases htail with rfl | ⟨m, rfl⟩
      · have htop := inv.top
        rw [hdec, List.append_nil] at htop
        have hnn : ¬ NLT l := by
          rintro (h | h)
          · exact hline.1 h
          · rw [hline.2, if_pos rfl] at h; cases h
        simpa [spliceTail] using follow_of_not_nlt w ic htop hnn
      · exact .inr rfl
    have hFiles : FilesOK w ic D' ((rest ++ spliceTail w ic (D' + 2) tail) ++
        flatStack w ic (D' + 1) s₁.stack) (p :: ps) :=
      filesOK_of_dirOK w ic hfolaft (p :: ps) hfiles hdl hlast
    obtain ⟨⟨c', hc', -, hn1, hn2⟩, hps⟩ := hFiles
    rw [hc] at hc'
    cases hc'
    have hrem : remOf { files := p :: ps, cur := 0, parent := ⟨rest ++ tail, false, ln⟩ } = ps := rfl
    have hmu' : mu w ic s' + 3 ≤ mu w ic s₁ := by
      have hd' : D' + s'.stack.length = 10 := by
        rw [hstack']
        have := inv.depth
        simp only [List.length_cons]
        omega
      rw [hmu, mu_eq w ic hd', hrest', hstack']
      simp only [stackWt, hrem, List.map_cons, List.sum_cons, hc, Option.getD_some, hwt']
      omega
    refine ⟨s', k0 + 1, by omega, by omega, hsil.trans hsil', ⟨D',
      ⟨.inl hsc', hstr', fun _ => hsc', ?_, ?_, ?_, ?_, ?_⟩,
      by rw [hsc, hsc₁, hsc'], hstr, hstk, ?_, ?_⟩, hmu'⟩
    · rw [hrest']; exact hcok
    · intro _; exact hbol'
    · rw [hrest', hbol', hstack']
      show CurOK _ _ (remOf _) (after w ic D' _ _)
      rw [hrem, haft]
      exact ⟨fun hne => ⟨hn1 hne, fun _ => rfl⟩, hn2⟩
    · rw [hstack']
      show FilesOK w ic D' (after w ic D' _ _) (remOf _) ∧ _
      rw [hrem, haft]
      exact ⟨hps, htext', hfl', rfl, htop', inv.stack⟩
    · rw [hstack']
      have := inv.depth
      simp only [List.length_cons]
      omega
    · rw [hrest]
      unfold flat
      rw [hsplice, hrest', hstack', flatStack_cons, hrem, haft]
      simp [flatFiles, hc]
    · intro _; exact hbol hbol₁

/-! ### one call of `yylex` in each run -/

theorem yylex_zero (s : ScanState) : (yylex T acts w ic 0 s).2 = .outOfFuel := by rw [yylex]

/-- **Simulation of one `yylex` call.**  From related states, with whatever fuel in each run,
if the call with includes does not run out of fuel and the call on the spliced text has at
least as much fuel (or does not run out either), then both return the same token with the
same value, or both report end of input — never an include error — and the states they
end in are related again. -/
theorem yylex_sim' : ∀ (f₁ f₂ : Nat) (s₁ s₂ : ScanState), Rel w ic s₁ s₂ →
    (yylex T acts w ic f₁ s₁).2 ≠ .outOfFuel →
    (f₁ ≤ f₂ ∨ (yylex T acts w ic f₂ s₂).2 ≠ .outOfFuel) →
    Rel w ic (yylex T acts w ic f₁ s₁).1 (yylex T acts w ic f₂ s₂).1 ∧
    (((yylex T acts w ic f₁ s₁).2 = .eof ∧ (yylex T acts w ic f₂ s₂).2 = .eof) ∨
     ∃ t v, (yylex T acts w ic f₁ s₁).2 = .tok t v ∧ (yylex T acts w ic f₂ s₂).2 = .tok t v) := by
  intro f₁
  induction f₁ using Nat.strongRecOn with
  | _ f₁ ih =>
    intro f₂ s₁ s₂ hrel h1 h2
    have hrel' := hrel
    obtain ⟨D, inv, hsc, hstr, hstk, hrest, hbol⟩ := hrel'
    have hsc5 : s₁.sc < 5 := by rcases inv.sc01 with h | h <;> rw [h] <;> decide
    have hweak : ∀ f', f' < f₁ →
        (f' ≤ f₂ ∨ (yylex T acts w ic f₂ s₂).2 ≠ .outOfFuel) := by
      intro f' hlt
      rcases h2 with h | h
      · exact .inl (by omega)
      · exact .inr h
    by_cases hre : s₁.buf.rest = []
    · -- end of the current buffer of run 1
      have hnext : Flex.next T s₁.sc s₁.buf.bol s₁.buf.rest = none := by
        rw [hre]; exact next_nil _ hsc5 _
      cases hst : s₁.stack with
      | nil =>
        cases f₁ with
        | zero => exact (h1 (yylex_zero w ic s₁)).elim
        | succ n₁ =>
          have hr2 : s₂.buf.rest = [] := by
            rw [hrest]; unfold flat; rw [hre, hst, splice_nil]; rfl
          cases f₂ with
          | zero =>
            rcases h2 with h | h
            · omega
            · exact (h (yylex_zero w ic s₂)).elim
          | succ n₂ =>
            rw [yylex_eof_top T acts w ic n₁ s₁ hnext hst,
              yylex_eof_top T acts w ic n₂ s₂ (by rw [hr2, hsc]; exact next_nil _ hsc5 _) hstk]
            exact ⟨hrel, .inl ⟨rfl, rfl⟩⟩
      | cons f fs =>
        cases hq : f.files[f.cur + 1]? with
        | none =>
          have hsil : Silent w ic s₁ _ := Steps.silent (by omega)
            (Steps.one fun fuel => yylex_eof_pop T acts w ic fuel s₁ f fs hnext hst hq)
          obtain ⟨f', hlt, heq⟩ := hsil f₁ h1
          rw [heq] at h1 ⊢
          exact ih f' hlt f₂ _ s₂ (rel_pop w ic hrel hre hst hq _) h1 (hweak f' hlt)
        | some q =>
          obtain ⟨c, hc, hR⟩ := rel_next w ic hrel hre hst hq
          have hsil : Silent w ic s₁ _ := Steps.silent (by omega)
            (Steps.one fun fuel => yylex_eof_next T acts w ic fuel s₁ f fs q c hnext hst hq hc)
          obtain ⟨f', hlt, heq⟩ := hsil f₁ h1
          rw [heq] at h1 ⊢
          exact ih f' hlt f₂ _ s₂ (hR _) h1 (hweak f' hlt)
    · cases hd : directive? (firstLine s₁.buf.rest) with
      | some x =>
        -- a directive line: run 1 alone
        obtain ⟨s₁', k, hk, -, hsteps, hR, -⟩ := rel_directive w ic hrel hd
        obtain ⟨f', hlt, heq⟩ := hsteps.silent hk f₁ h1
        rw [heq] at h1 ⊢
        exact ih f' hlt f₂ s₁' s₂ hR h1 (hweak f' hlt)
      | none =>
        -- the same lexeme in both runs
        obtain ⟨r, n, hn₁, hn₂, hsimple, htk, -, hpost⟩ := rel_unit w ic hrel hre hd
        cases f₁ with
        | zero => exact (h1 (yylex_zero w ic s₁)).elim
        | succ n₁ =>
          cases f₂ with
          | zero =>
            rcases h2 with h | h
            · omega
            · exact (h (yylex_zero w ic s₂)).elim
          | succ n₂ =>
            have h2' : n₁ ≤ n₂ ∨ (yylex T acts w ic (n₂ + 1) s₂).2 ≠ .outOfFuel := by
              rcases h2 with h | h
              · exact .inl (by omega)
              · exact .inr h
            rw [yylex_simple T acts w ic n₁ s₁ r n hn₁ hsimple] at h1 ⊢
            rw [yylex_simple T acts w ic n₂ s₂ r n hn₂ hsimple] at h2' ⊢
            rw [htk, hsc] at h2' ⊢
            generalize ho : simpleOut (acts.getD r .unknown) s₁.sc (s₁.buf.rest.take n) = out
              at h1 h2' ⊢
            obtain ⟨sc', o⟩ := out
            have hR := hpost sc' o ho
            cases o with
            | none => exact ih n₁ (Nat.lt_succ_self _) n₂ _ _ hR h1 h2'
            | some tv =>
              obtain ⟨t, v⟩ := tv
              exact ⟨hR, .inr ⟨t, v, rfl, rfl⟩⟩

theorem yylex_sim (f₁ f₂ : Nat) (s₁ s₂ : ScanState) (hrel : Rel w ic s₁ s₂)
    (h1 : (yylex T acts w ic f₁ s₁).2 ≠ .outOfFuel) (h2 : (yylex T acts w ic f₂ s₂).2 ≠ .outOfFuel) :
    Rel w ic (yylex T acts w ic f₁ s₁).1 (yylex T acts w ic f₂ s₂).1 ∧
    (((yylex T acts w ic f₁ s₁).2 = .eof ∧ (yylex T acts w ic f₂ s₂).2 = .eof) ∨
     ∃ t v, (yylex T acts w ic f₁ s₁).2 = .tok t v ∧ (yylex T acts w ic f₂ s₂).2 = .tok t v) :=
  yylex_sim' w ic f₁ f₂ s₁ s₂ hrel h1 (.inr h2)

/-! ### termination -/

theorem mu_pos (s : ScanState) {D : Nat} (h : D + s.stack.length = 10) : 0 < mu w ic s := by
  rw [mu_eq w ic h]
  obtain ⟨l, tail, hdec, hl, htail⟩ := line_split s.buf.rest
  rw [hdec, weight_line w ic D hl htail]
  omega

/-- **Termination of one call, with a bound.**  From a state of the run with includes that is
related to a state of the spliced run, a call of `yylex` with at least `mu` iterations at its
disposal does not run out of fuel; if it returns a token, the bound for the state it ends in
is smaller. -/
theorem yylex_total : ∀ (m : Nat) (s₁ s₂ : ScanState) (fuel : Nat), Rel w ic s₁ s₂ →
    mu w ic s₁ ≤ m → m ≤ fuel →
    (yylex T acts w ic fuel s₁).2 ≠ .outOfFuel ∧
    (∀ t v, (yylex T acts w ic fuel s₁).2 = .tok t v →
      mu w ic (yylex T acts w ic fuel s₁).1 < mu w ic s₁) := by
  intro m
  induction m using Nat.strongRecOn with
  | _ m ih =>
    intro s₁ s₂ fuel hrel hm hfuel
    have hrel' := hrel
    obtain ⟨D, inv, hsc, hstr, hstk, hrest, hbol⟩ := hrel'
    have hpos := mu_pos w ic s₁ inv.depth
    have hsc5 : s₁.sc < 5 := by rcases inv.sc01 with h | h <;> rw [h] <;> decide
    -- silent progress to a state with a smaller bound
    have step : ∀ (s' : ScanState) (n' : Nat),
        yylex T acts w ic fuel s₁ = yylex T acts w ic n' s' → ∀ s₂', Rel w ic s' s₂' →
        mu w ic s' < mu w ic s₁ → mu w ic s' ≤ n' →
        (yylex T acts w ic fuel s₁).2 ≠ .outOfFuel ∧
        (∀ t v, (yylex T acts w ic fuel s₁).2 = .tok t v →
          mu w ic (yylex T acts w ic fuel s₁).1 < mu w ic s₁) := by
      intro s' n' heq s₂' hR hlt hn'
      rw [heq]
      obtain ⟨h1, h2⟩ := ih (mu w ic s') (by omega) s' s₂' n' hR (Nat.le_refl _) hn'
      exact ⟨h1, fun t v h => Nat.lt_trans (h2 t v h) hlt⟩
    by_cases hre : s₁.buf.rest = []
    · have hnext : Flex.next T s₁.sc s₁.buf.bol s₁.buf.rest = none := by
        rw [hre]; exact next_nil _ hsc5 _
      obtain ⟨n, rfl⟩ : ∃ n, fuel = n + 1 := ⟨fuel - 1, by omega⟩
      cases hst : s₁.stack with
      | nil =>
        rw [yylex_eof_top T acts w ic n s₁ hnext hst]
        exact ⟨by simp, fun t v h => by simp at h⟩
      | cons f fs =>
        cases hq : f.files[f.cur + 1]? with
        | none =>
          have hmu := mu_pop w ic inv.depth hre hst hq (s₁.events ++ closeEv f ++ [.delBuf])
          exact step _ n (yylex_eof_pop T acts w ic n s₁ f fs hnext hst hq) s₂
            (rel_pop w ic hrel hre hst hq _) (by omega) (by omega)
        | some q =>
          obtain ⟨c, hc, hR⟩ := rel_next w ic hrel hre hst hq
          have hmu := mu_next w ic inv.depth hre hst hq hc
            (s₁.events ++ closeEv f ++ [.fopen q true] ++ [.delBuf, .newBuf])
          exact step _ n (yylex_eof_next T acts w ic n s₁ f fs q c hnext hst hq hc) s₂
            (hR _) (by omega) (by omega)
    · cases hd : directive? (firstLine s₁.buf.rest) with
      | some x =>
        obtain ⟨s₁', k, hk, hk3, hsteps, hR, hmu⟩ := rel_directive w ic hrel hd
        obtain ⟨n, rfl⟩ : ∃ n, fuel = n + k := ⟨fuel - k, by omega⟩
        exact step s₁' n (hsteps n) s₂ hR (by omega) (by omega)
      | none =>
        obtain ⟨r, n, hn₁, hn₂, hsimple, htk, hmu, hpost⟩ := rel_unit w ic hrel hre hd
        obtain ⟨n₁, rfl⟩ : ∃ n, fuel = n + 1 := ⟨fuel - 1, by omega⟩
        have heq := yylex_simple T acts w ic n₁ s₁ r n hn₁ hsimple
        generalize ho : simpleOut (acts.getD r .unknown) s₁.sc (s₁.buf.rest.take n) = out at heq
        obtain ⟨sc', o⟩ := out
        have hR := hpost sc' o ho
        have hmu' := hmu sc'
        cases o with
        | none => exact step _ n₁ heq _ hR hmu' (by omega)
        | some tv =>
          obtain ⟨t, v⟩ := tv
          rw [heq]
          exact ⟨by simp, fun _ _ _ => hmu'⟩

end
end Libconfig.C10S
