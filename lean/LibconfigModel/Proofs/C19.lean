import LibconfigModel.WriterSpec
/-
  Helper lemmas for `Properties/C19.lean`.
-/
namespace Libconfig.C19

open Libconfig

/-! ### bytes of the item sequence -/

theorem scalar_bytes (bufLen : Nat) (c : Config) (n : Node) :
    writeScalar bufLen c n = (scalarTok bufLen c n).bytes := by
  unfold writeScalar scalarTok
  simp only []
  split
  · simp [WTok.bytes]
  split
  · simp only [WTok.bytes]; split <;> simp_all
  split
  · simp only [WTok.bytes]; split <;> simp_all
  split
  · simp [WTok.bytes]
  split
  · simp [WTok.bytes]
  · simp [WTok.bytes]

theorem prefix_bytes (c : Config) (d : Nat) (name : Option Bytes) (ty : Nat) :
    settingPrefix c d name ty = (prefixToks c d name ty).flatMap WTok.bytes := by
  unfold settingPrefix prefixToks
  cases name <;> by_cases h : d > 1 <;> simp [h, WTok.bytes]

theorem suffix_bytes (c : Config) (d : Nat) :
    settingSuffix c d = (suffixToks c d).flatMap WTok.bytes := by
  unfold settingSuffix suffixToks
  by_cases h : d > 0 <;> by_cases h2 : c.opt OPT_SEMICOLON <;> simp [h, h2, WTok.bytes]

mutual
theorem value_bytes (bufLen : Nat) (c : Config) (d : Nat) :
    (n : Node) → writeValue bufLen c d n = (wtoksValue bufLen c d n).flatMap WTok.bytes
  | .mk name ty fmt ival fval sval kids hook line file => by
    unfold writeValue wtoksValue
    split
    · simp [elems_bytes bufLen c (d+1) kids, WTok.bytes]
    split
    · simp [elems_bytes bufLen c (d+1) kids, WTok.bytes]
    split
    · rw [members_bytes bufLen c (d+1) kids]
      by_cases h0 : d > 0 <;> by_cases h1 : d > 1 <;> by_cases h2 : c.opt OPT_BRACE_SEPARATE <;>
        simp [h0, h1, h2, WTok.bytes]
    · simp [scalar_bytes]
theorem elems_bytes (bufLen : Nat) (c : Config) (d : Nat) :
    (ks : List Node) → writeElems bufLen c d ks = (wtoksElems bufLen c d ks).flatMap WTok.bytes
  | [] => by simp [writeElems, wtoksElems]
  | k :: ks => by
    unfold writeElems wtoksElems
    rw [value_bytes bufLen c d k, elems_bytes bufLen c d ks]
    cases ks <;> simp [WTok.bytes]
theorem members_bytes (bufLen : Nat) (c : Config) (d : Nat) :
    (ks : List Node) → writeMembers bufLen c d ks = (wtoksMembers bufLen c d ks).flatMap WTok.bytes
  | [] => by simp [writeMembers, wtoksMembers]
  | k :: ks => by
    unfold writeMembers wtoksMembers
    rw [value_bytes bufLen c d k, members_bytes bufLen c d ks, prefix_bytes, suffix_bytes]
    simp
end

/-! ### invariance of the normalised item sequence -/

theorem norm_append (a b : List WTok) : norm (a ++ b) = norm a ++ norm b := by
  simp [norm, List.filterMap_append]

@[simp] theorem norm_nil : norm [] = [] := rfl
@[simp] theorem norm_ws (b : Bytes) (l : List WTok) : norm (.ws b :: l) = norm l := rfl
@[simp] theorem norm_semi (l : List WTok) : norm (.semi :: l) = norm l := rfl
@[simp] theorem norm_assign (a : Nat) (l : List WTok) :
    norm (.assign a :: l) = .assign 0 :: norm l := rfl
@[simp] theorem norm_name (a : Bytes) (l : List WTok) :
    norm (.name a :: l) = .name a :: norm l := rfl
@[simp] theorem norm_punct (a : Nat) (l : List WTok) :
    norm (.punct a :: l) = .punct a :: norm l := rfl
@[simp] theorem norm_comma (l : List WTok) : norm (.comma :: l) = .comma :: norm l := rfl
@[simp] theorem norm_int (bits : Nat) (v : Int) (h : Bool) (l : List WTok) :
    norm (.int bits v h :: l) = .int bits v false :: norm l := rfl
@[simp] theorem norm_float (b : Nat) (t : Bytes) (l : List WTok) :
    norm (.float b t :: l) = .float b [] :: norm l := rfl

theorem norm_scalar (bufLen : Nat) (c₁ c₂ : Config) (n : Node) :
    norm [scalarTok bufLen c₁ n] = norm [scalarTok bufLen c₂ n] := by
  unfold scalarTok
  simp only []
  split
  · rfl
  split
  · simp
  split
  · simp
  split
  · simp
  split
  · rfl
  · rfl

theorem norm_prefix (c₁ c₂ : Config) (d : Nat) (name : Option Bytes) (ty : Nat) :
    norm (prefixToks c₁ d name ty) = norm (prefixToks c₂ d name ty) := by
  unfold prefixToks
  cases name <;> by_cases h : d > 1 <;> simp [h]

theorem norm_suffix (c : Config) (d : Nat) : norm (suffixToks c d) = [] := by
  unfold suffixToks
  by_cases h : d > 0 <;> by_cases h2 : c.opt OPT_SEMICOLON <;> simp [h, h2]

mutual
theorem norm_value (bufLen : Nat) (c₁ c₂ : Config) (d : Nat) :
    (n : Node) → norm (wtoksValue bufLen c₁ d n) = norm (wtoksValue bufLen c₂ d n)
  | .mk name ty fmt ival fval sval kids hook line file => by
    unfold wtoksValue
    split
    · simp only [norm_append, norm_elems bufLen c₁ c₂ (d+1) kids]
    split
    · simp only [norm_append, norm_elems bufLen c₁ c₂ (d+1) kids]
    split
    · simp only [norm_append, norm_members bufLen c₁ c₂ (d+1) kids]
      rcases d with _ | _ | d <;>
        by_cases h2 : c₁.opt OPT_BRACE_SEPARATE <;> by_cases h3 : c₂.opt OPT_BRACE_SEPARATE <;>
        simp [h2, h3]
    · exact norm_scalar ..
theorem norm_elems (bufLen : Nat) (c₁ c₂ : Config) (d : Nat) :
    (ks : List Node) → norm (wtoksElems bufLen c₁ d ks) = norm (wtoksElems bufLen c₂ d ks)
  | [] => by simp [wtoksElems]
  | k :: ks => by
    unfold wtoksElems
    simp only [norm_append, norm_value bufLen c₁ c₂ d k, norm_elems bufLen c₁ c₂ d ks]
theorem norm_members (bufLen : Nat) (c₁ c₂ : Config) (d : Nat) :
    (ks : List Node) → norm (wtoksMembers bufLen c₁ d ks) = norm (wtoksMembers bufLen c₂ d ks)
  | [] => by simp [wtoksMembers]
  | k :: ks => by
    unfold wtoksMembers
    simp only [norm_append, norm_value bufLen c₁ c₂ d k, norm_members bufLen c₁ c₂ d ks,
      norm_prefix c₁ c₂, norm_suffix]
end

theorem norm_config (bufLen : Nat) (c₁ c₂ : Config) (h : c₁.root = c₂.root) :
    norm (wtoksConfig bufLen c₁) = norm (wtoksConfig bufLen c₂) := by
  unfold wtoksConfig
  simp only [norm_append, h, norm_value bufLen c₁ c₂, norm_prefix c₁ c₂, norm_suffix]

/-! ### the semicolon option -/

/-- drop the `;` items -/
def nosemi (l : List WTok) : List WTok := l.filter (· != WTok.semi)

theorem nosemi_append (a b : List WTok) : nosemi (a ++ b) = nosemi a ++ nosemi b := by
  simp [nosemi]

/-- `c'` presents like `c` except possibly for the `OPT_SEMICOLON` bit. -/
structure SameButSemi (c c' : Config) : Prop where
  tw : c'.tabWidth = c.tabWidth
  fp : c'.floatPrecision = c.floatPrecision
  df : c'.defaultFormat = c.defaultFormat
  cg : c'.opt OPT_COLON_GROUPS = c.opt OPT_COLON_GROUPS
  cn : c'.opt OPT_COLON_NONGROUPS = c.opt OPT_COLON_NONGROUPS
  bs : c'.opt OPT_BRACE_SEPARATE = c.opt OPT_BRACE_SEPARATE
  sc : c'.opt OPT_SCIENTIFIC = c.opt OPT_SCIENTIFIC

theorem optGet_or (o a x : Nat) (h : a &&& x = 0) : optGet (o ||| a) x = optGet o x := by
  unfold optGet
  rw [Nat.and_or_distrib_right, h, Nat.or_zero]

theorem optGet_and (o m x : Nat) (h : m &&& x = x) : optGet (o &&& m) x = optGet o x := by
  unfold optGet
  rw [Nat.and_assoc, h]

theorem sameButSemi_setOption (c : Config) (on : Bool) :
    SameButSemi c (c.setOption OPT_SEMICOLON on) := by
  cases on
  · refine ⟨rfl, rfl, rfl, ?_, ?_, ?_, ?_⟩ <;>
      exact optGet_and _ _ _ (by decide)
  · refine ⟨rfl, rfl, rfl, ?_, ?_, ?_, ?_⟩ <;>
      exact optGet_or _ _ _ (by decide)

theorem scalarTok_same {c c' : Config} (h : SameButSemi c c') (bufLen : Nat) (n : Node) :
    scalarTok bufLen c' n = scalarTok bufLen c n := by
  unfold scalarTok effFormat
  rw [h.fp, h.df, h.sc]

theorem prefixToks_same {c c' : Config} (h : SameButSemi c c') (d : Nat) (name : Option Bytes)
    (ty : Nat) : prefixToks c' d name ty = prefixToks c d name ty := by
  unfold prefixToks
  rw [h.tw, h.cg, h.cn]

theorem nosemi_suffix (c : Config) (d : Nat) :
    nosemi (suffixToks c d) = if d > 0 then [WTok.ws [10]] else [] := by
  unfold suffixToks
  by_cases h : d > 0 <;> by_cases h2 : c.opt OPT_SEMICOLON <;> simp [h, h2, nosemi]

mutual
theorem nosemi_value {c c' : Config} (h : SameButSemi c c') (bufLen : Nat) (d : Nat) :
    (n : Node) → nosemi (wtoksValue bufLen c' d n) = nosemi (wtoksValue bufLen c d n)
  | .mk name ty fmt ival fval sval kids hook line file => by
    unfold wtoksValue
    rw [h.tw, h.bs, scalarTok_same h]
    split
    · simp only [nosemi_append, nosemi_elems h bufLen (d+1) kids]
    split
    · simp only [nosemi_append, nosemi_elems h bufLen (d+1) kids]
    split
    · simp only [nosemi_append, nosemi_members h bufLen (d+1) kids]
    · rfl
theorem nosemi_elems {c c' : Config} (h : SameButSemi c c') (bufLen : Nat) (d : Nat) :
    (ks : List Node) → nosemi (wtoksElems bufLen c' d ks) = nosemi (wtoksElems bufLen c d ks)
  | [] => by simp [wtoksElems]
  | k :: ks => by
    unfold wtoksElems
    simp only [nosemi_append, nosemi_value h bufLen d k, nosemi_elems h bufLen d ks]
theorem nosemi_members {c c' : Config} (h : SameButSemi c c') (bufLen : Nat) (d : Nat) :
    (ks : List Node) → nosemi (wtoksMembers bufLen c' d ks) = nosemi (wtoksMembers bufLen c d ks)
  | [] => by simp [wtoksMembers]
  | k :: ks => by
    unfold wtoksMembers
    simp only [nosemi_append, nosemi_value h bufLen d k, nosemi_members h bufLen d ks,
      prefixToks_same h, nosemi_suffix]
end

theorem nosemi_config {c c' : Config} (h : SameButSemi c c') (hr : c'.root = c.root)
    (bufLen : Nat) : nosemi (wtoksConfig bufLen c') = nosemi (wtoksConfig bufLen c) := by
  unfold wtoksConfig
  simp only [nosemi_append, hr, nosemi_value h bufLen, prefixToks_same h, nosemi_suffix]

/-! ### indentation -/

theorem indent_succ (w d : Nat) (hd : d ≥ 1) :
    indent (d + 1) w = if w = 0 then List.replicate d 9 else List.replicate (d * w) 32 := by
  unfold indent
  by_cases hw : w = 0
  · simp [hw]
  · have : d * w ≥ 1 := Nat.mul_pos (by omega) (by omega)
    simp [hw, Nat.max_eq_left this]

end Libconfig.C19
