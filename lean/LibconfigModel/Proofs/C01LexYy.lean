import LibconfigModel.Proofs.C01LexTok
import LibconfigModel.RoundTrip
import LibconfigModel.Properties.C01
/-
  C01L, part 4 (M2) — one call of `yylex` on a buffer that starts with an item of the
  writer's output.
-/
namespace Libconfig.C01L
open Flex

abbrev acts : List ScanAct := Generated.scanActions

/-- the scan state after the matcher consumed `len` bytes as a lexeme of rule `rule` -/
def adv (s : ScanState) (rule len : Nat) : ScanState :=
  { s with buf := {
      rest := s.buf.rest.drop len,
      bol := (match (s.buf.rest.take len).getLast? with
        | some c => c == 10
        | none => s.buf.bol),
      lineno := if T.canMatchEol.getN rule != 0 then s.buf.lineno + countNl (s.buf.rest.take len)
                else s.buf.lineno } }

section
variable (w : World) (ic : IncludeCfg)

theorem yylex_ignore (f : Nat) (s : ScanState) (rule len : Nat)
    (h : next T s.sc s.buf.bol s.buf.rest = some (rule, len))
    (ha : acts.getD rule .unknown = .ignore) :
    yylex T acts w ic (f + 1) s = yylex T acts w ic f (adv s rule len) := by
  rw [yylex]
  simp only [h, ha]
  rfl

theorem yylex_begin (f : Nat) (s : ScanState) (rule len sc : Nat)
    (h : next T s.sc s.buf.bol s.buf.rest = some (rule, len))
    (ha : acts.getD rule .unknown = .begin sc) :
    yylex T acts w ic (f + 1) s = yylex T acts w ic f { adv s rule len with sc := sc } := by
  rw [yylex]
  simp only [h, ha]
  rfl

theorem yylex_appendText (f : Nat) (s : ScanState) (rule len : Nat)
    (h : next T s.sc s.buf.bol s.buf.rest = some (rule, len))
    (ha : acts.getD rule .unknown = .appendText) :
    yylex T acts w ic (f + 1) s =
      yylex T acts w ic f { adv s rule len with str := s.str ++ cstr (s.buf.rest.take len) } := by
  rw [yylex]
  simp only [h, ha]
  rfl

theorem yylex_appendChar (f : Nat) (s : ScanState) (rule len c : Nat)
    (h : next T s.sc s.buf.bol s.buf.rest = some (rule, len))
    (ha : acts.getD rule .unknown = .appendChar c) :
    yylex T acts w ic (f + 1) s = yylex T acts w ic f { adv s rule len with str := s.str ++ [c] } := by
  rw [yylex]
  simp only [h, ha]
  rfl

theorem yylex_appendHexChar (f : Nat) (s : ScanState) (rule len : Nat)
    (h : next T s.sc s.buf.bol s.buf.rest = some (rule, len))
    (ha : acts.getD rule .unknown = .appendHexChar) :
    yylex T acts w ic (f + 1) s =
      yylex T acts w ic f
        { adv s rule len with str := s.str ++ [digitsVal 16 ((s.buf.rest.take len).drop 2) % 256] } := by
  rw [yylex]
  simp only [h, ha]
  rfl

theorem yylex_endString (f : Nat) (s : ScanState) (rule len t : Nat)
    (h : next T s.sc s.buf.bol s.buf.rest = some (rule, len))
    (ha : acts.getD rule .unknown = .endString t) :
    yylex T acts w ic (f + 1) s =
      ({ adv s rule len with str := [], sc := Generated.SC_INITIAL }, .tok t { sval := cstr s.str }) := by
  rw [yylex]
  simp only [h, ha]
  rfl

theorem yylex_tok (f : Nat) (s : ScanState) (rule len t : Nat)
    (h : next T s.sc s.buf.bol s.buf.rest = some (rule, len))
    (ha : acts.getD rule .unknown = .tok t) :
    yylex T acts w ic (f + 1) s = (adv s rule len, .tok t {}) := by
  rw [yylex]
  simp only [h, ha]
  rfl

theorem yylex_tokBool (f : Nat) (s : ScanState) (rule len t : Nat) (v : Int)
    (h : next T s.sc s.buf.bol s.buf.rest = some (rule, len))
    (ha : acts.getD rule .unknown = .tokBool t v) :
    yylex T acts w ic (f + 1) s = (adv s rule len, .tok t { ival := v }) := by
  rw [yylex]
  simp only [h, ha]
  rfl

theorem yylex_tokName (f : Nat) (s : ScanState) (rule len t : Nat)
    (h : next T s.sc s.buf.bol s.buf.rest = some (rule, len))
    (ha : acts.getD rule .unknown = .tokName t) :
    yylex T acts w ic (f + 1) s = (adv s rule len, .tok t { sval := s.buf.rest.take len }) := by
  rw [yylex]
  simp only [h, ha]
  rfl

/-- the five numeric rules -/
def isNumericAct : ScanAct → Bool
  | .tokFloat .. | .tokInteger .. | .tokInteger64 .. | .tokHex .. | .tokHex64 .. => true
  | _ => false

theorem yylex_numeric (f : Nat) (s : ScanState) (rule len : Nat)
    (h : next T s.sc s.buf.bol s.buf.rest = some (rule, len))
    (ha : isNumericAct (acts.getD rule .unknown) = true) :
    yylex T acts w ic (f + 1) s =
      (adv s rule len, .tok (numericTok (acts.getD rule .unknown) (s.buf.rest.take len)).1
        (numericTok (acts.getD rule .unknown) (s.buf.rest.take len)).2) := by
  rw [yylex]
  simp only [h]
  cases hact : acts.getD rule .unknown <;> rw [hact] at ha <;> first | (simp [isNumericAct] at ha; done) | rfl

/-! ### between two tokens -/

/-- the fields of the scan state that lexing a buffer without includes never touches:
`topFile`, `filenames`, `events` -/
abbrev Ctx := Option Bytes × List Bytes × List IOEvent

/-- the scanner is between two tokens of the top-level buffer, `rest` is what remains; `K` are
the untouched fields -/
structure Ready (K : Ctx) (s : ScanState) (rest : Bytes) : Prop where
  sc : s.sc = 0
  str : s.str = []
  stack : s.stack = []
  rest : s.buf.rest = rest
  ctx : (s.topFile, s.filenames, s.events) = K

variable {K : Ctx}

theorem Ready.adv {s : ScanState} {pre rest : Bytes} (h : Ready K s (pre ++ rest)) (rule : Nat) :
    Ready K (adv s rule pre.length) rest :=
  ⟨h.sc, h.str, h.stack, by simp only [C01L.adv, h.rest, List.drop_left], h.ctx⟩

theorem Ready.take {s : ScanState} {pre rest : Bytes} (h : Ready K s (pre ++ rest)) :
    s.buf.rest.take pre.length = pre := by
  rw [h.rest, List.take_left]

theorem Ready.next {s : ScanState} {pre rest : Bytes} (h : Ready K s (pre ++ rest))
    {r : Nat} {follow : Nat → Bool} (hl : Lexeme pre r follow) (hr : r ≠ 0)
    (hf : FollowOK follow rest) :
    next T s.sc s.buf.bol s.buf.rest = some (r, pre.length) := by
  rw [h.sc, h.rest]; exact hl.next hr _ rest hf

/-! ### white space is skipped -/

theorem yylex_ws (b rest : Bytes) (r : Nat) (follow : Nat → Bool) (hl : Lexeme b r follow)
    (hr : r = 28 ∨ r = 29) (hf : FollowOK follow rest) (s : ScanState) (hs : Ready K s (b ++ rest)) :
    ∃ s', Ready K s' rest ∧ ∀ f, yylex T acts w ic (f + 1) s = yylex T acts w ic f s' := by
  refine ⟨adv s r b.length, hs.adv r, fun f => ?_⟩
  have hn := hs.next hl (by omega) hf
  exact yylex_ignore w ic f s r b.length hn (by rcases hr with rfl | rfl <;> rfl)

/-! ### tokens without a value -/

theorem yylex_plain (b rest : Bytes) (r t : Nat) (follow : Nat → Bool) (hl : Lexeme b r follow)
    (hr : r ≠ 0) (ha : acts.getD r .unknown = .tok t) (hf : FollowOK follow rest) (s : ScanState)
    (hs : Ready K s (b ++ rest)) :
    ∃ s', Ready K s' rest ∧ ∀ f, yylex T acts w ic (f + 1) s = (s', .tok t {}) :=
  ⟨adv s r b.length, hs.adv r, fun f => yylex_tok w ic f s r b.length t (hs.next hl hr hf) ha⟩

/-! ### names and booleans -/

theorem yylex_name (nm rest : Bytes) (hv : validName nm = true) (hb : isBoolWord nm = false)
    (hf : FollowOK delim rest) (s : ScanState) (hs : Ready K s (nm ++ rest)) :
    ∃ s', Ready K s' rest ∧
      ∀ f, yylex T acts w ic (f + 1) s = (s', .tok Generated.tokens.name { sval := nm }) := by
  refine ⟨adv s 36 nm.length, hs.adv 36, fun f => ?_⟩
  have hn := hs.next ((lex_name nm hv hb).weaken delim_nameFollow) (by decide) hf
  rw [yylex_tokName w ic f s 36 nm.length Generated.tokens.name hn rfl, hs.take]

theorem yylex_bool (v : Bool) (rest : Bytes) (hf : FollowOK delim rest) (s : ScanState)
    (hs : Ready K s ((WTok.bool v).bytes ++ rest)) :
    ∃ s', Ready K s' rest ∧
      ∀ f, yylex T acts w ic (f + 1) s =
        (s', .tok Generated.tokens.boolean { ival := if v then 1 else 0 }) := by
  cases v
  · have e : (WTok.bool false).bytes = [102, 97, 108, 115, 101] := by
      simp only [WTok.bytes, Bool.false_eq_true, if_false]; exact C01P.bytes_false
    rw [e] at hs
    refine ⟨adv s 35 5, hs.adv 35, fun f => ?_⟩
    have hn := hs.next (lex_false.weaken delim_nameFollow) (by decide) hf
    exact yylex_tokBool w ic f s 35 5 Generated.tokens.boolean 0 hn rfl
  · have e : (WTok.bool true).bytes = [116, 114, 117, 101] := by
      simp only [WTok.bytes, if_true]; exact C01P.bytes_true
    rw [e] at hs
    refine ⟨adv s 34 4, hs.adv 34, fun f => ?_⟩
    have hn := hs.next (lex_true.weaken delim_nameFollow) (by decide) hf
    exact yylex_tokBool w ic f s 34 4 Generated.tokens.boolean 1 hn rfl

/-! ### numbers -/

theorem yylex_num (b rest : Bytes) (r : Nat) (hl : Lexeme b r delim) (hr : r ≠ 0)
    (ha : isNumericAct (acts.getD r .unknown) = true) (hf : FollowOK delim rest) (s : ScanState)
    (hs : Ready K s (b ++ rest)) :
    ∃ s', Ready K s' rest ∧
      ∀ f, yylex T acts w ic (f + 1) s =
        (s', .tok (numericTok (acts.getD r .unknown) b).1 (numericTok (acts.getD r .unknown) b).2) := by
  refine ⟨adv s r b.length, hs.adv r, fun f => ?_⟩
  rw [yylex_numeric w ic f s r b.length (hs.next hl hr hf) ha, hs.take]

theorem intToDec_shape (v : Int) :
    ∃ neg ds, intToDec v = signBytes neg ++ ds ∧ ds ≠ [] ∧ AllDigits ds := by
  unfold intToDec
  split
  · exact ⟨true, natToDec v.natAbs, rfl, C01P.natToDec_ne_nil _, C01P.natToDec_digits _⟩
  · exact ⟨false, natToDec v.natAbs, rfl, C01P.natToDec_ne_nil _, C01P.natToDec_digits _⟩

theorem yylex_int (bits : Nat) (v : Int) (hex : Bool) (rest : Bytes)
    (hg : (bits = 32 ∧ fits32 v = true) ∨ (bits = 64 ∧ fits64 v = true))
    (hf : FollowOK delim rest) (s : ScanState) (hs : Ready K s ((WTok.int bits v hex).bytes ++ rest)) :
    ∃ s' tn tv, (WTok.int bits v hex).token Generated.tokens = some (tn, tv) ∧ Ready K s' rest ∧
      ∀ f, yylex T acts w ic (f + 1) s = (s', .tok tn tv) := by
  obtain ⟨neg, ds, hds, hne, hdig⟩ := intToDec_shape v
  rcases hg with ⟨rfl, hfit⟩ | ⟨rfl, hfit⟩ <;> cases hex
  · -- 32-bit decimal
    have e : (WTok.int 32 v false).bytes = signBytes neg ++ ds := by simp [WTok.bytes, hds]
    rw [e] at hs
    obtain ⟨s', hr, hy⟩ := yylex_num w ic _ rest 38 (lex_dec neg ds hne hdig) (by decide) rfl hf s hs
    refine ⟨s', _, _, rfl, hr, fun f => ?_⟩
    rw [hy f, ← hds]
    have := C01.C01_int_dec 259 261 277 v hfit
    rw [show acts.getD 38 .unknown = .tokInteger 259 261 277 from rfl, this]
    rfl
  · -- 32-bit hexadecimal
    have e : (WTok.int 32 v true).bytes = [48, 120] ++ hexOfInt 32 v := by simp [WTok.bytes]
    rw [e] at hs
    obtain ⟨s', hr, hy⟩ := yylex_num w ic _ rest 40
      (lex_hex (hexOfInt 32 v) (C01P.natToHex_ne_nil _) (C01P.natToHex_digits _)) (by decide) rfl hf s hs
    refine ⟨s', _, _, rfl, hr, fun f => ?_⟩
    rw [hy f]
    have := C01.C01_int_hex 260 277 v hfit
    rw [show acts.getD 40 .unknown = .tokHex 260 277 from rfl, this]
    rfl
  · -- 64-bit decimal
    have e : (WTok.int 64 v false).bytes = signBytes neg ++ ds ++ [76] := by simp [WTok.bytes, hds]
    rw [e] at hs
    obtain ⟨s', hr, hy⟩ := yylex_num w ic _ rest 39 (lex_dec64 neg ds hne hdig) (by decide) rfl hf s hs
    refine ⟨s', _, _, rfl, hr, fun f => ?_⟩
    rw [hy f, ← hds]
    have := C01.C01_int64_dec 261 277 v hfit
    rw [show acts.getD 39 .unknown = .tokInteger64 261 277 from rfl, this]
    rfl
  · -- 64-bit hexadecimal
    have e : (WTok.int 64 v true).bytes = [48, 120] ++ hexOfInt 64 v ++ [76] := by simp [WTok.bytes]
    rw [e] at hs
    obtain ⟨s', hr, hy⟩ := yylex_num w ic _ rest 41
      (lex_hex64 (hexOfInt 64 v) (C01P.natToHex_ne_nil _) (C01P.natToHex_digits _)) (by decide) rfl hf s hs
    refine ⟨s', _, _, rfl, hr, fun f => ?_⟩
    rw [hy f]
    have := C01.C01_int64_hex 262 277 v hfit
    rw [show acts.getD 41 .unknown = .tokHex64 262 277 from rfl, this]
    rfl

/-- the shape of a float literal the writer can produce -/
def FloatLit (text : Bytes) : Prop :=
  ∃ neg ip fp ex, text = signBytes neg ++ ip ++ fp ++ ex ∧ ip ≠ [] ∧ AllDigits ip ∧ FracP fp ∧ ExpP ex ∧
    (fp ≠ [] ∨ ex ≠ [])

theorem yylex_float (text rest : Bytes) (hlit : FloatLit text)
    (hfin : F64.isInf (F64.strtod text) = false)
    (hf : FollowOK delim rest) (s : ScanState) (hs : Ready K s (text ++ rest)) :
    ∃ s', Ready K s' rest ∧
      ∀ f, yylex T acts w ic (f + 1) s =
        (s', .tok Generated.tokens.float { fval := F64.strtod text }) := by
  obtain ⟨neg, ip, fp, ex, rfl, hne, hip, hfp, hex, hsome⟩ := hlit
  obtain ⟨s', hr, hy⟩ := yylex_num w ic _ rest 37 (lex_float neg ip fp ex hne hip hfp hex hsome)
    (by decide) rfl hf s hs
  refine ⟨s', hr, fun f => ?_⟩
  rw [hy f, show acts.getD 37 .unknown = .tokFloat 263 277 from rfl,
    C01.C01_float_readback 263 277 _ hfin]
  rfl

end
end Libconfig.C01L
