import LibconfigModel.Proofs.C01LexTree
import LibconfigModel.Proofs.F64Round
/-
  C01L — the float side conditions of `LexOK` hold for every finite double when scientific
  notation is off (the default) and the precision is at most 26: the `%.{p}f` rendering has at
  most 311 + p ≤ 337 characters (it is not cut by the `snprintf` limit of FLOAT_BUF_SIZE = 341),
  and the written text does not read back as an infinity.
-/
namespace Libconfig.C01L
open F64 C01P

/-! ### the magnitude of `%.{p}f` -/

theorem expField_lt (b : Nat) : expField b < 2048 := Nat.mod_lt _ (by decide)

theorem expo_le (b : Nat) (h : isFinite b = true) : expo b ≤ 971 := by
  have h1 := expField_lt b
  have h2 : expField b ≠ 2047 := by simpa [isFinite] using h
  unfold expo
  split <;> omega

theorem dre_le (n d : Nat) : divRoundEven n d ≤ n / d + 1 := by
  rcases F64R.dre_cases n d with h | h <;> omega

/-- `(2^53 - 1)·2^971` is the largest finite double; it is below the rounding threshold -/
theorem max_lt_thr : (2 ^ 53 - 1) * 2 ^ 971 * 2 ^ 1074 < F64R.thr := by decide +kernel

theorem small_lt_thr : 2 ^ 53 * 2 ^ 1074 < F64R.thr := by decide +kernel

/-- the integer `round(|x|·10^p)` printed by `%.{p}f` stays below the overflow threshold of
`strtod` (scaled by `10^p`) -/
theorem scaledRound_lt (b p : Nat) (h : isFinite b = true) :
    scaledRound b p * 2 ^ 1074 < F64R.thr * 10 ^ p := by
  have hm := F64R.mant_lt b
  have hp : 0 < 10 ^ p := Nat.pow_pos (by omega)
  unfold scaledRound
  simp only []
  split
  · rename_i he
    have hE : (expo b).toNat ≤ 971 := by have := expo_le b h; omega
    have hpow : ∀ j, (expo b).toNat ≤ j → 2 ^ (expo b).toNat ≤ 2 ^ j :=
      fun j hj => Nat.pow_le_pow_right (by decide) hj
    have key : ∀ X : Nat, 2 ^ (expo b).toNat ≤ X → mant b * 2 ^ (expo b).toNat ≤ (2 ^ 53 - 1) * X :=
      fun X hX => Nat.mul_le_mul (Nat.le_sub_one_of_lt hm) hX
    have h1 : mant b * 2 ^ (expo b).toNat ≤ (2 ^ 53 - 1) * 2 ^ 971 :=
      key (2 ^ 971) (hpow 971 hE)
    calc mant b * 2 ^ (expo b).toNat * 10 ^ p * 2 ^ 1074
        = (mant b * 2 ^ (expo b).toNat * 2 ^ 1074) * 10 ^ p := Nat.mul_right_comm _ _ _
      _ ≤ ((2 ^ 53 - 1) * 2 ^ 971 * 2 ^ 1074) * 10 ^ p :=
          Nat.mul_le_mul_right _ (Nat.mul_le_mul_right _ h1)
      _ < F64R.thr * 10 ^ p := Nat.mul_lt_mul_of_pos_right max_lt_thr hp
  · have h1 := dre_le (mant b * 10 ^ p) (2 ^ (-expo b).toNat)
    have h2 : mant b * 10 ^ p / 2 ^ (-expo b).toNat ≤ mant b * 10 ^ p := Nat.div_le_self _ _
    have h3 : mant b * 10 ^ p + 1 ≤ 2 ^ 53 * 10 ^ p := by
      have : (mant b + 1) * 10 ^ p ≤ 2 ^ 53 * 10 ^ p := Nat.mul_le_mul_right _ (by omega)
      rw [Nat.add_mul, Nat.one_mul] at this
      omega
    calc divRoundEven (mant b * 10 ^ p) (2 ^ (-expo b).toNat) * 2 ^ 1074
        ≤ (2 ^ 53 * 10 ^ p) * 2 ^ 1074 := Nat.mul_le_mul_right _ (by omega)
      _ = (2 ^ 53 * 2 ^ 1074) * 10 ^ p := Nat.mul_right_comm _ _ _
      _ < F64R.thr * 10 ^ p := Nat.mul_lt_mul_of_pos_right small_lt_thr hp

theorem thr_le : F64R.thr ≤ 10 ^ 309 * 2 ^ 1074 := by decide +kernel

theorem scaledRound_digits (b p : Nat) (h : isFinite b = true) : scaledRound b p < 10 ^ (309 + p) := by
  have h1 := scaledRound_lt b p h
  have key : ∀ X : Nat, F64R.thr ≤ X → F64R.thr * 10 ^ p ≤ X * 10 ^ p :=
    fun X hX => Nat.mul_le_mul_right _ hX
  have h2 : F64R.thr * 10 ^ p ≤ 10 ^ 309 * 2 ^ 1074 * 10 ^ p := key (10 ^ 309 * 2 ^ 1074) thr_le
  have h3 : scaledRound b p * 2 ^ 1074 < 10 ^ (309 + p) * 2 ^ 1074 := by
    calc scaledRound b p * 2 ^ 1074 < 10 ^ 309 * 2 ^ 1074 * 10 ^ p := Nat.lt_of_lt_of_le h1 h2
      _ = 10 ^ (309 + p) * 2 ^ 1074 := by rw [Nat.pow_add]; exact Nat.mul_right_comm _ _ _
  exact Nat.lt_of_mul_lt_mul_right h3

/-! ### the number of digits -/

theorem aux_length : ∀ (fuel n : Nat) (acc : Bytes) (k : Nat), n < 10 ^ k →
    (natToBaseAux 10 fuel n acc).length ≤ acc.length + k := by
  intro fuel
  induction fuel with
  | zero => intro n acc k _; simp only [natToBaseAux]; omega
  | succ fuel ih =>
    intro n acc k h
    simp only [natToBaseAux]
    split
    · omega
    · rename_i hn
      cases k with
      | zero => simp at h; omega
      | succ k =>
        have : n / 10 < 10 ^ k := by
          rw [Nat.pow_succ] at h
          exact Nat.div_lt_of_lt_mul (by rw [Nat.mul_comm]; exact h)
        have := ih (n / 10) (digitChar (n % 10) :: acc) k this
        simp only [List.length_cons] at this
        omega

theorem natToDec_length (n k : Nat) (h : n < 10 ^ k) (hk : 1 ≤ k) : (natToDec n).length ≤ k := by
  unfold natToDec natToBase
  split
  · simpa using hk
  · have := aux_length n n [] k h
    simpa using this

theorem pad0_length_le (n : Nat) (ds : Bytes) (k : Nat) (hn : n ≤ k) (hd : ds.length ≤ k) :
    (pad0 n ds).length ≤ k := by
  unfold pad0
  simp only [List.length_append, List.length_replicate]
  omega

/-- `%.{p}f` of a finite double has at most `311 + p` characters -/
theorem fmtF_length (b p : Nat) (h : isFinite b = true) : (fmtF b p).length ≤ 311 + p := by
  unfold fmtF
  simp only [h, Bool.not_true, Bool.false_eq_true, if_false]
  have hds : (pad0 (p + 1) (natToDec (scaledRound b p))).length ≤ 309 + p :=
    pad0_length_le _ _ _ (by omega) (natToDec_length _ _ (scaledRound_digits b p h) (by omega))
  generalize pad0 (p + 1) (natToDec (scaledRound b p)) = D at hds ⊢
  have hsg : (if signBit b = true then [45] else ([] : Bytes)).length ≤ 1 := by split <;> simp
  have htd : (D.take (D.length - p)).length + (D.drop (D.length - p)).length = D.length := by
    simp only [List.length_take, List.length_drop]; omega
  have h3 : (if p = 0 then [] else 46 :: D.drop (D.length - p)).length ≤
      1 + (D.drop (D.length - p)).length := by
    split
    · simp
    · simp only [List.length_cons]; omega
  simp only [List.length_append]
  omega

/-- with scientific notation off, a precision of at most 26 and the buffer of
`__config_write_value` (FLOAT_BUF_SIZE = 341) the rendering is never cut -/
theorem rawText_fits (b p : Nat) (h : isFinite b = true) (hp : p ≤ 26) :
    (rawText 341 b p false).length ≤ 341 - 4 := by
  have : rawText 341 b p false = fmtF b p := by simp [rawText]
  rw [this]
  have := fmtF_length b p h
  omega

/-! ### values of digit strings -/

theorem foldl_dv : ∀ (y : Bytes) (acc : Nat),
    y.foldl (fun a c => a * 10 + hexVal c) acc = acc * 10 ^ y.length + digitsVal 10 y := by
  intro y
  induction y with
  | nil => intro acc; simp [digitsVal]
  | cons c t ih =>
    intro acc
    simp only [List.foldl_cons, List.length_cons, digitsVal]
    rw [ih (acc * 10 + hexVal c), ih (0 * 10 + hexVal c)]
    simp only [digitsVal, Nat.zero_mul, Nat.zero_add, Nat.pow_succ, Nat.add_mul, Nat.mul_assoc,
      Nat.mul_comm 10, Nat.add_assoc]

theorem dv_append (x y : Bytes) :
    digitsVal 10 (x ++ y) = digitsVal 10 x * 10 ^ y.length + digitsVal 10 y := by
  show (x ++ y).foldl _ 0 = _
  rw [List.foldl_append]
  exact foldl_dv y _

theorem dv_zeros (z : Nat) : digitsVal 10 (List.replicate z 48) = 0 := by
  induction z with
  | zero => rfl
  | succ z ih =>
    rw [List.replicate_succ, show (48 :: List.replicate z 48) = [48] ++ List.replicate z 48 from rfl,
      dv_append, ih, show digitsVal 10 [48] = 0 from by decide, Nat.zero_mul]

theorem dv_lead_zeros (z : Nat) (x : Bytes) : digitsVal 10 (List.replicate z 48 ++ x) = digitsVal 10 x := by
  rw [dv_append, dv_zeros, Nat.zero_mul, Nat.zero_add]

theorem dv_trail_zeros (x : Bytes) (z : Nat) :
    digitsVal 10 (x ++ List.replicate z 48) = digitsVal 10 x * 10 ^ z := by
  rw [dv_append, dv_zeros, List.length_replicate, Nat.add_zero]

theorem dv_dropWhile : ∀ (x : Bytes), digitsVal 10 (x.dropWhile (· == 48)) = digitsVal 10 x := by
  intro x
  induction x with
  | nil => rfl
  | cons c t ih =>
    by_cases hc : c = 48
    · subst hc
      rw [List.dropWhile_cons_of_pos (by simp), ih,
        show (48 :: t) = List.replicate 1 48 ++ t from rfl, dv_lead_zeros]
    · rw [List.dropWhile_cons_of_neg (by simpa using hc)]

theorem dv_pad0 (k n : Nat) : digitsVal 10 (pad0 k (natToDec n)) = n := by
  unfold pad0
  rw [dv_lead_zeros, digitsVal_natToDec]

/-- `stripZeros` removes a block of trailing zeros -/
theorem stripZeros_spec (ds : Bytes) : ∃ z, ds = stripZeros ds ++ List.replicate z 48 := by
  refine ⟨(ds.reverse.takeWhile (· == 48)).length, ?_⟩
  have h1 : ds.reverse = ds.reverse.takeWhile (· == 48) ++ ds.reverse.dropWhile (· == 48) :=
    List.takeWhile_append_dropWhile.symm
  have h2 : ds.reverse.takeWhile (· == 48) = List.replicate (ds.reverse.takeWhile (· == 48)).length 48 := by
    rw [List.eq_replicate_iff]
    refine ⟨rfl, fun b hb => ?_⟩
    have hall := List.all_takeWhile (l := ds.reverse) (p := (· == 48))
    rw [List.all_eq_true] at hall
    simpa using hall b hb
  have h3 : ds = (ds.reverse.dropWhile (· == 48)).reverse ++ (ds.reverse.takeWhile (· == 48)).reverse := by
    rw [← List.reverse_append, ← h1, List.reverse_reverse]
  unfold stripZeros
  rw [h2, List.reverse_replicate] at h3
  exact h3

/-! ### `strtod` on `-?digits.digits` -/

theorem takeWhile_all (p : Nat → Bool) : ∀ (l : Bytes), (∀ b ∈ l, p b = true) →
    l.takeWhile p = l ∧ l.dropWhile p = [] := by
  intro l
  induction l with
  | nil => intro _; exact ⟨rfl, rfl⟩
  | cons b t ih =>
    intro h
    have hb := h b (List.mem_cons_self ..)
    have := ih (fun x hx => h x (List.mem_cons_of_mem _ hx))
    simp [hb, this.1, this.2]

theorem parseDecimal_form (neg : Bool) (ip fq : Bytes) (hne : ip ≠ []) (hip : AllDigits ip)
    (hfq : AllDigits fq) :
    parseDecimal (signBytes neg ++ ip ++ 46 :: fq) = (neg, ip, fq, 0) := by
  have hsp := takeWhile_split isDigit ip 46 fq hip (by decide)
  have hfa := takeWhile_all isDigit fq hfq
  cases ip with
  | nil => exact absurd rfl hne
  | cons d ds =>
    have hd := hip d (List.mem_cons_self ..)
    have hd45 : d ≠ 45 := by intro e; subst e; revert hd; decide
    have hd43 : d ≠ 43 := by intro e; subst e; revert hd; decide
    cases neg
    · simp only [signBytes, Bool.false_eq_true, if_false, List.nil_append]
      unfold parseDecimal
      simp only []
      split
      · rename_i r h; simp only [List.cons_append, List.cons.injEq] at h; exact absurd h.1 hd45
      · rename_i r h; simp only [List.cons_append, List.cons.injEq] at h; exact absurd h.1 hd43
      · simp only [hsp.1, hsp.2, hfa.1, hfa.2]
    · simp only [signBytes, if_true, List.cons_append, List.nil_append]
      have hsp' := hsp
      simp only [List.cons_append] at hsp'
      unfold parseDecimal
      simp only [hsp'.1, hsp'.2, hfa.1, hfa.2]


theorem strtod_form (neg : Bool) (ip fq : Bytes) (hne : ip ≠ []) (hip : AllDigits ip)
    (hfq : AllDigits fq) (hfqne : fq ≠ []) (hlen : ip.length ≤ 400) :
    strtod (signBytes neg ++ ip ++ 46 :: fq) = mkBits neg 0 0 ∨
    (0 < digitsVal 10 (ip ++ fq) ∧
     strtod (signBytes neg ++ ip ++ 46 :: fq) = ofRat neg (digitsVal 10 (ip ++ fq)) (10 ^ fq.length)) := by
  unfold strtod
  rw [parseDecimal_form neg ip fq hne hip hfq]
  simp only []
  have h1 : (ip.isEmpty && fq.isEmpty) = false := by
    cases ip with
    | nil => exact absurd rfl hne
    | cons _ _ => rfl
  rw [h1]
  simp only [Bool.false_eq_true, if_false, dv_dropWhile]
  split
  · exact .inl rfl
  · rename_i hd
    have hdl : ((ip ++ fq).dropWhile (· == 48)).length ≤ ip.length + fq.length := by
      have := (List.dropWhile_sublist (l := ip ++ fq) (· == 48)).length_le
      simpa using this
    have hfl : 0 < fq.length := List.length_pos_iff.mpr hfqne
    split
    · omega
    · split
      · exact .inl rfl
      · split
        · omega
        · refine .inr ⟨by omega, ?_⟩
          congr 2
          omega


theorem isInf_zero (neg : Bool) : isInf (mkBits neg 0 0) = false := by cases neg <;> decide +kernel

theorem isInf_ofRat_lt (neg : Bool) (num den : Nat) (hn : 0 < num) (hd : 0 < den)
    (h : num * 2 ^ 1074 < F64R.thr * den) : isInf (ofRat neg num den) = false := by
  have := (F64R.ofRat_nearest_R neg num den hn hd).2.2.2
  cases hi : isInf (ofRat neg num den)
  · rfl
  · have := this.mp hi; omega

/-! ### the post-processing, computed -/

theorem postProc_nopoint (neg : Bool) (ip : Bytes) (hip : AllDigits ip) :
    postProc (signBytes neg ++ ip) = signBytes neg ++ ip ++ [46, 48] := by
  have h101 : (signBytes neg ++ ip).contains 101 = false := by
    apply Bool.eq_false_iff.mpr
    intro hc
    rw [List.contains_iff_mem] at hc
    rcases List.mem_append.mp hc with h | h
    · exact not_mem_sign neg (by decide) h
    · exact not_mem_digits hip (by decide) h
  have h46 : (signBytes neg ++ ip).contains 46 = false := by
    apply Bool.eq_false_iff.mpr
    intro hc
    rw [List.contains_iff_mem] at hc
    rcases List.mem_append.mp hc with h | h
    · exact not_mem_sign neg (by decide) h
    · exact not_mem_digits hip (by decide) h
  unfold postProc
  simp only [h101, h46, Bool.false_eq_true, if_false, Bool.not_false, if_true]

theorem postProc_point (neg : Bool) (ip : Bytes) (f0 : Nat) (fr : Bytes) (hip : AllDigits ip)
    (hf : AllDigits (f0 :: fr)) :
    postProc (signBytes neg ++ ip ++ 46 :: f0 :: fr) = signBytes neg ++ ip ++ 46 :: f0 :: stripZeros fr := by
  have h101 : (signBytes neg ++ ip ++ 46 :: f0 :: fr).contains 101 = false := by
    apply Bool.eq_false_iff.mpr
    intro hc
    rw [List.contains_iff_mem] at hc
    rcases List.mem_append.mp hc with h | h
    · rcases List.mem_append.mp h with h | h
      · exact not_mem_sign neg (by decide) h
      · exact not_mem_digits hip (by decide) h
    · rcases List.mem_cons.mp h with h | h
      · cases h
      · exact not_mem_digits hf (by decide) h
  have h46 : (signBytes neg ++ ip ++ 46 :: f0 :: fr).contains 46 = true := by
    rw [List.contains_iff_mem]; simp
  have hpre : ∀ b ∈ signBytes neg ++ ip, (b != 46) = true := by
    intro b hb
    simp only [bne_iff_ne, ne_eq]
    intro e; subst e
    rcases List.mem_append.mp hb with h | h
    · exact not_mem_sign neg (by decide) h
    · exact not_mem_digits hip (by decide) h
  have hsp := takeWhile_split (· != 46) (signBytes neg ++ ip) 46 (f0 :: fr) hpre (by simp)
  unfold postProc
  simp only [h101, h46, Bool.false_eq_true, if_false, Bool.not_true, hsp.1, hsp.2,
    List.drop_succ_cons, List.drop_zero]
  simp

/-! ### the written text and its value -/

/-- the text written for a finite double with scientific notation off: sign, integer digits,
point, fraction digits, and its digits relate to `round(|x|·10^p)` by a power of ten -/
theorem fixed_text (b p : Nat) (h : isFinite b = true) (hp : p ≤ 26) :
    ∃ ip fq z y, formatDouble 341 b p false = signBytes (signBit b) ++ ip ++ 46 :: fq ∧
      ip ≠ [] ∧ AllDigits ip ∧ AllDigits fq ∧ fq ≠ [] ∧ ip.length ≤ 400 ∧
      digitsVal 10 (ip ++ fq) * 10 ^ z = scaledRound b p * 10 ^ y ∧ fq.length + z = p + y := by
  have hraw : rawText 341 b p false = fmtF b p := by simp [rawText]
  rw [formatDouble_eq, List.take_of_length_le (rawText_fits b p h hp), hraw]
  unfold fmtF
  simp only [h, Bool.not_true, Bool.false_eq_true, if_false, sign_eq]
  have hds : AllDigits (pad0 (p + 1) (natToDec (scaledRound b p))) := allDigits_pad0 _ (allDigits_dec _)
  have hlen := pad0_length (p + 1) (natToDec (scaledRound b p))
  have hle : (pad0 (p + 1) (natToDec (scaledRound b p))).length ≤ 309 + p :=
    pad0_length_le _ _ _ (by omega) (natToDec_length _ _ (scaledRound_digits b p h) (by omega))
  have hval := dv_pad0 (p + 1) (scaledRound b p)
  generalize pad0 (p + 1) (natToDec (scaledRound b p)) = D at hds hlen hle hval ⊢
  have hDne : D ≠ [] := by intro e; rw [e] at hlen; simp at hlen
  by_cases hp0 : p = 0
  · subst hp0
    simp only [Nat.sub_zero, List.take_length, if_true, List.append_nil]
    rw [postProc_nopoint _ D hds]
    refine ⟨D, [48], 0, 1, by simp, hDne, hds, by intro c hc; simp at hc; subst hc; decide, by simp,
      by omega, ?_, rfl⟩
    rw [dv_append, hval]
    simp [digitsVal, hexVal, isDigit]
  · simp only [hp0, if_false]
    have hsplit : D.take (D.length - p) ++ D.drop (D.length - p) = D := List.take_append_drop _ _
    have hfl : (D.drop (D.length - p)).length = p := by simp only [List.length_drop]; omega
    cases hfp : D.drop (D.length - p) with
    | nil => rw [hfp] at hfl; simp at hfl; omega
    | cons f0 fr =>
      have hfd : AllDigits (f0 :: fr) := hfp ▸ allDigits_drop _ hds
      have hipd : AllDigits (D.take (D.length - p)) := allDigits_take _ hds
      rw [postProc_point _ _ f0 fr hipd hfd]
      obtain ⟨z, hz⟩ := stripZeros_spec fr
      refine ⟨D.take (D.length - p), f0 :: stripZeros fr, z, 0, rfl, ?_, hipd, ?_, by simp, ?_, ?_, ?_⟩
      · apply take_ne_nil (by omega) hDne
      · intro c hc
        rcases List.mem_cons.mp hc with rfl | hc
        · exact hfd _ (List.mem_cons_self ..)
        · exact hfd c (List.mem_cons_of_mem _ (mem_stripZeros hc))
      · simp only [List.length_take]; omega
      · have hD : D.take (D.length - p) ++ f0 :: fr = D := by rw [← hfp]; exact hsplit
        have e : (D.take (D.length - p) ++ f0 :: stripZeros fr) ++ List.replicate z 48 = D := by
          rw [List.append_assoc, List.cons_append, ← hz]; exact hD
        rw [Nat.pow_zero, Nat.mul_one, ← dv_trail_zeros, e, hval]
      · rw [hfp] at hfl
        have := congrArg List.length hz
        simp only [List.length_cons, List.length_append, List.length_replicate] at this hfl ⊢
        omega

/-- **no overflow on the way back** (scientific notation off, precision ≤ 26): the text
written for a finite double never reads back as an infinity -/
theorem fixed_no_overflow (b p : Nat) (h : isFinite b = true) (hp : p ≤ 26) :
    isInf (strtod (formatDouble 341 b p false)) = false := by
  obtain ⟨ip, fq, z, y, htext, hne, hip, hfq, hfqne, hlen, hval, hlenq⟩ := fixed_text b p h hp
  rw [htext]
  rcases strtod_form (signBit b) ip fq hne hip hfq hfqne hlen with h0 | ⟨hpos, hof⟩
  · rw [h0]; exact isInf_zero _
  · rw [hof]
    apply isInf_ofRat_lt _ _ _ hpos (Nat.pow_pos (by omega))
    have hn := scaledRound_lt b p h
    have hz : 0 < 10 ^ z := Nat.pow_pos (by omega)
    have hy : 0 < 10 ^ y := Nat.pow_pos (by omega)
    apply Nat.lt_of_mul_lt_mul_right (a := 10 ^ z)
    calc digitsVal 10 (ip ++ fq) * 2 ^ 1074 * 10 ^ z
        = digitsVal 10 (ip ++ fq) * 10 ^ z * 2 ^ 1074 := Nat.mul_right_comm _ _ _
      _ = scaledRound b p * 10 ^ y * 2 ^ 1074 := by rw [hval]
      _ = scaledRound b p * 2 ^ 1074 * 10 ^ y := Nat.mul_right_comm _ _ _
      _ < F64R.thr * 10 ^ p * 10 ^ y := Nat.mul_lt_mul_of_pos_right hn hy
      _ = F64R.thr * 10 ^ fq.length * 10 ^ z := by
          rw [Nat.mul_assoc, Nat.mul_assoc, ← Nat.pow_add, ← Nat.pow_add, hlenq]

/-- **the float conditions of `LexOK` for the default settings**: with scientific notation off,
a precision of at most 26 and the library's buffer size 341, every finite double satisfies
`floatOK` -/
theorem floatOK_fixed (c : Config) (b : Nat) (hfin : isFinite b = true)
    (hsci : c.opt OPT_SCIENTIFIC = false) (hp : c.floatPrecision ≤ 26) : floatOK 341 c b = true := by
  unfold floatOK
  rw [hsci, hfin, fixed_no_overflow b _ hfin hp]
  simp only [Bool.true_and, Bool.not_false, Bool.and_true, decide_eq_true_eq]
  exact rawText_fits b _ hfin hp

/-! ### `LexOK` with the float condition reduced to finiteness -/

/-- `scalarOK` with `floatOK` replaced by `F64.isFinite` -/
def scalarFin (ty : Nat) (ival : Int) (fval : Nat) (sval : Option Bytes) : Bool :=
  if ty == T_BOOL then true
  else if ty == T_INT then fits32 ival
  else if ty == T_INT64 then fits64 ival
  else if ty == T_FLOAT then F64.isFinite fval
  else if ty == T_STRING then (sval.getD []).all (fun b => decide (1 ≤ b) && decide (b < 256))
  else false

mutual
def nodeFin : Node → Bool
  | .mk name ty _ ival fval sval kids _ _ _ =>
    nameOK name &&
    (if ty == T_LIST then nodesFin kids
     else if ty == T_ARRAY then nodesFin kids
     else if ty == T_GROUP then nodesFin kids
     else scalarFin ty ival fval sval)
def nodesFin : List Node → Bool
  | [] => true
  | k :: ks => nodeFin k && nodesFin ks
end

/-- `LexOK` for the default float settings: names, integer ranges, NUL-free strings, finite
floats -/
def LexOKfin (c : Config) : Bool := nodeFin c.root

theorem scalarFin_ok (c : Config) (hsci : c.opt OPT_SCIENTIFIC = false) (hp : c.floatPrecision ≤ 26)
    (ty : Nat) (ival : Int) (fval : Nat) (sval : Option Bytes) (h : scalarFin ty ival fval sval = true) :
    scalarOK 341 c ty ival fval sval = true := by
  unfold scalarFin at h
  unfold scalarOK
  split
  · rfl
  · rename_i h1
    simp only [h1, Bool.false_eq_true, if_false] at h
    split
    · rename_i h2; simpa [h2] using h
    · rename_i h2
      simp only [h2, Bool.false_eq_true, if_false] at h
      split
      · rename_i h3; simpa [h3] using h
      · rename_i h3
        simp only [h3, Bool.false_eq_true, if_false] at h
        split
        · rename_i h4
          simp only [h4, if_true] at h
          exact floatOK_fixed c fval h hsci hp
        · rename_i h4
          simpa [h4] using h

mutual
theorem nodeFin_ok (c : Config) (hsci : c.opt OPT_SCIENTIFIC = false) (hp : c.floatPrecision ≤ 26) :
    (n : Node) → nodeFin n = true → nodeOK 341 c n = true
  | .mk name ty fmt ival fval sval kids hook line file => by
    intro h
    unfold nodeFin at h
    unfold nodeOK
    simp only [Bool.and_eq_true] at h ⊢
    refine ⟨h.1, ?_⟩
    have h2 := h.2
    split
    · rename_i ht; simp only [ht, if_true] at h2; exact nodesFin_ok c hsci hp kids h2
    · rename_i ht
      simp only [ht, Bool.false_eq_true, if_false] at h2
      split
      · rename_i ht2; simp only [ht2, if_true] at h2; exact nodesFin_ok c hsci hp kids h2
      · rename_i ht2
        simp only [ht2, Bool.false_eq_true, if_false] at h2
        split
        · rename_i ht3; simp only [ht3, if_true] at h2; exact nodesFin_ok c hsci hp kids h2
        · rename_i ht3
          simp only [ht3, Bool.false_eq_true, if_false] at h2
          exact scalarFin_ok c hsci hp ty ival fval sval h2
theorem nodesFin_ok (c : Config) (hsci : c.opt OPT_SCIENTIFIC = false) (hp : c.floatPrecision ≤ 26) :
    (ks : List Node) → nodesFin ks = true → nodesOK 341 c ks = true
  | [] => fun _ => by simp [nodesOK]
  | k :: ks => by
    intro h
    unfold nodesFin at h
    unfold nodesOK
    simp only [Bool.and_eq_true] at h ⊢
    exact ⟨nodeFin_ok c hsci hp k h.1, nodesFin_ok c hsci hp ks h.2⟩
end

theorem lexOK_of_fin (c : Config) (hsci : c.opt OPT_SCIENTIFIC = false) (hp : c.floatPrecision ≤ 26)
    (h : LexOKfin c = true) : LexOK 341 c = true := by
  exact nodeFin_ok c hsci hp c.root h

end Libconfig.C01L
