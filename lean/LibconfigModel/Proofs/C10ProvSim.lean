import LibconfigModel.Proofs.C09LineSim
import LibconfigModel.Proofs.C10ProvSem
import LibconfigModel.Proofs.C10ProvSpec
/-
  C10P (provenance of the tree), the simulation, part 1 — the accepting half of
  Proofs/C09LineSim.lean with the tree kept EXACTLY (source positions included): scalars (adjacent
  strings included) in every context that allows one, and the elements of an array.  The stamps the
  interpreter of DenoteProv.lean is run with are `stampAt pos`: the token with `k` items from it to
  the end of the text is stamped with the line counter and the current file of `pos k`, the scan
  state right after that token was returned.  `InpJ`, `sim_close`, `sim_strings` of
  Proofs/C09LineSim.lean are reused as they are (they speak about the exact tree already).
-/
namespace Libconfig.C10Prov
open Libconfig C02P C05P C02C C01PP C04 C04R Denote C02D C09L

/-- the stamps of a run: the position a grammar action records when it runs right after the token
`k` -/
def stampAt (pos : Nat → ScanState) : Nat → Stamp := fun k => stampOf (pos k)

/-- the outcome of simulating a step of the interpreter that succeeds: the loop arrives in a
configuration that is `Good` (a step that rejects the text is the business of
Proofs/C09LineSim.lean) -/
def SimP (E : ParserEnv) (a : MC) {α : Type} (res : Denote.Res α)
    (Good : α → List Denote.Item → MC → Prop) : Prop :=
  match res with
  | .ok x rest => ∃ b, Reaches E a b ∧ Good x rest b
  | .error _ => True

theorem SimP.of_reaches {E : ParserEnv} {a a' : MC} {α : Type} {res : Denote.Res α}
    {Good : α → List Denote.Item → MC → Prop} (h1 : Reaches E a a') (h2 : SimP E a' res Good) :
    SimP E a res Good := by
  cases res with
  | ok x rest =>
    obtain ⟨b, hb, hg⟩ := h2
    exact ⟨b, h1.trans hb, hg⟩
  | error k => trivial

/-- the configuration after a value has been read into its slot -/
def AfterValueP (E : ParserEnv) (pos : Nat → ScanState) (o : Options) (qv q : Nat) (vq : TokVal)
    (stk : List (Nat × TokVal)) (K : Node → Node) (pp : Path) (pn : Node) (pre : List Node)
    (d : Nat) (x : Node) (rest : List Denote.Item) (b : MC) : Prop :=
  ∃ la sc ctx vv, b = ⟨(qv, vv) :: (q, vq) :: stk, la, sc, ctx⟩ ∧ InpJ E pos la sc rest ∧
    FilledP K pp pn pre x ctx ∧ Inv true o ctx ∧ nestingFrom d rest ≤ 1665

section
variable {E : ParserEnv} {pos : Nat → ScanState} {o : Options}

/-- the position of the slot is the stamp of the token the interpreter names -/
theorem slotStamp_key (mk : Option Nat) (items : List Denote.Item) :
    slotStamp (mk.map (stampAt pos)) (pos (elemKey items)).buf.lineno
      (pos (elemKey items)).currentFilename = stampAt pos (keyOf mk items) := by
  cases mk <;> rfl

/-! ### scalars -/

section
variable {K : Node → Node} {pp : Path} {pn : Node} {st : Option Path} {pre : List Node}
  {nm : Option Bytes}

/-- a one-token scalar: shift it, reduce `simple_value: TOKEN` running its action — in the scan
state right after the token, for the state reduces without consulting the lookahead -/
theorem sim_tok1P (hE : Compiled E) {q qs : Nat} (hC : ScalCtx q qs) {it : Denote.Item}
    {rest : List Denote.Item} {k s r : Nat} {act : ParseAct}
    (hkc : ∀ k', KindRel it k' → k' = k) (hsh : actAt P q k = some (s : Int))
    (hs0 : 0 < s) (hsf : s ≠ 6) (hred : ∀ k' < 23, redOK P s k' r = true)
    (hrule : RuleIs r 36 1 act) (hninf : P.pact.get s = P.pactNinf)
    {vq : TokVal} {stk : List (Nat × TokVal)} {la : Lookahead}
    {sc : ScanState} {ctx : ParseCtx} {Post : ParseCtx → Prop}
    (hact : ∀ ctx₁ v, Same true ctx ctx₁ → ValRel it v →
      ∃ ctx₂, runAction act ctx₁ v (pos (rest.length + 1)).buf.lineno
        (pos (rest.length + 1)).currentFilename = .ok ctx₂ ∧ Post ctx₂)
    (hd : stk.length + 2 < 10000) (hinv : Inv true o ctx)
    (hI : InpJ E pos la sc (it :: rest)) :
    ∃ la' sc' ctx' vv, Reaches E ⟨(q, vq) :: stk, la, sc, ctx⟩
        ⟨(qs, vv) :: (q, vq) :: stk, la', sc', ctx'⟩ ∧
      InpJ E pos la' sc' rest ∧ Post ctx' ∧ Inv true o ctx' := by
  obtain ⟨t, v, ks, hin, hlen, hkr, hvr, _, hcont⟩ := hI.popL
  obtain ⟨sc1, ctx1, hR1, hI1, hS1⟩ := pshiftQ hE (v0 := vq) (rest := stk) (ctx := ctx)
    (by omega) hC.notFinal (hkc _ hkr) hsh hs0 hin
  have hsc1 : sc1 = pos (rest.length + 1) := by rw [hI1.here, hlen]
  obtain ⟨t', v', ks', hin', hk23, _, hrest⟩ := (hcont _ _ hI1).peek
  obtain ⟨la2, sc2, ctx2, vv, hR2, hI2, hP2, hinv2⟩ := preduceP_here hE (Post := Post)
    (pushed := [(s, v)]) (p := q) (vp := vq) (rest := stk) rfl rfl (by dp) hsf
    (hred _ hk23) hrule rfl hC.gSimple hninf hin' (hinv.of_same hS1)
    (fun ctx₁ hs => by
      rw [hsc1]
      exact hact ctx₁ v (hS1.trans hs) hvr)
  exact ⟨la2, sc2, ctx2, vv, hR1.trans hR2, hrest _ _ hI2, hP2, hinv2⟩

/-- a one-token scalar into its slot -/
theorem sim_scal1P (hE : Compiled E) {q qs : Nat} (hC : ScalCtx q qs) {it : Denote.Item}
    {rest : List Denote.Item} {k s r : Nat} {act : ParseAct} {x0 : Node} {mk : Option Nat}
    (hkc : ∀ k', KindRel it k' → k' = k) (hsh : actAt P q k = some (s : Int))
    (hs0 : 0 < s) (hsf : s ≠ 6) (hred : ∀ k' < 23, redOK P s k' r = true)
    (hrule : RuleIs r 36 1 act) (hninf : P.pact.get s = P.pactNinf)
    (hek : elemKey (it :: rest) = rest.length + 1)
    {vq : TokVal} {stk : List (Nat × TokVal)} {la : Lookahead} {sc : ScanState} {ctx : ParseCtx}
    (hok : ∀ ctx₁ v l f, View ctx₁ K pp pn none st → ValRel it v →
      ∃ ctx₂, runAction act ctx₁ v l f = .ok ctx₂ ∧
        FilledP K pp pn pre (stamped x0 (slotStamp (mk.map (stampAt pos)) l f)) ctx₂)
    (hd : stk.length + 2 < 10000) (hinv : Inv true o ctx) (hV : View ctx K pp pn none st)
    (hI : InpJ E pos la sc (it :: rest)) :
    ∃ la' sc' ctx' vv, Reaches E ⟨(q, vq) :: stk, la, sc, ctx⟩
        ⟨(qs, vv) :: (q, vq) :: stk, la', sc', ctx'⟩ ∧
      InpJ E pos la' sc' rest ∧
      FilledP K pp pn pre (stamped x0 (stampAt pos (keyOf mk (it :: rest)))) ctx' ∧
      Inv true o ctx' := by
  refine sim_tok1P hE hC hkc hsh hs0 hsf hred hrule hninf (fun ctx₁ v hs hvr => ?_) hd hinv hI
  have := hok ctx₁ v (pos (rest.length + 1)).buf.lineno (pos (rest.length + 1)).currentFilename
    (hV.of_same hs.sem) hvr
  rw [← hek, slotStamp_key] at this
  rw [← hek]
  exact this

/-- a scalar in any context that allows one, when its type fits -/
theorem sim_scalarP (hE : Compiled E) {q qs : Nat} (hC : ScalCtx q qs)
    {items rest : List Denote.Item} {x : Node} {mk : Option Nat}
    (hs : scalarP (stampAt pos) nm mk items = some (x, rest))
    {vq : TokVal} {stk : List (Nat × TokVal)} {la : Lookahead} {sc : ScanState} {ctx : ParseCtx}
    (hd : stk.length + 4 < 10000) (hI : InpJ E pos la sc items)
    (hV : View ctx K pp pn none st) (hS : SlotP st pp pn pre nm (mk.map (stampAt pos)))
    (hinv : Inv true o ctx) (hck : pn.ty = T_ARRAY → checkType pn x.ty = true) :
    ∃ la' sc' ctx' vv, Reaches E ⟨(q, vq) :: stk, la, sc, ctx⟩
        ⟨(qs, vv) :: (q, vq) :: stk, la', sc', ctx'⟩ ∧
      InpJ E pos la' sc' rest ∧ FilledP K pp pn pre x ctx' ∧ Inv true o ctx' := by
  obtain ⟨x0, hs0, rfl⟩ := scalarP_some hs
  rw [stamped_ty] at hck
  cases items with
  | nil => simp [scalar] at hs0
  | cons it tl =>
    cases it
    case boolean i =>
      simp only [scalar, Option.some.injEq, Prod.mk.injEq] at hs0
      obtain ⟨rfl, rfl⟩ := hs0
      exact sim_scal1P hE hC (it := .boolean i) (k := 3) (fun _ h => h) hC.boolean (by decide)
        (by decide) red_9 rule_23 ninf_9 rfl
        (fun ctx₁ v l f hV1 hvr => by
          have hvr : v.ival = i := hvr
          obtain ⟨c2, h1, h2⟩ := act_boolP hV1 hS hck v l f
          rw [hvr] at h2
          exact ⟨c2, h1, h2⟩) (by omega) hinv hV hI
    case integer i =>
      simp only [scalar, Option.some.injEq, Prod.mk.injEq] at hs0
      obtain ⟨rfl, rfl⟩ := hs0
      exact sim_scal1P hE hC (it := .integer i) (k := 4) (fun _ h => h) hC.integer (by decide)
        (by decide) red_10 rule_24 ninf_10 rfl
        (fun ctx₁ v l f hV1 hvr => by
          have hvr : v.ival = i := hvr
          obtain ⟨c2, h1, h2⟩ := act_intP hV1 hS hck v l f
          rw [hvr] at h2
          exact ⟨c2, h1, h2⟩) (by omega) hinv hV hI
    case integer64 i =>
      simp only [scalar, Option.some.injEq, Prod.mk.injEq] at hs0
      obtain ⟨rfl, rfl⟩ := hs0
      exact sim_scal1P hE hC (it := .integer64 i) (k := 6) (fun _ h => h) hC.integer64 (by decide)
        (by decide) red_12 rule_25 ninf_12 rfl
        (fun ctx₁ v l f hV1 hvr => by
          have hvr : v.ival = i := hvr
          obtain ⟨c2, h1, h2⟩ := act_int64P hV1 hS hck v l f
          rw [hvr] at h2
          exact ⟨c2, h1, h2⟩) (by omega) hinv hV hI
    case hex i =>
      simp only [scalar, Option.some.injEq, Prod.mk.injEq] at hs0
      obtain ⟨rfl, rfl⟩ := hs0
      exact sim_scal1P hE hC (it := .hex i) (k := 5) (fun _ h => h) hC.hex (by decide)
        (by decide) red_11 rule_26 ninf_11 rfl
        (fun ctx₁ v l f hV1 hvr => by
          have hvr : v.ival = i := hvr
          obtain ⟨c2, h1, h2⟩ := act_hexP hV1 hS hck v l f
          rw [hvr] at h2
          exact ⟨c2, h1, h2⟩) (by omega) hinv hV hI
    case hex64 i =>
      simp only [scalar, Option.some.injEq, Prod.mk.injEq] at hs0
      obtain ⟨rfl, rfl⟩ := hs0
      exact sim_scal1P hE hC (it := .hex64 i) (k := 7) (fun _ h => h) hC.hex64 (by decide)
        (by decide) red_13 rule_27 ninf_13 rfl
        (fun ctx₁ v l f hV1 hvr => by
          have hvr : v.ival = i := hvr
          obtain ⟨c2, h1, h2⟩ := act_hex64P hV1 hS hck v l f
          rw [hvr] at h2
          exact ⟨c2, h1, h2⟩) (by omega) hinv hV hI
    case float b =>
      simp only [scalar, Option.some.injEq, Prod.mk.injEq] at hs0
      obtain ⟨rfl, rfl⟩ := hs0
      exact sim_scal1P hE hC (it := .float b) (k := 8) (fun _ h => h) hC.float (by decide)
        (by decide) red_14 rule_28 ninf_14 rfl
        (fun ctx₁ v l f hV1 hvr => by
          have hvr : v.fval = b := hvr
          obtain ⟨c2, h1, h2⟩ := act_floatP hV1 hS hck v l f
          rw [hvr] at h2
          exact ⟨c2, h1, h2⟩) (by omega) hinv hV hI
    case string s =>
      simp only [scalar, Option.some.injEq, Prod.mk.injEq] at hs0
      obtain ⟨rfl, rfl⟩ := hs0
      -- the first literal
      obtain ⟨t, v, ks, hin, hkr, hvr, _, hcont⟩ := hI.pop
      have hvs : v.sval = s := hvr
      obtain ⟨sc1, ctx1, hR1, hI1, hS1⟩ := pshiftQ hE (v0 := vq) (rest := stk) (ctx := ctx)
        (by omega) hC.notFinal (show translateTok P t = 9 from hkr) hC.string (by decide) hin
      obtain ⟨t', v', ks', hin', hk23, _, hrest⟩ := (hcont _ _ hI1).peek
      obtain ⟨la2, sc2, ctx2, vv2, hR2, hI2, hP2, hinv2⟩ := preduceIQ hE
        (Post := fun c2 => View c2 K pp pn (some s) st)
        (pushed := [(15, v)]) (p := q) (vp := vq) (rest := stk) rfl rfl (by dp)
        (by decide) (red_15 _ hk23) rule_21 rfl hC.gString hin' (hinv.of_same hS1)
        (fun ctx₁ l f hs => by
          obtain ⟨c2, h1, h2⟩ := act_stringFirst ((hV.of_same hS1.sem).of_same hs.sem) v l f
          rw [hvs] at h2
          exact ⟨c2, h1, h2⟩)
      -- the literals that follow
      obtain ⟨la3, sc3, ctx3, vv3, hR3, hI3, hV3, hinv3⟩ := sim_strings hE hC tl s vq vv2 stk la2 sc2
        ctx2 (by omega) (hrest _ _ hI2) hP2 hinv2
      -- `simple_value: string`, run when the token BEHIND the last literal has been seen
      obtain ⟨t3, v3, ks3, hin3, hlen3, hk23', hn3, hrest3⟩ := hI3.peekL
      have hne9 : translateTok P t3 ≠ 9 := by
        exact ne_of_hk hn3 rfl (hk_ne_9 (strings_head tl))
      obtain ⟨la4, sc4, ctx4, vv4, hR4, hI4, hP4, hinv4⟩ := preduceP_la hE
        (Post := FilledP K pp pn pre
          (stamped { name := nm, ty := T_STRING, sval := some (s ++ (strings tl).1) }
            (stampAt pos (keyOf mk (.string s :: tl)))))
        (pushed := [(22, vv3)]) (p := q) (vp := vq) (rest := stk) rfl rfl (by dp)
        (by decide) (red_22 _ hk23' hne9) rule_29 rfl hC.gSimple nn_22 hin3 hinv3
        (fun ctx₁ hs => by
          have := act_stringP (hV3.of_same hs.sem) hS hck vv3 (pos ks3.length).buf.lineno
            (pos ks3.length).currentFilename
          rw [hlen3, show (strings tl).2.length = elemKey (.string s :: tl) from rfl,
            slotStamp_key] at this
          rw [hlen3]
          exact this)
      exact ⟨la4, sc4, ctx4, vv4, ((hR1.trans hR2).trans hR3).trans hR4, hrest3 _ _ hI4, hP4,
        hinv4⟩
    all_goals simp [scalar] at hs0

end

/-! ### arrays -/

/-- the rest of an array, from the state after `simple_value_list` to the state after the value
that the array is -/
theorem sim_arrayRestP (hE : Compiled E) {q qv : Nat} (hC : ValCtx q qv) (ty : Nat) :
    ∀ (fuel : Nat) (acc : List Node) (items : List Denote.Item) (v33 v25 v16 vq : TokVal)
      (stk : List (Nat × TokVal)) (la : Lookahead) (sc : ScanState) (ctx : ParseCtx)
      (K : Node → Node) (pp : Path) (pn : Node) (pre : List Node) (a : Node) (st : Option Path)
      (d : Nat),
    items.length < fuel → stk.length + 1 ≤ 6 * d + 5 → InpJ E pos la sc items → Hole K pp →
    View ctx (fun y => K { pn with kids := pre ++ [y] }) (pp ++ [pre.length]) a none st →
    a.ty = T_ARRAY → a.kids = acc →
    (∃ k0 tl, a.kids = k0 :: tl ∧ k0.ty = ty) → Inv true o ctx →
    nestingFrom (d + 1) items ≤ 1665 →
    SimP E ⟨(33, v33) :: (25, v25) :: (16, v16) :: (q, vq) :: stk, la, sc, ctx⟩
      (arrayRestP (stampAt pos) ty fuel acc items)
      (fun elems rest b => AfterValueP E pos o qv q vq stk K pp pn pre d { a with kids := elems }
        rest b) := by
  intro fuel
  induction fuel with
  | zero => intro acc items _ _ _ _ _ _ _ _ _ _ _ _ _ _ _ hf; exact absurd hf (Nat.not_lt_zero _)
  | succ fuel ih =>
    intro acc items v33 v25 v16 vq stk la sc ctx K pp pn pre a st d hf hd hI hH hV haty hacc
      hhead hinv hnest
    have hd1 : d + 1 ≤ 1665 := Nat.le_trans (le_nestingFrom _ _) hnest
    cases arrayRestView items with
    | done r' =>
      rw [arrayRestP_done]
      -- `simple_value_list_optional: simple_value_list`
      obtain ⟨t, v, ks, hin, hk23, hn, hrest⟩ := hI.peek
      obtain ⟨la1, sc1, ctx1, vv1, hR1, hI1, hS1⟩ := preduce0Q hE (ctx := ctx)
        (pushed := [(33, v33)]) (p := 25) (vp := v25) (rest := (16, v16) :: (q, vq) :: stk)
        rfl rfl (by dp) (by decide) (red_33 _ hk23 (ne_of_hk hn rfl (by simp [hk]))) rule_39 rfl
        go_25_svlo hin
      -- `]`
      obtain ⟨la2, sc2, ctx2, vv2, st2, hR2, hI2, hV2, hinv2⟩ := sim_close hE hC.gValue
        (close := .arrayEnd) (k := 14) (fun _ h => h) sh_34_arrayEnd (by decide) (by decide)
        (by decide) (by decide) red_41 rule_14 hC.gArray red_19 rule_18
        (v3 := vv1) (v2 := v25) (v1 := v16) (vq := vq) (stk := stk)
        (by omega) hH (hV.of_same hS1.sem) (hinv.of_same hS1) (hrest _ _ hI1)
      refine ⟨_, hR1.trans hR2, la2, sc2, ctx2, vv2, rfl, hI2, ⟨st2, ?_⟩, hinv2, ?_⟩
      · rw [← hacc, ← node_kids_eq rfl]
        exact hV2
      · exact Nat.le_trans (nesting_close (.inl rfl)) hnest
    | comma rest' =>
      rw [arrayRestP_comma]
      have hnest' : nestingFrom (d + 1) rest' ≤ 1665 := by
        rw [nesting_flat rfl] at hnest; exact hnest
      -- the comma
      obtain ⟨t, v, ks, hin, hkr, _, _, hcont⟩ := hI.pop
      obtain ⟨sc1, ctx1, hR1, hI1, hS1⟩ := pshiftQ hE (v0 := v33)
        (rest := (25, v25) :: (16, v16) :: (q, vq) :: stk) (ctx := ctx) (by dp) (by decide)
        (show translateTok P t = 17 from hkr) sh_33_comma (by decide) hin
      have hI1' := hcont _ _ hI1
      have hV1 := hV.of_same hS1.sem
      have hinv1 := hinv.of_same hS1
      cases hs : scalarP (stampAt pos) none none rest' with
      | none =>
        simp only
        -- `simple_value_list: simple_value_list ,`
        obtain ⟨t2, v2, ks2, hin2, hk23, hn2, hrest2⟩ := hI1'.peek
        obtain ⟨la2, sc2, ctx2, vv2, hR2, hI2, hS2⟩ := preduce0Q hE (ctx := ctx1)
          (pushed := [(40, v), (33, v33)]) (p := 25) (vp := v25)
          (rest := (16, v16) :: (q, vq) :: stk)
          rfl rfl (by dp) (by decide)
          (red_40 _ hk23 (scalStart_of_hk hk23 hn2 (scalar_none (scalarP_none hs)))) rule_37 rfl
          go_25_svl hin2
        refine SimP.of_reaches (hR1.trans hR2) ?_
        exact ih acc rest' vv2 v25 v16 vq stk la2 sc2 ctx2 K pp pn pre a st d
          (by simp only [List.length_cons] at hf; omega) hd (hrest2 _ _ hI2) hH
          (hV1.of_same hS2.sem) haty hacc hhead (hinv1.of_same hS2) hnest'
      | some p =>
        obtain ⟨x, rest''⟩ := p
        simp only
        obtain ⟨k0, tl, hk0, hty0⟩ := hhead
        have hck : checkType a x.ty = (k0.ty == x.ty) := C09L.checkType_array haty hk0 _
        by_cases hxt : x.ty ≠ ty
        · rw [if_pos hxt]
          trivial
        · rw [if_neg hxt]
          have hxt : x.ty = ty := Classical.not_not.mp hxt
          obtain ⟨x0, hs0, _⟩ := scalarP_some hs
          obtain ⟨la2, sc2, ctx2, vv2, hR2, hI2, ⟨st2, hV2⟩, hinv2⟩ := sim_scalarP (o := o) hE
            scal_40 hs (vq := v)
            (stk := (33, v33) :: (25, v25) :: (16, v16) :: (q, vq) :: stk) (by dp) hI1' hV1
            (SlotP.elem (.inr haty) rfl rfl) hinv1 (fun _ => by
              rw [hck, hty0, hxt]; exact beq_self_eq_true _)
          -- `simple_value_list: simple_value_list , simple_value`
          obtain ⟨t3, v3, ks3, hin3, hk23, _, hrest3⟩ := hI2.peek
          obtain ⟨la3, sc3, ctx3, vv3, hR3, hI3, hS3⟩ := preduce0Q hE (ctx := ctx2)
            (pushed := [(45, vv2), (40, v), (33, v33)]) (p := 25) (vp := v25)
            (rest := (16, v16) :: (q, vq) :: stk)
            rfl rfl (by dp) (by decide) (red_45 _ hk23) rule_36 rfl go_25_svl hin3
          refine SimP.of_reaches ((hR1.trans hR2).trans hR3) ?_
          have := ih (acc ++ [x]) rest'' vv3 v25 v16 vq stk la3 sc3 ctx3 K pp pn pre
            { a with kids := a.kids ++ [x] } st2 d
            (by
              have := scalar_length hs0
              simp only [List.length_cons] at hf; omega)
            hd (hrest3 _ _ hI3) hH (hV2.of_same hS3.sem) haty (by rw [hacc])
            ⟨k0, tl ++ [x], by simp [hk0], hty0⟩ (hinv2.of_same hS3)
            (by rw [scalar_nesting _ hs0]; exact hnest')
          exact this
    | other _ h1 h2 =>
      rw [arrayRestP_other _ _ _ _ _ h1 h2]
      trivial

end

end Libconfig.C10Prov
