import LibconfigModel.StringSpec
import LibconfigModel.Scanner
import LibconfigModel.Properties.C08
/-
  Helper lemmas for property C01 (per-lexeme round trip of the writer's renderings).
-/
namespace Libconfig.C01P

open Libconfig

/-! ### digits of `natToBase` (any base 2..16) -/

theorem natToBaseAux_append (b : Nat) : ∀ (fuel n : Nat) (acc : Bytes),
    natToBaseAux b fuel n acc = natToBaseAux b fuel n [] ++ acc := by
  intro fuel
  induction fuel with
  | zero => intro n acc; simp [natToBaseAux]
  | succ fuel ih =>
    intro n acc
    simp only [natToBaseAux]
    split
    · simp
    · rw [ih (n / b) (_ :: acc), ih (n / b) [_]]
      simp

theorem digitsVal_snoc (b : Nat) (xs : Bytes) (d : Nat) :
    digitsVal b (xs ++ [d]) = digitsVal b xs * b + hexVal d := by
  simp [digitsVal, List.foldl_append]

theorem isDigit_digitChar (d : Nat) (h : d < 10) : isDigit (digitChar d) = true := by
  simp only [digitChar, if_pos h, isDigit, Bool.and_eq_true, decide_eq_true_eq]
  omega

theorem isHexDigit_digitChar (d : Nat) (h : d < 16) : isHexDigit (digitChar d) = true := by
  unfold digitChar isHexDigit isDigit
  by_cases h10 : d < 10
  · simp [h10]; omega
  · simp [h10]; omega

theorem hexVal_digitChar (d : Nat) (h : d < 16) : hexVal (digitChar d) = d := by
  simp only [hexVal, digitChar, isDigit, isUpper]
  by_cases h10 : d < 10
  · have h1 : (decide (48 ≤ 48 + d) && decide (48 + d ≤ 57)) = true := by
      simp only [Bool.and_eq_true, decide_eq_true_eq]; omega
    simp only [if_pos h10, h1, if_true]
    omega
  · have h1 : (decide (48 ≤ 55 + d) && decide (55 + d ≤ 57)) = false := by
      simp only [Bool.and_eq_false_iff, decide_eq_false_iff_not]; omega
    have h2 : (decide (65 ≤ 55 + d) && decide (55 + d ≤ 90)) = true := by
      simp only [Bool.and_eq_true, decide_eq_true_eq]; omega
    simp only [if_neg h10, h1, h2, if_true, Bool.false_eq_true, if_false]
    omega

theorem digitChar_ne_zero (d : Nat) (h : d ≠ 0) : digitChar d ≠ 48 := by
  simp only [digitChar]
  split <;> omega

theorem digitsVal_aux (b : Nat) (hb2 : 2 ≤ b) (hb16 : b ≤ 16) :
    ∀ (fuel n : Nat), n ≤ fuel → digitsVal b (natToBaseAux b fuel n []) = n := by
  intro fuel
  induction fuel with
  | zero =>
    intro n h
    have : n = 0 := by omega
    subst this; simp [natToBaseAux, digitsVal]
  | succ fuel ih =>
    intro n h
    simp only [natToBaseAux]
    split
    · rename_i h0; subst h0; simp [digitsVal]
    · rename_i h0
      have hlt : n / b < n := Nat.div_lt_self (by omega) (by omega)
      have hm : n % b < 16 := Nat.lt_of_lt_of_le (Nat.mod_lt _ (by omega)) hb16
      rw [natToBaseAux_append, digitsVal_snoc, ih (n / b) (by omega), hexVal_digitChar _ hm,
        Nat.mul_comm]
      exact Nat.div_add_mod n b

theorem aux_all (b : Nat) (P : Nat → Prop) (hP : ∀ d, d < b → P (digitChar d)) (hb : 0 < b) :
    ∀ (fuel n : Nat), ∀ c ∈ natToBaseAux b fuel n [], P c := by
  intro fuel
  induction fuel with
  | zero => intro n c hc; simp [natToBaseAux] at hc
  | succ fuel ih =>
    intro n c hc
    simp only [natToBaseAux] at hc
    split at hc
    · simp at hc
    · rw [natToBaseAux_append] at hc
      simp only [List.mem_append, List.mem_singleton] at hc
      rcases hc with hc | rfl
      · exact ih _ _ hc
      · exact hP _ (Nat.mod_lt _ hb)

/-- a positive number is rendered without a leading `0` -/
theorem aux_head (b : Nat) (hb2 : 2 ≤ b) :
    ∀ (fuel n : Nat), n ≠ 0 → n ≤ fuel → ∃ c t, natToBaseAux b fuel n [] = c :: t ∧ c ≠ 48 := by
  intro fuel
  induction fuel with
  | zero => intro n h0 h; omega
  | succ fuel ih =>
    intro n h0 h
    simp only [natToBaseAux, if_neg h0]
    rw [natToBaseAux_append]
    have hlt : n / b < n := Nat.div_lt_self (by omega) (by omega)
    by_cases hq : n / b = 0
    · rw [hq]
      refine ⟨digitChar (n % b), [], ?_, ?_⟩
      · cases fuel <;> simp [natToBaseAux]
      · apply digitChar_ne_zero
        have := Nat.div_add_mod n b
        rw [hq] at this
        simp at this
        omega
    · obtain ⟨c, t, he, hc⟩ := ih (n / b) hq (by omega)
      exact ⟨c, t ++ [digitChar (n % b)], by rw [he]; rfl, hc⟩

theorem natToDec_digits (i : Nat) : ∀ c ∈ natToDec i, isDigit c = true := by
  intro c hc
  simp only [natToDec, natToBase] at hc
  split at hc
  · simp only [List.mem_singleton] at hc; subst hc; decide
  · exact aux_all 10 (fun c => isDigit c = true) isDigit_digitChar (by decide) _ _ _ hc

theorem natToBase_ne_nil (b : Nat) (i : Nat) : natToBase b i ≠ [] := by
  simp only [natToBase]
  split
  · simp
  · rename_i h
    cases i with
    | zero => exact absurd rfl h
    | succ i =>
      simp only [natToBaseAux, if_neg h]
      rw [natToBaseAux_append]
      simp

theorem natToDec_ne_nil (i : Nat) : natToDec i ≠ [] := natToBase_ne_nil 10 i

theorem digitsVal_natToDec (i : Nat) : digitsVal 10 (natToDec i) = i := by
  simp only [natToDec, natToBase]
  split
  · rename_i h; subst h; decide
  · exact digitsVal_aux 10 (by decide) (by decide) _ _ (Nat.le_refl _)

theorem natToDec_zero : natToDec 0 = [48] := rfl

theorem natToDec_head (i : Nat) (h : i ≠ 0) : (natToDec i).head? ≠ some 48 := by
  simp only [natToDec, natToBase, if_neg h]
  obtain ⟨c, t, he, hc⟩ := aux_head 10 (by decide) i i h (Nat.le_refl _)
  rw [he]
  simpa using hc

theorem natToHex_digits (i : Nat) : ∀ c ∈ natToHexUpper i, isHexDigit c = true := by
  intro c hc
  simp only [natToHexUpper, natToBase] at hc
  split at hc
  · simp only [List.mem_singleton] at hc; subst hc; decide
  · exact aux_all 16 (fun c => isHexDigit c = true) isHexDigit_digitChar (by decide) _ _ _ hc

theorem natToHex_ne_nil (i : Nat) : natToHexUpper i ≠ [] := natToBase_ne_nil 16 i

theorem digitsVal_natToHex (i : Nat) : digitsVal 16 (natToHexUpper i) = i := by
  simp only [natToHexUpper, natToBase]
  split
  · rename_i h; subst h; decide
  · exact digitsVal_aux 16 (by decide) (by decide) _ _ (Nat.le_refl _)

/-! ### decimal integers -/

/-- the sign the writer prints -/
def sgOf (v : Int) : Option Bool := if v < 0 then some true else none

theorem intToDec_eq (v : Int) : intToDec v = C08.signBytes (sgOf v) ++ natToDec v.natAbs := by
  unfold intToDec sgOf
  by_cases h : v < 0 <;> simp [h, C08.signBytes]

theorem literalValue_intToDec (v : Int) :
    C08.literalValue (sgOf v) (natToDec v.natAbs) = some v := by
  unfold C08.literalValue
  by_cases h0 : v.natAbs = 0
  · have hv : v = 0 := by omega
    subst hv
    decide
  · rw [if_neg (natToDec_head _ h0), digitsVal_natToDec]
    unfold C08.signed sgOf
    by_cases h : v < 0
    · simp only [if_pos h, C08.isNeg, if_true]; congr 1; omega
    · simp only [if_neg h, C08.isNeg, Bool.false_eq_true, if_false]; congr 1; omega

theorem fits64_of_fits32 (v : Int) (h : fits32 v = true) : fits64 v = true := by
  unfold fits32 fits64 INT_MIN INT_MAX LLONG_MIN LLONG_MAX at *
  simp at *; omega

/-! ### hexadecimal integers -/

theorem pow32 : (2 : Int) ^ 32 = 4294967296 := by decide
theorem pow64 : (2 : Int) ^ 64 = 18446744073709551616 := by decide

theorem hex32_lt (v : Int) : (v % 4294967296).toNat < 4294967296 := by omega
theorem hex64_lt (v : Int) : (v % 18446744073709551616).toNat < 18446744073709551616 := by omega

theorem wrap32_hex (v : Int) (h : fits32 v = true) : wrap32 ((v % 4294967296).toNat : Nat) = v := by
  unfold fits32 INT_MIN INT_MAX at h
  simp only [Bool.and_eq_true, decide_eq_true_eq] at h
  have e : (((v % 4294967296).toNat : Nat) : Int) = v % 4294967296 := by omega
  rw [e]
  simp only [wrap32]
  split <;> omega

theorem wrap64_hex (v : Int) (h : fits64 v = true) :
    wrap64 ((v % 18446744073709551616).toNat : Nat) = v := by
  unfold fits64 LLONG_MIN LLONG_MAX at h
  simp only [Bool.and_eq_true, decide_eq_true_eq] at h
  have e : (((v % 18446744073709551616).toNat : Nat) : Int) = v % 18446744073709551616 := by omega
  rw [e]
  simp only [wrap64]
  split <;> omega

/-! ### strings -/

/-- one setting byte: what `escapeString` emits for it -/
def escByte (c : Nat) : Bytes :=
  if c == 34 || c == 92 then [92, c]
  else if c == 10 then [92, 110]
  else if c == 13 then [92, 114]
  else if c == 12 then [92, 102]
  else if c == 9 then [92, 116]
  else if c ≥ 32 then [c]
  else [92, 120, digitChar (c / 16), digitChar (c % 16)]

theorem escapeString_cons (c : Nat) (s : Bytes) : escapeString (c :: s) = escByte c ++ escapeString s := by
  simp [escapeString, escByte, List.flatMap_cons]

theorem escByte_length_pos (c : Nat) : 1 ≤ (escByte c).length := by
  unfold escByte
  repeat' split
  all_goals simp

/-- every escape sequence is consumed by exactly one step of `unescape`, yielding the byte -/
theorem unescape_escByte (c f : Nat) (acc tail : Bytes) :
    unescape (f + 1) acc (escByte c ++ tail) = unescape f (acc ++ [c]) tail := by
  unfold escByte
  by_cases h34 : c = 34
  · subst h34; simp [unescape, escapeCode]
  by_cases h92 : c = 92
  · subst h92; simp [unescape, escapeCode]
  by_cases h10 : c = 10
  · subst h10; simp [unescape, escapeCode]
  by_cases h13 : c = 13
  · subst h13; simp [unescape, escapeCode]
  by_cases h12 : c = 12
  · subst h12; simp [unescape, escapeCode]
  by_cases h9 : c = 9
  · subst h9; simp [unescape, escapeCode]
  by_cases h32 : c ≥ 32
  · simp [unescape, h34, h92, h10, h13, h12, h9, h32]
  · have hlt : c < 32 := by omega
    have hq : c / 16 < 16 := by omega
    have hr : c % 16 < 16 := by omega
    have e : ¬ (32 ≤ c) := by omega
    simp [unescape, escapeCode, h34, h92, h10, h13, h12, h9, e,
      isHexDigit_digitChar _ hq, isHexDigit_digitChar _ hr, hexVal_digitChar _ hq, hexVal_digitChar _ hr]
    have hc : c / 16 * 16 + c % 16 = c := by omega
    rw [hc]

theorem unescape_escape (s : Bytes) : ∀ (fuel : Nat) (acc rest : Bytes),
    (escapeString s).length + 1 ≤ fuel →
    unescape fuel acc (escapeString s ++ [34] ++ rest) = some (acc ++ s, rest) := by
  induction s with
  | nil =>
    intro fuel acc rest hf
    cases fuel with
    | zero => omega
    | succ f => simp [escapeString, unescape]
  | cons c s ih =>
    intro fuel acc rest hf
    rw [escapeString_cons] at hf ⊢
    have := escByte_length_pos c
    simp only [List.length_append] at hf
    cases fuel with
    | zero => omega
    | succ f =>
      rw [List.append_assoc, List.append_assoc, unescape_escByte, ← List.append_assoc,
        ih f (acc ++ [c]) rest (by omega)]
      simp

/-! ### booleans: the two keywords as bytes -/

theorem toByteArray_true : "true".toByteArray = ⟨#[116, 114, 117, 101]⟩ := by decide
theorem toByteArray_false : "false".toByteArray = ⟨#[102, 97, 108, 115, 101]⟩ := by decide

theorem bytes_true : bytesOfString "true" = [116, 114, 117, 101] := by
  unfold bytesOfString String.toUTF8
  rw [toByteArray_true]
  simp [ByteArray.toList, ByteArray.toList.loop, ByteArray.size, ByteArray.get!]

theorem bytes_false : bytesOfString "false" = [102, 97, 108, 115, 101] := by
  unfold bytesOfString String.toUTF8
  rw [toByteArray_false]
  simp [ByteArray.toList, ByteArray.toList.loop, ByteArray.size, ByteArray.get!]

/-! ### floats: characters and shape of `formatDouble` -/

open F64

/-- characters of a float rendering (copy of `C01.floatChar`, which is stated after the import) -/
def fc (c : Nat) : Bool := isDigit c || c == 45 || c == 43 || c == 46 || c == 101

def AllFc (l : Bytes) : Prop := ∀ c ∈ l, fc c = true

theorem fc_of_digit {c : Nat} (h : isDigit c = true) : fc c = true := by simp [fc, h]

theorem AllFc.append {a b : Bytes} (ha : AllFc a) (hb : AllFc b) : AllFc (a ++ b) := by
  intro c hc
  rcases List.mem_append.mp hc with h | h
  · exact ha c h
  · exact hb c h

theorem AllFc.cons {a : Nat} {b : Bytes} (ha : fc a = true) (hb : AllFc b) : AllFc (a :: b) := by
  intro c hc
  rcases List.mem_cons.mp hc with h | h
  · exact h ▸ ha
  · exact hb c h

theorem AllFc.nil : AllFc [] := by intro c hc; cases hc

theorem AllFc.sub {a b : Bytes} (hb : AllFc b) (h : ∀ c ∈ a, c ∈ b) : AllFc a :=
  fun c hc => hb c (h c hc)

theorem AllFc.take {a : Bytes} (n : Nat) (ha : AllFc a) : AllFc (a.take n) :=
  ha.sub fun _ h => List.mem_of_mem_take h

theorem AllFc.drop {a : Bytes} (n : Nat) (ha : AllFc a) : AllFc (a.drop n) :=
  ha.sub fun _ h => List.mem_of_mem_drop h

theorem mem_stripZeros {c : Nat} {ds : Bytes} (h : c ∈ stripZeros ds) : c ∈ ds := by
  unfold stripZeros at h
  rw [List.mem_reverse] at h
  exact List.mem_reverse.mp ((List.dropWhile_sublist _).subset h)

theorem AllFc.strip {a : Bytes} (ha : AllFc a) : AllFc (stripZeros a) :=
  ha.sub fun _ h => mem_stripZeros h

theorem AllFc.digits {a : Bytes} (h : ∀ c ∈ a, isDigit c = true) : AllFc a :=
  fun c hc => fc_of_digit (h c hc)

theorem pad0_fc (n : Nat) {ds : Bytes} (h : AllFc ds) : AllFc (pad0 n ds) := by
  unfold pad0
  refine AllFc.append ?_ h
  intro c hc
  rw [List.mem_replicate] at hc
  rw [hc.2]; decide

theorem sign_fc (b : Bool) : AllFc (if b then [45] else []) := by
  cases b
  · exact AllFc.nil
  · exact AllFc.cons (by decide) AllFc.nil

theorem dec_fc (n : Nat) : AllFc (natToDec n) := AllFc.digits (natToDec_digits n)

theorem fmtF_fc (b p : Nat) (hb : isFinite b = true) : AllFc (fmtF b p) := by
  unfold fmtF
  simp only [hb, Bool.not_true, Bool.false_eq_true, if_false]
  refine AllFc.append (AllFc.append (sign_fc _) ((pad0_fc _ (dec_fc _)).take _)) ?_
  split
  · exact AllFc.nil
  · exact AllFc.cons (by decide) ((pad0_fc _ (dec_fc _)).drop _)


/-- the digits/exponent pair computed by `fmtG` -/
def gDX (b p : Nat) : Nat × Int :=
  let m := mant b
  let e := expo b
  let (num, den) : Nat × Nat := if e ≥ 0 then (m * 2^e.toNat, 1) else (m, 2^((-e).toNat))
  let x0 := floorLog10 num den
  let sh : Int := x0 - (p : Int) + 1
  let d0 := if sh ≥ 0 then divRoundEven num (den * 10^sh.toNat) else divRoundEven (num * 10^((-sh).toNat)) den
  if d0 ≥ 10^p then (d0 / 10, x0 + 1) else (d0, x0)

/-- the rendering step of `fmtG` once digits and exponent are known -/
def gTail (sign : Bytes) (p d : Nat) (x : Int) : Bytes :=
  if x < -4 || x ≥ (p : Int) then
    let ds := pad0 p (natToDec d)
    let fp := stripZeros (ds.drop 1)
    let ex := natToDec x.natAbs
    let ex := if ex.length < 2 then 48 :: ex else ex
    sign ++ ds.take 1 ++ (if fp.isEmpty then [] else 46 :: fp) ++ [101, (if x < 0 then 45 else 43)] ++ ex
  else
    let fd : Nat := ((p : Int) - 1 - x).toNat
    let ds := pad0 (fd + 1) (natToDec d)
    let ip := ds.take (ds.length - fd)
    let fp := stripZeros (ds.drop (ds.length - fd))
    sign ++ ip ++ (if fp.isEmpty then [] else 46 :: fp)

theorem fmtG_eq (b p0 : Nat) :
    fmtG b p0 =
      if !isFinite b then nonFinite b else
      if mant b = 0 then (if signBit b then [45] else []) ++ [48] else
      gTail (if signBit b then [45] else []) (if p0 = 0 then 1 else p0)
        (gDX b (if p0 = 0 then 1 else p0)).1 (gDX b (if p0 = 0 then 1 else p0)).2 := rfl

theorem gTail_fc (sign : Bytes) (hs : AllFc sign) (p d : Nat) (x : Int) : AllFc (gTail sign p d x) := by
  unfold gTail
  split
  · simp only []
    refine AllFc.append (AllFc.append (AllFc.append (AllFc.append hs ((pad0_fc _ (dec_fc _)).take _)) ?_) ?_) ?_
    · split
      · exact AllFc.nil
      · exact AllFc.cons (by decide) ((pad0_fc _ (dec_fc _)).drop _).strip
    · refine AllFc.cons (by decide) (AllFc.cons ?_ AllFc.nil)
      split <;> decide
    · split
      · exact AllFc.cons (by decide) (dec_fc _)
      · exact dec_fc _
  · simp only []
    refine AllFc.append (AllFc.append hs ((pad0_fc _ (dec_fc _)).take _)) ?_
    split
    · exact AllFc.nil
    · exact AllFc.cons (by decide) ((pad0_fc _ (dec_fc _)).drop _).strip

theorem fmtG_fc (b p : Nat) (hb : isFinite b = true) : AllFc (fmtG b p) := by
  rw [fmtG_eq]
  simp only [hb, Bool.not_true, Bool.false_eq_true, if_false]
  split
  · exact AllFc.append (sign_fc _) (AllFc.cons (by decide) AllFc.nil)
  · exact gTail_fc _ (sign_fc _) _ _ _


/-- the post-processing of `libconfig_format_double` -/
def postProc (s : Bytes) : Bytes :=
  if s.contains 101 then s
  else if !s.contains 46 then s ++ [46, 48]
  else
    let ip := s.takeWhile (· != 46)
    let fp := (s.dropWhile (· != 46)).drop 1
    match fp with
    | [] => s
    | d :: ds => ip ++ [46, d] ++ F64.stripZeros ds

def rawText (bufLen b p : Nat) (sci : Bool) : Bytes :=
  if sci && isFinite b && isInf (strtod ((if sci then fmtG b p else fmtF b p).take (bufLen - 4)))
  then fmtG b 17 else (if sci then fmtG b p else fmtF b p)

theorem formatDouble_eq (bufLen b p : Nat) (sci : Bool) :
    formatDouble bufLen b p sci = postProc ((rawText bufLen b p sci).take (bufLen - 4)) := rfl

theorem rawText_fc (bufLen b p : Nat) (sci : Bool) (hb : isFinite b = true) :
    AllFc (rawText bufLen b p sci) := by
  unfold rawText
  cases sci
  · simp only [Bool.false_and, Bool.false_eq_true, if_false]
    exact fmtF_fc _ _ hb
  · simp only [if_true]
    split
    · exact fmtG_fc _ _ hb
    · exact fmtG_fc _ _ hb

theorem postProc_shape (s : Bytes) (hs : AllFc s) :
    AllFc (postProc s) ∧ ((postProc s).contains 46 = true ∨ (postProc s).contains 101 = true) := by
  unfold postProc
  split
  · rename_i h; exact ⟨hs, .inr h⟩
  · split
    · exact ⟨hs.append (AllFc.cons (by decide) (AllFc.cons (by decide) AllFc.nil)), .inl (by simp)⟩
    · rename_i h46
      simp only []
      split
      · exact ⟨hs, .inl (by simpa using h46)⟩
      · rename_i d ds hfp
        have hsub : ∀ c ∈ d :: ds, c ∈ s := by
          intro c hc
          rw [← hfp] at hc
          exact (List.dropWhile_sublist _).subset (List.mem_of_mem_drop hc)
        refine ⟨?_, .inl (by simp)⟩
        refine AllFc.append (AllFc.append (hs.sub fun c hc => (List.takeWhile_sublist _).subset hc) ?_) ?_
        · exact AllFc.cons (by decide) (AllFc.cons (hs d (hsub d (by simp))) AllFc.nil)
        · exact (hs.sub fun c hc => hsub c (List.mem_cons_of_mem _ hc)).strip

theorem formatDouble_shape (bufLen b p : Nat) (sci : Bool) (hb : isFinite b = true) :
    (∀ ch ∈ formatDouble bufLen b p sci, fc ch = true) ∧
    ((formatDouble bufLen b p sci).contains 46 = true ∨ (formatDouble bufLen b p sci).contains 101 = true) := by
  rw [formatDouble_eq]
  exact postProc_shape _ ((rawText_fc bufLen b p sci hb).take _)

end Libconfig.C01P
