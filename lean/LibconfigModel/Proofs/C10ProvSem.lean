import LibconfigModel.Proofs.C10ProvStep
/-
  C10P (provenance of the tree), semantic side: what the grammar actions that create settings do
  to the tree under construction — the lemmas of Proofs/C01ParseSem.lean / C02DenoteSem.lean once
  more, this time telling EXACTLY which node is built, source position included (there: up to
  `stripPos`).  A value that fills the fresh member of a group keeps the position the member was
  given when its NAME was read; a value that becomes a new element of a list or an array gets the
  position the action is given.
-/
namespace Libconfig.C10Prov
open Libconfig C02P C05P C02C C01PP C04 C04R Denote C02D

/-! ### the slot, with the position of the fresh member -/

/-- `Slot` of Proofs/C01ParseSem.lean telling the position the fresh member carries (`some p`), or
that the value will be a new element (`none`) -/
inductive SlotP (st : Option Path) (pp : Path) (pn : Node) (pre : List Node) (nm : Option Bytes) :
    Option Stamp → Prop where
  | member (nm' : Bytes) (p : Stamp) : pn.ty = T_GROUP →
      pn.kids = pre ++ [stamped { name := some nm' } p] → nm = some nm' →
      st = some (pp ++ [pre.length]) → SlotP st pp pn pre nm (some p)
  | elem : (pn.ty = T_LIST ∨ pn.ty = T_ARRAY) → pn.kids = pre → nm = none →
      SlotP st pp pn pre nm none

theorem SlotP.slot {st : Option Path} {pp : Path} {pn : Node} {pre : List Node}
    {nm : Option Bytes} {ms : Option Stamp} (h : SlotP st pp pn pre nm ms) :
    Slot st pp pn pre nm := by
  cases h with
  | member nm' p hg hk hnm hst => exact .member _ nm' hg hk rfl hnm hst
  | elem hl hk hnm => exact .elem hl hk hnm

/-- the position the value gets: the member's, or the one the action is given -/
def slotStamp (ms : Option Stamp) (l : Nat) (f : Option Bytes) : Stamp :=
  match ms with
  | some p => p
  | none => (l, f)

/-! ### `$@2`, `$@3`, `$@4`: an aggregate starts -/

theorem act_aggStartP {ctx : ParseCtx} {K : Node → Node} {pp : Path} {pn : Node}
    {st : Option Path} {pre : List Node} {nm : Option Bytes} {ms : Option Stamp}
    (hV : View ctx K pp pn none st) (hS : SlotP st pp pn pre nm ms) (hna : pn.ty ≠ T_ARRAY)
    (ty : Nat) (hty : ty ≤ 8) (l : Nat) (f : Option Bytes) :
    ∃ ctx₂ st', actAggStart ctx ty l f = .ok ctx₂ ∧
      View ctx₂ (fun y => K { pn with kids := pre ++ [y] }) (pp ++ [pre.length])
        (stamped { name := nm, ty := ty } (slotStamp ms l f)) none st' := by
  unfold actAggStart
  rw [hV.inTy]
  cases hS with
  | member nm' p hg hk hnm hst =>
    have hb : (pn.ty == T_LIST) = false := by rw [hg]; rfl
    rw [hb]
    simp only [Bool.false_eq_true, if_false]
    rw [hV.setting, hst]
    simp only
    have hKpn : K pn = K { pn with kids := pre ++ [stamped { name := some nm' } p] } :=
      congrArg K (node_kids_eq hk)
    have hget : ctx.cfg.root.get? (pp ++ [pre.length]) = some (stamped { name := some nm' } p) := by
      rw [hV.root, hKpn]
      exact (hV.hole.kid pn pre).get _
    rw [hget]
    simp only [Option.isSome_some, if_true]
    refine ⟨_, none, rfl, hV.hole.kid pn pre, ?_, rfl, hV.str, rfl⟩
    show (ctx.modify _ _).cfg.root = _
    rw [modify_root, hV.root, hKpn, hnm]
    exact (hV.hole.kid pn pre).mod _ _
  | elem hl hk hnm =>
    have hl : pn.ty = T_LIST := by
      rcases hl with hl | hl
      · exact hl
      · exact absurd hl hna
    have hb : (pn.ty == T_LIST) = true := by rw [hl]; rfl
    rw [hb]
    simp only [if_true]
    rw [hV.nodeAt, hV.parent]
    simp only
    rw [add_elem hl ty hty]
    simp only
    subst hk
    refine ⟨_, st, rfl, hV.hole.kid pn pn.kids, ?_, rfl, hV.str, hV.setting⟩
    rw [capture_root]
    show ((ctx.cfg.root.modify _ pp).modify _ _) = _
    rw [hV.root, hV.hole.mod, (hV.hole.kid pn pn.kids).mod, hnm]
    rfl

/-! ### scalar values -/

/-- `act_value` of Proofs/C01ParseSem.lean with the exact node: `R nm` with the position of the
slot -/
theorem act_valueP {ctx : ParseCtx} {K : Node → Node} {pp : Path} {pn : Node} {st : Option Path}
    {pre : List Node} {nm : Option Bytes} {ms : Option Stamp} (hV : View ctx K pp pn none st)
    (hS : SlotP st pp pn pre nm ms) {setter : Node → Option Node} {ty : Nat} {fmt : Option Nat}
    {R : Option Bytes → Node} (hck : pn.ty = T_ARRAY → checkType pn ty = true)
    (hset : ∀ (nm : Option Bytes) (t0 l0 : Nat) (f0 : Option Bytes), (t0 = T_NONE ∨ t0 = ty) →
      ∃ y, setter { name := nm, ty := t0, line := l0, file := f0 } = some y ∧
        setFmtF fmt y = stamped (R nm) (l0, f0))
    (l : Nat) (f : Option Bytes) (e : Bytes) :
    ∃ ctx₂ st', actValue ctx setter ty fmt l f e = .ok ctx₂ ∧
      View ctx₂ K pp { pn with kids := pre ++ [stamped (R nm) (slotStamp ms l f)] } none st' := by
  rw [actValue_eq, hV.inTy, hV.inTy]
  cases hS with
  | member nm' p hg hk hnm hst =>
    have hb : (pn.ty == T_ARRAY || pn.ty == T_LIST) = false := by rw [hg]; rfl
    rw [hb]
    simp only [Bool.false_eq_true, if_false]
    rw [hV.setting, hst]
    simp only
    have hKpn : K pn = K { pn with kids := pre ++ [stamped { name := some nm' } p] } :=
      congrArg K (node_kids_eq hk)
    have hget : ctx.cfg.root.get? (pp ++ [pre.length]) = some (stamped { name := some nm' } p) := by
      rw [hV.root, hKpn]
      exact (hV.hole.kid pn pre).get _
    rw [hget]
    simp only [Option.isSome_some, if_true]
    obtain ⟨y, hy, hR⟩ := hset (some nm') T_NONE p.1 p.2 (.inl rfl)
    have hsm : setter (stamped { name := some nm' } p) = some y := hy
    refine ⟨_, st, rfl, hV.hole, ?_, hV.parent, hV.str, ?_⟩
    · rw [modify_root, hV.root, hKpn]
      have := (hV.hole.kid pn pre).mod (stamped { name := some nm' } p)
        (fun n => setFmtF fmt ((setter n).getD n))
      rw [this, hsm, hnm]
      show K { pn with kids := pre ++ [setFmtF fmt y] } = _
      rw [hR]
      rfl
    · show ctx.setting = st
      exact hV.setting
  | elem hl hk hnm =>
    have hty : (pn.ty == T_ARRAY || pn.ty == T_LIST) = true := by
      rcases hl with hl | hl <;> simp [hl, T_ARRAY, T_LIST]
    rw [hty]
    simp only [if_true]
    rw [hV.nodeAt, hV.parent]
    simp only
    obtain ⟨y, hy, hR⟩ := hset none ty 0 none (.inr rfl)
    have hck' : checkType pn ty = true := by
      rcases hl with hl | hl
      · exact checkType_list hl ty
      · exact hck hl
    rw [setElem_append hl hck' hy]
    simp only
    subst hk
    refine ⟨_, st, rfl, hV.hole, ?_, hV.parent, hV.str, hV.setting⟩
    rw [capture_root, modify_root, modify_root, hV.root, hV.hole.mod,
      (hV.hole.kid pn pn.kids).mod, (hV.hole.kid pn pn.kids).mod]
    show K { pn with kids := pn.kids ++ [cap l f (setFmtF fmt y)] } = _
    rw [hR, hnm]
    rfl

section
variable {ctx : ParseCtx} {K : Node → Node} {pp : Path} {pn : Node} {st : Option Path}
  {pre : List Node} {nm : Option Bytes} {ms : Option Stamp}

/-- the slot is filled with exactly the setting `x` -/
def FilledP (K : Node → Node) (pp : Path) (pn : Node) (pre : List Node) (x : Node)
    (ctx₂ : ParseCtx) : Prop :=
  ∃ st', View ctx₂ K pp { pn with kids := pre ++ [x] } none st'

theorem act_boolP (hV : View ctx K pp pn none st) (hS : SlotP st pp pn pre nm ms)
    (hck : pn.ty = T_ARRAY → checkType pn T_BOOL = true) (v : TokVal) (l : Nat) (f : Option Bytes) :
    ∃ ctx₂, runAction .valBool ctx v l f = .ok ctx₂ ∧
      FilledP K pp pn pre
        (stamped { name := nm, ty := T_BOOL, ival := v.ival } (slotStamp ms l f)) ctx₂ := by
  simp only [runAction]
  obtain ⟨ctx₂, st', h1, h2⟩ := act_valueP hV hS (setter := fun n => n.setBool v.ival)
    (ty := T_BOOL) (fmt := none) (R := fun nm => { name := nm, ty := T_BOOL, ival := v.ival }) hck
    (by
      intro nm t0 l0 f0 h
      rcases h with rfl | rfl <;> exact ⟨_, rfl, rfl⟩)
    l f Generated.ERR_ARRAY_ELEM_TYPE
  exact ⟨ctx₂, h1, st', h2⟩

theorem act_intP (hV : View ctx K pp pn none st) (hS : SlotP st pp pn pre nm ms)
    (hck : pn.ty = T_ARRAY → checkType pn T_INT = true) (v : TokVal) (l : Nat) (f : Option Bytes) :
    ∃ ctx₂, runAction .valInt ctx v l f = .ok ctx₂ ∧
      FilledP K pp pn pre
        (stamped { name := nm, ty := T_INT, ival := v.ival, fmt := FMT_DEFAULT }
          (slotStamp ms l f)) ctx₂ := by
  simp only [runAction]
  obtain ⟨ctx₂, st', h1, h2⟩ := act_valueP hV hS
    (setter := fun n => n.setInt (ctx.cfg.opt OPT_AUTOCONVERT) v.ival)
    (ty := T_INT) (fmt := some FMT_DEFAULT)
    (R := fun nm => { name := nm, ty := T_INT, ival := v.ival, fmt := FMT_DEFAULT }) hck
    (by
      intro nm t0 l0 f0 h
      rcases h with rfl | rfl <;> exact ⟨_, rfl, rfl⟩)
    l f Generated.ERR_ARRAY_ELEM_TYPE
  exact ⟨ctx₂, h1, st', h2⟩

theorem act_hexP (hV : View ctx K pp pn none st) (hS : SlotP st pp pn pre nm ms)
    (hck : pn.ty = T_ARRAY → checkType pn T_INT = true) (v : TokVal) (l : Nat) (f : Option Bytes) :
    ∃ ctx₂, runAction .valHex ctx v l f = .ok ctx₂ ∧
      FilledP K pp pn pre
        (stamped { name := nm, ty := T_INT, ival := v.ival, fmt := FMT_HEX }
          (slotStamp ms l f)) ctx₂ := by
  simp only [runAction]
  obtain ⟨ctx₂, st', h1, h2⟩ := act_valueP hV hS
    (setter := fun n => n.setInt (ctx.cfg.opt OPT_AUTOCONVERT) v.ival)
    (ty := T_INT) (fmt := some FMT_HEX)
    (R := fun nm => { name := nm, ty := T_INT, ival := v.ival, fmt := FMT_HEX }) hck
    (by
      intro nm t0 l0 f0 h
      rcases h with rfl | rfl <;> exact ⟨_, rfl, rfl⟩)
    l f Generated.ERR_ARRAY_ELEM_TYPE
  exact ⟨ctx₂, h1, st', h2⟩

theorem act_int64P (hV : View ctx K pp pn none st) (hS : SlotP st pp pn pre nm ms)
    (hck : pn.ty = T_ARRAY → checkType pn T_INT64 = true) (v : TokVal) (l : Nat)
    (f : Option Bytes) :
    ∃ ctx₂, runAction .valInt64 ctx v l f = .ok ctx₂ ∧
      FilledP K pp pn pre
        (stamped { name := nm, ty := T_INT64, ival := v.ival, fmt := FMT_DEFAULT }
          (slotStamp ms l f)) ctx₂ := by
  simp only [runAction]
  obtain ⟨ctx₂, st', h1, h2⟩ := act_valueP hV hS
    (setter := fun n => n.setInt64 (ctx.cfg.opt OPT_AUTOCONVERT) v.ival)
    (ty := T_INT64) (fmt := some FMT_DEFAULT)
    (R := fun nm => { name := nm, ty := T_INT64, ival := v.ival, fmt := FMT_DEFAULT }) hck
    (by
      intro nm t0 l0 f0 h
      rcases h with rfl | rfl <;> exact ⟨_, rfl, rfl⟩)
    l f Generated.ERR_ARRAY_ELEM_TYPE
  exact ⟨ctx₂, h1, st', h2⟩

theorem act_hex64P (hV : View ctx K pp pn none st) (hS : SlotP st pp pn pre nm ms)
    (hck : pn.ty = T_ARRAY → checkType pn T_INT64 = true) (v : TokVal) (l : Nat)
    (f : Option Bytes) :
    ∃ ctx₂, runAction .valHex64 ctx v l f = .ok ctx₂ ∧
      FilledP K pp pn pre
        (stamped { name := nm, ty := T_INT64, ival := v.ival, fmt := FMT_HEX }
          (slotStamp ms l f)) ctx₂ := by
  simp only [runAction]
  obtain ⟨ctx₂, st', h1, h2⟩ := act_valueP hV hS
    (setter := fun n => n.setInt64 (ctx.cfg.opt OPT_AUTOCONVERT) v.ival)
    (ty := T_INT64) (fmt := some FMT_HEX)
    (R := fun nm => { name := nm, ty := T_INT64, ival := v.ival, fmt := FMT_HEX }) hck
    (by
      intro nm t0 l0 f0 h
      rcases h with rfl | rfl <;> exact ⟨_, rfl, rfl⟩)
    l f Generated.ERR_ARRAY_ELEM_TYPE
  exact ⟨ctx₂, h1, st', h2⟩

theorem act_floatP (hV : View ctx K pp pn none st) (hS : SlotP st pp pn pre nm ms)
    (hck : pn.ty = T_ARRAY → checkType pn T_FLOAT = true) (v : TokVal) (l : Nat)
    (f : Option Bytes) :
    ∃ ctx₂, runAction .valFloat ctx v l f = .ok ctx₂ ∧
      FilledP K pp pn pre
        (stamped { name := nm, ty := T_FLOAT, fval := v.fval } (slotStamp ms l f)) ctx₂ := by
  simp only [runAction]
  obtain ⟨ctx₂, st', h1, h2⟩ := act_valueP hV hS
    (setter := fun n => n.setFloat (ctx.cfg.opt OPT_AUTOCONVERT) v.fval)
    (ty := T_FLOAT) (fmt := none)
    (R := fun nm => { name := nm, ty := T_FLOAT, fval := v.fval }) hck
    (by
      intro nm t0 l0 f0 h
      rcases h with rfl | rfl <;> exact ⟨_, rfl, rfl⟩)
    l f Generated.ERR_ARRAY_ELEM_TYPE
  exact ⟨ctx₂, h1, st', h2⟩

theorem act_stringP {sv : Bytes} (hV : View ctx K pp pn (some sv) st)
    (hS : SlotP st pp pn pre nm ms)
    (hck : pn.ty = T_ARRAY → checkType pn T_STRING = true) (v : TokVal) (l : Nat)
    (f : Option Bytes) :
    ∃ ctx₂, runAction .valString ctx v l f = .ok ctx₂ ∧
      FilledP K pp pn pre
        (stamped { name := nm, ty := T_STRING, sval := some sv } (slotStamp ms l f)) ctx₂ := by
  simp only [runAction]
  have hV' : View { ctx with str := none } K pp pn none st :=
    ⟨hV.hole, hV.root, hV.parent, rfl, hV.setting⟩
  obtain ⟨ctx₂, st', h1, h2⟩ := act_valueP hV' hS
    (setter := fun n => n.setString ctx.str)
    (ty := T_STRING) (fmt := none)
    (R := fun nm => { name := nm, ty := T_STRING, sval := some sv }) hck
    (by
      intro nm t0 l0 f0 h
      rw [hV.str]
      rcases h with rfl | rfl <;> exact ⟨_, rfl, rfl⟩)
    l f Generated.ERR_ARRAY_ELEM_TYPE
  exact ⟨ctx₂, h1, st', h2⟩

end

end Libconfig.C10Prov
