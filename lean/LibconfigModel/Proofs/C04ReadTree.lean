import LibconfigModel.Proofs.C04
import LibconfigModel.Proofs.C05
/-
  C04 (reads), tree part: how `Node.modify` composes, what an edit at one path does to the
  nodes at other paths (a frame lemma), retyping a childless node below a non-array parent, and
  the shape of the results of `Node.add` / `Node.setElem … (-1)`.
-/
namespace Libconfig.C04R
open Libconfig C04 C05P

/-! ### `modify` composes -/

theorem modify_nil (f : Node → Node) (n : Node) : n.modify f [] = f n := by
  simp [Node.modify]

theorem modify_append (f : Node → Node) (p r : Path) : ∀ n : Node,
    n.modify f (p ++ r) = n.modify (fun m => m.modify f r) p := by
  induction p with
  | nil => intro n; simp [modify_nil]
  | cons i p ih =>
    intro n
    rw [List.cons_append, modify_cons, modify_cons]
    cases n.kids[i]? with
    | none => rfl
    | some k => simp only [ih k]

theorem modify_modify (f g : Node → Node) (p : Path) : ∀ n : Node,
    (n.modify f p).modify g p = n.modify (fun m => g (f m)) p := by
  induction p with
  | nil => intro n; simp [modify_nil]
  | cons i p ih =>
    intro n
    rw [modify_cons f, modify_cons (fun m => g (f m))]
    cases hk : n.kids[i]? with
    | none => simp only; rw [modify_cons, hk]
    | some k =>
      simp only
      have hi : i < n.kids.length := (List.getElem?_eq_some_iff.mp hk).1
      rw [modify_cons]
      simp [hi, ih k]

/-- an edit at `p` followed by an edit at or below `p` is one edit at `p` -/
theorem modify_modify_append (f g : Node → Node) (p r : Path) (n : Node) :
    (n.modify f p).modify g (p ++ r) = n.modify (fun m => (f m).modify g r) p := by
  rw [modify_append, modify_modify]

theorem modify_congr (f g : Node → Node) (p : Path) : ∀ (root n : Node),
    root.get? p = some n → f n = g n → root.modify f p = root.modify g p := by
  induction p with
  | nil =>
    intro root n hn h
    rw [get?_nil] at hn; cases hn
    simpa [modify_nil] using h
  | cons i p ih =>
    intro root n hn h
    rw [get?_cons] at hn
    rw [modify_cons, modify_cons]
    cases hk : root.kids[i]? with
    | none => rfl
    | some k =>
      rw [hk] at hn
      simp only
      rw [ih k n hn h]

/-! ### `get?` after `modify` -/

theorem get?_modify_append (f : Node → Node) (p r : Path) (n : Node) :
    (n.modify f p).get? (p ++ r) = (n.get? p).bind (fun m => (f m).get? r) := by
  rw [get?_append, get?_modify_self]
  cases n.get? p <;> rfl

theorem get?_prefix_some {n : Node} {p r : Path} {m : Node} (h : n.get? (p ++ r) = some m) :
    ∃ m0, n.get? p = some m0 ∧ m0.get? r = some m := by
  rw [get?_append] at h
  cases hp : n.get? p with
  | none => rw [hp] at h; cases h
  | some m0 => rw [hp] at h; exact ⟨m0, rfl, h⟩

theorem get?_snoc {n : Node} {p : Path} {i : Nat} {m : Node} (h : n.get? (p ++ [i]) = some m) :
    ∃ m0, n.get? p = some m0 ∧ m0.kids[i]? = some m := by
  obtain ⟨m0, h1, h2⟩ := get?_prefix_some h
  refine ⟨m0, h1, ?_⟩
  rw [get?_cons] at h2
  cases hk : m0.kids[i]? with
  | none => rw [hk] at h2; cases h2
  | some k => rw [hk] at h2; simpa [get?_nil] using h2

theorem get?_snoc_of {n m0 m : Node} {p : Path} {i : Nat} (h1 : n.get? p = some m0)
    (h2 : m0.kids[i]? = some m) : n.get? (p ++ [i]) = some m := by
  rw [get?_append, h1, Option.bind_some, get?_cons, h2]
  rfl

/-- two paths: one is a prefix of the other, or they diverge -/
theorem prefix_cases (q p : Path) :
    q <+: p ∨ (∃ i r, q = p ++ i :: r) ∨ (¬ q <+: p ∧ ¬ p <+: q) := by
  by_cases h1 : q <+: p
  · exact Or.inl h1
  by_cases h2 : p <+: q
  · obtain ⟨r, rfl⟩ := h2
    cases r with
    | nil => exact absurd (by simp) h1
    | cons i r => exact Or.inr (Or.inl ⟨i, r, rfl⟩)
  · exact Or.inr (Or.inr ⟨h1, h2⟩)

/-- Frame lemma: an edit at `p` that keeps the children of the edited node in place (possibly
adding new ones behind them) keeps every node addressable; nodes not above `p` are unchanged and
nodes other than the one at `p` keep their type and name. -/
theorem frame (f : Node → Node) (p : Path) (root n : Node) (hn : root.get? p = some n)
    (hk : ∀ (j : Nat) (k : Node), n.kids[j]? = some k → (f n).kids[j]? = some k) (q : Path) (m : Node)
    (hm : root.get? q = some m) :
    ∃ m', (root.modify f p).get? q = some m' ∧ (¬ q <+: p → m' = m) ∧
      (q ≠ p → m'.ty = m.ty ∧ m'.name = m.name) ∧ (q = p → m' = f n) := by
  rcases prefix_cases q p with h | ⟨i, r, rfl⟩ | ⟨h1, h2⟩
  · obtain ⟨r, rfl⟩ := h
    cases r with
    | nil =>
      rw [List.append_nil] at hn ⊢
      rw [hn] at hm; cases hm
      refine ⟨f n, ?_, fun h => absurd (List.prefix_refl _) h, fun h => absurd rfl h, fun _ => rfl⟩
      rw [get?_modify_self, hn]; rfl
    | cons i r =>
      refine ⟨m.modify f (i :: r), ?_, fun h => absurd (List.prefix_append q (i :: r)) h, ?_, ?_⟩
      · rw [get?_modify_prefix, hm]; rfl
      · intro _
        have := modify_below f m i r
        exact ⟨this.2.1, this.1⟩
      · intro h
        have : (q ++ i :: r).length = q.length := by rw [← h]
        simp at this
  · refine ⟨m, ?_, fun _ => rfl, fun _ => ⟨rfl, rfl⟩, ?_⟩
    · rw [get?_modify_append, hn, Option.bind_some]
      rw [get?_append, hn, Option.bind_some, get?_cons] at hm
      rw [get?_cons]
      cases hki : n.kids[i]? with
      | none => rw [hki] at hm; cases hm
      | some k =>
        rw [hki] at hm
        rw [hk i k hki]
        exact hm
    · intro h
      have : (p ++ i :: r).length = p.length := by rw [h]
      simp at this
  · refine ⟨m, ?_, fun _ => rfl, fun _ => ⟨rfl, rfl⟩, ?_⟩
    · rw [get?_modify_disjoint f p q _ h2 h1, hm]
    · rintro rfl
      exact absurd (List.prefix_refl _) h1

/-! ### retyping a childless node -/

/-- replacing a child of a node that is not an array by one of the same name -/
theorem LocalWF.set_nonarray {n : Node} (h : n.LocalWF) {i : Nat} {k k' : Node}
    (hi : n.kids[i]? = some k) (hname : k'.name = k.name) (hna : n.ty ≠ T_ARRAY) :
    Node.LocalWF { n with kids := n.kids.set i k' } := by
  have hk : k ∈ n.kids := List.mem_of_getElem? hi
  have hmem : ∀ x ∈ n.kids.set i k', x = k' ∨ x ∈ n.kids := fun x hx =>
    (List.mem_or_eq_of_mem_set hx).symm
  obtain ⟨a, b, c, d, e, f, g, h'⟩ := h
  refine ⟨a, ?_, ?_, ?_, ?_, ?_, ?_, ?_⟩
  · intro hs
    have := b hs
    simp [this] at hk
  · intro ht x hx
    rcases hmem x hx with rfl | hx
    · rw [hname]; exact c ht k hk
    · exact c ht x hx
  · intro ht
    show ((n.kids.set i k').map (·.name)).Nodup
    rw [map_set_self _ _ _ _ _ hi hname]
    exact d ht
  · intro ht x hx
    rcases hmem x hx with rfl | hx
    · rw [hname]; exact e ht k hk
    · exact e ht x hx
  · intro ht; exact absurd ht hna
  · intro ht; exact absurd ht hna
  · intro ht; exact absurd ht hna

theorem WF.set_nonarray {n : Node} (h : n.WF) {i : Nat} {k k' : Node}
    (hi : n.kids[i]? = some k) (hname : k'.name = k.name) (hna : n.ty ≠ T_ARRAY) (hk' : k'.WF) :
    Node.WF { n with kids := n.kids.set i k' } := by
  rw [WF_iff] at h ⊢
  refine ⟨LocalWF.set_nonarray h.1 hi hname hna, ?_⟩
  intro x hx
  rcases List.mem_or_eq_of_mem_set hx with hx | rfl
  · exact h.2 x hx
  · exact hk'

/-- giving the childless node at `d ++ [j]`, whose parent is not an array, another type -/
theorem retype_at_wf (root dn n : Node) (d : Path) (j ty : Nat) (hw : root.WF)
    (hd : root.get? d = some dn) (hj : dn.kids[j]? = some n) (hna : dn.ty ≠ T_ARRAY)
    (hk : n.kids = []) (hty : ty ≤ 8) :
    (root.modify (fun n => { n with ty := ty }) (d ++ [j])).WF ∧
      Compat root (root.modify (fun n => { n with ty := ty }) (d ++ [j])) := by
  rw [modify_append]
  apply modify_wf _ d root dn hw hd
  · rw [modify_cons, hj]
    simp only [modify_nil]
    exact WF.set_nonarray (WF.get hw hd) hj rfl hna (WF.leaf hty hk)
  · have := modify_below (fun n => { n with ty := ty }) dn j []
    exact ⟨this.1, fun _ => this.2.1⟩

/-! ### shapes of `add` and of appending `setElem` -/

theorem add_shape {dtor ov : Bool} {pn pn' : Node} {name : Option Bytes} {ty : Int} {i : Nat}
    {log : List Nat} (h : pn.add dtor ov name ty = some (pn', i, log)) :
    ∃ ks nm, pn' = { pn with kids := ks ++ [{ name := nm, ty := ty.toNat }] } ∧ i = ks.length ∧
      (name = none → ks = pn.kids) ∧ (pn.ty = T_ARRAY → isScalarTy ty = true) := by
  rw [add_refines] at h
  unfold Spec.add at h
  split at h
  · cases h
  split at h
  · cases h
  split at h
  · rename_i hg
    have hg : pn.ty = T_GROUP := by simpa using hg
    have hna : pn.ty = T_ARRAY → isScalarTy ty = true := by
      intro ha; rw [hg] at ha; cases ha
    split at h
    · cases h
    rename_i nm
    split at h
    · cases h
    split at h
    · cases h
      exact ⟨pn.kids, some nm, rfl, rfl, nofun, hna⟩
    · split at h
      · cases h
      cases h
      exact ⟨_, some nm, rfl, rfl, nofun, hna⟩
  split at h
  · split at h
    · cases h
    rename_i hsc
    have hsc' : isScalarTy ty = true := by simpa using hsc
    split at h <;> split at h
    all_goals first
      | (cases h; done)
      | (cases h; exact ⟨pn.kids, none, rfl, rfl, fun _ => rfl, fun _ => hsc'⟩)
  · rename_i hna
    cases h
    exact ⟨pn.kids, none, rfl, rfl, fun _ => rfl, fun ha => absurd ha (by simpa using hna)⟩

theorem setElem_shape {setter : Node → Option Node} {ty : Nat} {n n' : Node} {i : Nat}
    (h : n.setElem setter ty (-1) = some (n', i)) :
    ∃ e, n' = { n with kids := n.kids ++ [e] } ∧ i = n.kids.length := by
  unfold Node.setElem at h
  split at h
  · cases h
  rw [if_pos (by decide)] at h
  split at h
  · cases h
  split at h
  · cases h
  rename_i n1 hcr
  have hn1 : n1 = { n with kids := n.kids ++ [{ name := none, ty := ty }] } := by
    unfold Node.create at hcr
    split at hcr
    · cases hcr
    · cases hcr; rfl
  subst hn1
  simp only at h
  split at h
  · cases h
  split at h
  · cases h
  rename_i e' _
  simp only [Option.some.injEq, Prod.mk.injEq] at h
  obtain ⟨rfl, rfl⟩ := h
  refine ⟨e', ?_, by simp⟩
  simp

end Libconfig.C04R
