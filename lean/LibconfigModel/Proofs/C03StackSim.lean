import LibconfigModel.Properties.C03Term
import LibconfigModel.Proofs.C03StackAbs
/-
  C03S, part 4: the loop of `Parser.lean` (`yystep` over the translated tables) drives the
  memory model.  Every iteration that continues is a `Push` — a shift, or a reduction that pops
  fewer entries than the stack holds (`C03_no_underflow`) — and the memory model, fed with
  these pushes, holds the list of `Parser.lean` at every configuration the loop reaches, until
  that list has `YYMAXDEPTH` entries: then the memory model has reported "memory exhausted",
  and so does the next iteration of the loop (`C03_stack_limit`).
-/
namespace Libconfig.C03SP

open Libconfig Libconfig.BisonStack Libconfig.C03P Libconfig.C03T

variable {V : Type}

/-- the pushes on the idealised stack, one after the other -/
def applyAll (ps : List (Push V)) (stack : List (Nat × V)) : List (Nat × V) :=
  ps.foldl (fun st p => p.apply st) stack

/-- The memory model, started by `init` and driven by the pushes `ps`, tracks the idealised
stack `stack`: it holds it while it has fewer than `YYMAXDEPTH` entries, and has ended with
"memory exhausted" when it has `YYMAXDEPTH` entries (or more). -/
def Tracks (P : Params) (ps : List (Push V)) (stack : List (Nat × V)) : Prop :=
  (stack.length < P.M → Abs (BisonStack.run P (ps.map Push.toEvent) (init P)) stack) ∧
  (P.M ≤ stack.length → (BisonStack.run P (ps.map Push.toEvent) (init P : BisonStack.State V)).status = Status.done .nomem)

theorem run_snoc (P : Params) (es : List (Event V)) (e : Event V) (s : BisonStack.State V) :
    BisonStack.run P (es ++ [e]) s = BisonStack.step P (BisonStack.run P es s) e := by
  unfold BisonStack.run
  rw [List.foldl_append]
  rfl

/-- one more push below the limit -/
theorem tracks_step (P : Params) (hP : P.OK) (ps : List (Push V)) (stack : List (Nat × V))
    (p : Push V) (ht : Tracks P ps stack) (hlt : stack.length < P.M) (hp : p.pops < stack.length) :
    Tracks P (ps ++ [p]) (p.apply stack) := by
  have ha := ht.1 hlt
  have hinv : Inv P (BisonStack.run P (ps.map Push.toEvent) (init P : BisonStack.State V)) :=
    run_inv P hP _ _ (init_inv P hP true)
  obtain ⟨b0, b1, b2, b3⟩ := push_abs P hP p _ stack hinv ha hp
  have hsz : (BisonStack.run P (ps.map Push.toEvent) (init P : BisonStack.State V)).stacksize ≤ P.M := by
    rw [hinv.size ha.1]; exact Nat.min_le_right _ _
  have hrun : BisonStack.run P ((ps ++ [p]).map Push.toEvent) (init P : BisonStack.State V) =
      BisonStack.step P (BisonStack.run P (ps.map Push.toEvent) (init P)) p.toEvent := by
    rw [List.map_append, List.map_singleton, run_snoc]
  unfold Tracks
  rw [hrun]
  constructor
  · intro hl
    rcases Nat.lt_or_ge (p.apply stack).length
      (BisonStack.run P (ps.map Push.toEvent) (init P : BisonStack.State V)).stacksize with h1 | h1
    · exact (b1 h1).1
    · exact (b2 (by omega) (by omega)).1
  · intro hl
    exact b3 (by omega) (by omega)

theorem parserParams_ok : parserParams.OK := ⟨by decide, by decide, rfl⟩

/-- at the start the memory holds the one-entry stack of `yyparse` in `Parser.lean` -/
theorem tracks_init : Tracks parserParams ([] : List (Push TokVal)) [(0, {})] := by
  constructor
  · intro _
    exact ((init_abs parserParams parserParams_ok true ({} : TokVal)).1 (by decide)).1
  · intro h
    have : parserParams.M ≤ 1 := h
    exact absurd this (by decide)

/-- an iteration of the loop that continues, from a configuration the loop reaches, is a push
that leaves the bottom entry in place -/
theorem yystep_push (w : World) (c : Config) (fuel : Nat) (s : ScanState) (ctx : ParseCtx)
    (X Y : PState) (h : Reach (theEnv w c fuel) (initial s ctx) X)
    (hs : yystep (theEnv w c fuel) X = .inr Y) :
    ∃ p : Push TokVal, p.pops < X.stack.length ∧ Y.stack = p.apply X.stack := by
  obtain ⟨hne, _, _, hcase⟩ := yystep_inr _ X Y hs
  rcases hcase with ⟨t, v, a, _, _, _, hst, _⟩ | ⟨rule, hr⟩
  · exact ⟨.shift a.toNat v, List.length_pos_iff.mpr hne, hst⟩
  · obtain ⟨hlt, _, p, v, rest, yyval, hd, hst⟩ :=
      Libconfig.C03.C03_no_underflow_step w c fuel s ctx X Y h rule hs hr
    refine ⟨.reduce (Generated.parser.r2.get rule).toNat (gotoTarget Generated.parser rule p) yyval,
      hlt, ?_⟩
    rw [hst]
    show _ = (_, yyval) :: X.stack.drop _
    rw [hd]

/-- **The parser drives the memory model.**  For every configuration `X` the loop of
`Parser.lean` reaches from the start of `yyparse` there is a list of pushes — the shifts and
reductions of the iterations so far — that builds `X.stack` on the idealised machine and makes
the memory model track it. -/
theorem reach_tracks (w : World) (c : Config) (fuel : Nat) (s : ScanState) (ctx : ParseCtx)
    (X : PState) (h : Reach (theEnv w c fuel) (initial s ctx) X) :
    ∃ ps : List (Push TokVal), applyAll ps [(0, {})] = X.stack ∧ Tracks parserParams ps X.stack := by
  induction h with
  | refl => exact ⟨[], rfl, tracks_init⟩
  | @step Y Z hY hs ih =>
    obtain ⟨ps, hps, ht⟩ := ih
    obtain ⟨p, hp, hst⟩ := yystep_push w c fuel s ctx Y Z hY hs
    have hlt : Y.stack.length < parserParams.M := (yystep_stack _ Y Z hs).1
    refine ⟨ps ++ [p], ?_, ?_⟩
    · unfold applyAll at hps ⊢
      rw [List.foldl_append, hps, hst]
      rfl
    · rw [hst]
      exact tracks_step parserParams parserParams_ok ps Y.stack p ht hlt hp

/-! ### an executable driver, for examples -/

/-- the push the iteration `X → Y` made: a shift if a lookahead was needed (`yypact` of the top
state is not the default marker) and is gone afterwards, otherwise a reduction, popping
`|X.stack| + 1 - |Y.stack|` entries -/
def pushOf (E : ParserEnv) (X Y : PState) : Push TokVal :=
  match Y.stack with
  | [] => .shift 0 {}
  | (st, v) :: _ =>
    if (E.P.pact.get (topState X.stack) != E.P.pactNinf) && Y.la.isNone then .shift st v
    else .reduce (X.stack.length + 1 - Y.stack.length) st v

/-- `k` iterations of the loop from `X`: the pushes made and the configuration reached (`none`
if the loop ends earlier) -/
def pushesRun (E : ParserEnv) : Nat → PState → Option (List (Push TokVal) × PState)
  | 0, X => some ([], X)
  | k + 1, X =>
    match yystep E X with
    | .inr Y => (pushesRun E k Y).map (fun r => (pushOf E X Y :: r.1, r.2))
    | .inl _ => none

theorem pushesRun_reach (E : ParserEnv) : ∀ (k : Nat) (X Y : PState) (ps : List (Push TokVal)),
    pushesRun E k X = some (ps, Y) → Reach E X Y := by
  intro k
  induction k with
  | zero =>
    intro X Y ps h
    cases h
    exact .refl
  | succ k ih =>
    intro X Y ps h
    rw [pushesRun] at h
    generalize hs : yystep E X = o at h
    cases o with
    | inl r => cases h
    | inr Z =>
      simp only at h
      cases hr : pushesRun E k Z with
      | none => rw [hr] at h; cases h
      | some r =>
        rw [hr] at h
        cases h
        exact Reach.trans (.step .refl hs) (ih Z _ _ (by rw [hr]))

end Libconfig.C03SP
