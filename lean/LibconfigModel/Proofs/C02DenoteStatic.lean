import LibconfigModel.Denote
import LibconfigModel.Proofs.C02DenoteStep
import LibconfigModel.Proofs.C02DenoteSpec
/-
  C02D, static part: the facts about the compiled LALR tables that the simulation needs beyond
  those of Proofs/C01ParseStatic.lean (trailing commas, `,` as a setting terminator, adjacent
  strings, what every state does on a token it does not expect), and the kind (`YYTRANSLATE`) of
  the token behind each item of the reference interpreter.  Closed statements about
  `Generated.parser`, evaluated by the kernel.
-/
namespace Libconfig.C02D
open Libconfig C02P C05P C02C C01PP Denote

/-! ### more shifts, reductions, rules -/

theorem sh_21_comma : actAt P 21 17 = some 28 := by decide +kernel
theorem sh_22_string : actAt P 22 9 = some 31 := by decide +kernel

theorem red_28 : ∀ k < 23, redOK P 28 k 10 = true := by decide +kernel
theorem red_31 : ∀ k < 23, redOK P 31 k 22 = true := by decide +kernel

/-- a kind that starts a scalar -/
def scalStart (k : Nat) : Bool := Nat.ble 3 k && Nat.ble k 9
/-- a kind that starts a value -/
def valStart (k : Nat) : Bool := scalStart k || Nat.beq k 13 || Nat.beq k 15 || Nat.beq k 18

/-- what the states that expect something do on a kind they do not shift: reduce by default -/
theorem red_0 : ∀ k < 23, k ≠ 10 → redOK P 0 k 2 = true := by decide +kernel
theorem red_3 : ∀ k < 23, k ≠ 10 → redOK P 3 k 3 = true := by decide +kernel
theorem red_27 : ∀ k < 23, k ≠ 10 → redOK P 27 k 6 = true := by decide +kernel
theorem red_38 : ∀ k < 23, k ≠ 10 → redOK P 38 k 7 = true := by decide +kernel
theorem red_25 : ∀ k < 23, scalStart k = false → redOK P 25 k 38 = true := by decide +kernel
theorem red_33 : ∀ k < 23, k ≠ 17 → redOK P 33 k 39 = true := by decide +kernel
theorem red_40 : ∀ k < 23, scalStart k = false → redOK P 40 k 37 = true := by decide +kernel
theorem red_26 : ∀ k < 23, valStart k = false → redOK P 26 k 33 = true := by decide +kernel
theorem red_36 : ∀ k < 23, k ≠ 17 → redOK P 36 k 34 = true := by decide +kernel
theorem red_42 : ∀ k < 23, valStart k = false → redOK P 42 k 32 = true := by decide +kernel

/-- … or report a syntax error -/
theorem err_2 : ∀ k < 23, k ≠ 0 → errOK P 2 k = true := by decide +kernel
theorem err_5 : ∀ k < 23, k ≠ 11 → errOK P 5 k = true := by decide +kernel
theorem err_8 : ∀ k < 23, valStart k = false → errOK P 8 k = true := by decide +kernel
theorem err_34 : ∀ k < 23, k ≠ 14 → errOK P 34 k = true := by decide +kernel
theorem err_37 : ∀ k < 23, k ≠ 16 → errOK P 37 k = true := by decide +kernel
theorem err_39 : ∀ k < 23, k ≠ 19 → errOK P 39 k = true := by decide +kernel

theorem rule_10 : RuleIs 10 27 1 .none := by decide +kernel
theorem rule_22 : RuleIs 22 35 2 .stringNext := by decide +kernel
theorem rule_32 : RuleIs 32 37 2 .none := by decide +kernel
theorem rule_37 : RuleIs 37 39 2 .none := by decide +kernel

/-! ### items and kinds -/

/-- the kinds of the tokens that are no item of the language: `error`, `$undefined`, TOK_NEWLINE,
TOK_GARBAGE, TOK_ERROR -/
def isJunk (k : Nat) : Bool :=
  Nat.beq k 1 || Nat.beq k 2 || Nat.beq k 12 || Nat.beq k 21 || Nat.beq k 22

/-- `k` is the kind of a token that stands for the item -/
def KindRel : Denote.Item → Nat → Prop
  | .boolean _, k => k = 3
  | .integer _, k => k = 4
  | .hex _, k => k = 5
  | .integer64 _, k => k = 6
  | .hex64 _, k => k = 7
  | .float _, k => k = 8
  | .string _, k => k = 9
  | .name _, k => k = 10
  | .assign, k => k = 11
  | .arrayStart, k => k = 13
  | .arrayEnd, k => k = 14
  | .listStart, k => k = 15
  | .listEnd, k => k = 16
  | .comma, k => k = 17
  | .groupStart, k => k = 18
  | .groupEnd, k => k = 19
  | .semicolon, k => k = 20
  | .other, k => isJunk k = true

/-- the semantic value of a token that stands for the item -/
def ValRel : Denote.Item → TokVal → Prop
  | .boolean i, v => v.ival = i
  | .integer i, v => v.ival = i
  | .hex i, v => v.ival = i
  | .integer64 i, v => v.ival = i
  | .hex64 i, v => v.ival = i
  | .float b, v => v.fval = b
  | .string s, v => v.sval = s
  | .name s, v => v.sval = s
  | _, _ => True

/-- every token number up to `YYMAXUTOK` other than 0 and the seventeen of the language
translates to a junk kind -/
def junkCheck : Bool :=
  allBelow 278 fun t =>
    Nat.beq t 0 || (Nat.ble 258 t && Nat.ble t 266) || (Nat.ble 268 t && Nat.ble t 275) ||
      isJunk (translateTok P t)

theorem junkCheck_ok : junkCheck = true := by decide +kernel

theorem maxutok_eq : P.maxutok = 277 := by decide +kernel

theorem itemOf_eq (t : Nat) (v : TokVal) :
    itemOf (t, v) =
      if t = Generated.tokens.boolean then .boolean v.ival
      else if t = Generated.tokens.integer then .integer v.ival
      else if t = Generated.tokens.integer64 then .integer64 v.ival
      else if t = Generated.tokens.hex then .hex v.ival
      else if t = Generated.tokens.hex64 then .hex64 v.ival
      else if t = Generated.tokens.float then .float v.fval
      else if t = Generated.tokens.string then .string v.sval
      else if t = Generated.tokens.name then .name v.sval
      else if t = Generated.tokens.equals then .assign
      else if t = Generated.tokens.arrayStart then .arrayStart
      else if t = Generated.tokens.arrayEnd then .arrayEnd
      else if t = Generated.tokens.listStart then .listStart
      else if t = Generated.tokens.listEnd then .listEnd
      else if t = Generated.tokens.groupStart then .groupStart
      else if t = Generated.tokens.groupEnd then .groupEnd
      else if t = Generated.tokens.comma then .comma
      else if t = Generated.tokens.semicolon then .semicolon
      else .other := rfl

theorem kindRel_itemOf (t : Nat) (v : TokVal) (h0 : t ≠ 0) :
    KindRel (itemOf (t, v)) (translateTok P t) := by
  rw [itemOf_eq]
  by_cases h1 : t = Generated.tokens.boolean
  · rw [if_pos h1, h1]; exact kind_boolean
  rw [if_neg h1]
  by_cases h2 : t = Generated.tokens.integer
  · rw [if_pos h2, h2]; exact kind_integer
  rw [if_neg h2]
  by_cases h3 : t = Generated.tokens.integer64
  · rw [if_pos h3, h3]; exact kind_integer64
  rw [if_neg h3]
  by_cases h4 : t = Generated.tokens.hex
  · rw [if_pos h4, h4]; exact kind_hex
  rw [if_neg h4]
  by_cases h5 : t = Generated.tokens.hex64
  · rw [if_pos h5, h5]; exact kind_hex64
  rw [if_neg h5]
  by_cases h6 : t = Generated.tokens.float
  · rw [if_pos h6, h6]; exact kind_float
  rw [if_neg h6]
  by_cases h7 : t = Generated.tokens.string
  · rw [if_pos h7, h7]; exact kind_string
  rw [if_neg h7]
  by_cases h8 : t = Generated.tokens.name
  · rw [if_pos h8, h8]; exact kind_name
  rw [if_neg h8]
  by_cases h9 : t = Generated.tokens.equals
  · rw [if_pos h9, h9]; exact kind_equals
  rw [if_neg h9]
  by_cases h10 : t = Generated.tokens.arrayStart
  · rw [if_pos h10, h10]; exact kind_arrayStart
  rw [if_neg h10]
  by_cases h11 : t = Generated.tokens.arrayEnd
  · rw [if_pos h11, h11]; exact kind_arrayEnd
  rw [if_neg h11]
  by_cases h12 : t = Generated.tokens.listStart
  · rw [if_pos h12, h12]; exact kind_listStart
  rw [if_neg h12]
  by_cases h13 : t = Generated.tokens.listEnd
  · rw [if_pos h13, h13]; exact kind_listEnd
  rw [if_neg h13]
  by_cases h14 : t = Generated.tokens.groupStart
  · rw [if_pos h14, h14]; exact kind_groupStart
  rw [if_neg h14]
  by_cases h15 : t = Generated.tokens.groupEnd
  · rw [if_pos h15, h15]; exact kind_groupEnd
  rw [if_neg h15]
  by_cases h16 : t = Generated.tokens.comma
  · rw [if_pos h16, h16]; exact kind_comma
  rw [if_neg h16]
  by_cases h17 : t = Generated.tokens.semicolon
  · rw [if_pos h17, h17]; exact kind_semicolon
  rw [if_neg h17]
  show isJunk (translateTok P t) = true
  by_cases hle : t ≤ 277
  · have := allBelow_spec junkCheck_ok t (by omega)
    simp only [Bool.or_eq_true, Bool.and_eq_true] at this
    rcases this with ((h | h) | h) | h
    · exact absurd (Nat.eq_of_beq_eq_true h) h0
    · have a := Nat.le_of_ble_eq_true h.1
      have b := Nat.le_of_ble_eq_true h.2
      simp only [Generated.tokens] at h1 h2 h3 h4 h5 h6 h7 h8 h9
      omega
    · have a := Nat.le_of_ble_eq_true h.1
      have b := Nat.le_of_ble_eq_true h.2
      simp only [Generated.tokens] at h10 h11 h12 h13 h14 h15 h16 h17
      omega
    · exact h
  · unfold translateTok
    rw [if_neg (by simpa using h0), maxutok_eq, if_neg hle]
    rfl

theorem valRel_itemOf (t : Nat) (v : TokVal) : ValRel (itemOf (t, v)) v := by
  rw [itemOf_eq]
  by_cases h1 : t = Generated.tokens.boolean
  · rw [if_pos h1]; first | rfl | trivial
  rw [if_neg h1]
  by_cases h2 : t = Generated.tokens.integer
  · rw [if_pos h2]; first | rfl | trivial
  rw [if_neg h2]
  by_cases h3 : t = Generated.tokens.integer64
  · rw [if_pos h3]; first | rfl | trivial
  rw [if_neg h3]
  by_cases h4 : t = Generated.tokens.hex
  · rw [if_pos h4]; first | rfl | trivial
  rw [if_neg h4]
  by_cases h5 : t = Generated.tokens.hex64
  · rw [if_pos h5]; first | rfl | trivial
  rw [if_neg h5]
  by_cases h6 : t = Generated.tokens.float
  · rw [if_pos h6]; first | rfl | trivial
  rw [if_neg h6]
  by_cases h7 : t = Generated.tokens.string
  · rw [if_pos h7]; first | rfl | trivial
  rw [if_neg h7]
  by_cases h8 : t = Generated.tokens.name
  · rw [if_pos h8]; first | rfl | trivial
  rw [if_neg h8]
  by_cases h9 : t = Generated.tokens.equals
  · rw [if_pos h9]; first | rfl | trivial
  rw [if_neg h9]
  by_cases h10 : t = Generated.tokens.arrayStart
  · rw [if_pos h10]; first | rfl | trivial
  rw [if_neg h10]
  by_cases h11 : t = Generated.tokens.arrayEnd
  · rw [if_pos h11]; first | rfl | trivial
  rw [if_neg h11]
  by_cases h12 : t = Generated.tokens.listStart
  · rw [if_pos h12]; first | rfl | trivial
  rw [if_neg h12]
  by_cases h13 : t = Generated.tokens.listEnd
  · rw [if_pos h13]; first | rfl | trivial
  rw [if_neg h13]
  by_cases h14 : t = Generated.tokens.groupStart
  · rw [if_pos h14]; first | rfl | trivial
  rw [if_neg h14]
  by_cases h15 : t = Generated.tokens.groupEnd
  · rw [if_pos h15]; first | rfl | trivial
  rw [if_neg h15]
  by_cases h16 : t = Generated.tokens.comma
  · rw [if_pos h16]; first | rfl | trivial
  rw [if_neg h16]
  by_cases h17 : t = Generated.tokens.semicolon
  · rw [if_pos h17]; first | rfl | trivial
  rw [if_neg h17]
  trivial

/-- an item that is a NAME comes from a NAME token -/
theorem itemOf_name {t : Nat} {v : TokVal} {s : Bytes} (h : itemOf (t, v) = .name s) :
    t = Generated.tokens.name ∧ v.sval = s := by
  rw [itemOf_eq] at h
  by_cases h1 : t = Generated.tokens.boolean
  · rw [if_pos h1] at h; cases h
  rw [if_neg h1] at h
  by_cases h2 : t = Generated.tokens.integer
  · rw [if_pos h2] at h; cases h
  rw [if_neg h2] at h
  by_cases h3 : t = Generated.tokens.integer64
  · rw [if_pos h3] at h; cases h
  rw [if_neg h3] at h
  by_cases h4 : t = Generated.tokens.hex
  · rw [if_pos h4] at h; cases h
  rw [if_neg h4] at h
  by_cases h5 : t = Generated.tokens.hex64
  · rw [if_pos h5] at h; cases h
  rw [if_neg h5] at h
  by_cases h6 : t = Generated.tokens.float
  · rw [if_pos h6] at h; cases h
  rw [if_neg h6] at h
  by_cases h7 : t = Generated.tokens.string
  · rw [if_pos h7] at h; cases h
  rw [if_neg h7] at h
  by_cases h8 : t = Generated.tokens.name
  · rw [if_pos h8] at h
    injection h with h
    exact ⟨h8, h⟩
  rw [if_neg h8] at h
  by_cases h9 : t = Generated.tokens.equals
  · rw [if_pos h9] at h; cases h
  rw [if_neg h9] at h
  by_cases h10 : t = Generated.tokens.arrayStart
  · rw [if_pos h10] at h; cases h
  rw [if_neg h10] at h
  by_cases h11 : t = Generated.tokens.arrayEnd
  · rw [if_pos h11] at h; cases h
  rw [if_neg h11] at h
  by_cases h12 : t = Generated.tokens.listStart
  · rw [if_pos h12] at h; cases h
  rw [if_neg h12] at h
  by_cases h13 : t = Generated.tokens.listEnd
  · rw [if_pos h13] at h; cases h
  rw [if_neg h13] at h
  by_cases h14 : t = Generated.tokens.groupStart
  · rw [if_pos h14] at h; cases h
  rw [if_neg h14] at h
  by_cases h15 : t = Generated.tokens.groupEnd
  · rw [if_pos h15] at h; cases h
  rw [if_neg h15] at h
  by_cases h16 : t = Generated.tokens.comma
  · rw [if_pos h16] at h; cases h
  rw [if_neg h16] at h
  by_cases h17 : t = Generated.tokens.semicolon
  · rw [if_pos h17] at h; cases h
  rw [if_neg h17] at h
  cases h

/-! ### kinds up to junk -/

/-- the kinds of the tokens that are no items of the language are all treated alike -/
def normK (k : Nat) : Nat := if isJunk k = true then 2 else k

theorem kindRel_norm {it : Denote.Item} {k : Nat} (h : KindRel it k) :
    normK k = hk (it :: []) := by
  cases it
  case other =>
    have h' : isJunk k = true := h
    unfold normK
    rw [if_pos h']
    rfl
  all_goals
    have h' : k = _ := h
    subst h'
    rfl

theorem hk_cons (it : Denote.Item) (l l' : List Denote.Item) : hk (it :: l) = hk (it :: l') := by
  cases it <;> rfl

theorem valStart_norm : ∀ k < 23, valStart (normK k) = valStart k := by decide
theorem scalStart_norm : ∀ k < 23, scalStart (normK k) = scalStart k := by decide
theorem normK_eq : ∀ k < 23, ∀ c < 23, isJunk c = false → normK k = c → k = c := by decide
theorem scalStart_iff (k : Nat) : scalStart k = true ↔ (3 ≤ k ∧ k ≤ 9) := by
  unfold scalStart
  rw [Bool.and_eq_true]
  constructor
  · intro h; exact ⟨Nat.le_of_ble_eq_true h.1, Nat.le_of_ble_eq_true h.2⟩
  · intro h; exact ⟨Nat.ble_eq_true_of_le h.1, Nat.ble_eq_true_of_le h.2⟩

end Libconfig.C02D
