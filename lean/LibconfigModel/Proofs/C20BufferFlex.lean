import LibconfigModel.Proofs.C20BufferRun
import LibconfigModel.Properties.C20
/-
  C20B helpers, part 4 (B4): the table-driven matcher of `Flex.lean` plugged into the
  buffer model.  `lexBuf` is the matching part of one iteration of `yylex` run on the
  buffer: scan the window from `yytext_ptr`; if the automaton jams, that is the match; if
  it reaches the sentinel, do the end-of-buffer action and, depending on its result, go on
  scanning, take the last match, or report end of file.  `lexBuf_spec`: the result is
  `Flex.next` on the idealised text `pending s`, and the new state's idealised text is the
  old one without the token — which is how `Scanner.yylex` advances its `rest`.
-/
namespace Libconfig.C20BP

open Libconfig Libconfig.FlexBuffer Libconfig.Flex Libconfig.C20

/-- result of the matching part of one `yylex` iteration -/
inductive LexRes where
  /-- `EOB_ACT_END_OF_FILE`: the `<<EOF>>` action runs -/
  | eof
  /-- `yy_find_action`: the rule and `yyleng` (`none`: "no action found") -/
  | rule (r : Option (Nat × Nat))
  /-- the list of read sizes given to `lexBuf` is used up (not a behaviour of the scanner) -/
  | starved
deriving Repr, DecidableEq

/-- `YY_DO_BEFORE_ACTION`, the action, and the start of the next iteration -/
def applyRule : Option (Nat × Nat) → State → State
  | some (_, len), s => tokStep len s
  | none, s => s

/-- The matching loop on the buffer.  `oracle` lists how many bytes the stream offers to the
successive reads.  After `EOB_ACT_CONTINUE_SCAN` flex recomputes the automaton state over the
moved text (`yy_get_previous_state`) and goes on; rescanning the window from its start is the
same computation. -/
def lexBuf (T : FlexTables) (sc : Nat) (bol : Bool) (P : Params) : List Nat → State → State × LexRes
  | oracle, s =>
    match scanPartial T (startState sc bol) (window s) 0 none with
    | .done r => (applyRule r s, .rule r)                   -- the automaton jammed inside the window
    | .more _ _ _ =>                                         -- it reached `yy_ch_buf[yy_n_chars]`
      match oracle with
      | [] => (s, .starved)
      | k :: ks =>
        let r := eobStep P k s
        match r.2 with
        | .continueScan => lexBuf T sc bol P ks r.1
        | .lastMatch =>
          -- yy_c_buf_p = &yy_ch_buf[yy_n_chars]; yy_get_previous_state(); goto yy_find_action
          let m := finish T (scanPartial T (startState sc bol) (window r.1) 0 none)
          (applyRule m r.1, .rule m)
        | .endOfFile => (r.1, .eof)
        | .fatal => (r.1, .starved)

/-! ### the match never extends beyond what was scanned -/

def BoundedBy (m : Nat) (o : Option (Nat × Nat)) : Prop := ∀ r n, o = some (r, n) → n ≤ m

/-- a suspended or completed match that lies within the first `m` bytes -/
inductive PartialBounded (m : Nat) : Partial → Prop
  | done {r : Option (Nat × Nat)} : BoundedBy m r → PartialBounded m (.done r)
  | more {st p : Nat} {l : Option (Nat × Nat)} : p ≤ m → BoundedBy m l → PartialBounded m (.more st p l)

theorem boundedBy_some (m a n : Nat) (h : n ≤ m) : BoundedBy m (some (a, n)) := by
  intro r n' hh
  simp only [Option.some.injEq, Prod.mk.injEq] at hh
  omega

theorem scanPartial_bounded (T : FlexTables) (m : Nat) :
    ∀ (inp : Bytes) (s pos : Nat) (last : Option (Nat × Nat)),
      BoundedBy m last → pos + inp.length ≤ m → PartialBounded m (scanPartial T s inp pos last) := by
  intro inp
  induction inp with
  | nil =>
    intro s pos last hl hp
    simp only [List.length_nil, Nat.add_zero] at hp
    exact .more hp hl
  | cons c cs ih =>
    intro s pos last hl hp
    simp only [List.length_cons] at hp
    have hl' : BoundedBy m (if (T.accept.getN s != 0) = true then some (T.accept.getN s, pos) else last) := by
      by_cases hc : (T.accept.getN s != 0) = true
      · rw [if_pos hc]; exact boundedBy_some m _ pos (by omega)
      · rw [if_neg hc]; exact hl
    rcases Bool.eq_false_or_eq_true (Flex.step T s c == T.jamState) with hj | hj
    · have e : scanPartial T s (c :: cs) pos last = .done
          (if (T.accept.getN s != 0) = true then some (T.accept.getN s, pos) else last) := by
        simp only [scanPartial, hj, if_true]
      rw [e]; exact .done hl'
    · have e : scanPartial T s (c :: cs) pos last = scanPartial T (Flex.step T s c) cs (pos + 1)
          (if (T.accept.getN s != 0) = true then some (T.accept.getN s, pos) else last) := by
        simp only [scanPartial, hj, Bool.false_eq_true, if_false]
      rw [e]; exact ih _ (pos + 1) _ hl' (by omega)

theorem finish_bounded (T : FlexTables) (m : Nat) (p : Partial) (h : PartialBounded m p) :
    BoundedBy m (finish T p) := by
  cases h with
  | done hr => exact hr
  | @more s pos l hp hl =>
    simp only [finish]
    by_cases hc : (T.accept.getN s != 0) = true
    · rw [if_pos hc]; exact boundedBy_some m _ pos hp
    · rw [if_neg hc]; exact hl

/-- the match on a window, completed or not, ends inside the window -/
theorem scanWindow_bounded (T : FlexTables) (st : Nat) (w : Bytes) :
    (∀ r, scanPartial T st w 0 none = .done r → BoundedBy w.length r) ∧
    BoundedBy w.length (finish T (scanPartial T st w 0 none)) := by
  have h := scanPartial_bounded T w.length w st 0 none (by intro r n h; simp at h) (by omega)
  constructor
  · intro r hr
    rw [hr] at h
    cases h with
    | done hb => exact hb
  · exact finish_bounded T _ _ h

/-! ### the specification -/

theorem tokStep_rest (l : Nat) (s : State) : (tokStep l s).rest = s.rest := by
  unfold tokStep
  split <;> rfl

theorem applyRule_rest (m : Option (Nat × Nat)) (s : State) : (applyRule m s).rest = s.rest := by
  cases m with
  | none => rfl
  | some rl => exact tokStep_rest rl.2 s

/-- what a match does to the idealised text: `some (rule, len)` hands the first `len` bytes to
the action and removes them; `none` changes nothing -/
def Consumed (m : Option (Nat × Nat)) (s s' : State) : Prop :=
  (∀ r len, m = some (r, len) →
    s'.tokens = s.tokens ++ [(pending s).take len] ∧ pending s' = (pending s).drop len) ∧
  (m = none → s'.tokens = s.tokens ∧ pending s' = pending s)

/-- what `applyRule` does to a state whose window is at least as long as the match -/
theorem applyRule_spec (P : Params) (m : Option (Nat × Nat)) (s : State) (h : Inv P s) (he : EofOK s)
    (hb : BoundedBy (window s).length m) :
    Inv P (applyRule m s) ∧ EofOK (applyRule m s) ∧ Consumed m s (applyRule m s) := by
  cases m with
  | none => exact ⟨h, he, fun _ _ hc => by simp at hc, fun _ => ⟨rfl, rfl⟩⟩
  | some rl =>
    obtain ⟨r, len⟩ := rl
    have hlen : len ≤ s.nChars - s.textPtr := by
      rw [← length_window P s h]; exact hb r len rfl
    have hv : s.textPtr + len ≤ s.nChars := by
      have := h.text; have := h.cur; omega
    obtain ⟨t, h1, h2, h3⟩ := tokStep_pending P len s h hv
    refine ⟨tokStep_inv P len s h, tokStep_eofOK P len s h he, ?_, fun hc => by simp at hc⟩
    intro r' len' hm
    simp only [Option.some.injEq, Prod.mk.injEq] at hm
    obtain ⟨_, rfl⟩ := hm
    constructor
    · show (tokStep len s).tokens = _
      rw [h1, h3, ← h2, List.take_left]
    · show pending (tokStep len s) = _
      rw [h3, ← h2, List.drop_left]

/-- what the idealised matcher says about a text whose prefix `w` was scanned -/
theorem next_of_done (T : FlexTables) (sc : Nat) (bol : Bool) (w rest : Bytes) (r : Option (Nat × Nat))
    (h : scanPartial T (startState sc bol) w 0 none = .done r) : next T sc bol (w ++ rest) = r := by
  unfold next
  rw [scan_eq_finish, scanPartial_append, h]
  rfl

theorem next_of_all (T : FlexTables) (sc : Nat) (bol : Bool) (w : Bytes) :
    next T sc bol w = finish T (scanPartial T (startState sc bol) w 0 none) := by
  unfold next
  rw [scan_eq_finish]

/-- what `lexBuf` returns and leaves, in terms of the idealised text -/
structure LexSpec (T : FlexTables) (sc : Nat) (bol : Bool) (P : Params) (s : State)
    (out : State × LexRes) : Prop where
  inv : Inv P out.1
  eofOK : EofOK out.1
  /-- nothing is pushed back into the stream -/
  rest : out.1.rest.length ≤ s.rest.length
  /-- the list of read sizes was long enough -/
  fed : out.2 ≠ .starved
  /-- end of file exactly when nothing is left -/
  eof : pending s = [] → out.2 = .eof ∧ out.1.tokens = s.tokens ∧ pending out.1 = []
  /-- otherwise the rule and length that `Flex.next` computes on the idealised text; the
  token handed to the action is that prefix, and it is removed -/
  rule : pending s ≠ [] → out.2 = .rule (next T sc bol (pending s)) ∧
    Consumed (next T sc bol (pending s)) s out.1

theorem lexBuf_spec (T : FlexTables) (sc : Nat) (bol : Bool) (P : Params) (hP : P.OK) :
    ∀ (oracle : List Nat) (s : State), Inv P s → EofOK s → (∀ k ∈ oracle, 1 ≤ k) →
      s.rest.length + 1 ≤ oracle.length → LexSpec T sc bol P s (lexBuf T sc bol P oracle s) := by
  intro oracle
  induction oracle with
  | nil => intro s _ _ _ hl; simp at hl
  | cons k ks ih =>
    intro s h he hk hl
    have hk1 : 1 ≤ k := hk k (by simp)
    have hbd := scanWindow_bounded T (startState sc bol) (window s)
    unfold lexBuf
    cases hsp : scanPartial T (startState sc bol) (window s) 0 none with
    | done r =>
      -- the automaton jammed inside the window
      simp only
      have hwne : window s ≠ [] := by
        intro hw
        rw [hw] at hsp
        simp [scanPartial] at hsp
      have hpne : pending s ≠ [] := by
        unfold pending
        intro hc
        exact hwne (List.append_eq_nil_iff.mp hc).1
      have hnext : next T sc bol (pending s) = r := next_of_done T sc bol _ _ r hsp
      obtain ⟨a1, a2, a3⟩ := applyRule_spec P r s h he (hbd.1 r hsp)
      exact {
        inv := a1, eofOK := a2
        rest := by rw [applyRule_rest]; exact Nat.le_refl _
        fed := by simp
        eof := fun h0 => absurd h0 hpne
        rule := fun _ => by rw [hnext]; exact ⟨rfl, a3⟩ }
    | more st pos last =>
      simp only
      obtain ⟨data, H⟩ := eobStep_progress P hP k s h
      have hinv' := eobStep_inv P hP k s h
      have heof' := eobStep_eofOK P hP k hk1 s h he
      obtain ⟨hpend, htoks⟩ := eobStep_pending P hP k s h
      generalize eobStep P k s = r at H hinv' heof' hpend htoks
      have hrl : r.1.rest.length ≤ s.rest.length := by
        rw [H.stream, List.length_append]; omega
      rcases H.result with ⟨hr, hd⟩ | ⟨hr, hd, hw, _⟩ | ⟨hr, hd, hw, _⟩
      · -- EOB_ACT_CONTINUE_SCAN
        rw [hr]
        simp only
        have hlen : r.1.rest.length + 1 ≤ ks.length := by
          have h1 : s.rest.length = data.length + r.1.rest.length := by
            rw [H.stream, List.length_append]
          have h2 : 0 < data.length := List.length_pos_iff.mpr hd
          simp only [List.length_cons] at hl
          omega
        have I := ih r.1 hinv' heof' (fun k' hk' => hk k' (by simp [hk'])) hlen
        exact {
          inv := I.inv, eofOK := I.eofOK
          rest := Nat.le_trans I.rest hrl
          fed := I.fed
          eof := fun h0 => by
            have := I.eof (by rw [hpend]; exact h0)
            rw [htoks] at this
            exact this
          rule := fun h0 => by
            have := I.rule (by rw [hpend]; exact h0)
            unfold Consumed at this ⊢
            rw [hpend, htoks] at this
            exact this }
      · -- EOB_ACT_LAST_MATCH
        rw [hr]
        simp only
        have hrest : s.rest = [] := by
          rcases H.dry (by rw [hr]; decide) with h1 | h1 | h1
          · exact he h1
          · omega
          · exact h1
        have hwin : window r.1 = window s := by rw [H.window, hd, List.append_nil]
        have hps : pending s = window s := by unfold pending; rw [hrest, List.append_nil]
        have hpne : pending s ≠ [] := by rw [hps]; exact hw
        have hnext : next T sc bol (pending s) =
            finish T (scanPartial T (startState sc bol) (window r.1) 0 none) := by
          rw [hps, hwin]; exact next_of_all T sc bol _
        have hb := (scanWindow_bounded T (startState sc bol) (window r.1)).2
        obtain ⟨a1, a2, a3⟩ := applyRule_spec P _ r.1 hinv' heof' hb
        unfold Consumed at a3
        rw [hpend, htoks, ← hnext] at a3
        exact {
          inv := a1, eofOK := a2
          rest := by rw [applyRule_rest]; exact hrl
          fed := by simp
          eof := fun h0 => absurd h0 hpne
          rule := fun _ => by
            rw [← hnext]
            exact ⟨rfl, a3⟩ }
      · -- EOB_ACT_END_OF_FILE
        rw [hr]
        simp only
        have hrest : s.rest = [] := by
          rcases H.dry (by rw [hr]; decide) with h1 | h1 | h1
          · exact he h1
          · omega
          · exact h1
        have hp0 : pending s = [] := by unfold pending; rw [hw, hrest]; rfl
        exact {
          inv := hinv', eofOK := heof'
          rest := hrl
          fed := by simp
          eof := fun _ => ⟨rfl, htoks, by rw [hpend]; exact hp0⟩
          rule := fun h0 => absurd hp0 h0 }


/-! ### several calls -/

/-- several calls of the matching loop on the buffer, each with its start condition, its
beginning-of-line flag and the read sizes offered during it -/
def lexMany (T : FlexTables) (P : Params) : List (Nat × Bool × List Nat) → State → State × List LexRes
  | [], s => (s, [])
  | (sc, bol, oracle) :: cs, s =>
    let r := lexBuf T sc bol P oracle s
    let q := lexMany T P cs r.1
    (q.1, r.2 :: q.2)

/-- one call on the idealised text: what `Scanner.yylex` does with `Flex.next` -/
def nextIdeal (T : FlexTables) (sc : Nat) (bol : Bool) (inp : Bytes) : Bytes × LexRes :=
  if inp = [] then (inp, .eof)
  else match next T sc bol inp with
    | some (r, len) => (inp.drop len, .rule (some (r, len)))
    | none => (inp, .rule none)

/-- the same calls on the idealised text -/
def nextMany (T : FlexTables) : List (Nat × Bool × List Nat) → Bytes → Bytes × List LexRes
  | [], inp => (inp, [])
  | (sc, bol, _) :: cs, inp =>
    let r := nextIdeal T sc bol inp
    let q := nextMany T cs r.1
    (q.1, r.2 :: q.2)

theorem lexBuf_ideal (T : FlexTables) (sc : Nat) (bol : Bool) (P : Params) (s : State)
    (out : State × LexRes) (L : LexSpec T sc bol P s out) :
    (pending out.1, out.2) = nextIdeal T sc bol (pending s) := by
  unfold nextIdeal
  by_cases h0 : pending s = []
  · obtain ⟨h1, _, h3⟩ := L.eof h0
    rw [if_pos h0, h1, h3, h0]
  · obtain ⟨h1, h2, h3⟩ := L.rule h0
    rw [if_neg h0, h1]
    cases hn : next T sc bol (pending s) with
    | none => simp only; rw [(h3 hn).2]
    | some rl =>
      obtain ⟨r, len⟩ := rl
      simp only
      rw [(h2 r len hn).2]

theorem lexMany_spec (T : FlexTables) (P : Params) (hP : P.OK) :
    ∀ (calls : List (Nat × Bool × List Nat)) (s : State), Inv P s → EofOK s →
      (∀ c ∈ calls, (∀ k ∈ c.2.2, 1 ≤ k) ∧ s.rest.length + 1 ≤ c.2.2.length) →
      (pending (lexMany T P calls s).1, (lexMany T P calls s).2) = nextMany T calls (pending s) ∧
      Inv P (lexMany T P calls s).1 := by
  intro calls
  induction calls with
  | nil => intro s h _ _; exact ⟨rfl, h⟩
  | cons c cs ih =>
    intro s h he hc
    obtain ⟨sc, bol, oracle⟩ := c
    have hc0 := hc (sc, bol, oracle) (by simp)
    have L := lexBuf_spec T sc bol P hP oracle s h he hc0.1 hc0.2
    have hid := lexBuf_ideal T sc bol P s _ L
    have I := ih (lexBuf T sc bol P oracle s).1 L.inv L.eofOK (fun c' hc' => by
      have := hc c' (by simp [hc'])
      exact ⟨this.1, by have := L.rest; omega⟩)
    simp only [lexMany, nextMany]
    rw [← hid]
    simp only
    have I1 := I.1
    rw [Prod.mk.injEq] at I1
    exact ⟨by rw [I1.1, I1.2], I.2⟩

end Libconfig.C20BP
