import LibconfigModel.Proofs.C20BufferRun
/-
  C20B, kernel-evaluated replays at the constants of scanner.c, part 2: the contents of the
  window after the growth to 32768 bytes.
-/
namespace Libconfig.C20BP

open Libconfig Libconfig.FlexBuffer

/-- after the three reads of `replay_read3` the window is the first 24575 bytes of the
stream, in order: the 8192 + 8191 bytes that were there before the `yyrealloc`, then the
8192 new ones -/
theorem replay_window3 :
    window (run scannerParams [.eob 8192, .eob 8192, .eob 8192] (create scannerParams longTok)) =
      List.replicate 16382 97 ++ [98, 99, 100] ++ List.replicate 8190 101 :=
  beqBytes_eq _ _ (by decide +kernel)

end Libconfig.C20BP
