import LibconfigModel.Proofs.C01IdemSciOK
/-
  C01F, part 9 (scientific notation) — three facts about doubles:
   * the rounding error of `F64.ofRat` is at most half a unit in the last place: relative
     `2^-53` when the result is normalised, absolute `2^-1075` otherwise (`ofRat_err`);
   * two doubles of different magnitude are at least a relative `2^-53` apart (`spacing`);
   * a finite double is determined by its sign and magnitude as far as `printf` is concerned
     (`fmt_congr`).
-/
namespace Libconfig.C01I
open Libconfig F64 C01P C01L C08P
open Libconfig.F64R (dist sMag errR)

/-! ### the rounding error of `ofRat` -/

theorem ofRat_err (neg : Bool) (num den : Nat) (hn : num > 0) (hd : den > 0)
    (hfinite : isFinite (ofRat neg num den) = true) :
    2 ^ 53 * errR num den (ofRat neg num den) ≤ num * 2 ^ 1074 ∨
      2 * errR num den (ofRat neg num den) ≤ den := by
  obtain ⟨hs1074, hQ53, hQ52⟩ := F64R.chooseS_spec num den hn hd
  have hb : ofRat neg num den =
      finish neg (divRoundEven (num * up (chooseS num den)) (den * dn (chooseS num den)))
        (chooseS num den) := by
    rw [ofRat_eq, if_neg (by omega), scale_eq]
  unfold Q at hQ53 hQ52
  simp only [Nat.reducePow] at hQ53 hQ52
  generalize chooseS num den = s at *
  obtain ⟨k, hk⟩ : ∃ k : Nat, s = 1074 - (k : Int) := ⟨(1074 - s).toNat, by omega⟩
  have hrel : 2 ^ 1074 * dn s = up s * 2 ^ k := by
    unfold up dn; simp only [← Nat.pow_add]; congr 1; omega
  have hDpos := dn_pos s
  have hdpos : 0 < den * dn s := Nat.mul_pos hd hDpos
  generalize dn s = D at *
  generalize up s = U at *
  have e1 : num * 2 ^ 1074 * D = num * U * 2 ^ k := by
    rw [Nat.mul_assoc, hrel, ← Nat.mul_assoc]
  have hE : ∀ b, errR num den b * D = dist (num * U * 2 ^ k) (sMag b * (den * D)) := by
    intro b
    unfold errR
    rw [F64R.err_eq_dist]
    generalize 2 ^ 1074 = P at *
    exact F64R.err_scale num den (sMag b) P D U (2 ^ k) hrel
  generalize num * U = n at *
  generalize hdd : den * D = d at *
  have hle := divRoundEven_le n d
  have hge := divRoundEven_ge n d
  have hq : n / d < 9007199254740992 := (Nat.div_lt_iff_lt_mul hdpos).mpr hQ53
  have hk1 : 1 ≤ k → 4503599627370496 * d ≤ n := fun h => Nat.le_of_not_lt (hQ52 (by omega))
  have hmge : 1 ≤ k → 4503599627370496 ≤ divRoundEven n d := by
    intro h
    have : 4503599627370496 ≤ n / d := (Nat.le_div_iff_mul_le hdpos).mpr (hk1 h)
    omega
  rw [hb] at hfinite ⊢
  by_cases hF : (divRoundEven n d < 9007199254740992 ∧ k ≤ 2045) ∨ k ≤ 2044
  · obtain ⟨-, -, -, f4, -⟩ := F64R.finish_finite neg (divRoundEven n d) s k hk
      (by simp only [Nat.reducePow]; omega)
      (by simp only [Nat.reducePow]; intro h; false_or_by_contra; omega)
      (by simp only [Nat.reducePow]; exact hF)
    have hhalf := (dre_half n d hdpos).1
    have herr : errR num den (finish neg (divRoundEven n d) s) * D =
        dist n (divRoundEven n d * d) * 2 ^ k := by
      rw [hE, f4, F64R.dist_mul_right, Nat.mul_right_comm]
    generalize errR num den (finish neg (divRoundEven n d) s) = er at *
    have h2k : 0 < 2 ^ k := Nat.two_pow_pos k
    by_cases hk0 : k = 0
    · right
      subst hk0
      rw [Nat.pow_zero, Nat.mul_one] at herr
      -- 2·er·D ≤ d = den·D
      have : 2 * er * D ≤ den * D := by
        rw [Nat.mul_assoc, herr, hdd]; omega
      exact Nat.le_of_mul_le_mul_right this hDpos
    · left
      have hnd := hk1 (by omega)
      apply Nat.le_of_mul_le_mul_right _ hDpos
      calc 2 ^ 53 * er * D = 2 ^ 52 * (2 * dist n (divRoundEven n d * d)) * 2 ^ k := by
            rw [Nat.mul_assoc, herr, show (2 : Nat) ^ 53 = 2 ^ 52 * 2 from rfl]
            ac_rfl
        _ ≤ 2 ^ 52 * d * 2 ^ k := Nat.mul_le_mul_right _ (Nat.mul_le_mul_left _ hhalf)
        _ ≤ n * 2 ^ k := Nat.mul_le_mul_right _ (by simpa using hnd)
        _ = num * 2 ^ 1074 * D := e1.symm
  · exfalso
    have hinf : 2046 ≤ k ∨ (divRoundEven n d = 9007199254740992 ∧ k = 2045) := by omega
    have hfi := F64R.finish_inf neg (divRoundEven n d) s k hk
      (by simp only [Nat.reducePow]; exact hmge (by omega))
      (by simp only [Nat.reducePow]; omega)
      (by simp only [Nat.reducePow]; exact hinf)
    rw [hfi, (F64R.mkBits_inf neg).2.1] at hfinite
    cases hfinite

/-! ### the spacing of doubles -/

/-- two doubles of different magnitude are at least a relative `2^-53` apart -/
theorem spacing (b b' : Nat) (hne : sMag b' ≠ sMag b) : sMag b ≤ dist (sMag b') (sMag b) * 2 ^ 53 := by
  have hm := F64R.mant_lt b
  generalize hk : (expo b + 1074).toNat = k
  have hS : sMag b = mant b * 2 ^ k := by unfold sMag; rw [hk]
  have h2k : 0 < 2 ^ k := Nat.two_pow_pos k
  -- it is enough to find a gap `g` with `g ≤ |S' - S|` and `S ≤ g·2^53`
  suffices h : ∃ g, g ≤ dist (sMag b') (sMag b) ∧ sMag b ≤ g * 2 ^ 53 by
    obtain ⟨g, h1, h2⟩ := h
    exact Nat.le_trans h2 (Nat.mul_le_mul_right _ h1)
  have hlt : sMag b < 2 ^ k * 2 ^ 53 := by
    rw [hS, Nat.mul_comm]; exact Nat.mul_lt_mul_of_pos_left hm h2k
  rcases F64R.sMag_grid b' k with ⟨j, hj⟩ | ⟨hk1, hbelow⟩
  · -- on the grid of spacing 2^k
    refine ⟨2 ^ k, ?_, Nat.le_of_lt hlt⟩
    obtain ⟨g1, g2, g3, g4⟩ := F64R.mul_grid j (mant b) (2 ^ k)
    obtain ⟨g5, -, -, -⟩ := F64R.mul_grid (mant b) j (2 ^ k)
    rw [hS] at hne ⊢
    rw [hj] at hne ⊢
    unfold dist
    by_cases hjm : j = mant b
    · exact absurd (by rw [hjm]) hne
    · generalize j * 2 ^ k = A at *
      generalize mant b * 2 ^ k = B at *
      omega
  · -- below the binade of the grid: only possible for a normal `b`, or far below
    by_cases hM : 2 ^ 52 < mant b
    · refine ⟨2 ^ k, ?_, Nat.le_of_lt hlt⟩
      have : (2 ^ 52 + 1) * 2 ^ k ≤ mant b * 2 ^ k := Nat.mul_le_mul_right _ hM
      rw [Nat.add_mul, Nat.one_mul] at this
      rw [hS]
      unfold dist
      generalize mant b * 2 ^ k = B at *
      generalize 2 ^ 52 * 2 ^ k = C at *
      omega
    · by_cases hM2 : mant b = 2 ^ 52
      · -- the bottom of a binade: the spacing below is 2^(k-1)
        obtain ⟨k', rfl⟩ : ∃ k', k = k' + 1 := ⟨k - 1, by omega⟩
        have hS' : sMag b = 2 ^ 53 * 2 ^ k' := by
          rw [hS, hM2, show (2 : Nat) ^ (k' + 1) = 2 ^ k' * 2 from Nat.pow_succ ..]
          generalize 2 ^ k' = X
          omega
        have h2k' : 0 < 2 ^ k' := Nat.two_pow_pos k'
        refine ⟨2 ^ k', ?_, by rw [hS', Nat.mul_comm]; exact Nat.le_refl _⟩
        rcases F64R.sMag_grid b' k' with ⟨j, hj⟩ | ⟨-, hbelow'⟩
        · obtain ⟨g1, g2, g3, g4⟩ := F64R.mul_grid j (2 ^ 53) (2 ^ k')
          obtain ⟨g5, -, -, -⟩ := F64R.mul_grid (2 ^ 53) j (2 ^ k')
          rw [hS'] at hne ⊢
          rw [hj] at hne ⊢
          unfold dist
          by_cases hjm : j = 2 ^ 53
          · exact absurd (by rw [hjm]) hne
          · generalize j * 2 ^ k' = A at *
            generalize 2 ^ 53 * 2 ^ k' = B at *
            omega
        · rw [hS']
          unfold dist
          have : 2 ^ 53 * 2 ^ k' = 2 ^ 52 * 2 ^ k' + 2 ^ 52 * 2 ^ k' := by
            rw [show (2 : Nat) ^ 53 = 2 ^ 52 + 2 ^ 52 from rfl, Nat.add_mul]
          have h52 : 2 ^ k' ≤ 2 ^ 52 * 2 ^ k' := Nat.le_mul_of_pos_left _ (by decide)
          generalize 2 ^ 53 * 2 ^ k' = B at *
          generalize 2 ^ 52 * 2 ^ k' = C at *
          omega
      · -- a denormal `b`: then `k = 0`, contradiction with `1 ≤ k`
        exfalso
        have hlt52 : mant b < 2 ^ 52 := by omega
        have : expField b = 0 := by
          false_or_by_contra
          rename_i hne0
          have : mant b = fracField b + 2 ^ 52 := by
            unfold mant; rw [if_neg (by simpa using hne0)]
          omega
        have : expo b = -1074 := by unfold expo; rw [if_pos (by simpa using this)]
        omega

/-! ### sign and magnitude determine the rendering -/

theorem fields_of_sMag (b b' : Nat) (h : sMag b' = sMag b) : mant b' = mant b ∧ expo b' = expo b := by
  have hf : fracField b < 2 ^ 52 := Nat.mod_lt _ (by decide)
  have hf' : fracField b' < 2 ^ 52 := Nat.mod_lt _ (by decide)
  unfold sMag at h
  unfold mant expo at *
  by_cases he : expField b = 0 <;> by_cases he' : expField b' = 0
  · simp only [he, he', beq_self_eq_true, if_true] at h ⊢
    simp only [show ((-1074 : Int) + 1074).toNat = 0 from rfl, Nat.pow_zero, Nat.mul_one] at h
    exact ⟨h, trivial⟩
  · exfalso
    have e1 : (expField b == 0) = true := by simpa using he
    have e2 : (expField b' == 0) = false := by simpa using he'
    simp only [e1, e2, if_true, Bool.false_eq_true, if_false] at h
    simp only [show ((-1074 : Int) + 1074).toNat = 0 from rfl, Nat.pow_zero, Nat.mul_one] at h
    have : 2 ^ 52 ≤ (fracField b' + 2 ^ 52) * 2 ^ ((expField b' : Int) - 1075 + 1074).toNat :=
      Nat.le_trans (by omega) (Nat.le_mul_of_pos_right _ (Nat.two_pow_pos _))
    omega
  · exfalso
    have e1 : (expField b == 0) = false := by simpa using he
    have e2 : (expField b' == 0) = true := by simpa using he'
    simp only [e1, e2, if_true, Bool.false_eq_true, if_false] at h
    simp only [show ((-1074 : Int) + 1074).toNat = 0 from rfl, Nat.pow_zero, Nat.mul_one] at h
    have : 2 ^ 52 ≤ (fracField b + 2 ^ 52) * 2 ^ ((expField b : Int) - 1075 + 1074).toNat :=
      Nat.le_trans (by omega) (Nat.le_mul_of_pos_right _ (Nat.two_pow_pos _))
    omega
  · have e1 : (expField b == 0) = false := by simpa using he
    have e2 : (expField b' == 0) = false := by simpa using he'
    simp only [e1, e2, Bool.false_eq_true, if_false] at h ⊢
    have hk : ((expField b : Int) - 1075 + 1074).toNat = expField b - 1 := by omega
    have hk' : ((expField b' : Int) - 1075 + 1074).toNat = expField b' - 1 := by omega
    rw [hk, hk'] at h
    -- equal exponents, by comparing binades
    have key : ∀ (f f' a a' : Nat), f < 2 ^ 52 → a < a' →
        (f + 2 ^ 52) * 2 ^ a < (f' + 2 ^ 52) * 2 ^ a' := by
      intro f f' a a' hf ha
      calc (f + 2 ^ 52) * 2 ^ a < (2 ^ 52 + 2 ^ 52) * 2 ^ a :=
            Nat.mul_lt_mul_of_pos_right (by omega) (Nat.two_pow_pos _)
        _ = 2 ^ 52 * 2 ^ (a + 1) := by rw [Nat.pow_succ]; omega
        _ ≤ 2 ^ 52 * 2 ^ a' := Nat.mul_le_mul_left _ (Nat.pow_le_pow_right (by decide) (by omega))
        _ ≤ (f' + 2 ^ 52) * 2 ^ a' := Nat.mul_le_mul_right _ (by omega)
    have hee : expField b' - 1 = expField b - 1 := by
      false_or_by_contra
      rename_i hne
      rcases Nat.lt_or_gt_of_ne hne with hlt | hgt
      · have := key (fracField b') (fracField b) _ _ hf' hlt; omega
      · have := key (fracField b) (fracField b') _ _ hf hgt; omega
    rw [hee] at h
    have := Nat.eq_of_mul_eq_mul_right (Nat.two_pow_pos _) h
    exact ⟨this, by omega⟩

/-- `%.{q}g` and the whole of `libconfig_format_double` depend on a finite double only through
its sign and magnitude -/
theorem fmt_congr (b b' : Nat) (hf : isFinite b = true) (hf' : isFinite b' = true)
    (hs : signBit b' = signBit b) (hm : sMag b' = sMag b) (bufLen q : Nat) (sci : Bool) :
    fmtG b' q = fmtG b q ∧ formatDouble bufLen b' q sci = formatDouble bufLen b q sci := by
  obtain ⟨h1, h2⟩ := fields_of_sMag b b' hm
  have hG : ∀ q, fmtG b' q = fmtG b q := by
    intro q
    unfold fmtG
    simp only [hf, hf', hs, h1, h2, Bool.not_true, Bool.false_eq_true, if_false]
  have hF : fmtF b' q = fmtF b q := by
    unfold fmtF scaledRound
    simp only [hf, hf', hs, h1, h2, Bool.not_true, Bool.false_eq_true, if_false]
  refine ⟨hG q, ?_⟩
  rw [formatDouble_eq, formatDouble_eq]
  unfold rawText
  rw [hG q, hG 17, hF, hf, hf']

end Libconfig.C01I

