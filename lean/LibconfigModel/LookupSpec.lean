import LibconfigModel.Lookup
/-
  Declarative reading of setting paths (the specification side of C06): a path
  is a sequence of steps — member names and bracketed decimal indices —
  separated by one of `. : /`; `walk` follows the steps through the tree.
  `config_setting_lookup` (`lookupFrom`) is proved equal to `resolve`.
-/
namespace Libconfig

inductive PStep where
  | name (nm : Bytes)
  | index (i : Nat)
deriving Repr, DecidableEq, Inhabited

/-- Syntactic reading of a path: the steps it spells and whether it ends with a
separator.  `fuel` bounds the number of steps (the path length suffices).
`none` = not a path (empty component, malformed or out-of-range index). -/
def parseSteps : Nat → Bytes → Option (List PStep × Bool)
  | _, [] => some ([], false)
  | 0, _ :: _ => none
  | fuel+1, c :: cs =>
    let p1 : Bytes := if isPathSep c then cs else c :: cs
    match p1 with
    | [] => some ([], true)                       -- the path ends with a separator
    | 91 :: r =>                                   -- '[' index ']'
      let (v, used) := strtol10 r
      if used == 0 then none else
      match r.drop used with
      | 93 :: r' =>
        if v < 0 || v > INT_MAX then none else
        (parseSteps fuel r').map fun (steps, t) => (.index v.toNat :: steps, t)
      | _ => none
    | _ =>
      let nm := p1.takeWhile notSep
      if nm.isEmpty then none else
      (parseSteps fuel (p1.dropWhile notSep)).map fun (steps, t) => (.name nm :: steps, t)

/-- One declarative step: a member of a group by exact name (the first such
member), or a child of an aggregate by position. -/
def walkStep (n : Node) : PStep → Option (Nat × Node)
  | .name nm => if n.ty == T_GROUP then listSearch n.kids nm 0 else none
  | .index i => if n.isAggregate then (n.kids[i]?).map fun k => (i, k) else none

/-- Follow the steps from `n`: the index path and the node reached. -/
def walk : Node → List PStep → Option (Path × Node)
  | n, [] => some ([], n)
  | n, st :: rest =>
    match walkStep n st with
    | none => none
    | some (i, k) => (walk k rest).map fun (q, m) => (i :: q, m)

/-- The specification of `config_setting_lookup(n, path)`: the path must spell
at least one step, every step must exist, and a trailing separator is tolerated
only below a non-group. -/
def resolve (n : Node) (path : Bytes) : Option Path :=
  match parseSteps (path.length + 1) path with
  | none => none
  | some (steps, trailing) =>
    if steps.isEmpty then none else
    match walk n steps with
    | none => none
    | some (q, m) => if trailing && m.ty == T_GROUP then none else some q

/-! ### spellings of a setting's path (completeness side) -/

/-- How one component is written: by name (if the child has one) or as `[i]`,
preceded by the separator `sep`. -/
structure Choice where
  useName : Bool
  sep : Nat
deriving Repr, Inhabited

/-- Text of the path from `n` down the index path `ip` under the given choices;
`lead` = write the separator of the first component too. -/
def renderPath : Node → Path → List Choice → Bool → Option Bytes
  | _, [], _, _ => some []
  | _, _ :: _, [], _ => none
  | n, i :: ip, ch :: chs, lead =>
    match n.kids[i]? with
    | none => none
    | some k =>
      let comp : Bytes :=
        match k.name, ch.useName with
        | some nm, true => nm
        | _, _ => [91] ++ natToDec i ++ [93]
      (renderPath k ip chs true).map fun rest => (if lead then [ch.sep] else []) ++ comp ++ rest

/-- `Setting::getPath()` of the C++ API (`__constructPath`): components joined by
`.`, names where the setting has one, `[index]` otherwise, no leading separator. -/
def cppGetPath (n : Node) (ip : Path) : Option Bytes :=
  renderPath n ip (ip.map fun _ => { useName := true, sep := 46 }) false

end Libconfig
