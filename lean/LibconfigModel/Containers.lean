import LibconfigModel.Basic
/-
  The growth arithmetic of the library's three hand-written containers, as small
  state machines (property C03):

  * `StrBuf`   — lib/strbuf.c  (`libconfig_strbuf_ensure_capacity / append_string /
                  append_char / release`), block size `B` (`STRING_BLOCK_SIZE`);
  * `StrVec`   — lib/strvec.c  (`libconfig_strvec_append / release`), chunk `C`
                  (`CHUNK_SIZE` of strvec.c);
  * `ChildVec` — lib/libconfig.c (`__config_list_add / __config_list_remove`), chunk
                  `C` (`CHUNK_SIZE` of libconfig.c).

  Only sizes and indices are modelled (what the bounds of every store depend on), not
  the contents.  The constants are parameters; the theorems in
  `Properties/C03.lean` need only `0 < B`, `0 < C`.
-/
namespace Libconfig
namespace Containers

/-! ### strbuf -/

/-- `strbuf_t`: `length` characters are stored, `capacity` bytes are allocated
(`capacity = 0` ⇔ `string == NULL`). -/
structure StrBuf where
  length : Nat := 0
  capacity : Nat := 0
deriving Repr, DecidableEq, Inhabited

/-- the rounding of `libconfig_strbuf_ensure_capacity`:
`(newlen + (BLOCK - 1)) & ~(BLOCK - 1)`, written arithmetically (equal to the mask form for
a power of two, see `roundUp_eq_mask`) -/
def roundUp (B n : Nat) : Nat := (n + (B - 1)) / B * B

/-- `libconfig_strbuf_ensure_capacity(buf, len)` -/
def StrBuf.ensure (B : Nat) (b : StrBuf) (len : Nat) : StrBuf :=
  let newlen := b.length + len + 1      -- add 1 for NUL
  if newlen > b.capacity then { b with capacity := roundUp B newlen } else b

inductive StrBufOp where
  /-- `libconfig_strbuf_append_string(buf, s)` with `strlen(s) = len` -/
  | appendString (len : Nat)
  /-- `libconfig_strbuf_append_char(buf, c)` -/
  | appendChar
  /-- `libconfig_strbuf_release(buf)`: the buffer is handed out and the struct zeroed -/
  | release
deriving Repr, DecidableEq, Inhabited

/-- number of bytes the operation stores, starting at offset `length` (`strcpy` stores the
string and its NUL; `append_char` stores the character and a NUL) -/
def StrBufOp.stores : StrBufOp → Nat
  | .appendString len => len + 1
  | .appendChar => 2
  | .release => 0

/-- the buffer the operation stores into (after its `ensure_capacity` call) -/
def StrBuf.grown (B : Nat) (b : StrBuf) : StrBufOp → StrBuf
  | .appendString len => b.ensure B len
  | .appendChar => b.ensure B 1
  | .release => b

def StrBuf.step (B : Nat) (b : StrBuf) (op : StrBufOp) : StrBuf :=
  match op with
  | .appendString len => { b.grown B op with length := b.length + len }
  | .appendChar => { b.grown B op with length := b.length + 1 }
  | .release => {}

def StrBuf.run (B : Nat) (ops : List StrBufOp) : StrBuf := ops.foldl (StrBuf.step B) {}

/-- what holds between operations: nothing allocated and nothing stored, or the text and its
terminating NUL lie inside the allocation; the allocation is a whole number of blocks -/
structure StrBuf.Inv (B : Nat) (b : StrBuf) : Prop where
  nul : b.capacity = 0 ∧ b.length = 0 ∨ b.length + 1 ≤ b.capacity
  blocks : B ∣ b.capacity

/-! ### strvec -/

/-- `strvec_t`: `length` strings stored, room for `capacity`, `slots` pointer slots allocated
(`slots = 0` ⇔ `strings == NULL`), `end` as an index into `strings`. -/
structure StrVec where
  length : Nat := 0
  capacity : Nat := 0
  slots : Nat := 0
  endIdx : Nat := 0
deriving Repr, DecidableEq, Inhabited

/-- the reallocation branch of `libconfig_strvec_append` -/
def StrVec.grown (C : Nat) (v : StrVec) : StrVec :=
  if v.length == v.capacity then
    { v with capacity := v.capacity + C, slots := v.capacity + C + 1, endIdx := v.length }
  else v

/-- `libconfig_strvec_append`: `*(vec->end) = s; ++end; ++length` -/
def StrVec.append (C : Nat) (v : StrVec) : StrVec :=
  let g := v.grown C
  { g with endIdx := g.endIdx + 1, length := g.length + 1 }

inductive StrVecOp where
  | append
  /-- `libconfig_strvec_release`: `if(strings) *(vec->end) = NULL;` then the struct is zeroed -/
  | release
deriving Repr, DecidableEq, Inhabited

def StrVec.step (C : Nat) (v : StrVec) : StrVecOp → StrVec
  | .append => v.append C
  | .release => {}

def StrVec.run (C : Nat) (ops : List StrVecOp) : StrVec := ops.foldl (StrVec.step C) {}

structure StrVec.Inv (v : StrVec) : Prop where
  le : v.length ≤ v.capacity
  endAt : v.endIdx = v.length
  alloc : v.slots = 0 ∧ v.capacity = 0 ∨ v.slots = v.capacity + 1

/-! ### the child vector of a group, array or list -/

/-- `config_list_t`: `length` elements, `alloc` element slots allocated -/
structure ChildVec where
  length : Nat := 0
  alloc : Nat := 0
deriving Repr, DecidableEq, Inhabited

/-- the reallocation branch of `__config_list_add`: `realloc(elements, (length + CHUNK) * …)`
exactly when `length % CHUNK == 0` (this may also shrink an allocation left oversized by
removals) -/
def ChildVec.grown (C : Nat) (v : ChildVec) : ChildVec :=
  if v.length % C == 0 then { v with alloc := v.length + C } else v

/-- `__config_list_add`: `elements[length] = setting; length++` -/
def ChildVec.add (C : Nat) (v : ChildVec) : ChildVec :=
  { v.grown C with length := v.length + 1 }

/-- `__config_list_remove(list, idx)` for `idx < length` (the callers' guard): the tail is
moved down with `memmove`, `length--`, the allocation is kept -/
def ChildVec.remove (v : ChildVec) (idx : Nat) : ChildVec :=
  if idx < v.length then { v with length := v.length - 1 } else v

inductive ChildOp where
  | add
  | remove (idx : Nat)
deriving Repr, DecidableEq, Inhabited

def ChildVec.step (C : Nat) (v : ChildVec) : ChildOp → ChildVec
  | .add => v.add C
  | .remove idx => v.remove idx

def ChildVec.run (C : Nat) (ops : List ChildOp) : ChildVec := ops.foldl (ChildVec.step C) {}

/-- the allocation covers `length` rounded up to a whole number of chunks -/
def ChildVec.Inv (C : Nat) (v : ChildVec) : Prop := roundUp C v.length ≤ v.alloc

end Containers
end Libconfig
