import LibconfigModel.WriterSpec
import LibconfigModel.Read
/-
  Specification side of the C01 composition (write, then read back):
  the token each item of the writer's output denotes, the token sequence of a whole
  configuration, and the configuration the round trip is expected to produce.
  Kept apart from the mechanism (Scanner/Parser) and from the proofs.
-/
namespace Libconfig

/-- the token (bison token number, semantic value) an item of the writer's output denotes;
white space denotes nothing; `???` (a setting of type NONE) is not a token of the language -/
def WTok.token (tk : TokenNums) : WTok → Option (Nat × TokVal)
  | .ws _ => none
  | .name nm => some (tk.name, { sval := nm })
  | .assign _ => some (tk.equals, {})
  | .semi => some (tk.semicolon, {})
  | .comma => some (tk.comma, {})
  | .punct c =>
    some ((if c == 40 then tk.listStart else if c == 41 then tk.listEnd
           else if c == 91 then tk.arrayStart else if c == 93 then tk.arrayEnd
           else if c == 123 then tk.groupStart else tk.groupEnd), {})
  | .bool v => some (tk.boolean, { ival := if v then 1 else 0 })
  | .int bits v hex =>
    some ((if bits == 64 then (if hex then tk.hex64 else tk.integer64)
           else (if hex then tk.hex else tk.integer)), { ival := v })
  | .float _ text => some (tk.float, { fval := F64.strtod text })
  | .str s => some (tk.string, { sval := s })
  | .unknown => none

/-- the token sequence the written form of a configuration denotes -/
def tokensOfConfig (tk : TokenNums) (bufLen : Nat) (c : Config) : List (Nat × TokVal) :=
  (wtoksConfig bufLen c).filterMap (WTok.token tk)

end Libconfig
