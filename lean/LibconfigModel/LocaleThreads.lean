import LibconfigModel.Locale
/-
  The locale switch with several threads (C15 × C14).  `uselocale` acts on the calling
  thread only; the value `__config_locale_override` returns lives in a local variable of the
  call in progress, so every thread has its own stack of saved locales (calls nest when an
  include function calls back into the library).  The process-wide locale is never written.
-/
namespace Libconfig

structure MTLocale where
  globalRadix : Nat
  /-- each thread's own locale (`none` = LC_GLOBAL_LOCALE) -/
  thread : Nat → Option Nat
  /-- each thread's calls in progress, innermost first: the locale saved by each -/
  saved : Nat → List (Option Nat)

inductive LocEvent where
  /-- thread `t` enters a read or write: `__config_locale_override` -/
  | enter (t : Nat)
  /-- thread `t` leaves its innermost read or write: `__config_locale_restore` -/
  | leave (t : Nat)
deriving Repr, DecidableEq

/-- radix character `printf`/`strtod` use in thread `t` -/
def MTLocale.effective (M : MTLocale) (t : Nat) : Nat := (M.thread t).getD M.globalRadix

def MTLocale.step (M : MTLocale) : LocEvent → MTLocale
  | .enter t =>
    let r := localeOverride { globalRadix := M.globalRadix, thread := M.thread t }
    { M with thread := fun u => if u = t then r.1.thread else M.thread u,
             saved := fun u => if u = t then r.2 :: M.saved u else M.saved u }
  | .leave t =>
    match M.saved t with
    | [] => M                                  -- no call in progress: not an execution of the library
    | s :: rest =>
      let l := localeRestore { globalRadix := M.globalRadix, thread := M.thread t } s
      { M with thread := fun u => if u = t then l.thread else M.thread u,
               saved := fun u => if u = t then rest else M.saved u }

def MTLocale.run (M : MTLocale) (es : List LocEvent) : MTLocale := es.foldl MTLocale.step M

/-- the locale thread `t` has outside all library calls: what the outermost call saved, or
its current locale if no call is in progress -/
def MTLocale.outer (M : MTLocale) (t : Nat) : Option Nat :=
  match (M.saved t).getLast? with
  | some v => v
  | none => M.thread t

/-- no call in progress anywhere -/
def MTLocale.idle (g : Nat) (th : Nat → Option Nat) : MTLocale := { globalRadix := g, thread := th, saved := fun _ => [] }

/-- state invariant: a thread with a call in progress has the "C" locale installed, and every
saved locale except the outermost one is the "C" locale of the enclosing call -/
def MTLocale.Inv (M : MTLocale) : Prop :=
  ∀ t, (M.saved t ≠ [] → M.thread t = some 46) ∧ ∀ v ∈ (M.saved t).dropLast, v = some 46

/-- the schedule of the correspondence scenario `locoverlap`: thread 0 enters a read and is
parked inside its include function; thread 1 reads, then writes; thread 0 returns -/
def MTLocale.overlapSchedule : List LocEvent := [.enter 0, .enter 1, .leave 1, .enter 1, .leave 1, .leave 0]

/-! The seeded variant: one process-wide nesting counter decides whether a call switches. -/

structure MTLocaleCounted where
  base : MTLocale
  depth : Nat

def MTLocaleCounted.step (C : MTLocaleCounted) : LocEvent → MTLocaleCounted
  | .enter t => if C.depth = 0 then { base := C.base.step (.enter t), depth := 1 } else { C with depth := C.depth + 1 }
  | .leave t => if C.depth = 1 then { base := C.base.step (.leave t), depth := 0 } else { C with depth := C.depth - 1 }

def MTLocaleCounted.run (C : MTLocaleCounted) (es : List LocEvent) : MTLocaleCounted := es.foldl MTLocaleCounted.step C

end Libconfig
