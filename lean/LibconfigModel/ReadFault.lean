import LibconfigModel.Read
/-
  Reads during which a read from an input stream fails (`fread` returns 0 with the error
  indicator set).  lib/scanner.l overrides flex's YY_INPUT: the failure is recorded in the
  scan context (`input_error`) and the stream is treated as ended there, so the scanner and
  parser run exactly as in the world in which every stream ends where its first failing
  read occurs; afterwards `__config_read` replaces the outcome by the whole I/O error
  record and fails.  Pure addition: nothing in Read.lean refers to this file.
-/
namespace Libconfig

/-- what `__config_read` makes of a run during which `scan_ctx.input_error` was set -/
def failRead (r : ReadOut) : ReadOut :=
  { r with cfg := r.cfg.setError ERR_FILE_IO (some Generated.IO_ERROR_TEXT), ok := false }

/-- the world in which the stream on `path` delivers only `delivered` -/
def World.truncate (w : World) (path delivered : Bytes) : World :=
  { files := (path, some delivered) :: w.files.filter (·.1 != path) }

/-- `config_read` on a stream that delivers `delivered` and then fails -/
def readFailingStream (w : World) (c : Config) (delivered : Bytes) (fuel : Nat) : ReadOut :=
  failRead (read w c (.stream delivered) fuel)

/-- a read from `src` during which the stream on `path` (the top-level file or an included
file) fails after delivering `delivered` -/
def readWithFailingFile (w : World) (c : Config) (src : Source) (path delivered : Bytes) (fuel : Nat) : ReadOut :=
  failRead (read (w.truncate path delivered) c src fuel)

end Libconfig
