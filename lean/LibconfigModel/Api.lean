import LibconfigModel.Lookup
import LibconfigModel.F64
/-
  The public C API of libconfig.h as total functions on the model.  Settings
  are addressed by index path from the root; a path that addresses nothing is
  out of contract (`none` / unchanged).  Every function mirrors the control
  flow of its C counterpart in lib/libconfig.c.
-/
namespace Libconfig

/-! ### Node-level mutators (operate on the addressed setting) -/

/-- `config_setting_set_int` -/
def Node.setInt (auto : Bool) (n : Node) (v : Int) : Option Node :=
  if n.ty == T_NONE then some { n with ty := T_INT, ival := v }
  else if n.ty == T_INT then some { n with ival := v }
  else if n.ty == T_INT64 then some { n with ival := v }
  else if n.ty == T_FLOAT then (if auto then some { n with fval := F64.ofInt v } else none)
  else none

/-- `config_setting_set_int64` -/
def Node.setInt64 (auto : Bool) (n : Node) (v : Int) : Option Node :=
  if n.ty == T_NONE then some { n with ty := T_INT64, ival := v }
  else if n.ty == T_INT64 then some { n with ival := v }
  else if n.ty == T_INT then (if fits32 v then some { n with ival := v } else none)
  else if n.ty == T_FLOAT then (if auto then some { n with fval := F64.ofInt v } else none)
  else none

/-- Is `(int)x` / `(long long)x` defined by C for the double `b`? -/
def floatCastOk32 (b : Nat) : Bool := F64.isFinite b && fits32 (F64.trunc b)
def floatCastOk64 (b : Nat) : Bool := F64.isFinite b && fits64 (F64.trunc b)

/-- `config_setting_set_float`; float→integer casts outside the target range
are undefined in C: the model stores the x86 "indefinite" value and the
correspondence never exercises them. -/
def Node.setFloat (auto : Bool) (n : Node) (b : Nat) : Option Node :=
  if n.ty == T_NONE then some { n with ty := T_FLOAT, fval := b }
  else if n.ty == T_FLOAT then some { n with fval := b }
  else if n.ty == T_INT then
    (if auto then some { n with ival := if floatCastOk32 b then F64.trunc b else INT_MIN } else none)
  else if n.ty == T_INT64 then
    (if auto then some { n with ival := if floatCastOk64 b then F64.trunc b else LLONG_MIN } else none)
  else none

/-- `config_setting_set_bool` -/
def Node.setBool (n : Node) (v : Int) : Option Node :=
  if n.ty == T_NONE then some { n with ty := T_BOOL, ival := v }
  else if n.ty == T_BOOL then some { n with ival := v }
  else none

/-- `config_setting_set_string` (the value is copied; NULL stays NULL) -/
def Node.setString (n : Node) (s : Option Bytes) : Option Node :=
  if n.ty == T_NONE then some { n with ty := T_STRING, sval := s }
  else if n.ty == T_STRING then some { n with sval := s }
  else none

/-- `config_setting_set_format` -/
def Node.setFormat (n : Node) (f : Nat) : Option Node :=
  if (n.ty != T_INT && n.ty != T_INT64) || (f != FMT_DEFAULT && f != FMT_HEX) then none
  else some { n with fmt := f }

/-! ### Typed getters: `(ok, value)`; on failure the caller's variable is untouched -/

def Node.getInt (auto : Bool) (n : Node) : Option Int :=
  if n.ty == T_INT then some n.ival
  else if n.ty == T_INT64 then (if fits32 n.ival then some n.ival else none)
  else if n.ty == T_FLOAT then
    (if auto then some (if floatCastOk32 n.fval then F64.trunc n.fval else INT_MIN) else none)
  else none

def Node.getInt64 (auto : Bool) (n : Node) : Option Int :=
  if n.ty == T_INT64 then some n.ival
  else if n.ty == T_INT then some n.ival
  else if n.ty == T_FLOAT then
    (if auto then some (if floatCastOk64 n.fval then F64.trunc n.fval else LLONG_MIN) else none)
  else none

def Node.getFloat (auto : Bool) (n : Node) : Option Nat :=
  if n.ty == T_FLOAT then some n.fval
  else if n.ty == T_INT then (if auto then some (F64.ofInt n.ival) else none)
  else if n.ty == T_INT64 then (if auto then some (F64.ofInt n.ival) else none)
  else none

/-- `config_setting_get_bool`: 0 unless the setting is a boolean -/
def Node.getBool (n : Node) : Int := if n.ty == T_BOOL then n.ival else 0

/-- `config_setting_get_string`: NULL unless the setting is a string -/
def Node.getString (n : Node) : Option Bytes := if n.ty == T_STRING then n.sval else none

/-- `config_setting_length` -/
def Node.length (n : Node) : Nat := if n.isAggregate then n.kids.length else 0

/-! ### Structure: create / add / remove -/

/-- `__config_list_checktype(setting, type)` -/
def checkType (n : Node) (ty : Nat) : Bool :=
  match n.kids with
  | [] => true
  | k :: _ => if n.ty == T_LIST then true else k.ty == ty

/-- `config_setting_create`: append a zeroed child. -/
def Node.create (parent : Node) (name : Option Bytes) (ty : Nat) : Option Node :=
  if !parent.isAggregate then none
  else some { parent with kids := parent.kids ++ [{ name := name, ty := ty }] }

/-- `config_setting_remove(parent, name)`: returns the new parent and the
destructor log, or `none` for `CONFIG_FALSE`. -/
def Node.remove (dtor : Bool) (parent : Node) (name : Option Bytes) : Option (Node × List Nat) :=
  match name with
  | none => none
  | some nm =>
    if parent.ty != T_GROUP then none else
    match lookupFrom parent nm with
    | none => none
    | some q =>
      -- `setting->parent` is the node at `q.dropLast`
      let pp := q.dropLast
      match parent.get? pp with
      | none => none
      | some sp =>
        match listSearch sp.kids (lastComponent nm) 0 with
        | none => none
        | some (idx, victim) =>
          some (parent.modify (fun s => { s with kids := s.kids.eraseIdx idx }) pp,
                destroyLog dtor victim)

/-- `config_setting_add(parent, name, type)`: new parent, index of the new
child and the destructor log of an overridden member; `none` = NULL. -/
def Node.add (dtor overrides : Bool) (parent : Node) (name : Option Bytes) (ty : Int) :
    Option (Node × Nat × List Nat) :=
  if ty < 0 || ty > 8 then none else
  if parent.ty == T_ARRAY && !isScalarTy ty then none else
  if parent.ty == T_ARRAY && !checkType parent ty.toNat then none else
  let name := if parent.ty == T_ARRAY || parent.ty == T_LIST then none else name
  let nameOk := match name with
    | some nm => validName nm
    | none => parent.ty != T_GROUP
  if !nameOk then none else
  let exists_ := match name with
    | some nm => (getMember parent nm).isSome
    | none => false
  if exists_ && !overrides then none else
  let (parent', log) :=
    if exists_ then
      match parent.remove dtor name with
      | some (p', l) => (p', l)
      | none => (parent, [])
    else (parent, [])
  match parent'.create name ty.toNat with
  | none => none
  | some p'' => some (p'', p''.kids.length - 1, log)

/-- `config_setting_remove_elem(parent, idx)` -/
def Node.removeElem (dtor : Bool) (parent : Node) (idx : Nat) : Option (Node × List Nat) :=
  if !parent.isAggregate then none else
  match parent.kids[idx]? with
  | none => none
  | some victim => some ({ parent with kids := parent.kids.eraseIdx idx }, destroyLog dtor victim)

/-- `config_setting_set_*_elem(setting, idx, value)`: `setter` is the scalar
setter, `ty` the element type.  Result: new aggregate and index of the element. -/
def Node.setElem (setter : Node → Option Node) (ty : Nat) (n : Node) (idx : Int) :
    Option (Node × Nat) :=
  if n.ty != T_ARRAY && n.ty != T_LIST then none else
  if idx < 0 then
    if !checkType n ty then none else
    match n.create none ty with
    | none => none
    | some n' =>
      let i := n'.kids.length - 1
      match n'.kids[i]? with
      | none => none
      | some e =>
        match setter e with
        | none => none   -- cannot happen: the fresh element has type `ty`
        | some e' => some ({ n' with kids := n'.kids.set i e' }, i)
  else
    match getElem n idx.toNat with
    | none => none
    | some e =>
      match setter e with
      | none => none
      | some e' => some ({ n with kids := n.kids.set idx.toNat e' }, idx.toNat)

/-- `config_setting_index`: position among the parent's children (-1 for the root). -/
def indexOfPath (p : Path) : Int :=
  match p.getLast? with
  | none => -1
  | some i => i

/-! ### Config-level functions -/

/-- `config_clear`: destroy the root, drop the file names, make a new root. -/
def Config.clear (c : Config) : Config × List Nat :=
  ({ c with root := { ty := T_GROUP }, filenames := [] }, destroyLog c.destructor c.root)

/-- `config_set_tab_width` -/
def Config.setTabWidth (c : Config) (w : Nat) : Config :=
  { c with tabWidth := if w ≤ 15 then w else 15 }

/-- `config_set_option` on the 32-bit pattern of `options` -/
def Config.setOption (c : Config) (opt : Nat) (flag : Bool) : Config :=
  { c with options := if flag then c.options ||| opt else c.options &&& (4294967295 - opt % 4294967296) }

end Libconfig
