import LibconfigModel.Denote
/-
  WHERE a configuration text is rejected: the reference interpreter of Denote.lean once more, this
  time telling, when it rejects the text, WHICH token it rejects — the token the documentation
  calls the offending one ("an offence is located at the name of a duplicate setting, at the last
  token of a mismatching array element, and at the token that does not fit the grammar",
  Denote.lean).  Written by hand from the documentation like Denote.lean; it knows nothing about LR
  tables, lookahead, default reductions, or the scanner's line counter.

  The functions `arrayRestAt`, `valueAt`, `listRestAt`, `settingsAt` are `arrayRest`, `value`,
  `listRest`, `settings` of Denote.lean, clause by clause, with one addition: the error outcome
  carries the items NOT YET READ when the offence is met, the offending one in front (the empty
  list: the text ends too early, the offending "token" is the end of the input).  Forgetting that
  addition gives back the functions of Denote.lean (`Proofs/C09LineSpec.lean`, `erase_*`).

      offence o toks      = none                  the text denotes a configuration
                          = some (k, i)           the text is rejected for `k`; the offending token
                                                  is `toks[i]` (`i = toks.length`: the end of input)

      reportIndex toks (k, i)                     the token whose position `libconfig_yyparse`
                                                  REPORTS for that offence: `i` — except for a
                                                  mismatching array element that is a string: `i+1`

  The exception is the project's recorded finding `C02:string-element-mismatch-line`: adjacent
  string literals are concatenated, so the parser knows that a string element is complete only
  when it has seen the token AFTER its last literal; that token has been scanned — and the
  scanner's line counter has moved on to it — when the type check of the element fails.
  `Properties/C09Line.lean` proves that the line and the file `libconfig_yyparse` reports are those
  of the token `reportIndex` names, for every text.
-/
namespace Libconfig.Denote
open Libconfig

/-- outcome of reading a part of the text: what was read and the items not yet consumed — or the
kind of the offence and the items not yet consumed at that moment, the offending one in front -/
inductive ResAt (α : Type) where
  | ok (a : α) (rest : List Item)
  | error (k : ErrKind) (at_ : List Item)
deriving Inhabited

/-- forget where -/
def ResAt.erase {α : Type} : ResAt α → Res α
  | .ok a rest => .ok a rest
  | .error k _ => .error k

/-- the items from the LAST of the adjacent string literals in front on (in front of anything but
two string literals: the items themselves).  A scalar is one token, or a run of string literals:
this is "the last token of the scalar in front". -/
def lastLiteral : List Item → List Item
  | .string s :: tl =>
    match tl with
    | .string _ :: _ => lastLiteral tl
    | _ => .string s :: tl
  | items => items

/-! ### arrays -/

/-- `arrayRest` of Denote.lean, telling where -/
def arrayRestAt (ty : Nat) : Nat → List Node → List Item → ResAt (List Node)
  | 0, _, items => .error .syntax items
  | _ + 1, acc, .arrayEnd :: rest => .ok acc rest
  | fuel + 1, acc, .comma :: rest =>
    match scalar none rest with
    | none => arrayRestAt ty fuel acc rest               -- a comma not followed by an element
    | some (x, rest') =>
      if x.ty ≠ ty then .error .arrayElemType (lastLiteral rest)   -- the element's last token
      else arrayRestAt ty fuel (acc ++ [x]) rest'
  | _ + 1, _, items => .error .syntax items              -- neither `,` nor `]`

/-! ### values, lists, groups -/

mutual
/-- `value` of Denote.lean, telling where -/
def valueAt (o : Options) : Nat → Option Bytes → List Item → ResAt Node
  | 0, _, items => .error .syntax items
  | fuel + 1, nm, .arrayStart :: rest =>
    match rest with
    | .arrayEnd :: rest' => .ok { name := nm, ty := T_ARRAY } rest'
    | _ =>
      match scalar none rest with
      | none => .error .syntax rest                      -- neither a scalar nor `]` after `[`
      | some (x, rest') =>
        match arrayRestAt x.ty fuel [x] rest' with
        | .error k w => .error k w
        | .ok elems rest'' => .ok { name := nm, ty := T_ARRAY, kids := elems } rest''
  | fuel + 1, nm, .listStart :: rest =>
    match rest with
    | .listEnd :: rest' => .ok { name := nm, ty := T_LIST } rest'
    | _ =>
      match valueAt o fuel none rest with
      | .error k w => .error k w
      | .ok x rest' =>
        match listRestAt o fuel [x] rest' with
        | .error k w => .error k w
        | .ok elems rest'' => .ok { name := nm, ty := T_LIST, kids := elems } rest''
  | fuel + 1, nm, .groupStart :: rest =>
    match settingsAt o fuel [] rest with
    | .error k w => .error k w
    | .ok members (.groupEnd :: rest') => .ok { name := nm, ty := T_GROUP, kids := members } rest'
    | .ok _ rest' => .error .syntax rest'                -- neither a NAME nor `}`
  | _ + 1, nm, items =>
    match scalar nm items with
    | some (x, rest) => .ok x rest
    | none => .error .syntax items                       -- no value starts here
/-- `listRest` of Denote.lean, telling where -/
def listRestAt (o : Options) : Nat → List Node → List Item → ResAt (List Node)
  | 0, _, items => .error .syntax items
  | _ + 1, acc, .listEnd :: rest => .ok acc rest
  | fuel + 1, acc, .comma :: rest =>
    match rest with
    | .comma :: _ => listRestAt o fuel acc rest          -- a comma not followed by an element
    | .listEnd :: _ => listRestAt o fuel acc rest
    | _ =>
      match valueAt o fuel none rest with
      | .error k w => .error k w
      | .ok x rest' => listRestAt o fuel (acc ++ [x]) rest'
  | _ + 1, _, items => .error .syntax items              -- neither `,` nor `)`
/-- `settings` of Denote.lean, telling where -/
def settingsAt (o : Options) : Nat → List Node → List Item → ResAt (List Node)
  | 0, _, items => .error .syntax items
  | fuel + 1, members, .name nm :: rest =>
    match enter o members nm with
    | none => .error .duplicateName (.name nm :: rest)   -- the NAME of the second setting
    | some members' =>
      match rest with
      | .assign :: rest' =>
        match valueAt o fuel (some nm) rest' with
        | .error k w => .error k w
        | .ok x rest'' => settingsAt o fuel (members' ++ [x]) (skipTerminator rest'')
      | _ => .error .syntax rest                         -- no `=` / `:` after the NAME
  | _ + 1, members, items => .ok members items
end

/-! ### configurations -/

/-- the offence of a token sequence, with the items not yet read when it is met (the offending
one in front); `none` if the text denotes a configuration -/
def offenceAt (o : Options) (toks : List (Nat × TokVal)) : Option (ErrKind × List Item) :=
  match settingsAt o (toks.length + 1) [] (toks.map itemOf) with
  | .error k w => some (k, w)
  | .ok _ [] => none
  | .ok _ (it :: rest) => some (.syntax, it :: rest)     -- neither a NAME nor the end of the input

/-- **The offence of a token sequence**: the kind of the error and the index (in `toks`) of the
offending token — for a syntax error the first token that cannot continue a sentence of the
grammar (`toks.length`, the end-of-input pseudo token, if the text ends too early); for a
duplicate name the NAME token of the second setting; for a mismatched array element the (last)
token of that element.  `none`: the text denotes a configuration. -/
def offence (o : Options) (toks : List (Nat × TokVal)) : Option (ErrKind × Nat) :=
  (offenceAt o toks).map fun p => (p.1, toks.length - p.2.length)

/-- the token at index `i` is a string literal -/
def isStringAt (toks : List (Nat × TokVal)) (i : Nat) : Bool :=
  match toks[i]? with
  | some tv => tv.1 == Generated.tokens.string
  | none => false

/-- the one case in which the parser reports another position than that of the offending token:
a mismatching array element that is a string (finding `C02:string-element-mismatch-line`) -/
def reportedLate (toks : List (Nat × TokVal)) (p : ErrKind × Nat) : Bool :=
  (match p.1 with | .arrayElemType => true | _ => false) && isStringAt toks p.2

/-- **The index of the token whose position is reported** for the offence `p = (k, i)`: the
offending token itself — except for a mismatching string element, where it is the token that
follows the element (the parser has had to look at it to know that the string is complete). -/
def reportIndex (toks : List (Nat × TokVal)) (p : ErrKind × Nat) : Nat :=
  if reportedLate toks p then p.2 + 1 else p.2

/-- the same on the level of items: the items not yet read when the error is REPORTED, the one
whose position is reported in front -/
def reportAt : ErrKind → List Item → List Item
  | .arrayElemType, .string _ :: tl => tl
  | _, w => w

end Libconfig.Denote
