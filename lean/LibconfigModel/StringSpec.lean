import LibconfigModel.Writer
/-
  The documented meaning of a string literal body (specification side of C01's
  string round trip): after the opening quote, characters stand for themselves;
  `\\ \" \f \n \r \t \a \b \v` and `\xHH` are the documented escapes; a
  backslash followed by anything else is kept; an unescaped `"` ends the literal.
-/
namespace Libconfig

def escapeCode (c : Nat) : Option Nat :=
  if c == 97 then some 7          -- \a
  else if c == 98 then some 8     -- \b
  else if c == 110 then some 10   -- \n
  else if c == 114 then some 13   -- \r
  else if c == 116 then some 9    -- \t
  else if c == 118 then some 11   -- \v
  else if c == 102 then some 12   -- \f
  else if c == 92 then some 92    -- \\
  else if c == 34 then some 34    -- \"
  else none

/-- `unescape acc inp`: read a literal body up to the closing quote; returns the
string denoted and the input after the quote; `none` if the literal is unterminated.
`fuel` bounds the number of steps (the input length suffices). -/
def unescape : Nat → Bytes → Bytes → Option (Bytes × Bytes)
  | 0, _, _ => none
  | _, _, [] => none
  | fuel+1, acc, c :: rest =>
    if c == 34 then some (acc, rest)
    else if c == 92 then
      match rest with
      | [] => unescape fuel (acc ++ [92]) []
      | d :: rest' =>
        match escapeCode d with
        | some v => unescape fuel (acc ++ [v]) rest'
        | none =>
          if d == 120 || d == 88 then
            match rest' with
            | h1 :: h2 :: rest'' =>
              if isHexDigit h1 && isHexDigit h2 then unescape fuel (acc ++ [hexVal h1 * 16 + hexVal h2]) rest''
              else unescape fuel (acc ++ [92]) rest
            | _ => unescape fuel (acc ++ [92]) rest
          else unescape fuel (acc ++ [92]) rest
    else unescape fuel (acc ++ [c]) rest

end Libconfig
