import LibconfigModel.Tree
/-
  `config_setting_lookup_const` (path walker), `strtol` as used by it,
  `config_setting_get_elem`, `config_setting_get_member`.
-/
namespace Libconfig

/-- `strtol(s, &end, 10)` on a 64-bit `long`: skips `isspace`, optional sign,
decimal digits, saturates.  Returns the value and the number of bytes consumed
(0 when there is no digit: "no conversion"). -/
def strtol10 (s : Bytes) : Int × Nat :=
  let ws := s.takeWhile isSpace
  let r := s.dropWhile isSpace
  let (neg, sl, r) := match r with
    | 45 :: r' => (true, 1, r')
    | 43 :: r' => (false, 1, r')
    | _ => (false, 0, r)
  let ds := r.takeWhile isDigit
  if ds.isEmpty then (0, 0) else
  let a : Int := digitsVal 10 ds
  let v : Int := if neg then -a else a
  let v := if v > LLONG_MAX then LLONG_MAX else if v < LLONG_MIN then LLONG_MIN else v
  (v, ws.length + sl + ds.length)

/-- `config_setting_get_elem(setting, idx)` with `idx` already unsigned. -/
def getElem (n : Node) (idx : Nat) : Option Node :=
  if n.isAggregate then n.kids[idx]? else none

/-- `config_setting_get_member` (name non-NULL): index and node. -/
def getMember (n : Node) (name : Bytes) : Option (Nat × Node) :=
  if n.ty == T_GROUP then listSearch n.kids name 0 else none

def notSep (c : Nat) : Bool := !isPathSep c

/-- The `while(*p && found)` loop of `config_setting_lookup_const`.  `acc` is
the index path from the start setting to `cur`.  Returns the relative index
path of the setting found. -/
def lookupLoop : Nat → Node → Path → Bytes → Option Path
  | _, _, acc, [] => if acc.isEmpty then none else some acc
  | 0, _, _, _ :: _ => none
  | fuel+1, cur, acc, c :: cs =>
    let p1 : Bytes := if isPathSep c then cs else c :: cs
    match p1 with
    | 91 :: r =>
      let (v, used) := strtol10 r
      if used == 0 then none else
      match r.drop used with
      | 93 :: r' =>
        if v < 0 || v > INT_MAX then none else
        match getElem cur v.toNat with
        | none => none
        | some k => lookupLoop fuel k (acc ++ [v.toNat]) r'
      | _ => none
    | _ =>
      if cur.ty == T_GROUP then
        let nm := p1.takeWhile notSep
        let rest := p1.dropWhile notSep
        match listSearch cur.kids nm 0 with
        | none => none
        | some (i, k) => lookupLoop fuel k (acc ++ [i]) rest
      else
        -- `break`: `(*p || found == setting) ? NULL : found`
        if !p1.isEmpty || acc.isEmpty then none else some acc

/-- `config_setting_lookup(setting, path)`: relative index path of the result. -/
def lookupFrom (n : Node) (path : Bytes) : Option Path :=
  lookupLoop (path.length + 1) n [] path

/-- The loop of `config_setting_remove` that finds the start of the last path
component: the text after the last separator (empty if the path ends with a
separator). -/
def lastComponent (name : Bytes) : Bytes :=
  go name name
where
  /-- `cur` = candidate (`lastFound`), scanning `s`. -/
  go : Bytes → Bytes → Bytes
  | cur, [] => cur
  | cur, c :: cs => if isPathSep c then go cs cs else go cur cs

end Libconfig
