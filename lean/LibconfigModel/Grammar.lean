import LibconfigModel.Basic
/-
  The grammar of configuration files at the level of token kinds, in the
  symbol numbering of the bison tables (`yytname` in lib/grammar.c): the rules of
  lib/grammar.y — i.e. the documented BNF of doc/libconfig.texi (appendix
  "Configuration File Grammar") plus the four empty marker nonterminals `$@1 …
  $@4` that carry the mid-rule actions.  Written by hand from the documentation;
  `Properties/C02.lean` proves that the compiled tables agree with it.
-/
namespace Libconfig
namespace Grammar

/-! terminals (symbol kinds) -/
@[reducible] def EOF : Nat := 0
@[reducible] def BOOLEAN : Nat := 3
@[reducible] def INTEGER : Nat := 4
@[reducible] def HEX : Nat := 5
@[reducible] def INTEGER64 : Nat := 6
@[reducible] def HEX64 : Nat := 7
@[reducible] def FLOAT : Nat := 8
@[reducible] def STRING : Nat := 9
@[reducible] def NAME : Nat := 10
@[reducible] def EQUALS : Nat := 11
@[reducible] def ARRAY_START : Nat := 13
@[reducible] def ARRAY_END : Nat := 14
@[reducible] def LIST_START : Nat := 15
@[reducible] def LIST_END : Nat := 16
@[reducible] def COMMA : Nat := 17
@[reducible] def GROUP_START : Nat := 18
@[reducible] def GROUP_END : Nat := 19
@[reducible] def SEMICOLON : Nat := 20

/-! nonterminals -/
@[reducible] def ACCEPT : Nat := 23
@[reducible] def configuration : Nat := 24
@[reducible] def setting_list : Nat := 25
@[reducible] def setting_list_optional : Nat := 26
@[reducible] def setting_terminator : Nat := 27
@[reducible] def setting : Nat := 28
@[reducible] def M1 : Nat := 29          -- $@1
@[reducible] def array : Nat := 30
@[reducible] def M2 : Nat := 31          -- $@2
@[reducible] def list : Nat := 32
@[reducible] def M3 : Nat := 33          -- $@3
@[reducible] def value : Nat := 34
@[reducible] def string : Nat := 35
@[reducible] def simple_value : Nat := 36
@[reducible] def value_list : Nat := 37
@[reducible] def value_list_optional : Nat := 38
@[reducible] def simple_value_list : Nat := 39
@[reducible] def simple_value_list_optional : Nat := 40
@[reducible] def group : Nat := 41
@[reducible] def M4 : Nat := 42          -- $@4

def isTerminal (x : Nat) : Bool := decide (x < 23)

/-- rule `i` (bison rule numbers; index 0 unused, rule 1 is `$accept: configuration $end`):
left-hand side and right-hand side -/
def rules : List (Nat × List Nat) := [
  (0, []),
  (ACCEPT, [configuration, EOF]),
  (configuration, []),
  (configuration, [setting_list]),
  (setting_list, [setting]),
  (setting_list, [setting_list, setting]),
  (setting_list_optional, []),
  (setting_list_optional, [setting_list]),
  (setting_terminator, []),
  (setting_terminator, [SEMICOLON]),
  (setting_terminator, [COMMA]),
  (M1, []),
  (setting, [NAME, M1, EQUALS, value, setting_terminator]),
  (M2, []),
  (array, [ARRAY_START, M2, simple_value_list_optional, ARRAY_END]),
  (M3, []),
  (list, [LIST_START, M3, value_list_optional, LIST_END]),
  (value, [simple_value]),
  (value, [array]),
  (value, [list]),
  (value, [group]),
  (string, [STRING]),
  (string, [string, STRING]),
  (simple_value, [BOOLEAN]),
  (simple_value, [INTEGER]),
  (simple_value, [INTEGER64]),
  (simple_value, [HEX]),
  (simple_value, [HEX64]),
  (simple_value, [FLOAT]),
  (simple_value, [string]),
  (value_list, [value]),
  (value_list, [value_list, COMMA, value]),
  (value_list, [value_list, COMMA]),
  (value_list_optional, []),
  (value_list_optional, [value_list]),
  (simple_value_list, [simple_value]),
  (simple_value_list, [simple_value_list, COMMA, simple_value]),
  (simple_value_list, [simple_value_list, COMMA]),
  (simple_value_list_optional, []),
  (simple_value_list_optional, [simple_value_list]),
  (M4, []),
  (group, [GROUP_START, M4, setting_list_optional, GROUP_END])
]

/-- derivation trees -/
inductive Tree where
  | leaf (tok : Nat)
  | node (rule : Nat) (kids : List Tree)
deriving Repr, Inhabited

/-- the grammar symbol at the root of a tree -/
def Tree.sym : Tree → Nat
  | .leaf t => t
  | .node r _ => (rules.getD r (0, [])).1

mutual
/-- the terminals at the leaves, left to right -/
def Tree.yield : Tree → List Nat
  | .leaf t => [t]
  | .node _ kids => yieldList kids
def yieldList : List Tree → List Nat
  | [] => []
  | t :: ts => t.yield ++ yieldList ts
end

mutual
/-- every inner node is an instance of its rule: the children's symbols are the rule's
right-hand side; leaves are terminals -/
def Tree.Valid : Tree → Prop
  | .leaf t => isTerminal t = true
  | .node r kids => 1 ≤ r ∧ r < rules.length ∧ kids.map Tree.sym = (rules.getD r (0, [])).2 ∧ ValidList kids
def ValidList : List Tree → Prop
  | [] => True
  | t :: ts => t.Valid ∧ ValidList ts
end

/-- the token-kind sequence `w` (without the end marker) is a sentence of the grammar -/
def Derivable (w : List Nat) : Prop :=
  ∃ t : Tree, t.Valid ∧ t.sym = configuration ∧ t.yield = w

end Grammar
end Libconfig
