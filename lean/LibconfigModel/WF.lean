import LibconfigModel.Api
/-
  Well-formedness of the setting tree (property C04) as a proposition and as an
  executable check.
-/
namespace Libconfig

/-- Constraints a node places on itself and on its immediate children. -/
structure Node.LocalWF (n : Node) : Prop where
  tyRange : n.ty ≤ 8
  scalarNoKids : n.isAggregate = false → n.kids = []
  groupNames : n.ty = T_GROUP → ∀ k ∈ n.kids, ∃ nm, k.name = some nm ∧ validName nm = true
  groupDistinct : n.ty = T_GROUP → (n.kids.map (·.name)).Nodup
  listNameless : n.ty = T_LIST → ∀ k ∈ n.kids, k.name = none
  arrayNameless : n.ty = T_ARRAY → ∀ k ∈ n.kids, k.name = none
  arrayScalar : n.ty = T_ARRAY → ∀ k ∈ n.kids, isScalarTy k.ty = true
  arrayHomog : n.ty = T_ARRAY → ∀ k ∈ n.kids, ∀ k' ∈ n.kids, k.ty = k'.ty

/-- Every node reachable from `n` is locally well-formed. -/
def Node.WF (n : Node) : Prop := ∀ p m, n.get? p = some m → m.LocalWF

/-- The C04 invariant (`WF'` of DESIGN.md: nodes of type NONE are allowed). -/
structure Config.WF (c : Config) : Prop where
  rootNameless : c.root.name = none
  rootGroup : c.root.ty = T_GROUP
  nodes : c.root.WF

/-! ### executable version (driver op `wf`) -/

def nodupB : List (Option Bytes) → Bool
  | [] => true
  | x :: xs => !xs.contains x && nodupB xs

def Node.localWFb (n : Node) : Bool :=
  decide (n.ty ≤ 8) &&
  (n.isAggregate || n.kids.isEmpty) &&
  (n.ty != T_GROUP ||
    (n.kids.all (fun k => match k.name with | some nm => validName nm | none => false) &&
     nodupB (n.kids.map (·.name)))) &&
  (n.ty != T_LIST || n.kids.all (fun k => k.name.isNone)) &&
  (n.ty != T_ARRAY ||
    (n.kids.all (fun k => k.name.isNone && isScalarTy k.ty) &&
     match n.kids with
     | [] => true
     | k0 :: ks => ks.all (fun k => k.ty == k0.ty)))

mutual
def Node.wfb : Node → Bool
  | .mk name ty fmt ival fval sval kids hook line file =>
    (Node.mk name ty fmt ival fval sval kids hook line file).localWFb && wfbList kids
def wfbList : List Node → Bool
  | [] => true
  | k :: ks => k.wfb && wfbList ks
end

def Config.wfb (c : Config) : Bool := c.root.name.isNone && c.root.ty == T_GROUP && c.root.wfb

/-! ### executable lookup oracle (driver op `lookup_all`): every setting is
found from every ancestor by the spellings the harness enumerates -/

def sepFor (i : Nat) : Nat := [46, 58, 47].getD (i % 3) 46

def sepBytes : Option Nat → Bytes
  | some c => [c]
  | none => []

mutual
/-- all (path text, relative index path) pairs below `n`, built like the harness does -/
def spellingsBelow : Nat → Node → Bytes → Path → Nat → List (Bytes × Path)
  | 0, _, _, _, _ => []
  | fuel+1, n, pre, rel, depth => spellingsKids fuel n.kids 0 pre rel depth
def spellingsKids : Nat → List Node → Nat → Bytes → Path → Nat → List (Bytes × Path)
  | 0, _, _, _, _, _ => []
  | _, [], _, _, _, _ => []
  | fuel+1, k :: ks, i, pre, rel, depth =>
    let comps : List Bytes := [[91] ++ natToDec i ++ [93]] ++ (match k.name with | some nm => [nm] | none => [])
    let seps : List (Option Nat) := [some (sepFor depth), some (sepFor (depth + 1)), some (sepFor (depth + 2))] ++
      (if depth == 0 then [none] else [])
    let here : List (Bytes × Path) := comps.flatMap fun comp => seps.map fun s =>
      (pre ++ sepBytes s ++ comp, rel ++ [i])
    let deeper : List (Bytes × Path) := comps.flatMap fun comp =>
      ([some (sepFor depth)] ++ (if depth == 0 then [none] else [])).flatMap fun s =>
        spellingsBelow fuel k (pre ++ sepBytes s ++ comp) (rel ++ [i]) (depth + 1)
    here ++ deeper ++ spellingsKids fuel ks (i + 1) pre rel depth
end

mutual
def lookupAllFrom : Nat → Node → Bool
  | 0, _ => true
  | fuel+1, base =>
    (spellingsBelow 64 base [] [] 0).all (fun (txt, rel) => lookupFrom base txt == some rel) &&
    lookupAllKids fuel base.kids
def lookupAllKids : Nat → List Node → Bool
  | 0, _ => true
  | _, [] => true
  | fuel+1, k :: ks => lookupAllFrom fuel k && lookupAllKids fuel ks
end

end Libconfig
