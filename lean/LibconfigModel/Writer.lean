import LibconfigModel.Api
/-
  `config_write`: `__config_write_setting`, `__config_write_value`,
  `__config_indent` (lib/libconfig.c) and `libconfig_format_double` (lib/util.c).
-/
namespace Libconfig

/-- `libconfig_format_double(val, precision, sci_ok, buf, buflen)` -/
def formatDouble (bufLen : Nat) (b : Nat) (precision : Nat) (sci : Bool) : Bytes :=
  -- snprintf(buf, buflen - 3, ...) keeps at most buflen - 4 characters
  let raw0 := if sci then F64.fmtG b precision else F64.fmtF b precision
  -- a finite value whose low-precision %g rendering is out of range is re-rendered with 17 digits
  let raw := if sci && F64.isFinite b && F64.isInf (F64.strtod (raw0.take (bufLen - 4))) then F64.fmtG b 17 else raw0
  let s := raw.take (bufLen - 4)
  if s.contains 101 then s
  else if !s.contains 46 then s ++ [46, 48]
  else
    -- strip trailing zeros but keep one digit after the point
    let ip := s.takeWhile (· != 46)
    let fp := (s.dropWhile (· != 46)).drop 1
    match fp with
    | [] => s
    | d :: ds => ip ++ [46, d] ++ F64.stripZeros ds

/-- `__config_indent(stream, depth, w)`: `fprintf("%*s", (depth-1)*w, " ")`
prints at least one space; with `w = 0` one tab per level. -/
def indent (depth w : Nat) : Bytes :=
  if w != 0 then List.replicate (max ((depth - 1) * w) 1) 32
  else List.replicate (depth - 1) 9

/-- The string escaping loop of `__config_write_value`. -/
def escapeString (s : Bytes) : Bytes :=
  s.flatMap fun c =>
    if c == 34 || c == 92 then [92, c]
    else if c == 10 then [92, 110]
    else if c == 13 then [92, 114]
    else if c == 12 then [92, 102]
    else if c == 9 then [92, 116]
    else if c ≥ 32 then [c]
    else [92, 120, digitChar (c / 16), digitChar (c % 16)]

/-- `%X` of an `int` / `%llX` of a `long long`: the unsigned bit pattern. -/
def hexOfInt (bits : Nat) (v : Int) : Bytes :=
  natToHexUpper (v % (2 ^ bits : Int)).toNat

/-- scalar cases of `__config_write_value` -/
def writeScalar (bufLen : Nat) (c : Config) (n : Node) : Bytes :=
  let fmt := effFormat c n
  if n.ty == T_BOOL then (if n.ival != 0 then bytesOfString "true" else bytesOfString "false")
  else if n.ty == T_INT then
    (if fmt == FMT_HEX then [48, 120] ++ hexOfInt 32 n.ival else intToDec n.ival)
  else if n.ty == T_INT64 then
    (if fmt == FMT_HEX then [48, 120] ++ hexOfInt 64 n.ival ++ [76] else intToDec n.ival ++ [76])
  else if n.ty == T_FLOAT then
    formatDouble bufLen n.fval c.floatPrecision (c.opt OPT_SCIENTIFIC)
  else if n.ty == T_STRING then
    [34] ++ escapeString (n.sval.getD []) ++ [34]
  else bytesOfString "???"

/-- name and assignment character written by `__config_write_setting` -/
def settingPrefix (c : Config) (depth : Nat) (name : Option Bytes) (ty : Nat) : Bytes :=
  (if depth > 1 then indent depth c.tabWidth else []) ++
  (match name with
   | some nm =>
     nm ++ [32, (if ty == T_GROUP then (if c.opt OPT_COLON_GROUPS then 58 else 61)
                 else (if c.opt OPT_COLON_NONGROUPS then 58 else 61)), 32]
   | none => [])

/-- `;` and newline written by `__config_write_setting` -/
def settingSuffix (c : Config) (depth : Nat) : Bytes :=
  if depth > 0 then (if c.opt OPT_SEMICOLON then [59] else []) ++ [10] else []

mutual
/-- `__config_write_value(config, &s->value, s->type, format, depth, stream)` -/
def writeValue (bufLen : Nat) (c : Config) (depth : Nat) : Node → Bytes
  | .mk name ty fmt ival fval sval kids hook line file =>
    if ty == T_LIST then [40, 32] ++ writeElems bufLen c (depth + 1) kids ++ [41]
    else if ty == T_ARRAY then [91, 32] ++ writeElems bufLen c (depth + 1) kids ++ [93]
    else if ty == T_GROUP then
      (if depth > 0 then
        (if c.opt OPT_BRACE_SEPARATE then
          [10] ++ (if depth > 1 then indent depth c.tabWidth else [])
         else []) ++ [123, 10]
       else []) ++
      writeMembers bufLen c (depth + 1) kids ++
      (if depth > 1 then indent depth c.tabWidth else []) ++
      (if depth > 0 then [125] else [])
    else writeScalar bufLen c (.mk name ty fmt ival fval sval [] hook line file)
/-- the element loop of the list / array cases -/
def writeElems (bufLen : Nat) (c : Config) (depth : Nat) : List Node → Bytes
  | [] => []
  | k :: ks => writeValue bufLen c depth k ++ (if ks.isEmpty then [] else [44]) ++ [32] ++
      writeElems bufLen c depth ks
/-- the member loop of the group case: `__config_write_setting` for each child -/
def writeMembers (bufLen : Nat) (c : Config) (depth : Nat) : List Node → Bytes
  | [] => []
  | k :: ks => settingPrefix c depth k.name k.ty ++ writeValue bufLen c depth k ++
      settingSuffix c depth ++ writeMembers bufLen c depth ks
end

/-- `__config_write_setting(config, setting, stream, depth)` -/
def writeSetting (bufLen : Nat) (c : Config) (depth : Nat) (n : Node) : Bytes :=
  settingPrefix c depth n.name n.ty ++ writeValue bufLen c depth n ++ settingSuffix c depth

/-- `config_write(config, stream)`: the bytes written. -/
def Config.write (bufLen : Nat) (c : Config) : Bytes := writeSetting bufLen c 0 c.root

end Libconfig
