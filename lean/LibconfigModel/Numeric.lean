import LibconfigModel.Basic
import LibconfigModel.F64
/-
  `libconfig_parse_integer` and `libconfig_parse_hex64` (lib/util.c) on the
  languages of the scanner rules that call them, i.e. glibc `strtoll(s,&e,0)`
  and `strtoull(s,NULL,16)` restricted to those spellings.
-/
namespace Libconfig

def splitSign (s : Bytes) : Bool × Bytes :=
  match s with
  | 45 :: r => (true, r)
  | 43 :: r => (false, r)
  | _ => (false, s)

def isOctDigit (c : Nat) : Bool := decide (48 ≤ c) && decide (c ≤ 55)

def stripLL (s : Bytes) : Bytes :=
  match s with
  | 76 :: 76 :: r => r
  | 76 :: r => r
  | _ => s

/-- `libconfig_parse_integer(s, &ok)` for `s ∈ [-+]?[0-9]+(L(L)?)?`:
`strtoll` with base 0 (a leading `0` selects octal), optional `L`/`LL` suffix,
anything left over or a range error means "not ok". -/
def parseInteger (s : Bytes) : Option Int :=
  let (neg, r) := splitSign s
  let oct := match r with | 48 :: _ => true | _ => false
  let ds := if oct then r.takeWhile isOctDigit else r.takeWhile isDigit
  if ds.isEmpty then none else
  let rest := stripLL (r.drop ds.length)
  if !rest.isEmpty then none else
  let a : Int := digitsVal (if oct then 8 else 10) ds
  let v := if neg then -a else a
  if fits64 v then some v else none

/-- `libconfig_parse_hex64(s, &ok)` for `s ∈ 0[Xx][0-9A-Fa-f]+(L(L)?)?`:
`strtoull(s, NULL, 16)`; overflow means "not ok". -/
def parseHex64 (s : Bytes) : Option Nat :=
  let ds := (s.drop 2).takeWhile isHexDigit
  let v := digitsVal 16 ds
  if v < 18446744073709551616 then some v else none

end Libconfig
