import LibconfigModel.TableTypes
/-
  The matching loop that flex generates (`yy_match` … `yy_find_action` in
  lib/scanner.c): compressed-table transition with the `yy_chk / yy_def /
  yy_meta` chase, last-accepting-state backup, start state = 1 + 2·(start
  condition) + at-beginning-of-line.  It is generic: everything specific to
  libconfig is in the translated tables.
-/
namespace Libconfig
namespace Flex

/-- Equivalence class of an input byte.  A NUL inside the data is handled by
`yy_try_NUL_trans`, which uses a fixed class. -/
def classOf (T : FlexTables) (c : Nat) : Nat :=
  if c == 0 then T.nulClass else T.ec.getN c

/-- `while ( yy_chk[yy_base[s] + c] != s ) { s = yy_def[s]; if ( s >= N ) c = yy_meta[c]; }`
then `yy_nxt[yy_base[s] + c]`.  `fuel` bounds the chase (number of states). -/
def trans (T : FlexTables) : Nat → Nat → Nat → Nat
  | 0, _, _ => T.jamState
  | fuel+1, s, c =>
    if T.chk.getN (T.base.getN s + c) == s then T.nxt.getN (T.base.getN s + c)
    else
      let s' := T.deflt.getN s
      trans T fuel s' (if s' ≥ T.metaThreshold then T.metaT.getN c else c)

def step (T : FlexTables) (s : Nat) (byte : Nat) : Nat :=
  trans T (T.base.len + 1) s (classOf T byte)

/-- Run the automaton from state `s` over `inp`; `pos` bytes have been consumed
and `last` is the last accepting (state, position) seen.  Returns the accepted
rule and match length. -/
def scan (T : FlexTables) : Nat → Bytes → Nat → Option (Nat × Nat) → Option (Nat × Nat)
  | s, [], pos, last =>
    -- end of input in mid-token: `yy_get_previous_state` + `yy_find_action`
    if T.accept.getN s != 0 then some (T.accept.getN s, pos) else last
  | s, c :: cs, pos, last =>
    let last' := if T.accept.getN s != 0 then some (T.accept.getN s, pos) else last
    let s' := step T s c
    if s' == T.jamState then last' else scan T s' cs (pos + 1) last'

def startState (sc : Nat) (bol : Bool) : Nat := 2 * sc + 1 + (if bol then 1 else 0)

/-- The rule matched at the head of `inp` (start condition `sc`, `bol` = at
beginning of line) and the length of the match; `none` only for empty input. -/
def next (T : FlexTables) (sc : Nat) (bol : Bool) (inp : Bytes) : Option (Nat × Nat) :=
  scan T (startState sc bol) inp 0 none

end Flex
end Libconfig
