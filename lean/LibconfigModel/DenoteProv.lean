import LibconfigModel.Denote
/-
  WHERE each setting of a configuration was written: the reference interpreter of Denote.lean once
  more — the successful branch this time —, telling for every setting of the tree it builds WHICH
  TOKEN of the text that setting reports as its source position (`config_setting_source_line`,
  `config_setting_source_file`).  Written by hand from the documentation and from the grammar
  actions of lib/grammar.y like Denote.lean and DenotePos.lean; it knows nothing about LR tables,
  lookahead, default reductions, the scanner's line counter or its include stack.

  What lib/grammar.y records (`CAPTURE_PARSE_POS`):

    * a NAMED setting — a member of a group, whatever its value: scalar, array, list or group —
      is created by the mid-rule action behind its NAME token; its position is captured there and
      never touched again (the value actions only fill in type and value): it reports the position
      of its NAME token;
    * an ELEMENT of a list that is itself an array, a list or a group is created by the mid-rule
      action behind its opening bracket: it reports the position of that `[`, `(` or `{`;
    * a scalar ELEMENT of a list or an array is created by the action of `simple_value`; for
      BOOLEAN … FLOAT that action belongs to the literal: the element reports the position of its
      own token.  A STRING element is the exception: adjacent string literals are concatenated, so
      the action runs when the parser has seen the token AFTER the last literal: the element
      reports the position of the token that FOLLOWS it (`,`, `)` or `]`) — the same phenomenon as
      the project's recorded finding `C02:string-element-mismatch-line` (DenotePos.lean,
      `reportIndex`), here for the successful case.  `Properties/C10Prov.lean` proves that this is
      exactly what `libconfig_yyparse` does, and exhibits a text in which that is another line.
    * the root group is not created by the parser: `__config_read` makes it (line 0, the name of
      the file read, none for strings and streams).

  The functions `scalarP`, `arrayRestP`, `valueP`, `listRestP`, `settingsP` are `scalar`,
  `arrayRest`, `value`, `listRest`, `settings` of Denote.lean, clause by clause, with one addition:
  every node built is STAMPED — its fields `line` and `file` are filled in — with `σ k`, where
  `σ : Nat → Stamp` is any assignment of positions to tokens and `k` identifies the token as
  described above.  Tokens are identified by the number of items from that token to the end of the
  text (`items.length` for the token in front of `items`; 0: the end of the input), which is what a
  recursive-descent reader has at hand; `denoteAt` translates to indices from the front.
  Forgetting the stamps gives back the functions of Denote.lean (`Proofs/C10ProvSpec.lean`).

      denoteAt o σ root toks     the tree `denote o toks` with every setting stamped by `σ i`,
                                 `i` the INDEX (in `toks`) of the token whose position it reports
      denoteProv o toks          … stamped with that index itself (in the field `line`)
      provIndex o toks p         the index of the token whose position the setting at path `p`
                                 reports
-/
namespace Libconfig.Denote
open Libconfig

/-- a source position as a setting records it: line and file name -/
abbrev Stamp := Nat × Option Bytes

/-- the node with the source position `p` -/
def stamped (n : Node) (p : Stamp) : Node := { n with line := p.1, file := p.2 }

/-- **Which token an ELEMENT reports**, as the number of items from that token to the end: for an
element that starts with a string literal the token behind its last literal (the one in front of
`(strings tl).2`), for every other element (a one-token scalar, or the opening bracket of an
aggregate) its first token. -/
def elemKey : List Item → Nat
  | .string _ :: tl => (strings tl).2.length
  | items => items.length

/-- the token a value reports: a member (`mk = some k`) the NAME token `k` it was given, an
element its own (`elemKey`) -/
def keyOf (mk : Option Nat) (items : List Item) : Nat :=
  match mk with
  | some k => k
  | none => elemKey items

/-! ### scalars and arrays -/

/-- `scalar` of Denote.lean, stamped -/
def scalarP (σ : Nat → Stamp) (nm : Option Bytes) (mk : Option Nat) (items : List Item) :
    Option (Node × List Item) :=
  match scalar nm items with
  | some (x, rest) => some (stamped x (σ (keyOf mk items)), rest)
  | none => none

/-- `arrayRest` of Denote.lean, stamped -/
def arrayRestP (σ : Nat → Stamp) (ty : Nat) : Nat → List Node → List Item → Res (List Node)
  | 0, _, _ => .error .syntax
  | _ + 1, acc, .arrayEnd :: rest => .ok acc rest
  | fuel + 1, acc, .comma :: rest =>
    match scalarP σ none none rest with
    | none => arrayRestP σ ty fuel acc rest
    | some (x, rest') =>
      if x.ty ≠ ty then .error .arrayElemType
      else arrayRestP σ ty fuel (acc ++ [x]) rest'
  | _ + 1, _, _ => .error .syntax

/-! ### values, lists, groups -/

mutual
/-- `value` of Denote.lean, stamped: `mk` is `some k` for the value of a member whose NAME token
is `k`, `none` for an element -/
def valueP (σ : Nat → Stamp) (o : Options) : Nat → Option Bytes → Option Nat → List Item → Res Node
  | 0, _, _, _ => .error .syntax
  | fuel + 1, nm, mk, .arrayStart :: rest =>
    match rest with
    | .arrayEnd :: rest' =>
      .ok (stamped { name := nm, ty := T_ARRAY } (σ (keyOf mk (.arrayStart :: rest)))) rest'
    | _ =>
      match scalarP σ none none rest with
      | none => .error .syntax
      | some (x, rest') =>
        match arrayRestP σ x.ty fuel [x] rest' with
        | .error k => .error k
        | .ok elems rest'' =>
          .ok (stamped { name := nm, ty := T_ARRAY, kids := elems }
            (σ (keyOf mk (.arrayStart :: rest)))) rest''
  | fuel + 1, nm, mk, .listStart :: rest =>
    match rest with
    | .listEnd :: rest' =>
      .ok (stamped { name := nm, ty := T_LIST } (σ (keyOf mk (.listStart :: rest)))) rest'
    | _ =>
      match valueP σ o fuel none none rest with
      | .error k => .error k
      | .ok x rest' =>
        match listRestP σ o fuel [x] rest' with
        | .error k => .error k
        | .ok elems rest'' =>
          .ok (stamped { name := nm, ty := T_LIST, kids := elems }
            (σ (keyOf mk (.listStart :: rest)))) rest''
  | fuel + 1, nm, mk, .groupStart :: rest =>
    match settingsP σ o fuel [] rest with
    | .error k => .error k
    | .ok members (.groupEnd :: rest') =>
      .ok (stamped { name := nm, ty := T_GROUP, kids := members }
        (σ (keyOf mk (.groupStart :: rest)))) rest'
    | .ok _ _ => .error .syntax
  | _ + 1, nm, mk, items =>
    match scalarP σ nm mk items with
    | some (x, rest) => .ok x rest
    | none => .error .syntax
/-- `listRest` of Denote.lean, stamped -/
def listRestP (σ : Nat → Stamp) (o : Options) : Nat → List Node → List Item → Res (List Node)
  | 0, _, _ => .error .syntax
  | _ + 1, acc, .listEnd :: rest => .ok acc rest
  | fuel + 1, acc, .comma :: rest =>
    match rest with
    | .comma :: _ => listRestP σ o fuel acc rest
    | .listEnd :: _ => listRestP σ o fuel acc rest
    | _ =>
      match valueP σ o fuel none none rest with
      | .error k => .error k
      | .ok x rest' => listRestP σ o fuel (acc ++ [x]) rest'
  | _ + 1, _, _ => .error .syntax
/-- `settings` of Denote.lean, stamped: a member is stamped with its NAME token -/
def settingsP (σ : Nat → Stamp) (o : Options) : Nat → List Node → List Item → Res (List Node)
  | 0, _, _ => .error .syntax
  | fuel + 1, members, .name nm :: rest =>
    match enter o members nm with
    | none => .error .duplicateName
    | some members' =>
      match rest with
      | .assign :: rest' =>
        match valueP σ o fuel (some nm) (some (rest.length + 1)) rest' with   -- the NAME token
        | .error k => .error k
        | .ok x rest'' => settingsP σ o fuel (members' ++ [x]) (skipTerminator rest'')
      | _ => .error .syntax
  | _ + 1, members, items => .ok members items
end

/-! ### configurations -/

/-- **The tree a token sequence denotes, with source positions**: `denote o toks` of Denote.lean
with every setting stamped by `σ i`, where `i` is the index in `toks` of the token whose position
the setting reports (`i = toks.length`: the end of the input — a string element cannot be the last
thing of a text that is accepted, so this does not occur in a result), and the root stamped by
`root`. -/
def denoteAt (o : Options) (σ : Nat → Stamp) (root : Stamp) (toks : List (Nat × TokVal)) : Result :=
  match settingsP (fun k => σ (toks.length - k)) o (toks.length + 1) [] (toks.map itemOf) with
  | .error k => .error k
  | .ok members [] => .ok (stamped { ty := T_GROUP, kids := members } root)
  | .ok _ (_ :: _) => .error .syntax

/-- **The provenance tree**: `denote o toks` in which the field `line` of every setting (the root
apart) holds the INDEX of the token whose position that setting reports: a named setting its NAME
token, an aggregate element its opening bracket, a one-token scalar element its own token, a
string element the token that follows its last literal. -/
def denoteProv (o : Options) (toks : List (Nat × TokVal)) : Result :=
  denoteAt o (fun i => (i, none)) (0, none) toks

/-- **The index of the token whose position the setting at path `p` reports** (`none`: for the
root, which no token creates; for a path that addresses nothing; for a text that is rejected). -/
def provIndex (o : Options) (toks : List (Nat × TokVal)) (p : Path) : Option Nat :=
  match p, denoteProv o toks with
  | _ :: _, .ok t => (t.get? p).map (·.line)
  | _, _ => none

end Libconfig.Denote
