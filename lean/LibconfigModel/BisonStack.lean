import LibconfigModel.Generated.ParserTables
/-
  The MEMORY side of the parser stacks of the generated parser (lib/grammar.c, bison 3.8,
  `%define api.pure`, `yyparse (void *scanner, struct parse_context *ctx, struct
  scan_context *scan_ctx)`; the stacks are extended by `YYSTACK_RELOCATE`, neither
  `yyoverflow` nor a location stack is in use).  Companion of `FlexBuffer.lean`.

  `Parser.lean` runs the LALR loop over an idealised `List` and stops at `YYMAXDEPTH`
  entries.  Here is what grammar.c does with memory, statement by statement:

  * the declarations at the head of `yyparse` (`start`): `yystacksize = YYINITDEPTH`,
    `yyss = yyssa`, `yyssp = yyss`, `yyvs = yyvsa`, `yyvsp = yyvs`, the two automatic arrays
    `yyssa[YYINITDEPTH]`, `yyvsa[YYINITDEPTH]` uninitialised; then `goto yysetstate` with
    `yystate = 0` (`init`);
  * `yynewstate: yyssp++;` (`newState`) and `yysetstate:` (`setState`): the store
    `*yyssp = yystate` FIRST, then the test `yyss + yystacksize - 1 <= yyssp`, and when it
    holds (`growStack`): `yysize = yyssp - yyss + 1`; `if (YYMAXDEPTH <= yystacksize) YYNOMEM;`
    `yystacksize *= 2; if (YYMAXDEPTH < yystacksize) yystacksize = YYMAXDEPTH;`
    `yyptr = YYSTACK_ALLOC (YYSTACK_BYTES (yystacksize)); if (! yyptr) YYNOMEM;` the two
    `YYSTACK_RELOCATE`s (`YYCOPY` of `yysize` elements each, `relocate`), `if (yyss1 != yyssa)
    YYSTACK_FREE (yyss1);` `yyssp = yyss + yysize - 1; yyvsp = yyvs + yysize - 1;` and the second
    test `if (yyss + yystacksize - 1 <= yyssp) YYABORT;`;
  * a shift (`shift`: `*++yyvsp = yylval; goto yynewstate` — in `yybackup` and, for the error
    token, at the end of `yyerrlab1`);
  * `yyreduce` (`reduce`): `yyval = yyvsp[1-yylen]` (for an empty rule a load of the slot ABOVE
    the top: "the following line sets YYVAL to garbage"), the action, `YYPOPSTACK (yylen)`,
    `*++yyvsp = yyval`, the load of `*yyssp` for the goto, `goto yynewstate`;
  * the popping loop of `yyerrlab1` (`errPop`): `if (yyssp == yyss) YYABORT; yydestruct (…,
    yyvsp); YYPOPSTACK (1); yystate = *yyssp;`;
  * `yyreturnlab` (`returnLab`), reached from `YYACCEPT`, `YYABORT`, `YYNOMEM`: `YYPOPSTACK
    (yylen)`, `while (yyssp != yyss) { yydestruct (…, +*yyssp, yyvsp); YYPOPSTACK (1); }`,
    `if (yyss != yyssa) YYSTACK_FREE (yyss);`.

  The tables are NOT fixed here: an execution is a list of `Event`s — a shift of any state
  and value, a reduction popping any number `n` of entries and pushing any state and value,
  `k` error pops, or the end of the parse with any `yylen`.  Every behaviour of the loop of
  `Parser.lean` is among these (`Proofs/C03StackSim.lean` derives the events from `yystep`);
  the theorems of `Properties/C03Stack.lean` hold for all of them.  A reduction that asks for
  more entries than lie above the bottom of the stack (`n > yyssp - yyss`) would move the
  pointers below the arrays; the model stops with the status `fault` without touching memory.
  `C03_no_underflow` is the reason why the loop never asks for that.

  Pointers are offsets (`Nat`) into the block they point to.  A block is the pair of
  automatic arrays (`Blk.auto`) or the `id`-th block returned by `YYSTACK_ALLOC` (`Blk.heap
  id`, one `union yyalloc` array holding both stacks; its byte layout is `vsByteOffset` /
  `stackBytes` below).  The memory behind `yyss` / `yyvs` is a list of slots, `none` for a
  slot that was never written (automatic storage and `malloc` deliver indeterminate contents).
  `YYSTACK_ALLOC` may fail: each pushing event carries the answer (`ok`) that the allocator
  gives IF the push has to extend the stacks.

  Ghost state: `log`, every store / load / copy / allocation / release, NEWEST FIRST, each with
  the block it goes to and the number of slots of that block at that moment; `nextId`, the
  number of successful allocations.

  Cross-check (validation, not part of any proof): lib/*.c compiled with `-DYYDEBUG=1`,
  `libconfig_yydebug = 1`, reading `a=` + `n` × `(` + `n` × `)` + `;`.  The trace prints "Stack
  size increased to 400 / 800 / 1600 / 3200 / 6400 / 10000" directly behind the 200th / 400th /
  800th / 1600th / 3200th / 6400th "Entering state" line (no entry is popped while the parentheses
  are opened, so the k-th such line is the push of the k-th entry) — the sizes and the moments of
  `replay_199` … `replay_9998` and of `deep_replay_199`; for `n = 4996` the longest "Stack now" line
  has 9998 entries and the read succeeds, for `n = 4997` it has 10000 and the read fails with
  "memory exhausted" (`C03S_nested_lists`).
-/
namespace Libconfig
namespace BisonStack

/-- the test of `yysetstate`, as written in grammar.c: `yyss + yystacksize - 1 <= yyssp`, as a
function of `yystacksize` and `yyssp - yyss` -/
def fullTestC (sz off : Nat) : Bool := decide ((sz : Int) - 1 ≤ (off : Int))

/-- the seeded change: `yyss + yystacksize - 1 < yyssp` -/
def fullTestSeeded (sz off : Nat) : Bool := decide ((sz : Int) - 1 < (off : Int))

structure Params where
  /-- `YYINITDEPTH` -/
  I : Nat
  /-- `YYMAXDEPTH` -/
  M : Nat
  /-- the test `yyss + yystacksize - 1 <= yyssp` (both occurrences) -/
  test : Nat → Nat → Bool := fullTestC

/-- the assumptions of the theorems: `0 < YYINITDEPTH ≤ YYMAXDEPTH`, the test of grammar.c -/
structure Params.OK (P : Params) : Prop where
  I : 0 < P.I
  M : P.I ≤ P.M
  test : P.test = fullTestC

/-- the constants of lib/grammar.c (translated on every run) -/
def parserParams : Params :=
  { I := Generated.parser.initDepth, M := Generated.parser.maxDepth }

/-- where `yyss` and `yyvs` point -/
inductive Blk where
  /-- the automatic arrays `yyssa`, `yyvsa` -/
  | auto
  /-- the block returned by the `id`-th successful `YYSTACK_ALLOC` (counting from 0) -/
  | heap (id : Nat)
deriving Repr, DecidableEq, Inhabited

/-- One memory event of the stack code.  `b` is the block, `cap` the number of slots each of
its two arrays has, `idx` the slot. -/
inductive Access where
  /-- `*yyssp = yystate` -/
  | storeS (b : Blk) (cap idx : Nat)
  /-- `*++yyvsp = yylval` / `*++yyvsp = yyval` -/
  | storeV (b : Blk) (cap idx : Nat)
  /-- a load of `*yyssp`; `init`: the slot has been written -/
  | loadS (b : Blk) (cap idx : Nat) (init : Bool)
  /-- a load from the value stack (`yyvsp[1-yylen]` with `yylen ≥ 1`, `yydestruct (…, yyvsp)`) -/
  | loadV (b : Blk) (cap idx : Nat) (init : Bool)
  /-- `yyval = yyvsp[1-yylen]` with `yylen = 0`: the slot above the top, whatever it holds -/
  | garbageV (b : Blk) (cap idx : Nat)
  /-- `YYCOPY (&yyptr->yyss_alloc, yyss, yysize)`: elements `0 … n-1` -/
  | copyS (src : Blk) (srcCap : Nat) (dst : Blk) (dstCap n : Nat)
  /-- `YYCOPY (&yyptr->yyvs_alloc, yyvs, yysize)` -/
  | copyV (src : Blk) (srcCap : Nat) (dst : Blk) (dstCap n : Nat)
  /-- `YYSTACK_ALLOC (YYSTACK_BYTES (slots))` returned block `b` -/
  | alloc (b : Blk) (slots : Nat)
  /-- `YYSTACK_ALLOC (YYSTACK_BYTES (slots))` returned NULL -/
  | allocFail (slots : Nat)
  /-- `YYSTACK_FREE (b)` -/
  | free (b : Blk)
deriving Repr, DecidableEq

/-- the access lies inside its block; a load (other than the documented garbage load) reads a
slot that has been written; only heap blocks are released -/
def Access.ok : Access → Prop
  | .storeS _ cap idx => idx < cap
  | .storeV _ cap idx => idx < cap
  | .loadS _ cap idx init => idx < cap ∧ init = true
  | .loadV _ cap idx init => idx < cap ∧ init = true
  | .garbageV _ cap idx => idx < cap
  | .copyS _ srcCap _ dstCap n => n ≤ srcCap ∧ n ≤ dstCap
  | .copyV _ srcCap _ dstCap n => n ≤ srcCap ∧ n ≤ dstCap
  | .alloc b slots => b ≠ .auto ∧ 0 < slots
  | .allocFail _ => True
  | .free b => b ≠ .auto

instance : DecidablePred Access.ok := fun a => by
  cases a <;> unfold Access.ok <;> infer_instance

/-- `yyresult` -/
inductive Result where
  /-- `YYACCEPT`: 0 -/
  | accept
  /-- `YYABORT`: 1 -/
  | abort
  /-- `YYNOMEM`: `yyerror ("memory exhausted")`, 2 -/
  | nomem
deriving Repr, DecidableEq, Inhabited

inductive Status where
  | running
  /-- `yyparse` has returned (after `yyreturnlab`) -/
  | done (r : Result)
  /-- an event asked for a pop below the bottom of the stack (not a behaviour of the parser) -/
  | fault
deriving Repr, DecidableEq, Inhabited

/-- The stack variables of `yyparse` and the memory they point to. -/
structure State (V : Type) where
  /-- the block `yyss` and `yyvs` point into: `yyss == yyssa` iff `.auto` -/
  loc : Blk
  /-- `yystacksize` -/
  stacksize : Nat
  /-- the state array behind `yyss`; `ss.length` slots are allocated -/
  ss : List (Option Nat)
  /-- the value array behind `yyvs` -/
  vs : List (Option V)
  /-- `yyssp - yyss` -/
  ssp : Nat
  /-- `yyvsp - yyvs` -/
  vsp : Nat
  status : Status := .running
  /-- ghost: number of successful `YYSTACK_ALLOC` calls -/
  nextId : Nat := 0
  /-- ghost: every access so far, newest first -/
  log : List Access := []
deriving Repr, DecidableEq

variable {V : Type}

/-- the slot has been written -/
def isInit {α : Type} (l : List (Option α)) (i : Nat) : Bool :=
  match l[i]? with
  | some (some _) => true
  | _ => false

/-! ### `yyreturnlab` -/

/-- `while (yyssp != yyss) { yydestruct ("Cleanup: popping", YY_ACCESSING_SYMBOL (+*yyssp), yyvsp,
…); YYPOPSTACK (1); }` (structural in `fuel`; `yyssp - yyss` iterations are what it takes) -/
def cleanup : Nat → State V → State V
  | 0, s => s
  | fuel + 1, s =>
    if s.ssp = 0 then s
    else
      cleanup fuel
        { s with ssp := s.ssp - 1, vsp := s.vsp - 1,
                 log := .loadV s.loc s.vs.length s.vsp (isInit s.vs s.vsp) ::
                        .loadS s.loc s.ss.length s.ssp (isInit s.ss s.ssp) :: s.log }

/-- `yyreturnlab` with `yyresult = r` and `yylen = len`: `YYPOPSTACK (yylen)`, the cleanup loop,
`if (yyss != yyssa) YYSTACK_FREE (yyss);` -/
def returnLab (r : Result) (len : Nat) (s : State V) : State V :=
  if len > s.ssp then { s with status := .fault } else
  let s1 := { s with ssp := s.ssp - len, vsp := s.vsp - len }
  let s2 := cleanup s1.ssp s1
  match s2.loc with
  | .auto => { s2 with status := .done r }
  | .heap id => { s2 with status := .done r, log := .free (.heap id) :: s2.log }

/-! ### `yysetstate` -/

/-- what the two `YYSTACK_RELOCATE`s leave in the new arrays of `sz` slots: the first `n`
elements of the old array, then memory as `YYSTACK_ALLOC` delivered it (`yycopy_eq_relocate`
in Proofs/C03StackInv.lean: this is the effect of the element loop of `YYCOPY`) -/
def relocate {α : Type} (old : List (Option α)) (n sz : Nat) : List (Option α) :=
  old.take n ++ List.replicate (sz - n) none

/-- the element loop of `YYCOPY (Dst, Src, Count)`: `for (yyi = 0; yyi < (Count); yyi++)
(Dst)[yyi] = (Src)[yyi];` from `yyi = i` on -/
def yycopy {α : Type} : Nat → Nat → List (Option α) → List (Option α) → List (Option α)
  | 0, _, _, dst => dst
  | n + 1, i, src, dst => yycopy n (i + 1) src (dst.set i (src.getD i none))

/-- the body of `if (yyss + yystacksize - 1 <= yyssp) { … }`; `ok` is whether `YYSTACK_ALLOC`
succeeds -/
def growStack (P : Params) (ok : Bool) (s : State V) : State V :=
  -- YYPTRDIFF_T yysize = yyssp - yyss + 1;
  let yysize := s.ssp + 1
  -- if (YYMAXDEPTH <= yystacksize) YYNOMEM;
  if P.M ≤ s.stacksize then returnLab .nomem 0 s else
  -- yystacksize *= 2; if (YYMAXDEPTH < yystacksize) yystacksize = YYMAXDEPTH;
  let sz := if P.M < 2 * s.stacksize then P.M else 2 * s.stacksize
  -- yyptr = YYSTACK_ALLOC (YYSTACK_BYTES (yystacksize)); if (! yyptr) YYNOMEM;
  if !ok then returnLab .nomem 0 { s with stacksize := sz, log := .allocFail sz :: s.log } else
  let nb := Blk.heap s.nextId
  -- YYSTACK_RELOCATE (yyss_alloc, yyss); YYSTACK_RELOCATE (yyvs_alloc, yyvs);
  let moved : List Access :=
    [.copyV s.loc s.vs.length nb sz yysize, .copyS s.loc s.ss.length nb sz yysize, .alloc nb sz]
  -- if (yyss1 != yyssa) YYSTACK_FREE (yyss1);
  let released : List Access :=
    match s.loc with
    | .auto => []
    | .heap id => [.free (.heap id)]
  let s1 : State V :=
    { s with loc := nb, stacksize := sz, nextId := s.nextId + 1
             ss := relocate s.ss yysize sz, vs := relocate s.vs yysize sz
             -- yyssp = yyss + yysize - 1; yyvsp = yyvs + yysize - 1;
             ssp := yysize - 1, vsp := yysize - 1
             log := released ++ moved ++ s.log }
  -- if (yyss + yystacksize - 1 <= yyssp) YYABORT;
  if P.test s1.stacksize s1.ssp then returnLab .abort 0 s1 else s1

/-- `yysetstate:` with `yystate = st` -/
def setState (P : Params) (st : Nat) (ok : Bool) (s : State V) : State V :=
  -- *yyssp = yystate;
  let s1 := { s with ss := s.ss.set s.ssp (some st), log := .storeS s.loc s.ss.length s.ssp :: s.log }
  -- if (yyss + yystacksize - 1 <= yyssp)
  if P.test s1.stacksize s1.ssp then growStack P ok s1 else s1

/-- `yynewstate: yyssp++;` and on to `yysetstate` -/
def newState (P : Params) (st : Nat) (ok : Bool) (s : State V) : State V :=
  setState P st ok { s with ssp := s.ssp + 1 }

/-- `*++yyvsp = v;` -/
def pushValue (v : V) (s : State V) : State V :=
  { s with vsp := s.vsp + 1, vs := s.vs.set (s.vsp + 1) (some v),
           log := .storeV s.loc s.vs.length (s.vsp + 1) :: s.log }

/-! ### start -/

/-- the declarations at the head of `yyparse` -/
def start (P : Params) : State V :=
  { loc := .auto, stacksize := P.I, ss := List.replicate P.I none, vs := List.replicate P.I none,
    ssp := 0, vsp := 0 }

/-- … and `goto yysetstate` with `yystate = 0` (with `YYINITDEPTH = 1` this already extends the
stacks: `ok` is the allocator's answer) -/
def init (P : Params) (ok : Bool := true) : State V := setState P 0 ok (start P)

/-! ### events -/

/-- what the parser loop does next -/
inductive Event (V : Type) where
  /-- `*++yyvsp = yylval; goto yynewstate;` with `yystate = st` -/
  | shift (st : Nat) (v : V) (ok : Bool := true)
  /-- `yyreduce` with `yylen = n`, leaving `yyval = v` and going to state `st` -/
  | reduce (n st : Nat) (v : V) (ok : Bool := true)
  /-- `k` iterations of the popping loop of `yyerrlab1` -/
  | errPop (k : Nat)
  /-- `YYACCEPT` / `YYABORT` (with `yylen = len`): `goto yyreturnlab` -/
  | finish (r : Result) (len : Nat)
deriving Repr

def shiftStep (P : Params) (st : Nat) (v : V) (ok : Bool) (s : State V) : State V :=
  newState P st ok (pushValue v s)

def reduceStep (P : Params) (n st : Nat) (v : V) (ok : Bool) (s : State V) : State V :=
  if n > s.ssp then { s with status := .fault } else
  -- yyval = yyvsp[1-yylen];
  let pre : Access :=
    if n = 0 then .garbageV s.loc s.vs.length (s.vsp + 1)
    else .loadV s.loc s.vs.length (s.vsp + 1 - n) (isInit s.vs (s.vsp + 1 - n))
  -- YYPOPSTACK (yylen);
  let s1 := { s with ssp := s.ssp - n, vsp := s.vsp - n, log := pre :: s.log }
  -- *++yyvsp = yyval;
  let s2 := pushValue v s1
  -- const int yyi = yypgoto[yylhs] + *yyssp;
  let s3 := { s2 with log := .loadS s2.loc s2.ss.length s2.ssp (isInit s2.ss s2.ssp) :: s2.log }
  newState P st ok s3

/-- the loop of `yyerrlab1`, `k` times: `if (yyssp == yyss) YYABORT; yydestruct ("Error: popping",
…, yyvsp, …); YYPOPSTACK (1); yystate = *yyssp;` -/
def errPop : Nat → State V → State V
  | 0, s => s
  | k + 1, s =>
    if s.ssp = 0 then returnLab .abort 0 s
    else
      errPop k
        { s with ssp := s.ssp - 1, vsp := s.vsp - 1,
                 log := .loadS s.loc s.ss.length (s.ssp - 1) (isInit s.ss (s.ssp - 1)) ::
                        .loadV s.loc s.vs.length s.vsp (isInit s.vs s.vsp) :: s.log }

def step (P : Params) (s : State V) (e : Event V) : State V :=
  match s.status with
  | .running =>
    match e with
    | .shift st v ok => shiftStep P st v ok s
    | .reduce n st v ok => reduceStep P n st v ok s
    | .errPop k => errPop k s
    | .finish r len => returnLab r len s
  | _ => s

def run (P : Params) (es : List (Event V)) (s : State V) : State V := es.foldl (step P) s

/-- the log in the order of execution -/
def State.trace (s : State V) : List Access := s.log.reverse

/-! ### what the theorems talk about -/

/-- the state stack, top first: slots `yyssp`, …, `yyss` -/
def absStates (s : State V) : List (Option Nat) := (s.ss.take (s.ssp + 1)).reverse

/-- the value stack above the bottom entry, top first: slots `yyvsp`, …, `yyvs + 1` (the
bottom slot `yyvs[0]`, the companion of the initial state 0, is never written) -/
def absValues (s : State V) : List (Option V) := ((s.vs.take (s.vsp + 1)).drop 1).reverse

/-- The memory holds the idealised stack `stack` of `Parser.lean` (entries `(state, value)`, top
first; the value of the bottom entry is a placeholder there). -/
def Abs (s : State V) (stack : List (Nat × V)) : Prop :=
  s.status = .running ∧ s.vsp = s.ssp ∧
  absStates s = stack.map (fun e => some e.1) ∧
  absValues s = stack.dropLast.map (fun e => some e.2)

/-- What holds between two events. -/
structure Inv (P : Params) (s : State V) : Prop where
  /-- every access so far was in bounds (and every load but the garbage load initialised) -/
  safe : ∀ a ∈ s.log, a.ok
  /-- `yyssp` and `yyvsp` have the same offset -/
  same : s.vsp = s.ssp
  /-- both arrays have `yystacksize` slots while the parser runs -/
  capS : s.status = .running → s.ss.length = s.stacksize
  capV : s.vs.length = s.ss.length
  /-- one slot is always spare after `yysetstate`: `yyssp < yyss + yystacksize - 1` -/
  spare : s.status = .running → s.ssp + 2 ≤ s.stacksize
  /-- the top is inside the block, whatever the status -/
  top : s.ssp < s.ss.length
  /-- every state slot up to the top has been written, every value slot but the bottom one -/
  initS : ∀ i, i ≤ s.ssp → isInit s.ss i = true
  initV : ∀ i, 1 ≤ i → i ≤ s.vsp → isInit s.vs i = true
  /-- sizes: `YYINITDEPTH · 2^k`, clamped to `YYMAXDEPTH`, `k` the number of allocations -/
  size : s.status = .running → s.stacksize = min (P.I * 2 ^ s.nextId) P.M
  /-- every allocation was made below the limit -/
  steps : s.nextId = 0 ∨ P.I * 2 ^ (s.nextId - 1) < P.M
  /-- the stacks are in the automatic arrays until the first allocation, then in the newest block -/
  where_ : s.loc = (match s.nextId with | 0 => .auto | k + 1 => .heap k)

/-! ### the byte layout of a heap block

`union yyalloc { yy_state_t yyss_alloc; YYSTYPE yyvs_alloc; }`; `a = sizeof (yy_state_t)`,
`b = sizeof (YYSTYPE)`, `u = sizeof (union yyalloc)`. -/

/-- `YYSTACK_BYTES (n)` = `n * (sizeof (yy_state_t) + sizeof (YYSTYPE)) + YYSTACK_GAP_MAXIMUM` -/
def stackBytes (a b u n : Nat) : Nat := n * (a + b) + (u - 1)

/-- the byte offset of the value array in the block: the first `YYSTACK_RELOCATE` advances
`yyptr` by `yynewbytes / sizeof (*yyptr)` elements, `yynewbytes = yystacksize * sizeof (*yyss) +
YYSTACK_GAP_MAXIMUM` -/
def vsByteOffset (a u n : Nat) : Nat := (n * a + (u - 1)) / u * u

end BisonStack
end Libconfig
