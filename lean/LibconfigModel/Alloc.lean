import LibconfigModel.Basic
/-
  The allocation discipline of the library (property C13) as an abstract
  program model: an operation is a sequence of actions, some of which request
  memory through one of the checked wrappers of lib/util.c
  (`libconfig_malloc/calloc/realloc/strdup`: allocate, test for NULL, call the
  fatal-error function).  The environment chooses which request fails.
-/
namespace Libconfig

inductive Act where
  | alloc      -- a request through a checked wrapper
  | work       -- anything else (may use memory obtained earlier)
deriving Repr, DecidableEq, Inhabited

inductive AllocOutcome where
  /-- the operation ran to completion; `n` actions executed -/
  | normal (n : Nat)
  /-- the fatal-error function was invoked while executing action number `at` (0-based);
  no later action was executed -/
  | fatal (pos : Nat)
deriving Repr, DecidableEq, Inhabited

/-- run `acts`; `k` = how many more allocation requests succeed before one fails
(`none` = no failure); `pos` = actions executed so far -/
def runAllocs : List Act → Option Nat → Nat → AllocOutcome
  | [], _, pos => .normal pos
  | .work :: rest, k, pos => runAllocs rest k (pos + 1)
  | .alloc :: rest, none, pos => runAllocs rest none (pos + 1)
  | .alloc :: _, some 0, pos => .fatal pos
  | .alloc :: rest, some (k + 1), pos => runAllocs rest (some k) (pos + 1)

def allocCount (acts : List Act) : Nat := (acts.filter (· == .alloc)).length

/-- position of the k-th allocation request -/
def allocPos : List Act → Nat → Nat → Option Nat
  | [], _, _ => none
  | .work :: rest, k, pos => allocPos rest k (pos + 1)
  | .alloc :: _, 0, pos => some pos
  | .alloc :: rest, k + 1, pos => allocPos rest k (pos + 1)

end Libconfig
