import LibconfigModel.Basic
/-
  The setting tree (`config_setting_t`, `config_list_t`) and the configuration
  object (`config_t`).  Children are an ordered `List`; the chunked growth of
  `__config_list_add` is not observable through the API and is modelled
  separately in `Containers.lean` (property C03).
-/
namespace Libconfig

structure Node where
  name : Option Bytes := none
  ty   : Nat := T_NONE
  fmt  : Nat := 0
  /-- `value.ival` (int, bool) or `value.llval` (int64) -/
  ival : Int := 0
  /-- bit pattern of `value.fval` -/
  fval : Nat := 0
  /-- `value.sval`; `none` = NULL -/
  sval : Option Bytes := none
  /-- `value.list` (NULL and empty are not distinguishable through the API) -/
  kids : List Node := []
  hook : Nat := 0
  line : Nat := 0
  file : Option Bytes := none
deriving Repr, Inhabited

def isAggregateTy (t : Nat) : Bool := t == T_ARRAY || t == T_LIST || t == T_GROUP
def isScalarTy (t : Int) : Bool := decide (2 ≤ t) && decide (t ≤ 6)

def Node.isAggregate (n : Node) : Bool := isAggregateTy n.ty

/-- `CONFIG_ERR_*` -/
@[reducible] def ERR_NONE : Nat := 0
@[reducible] def ERR_FILE_IO : Nat := 1
@[reducible] def ERR_PARSE : Nat := 2

structure Config where
  root : Node := { ty := T_GROUP }
  destructor : Bool := false
  options : Nat := OPT_SEMICOLON ||| OPT_COLON_GROUPS ||| OPT_BRACE_SEPARATE
  tabWidth : Nat := 2
  floatPrecision : Nat := 6
  defaultFormat : Nat := 0
  includeDir : Option Bytes := none
  /-- 0 = `config_default_include_func`; other values name harness-defined functions -/
  includeFn : Nat := 0
  errText : Option Bytes := none
  errFile : Option Bytes := none
  errLine : Int := 0
  errType : Nat := ERR_NONE
  filenames : List Bytes := []
  hook : Nat := 0
deriving Repr, Inhabited

/-- `config_init` -/
def Config.init : Config := {}

def Config.opt (c : Config) (o : Nat) : Bool := optGet c.options o

/-! ### Addressing by index path -/

def Node.get? : Node → Path → Option Node
  | n, [] => some n
  | n, i :: p => match n.kids[i]? with
    | some k => k.get? p
    | none => none

/-- Apply `f` to the node at `p` (no change if `p` addresses nothing). -/
def Node.modify (f : Node → Node) : Node → Path → Node
  | n, [] => f n
  | n, i :: p => match n.kids[i]? with
    | some k => { n with kids := n.kids.set i (k.modify f p) }
    | none => n

/-- `config_setting_get_format` -/
def effFormat (c : Config) (n : Node) : Nat := if n.fmt != 0 then n.fmt else c.defaultFormat

/-- `__config_validate_name` (C locale) -/
def validName : Bytes → Bool
  | [] => false
  | c :: cs => (isAlpha c || c == 42) &&
      cs.all (fun c => isAlpha c || isDigit c || c == 42 || c == 95 || c == 45)

/-- `__config_list_search`: first child whose name is exactly `name`. -/
def listSearch : List Node → Bytes → Nat → Option (Nat × Node)
  | [], _, _ => none
  | k :: ks, name, i =>
    if k.name == some name then some (i, k) else listSearch ks name (i + 1)

mutual
/-- Post-order log of destructor calls made by `__config_setting_destroy`. -/
def destroyLog (dtor : Bool) : Node → List Nat
  | .mk _ _ _ _ _ _ kids hook _ _ =>
    destroyLogList dtor kids ++ (if hook != 0 && dtor then [hook] else [])
def destroyLogList (dtor : Bool) : List Node → List Nat
  | [] => []
  | k :: ks => destroyLog dtor k ++ destroyLogList dtor ks
end

end Libconfig
