import LibconfigModel.Basic
/-
  The locale switch around parsing and writing (`__config_locale_override` /
  `__config_locale_restore` in lib/libconfig.c), over the part of the C locale
  state that matters: the radix character of the process-wide locale and of the
  calling thread's own locale (if it installed one with `uselocale`).
-/
namespace Libconfig

structure LocaleState where
  /-- radix character of the global (process-wide) locale: 46 `.` or 44 `,` -/
  globalRadix : Nat := 46
  /-- the thread's own locale, `none` = LC_GLOBAL_LOCALE -/
  thread : Option Nat := none
deriving Repr, DecidableEq, Inhabited

/-- radix character `printf`/`strtod` use in the calling thread -/
def LocaleState.effective (l : LocaleState) : Nat := l.thread.getD l.globalRadix

/-- `loc = newlocale(.., "C", NULL); return uselocale(loc)`: installs a fresh "C"
locale for the thread and returns the thread's previous locale. -/
def localeOverride (l : LocaleState) : LocaleState × Option Nat :=
  ({ l with thread := some 46 }, l.thread)

/-- `loc = uselocale(saved); freelocale(loc)` -/
def localeRestore (l : LocaleState) (saved : Option Nat) : LocaleState :=
  { l with thread := saved }

/-- run `f` (a computation that formats / parses numbers with the thread's radix
character) the way `__config_read` and `config_write` do: between override and restore -/
def withCLocale {α : Type} (l : LocaleState) (f : Nat → α) : α × LocaleState :=
  let (l1, saved) := localeOverride l
  (f l1.effective, localeRestore l1 saved)

/-- `printf("%f")`-style output under a radix character: the `.` becomes the radix -/
def applyRadix (radix : Nat) (text : Bytes) : Bytes := text.map fun c => if c == 46 then radix else c

end Libconfig
