import LibconfigModel.Writer
/-
  The writer's output as a sequence of lexical items (specification side of C19
  and C01): `wtoks` mirrors `writeValue` but emits tokens and white space
  separately, `WTok.bytes` renders one item, `norm` erases exactly what the
  output options are allowed to change.
-/
namespace Libconfig

inductive WTok where
  | ws (b : Bytes)                      -- spaces, tabs, newlines
  | name (nm : Bytes)
  | assign (c : Nat)                    -- `=` or `:`
  | semi
  | comma
  | punct (c : Nat)                     -- ( ) [ ] { }
  | bool (v : Bool)
  | int (bits : Nat) (v : Int) (hex : Bool)
  | float (b : Nat) (text : Bytes)
  | str (s : Bytes)
  | unknown                             -- "???"
deriving Repr, DecidableEq, Inhabited

def WTok.bytes : WTok → Bytes
  | .ws b => b
  | .name nm => nm
  | .assign c => [c]
  | .semi => [59]
  | .comma => [44]
  | .punct c => [c]
  | .bool v => if v then bytesOfString "true" else bytesOfString "false"
  | .int bits v hex =>
    (if hex then [48, 120] ++ hexOfInt bits v else intToDec v) ++ (if bits == 64 then [76] else [])
  | .float _ text => text
  | .str s => [34] ++ escapeString s ++ [34]
  | .unknown => bytesOfString "???"

def scalarTok (bufLen : Nat) (c : Config) (n : Node) : WTok :=
  let fmt := effFormat c n
  if n.ty == T_BOOL then .bool (n.ival != 0)
  else if n.ty == T_INT then .int 32 n.ival (fmt == FMT_HEX)
  else if n.ty == T_INT64 then .int 64 n.ival (fmt == FMT_HEX)
  else if n.ty == T_FLOAT then
    .float n.fval (formatDouble bufLen n.fval c.floatPrecision (c.opt OPT_SCIENTIFIC))
  else if n.ty == T_STRING then .str (n.sval.getD [])
  else .unknown

def prefixToks (c : Config) (depth : Nat) (name : Option Bytes) (ty : Nat) : List WTok :=
  (if depth > 1 then [WTok.ws (indent depth c.tabWidth)] else []) ++
  (match name with
   | some nm =>
     [.name nm, .ws [32],
      .assign (if ty == T_GROUP then (if c.opt OPT_COLON_GROUPS then 58 else 61)
               else (if c.opt OPT_COLON_NONGROUPS then 58 else 61)), .ws [32]]
   | none => [])

def suffixToks (c : Config) (depth : Nat) : List WTok :=
  if depth > 0 then (if c.opt OPT_SEMICOLON then [WTok.semi] else []) ++ [.ws [10]] else []

mutual
def wtoksValue (bufLen : Nat) (c : Config) (depth : Nat) : Node → List WTok
  | .mk name ty fmt ival fval sval kids hook line file =>
    if ty == T_LIST then [.punct 40, .ws [32]] ++ wtoksElems bufLen c (depth + 1) kids ++ [.punct 41]
    else if ty == T_ARRAY then [.punct 91, .ws [32]] ++ wtoksElems bufLen c (depth + 1) kids ++ [.punct 93]
    else if ty == T_GROUP then
      (if depth > 0 then
        (if c.opt OPT_BRACE_SEPARATE then
          [WTok.ws [10]] ++ (if depth > 1 then [WTok.ws (indent depth c.tabWidth)] else [])
         else []) ++ [.punct 123, .ws [10]]
       else []) ++
      wtoksMembers bufLen c (depth + 1) kids ++
      (if depth > 1 then [WTok.ws (indent depth c.tabWidth)] else []) ++
      (if depth > 0 then [.punct 125] else [])
    else [scalarTok bufLen c (.mk name ty fmt ival fval sval [] hook line file)]
def wtoksElems (bufLen : Nat) (c : Config) (depth : Nat) : List Node → List WTok
  | [] => []
  | k :: ks => wtoksValue bufLen c depth k ++ (if ks.isEmpty then [] else [.comma]) ++ [.ws [32]] ++
      wtoksElems bufLen c depth ks
def wtoksMembers (bufLen : Nat) (c : Config) (depth : Nat) : List Node → List WTok
  | [] => []
  | k :: ks => prefixToks c depth k.name k.ty ++ wtoksValue bufLen c depth k ++
      suffixToks c depth ++ wtoksMembers bufLen c depth ks
end

def wtoksConfig (bufLen : Nat) (c : Config) : List WTok :=
  prefixToks c 0 c.root.name c.root.ty ++ wtoksValue bufLen c 0 c.root ++ suffixToks c 0

/-- Erase what the output options may change: white space, `;`, the choice of
`=`/`:`, the spelling of floats and the hex/decimal choice of integers that
follow the default format. -/
def normTok : WTok → Option WTok
  | .ws _ => none
  | .semi => none
  | .assign _ => some (.assign 0)
  | .int bits v _ => some (.int bits v false)
  | .float b _ => some (.float b [])
  | t => some t

def norm (ts : List WTok) : List WTok := ts.filterMap normTok

/-- the presentation attributes of a configuration -/
structure OutOpts where
  options : Nat
  tabWidth : Nat
  floatPrecision : Nat
  defaultFormat : Nat

def Config.withOut (c : Config) (o : OutOpts) : Config :=
  { c with options := o.options, tabWidth := o.tabWidth, floatPrecision := o.floatPrecision,
           defaultFormat := o.defaultFormat }

/-- the lines of a byte string (split at `\n`) -/
def linesOf (b : Bytes) : List Bytes := b.splitOn 10

end Libconfig
