/-
  Control-flow skeletons of C functions and their paths.

  `tools/ctranslate.py` dumps, for the functions whose ORDER OF CALLS on every path is what
  the properties are about (`__config_read`, `config_read_file`, `config_write_file`,
  `config_clear`, `config_destroy`), the statement tree of the body; the leaves are the
  normalised SOURCE TEXT of each simple statement and of each condition (comments and white
  space removed) — `Generated/CFlowSource.lean`, rewritten on every run.  Nothing about what
  a statement computes is assumed: `paths` enumerates every way through the tree (both
  outcomes of every condition, the conditions recorded), and the theorems of
  `Properties/CFlow.lean` are statements about ALL paths, decided by the kernel: which calls
  occur on every path, in which order, exactly once, under which recorded assumptions.
-/
namespace Libconfig.CFlow

inductive Flow
  | skip
  | stmt (text : String)
  | ite (cond : String) (a b : Flow)
  | seq (a b : Flow)
  | ret (text : String)
  /-- a `while` whose body is straight-line code -/
  | loop (cond : String) (body : List String)
  /-- a loop whose body branches: explored as "not entered" and as one symbolic iteration -/
  | loopB (cond : String) (body : Flow)
  | brk
  | cont
  /-- a construct the translator has no constructor for -/
  | other (what : String)
deriving Repr

inductive Ev
  | s (text : String)        -- a simple statement was executed
  | yes (cond : String)      -- the condition was evaluated and held
  | no (cond : String)       -- the condition was evaluated and did not hold
  | ret (text : String)
  | loop (cond : String) (body : List String)
  | loopSkip (cond : String)   -- a branching loop is not entered
  | loopIter (cond : String)   -- ... or one iteration (any of them) begins
  | loopEnd
  | brk                        -- `break` out of the innermost loop
  | cont                       -- `continue` with its next iteration
  | other (what : String)
deriving Repr, DecidableEq

/-- every path through the statement: its events, and whether it ended in `return` -/
def paths : Flow → List (List Ev × Bool)
  | .skip => [([], false)]
  | .stmt t => [([.s t], false)]
  | .ret t => [([.ret t], true)]
  | .loop c b => [([.loop c b], false)]
  | .other w => [([.other w], false)]
  | .brk => [([.brk], true)]
  | .cont => [([.cont], true)]
  | .loopB c b =>
    -- a body path that ends in `break` / `continue` leaves the iteration, not the function
    ([Ev.loopSkip c], false) :: (paths b).map (fun p =>
      let jumped := p.1.getLast? == some Ev.brk || p.1.getLast? == some Ev.cont
      (Ev.loopIter c :: p.1 ++ (if p.2 then [] else [Ev.loopEnd]), p.2 && !jumped))
  | .ite c a b =>
    (paths a).map (fun p => (Ev.yes c :: p.1, p.2)) ++ (paths b).map (fun p => (Ev.no c :: p.1, p.2))
  | .seq a b =>
    (paths a).flatMap fun p =>
      if p.2 then [p] else (paths b).map (fun q => (p.1 ++ q.1, q.2))

def count (e : Ev) (p : List Ev) : Nat := (p.filter (· == e)).length

/-- position of the first occurrence -/
def pos (e : Ev) : List Ev → Option Nat
  | [] => none
  | x :: xs => if x == e then some 0 else (pos e xs).map (· + 1)

/-- `a` occurs, `b` occurs, and the first `a` comes before the first `b` -/
def before (a b : Ev) (p : List Ev) : Bool :=
  match pos a p, pos b p with
  | some i, some j => decide (i < j)
  | _, _ => false

def hasOther : List Ev → Bool
  | [] => false
  | .other _ :: _ => true
  | _ :: xs => hasOther xs

/-- the event list of every path -/
def traces (f : Flow) : List (List Ev) := (paths f).map (·.1)

end Libconfig.CFlow
