import LibconfigModel.Flex
import LibconfigModel.Numeric
import LibconfigModel.Tree
import LibconfigModel.Generated.ScannerTables
import LibconfigModel.Generated.ParserTables
import LibconfigModel.Generated.Constants
/-
  `libconfig_yylex`: the flex driver loop with the rule actions of
  lib/scanner.l, the scan context of lib/scanctx.c (string accumulator, include
  stack, file name vector) and an abstract file system.
-/
namespace Libconfig

/-- The file system as far as `fopen(path, "rt")` + the directory check see it:
`some content` = a readable regular file. -/
structure World where
  files : List (Bytes × Option Bytes) := []
deriving Repr, Inhabited

def World.open? (w : World) (path : Bytes) : Option Bytes :=
  match w.files.find? (fun e => e.1 == path) with
  | some (_, some content) => some content
  | _ => none

/-- One flex buffer: remaining input, `yy_at_bol`, `yy_bs_lineno`. -/
structure Buf where
  rest : Bytes
  bol : Bool := true
  lineno : Nat := 1
deriving Repr, Inhabited

/-- `struct include_stack_frame` -/
structure Frame where
  files : List Bytes
  /-- index of `current_file` (valid once the first file was opened) -/
  cur : Nat
  /-- `parent_buffer` -/
  parent : Buf
deriving Repr, Inhabited

/-- Resource events of the include machinery (for the ledger of C11). -/
inductive IOEvent where
  | fopen (path : Bytes) (ok : Bool)
  | fclose (path : Bytes)
  | newBuf
  | delBuf
deriving Repr, DecidableEq, Inhabited

/-- `struct scan_context` + the scanner's own state. -/
structure ScanState where
  sc : Nat := 0
  buf : Buf
  /-- `ctx->string` (raw, may contain NUL bytes from `\x00`) -/
  str : Bytes := []
  topFile : Option Bytes := none
  stack : List Frame := []      -- innermost first
  filenames : List Bytes := []
  events : List IOEvent := []
deriving Repr, Inhabited

/-- semantic value of a token -/
structure TokVal where
  ival : Int := 0
  fval : Nat := 0
  sval : Bytes := []
deriving Repr, Inhabited, DecidableEq

/-- `libconfig_scanctx_current_filename` -/
def ScanState.currentFilename (s : ScanState) : Option Bytes :=
  match s.stack with
  | f :: _ => f.files[f.cur]?
  | [] => s.topFile

/-- C string view of a buffer that may hold NUL bytes -/
def cstr (b : Bytes) : Bytes := b.takeWhile (· != 0)

/-- Behaviour of `config->include_fn`.  0 is `config_default_include_func`;
1 is the harness's multi-path function: the argument is split at `|`, a leading
`!` makes it report the error "custom include error", a leading `?` makes it
return NULL without error, an empty argument gives an empty list. -/
def includeFnEval (fn : Nat) (dir : Option Bytes) (path : Bytes) :
    Option (List Bytes) × Option Bytes :=
  let join (p : Bytes) : Bytes :=
    match dir with
    | some d => if p.head? != some 47 then d ++ Generated.FILE_SEPARATOR ++ p else p
    | none => p
  if fn == 0 then (some [join path], none)
  else
    match path with
    | 33 :: _ => (none, some (bytesOfString "custom include error"))
    | 63 :: _ => (none, none)
    | [] => (some [], none)
    | _ => (some ((path.splitOn 124).map join), none)

/-- The numeric rule actions of lib/scanner.l: token returned and value stored in
`yylval` for the matched text (TOK_ERROR when the literal cannot be represented). -/
def numericTok (a : ScanAct) (text : Bytes) : Nat × TokVal :=
  match a with
  | .tokFloat t errTok =>
    let b := F64.strtod text
    if F64.isInf b then (errTok, {}) else (t, { fval := b })
  | .tokInteger t32 t64 errTok =>
    match parseInteger text with
    | none => (errTok, {})
    | some v => if fits32 v then (t32, { ival := v }) else (t64, { ival := v })
  | .tokInteger64 t errTok =>
    match parseInteger text with
    | none => (errTok, {})
    | some v => (t, { ival := v })
  | .tokHex t errTok =>
    match parseHex64 text with
    | none => (errTok, {})
    | some v => if v > 4294967295 then (errTok, {}) else (t, { ival := wrap32 v })
  | .tokHex64 t errTok =>
    match parseHex64 text with
    | none => (errTok, {})
    | some v => (t, { ival := wrap64 v })
  | _ => (0, {})

/-- outcome of one call of `yylex` -/
inductive LexOut where
  | tok (t : Nat) (v : TokVal)
  | eof
  /-- TOK_ERROR raised by the include machinery with the error fields it set -/
  | includeError (tok : Nat) (text : Bytes) (file : Option Bytes) (line : Nat)
  /-- flex's default rule: the byte is copied to stdout -/
  | echo (byte : Nat)
  | outOfFuel
deriving Repr, Inhabited

def countNl (b : Bytes) : Nat := (b.filter (· == 10)).length

/-- `libconfig_scanctx_next_include_file` on the innermost frame (`advance` =
move to the next file; the first call of a frame opens file 0). -/
def nextIncludeFile (w : World) (s : ScanState) (first : Bool) :
    ScanState × Option Bytes × Bool :=   -- new state, content of the opened file, error?
  match s.stack with
  | [] => (s, none, false)
  | f :: fs =>
    let cur := if first then 0 else f.cur + 1
    let ev := if first then [] else
      match f.files[f.cur]? with
      | some p => [IOEvent.fclose p]
      | none => []
    match f.files[cur]? with
    | none => ({ s with stack := { f with cur := cur } :: fs, events := s.events ++ ev }, none, false)
    | some p =>
      match w.open? p with
      | some content =>
        ({ s with stack := { f with cur := cur } :: fs, events := s.events ++ ev ++ [.fopen p true] },
         some content, false)
      | none =>
        ({ s with stack := { f with cur := cur } :: fs, events := s.events ++ ev ++ [.fopen p false] },
         none, true)

structure IncludeCfg where
  fn : Nat
  dir : Option Bytes
deriving Repr, Inhabited

/-- `libconfig_yylex`: match, act, repeat until an action returns. -/
def yylex (T : FlexTables) (acts : List ScanAct) (w : World) (ic : IncludeCfg) :
    Nat → ScanState → ScanState × LexOut
  | 0, s => (s, .outOfFuel)
  | fuel+1, s =>
    match Flex.next T s.sc s.buf.bol s.buf.rest with
    | none =>
      -- <<EOF>>
      match s.stack with
      | [] => (s, .eof)
      | f :: fs =>
        let (s1, content, err) := nextIncludeFile w s false
        match content with
        | some c =>
          -- yy_delete_buffer(current); switch to a new buffer on the next file
          yylex T acts w ic fuel { s1 with buf := { rest := c }, events := s1.events ++ [.delBuf, .newBuf] }
        | none =>
          if err then
            (s1, .includeError Generated.tokens.error Generated.ERR_BAD_INCLUDE s1.currentFilename s1.buf.lineno)
          else
            -- no more files: pop the frame, delete the buffer, go back to the parent buffer
            yylex T acts w ic fuel { s1 with stack := fs, buf := f.parent, events := s1.events ++ [.delBuf] }
    | some (rule, len) =>
      let text := s.buf.rest.take len
      let lineno := if T.canMatchEol.getN rule != 0 then s.buf.lineno + countNl text else s.buf.lineno
      let bol := match text.getLast? with
        | some c => c == 10
        | none => s.buf.bol
      let s := { s with buf := { rest := s.buf.rest.drop len, bol := bol, lineno := lineno } }
      match acts.getD rule .unknown with
      | .begin sc => yylex T acts w ic fuel { s with sc := sc }
      | .ignore => yylex T acts w ic fuel s
      | .appendText => yylex T acts w ic fuel { s with str := s.str ++ cstr text }
      | .appendChar c => yylex T acts w ic fuel { s with str := s.str ++ [c] }
      | .appendHexChar =>
        yylex T acts w ic fuel { s with str := s.str ++ [digitsVal 16 (text.drop 2) % 256] }
      | .endString t => ({ s with str := [], sc := Generated.SC_INITIAL }, .tok t { sval := cstr s.str })
      | .includeDirective errTok =>
        let path := cstr s.str
        let s := { s with str := [] }
        if s.stack.length == Generated.MAX_INCLUDE_DEPTH then
          (s, .includeError errTok Generated.ERR_INCLUDE_TOO_DEEP s.currentFilename s.buf.lineno)
        else
          match includeFnEval ic.fn ic.dir path with
          | (_, some e) => (s, .includeError errTok e s.currentFilename s.buf.lineno)
          | (none, none) => yylex T acts w ic fuel { s with sc := Generated.SC_INITIAL }
          | (some [], none) => yylex T acts w ic fuel { s with sc := Generated.SC_INITIAL }
          | (some files, none) =>
            let s1 := { s with filenames := s.filenames ++ files,
                               stack := { files := files, cur := 0, parent := s.buf } :: s.stack }
            let (s2, content, _) := nextIncludeFile w s1 true
            match content with
            | some c =>
              yylex T acts w ic fuel
                { s2 with buf := { rest := c }, sc := Generated.SC_INITIAL, events := s2.events ++ [.newBuf] }
            | none =>
              -- first file cannot be opened: the frame is popped again
              let s3 := { s2 with stack := s.stack }
              (s3, .includeError errTok Generated.ERR_BAD_INCLUDE s3.currentFilename s3.buf.lineno)
      | .tok t => (s, .tok t {})
      | .tokBool t v => (s, .tok t { ival := v })
      | .tokName t => (s, .tok t { sval := text })
      | .tokFloat .. | .tokInteger .. | .tokInteger64 .. | .tokHex .. | .tokHex64 .. =>
        let (t, v) := numericTok (acts.getD rule .unknown) text
        (s, .tok t v)
      | .echo => (s, .echo (text.headD 0))
      | .unknown => (s, .outOfFuel)

end Libconfig
