import LibconfigModel.Api
/-
  A deep embedding of the C subset in which the scalar accessors of
  lib/libconfig.c are written, and its semantics.

  `tools/ctranslate.py` dumps the bodies of those functions from clang's typed
  AST (macros expanded, implicit conversions explicit) into constructor
  literals of `Expr` / `Stmt` (`Generated/CSource.lean`, rewritten on every
  run).  Nothing is interpreted by the translator: a node it has no
  constructor for becomes `.bad` and `exec` answers `.stuck`, which no theorem
  of `Properties/CSource.lean` tolerates.  The theorems there state that
  running the translated body on the C view of a model setting gives the
  answer of the hand-written model function of `Api.lean` — for every setting,
  value and option word.

  What is modelled: `int`/`long long`/`unsigned short`/`double` scalars, the
  `config_value_t` union as ONE 64-bit cell read and written through its
  members (so "writes the low half only" is visible), `switch` with labels and
  fall-through, `if`, `?:`, `return`, `break`, assignments through the
  function's `setting` / `config` pointer and through pointer parameters
  (`*value = …`), and calls of `config_get_option` / `__config_type_is_scalar`
  (whose own bodies are translated and proved against the same primitives).
  Signed overflow and out-of-range float→integer casts are undefined in C; the
  semantics wraps / yields the x86 "indefinite" value, as `Api.lean` does.
-/
namespace Libconfig.CSrc

inductive Ty | i32 | i64 | u16 | i16 | u32 | f64 | other
deriving Repr, DecidableEq

/-- fields reached through the function's `setting` pointer -/
inductive SF | type | format | ival | llval | fval
deriving Repr, DecidableEq

/-- fields reached through `config` / `setting->config` -/
inductive CF | options | defaultFormat | tabWidth | floatPrecision
deriving Repr, DecidableEq

inductive LV
  | var (id : Nat)      -- parameter passed by value, or local
  | deref (id : Nat)    -- `*p` for the pointer parameter number `id`
  | sf (f : SF)
  | cf (f : CF)
  | listPtr             -- `setting->value.list` (only its being NULL or not is observable)
  | listLen             -- `setting->value.list->length`
  | elemType (k : Nat)  -- `setting->value.list->elements[k]->type`
  | bad
deriving Repr, DecidableEq

inductive BinOp | add | sub | mul | band | bor | eq | ne | lt | le | gt | ge | land | lor
deriving Repr, DecidableEq

inductive UnOp | neg | lnot | bnot
deriving Repr, DecidableEq

/-- clang's `castKind` -/
inductive Cast | integral | floatToInt | intToFloat | toBool | noop
deriving Repr, DecidableEq

inductive Fn | getOption | typeIsScalar | settingIsAggregate
deriving Repr, DecidableEq

inductive Expr
  | lit (v : Int)
  | flit (bits : Nat)
  | load (lv : LV) (t : Ty)
  | bin (op : BinOp) (t : Ty) (a b : Expr)
  | un (op : UnOp) (t : Ty) (a : Expr)
  | cast (k : Cast) (to : Ty) (a : Expr)
  | cond (c a b : Expr)
  | call (f : Fn) (a : Expr)
  | bad
deriving Repr

inductive Stmt
  | skip
  | assign (lv : LV) (t : Ty) (e : Expr)
  | ite (c : Expr) (a b : Stmt)
  | seq (a b : Stmt)
  | ret (e : Expr)
  | retVoid
  | brk
  | switch (e : Expr) (body : Stmt)
  | case (k : Int) (s : Stmt)
  | dflt (s : Stmt)
  | bad
deriving Repr

structure Func where
  name : String
  nparams : Nat
  body : Stmt

inductive Val | i (v : Int) | f (bits : Nat) | bad
deriving Repr, DecidableEq

/-- The part of the C state the translated functions can touch. -/
structure St where
  /-- `setting->type` -/
  sty : Nat := 0
  /-- `setting->format` -/
  sfmt : Nat := 0
  /-- the eight bytes of `setting->value` (little endian) -/
  raw : Nat := 0
  /-- `config->options` as its 32-bit pattern -/
  opts : Nat := 0
  dfmt : Nat := 0
  tabw : Nat := 0
  prec : Nat := 0
  /-- `setting->value.list`: `none` = NULL, otherwise the type fields of the children in order -/
  kids : Option (List Nat) := none
  /-- by-value parameters and locals -/
  vars : Nat → Val := fun _ => .bad
  /-- what pointer parameter `id` points to -/
  outs : Nat → Val := fun _ => .bad

def upd (f : Nat → Val) (k : Nat) (v : Val) : Nat → Val := fun i => if i = k then v else f i

def sint32 (u : Nat) : Int := if u % 4294967296 ≥ 2147483648 then (u % 4294967296 : Nat) - 4294967296 else (u % 4294967296 : Nat)
def sint64 (u : Nat) : Int :=
  if u % 18446744073709551616 ≥ 9223372036854775808 then (u % 18446744073709551616 : Nat) - 18446744073709551616
  else (u % 18446744073709551616 : Nat)
def u32 (v : Int) : Nat := (v % 4294967296).toNat
def u64 (v : Int) : Nat := (v % 18446744073709551616).toNat
def u16 (v : Int) : Nat := (v % 65536).toNat

def wrapTy : Ty → Int → Int
  | .i32, v => wrap32 v
  | .i64, v => wrap64 v
  | .u16, v => v % 65536
  | .i16, v => let m := v % 65536; if m ≥ 32768 then m - 65536 else m
  | .u32, v => v % 4294967296
  | _, v => v

/-- two's-complement pattern of `v` in the width of `t` -/
def bitsOf : Ty → Int → Nat
  | .i64, v => u64 v
  | .u16, v => u16 v
  | .i16, v => u16 v
  | _, v => u32 v

def ofBits : Ty → Nat → Int
  | .i64, u => sint64 u
  | .u16, u => (u % 65536 : Nat)
  | .i16, u => wrapTy .i16 u
  | .u32, u => (u % 4294967296 : Nat)
  | _, u => sint32 u

def widthMask : Ty → Nat
  | .i64 => 18446744073709551615
  | .u16 => 65535
  | .i16 => 65535
  | _ => 4294967295

def b2i (b : Bool) : Val := .i (if b then 1 else 0)

def loadLV (st : St) : LV → Val
  | .var id => st.vars id
  | .deref id => st.outs id
  | .sf .type => .i st.sty
  | .sf .format => .i st.sfmt
  | .sf .ival => .i (sint32 st.raw)
  | .sf .llval => .i (sint64 st.raw)
  | .sf .fval => .f st.raw
  | .cf .options => .i (sint32 st.opts)
  | .cf .defaultFormat => .i st.dfmt
  | .cf .tabWidth => .i st.tabw
  | .cf .floatPrecision => .i st.prec
  | .listPtr => .i (if st.kids.isSome then 1 else 0)
  | .listLen => match st.kids with
    | some l => .i l.length
    | none => .bad                 -- NULL dereference
  | .elemType k => match st.kids with
    | some l => match l[k]? with
      | some t => .i t
      | none => .bad               -- beyond `length`
    | none => .bad
  | .bad => .bad

def storeLV (st : St) : LV → Val → Option St
  | .var id, v => some { st with vars := upd st.vars id v }
  | .deref id, v => some { st with outs := upd st.outs id v }
  | .sf .type, .i v => some { st with sty := u16 v }
  | .sf .format, .i v => some { st with sfmt := u16 v }
  | .sf .ival, .i v => some { st with raw := st.raw / 4294967296 * 4294967296 + u32 v }
  | .sf .llval, .i v => some { st with raw := u64 v }
  | .sf .fval, .f b => some { st with raw := b }
  | .cf .options, .i v => some { st with opts := u32 v }
  | .cf .defaultFormat, .i v => some { st with dfmt := u16 v }
  | .cf .tabWidth, .i v => some { st with tabw := u16 v }
  | .cf .floatPrecision, .i v => some { st with prec := u16 v }
  | _, _ => none

def evalBin (op : BinOp) (t : Ty) : Val → Val → Val
  | .i a, .i b =>
    match op with
    | .add => .i (wrapTy t (a + b))
    | .sub => .i (wrapTy t (a - b))
    | .mul => .i (wrapTy t (a * b))
    | .band => .i (ofBits t (bitsOf t a &&& bitsOf t b))
    | .bor => .i (ofBits t (bitsOf t a ||| bitsOf t b))
    | .eq => b2i (a == b)
    | .ne => b2i (a != b)
    | .lt => b2i (decide (a < b))
    | .le => b2i (decide (a ≤ b))
    | .gt => b2i (decide (a > b))
    | .ge => b2i (decide (a ≥ b))
    | .land => b2i (a != 0 && b != 0)
    | .lor => b2i (a != 0 || b != 0)
  | _, _ => .bad

def evalUn (op : UnOp) (t : Ty) : Val → Val
  | .i a =>
    match op with
    | .neg => .i (wrapTy t (-a))
    | .lnot => b2i (a == 0)
    | .bnot => .i (ofBits t (widthMask t ^^^ bitsOf t a))
  | _ => .bad

def evalCast (k : Cast) (to : Ty) : Val → Val
  | .i a =>
    match k with
    | .integral => .i (wrapTy to a)
    | .intToFloat => .f (F64.ofInt a)
    | .toBool => b2i (a != 0)
    | .noop => .i a
    | .floatToInt => .bad
  | .f b =>
    match k, to with
    | .floatToInt, .i32 => .i (if floatCastOk32 b then F64.trunc b else INT_MIN)
    | .floatToInt, .i64 => .i (if floatCastOk64 b then F64.trunc b else LLONG_MIN)
    | .noop, _ => .f b
    | _, _ => .bad
  | .bad => .bad

/-- Both operands of `&&`, `||` and `?:` are evaluated: the translated
expressions have no side effects (the translator emits `.bad` for any that
would). -/
def eval (st : St) : Expr → Val
  | .lit v => .i v
  | .flit b => .f b
  | .load lv _ => loadLV st lv
  | .bin op t a b => evalBin op t (eval st a) (eval st b)
  | .un op t a => evalUn op t (eval st a)
  | .cast k to a => evalCast k to (eval st a)
  | .cond c a b =>
    match eval st c with
    | .i v => if v != 0 then eval st a else eval st b
    | _ => .bad
  | .call .getOption a =>
    match eval st a with
    | .i k => b2i ((st.opts &&& u32 k) == u32 k)
    | _ => .bad
  | .call .typeIsScalar a =>
    match eval st a with
    | .i t => b2i (isScalarTy t)
    | _ => .bad
  | .call .settingIsAggregate _ => b2i (isAggregateTy st.sty)
  | .bad => .bad

inductive Res
  | normal (st : St)
  | broke (st : St)
  | returned (v : Option Val) (st : St)
  | stuck

def Res.unbreak : Res → Res
  | .broke st => .normal st
  | r => r

mutual
def exec : Stmt → St → Res
  | .skip, st => .normal st
  | .assign lv _ e, st =>
    match eval st e with
    | .bad => .stuck
    | v => match storeLV st lv v with
      | some st' => .normal st'
      | none => .stuck
  | .ite c a b, st =>
    match eval st c with
    | .i v => if v != 0 then exec a st else exec b st
    | _ => .stuck
  | .seq a b, st =>
    match exec a st with
    | .normal st' => exec b st'
    | r => r
  | .ret e, st =>
    match eval st e with
    | .bad => .stuck
    | v => .returned (some v) st
  | .retVoid, st => .returned none st
  | .brk, st => .broke st
  | .switch e body, st =>
    match eval st e with
    | .i v =>
      match seek v body st with
      | some r => r.unbreak
      | none => match seekDflt body st with
        | some r => r.unbreak
        | none => .normal st
    | _ => .stuck
  | .case _ s, st => exec s st
  | .dflt s, st => exec s st
  | .bad, _ => .stuck
/-- run `s` from the label `case k:` on, if it has one at switch level -/
def seek (k : Int) : Stmt → St → Option Res
  | .seq a b, st =>
    match seek k a st with
    | some (.normal st') => some (exec b st')
    | some r => some r
    | none => seek k b st
  | .case k' s, st => if k = k' then some (exec s st) else seek k s st
  | .dflt s, st => seek k s st
  | _, _ => none
def seekDflt : Stmt → St → Option Res
  | .seq a b, st =>
    match seekDflt a st with
    | some (.normal st') => some (exec b st')
    | some r => some r
    | none => seekDflt b st
  | .case _ s, st => seekDflt s st
  | .dflt s, st => some (exec s st)
  | _, _ => none
end

/-- Does the statement contain an untranslated node? (executable audit) -/
def Expr.hasBad : Expr → Bool
  | .bad => true
  | .load .bad _ => true
  | .bin _ _ a b => a.hasBad || b.hasBad
  | .un _ _ a => a.hasBad
  | .cast _ _ a => a.hasBad
  | .cond c a b => c.hasBad || a.hasBad || b.hasBad
  | .call _ a => a.hasBad
  | _ => false

def Stmt.hasBad : Stmt → Bool
  | .bad => true
  | .assign lv _ e => lv == .bad || e.hasBad
  | .ite c a b => c.hasBad || a.hasBad || b.hasBad
  | .seq a b => a.hasBad || b.hasBad
  | .ret e => e.hasBad
  | .switch e b => e.hasBad || b.hasBad
  | .case _ s => s.hasBad
  | .dflt s => s.hasBad
  | _ => false

/-! ### The C view of a model setting -/

/-- `st` is a C state whose `setting` is `n` inside configuration `c`: the
union holds the member the type selects. -/
structure Rep (n : Node) (c : Config) (st : St) : Prop where
  ty : st.sty = n.ty
  tyRange : n.ty < 65536
  fmt : st.sfmt = n.fmt
  opts : st.opts = c.options
  optsRange : c.options < 4294967296
  dfmt : st.dfmt = c.defaultFormat
  int32 : n.ty = T_INT ∨ n.ty = T_BOOL → sint32 st.raw = n.ival
  int64 : n.ty = T_INT64 → sint64 st.raw = n.ival
  float : n.ty = T_FLOAT → st.raw = n.fval

/-- the C view of a setting's child list: NULL only when there are no children -/
structure RepKids (n : Node) (st : St) : Prop where
  ty : st.sty = n.ty
  tyRange : n.ty < 65536
  kids : st.kids = some (n.kids.map (·.ty)) ∨ (st.kids = none ∧ n.kids = [])
  kidTy : ∀ k ∈ n.kids, k.ty < 65536
  len : n.kids.length < 2147483648

/-- everything the accessor must leave alone -/
structure Frame (st st' : St) : Prop where
  vars : st'.vars = st.vars
  outs : st'.outs = st.outs
  opts : st'.opts = st.opts
  dfmt : st'.dfmt = st.dfmt
  tabw : st'.tabw = st.tabw
  prec : st'.prec = st.prec

/-- `return k;` leaving the state as it is -/
abbrev retI (k : Int) (st : St) : Res := .returned (some (.i k)) st

end Libconfig.CSrc
