import LibconfigModel.Step
import LibconfigModel.LookupSpec
/-
  The C++ API (lib/libconfigcpp.c++, lib/libconfig.h++) as total functions over the model
  of the C API.  Every C++ member function is: its own precondition checks (which throw),
  then the C function it forwards to — here literally the corresponding function of
  Api.lean / Lookup.lean / Step.lean, so that agreement with the C API is structural and the
  substance of property C17 is in the exception preconditions, the range rules and the
  wrapper bookkeeping.

  A `Setting` wrapper hangs on its `config_setting_t` through the hook pointer
  (`Setting::wrapSetting`); the model marks a wrapped setting with `hook = 1`.  `Config::Config`
  registers `ConfigDestructor` (= `delete wrapper`), so the destructor log of the C model is
  the list of wrappers deleted by an operation.

  The wrappers cache `_type` and `_format` when they are created.  Through the C++ API alone
  the type of a setting never changes; the cached format goes stale after
  `Config::setDefaultFormat` (known finding C17:getFormat-after-setDefaultFormat).  The model
  reports the C values; the correspondence stays away from the stale situation.
-/
namespace Libconfig

namespace F64

/-- `(double)(float)x`: round a binary64 to binary32 (nearest, ties to even; overflow to
infinity; gradual underflow) and widen it again.  NaNs keep sign and the upper payload bits and
become quiet (x86 `cvtsd2ss`). -/
def roundToF32 (b : Nat) : Nat :=
  if isNaN b then mkBits (signBit b) 2047 (((fracField b / 2^29) ||| 2^22) * 2^29)
  else if isInf b then b
  else
    let m := mant b
    if m = 0 then b else
    let e := expo b
    -- exponent of the leading bit, exponent of the binary32 unit in the last place
    let lead : Int := e + (bitLen m : Int) - 1
    let u : Int := if lead - 23 < -149 then -149 else lead - 23
    let r : Nat := if e ≥ u then m * 2^(e - u).toNat else divRoundEven m (2^(u - e).toNat)
    let num : Nat := if u ≥ 0 then r * 2^u.toNat else r
    let den : Nat := if u ≥ 0 then 1 else 2^(-u).toNat
    if num ≥ 2^128 * den then mkBits (signBit b) 2047 0 else ofRat (signBit b) num den

end F64

namespace Cpp

/-! ### Exceptions -/

inductive Exc where
  | settingNotFound (path : Bytes)
  | settingType (path : Bytes)
  | settingRange (path : Bytes)
  | settingName (path : Bytes)
  | parse (file : Option Bytes) (line : Int) (text : Option Bytes)
  | fileIO
  | badAlloc
deriving Repr, DecidableEq, Inhabited

/-- the four `SettingException` subclasses -/
inductive EKind where
  | notFound | type | range | name
deriving Repr, DecidableEq, Inhabited

/-- which `SettingException` constructor builds the path text -/
inductive Where where
  /-- `SettingException(const Setting &)` -/
  | self
  /-- `SettingException(const Setting &, int idx)` -/
  | idx (i : Int)
  /-- `SettingException(const Setting &, const char *name)` -/
  | name (nm : Option Bytes)
  /-- `SettingException(const char *path)` -/
  | rawPath (p : Option Bytes)
deriving Repr, DecidableEq, Inhabited

def mkExc : EKind → Bytes → Exc
  | .notFound, p => .settingNotFound p
  | .type, p => .settingType p
  | .range, p => .settingRange p
  | .name, p => .settingName p

/-- one component of `__constructPath`: the name, or `[index]` for a nameless setting -/
def component (k : Node) (i : Nat) : Bytes :=
  match k.name with
  | some nm => nm
  | none => [91] ++ natToDec i ++ [93]

/-- `__constructPath` (head recursion from the root down to the setting): `acc` is what the
stream holds so far; a `.` is written only when the stream is not empty (`path.tellp() > 0`). -/
def constructPathAux : Node → Path → Bytes → Bytes
  | _, [], acc => acc
  | n, i :: ip, acc =>
    match n.kids[i]? with
    | none => acc
    | some k => constructPathAux k ip ((if acc.isEmpty then acc else acc ++ [46]) ++ component k i)

/-- `Setting::getPath()` of the setting at index path `p` -/
def constructPath (root : Node) (p : Path) : Bytes := constructPathAux root p []

/-- the text carried by a `SettingException` built for the setting at `p` -/
def excPath (root : Node) (p : Path) : Where → Bytes
  | .self => constructPath root p
  | .idx i => constructPath root p ++ ([46, 91] ++ intToDec i ++ [93])     -- sstr << ".[" << idx << "]"
  | .name nm => constructPath root p ++ (46 :: nm.getD [])                  -- sstr << '.' << name  (a NULL name writes nothing)
  | .rawPath q => q.getD []                                                 -- strdup(path ? path : "")

/-! ### Type codes -/

/-- `Setting::Type` -/
@[reducible] def TypeNone : Nat := 0
@[reducible] def TypeInt : Nat := 1
@[reducible] def TypeInt64 : Nat := 2
@[reducible] def TypeFloat : Nat := 3
@[reducible] def TypeString : Nat := 4
@[reducible] def TypeBoolean : Nat := 5
@[reducible] def TypeGroup : Nat := 6
@[reducible] def TypeArray : Nat := 7
@[reducible] def TypeList : Nat := 8

/-- `__toTypeCode` -/
def toTypeCode (t : Nat) : Nat :=
  if t == TypeGroup then T_GROUP else if t == TypeInt then T_INT else if t == TypeInt64 then T_INT64
  else if t == TypeFloat then T_FLOAT else if t == TypeString then T_STRING else if t == TypeBoolean then T_BOOL
  else if t == TypeArray then T_ARRAY else if t == TypeList then T_LIST else T_NONE

/-- the `switch` of `Setting::Setting` -/
def cppType (ty : Nat) : Nat :=
  if ty == T_GROUP then TypeGroup else if ty == T_INT then TypeInt else if ty == T_INT64 then TypeInt64
  else if ty == T_FLOAT then TypeFloat else if ty == T_STRING then TypeString else if ty == T_BOOL then TypeBoolean
  else if ty == T_ARRAY then TypeArray else if ty == T_LIST then TypeList else TypeNone

/-- `Setting::isAggregate()`: `_type >= TypeGroup` -/
def cppIsAggregate (ty : Nat) : Bool := decide (cppType ty ≥ TypeGroup)

def isNumberTy (t : Nat) : Bool := t == T_INT || t == T_INT64 || t == T_FLOAT

/-- `Setting::assertType(type)`: `true` = no exception.  `want` is the C code of the requested
type; the escape: a number setting, auto-conversion on, a number type requested. -/
def assertType (auto : Bool) (n : Node) (want : Nat) : Bool :=
  want == n.ty || (isNumberTy n.ty && auto && isNumberTy want)

/-! ### Values and results -/

inductive CKind where
  | bool | int | uint | long | ulong | int64 | uint64 | double | float | cstr | string
deriving Repr, DecidableEq, Inhabited

/-- everything `Setting::info`-style accessors report -/
structure Info where
  length : Nat
  name : Option Bytes
  index : Int
  type : Nat
  format : Nat
  isRoot : Bool
  isGroup : Bool
  isArray : Bool
  isList : Bool
  isAggregate : Bool
  isScalar : Bool
  isNumber : Bool
  isString : Bool
  line : Nat
  file : Option Bytes
deriving Repr, DecidableEq, Inhabited

inductive CppVal where
  | unit
  | bool (b : Bool)
  | int (v : Int)
  | dbl (bits : Nat)
  /-- `const char *` (NULL = `none`) -/
  | cstr (s : Option Bytes)
  /-- `std::string` -/
  | text (s : Bytes)
  /-- a `Setting &`, by index path -/
  | setting (p : Path)
  /-- iteration: the children visited, and `end() - begin()` -/
  | order (l : List Nat) (dist : Nat)
  | info (i : Info)
  /-- the call would evaluate a float→integer conversion that C leaves undefined -/
  | unspec
deriving Repr, DecidableEq, Inhabited

inductive Res where
  | badOp
  | ok (v : CppVal)
  /-- `lookupValue`: `some v` = returned true and assigned `v`; `none` = returned false, output untouched -/
  | found (v : Option CppVal)
  | exc (e : Exc)
  /-- the C++ code would dereference a null pointer -/
  | undefined
deriving Repr, DecidableEq, Inhabited

structure Out where
  res : Res
  /-- `ConfigDestructor` calls (wrappers deleted) during the operation -/
  freed : List Nat := []
deriving Repr, Inhabited

/-- result of the body of a `Setting` member function, before the exception object is built -/
inductive SRes where
  | ok (v : CppVal)
  | found (v : Option CppVal)
  | err (k : EKind) (w : Where)
  | undefined
deriving Repr, DecidableEq, Inhabited

/-! ### Casts -/

def UINT_MAX : Int := 4294967295

/-- `config_setting_get_int` / `_int64` / `_float`: the plain getters (0 on mismatch) -/
def cGetInt (auto : Bool) (n : Node) : Int := (n.getInt auto).getD 0
def cGetInt64 (auto : Bool) (n : Node) : Int := (n.getInt64 auto).getD 0
def cGetFloat (auto : Bool) (n : Node) : Nat := (n.getFloat auto).getD 0

abbrev CastR := Except (EKind × Where) CppVal

def typeErr : EKind × Where := (.type, .self)
def rangeErr : EKind × Where := (.range, .self)

/-- `Setting::operator bool` -/
def castBool (auto : Bool) (n : Node) : CastR :=
  if !assertType auto n T_BOOL then .error typeErr else .ok (.bool (n.getBool != 0))

/-- `Setting::operator int` -/
def castInt (auto : Bool) (n : Node) : CastR :=
  if n.ty == T_INT64 then
    if cGetInt64 auto n < INT_MIN || cGetInt64 auto n > INT_MAX then .error rangeErr
    else .ok (.int (cGetInt64 auto n))
  else if !assertType auto n T_INT then .error typeErr
  else .ok (.int (cGetInt auto n))

/-- `Setting::operator unsigned int` -/
def castUInt (auto : Bool) (n : Node) : CastR :=
  if n.ty == T_INT64 then
    if cGetInt64 auto n < 0 || cGetInt64 auto n > UINT_MAX then .error rangeErr
    else .ok (.int (cGetInt64 auto n))
  else if !assertType auto n T_INT then .error typeErr
  else if cGetInt auto n < 0 then .error rangeErr
  else .ok (.int (cGetInt auto n))

/-- `Setting::operator long long` -/
def castInt64 (auto : Bool) (n : Node) : CastR :=
  if n.ty == T_INT then .ok (.int (cGetInt auto n))
  else if !assertType auto n T_INT64 then .error typeErr
  else .ok (.int (cGetInt64 auto n))

/-- `Setting::operator unsigned long long` -/
def castUInt64 (auto : Bool) (n : Node) : CastR :=
  if n.ty == T_INT then
    if cGetInt auto n < 0 then .error rangeErr else .ok (.int (cGetInt auto n))
  else if !assertType auto n T_INT64 then .error typeErr
  else if cGetInt64 auto n < 0 then .error rangeErr
  else .ok (.int (cGetInt64 auto n))

/-- `Setting::operator double` -/
def castDouble (auto : Bool) (n : Node) : CastR :=
  if !assertType auto n T_FLOAT then .error typeErr else .ok (.dbl (cGetFloat auto n))

/-- `Setting::operator float` (printed widened to double again) -/
def castFloat (auto : Bool) (n : Node) : CastR :=
  if !assertType auto n T_FLOAT then .error typeErr else .ok (.dbl (F64.roundToF32 (cGetFloat auto n)))

/-- `Setting::operator const char *` -/
def castCStr (auto : Bool) (n : Node) : CastR :=
  if !assertType auto n T_STRING then .error typeErr else .ok (.cstr n.getString)

/-- `Setting::operator std::string`: a NULL value gives the empty string -/
def castString (auto : Bool) (n : Node) : CastR :=
  if !assertType auto n T_STRING then .error typeErr else .ok (.text (n.getString.getD []))

/-- all conversion operators; `long` is 64 bits wide (LP64): `operator long` forwards to
`operator long long`, `operator unsigned long` to `operator unsigned long long` -/
def castVal (k : CKind) (auto : Bool) (n : Node) : CastR :=
  match k with
  | .bool => castBool auto n
  | .int => castInt auto n
  | .uint => castUInt auto n
  | .long => castInt64 auto n
  | .ulong => castUInt64 auto n
  | .int64 => castInt64 auto n
  | .uint64 => castUInt64 auto n
  | .double => castDouble auto n
  | .float => castFloat auto n
  | .cstr => castCStr auto n
  | .string => castString auto n

/-- the conversion would call `config_setting_get_int` / `_int64` on a float outside the
target range (undefined in C; never compared) -/
def castUnspec (k : CKind) (auto : Bool) (n : Node) : Bool :=
  match k with
  | .int | .uint => floatUnspec32 auto n
  | .long | .ulong | .int64 | .uint64 => floatUnspec64 auto n
  | _ => false

/-! ### Assignments -/

/-- the right-hand side of `Setting::operator=` -/
inductive AVal where
  | bool (b : Bool)
  | int (v : Int)
  | long (v : Int)
  | int64 (v : Int)
  | double (bits : Nat)
  /-- `operator=(float)`; the line carries a double that the caller narrows first -/
  | float (bits : Nat)
  | cstr (s : Option Bytes)
  | string (s : Bytes)
deriving Repr, DecidableEq, Inhabited

/-- the type `operator=` asserts -/
def AVal.want : AVal → Nat
  | .bool _ => T_BOOL
  | .int _ => T_INT
  | .long _ => T_INT64
  | .int64 _ => T_INT64
  | .double _ => T_FLOAT
  | .float _ => T_FLOAT
  | .cstr _ => T_STRING
  | .string _ => T_STRING

/-- the C setter `operator=` forwards to (its result is ignored) -/
def AVal.cOp (p : Path) : AVal → Op
  | .bool b => .setBool p (if b then 1 else 0)
  | .int v => .setInt p (wrap32 v)
  | .long v => .setInt64 p v
  | .int64 v => .setInt64 p v
  | .double b => .setFloat p b
  | .float b => .setFloat p (F64.roundToF32 b)
  | .cstr s => .setString p s
  | .string s => .setString p (some s)

def AVal.unspec (auto : Bool) (n : Node) : AVal → Bool
  | .double b => floatSetUnspec auto n b
  | .float b => floatSetUnspec auto n (F64.roundToF32 b)
  | _ => false

/-! ### Wrappers -/

/-- `Setting::wrapSetting`: attach a wrapper unless there is one -/
def wrapNode (n : Node) : Node := if n.hook == 0 then { n with hook := 1 } else n

/-- wrap the setting at `q` -/
def wrapAt (root : Node) (q : Path) : Node := root.modify wrapNode q

/-- wrap every setting on the way from the root to `p` (inclusive): what `getRoot()` followed
by `operator[](int)` per component does, and what `__constructPath` does through `getParent()` -/
def wrapAlong : Node → Path → Node
  | n, [] => wrapNode n
  | n, i :: p =>
    match (wrapNode n).kids[i]? with
    | some k => { wrapNode n with kids := (wrapNode n).kids.set i (wrapAlong k p) }
    | none => wrapNode n

/-- wrap every child of the setting at `p` (dereferencing an iterator at each position) -/
def wrapKids (root : Node) (p : Path) : Node :=
  root.modify (fun n => { n with kids := n.kids.map wrapNode }) p

/-- number of wrappers hanging on the tree -/
def wrapperCount (root : Node) : Nat := (destroyLog true root).length

/-! ### `Setting` member functions -/

inductive SOp where
  | cast (k : CKind)
  | assign (v : AVal)
  | lookup (path : Bytes)
  | member (name : Option Bytes)
  | elem (i : Int)
  | lookupValue (k : CKind) (name : Option Bytes)
  | exists_ (name : Option Bytes)
  | add (name : Option Bytes) (ty : Nat)
  | addElem (ty : Nat)
  | remove (name : Option Bytes)
  | removeIdx (idx : Nat)
  | info
  | getPath
  | getParent
  | setFormat (f : Nat)
  | iterate
deriving Repr, Inhabited

/-- an `int` index converted to `unsigned int` -/
def toUnsigned (i : Int) : Nat := if i < 0 then (i + 4294967296).toNat else i.toNat

/-- `Setting::operator[](const char *)` on node `n`: index of the member -/
def memberOf (auto : Bool) (n : Node) (name : Option Bytes) : Except (EKind × Where) Nat :=
  if !assertType auto n T_GROUP then .error typeErr
  else
    match name with
    | none => .error (.notFound, .name name)               -- config_setting_get_member(s, NULL) = NULL
    | some nm =>
      match getMember n nm with
      | none => .error (.notFound, .name name)
      | some (i, _) => .ok i

/-- `Setting::operator[](int)` on node `n` -/
def elemOf (n : Node) (i : Int) : Except (EKind × Where) Nat :=
  if !n.isAggregate then .error (.type, .idx i)
  else
    match getElem n (toUnsigned i) with
    | none => .error (.notFound, .idx i)
    | some _ => .ok (toUnsigned i)

/-- `Setting::exists(name)` -/
def existsIn (n : Node) (name : Option Bytes) : Bool :=
  if n.ty != T_GROUP then false
  else
    match name with
    | none => false
    | some nm => (getMember n nm).isSome

/-- the accessors without preconditions -/
def infoOf (c : Config) (p : Path) (n : Node) : Info :=
  { length := n.length, name := n.name, index := indexOfPath p, type := cppType n.ty,
    format := if effFormat c n == FMT_HEX then FMT_HEX else FMT_DEFAULT,
    isRoot := p.isEmpty, isGroup := cppType n.ty == TypeGroup, isArray := cppType n.ty == TypeArray,
    isList := cppType n.ty == TypeList, isAggregate := cppIsAggregate n.ty,
    isScalar := decide (cppType n.ty > TypeNone) && decide (cppType n.ty < TypeGroup),
    isNumber := cppType n.ty == TypeInt || cppType n.ty == TypeInt64 || cppType n.ty == TypeFloat,
    isString := cppType n.ty == TypeString, line := n.line, file := n.file }

/-- the initial value `Setting::add(Type)` assigns to the new element -/
def initialAssign (q : Path) (ty : Nat) : Option Op :=
  if ty == TypeInt then some (.setInt q 0)
  else if ty == TypeInt64 then some (.setInt64 q 0)
  else if ty == TypeFloat then some (.setFloat q 0)
  else if ty == TypeString then some (.setString q none)
  else if ty == TypeBoolean then some (.setBool q 0)
  else none

def isScalarCppType (ty : Nat) : Bool :=
  ty == TypeInt || ty == TypeInt64 || ty == TypeFloat || ty == TypeString || ty == TypeBoolean

/-- the C call of an assignment and what the operator makes of its result -/
def assignOutcome (s : State) (p : Path) (v : AVal) : State × SRes × List Nat :=
  match v, (step s (v.cOp p)).2.res with
  | .int64 _, .flag false => (s, .err .range .self, [])
  | .long _, .flag false => (s, .err .range .self, [])
  | _, _ => ((step s (v.cOp p)).1, .ok .unit, [])

/-- The body of a `Setting` member function called on the setting at `p` (node `n` of state
`s`, every setting on the way already wrapped).  Returns the new state, the result and the
wrappers deleted. -/
def settingBody (s : State) (p : Path) (n : Node) (op : SOp) : State × SRes × List Nat :=
  let c := s.cfg
  let auto := c.opt OPT_AUTOCONVERT
  match op with
  | .cast k =>
    if castUnspec k auto n then (s, .ok .unspec, [])
    else
      match castVal k auto n with
      | .ok v => (s, .ok v, [])
      | .error e => (s, .err e.1 e.2, [])
  | .assign v =>
    if v.unspec auto n then (s, .ok .unspec, [])
    else if !assertType auto n v.want then (s, .err .type .self, [])
    else
      -- `operator=(long long)` (also reached from `operator=(long)`) checks the result of
      -- `config_setting_set_int64`; the other assignments cannot fail once the type assertion passed
      assignOutcome s p v
  | .lookup path =>
    if !assertType auto n T_GROUP then (s, .err .type .self, [])
    else
      match lookupFrom n path with                               -- config_setting_lookup
      | none => (s, .err .notFound (.name (some path)), [])
      | some q => (s.withRoot (wrapAt c.root (p ++ q)), .ok (.setting (p ++ q)), [])
  | .member name =>
    match memberOf auto n name with
    | .error e => (s, .err e.1 e.2, [])
    | .ok i => (s.withRoot (wrapAt c.root (p ++ [i])), .ok (.setting (p ++ [i])), [])
  | .elem i =>
    match elemOf n i with
    | .error e => (s, .err e.1 e.2, [])
    | .ok j => (s.withRoot (wrapAt c.root (p ++ [j])), .ok (.setting (p ++ [j])), [])
  | .lookupValue k name =>
    -- SETTING_LOOKUP_NO_EXCEPTIONS: operator[](name), then the conversion; any ConfigException gives false
    match memberOf auto n name with
    | .error _ => (s, .found none, [])
    | .ok i =>
      match n.kids[i]? with
      | none => (s, .found none, [])
      | some m =>
        if castUnspec k auto m then (s, .ok .unspec, [])
        else
          let s' := s.withRoot (wrapAt c.root (p ++ [i]))
          match castVal k auto m with
          | .ok v => (s', .found (some v), [])
          | .error _ => (s', .found none, [])
  | .exists_ name => (s, .ok (.bool (existsIn n name)), [])
  | .add name ty =>
    if !assertType auto n T_GROUP then (s, .err .type .self, [])
    else if toTypeCode ty == T_NONE then (s, .err .type (.name name), [])
    else
      match step s (.add p name (toTypeCode ty)) with           -- config_setting_add
      | (s', { res := .ptr (some q), log := log }) =>
        (s'.withRoot (wrapAt s'.cfg.root q), .ok (.setting q), log)
      | (s', { res := _, log := log }) => (s', .err .name (.name name), log)
  | .addElem ty =>
    if n.ty != T_ARRAY && n.ty != T_LIST then (s, .err .type .self, [])
    else
      -- the array pre-checks; `operator[](0)` wraps the first element
      let pre : State × Option (EKind × Where) :=
        if n.ty == T_ARRAY then
          if n.length > 0 then
            match elemOf n 0 with
            | .error e => (s, some e)
            | .ok _ =>
              let s0 := s.withRoot (wrapAt c.root (p ++ [0]))
              match n.kids[0]? with
              | some k0 => if ty != cppType k0.ty then (s0, some (.type, .idx n.length)) else (s0, none)
              | none => (s0, none)
          else if !isScalarCppType ty then (s, some (.type, .idx n.length))
          else (s, none)
        else (s, none)
      match pre with
      | (s0, some e) => (s0, .err e.1 e.2, [])
      | (s0, none) =>
        match step s0 (.add p none (toTypeCode ty)) with
        | (s1, { res := .ptr (some q), log := log }) =>
          let s2 := s1.withRoot (wrapAt s1.cfg.root q)
          let s3 := match initialAssign q ty with
            | some aop => (step s2 aop).1
            | none => s2
          (s3, .ok (.setting q), log)
        | (s1, { res := _, log := log }) => (s1, .undefined, log)   -- wrapSetting(NULL)
  | .remove name =>
    if !assertType auto n T_GROUP then (s, .err .type .self, [])
    else
      match step s (.remove p name) with                         -- config_setting_remove
      | (s', { res := .flag true, log := log }) => (s', .ok .unit, log)
      | (s', { res := _, log := log }) => (s', .err .notFound (.name name), log)
  | .removeIdx idx =>
    if !n.isAggregate then (s, .err .type (.idx (wrap32 idx)), [])
    else
      match step s (.removeElem p idx) with                      -- config_setting_remove_elem
      | (s', { res := .flag true, log := log }) => (s', .ok .unit, log)
      | (s', { res := _, log := log }) => (s', .err .notFound (.idx (wrap32 idx)), log)
  | .info => (s, .ok (.info (infoOf c p n)), [])
  | .getPath => (s, .ok (.text (constructPath c.root p)), [])
  | .getParent =>
    if p.isEmpty then (s, .err .notFound (.rawPath none), [])    -- throw SettingNotFoundException(NULL)
    else (s, .ok (.setting p.dropLast), [])
  | .setFormat f =>
    let f' := if n.ty == T_INT || n.ty == T_INT64 then (if f == FMT_HEX then FMT_HEX else FMT_DEFAULT) else FMT_DEFAULT
    ((step s (.setFormat p f')).1, .ok .unit, [])
  | .iterate =>
    -- SettingIterator: `_count = getLength()`, then the aggregate check; positions 0 .. _count-1 in order
    if !cppIsAggregate n.ty then (s, .err .type .self, [])
    else (s.withRoot (wrapKids c.root p), .ok (.order (List.range n.length) n.length), [])

/-- build the exception object for the setting at `p` of the tree `root` -/
def toRes (root : Node) (p : Path) : SRes → Res
  | .ok v => .ok v
  | .found v => .found v
  | .err k w => .exc (mkExc k (excPath root p w))
  | .undefined => .undefined

/-- a `Setting` member function called on the setting addressed by `p` -/
def settingStep (s : State) (p : Path) (op : SOp) : State × Out :=
  match s.cfg.root.get? p with
  | none => (s, { res := .badOp })
  | some _ =>
    -- reaching the setting through getRoot() and operator[](int) wraps every setting on the way
    let s1 := s.withRoot (wrapAlong s.cfg.root p)
    match s1.cfg.root.get? p with
    | none => (s, { res := .badOp })
    | some n =>
      match settingBody s1 p n op with
      | (s2, r, log) => (s2, { res := toRes s1.cfg.root p r, freed := log })

/-! ### `Config` member functions -/

/-- `Config::handleError` -/
def handleError (c : Config) : Option Exc :=
  if c.errType == ERR_NONE then none
  else if c.errType == ERR_PARSE then some (.parse c.errFile c.errLine c.errText)
  else some .fileIO

def throwIfError (c : Config) : Res :=
  match handleError c with
  | some e => .exc e
  | none => .ok .unit

inductive CppOp where
  | init
  | clear
  | read (src : Source)
  | writeFile (path : Bytes)
  | write
  | lookup (path : Bytes)
  | exists_ (path : Bytes)
  | lookupValue (k : CKind) (path : Bytes)
  | getRoot
  | setOptions (n : Nat)
  | getOptions
  | setOption (o : Nat) (flag : Bool)
  | getOption (o : Nat)
  | setAutoConvert (flag : Bool)
  | getAutoConvert
  | setTabWidth (w : Nat)
  | getTabWidth
  | setFloatPrecision (n : Nat)
  | getFloatPrecision
  | setDefaultFormat (f : Nat)
  | getDefaultFormat
  | setIncludeDir (d : Option Bytes)
  | getIncludeDir
  | wrappers
  | setting (p : Path) (op : SOp)
deriving Repr, Inhabited

/-- `Config::lookupValue(path, T &)` (CONFIG_LOOKUP_NO_EXCEPTIONS): `lookup`, then the
conversion; the conversion's exception object is built (wrapping the ancestors) and swallowed. -/
def cfgLookupValue (s : State) (k : CKind) (path : Bytes) : State × Res :=
  let c := s.cfg
  match lookupFrom c.root path with                               -- Config::lookup → config_lookup
  | none => (s, .found none)
  | some q =>
    match c.root.get? q with
    | none => (s, .found none)
    | some m =>
      if castUnspec k (c.opt OPT_AUTOCONVERT) m then (s, .ok .unspec)
      else
        match castVal k (c.opt OPT_AUTOCONVERT) m with
        | .ok v => (s.withRoot (wrapAt c.root q), .found (some v))
        | .error _ => (s.withRoot (wrapAlong c.root q), .found none)

/-- `Config::Config()` registers `ConfigDestructor` and stores `this` in the configuration's hook:
an invariant of every `Config` object -/
def asCpp (s : State) : State := { s with cfg := { s.cfg with destructor := true, hook := 1 } }

/-- the operation on a state that satisfies the `Config` invariant -/
def cppStepCore (s : State) (op : CppOp) : State × Out :=
  let c := s.cfg
  match op with
  | .init =>
    -- delete the Config (config_destroy), make a new one: ConfigDestructor and the hook are registered
    match step s .destroy with
    | (s', o) => (asCpp s', { res := .ok .unit, freed := o.log })
  | .clear =>
    match step s .clear with
    | (s', o) => (s', { res := .ok .unit, freed := o.log })
  | .read src =>
    match step s (.read src) with
    | (s', { res := .readResult .accept, log := log }) => (s', { res := .ok .unit, freed := log })
    | (s', { res := _, log := log }) => (s', { res := throwIfError s'.cfg, freed := log })
  | .writeFile path =>
    match step s (.writeFile path) with
    | (s', { res := .flag true, log := _ }) => (s', { res := .ok .unit })
    | (s', _) => (s', { res := throwIfError s'.cfg })
  | .write => (s, { res := .ok (.text (c.write Generated.FLOAT_BUF_SIZE)) })
  | .lookup path =>
    match lookupFrom c.root path with
    | none => (s, { res := .exc (.settingNotFound path) })       -- SettingNotFoundException(path)
    | some q => (s.withRoot (wrapAt c.root q), { res := .ok (.setting q) })
  | .exists_ path => (s, { res := .ok (.bool (lookupFrom c.root path).isSome) })
  | .lookupValue k path =>
    match cfgLookupValue s k path with
    | (s', r) => (s', { res := r })
  | .getRoot => (s.withRoot (wrapAt c.root []), { res := .ok (.setting []) })
  | .setOptions n => ((step s (.setOptions n)).1, { res := .ok .unit })
  | .getOptions => (s, { res := .ok (.int c.options) })
  | .setOption o f => ((step s (.setOption o f)).1, { res := .ok .unit })
  | .getOption o => (s, { res := .ok (.bool (c.opt o)) })
  | .setAutoConvert f => ((step s (.setOption OPT_AUTOCONVERT f)).1, { res := .ok .unit })
  | .getAutoConvert => (s, { res := .ok (.bool (c.opt OPT_AUTOCONVERT)) })
  | .setTabWidth w => ((step s (.setTabWidth w)).1, { res := .ok .unit })
  | .getTabWidth => (s, { res := .ok (.int c.tabWidth) })
  | .setFloatPrecision n => ((step s (.setFloatPrecision n)).1, { res := .ok .unit })
  | .getFloatPrecision => (s, { res := .ok (.int c.floatPrecision) })
  | .setDefaultFormat f =>
    ((step s (.setDefaultFormat (if f == FMT_HEX then FMT_HEX else FMT_DEFAULT))).1, { res := .ok .unit })
  | .getDefaultFormat => (s, { res := .ok (.int c.defaultFormat) })
  | .setIncludeDir d => ((step s (.setIncludeDir d)).1, { res := .ok .unit })
  | .getIncludeDir => (s, { res := .ok (.cstr c.includeDir) })
  | .wrappers => (s, { res := .ok (.int (wrapperCount c.root)) })
  | .setting p sop => settingStep s p sop

def cppStep (s : State) (op : CppOp) : State × Out := cppStepCore (asCpp s) op

end Cpp
end Libconfig
