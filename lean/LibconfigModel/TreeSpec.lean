import LibconfigModel.Api
/-
  The ordered-tree specification of the structural operations (specification
  side of C05): additions append (replacing an existing member only when
  overrides are enabled), removals delete exactly the addressed setting.
  These definitions say WHAT happens; `Node.add` / `Node.remove` in Api.lean
  mirror HOW lib/libconfig.c does it (path lookup, then a second search by the
  last path component in the target's parent).
-/
namespace Libconfig

/-- delete the node at the non-empty relative index path `q` (no change if `q`
addresses nothing) -/
def Node.eraseAt : Node → Path → Node
  | n, [] => n
  | n, [i] => { n with kids := n.kids.eraseIdx i }
  | n, i :: j :: q =>
    match n.kids[i]? with
    | some k => { n with kids := n.kids.set i (k.eraseAt (j :: q)) }
    | none => n

namespace Spec

/-- Removal by path: the path must resolve (relative to the group `parent`) to a
setting whose name is the path's final component; exactly that setting is
deleted, its hooks are released. -/
def remove (dtor : Bool) (parent : Node) (name : Option Bytes) : Option (Node × List Nat) :=
  match name with
  | none => none
  | some path =>
    if parent.ty != T_GROUP then none else
    match lookupFrom parent path with
    | none => none
    | some q =>
      match parent.get? q with
      | none => none
      | some target =>
        if target.name == some (lastComponent path) then
          some (parent.eraseAt q, destroyLog dtor target)
        else none

/-- index of the member called `nm`, if any -/
def memberIdx (kids : List Node) (nm : Bytes) : Option Nat :=
  kids.findIdx? (fun k => k.name == some nm)

/-- Addition: appends a fresh zeroed child; in a group the name must be valid and
new — or, with overrides enabled, the existing member of that name is deleted
first (and the new one still goes to the end); in arrays only scalars of the
array's element type; names are ignored in arrays and lists. -/
def add (dtor overrides : Bool) (parent : Node) (name : Option Bytes) (ty : Int) :
    Option (Node × Nat × List Nat) :=
  if ty < 0 || ty > 8 then none
  else if !parent.isAggregate then none
  else if parent.ty == T_GROUP then
    match name with
    | none => none
    | some nm =>
      if !validName nm then none else
      match memberIdx parent.kids nm with
      | none =>
        some ({ parent with kids := parent.kids ++ [{ name := some nm, ty := ty.toNat }] },
              parent.kids.length, [])
      | some i =>
        if !overrides then none else
        let kids' := parent.kids.eraseIdx i
        some ({ parent with kids := kids' ++ [{ name := some nm, ty := ty.toNat }] }, kids'.length,
              match parent.kids[i]? with
              | some old => destroyLog dtor old
              | none => [])
  else if parent.ty == T_ARRAY then
    if !isScalarTy ty then none
    else if (match parent.kids with | [] => false | k :: _ => k.ty != ty.toNat) then none
    else some ({ parent with kids := parent.kids ++ [{ ty := ty.toNat }] }, parent.kids.length, [])
  else
    some ({ parent with kids := parent.kids ++ [{ ty := ty.toNat }] }, parent.kids.length, [])

end Spec
end Libconfig
