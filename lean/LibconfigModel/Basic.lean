/-
  Basic definitions shared by the whole model: byte strings, C integer ranges,
  character classes (C locale), option bits and type codes of libconfig.h.

  Documented values (type codes, option bits, separators) are written here as
  literals; `Generated/Constants.lean` holds the values re-extracted from the
  source on every run and `Properties/Bridge.lean` proves the two agree.
-/
namespace Libconfig

/-- A C string without its terminating NUL: every element is a byte 1..255. -/
abbrev Bytes := List Nat

/-- An index path from the root: `[0,3,1]` is child 1 of child 3 of child 0. -/
abbrev Path := List Nat

/-! ### Type codes (libconfig.h) -/
@[reducible] def T_NONE   : Nat := 0
@[reducible] def T_GROUP  : Nat := 1
@[reducible] def T_INT    : Nat := 2
@[reducible] def T_INT64  : Nat := 3
@[reducible] def T_FLOAT  : Nat := 4
@[reducible] def T_STRING : Nat := 5
@[reducible] def T_BOOL   : Nat := 6
@[reducible] def T_ARRAY  : Nat := 7
@[reducible] def T_LIST   : Nat := 8

@[reducible] def FMT_DEFAULT : Nat := 0
@[reducible] def FMT_HEX     : Nat := 1

/-! ### Option bits -/
@[reducible] def OPT_AUTOCONVERT      : Nat := 0x01
@[reducible] def OPT_SEMICOLON        : Nat := 0x02
@[reducible] def OPT_COLON_GROUPS     : Nat := 0x04
@[reducible] def OPT_COLON_NONGROUPS  : Nat := 0x08
@[reducible] def OPT_BRACE_SEPARATE   : Nat := 0x10
@[reducible] def OPT_SCIENTIFIC       : Nat := 0x20
@[reducible] def OPT_FSYNC            : Nat := 0x40
@[reducible] def OPT_ALLOW_OVERRIDES  : Nat := 0x80

/-- `config->options` is a C `int`; the model keeps its two's-complement bit
pattern as a natural number below 2^32. -/
def optGet (options opt : Nat) : Bool := (options &&& opt) == opt

/-! ### C integer ranges -/
def INT_MIN : Int := -2147483648
def INT_MAX : Int := 2147483647
def LLONG_MIN : Int := -9223372036854775808
def LLONG_MAX : Int := 9223372036854775807

def fits32 (v : Int) : Bool := decide (INT_MIN ≤ v) && decide (v ≤ INT_MAX)
def fits64 (v : Int) : Bool := decide (LLONG_MIN ≤ v) && decide (v ≤ LLONG_MAX)

/-- Reinterpret the low 32 bits of `v` as a signed 32-bit value. -/
def wrap32 (v : Int) : Int :=
  let m := v % 4294967296
  if m ≥ 2147483648 then m - 4294967296 else m

/-- Reinterpret the low 64 bits of `v` as a signed 64-bit value. -/
def wrap64 (v : Int) : Int :=
  let m := v % 18446744073709551616
  if m ≥ 9223372036854775808 then m - 18446744073709551616 else m

/-! ### Character classes in the C locale -/
def isDigit (c : Nat) : Bool := decide (48 ≤ c) && decide (c ≤ 57)
def isUpper (c : Nat) : Bool := decide (65 ≤ c) && decide (c ≤ 90)
def isLower (c : Nat) : Bool := decide (97 ≤ c) && decide (c ≤ 122)
def isAlpha (c : Nat) : Bool := isUpper c || isLower c
def isHexDigit (c : Nat) : Bool :=
  isDigit c || (decide (65 ≤ c) && decide (c ≤ 70)) || (decide (97 ≤ c) && decide (c ≤ 102))
/-- `isspace` in the C locale: space, \t \n \v \f \r. -/
def isSpace (c : Nat) : Bool := c == 32 || (decide (9 ≤ c) && decide (c ≤ 13))

def hexVal (c : Nat) : Nat :=
  if isDigit c then c - 48 else if isUpper c then c - 55 else c - 87

/-- PATH_TOKENS ":./" -/
def isPathSep (c : Nat) : Bool := c == 58 || c == 46 || c == 47

/-! ### small helpers -/
def bytesOfString (s : String) : Bytes := s.toUTF8.toList.map (·.toNat)

def digitChar (d : Nat) : Nat := if d < 10 then 48 + d else 55 + d

/-- Digits of `n` in base `b` (2 ≤ b ≤ 36), most significant first, upper-case
letters above 9, no leading zeros; `"0"` for 0.  Structural on a fuel argument
so that it unfolds in proofs and in the kernel. -/
def natToBaseAux (b : Nat) : Nat → Nat → Bytes → Bytes
  | 0, _, acc => acc
  | fuel+1, n, acc =>
    if n = 0 then acc else natToBaseAux b fuel (n / b) (digitChar (n % b) :: acc)

def natToBase (b n : Nat) : Bytes :=
  if n = 0 then [48] else natToBaseAux b n n []

def natToDec (n : Nat) : Bytes := natToBase 10 n
def natToHexUpper (n : Nat) : Bytes := natToBase 16 n

def intToDec (v : Int) : Bytes :=
  if v < 0 then 45 :: natToDec v.natAbs else natToDec v.natAbs

/-- Value of a digit string in base `b` (no validation). -/
def digitsVal (b : Nat) (ds : Bytes) : Nat :=
  ds.foldl (fun acc c => acc * b + hexVal c) 0

end Libconfig
