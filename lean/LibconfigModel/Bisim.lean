import LibconfigModel.Flex
import LibconfigModel.ScanSpec
/-
  Equivalence of a flex automaton (compressed tables, `Flex.scan`) with the
  derivative automaton of a rule list (`ScanSpec.specScan`), by certificate:

  * `explore` (untrusted) enumerates the reachable pairs ⟨flex state, vector of
    live rule derivatives⟩;
  * `checkCert` (trusted, evaluated by the kernel) checks that the candidate
    relation contains the ten start pairs and is closed under every byte
    0 … 255 with equal jam behaviour and equal accept labels;
  * `checkCert_sound` turns a successful check into
    `Flex.next T sc bol inp = specNext rules sc bol inp` for all inputs.
-/
namespace Libconfig
namespace Bisim
open ScanSpec

/-! ### structural equality of derivative vectors -/
def vecBeq : Vec → Vec → Bool
  | [], [] => true
  | (i, a) :: u, (j, b) :: v => Nat.beq i j && (Rx.beq a b && vecBeq u v)
  | _, _ => false

theorem vecBeq_eq : ∀ {u v : Vec}, vecBeq u v = true → u = v := by
  intro u
  induction u with
  | nil => intro v h; cases v with
    | nil => rfl
    | cons _ _ => simp [vecBeq] at h
  | cons x u ih =>
    intro v h
    cases v with
    | nil => simp [vecBeq] at h
    | cons y v =>
      obtain ⟨i, a⟩ := x
      obtain ⟨j, b⟩ := y
      simp only [vecBeq, Bool.and_eq_true] at h
      rw [Nat.eq_of_beq_eq_true h.1, Rx.beq_eq h.2.1, ih h.2.2]

/-- a candidate relation: pairs ⟨flex state, spec state⟩ -/
abbrev Cert := List (Nat × Vec)

def memPair : Cert → Nat → Vec → Bool
  | [], _, _ => false
  | (s', v') :: R, s, v => (Nat.beq s s' && vecBeq v v') || memPair R s v

theorem memPair_mem : ∀ {R : Cert} {s : Nat} {v : Vec}, memPair R s v = true → (s, v) ∈ R := by
  intro R
  induction R with
  | nil => intro s v h; simp [memPair] at h
  | cons p R ih =>
    intro s v h
    obtain ⟨s', v'⟩ := p
    simp only [memPair, Bool.or_eq_true, Bool.and_eq_true] at h
    cases h with
    | inl h => rw [Nat.eq_of_beq_eq_true h.1, vecBeq_eq h.2]; exact List.Mem.head _
    | inr h => exact List.Mem.tail _ (ih h)

/-! ### the trusted checker -/

/-- flex's accept entry (0 = not accepting) against the spec's label -/
def labEq (a : Nat) : Option Nat → Bool
  | none => Nat.beq a 0
  | some r => Nat.beq a r && !Nat.beq r 0

/-- successor `s'` of the flex automaton against successor `d` of the spec: both
jam, or neither does and the pair is in `R` -/
def succOK (R : Cert) (jam s' : Nat) (d : Vec) : Bool :=
  match Nat.beq s' jam, d with
  | true, [] => true
  | false, x :: v' => memPair R s' (x :: v')
  | _, _ => false

/-- one byte from one pair.  A NUL byte goes through `Flex.classOf` like any
other byte, inside `Flex.step`. -/
def checkByte (T : FlexTables) (R : Cert) (s : Nat) (v : Vec) (b : Nat) : Bool :=
  succOK R T.jamState (Flex.step T s b) (derivVec b v)

/-- bytes `0 … n-1` -/
def checkBytes (T : FlexTables) (R : Cert) (s : Nat) (v : Vec) : Nat → Bool
  | 0 => true
  | n + 1 => checkByte T R s v n && checkBytes T R s v n

def checkPair (T : FlexTables) (R : Cert) (s : Nat) (v : Vec) : Bool :=
  labEq (T.accept.getN s) (acceptLabel v) && checkBytes T R s v 256

def checkPairs (T : FlexTables) (R : Cert) : Cert → Bool
  | [] => true
  | (s, v) :: rest => checkPair T R s v && checkPairs T R rest

/-- the start pair of `(sc, bol)` is in `R` and the start state does not accept -/
def checkStart (T : FlexTables) (rules : List SpecRule) (R : Cert) (sc : Nat) (bol : Bool) : Bool :=
  Nat.beq (T.accept.getN (Flex.startState sc bol)) 0 &&
    memPair R (Flex.startState sc bol) (startVec rules sc bol)

/-- start conditions `0 … n-1`, at and away from the beginning of a line -/
def checkStarts (T : FlexTables) (rules : List SpecRule) (R : Cert) : Nat → Bool
  | 0 => true
  | n + 1 => checkStart T rules R n false && (checkStart T rules R n true && checkStarts T rules R n)

def checkCert (T : FlexTables) (rules : List SpecRule) (R : Cert) : Bool :=
  checkStarts T rules R 5 && checkPairs T R R

/-! ### soundness -/

theorem checkBytes_lt {T : FlexTables} {R : Cert} {s : Nat} {v : Vec} :
    ∀ {n : Nat}, checkBytes T R s v n = true → ∀ b, b < n → checkByte T R s v b = true := by
  intro n
  induction n with
  | zero => intro _ b hb; omega
  | succ n ih =>
    intro h b hb
    simp only [checkBytes, Bool.and_eq_true] at h
    by_cases hbn : b = n
    · subst hbn; exact h.1
    · exact ih h.2 b (by omega)

theorem checkPair_spec {T : FlexTables} {R : Cert} {s : Nat} {v : Vec}
    (h : checkPair T R s v = true) :
    labEq (T.accept.getN s) (acceptLabel v) = true ∧ ∀ b, b < 256 → checkByte T R s v b = true := by
  unfold checkPair at h
  rw [Bool.and_eq_true] at h
  exact ⟨h.1, checkBytes_lt h.2⟩

theorem checkPairs_mem {T : FlexTables} {R : Cert} :
    ∀ {L : Cert}, checkPairs T R L = true → ∀ {s : Nat} {v : Vec}, (s, v) ∈ L →
      checkPair T R s v = true := by
  intro L
  induction L with
  | nil => intro _ s v hm; cases hm
  | cons p L ih =>
    intro h s v hm
    obtain ⟨s', v'⟩ := p
    simp only [checkPairs, Bool.and_eq_true] at h
    cases hm with
    | head => exact h.1
    | tail _ hm => exact ih h.2 hm

theorem checkStarts_lt {T : FlexTables} {rules : List SpecRule} {R : Cert} :
    ∀ {n : Nat}, checkStarts T rules R n = true → ∀ sc, sc < n → ∀ bol,
      checkStart T rules R sc bol = true := by
  intro n
  induction n with
  | zero => intro _ sc h; omega
  | succ n ih =>
    intro h sc hsc bol
    simp only [checkStarts, Bool.and_eq_true] at h
    by_cases hn : sc = n
    · subst hn; cases bol
      · exact h.1
      · exact h.2.1
    · exact ih h.2.2 sc (by omega) bol

theorem nat_beq_eq (a b : Nat) : (a == b) = Nat.beq a b := by
  cases h : Nat.beq a b with
  | true => exact beq_iff_eq.mpr (Nat.eq_of_beq_eq_true h)
  | false => exact beq_eq_false_iff_ne.mpr (Nat.ne_of_beq_eq_false h)

theorem succOK_spec {R : Cert} {jam s' : Nat} {d : Vec} (h : succOK R jam s' d = true) :
    ((s' == jam) = true ∧ d = []) ∨
    ((s' == jam) = false ∧ ∃ x v', d = x :: v' ∧ memPair R s' (x :: v') = true) := by
  rw [nat_beq_eq]
  unfold succOK at h
  cases h1 : Nat.beq s' jam <;> cases d <;> simp only [h1] at h
  · cases h
  · exact .inr ⟨rfl, _, _, rfl, h⟩
  · exact .inl ⟨rfl, rfl⟩
  · cases h

/-- equal labels make flex's bookkeeping of the last accepting state equal to `bump` -/
theorem labEq_bump {a : Nat} {v : Vec} (h : labEq a (acceptLabel v) = true) (pos : Nat)
    (last : Option (Nat × Nat)) :
    (if (a != 0) = true then some (a, pos) else last) = bump v pos last := by
  unfold bump
  cases hl : acceptLabel v with
  | none =>
    rw [hl] at h
    simp only [labEq] at h
    have : a = 0 := Nat.eq_of_beq_eq_true h
    subst this
    simp
  | some r =>
    rw [hl] at h
    simp only [labEq, Bool.and_eq_true, Bool.not_eq_true'] at h
    have h1 : a = r := Nat.eq_of_beq_eq_true h.1
    have h2 : r ≠ 0 := Nat.ne_of_beq_eq_false h.2
    subst h1
    simp [h2]

theorem specScan_nil (inp : List Nat) (pos : Nat) (last : Option (Nat × Nat)) :
    specScan [] inp pos last = last := by
  cases inp <;> simp [specScan, bump, acceptLabel, derivVec]

/-- A checked relation is a bisimulation: related states scan alike. -/
theorem scan_eq {T : FlexTables} {R : Cert} (hR : checkPairs T R R = true) :
    ∀ (inp : List Nat) (s : Nat) (v : Vec) (pos : Nat) (last : Option (Nat × Nat)),
      memPair R s v = true → (∀ b ∈ inp, b < 256) →
      Flex.scan T s inp pos last = specScan v inp pos last := by
  intro inp
  induction inp with
  | nil =>
    intro s v pos last hm _
    have hp := checkPair_spec (checkPairs_mem hR (memPair_mem hm))
    simp only [Flex.scan, specScan]
    exact labEq_bump hp.1 pos last
  | cons c cs ih =>
    intro s v pos last hm hb
    have hp := checkPair_spec (checkPairs_mem hR (memPair_mem hm))
    have hc := hp.2 c (hb c (List.Mem.head _))
    simp only [Flex.scan, specScan]
    rw [labEq_bump hp.1 pos last]
    unfold checkByte at hc
    generalize Flex.step T s c = s' at hc ⊢
    generalize derivVec c v = d at hc ⊢
    cases succOK_spec hc with
    | inl hjam => rw [hjam.1, hjam.2]; rfl
    | inr hgo =>
      obtain ⟨hj, x, v', hd, hmem⟩ := hgo
      rw [hj, hd]
      simp only [Bool.false_eq_true, if_false]
      exact ih _ _ _ _ hmem (fun b hb' => hb b (List.Mem.tail _ hb'))

/-- **Soundness of the certificate check.** -/
theorem checkCert_sound {T : FlexTables} {rules : List SpecRule} {R : Cert}
    (h : checkCert T rules R = true) :
    ∀ sc, sc < 5 → ∀ (bol : Bool) (inp : List Nat), (∀ b ∈ inp, b < 256) →
      Flex.next T sc bol inp = specNext rules sc bol inp := by
  intro sc hsc bol inp hb
  simp only [checkCert, Bool.and_eq_true] at h
  have hs := checkStarts_lt h.1 sc hsc bol
  simp only [checkStart, Bool.and_eq_true] at hs
  have hacc : T.accept.getN (Flex.startState sc bol) = 0 := Nat.eq_of_beq_eq_true hs.1
  cases inp with
  | nil => simp [Flex.next, Flex.scan, specNext, hacc]
  | cons c cs =>
    have hp := checkPair_spec (checkPairs_mem h.2 (memPair_mem hs.2))
    have hc := hp.2 c (hb c (List.Mem.head _))
    simp only [Flex.next, Flex.scan, specNext, hacc]
    unfold checkByte at hc
    generalize Flex.step T (Flex.startState sc bol) c = s' at hc ⊢
    generalize derivVec c (startVec rules sc bol) = d at hc ⊢
    cases succOK_spec hc with
    | inl hjam => rw [hjam.1, hjam.2, specScan_nil]; rfl
    | inr hgo =>
      obtain ⟨hj, x, v', hd, hmem⟩ := hgo
      rw [hj, hd]
      simp only [Bool.false_eq_true, if_false]
      exact scan_eq h.2 cs _ _ _ _ hmem (fun b hb' => hb b (List.Mem.tail _ hb'))

/-! ### the untrusted search -/

/-- non-jam successors of `(s, v)` under bytes `0 … n-1` that are not yet known -/
def succs (T : FlexTables) (seen : Cert) (s : Nat) (v : Vec) : Nat → Cert → Cert
  | 0, acc => acc
  | n + 1, acc =>
    match Nat.beq (Flex.step T s n) T.jamState, derivVec n v with
    | false, x :: v' =>
      if memPair seen (Flex.step T s n) (x :: v') || memPair acc (Flex.step T s n) (x :: v') then
        succs T seen s v n acc
      else succs T seen s v n ((Flex.step T s n, x :: v') :: acc)
    | _, _ => succs T seen s v n acc

/-- depth-first closure of `todo` under all bytes -/
def explore (T : FlexTables) : Nat → Cert → Cert → Cert
  | 0, _, seen => seen
  | _ + 1, [], seen => seen
  | fuel + 1, (s, v) :: todo, seen =>
    if memPair seen s v then explore T fuel todo seen
    else explore T fuel (succs T ((s, v) :: seen) s v 256 todo) ((s, v) :: seen)

def startPairs (rules : List SpecRule) : Nat → Cert
  | 0 => []
  | n + 1 =>
    (Flex.startState n false, startVec rules n false) ::
    (Flex.startState n true, startVec rules n true) :: startPairs rules n

/-- candidate relation for `T` against `rules` -/
def mkCert (T : FlexTables) (rules : List SpecRule) (fuel : Nat) : Cert :=
  explore T fuel (startPairs rules 5) []

/-! ### diagnostics (untrusted): shortest distinguishing input

Used when `checkCert` fails after the tables or the rule list changed: a
breadth-first search from the ten start pairs for the first place where the two
automata disagree.  The result is an input to try with `Flex.next` and
`specNext`; for a `jam` mismatch a continuation may be needed to make the
difference observable. -/

inductive MismatchKind where
  | label      -- the accept labels after `inp` differ
  | jam        -- after `inp` exactly one side has no transition left
deriving Repr

structure Mismatch where
  kind : MismatchKind
  sc : Nat
  bol : Bool
  inp : List Nat
  flex : Option (Nat × Nat)
  spec : Option (Nat × Nat)
deriving Repr

/-- an exploration item: where it started, the bytes consumed (reversed), the pair -/
abbrev Item := Nat × Bool × List Nat × Nat × Vec

def mkMismatch (T : FlexTables) (rules : List SpecRule) (k : MismatchKind) (sc : Nat) (bol : Bool)
    (rev : List Nat) : Mismatch :=
  let inp := rev.reverse
  ⟨k, sc, bol, inp, Flex.next T sc bol inp, specNext rules sc bol inp⟩

/-- successors of one item under bytes `0 … n-1`, or the first jam mismatch -/
def diagSuccs (T : FlexTables) (rules : List SpecRule) (it : Item) :
    Nat → List Item → Except Mismatch (List Item)
  | 0, acc => .ok acc
  | n + 1, acc =>
    let (sc, bol, rev, s, v) := it
    let s' := Flex.step T s n
    let v' := derivVec n v
    match Nat.beq s' T.jamState, v' with
    | true, [] => diagSuccs T rules it n acc
    | false, x :: v'' => diagSuccs T rules it n ((sc, bol, n :: rev, s', x :: v'') :: acc)
    | _, _ => .error (mkMismatch T rules .jam sc bol (n :: rev))

/-- one breadth-first level -/
def diagLevel (T : FlexTables) (rules : List SpecRule) :
    List Item → Cert → List Item → Except Mismatch (Cert × List Item)
  | [], seen, next => .ok (seen, next)
  | (sc, bol, rev, s, v) :: rest, seen, next =>
    if memPair seen s v then diagLevel T rules rest seen next
    else if !labEq (T.accept.getN s) (acceptLabel v) then
      .error (mkMismatch T rules .label sc bol rev)
    else
      match diagSuccs T rules (sc, bol, rev, s, v) 256 [] with
      | .error m => .error m
      | .ok new => diagLevel T rules rest ((s, v) :: seen) (next ++ new)

def diagLoop (T : FlexTables) (rules : List SpecRule) :
    Nat → List Item → Cert → Option Mismatch
  | 0, _, _ => none
  | _ + 1, [], _ => none
  | fuel + 1, frontier, seen =>
    match diagLevel T rules frontier seen [] with
    | .error m => some m
    | .ok (seen', next) => diagLoop T rules fuel next seen'

def startItems (rules : List SpecRule) : Nat → List Item
  | 0 => []
  | n + 1 =>
    startItems rules n ++
      [(n, false, [], Flex.startState n false, startVec rules n false),
       (n, true, [], Flex.startState n true, startVec rules n true)]

/-- `none`: the automata agree (then `checkCert … (mkCert …)` succeeds);
`some m`: a shortest input on which they part. -/
def findMismatch (T : FlexTables) (rules : List SpecRule) : Option Mismatch :=
  diagLoop T rules 10000 (startItems rules 5) []

end Bisim
end Libconfig
