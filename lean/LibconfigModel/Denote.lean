import LibconfigModel.Scanner
/-
  What a configuration text DENOTES: a reference interpreter of the documented grammar
  (doc/libconfig.texi, chapter "Configuration Files" and appendix "Configuration File Grammar";
  lib/grammar.y) over the token sequence of a text.  Written by hand from the documentation as a
  recursive-descent reader; it knows nothing about LR tables, parser states or the C API.
  `Properties/C02Denote.lean` proves that `libconfig_yyparse` — the bison automaton over the
  translated tables with the semantic actions of lib/grammar.y — computes exactly this function.

      configuration := setting*
      setting       := NAME (`=` | `:`) value [`;` | `,`]
      value         := scalar | array | list | group
      scalar        := BOOLEAN | INTEGER | INTEGER64 | HEX | HEX64 | FLOAT | STRING+
      array         := `[` [ scalar (`,` [scalar])* ] `]`        all scalars of one type
      list          := `(` [ value  (`,` [value])*  ] `)`
      group         := `{` setting* `}`

  (The grammar of lib/grammar.y has `value_list: value | value_list , value | value_list ,`: once
  a first element is there, every further comma may or may not be followed by an element, so
  `(1,,2,)` is a list of two elements; `( , 1)` and `(1 2)` are not lists.  A setting may be
  followed by one `;` or one `,` or nothing.  `=` and `:` are the same token.)

  The result is the setting tree (`Node`, Tree.lean) without source positions:
    * settings appear in the order of the text, with their names; elements are nameless;
    * BOOLEAN → type bool with the token's value; INTEGER / HEX → type int, INTEGER64 / HEX64 →
      type int64, with the token's value; the hexadecimal literals set the format `FMT_HEX`, the
      decimal ones `FMT_DEFAULT`; FLOAT → type float; adjacent string literals are concatenated
      into one string value;
    * a name that already occurs in the same group is an error ("duplicate setting name") —
      unless the option `ALLOW_OVERRIDES` is set: then the earlier setting is removed when the
      later one is met, and the later one sits at the end of the group;
    * the elements of an array must all have the type of the first ("mismatched element type in
      array"); `1` and `1L` have different types;
    * anything that does not fit the grammar is a "syntax error".
  Of several offences the first in reading order is reported (an offence is located at the name
  of a duplicate setting, at the last token of a mismatching array element, and at the token that
  does not fit the grammar).  What is left of the tree after an error is not specified.
-/
namespace Libconfig.Denote
open Libconfig

/-- the tokens as the documentation names them; `=` and `:` are one token -/
inductive Item where
  | boolean (v : Int)
  | integer (v : Int)
  | integer64 (v : Int)
  | hex (v : Int)
  | hex64 (v : Int)
  | float (bits : Nat)
  | string (s : Bytes)
  | name (s : Bytes)
  | assign
  | arrayStart | arrayEnd
  | listStart | listEnd
  | groupStart | groupEnd
  | comma
  | semicolon
  /-- anything else the scanner hands over (TOK_GARBAGE, TOK_ERROR, …): fits nowhere -/
  | other
deriving Repr, Inhabited

/-- the item a token (bison token number of lib/grammar.h, semantic value) stands for -/
def itemOf (tv : Nat × TokVal) : Item :=
  let tk := Generated.tokens
  let t := tv.1
  let v := tv.2
  if t = tk.boolean then .boolean v.ival
  else if t = tk.integer then .integer v.ival
  else if t = tk.integer64 then .integer64 v.ival
  else if t = tk.hex then .hex v.ival
  else if t = tk.hex64 then .hex64 v.ival
  else if t = tk.float then .float v.fval
  else if t = tk.string then .string v.sval
  else if t = tk.name then .name v.sval
  else if t = tk.equals then .assign
  else if t = tk.arrayStart then .arrayStart
  else if t = tk.arrayEnd then .arrayEnd
  else if t = tk.listStart then .listStart
  else if t = tk.listEnd then .listEnd
  else if t = tk.groupStart then .groupStart
  else if t = tk.groupEnd then .groupEnd
  else if t = tk.comma then .comma
  else if t = tk.semicolon then .semicolon
  else .other

/-- the three ways a text can be rejected -/
inductive ErrKind where
  | syntax
  | duplicateName
  | arrayElemType
deriving Repr, DecidableEq, Inhabited

/-- the message `config_error_text` reports -/
def ErrKind.text : ErrKind → Bytes
  | .syntax => [115, 121, 110, 116, 97, 120, 32, 101, 114, 114, 111, 114]
      -- "syntax error"
  | .duplicateName =>
    [100, 117, 112, 108, 105, 99, 97, 116, 101, 32, 115, 101, 116, 116, 105, 110, 103, 32, 110, 97, 109, 101]
      -- "duplicate setting name"
  | .arrayElemType =>
    [109, 105, 115, 109, 97, 116, 99, 104, 101, 100, 32, 101, 108, 101, 109, 101, 110, 116, 32, 116,
     121, 112, 101, 32, 105, 110, 32, 97, 114, 114, 97, 121]
      -- "mismatched element type in array"

/-- outcome of reading a part of the text: what was read and the items not yet consumed -/
inductive Res (α : Type) where
  | ok (a : α) (rest : List Item)
  | error (k : ErrKind)
deriving Inhabited

/-- the options of the reading configuration that matter for the result -/
structure Options where
  /-- `CONFIG_OPTION_ALLOW_OVERRIDES` -/
  allowOverrides : Bool := false
deriving Repr, Inhabited

/-! ### scalars -/

/-- STRING*: the concatenation of the string literals at the front, and what follows them -/
def strings : List Item → Bytes × List Item
  | .string s :: rest => (s ++ (strings rest).1, (strings rest).2)
  | rest => ([], rest)

/-- `scalar := BOOLEAN | INTEGER | INTEGER64 | HEX | HEX64 | FLOAT | STRING+` at the front of the
items, as a setting called `nm`; `none` if no scalar starts here -/
def scalar (nm : Option Bytes) : List Item → Option (Node × List Item)
  | .boolean v :: rest => some ({ name := nm, ty := T_BOOL, ival := v }, rest)
  | .integer v :: rest => some ({ name := nm, ty := T_INT, ival := v, fmt := FMT_DEFAULT }, rest)
  | .integer64 v :: rest => some ({ name := nm, ty := T_INT64, ival := v, fmt := FMT_DEFAULT }, rest)
  | .hex v :: rest => some ({ name := nm, ty := T_INT, ival := v, fmt := FMT_HEX }, rest)
  | .hex64 v :: rest => some ({ name := nm, ty := T_INT64, ival := v, fmt := FMT_HEX }, rest)
  | .float b :: rest => some ({ name := nm, ty := T_FLOAT, fval := b }, rest)
  | .string s :: rest =>
    some ({ name := nm, ty := T_STRING, sval := some (s ++ (strings rest).1) }, (strings rest).2)
  | _ => none

/-! ### arrays -/

/-- the rest of an array whose first element (of type `ty`) has been read:
`(`,` [scalar])* `]``; `acc` are the elements so far.  (`fuel` bounds the number of items read;
every call consumes one.) -/
def arrayRest (ty : Nat) : Nat → List Node → List Item → Res (List Node)
  | 0, _, _ => .error .syntax
  | _ + 1, acc, .arrayEnd :: rest => .ok acc rest
  | fuel + 1, acc, .comma :: rest =>
    match scalar none rest with
    | none => arrayRest ty fuel acc rest                 -- a comma not followed by an element
    | some (x, rest') =>
      if x.ty ≠ ty then .error .arrayElemType
      else arrayRest ty fuel (acc ++ [x]) rest'
  | _ + 1, _, _ => .error .syntax

/-! ### settings of a group -/

/-- a setting called `nm` is met in a group whose members so far are `members`: if the name is
new nothing happens; if it is taken, the text is rejected — unless overrides are allowed: then
the earlier setting is removed -/
def enter (o : Options) (members : List Node) (nm : Bytes) : Option (List Node) :=
  match members.findIdx? (fun k => k.name == some nm) with
  | none => some members
  | some i => if o.allowOverrides then some (members.eraseIdx i) else none

/-- `[`;` | `,`]` -/
def skipTerminator : List Item → List Item
  | .semicolon :: rest => rest
  | .comma :: rest => rest
  | rest => rest

/-! ### values, lists, groups -/

mutual
/-- `value := scalar | array | list | group` at the front of the items, as a setting called `nm`
(`none` for an element) -/
def value (o : Options) : Nat → Option Bytes → List Item → Res Node
  | 0, _, _ => .error .syntax
  | fuel + 1, nm, .arrayStart :: rest =>
    match rest with
    | .arrayEnd :: rest' => .ok { name := nm, ty := T_ARRAY } rest'
    | _ =>
      match scalar none rest with
      | none => .error .syntax
      | some (x, rest') =>
        match arrayRest x.ty fuel [x] rest' with
        | .error k => .error k
        | .ok elems rest'' => .ok { name := nm, ty := T_ARRAY, kids := elems } rest''
  | fuel + 1, nm, .listStart :: rest =>
    match rest with
    | .listEnd :: rest' => .ok { name := nm, ty := T_LIST } rest'
    | _ =>
      match value o fuel none rest with
      | .error k => .error k
      | .ok x rest' =>
        match listRest o fuel [x] rest' with
        | .error k => .error k
        | .ok elems rest'' => .ok { name := nm, ty := T_LIST, kids := elems } rest''
  | fuel + 1, nm, .groupStart :: rest =>
    match settings o fuel [] rest with
    | .error k => .error k
    | .ok members (.groupEnd :: rest') => .ok { name := nm, ty := T_GROUP, kids := members } rest'
    | .ok _ _ => .error .syntax
  | _ + 1, nm, items =>
    match scalar nm items with
    | some (x, rest) => .ok x rest
    | none => .error .syntax
/-- the rest of a list whose first element has been read: `(`,` [value])* `)``; `acc` are the
elements so far -/
def listRest (o : Options) : Nat → List Node → List Item → Res (List Node)
  | 0, _, _ => .error .syntax
  | _ + 1, acc, .listEnd :: rest => .ok acc rest
  | fuel + 1, acc, .comma :: rest =>
    match rest with
    | .comma :: _ => listRest o fuel acc rest            -- a comma not followed by an element
    | .listEnd :: _ => listRest o fuel acc rest
    | _ =>
      match value o fuel none rest with
      | .error k => .error k
      | .ok x rest' => listRest o fuel (acc ++ [x]) rest'
  | _ + 1, _, _ => .error .syntax
/-- `setting*`, where `setting := NAME (`=`|`:`) value [`;`|`,`]`; `members` are the settings of
this group so far; reading stops in front of the first item that is not a NAME -/
def settings (o : Options) : Nat → List Node → List Item → Res (List Node)
  | 0, _, _ => .error .syntax
  | fuel + 1, members, .name nm :: rest =>
    match enter o members nm with
    | none => .error .duplicateName
    | some members' =>
      match rest with
      | .assign :: rest' =>
        match value o fuel (some nm) rest' with
        | .error k => .error k
        | .ok x rest'' => settings o fuel (members' ++ [x]) (skipTerminator rest'')
      | _ => .error .syntax
  | _ + 1, members, items => .ok members items
end

/-! ### configurations -/

/-- what the reader answers: the root group of the configuration, or an error -/
inductive Result where
  | ok (root : Node)
  | error (k : ErrKind)
deriving Inhabited

/-- **What the token sequence of a configuration text denotes** (`toks`: the tokens the scanner
delivers before the end of the input): `configuration := setting*` up to the end of the input;
the settings are the members of a nameless root group.  (The fuel — one more than the number of
tokens — is never used up: every step consumes a token.) -/
def denote (o : Options) (toks : List (Nat × TokVal)) : Result :=
  match settings o (toks.length + 1) [] (toks.map itemOf) with
  | .error k => .error k
  | .ok members [] => .ok { ty := T_GROUP, kids := members }
  | .ok _ (_ :: _) => .error .syntax

/-! ### nesting -/

/-- the deepest nesting of brackets the text reaches: the largest number of `(`, `[`, `{` open at
the same time, counting from `d` open brackets -/
def nestingFrom : Nat → List Item → Nat
  | d, [] => d
  | d, it :: rest =>
    match it with
    | .arrayStart | .listStart | .groupStart => max d (nestingFrom (d + 1) rest)
    | .arrayEnd | .listEnd | .groupEnd => max d (nestingFrom (d - 1) rest)
    | _ => nestingFrom d rest

/-- the nesting depth of a token sequence -/
def nesting (toks : List (Nat × TokVal)) : Nat := nestingFrom 0 (toks.map itemOf)

end Libconfig.Denote
