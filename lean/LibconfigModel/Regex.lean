/-
  Regular expressions over bytes, with Brzozowski derivatives.

  Core Lean only; everything computational here is evaluated by the kernel in
  `Properties/C18.lean`, so the definitions are structural recursions over
  constructor data, byte classes are 256-bit `Nat` masks, and equality is a
  hand-written structural `Bool` function (no derived instances).
-/
namespace Libconfig

/-- Regular expressions over bytes.  A byte class is a bit mask: byte `b`
belongs to `cls m` iff bit `b` of `m` is set. -/
inductive Rx where
  | empty                     -- ∅ : matches nothing
  | eps                       -- ε : matches the empty word
  | cls (mask : Nat)          -- one byte of the class
  | cat (a b : Rx)
  | alt (a b : Rx)
  | star (a : Rx)
deriving Repr, Inhabited

namespace Rx

/-- bit `b` of `m` -/
def mem (m b : Nat) : Bool := Nat.beq ((m >>> b) % 2) 1

/-! ### derived forms -/
/-- `a+` -/
@[reducible] def plus (a : Rx) : Rx := .cat a (.star a)
/-- `a?` -/
@[reducible] def opt (a : Rx) : Rx := .alt .eps a
/-- `a{n}` -/
def rep : Nat → Rx → Rx
  | 0, _ => .eps
  | n+1, a => .cat a (rep n a)
/-- `a{n,m}` (`m ≥ n`): `a{n}` followed by at most `m-n` optional copies -/
def repUpTo : Nat → Rx → Rx
  | 0, _ => .eps
  | k+1, a => .alt .eps (.cat a (repUpTo k a))
def repRange (n m : Nat) (a : Rx) : Rx := .cat (rep n a) (repUpTo (m - n) a)

/-! ### denotational semantics -/
inductive Matches : Rx → List Nat → Prop
  | eps : Matches .eps []
  | cls {m b : Nat} : mem m b = true → Matches (.cls m) [b]
  | cat {a b : Rx} {u v : List Nat} : Matches a u → Matches b v → Matches (.cat a b) (u ++ v)
  | altL {a b : Rx} {w : List Nat} : Matches a w → Matches (.alt a b) w
  | altR {a b : Rx} {w : List Nat} : Matches b w → Matches (.alt a b) w
  | starNil {a : Rx} : Matches (.star a) []
  | starCons {a : Rx} {u v : List Nat} :
      Matches a u → Matches (.star a) v → Matches (.star a) (u ++ v)

theorem not_matches_empty {w : List Nat} : ¬ Matches .empty w := fun h => nomatch h

theorem matches_eps_iff {w : List Nat} : Matches .eps w ↔ w = [] :=
  ⟨fun h => by cases h; rfl, fun h => h ▸ .eps⟩

theorem matches_cls_iff {m : Nat} {w : List Nat} :
    Matches (.cls m) w ↔ ∃ b, w = [b] ∧ mem m b = true :=
  ⟨fun h => by cases h with | cls hb => exact ⟨_, rfl, hb⟩,
   fun ⟨_, hw, hb⟩ => hw ▸ .cls hb⟩

theorem matches_cat_iff {a b : Rx} {w : List Nat} :
    Matches (.cat a b) w ↔ ∃ u v, w = u ++ v ∧ Matches a u ∧ Matches b v :=
  ⟨fun h => by cases h with | cat h1 h2 => exact ⟨_, _, rfl, h1, h2⟩,
   fun ⟨_, _, hw, h1, h2⟩ => hw ▸ .cat h1 h2⟩

theorem matches_alt_iff {a b : Rx} {w : List Nat} :
    Matches (.alt a b) w ↔ Matches a w ∨ Matches b w :=
  ⟨fun h => by
      cases h with
      | altL h => exact .inl h
      | altR h => exact .inr h,
   fun h => h.elim .altL .altR⟩

/-! ### structural equality -/
def beq : Rx → Rx → Bool
  | .empty, .empty => true
  | .eps, .eps => true
  | .cls m, .cls n => Nat.beq m n
  | .cat a b, .cat c d => beq a c && beq b d
  | .alt a b, .alt c d => beq a c && beq b d
  | .star a, .star c => beq a c
  | _, _ => false

theorem beq_eq : ∀ {a b : Rx}, beq a b = true → a = b := by
  intro a
  induction a with
  | empty => intro b h; cases b <;> simp [beq] at h ⊢
  | eps => intro b h; cases b <;> simp [beq] at h ⊢
  | cls m =>
    intro b h; cases b <;> simp [beq] at h ⊢
    exact h
  | cat x y ihx ihy =>
    intro b h; cases b <;> simp [beq] at h ⊢
    exact ⟨ihx h.1, ihy h.2⟩
  | alt x y ihx ihy =>
    intro b h; cases b <;> simp [beq] at h ⊢
    exact ⟨ihx h.1, ihy h.2⟩
  | star x ihx =>
    intro b h; cases b <;> simp [beq] at h ⊢
    exact ihx h

theorem beq_refl : ∀ (a : Rx), beq a a = true := by
  intro a
  induction a with
  | empty => rfl
  | eps => rfl
  | cls m => simp [beq]
  | cat x y ihx ihy => simp [beq, ihx, ihy]
  | alt x y ihx ihy => simp [beq, ihx, ihy]
  | star x ihx => simp [beq, ihx]

/-! ### nullability -/
def nullable : Rx → Bool
  | .empty => false
  | .eps => true
  | .cls _ => false
  | .cat a b => nullable a && nullable b
  | .alt a b => nullable a || nullable b
  | .star _ => true

private theorem nullable_of_matches {r : Rx} {w : List Nat} (h : Matches r w) :
    w = [] → nullable r = true := by
  induction h with
  | eps => intro _; rfl
  | cls _ => intro h; cases h
  | cat _ _ ih1 ih2 =>
    intro h
    have h' := List.append_eq_nil_iff.mp h
    simp [nullable, ih1 h'.1, ih2 h'.2]
  | altL _ ih => intro h; simp [nullable, ih h]
  | altR _ ih => intro h; simp [nullable, ih h]
  | starNil => intro _; rfl
  | starCons _ _ _ _ => intro _; rfl

theorem nullable_iff {r : Rx} : nullable r = true ↔ Matches r [] := by
  constructor
  · intro h
    induction r with
    | empty => cases h
    | eps => exact .eps
    | cls _ => cases h
    | cat a b iha ihb =>
      simp [nullable] at h
      exact .cat (u := []) (v := []) (iha h.1) (ihb h.2)
    | alt a b iha ihb =>
      simp [nullable] at h
      exact h.elim (fun h => .altL (iha h)) (fun h => .altR (ihb h))
    | star _ _ => exact .starNil
  · intro h; exact nullable_of_matches h rfl

/-! ### normalising smart constructors -/

/-- concatenation with `∅` absorbing and `ε` neutral -/
def mkCat : Rx → Rx → Rx
  | .empty, _ => .empty
  | .eps, b => b
  | _, .empty => .empty
  | a, .eps => a
  | a, b => .cat a b

theorem mkCat_iff {a b : Rx} {w : List Nat} :
    Matches (mkCat a b) w ↔ Matches (.cat a b) w := by
  have hempL : ∀ (b : Rx), Matches Rx.empty w ↔ Matches (.cat .empty b) w := fun b =>
    ⟨fun h => (nomatch h), fun h => by
      obtain ⟨_, _, _, h1, _⟩ := matches_cat_iff.mp h; exact nomatch h1⟩
  have hempR : ∀ (a : Rx), Matches Rx.empty w ↔ Matches (.cat a .empty) w := fun a =>
    ⟨fun h => (nomatch h), fun h => by
      obtain ⟨_, _, _, _, h2⟩ := matches_cat_iff.mp h; exact nomatch h2⟩
  have hepsL : ∀ (b : Rx), Matches b w ↔ Matches (.cat .eps b) w := fun b =>
    ⟨fun h => .cat (u := []) .eps h, fun h => by
      obtain ⟨u, v, hw, h1, h2⟩ := matches_cat_iff.mp h
      cases matches_eps_iff.mp h1; simpa [hw] using h2⟩
  have hepsR : ∀ (a : Rx), Matches a w ↔ Matches (.cat a .eps) w := fun a =>
    ⟨fun h => by simpa using Matches.cat (v := []) h .eps, fun h => by
      obtain ⟨u, v, hw, h1, h2⟩ := matches_cat_iff.mp h
      cases matches_eps_iff.mp h2; simpa [hw] using h1⟩
  cases a <;> cases b <;> simp only [mkCat] <;>
    first
      | exact Iff.rfl
      | exact hempL _
      | exact hempR _
      | exact hepsL _
      | exact hepsR _

/-- is `a` one of the alternatives on the right spine of `b`? -/
def altMem (a : Rx) : Rx → Bool
  | .alt x y => beq a x || altMem a y
  | b => beq a b

theorem altMem_sound {a : Rx} {w : List Nat} (ha : Matches a w) :
    ∀ {b : Rx}, altMem a b = true → Matches b w := by
  intro b
  induction b with
  | alt x y _ ihy =>
    intro h
    simp only [altMem, Bool.or_eq_true] at h
    cases h with
    | inl h => exact .altL (beq_eq h ▸ ha)
    | inr h => exact .altR (ihy h)
  | empty => intro h; exact beq_eq h ▸ ha
  | eps => intro h; exact beq_eq h ▸ ha
  | cls _ => intro h; exact beq_eq h ▸ ha
  | cat _ _ _ _ => intro h; exact beq_eq h ▸ ha
  | star _ _ => intro h; exact beq_eq h ▸ ha

/-- add one (non-`alt`) alternative in front of a right-nested alternation,
dropping `∅` and duplicates -/
def altCons (a b : Rx) : Rx :=
  match a, b with
  | .empty, b => b
  | a, .empty => a
  | a, b => if altMem a b then b else .alt a b

theorem altCons_iff {a b : Rx} {w : List Nat} :
    Matches (altCons a b) w ↔ Matches a w ∨ Matches b w := by
  have key : ∀ (a b : Rx), (Matches (if altMem a b then b else .alt a b) w
      ↔ Matches a w ∨ Matches b w) := by
    intro a b
    by_cases h : altMem a b = true
    · simp only [h, if_true]
      exact ⟨.inr, fun h' => h'.elim (fun ha => altMem_sound ha h) id⟩
    · simp only [h]
      exact matches_alt_iff
  have hL : ∀ (b : Rx), Matches b w ↔ Matches Rx.empty w ∨ Matches b w := fun b =>
    ⟨.inr, fun h => h.elim (fun h => nomatch h) id⟩
  have hR : ∀ (a : Rx), Matches a w ↔ Matches a w ∨ Matches Rx.empty w := fun a =>
    ⟨.inl, fun h => h.elim id (fun h => nomatch h)⟩
  cases a <;> cases b <;> simp only [altCons] <;>
    first
      | exact hL _
      | exact hR _
      | exact key _ _

/-- alternation, normalised: right-nested, without `∅`, without repeated
alternatives -/
def mkAlt : Rx → Rx → Rx
  | .alt x y, b => mkAlt x (mkAlt y b)
  | a, b => altCons a b

theorem mkAlt_iff {a b : Rx} {w : List Nat} :
    Matches (mkAlt a b) w ↔ Matches a w ∨ Matches b w := by
  induction a generalizing b with
  | alt x y ihx ihy =>
    simp only [mkAlt]
    rw [ihx, ihy, matches_alt_iff, or_assoc]
  | empty => simp only [mkAlt]; exact altCons_iff
  | eps => simp only [mkAlt]; exact altCons_iff
  | cls _ => simp only [mkAlt]; exact altCons_iff
  | cat _ _ _ _ => simp only [mkAlt]; exact altCons_iff
  | star _ _ => simp only [mkAlt]; exact altCons_iff

/-! ### Brzozowski derivative -/
def deriv (b : Nat) : Rx → Rx
  | .empty => .empty
  | .eps => .empty
  | .cls m => if mem m b then .eps else .empty
  | .cat x y =>
    if nullable x then mkAlt (mkCat (deriv b x) y) (deriv b y) else mkCat (deriv b x) y
  | .alt x y => mkAlt (deriv b x) (deriv b y)
  | .star x => mkCat (deriv b x) (.star x)

private theorem deriv_sound {b : Nat} {r : Rx} :
    ∀ {w : List Nat}, Matches (deriv b r) w → Matches r (b :: w) := by
  induction r with
  | empty => intro w h; exact nomatch h
  | eps => intro w h; exact nomatch h
  | cls m =>
    intro w h
    simp only [deriv] at h
    by_cases hm : mem m b = true
    · simp only [hm, if_true] at h
      cases matches_eps_iff.mp h
      exact .cls hm
    · simp only [hm] at h
      exact nomatch h
  | cat x y ihx ihy =>
    intro w h
    simp only [deriv] at h
    have hcat : Matches (mkCat (deriv b x) y) w → Matches (.cat x y) (b :: w) := by
      intro h
      obtain ⟨u, v, hw, h1, h2⟩ := matches_cat_iff.mp (mkCat_iff.mp h)
      subst hw
      exact Matches.cat (ihx h1) h2
    by_cases hn : nullable x = true
    · simp only [hn, if_true] at h
      cases mkAlt_iff.mp h with
      | inl h => exact hcat h
      | inr h => exact Matches.cat (u := []) (nullable_iff.mp hn) (ihy h)
    · simp only [hn] at h
      exact hcat h
  | alt x y ihx ihy =>
    intro w h
    simp only [deriv] at h
    cases mkAlt_iff.mp h with
    | inl h => exact .altL (ihx h)
    | inr h => exact .altR (ihy h)
  | star x ihx =>
    intro w h
    simp only [deriv] at h
    obtain ⟨u, v, hw, h1, h2⟩ := matches_cat_iff.mp (mkCat_iff.mp h)
    subst hw
    exact Matches.starCons (ihx h1) h2

private theorem deriv_complete {b : Nat} {r : Rx} {w' : List Nat} (h : Matches r w') :
    ∀ {w : List Nat}, w' = b :: w → Matches (deriv b r) w := by
  induction h with
  | eps => intro w h; cases h
  | cls hm =>
    intro w h
    cases h
    simp only [deriv, hm, if_true]
    exact .eps
  | @cat x y u v h1 h2 ih1 ih2 =>
    intro w h
    simp only [deriv]
    cases u with
    | nil =>
      have hn : nullable x = true := nullable_iff.mpr h1
      simp only [hn, if_true]
      exact mkAlt_iff.mpr (.inr (ih2 (by simpa using h)))
    | cons c u' =>
      simp only [List.cons_append, List.cons.injEq] at h
      obtain ⟨rfl, rfl⟩ := h
      have hc : Matches (mkCat (deriv c x) y) (u' ++ v) :=
        mkCat_iff.mpr (.cat (ih1 rfl) h2)
      by_cases hn : nullable x = true
      · simp only [hn, if_true]; exact mkAlt_iff.mpr (.inl hc)
      · simp only [hn]; exact hc
  | altL _ ih => intro w h; simp only [deriv]; exact mkAlt_iff.mpr (.inl (ih h))
  | altR _ ih => intro w h; simp only [deriv]; exact mkAlt_iff.mpr (.inr (ih h))
  | starNil => intro w h; cases h
  | @starCons x u v h1 h2 ih1 ih2 =>
    intro w h
    cases u with
    | nil => exact ih2 (by simpa using h)
    | cons c u' =>
      simp only [List.cons_append, List.cons.injEq] at h
      obtain ⟨rfl, rfl⟩ := h
      simp only [deriv]
      exact mkCat_iff.mpr (.cat (ih1 rfl) h2)

theorem deriv_iff {b : Nat} {r : Rx} {w : List Nat} :
    Matches (deriv b r) w ↔ Matches r (b :: w) :=
  ⟨deriv_sound, fun h => deriv_complete h rfl⟩

/-- derivative by a word -/
def derivs : List Nat → Rx → Rx
  | [], r => r
  | b :: w, r => derivs w (deriv b r)

theorem derivs_iff {u : List Nat} : ∀ {r : Rx} {w : List Nat},
    Matches (derivs u r) w ↔ Matches r (u ++ w) := by
  induction u with
  | nil => intro r w; exact Iff.rfl
  | cons b u ih => intro r w; simp only [derivs, List.cons_append]; rw [ih, deriv_iff]

/-- executable matcher -/
def matchesB (r : Rx) (w : List Nat) : Bool := nullable (derivs w r)

theorem matchesB_iff {r : Rx} {w : List Nat} : matchesB r w = true ↔ Matches r w := by
  unfold matchesB
  rw [nullable_iff, derivs_iff, List.append_nil]

instance (r : Rx) (w : List Nat) : Decidable (Matches r w) :=
  decidable_of_iff _ matchesB_iff

end Rx
end Libconfig
