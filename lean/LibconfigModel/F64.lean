import LibconfigModel.Basic
/-
  IEEE-754 binary64 as a bit pattern (`Nat` below 2^64), with exact conversions
  to and from integers, the exact `printf` conversions `%.*f` and `%.*g`, and
  correctly rounded decimal-to-binary conversion (`strtod`).  Everything is
  computed with unbounded `Nat` arithmetic; no `Float`.
-/
namespace Libconfig
namespace F64

def signBit (b : Nat) : Bool := b / 2^63 % 2 == 1
def expField (b : Nat) : Nat := b / 2^52 % 2048
def fracField (b : Nat) : Nat := b % 2^52

def isFinite (b : Nat) : Bool := expField b != 2047
def isNaN (b : Nat) : Bool := expField b == 2047 && fracField b != 0
def isInf (b : Nat) : Bool := expField b == 2047 && fracField b == 0

/-- A finite double is `(-1)^s · m · 2^e` exactly, with `m < 2^53`. -/
def mant (b : Nat) : Nat := if expField b == 0 then fracField b else fracField b + 2^52
def expo (b : Nat) : Int := if expField b == 0 then -1074 else (expField b : Int) - 1075

def posInf : Nat := 2047 * 2^52
def mkBits (neg : Bool) (e f : Nat) : Nat := (if neg then 2^63 else 0) + e * 2^52 + f

/-- bit length: smallest `k` with `n < 2^k`. -/
def bitLen (n : Nat) : Nat := if n = 0 then 0 else Nat.log2 n + 1

/-- Round `num/den` (den > 0) to the nearest integer, ties to even. -/
def divRoundEven (num den : Nat) : Nat :=
  let q := num / den
  let r := num % den
  if 2 * r > den then q + 1
  else if 2 * r == den then (if q % 2 == 1 then q + 1 else q)
  else q

/-- Nearest double (ties to even) to the positive rational `num/den`, with sign. -/
def ofRat (neg : Bool) (num den : Nat) : Nat :=
  if num = 0 then mkBits neg 0 0 else
  -- choose s so that q = num·2^s/den has 53 or 54 bits
  let b : Int := (bitLen num : Int) - (bitLen den : Int)
  let s0 : Int := 53 - b
  let scale (s : Int) : Nat × Nat :=
    if s ≥ 0 then (num * 2^s.toNat, den) else (num, den * 2^((-s).toNat))
  let q0 := let (n, d) := scale s0; n / d
  -- normalise: want 2^52 ≤ q < 2^53
  let s1 : Int := if q0 ≥ 2^53 then s0 - 1 else if q0 < 2^52 then s0 + 1 else s0
  -- binary exponent of the unit in the last place is -s1; clamp at the denormal exponent
  let s : Int := if s1 > 1074 then 1074 else s1
  let (n, d) := scale s
  let m := divRoundEven n d
  -- m may have reached 2^53 through rounding
  let (m, s) := if m ≥ 2^53 then (m / 2, s - 1) else (m, s)
  let e : Int := -s   -- value = m · 2^e
  if m < 2^52 then
    -- denormal (e = -1074) or zero
    mkBits neg 0 m
  else
    let ef : Int := e + 1075
    if ef ≥ 2047 then mkBits neg 2047 0 else mkBits neg ef.toNat (m - 2^52)

/-- `(double)v` for an integer `v` (round to nearest even). -/
def ofInt (v : Int) : Nat := ofRat (decide (v < 0)) v.natAbs 1

/-- Truncation toward zero of a finite double. -/
def trunc (b : Nat) : Int :=
  let m := mant b
  let e := expo b
  let a : Nat := if e ≥ 0 then m * 2^e.toNat else m / 2^((-e).toNat)
  if signBit b then -(a : Int) else (a : Int)

/-! ### printf -/

def pad0 (n : Nat) (ds : Bytes) : Bytes := List.replicate (n - ds.length) 48 ++ ds

/-- digits of round-half-even(|x|·10^p) for the finite double `b`. -/
def scaledRound (b : Nat) (p : Nat) : Nat :=
  let m := mant b
  let e := expo b
  if e ≥ 0 then m * 2^e.toNat * 10^p else divRoundEven (m * 10^p) (2^((-e).toNat))

def nonFinite (b : Nat) : Bytes :=
  (if signBit b then [45] else []) ++ (if isNaN b then [110, 97, 110] else [105, 110, 102])

/-- `%.{p}f` -/
def fmtF (b : Nat) (p : Nat) : Bytes :=
  if !isFinite b then nonFinite b else
  let n := scaledRound b p
  let ds := pad0 (p + 1) (natToDec n)
  let ip := ds.take (ds.length - p)
  let fp := ds.drop (ds.length - p)
  (if signBit b then [45] else []) ++ ip ++ (if p = 0 then [] else 46 :: fp)

/-- largest `x` with `10^x ≤ num/den` for positive `num/den` (searching from an estimate). -/
def floorLog10 (num den : Nat) : Int :=
  -- estimate from bit lengths: log10(2) ≈ 0.30103
  let est : Int := (((bitLen num : Int) - (bitLen den : Int)) * 30103) / 100000
  let le (x : Int) : Bool :=  -- 10^x ≤ num/den
    if x ≥ 0 then decide (den * 10^x.toNat ≤ num) else decide (den ≤ num * 10^((-x).toNat))
  -- walk down until le holds, then up while le (x+1) holds
  let rec down (fuel : Nat) (x : Int) : Int :=
    match fuel with
    | 0 => x
    | f+1 => if le x then x else down f (x - 1)
  let rec up (fuel : Nat) (x : Int) : Int :=
    match fuel with
    | 0 => x
    | f+1 => if le (x + 1) then up f (x + 1) else x
  up 8 (down 8 (est + 1))

def stripZeros (ds : Bytes) : Bytes := (ds.reverse.dropWhile (· == 48)).reverse

/-- `%.{p}g` (no `#` flag). -/
def fmtG (b : Nat) (p0 : Nat) : Bytes :=
  if !isFinite b then nonFinite b else
  let p := if p0 = 0 then 1 else p0
  let sign : Bytes := if signBit b then [45] else []
  let m := mant b
  if m = 0 then sign ++ [48] else
  let e := expo b
  let (num, den) : Nat × Nat := if e ≥ 0 then (m * 2^e.toNat, 1) else (m, 2^((-e).toNat))
  let x0 := floorLog10 num den
  -- round to p significant digits: D = round(value / 10^(x0-p+1))
  let sh : Int := x0 - (p : Int) + 1
  let d0 := if sh ≥ 0 then divRoundEven num (den * 10^sh.toNat) else divRoundEven (num * 10^((-sh).toNat)) den
  let (d, x) : Nat × Int := if d0 ≥ 10^p then (d0 / 10, x0 + 1) else (d0, x0)
  if x < -4 || x ≥ (p : Int) then
    -- %e style with p-1 fraction digits, trailing zeros removed
    let ds := pad0 p (natToDec d)
    let fp := stripZeros (ds.drop 1)
    let ex := natToDec x.natAbs
    let ex := if ex.length < 2 then 48 :: ex else ex
    sign ++ ds.take 1 ++ (if fp.isEmpty then [] else 46 :: fp) ++ [101, (if x < 0 then 45 else 43)] ++ ex
  else
    -- %f style with p-1-x fraction digits; the value rounded to p significant digits is d·10^(x-p+1)
    let fd : Nat := ((p : Int) - 1 - x).toNat
    let ds := pad0 (fd + 1) (natToDec d)
    let ip := ds.take (ds.length - fd)
    let fp := stripZeros (ds.drop (ds.length - fd))
    sign ++ ip ++ (if fp.isEmpty then [] else 46 :: fp)

/-! ### strtod on the language of the scanner's `{float}` rule -/

/-- Split a literal `[-+]?digits?(.digits?)?([eE][-+]?digits)?` into
(negative, integer digits, fraction digits, exponent). -/
def parseDecimal (s : Bytes) : Bool × Bytes × Bytes × Int :=
  let (neg, s) := match s with
    | 45 :: r => (true, r)
    | 43 :: r => (false, r)
    | _ => (false, s)
  let ip := s.takeWhile isDigit
  let s := s.dropWhile isDigit
  let (fp, s) := match s with
    | 46 :: r => (r.takeWhile isDigit, r.dropWhile isDigit)
    | _ => ([], s)
  let ex : Int := match s with
    | c :: r =>
      if c == 101 || c == 69 then
        let (eneg, r) := match r with
          | 45 :: r' => (true, r')
          | 43 :: r' => (false, r')
          | _ => (false, r)
        let ds := r.takeWhile isDigit
        if ds.isEmpty then 0 else
        let v : Int := digitsVal 10 ds
        if eneg then -v else v
      else 0
    | [] => 0
  (neg, ip, fp, ex)

/-- Correctly rounded value of a decimal literal (glibc `strtod`/`atof` in the
C locale).  No mantissa digits at all means "no conversion": +0.0. -/
def strtod (s : Bytes) : Nat :=
  let (neg, ip, fp, ex) := parseDecimal s
  if ip.isEmpty && fp.isEmpty then 0 else
  let ds := (ip ++ fp).dropWhile (· == 48)
  let d := digitsVal 10 ds
  if d = 0 then mkBits neg 0 0 else
  let k : Int := ex - fp.length
  -- magnitude guard so that absurd exponents do not build astronomically large numbers
  let mag : Int := k + ds.length
  if mag > 400 then mkBits neg 2047 0
  else if mag < -400 then mkBits neg 0 0
  else if k ≥ 0 then ofRat neg (d * 10^k.toNat) 1
  else ofRat neg d (10^((-k).toNat))

end F64
end Libconfig
