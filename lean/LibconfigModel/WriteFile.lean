import LibconfigModel.Writer
import LibconfigModel.Read
/-
  `config_write_file` (lib/libconfig.c): fopen, config_write through stdio,
  fflush + ferror, optional fsync, fclose — against an oracle that decides the
  outcome of each I/O step.
-/
namespace Libconfig

/-- outcome of the I/O steps of one `config_write_file` call, chosen by the environment -/
structure IOFaults where
  openOk : Bool := true
  /-- every buffered write and the final `fflush` succeed (`fflush(stream) == 0 && !ferror(stream)`) -/
  writeOk : Bool := true
  fsyncOk : Bool := true
  closeOk : Bool := true
deriving Repr, DecidableEq, Inhabited

inductive IOCall where
  | fopen | write | fflush | fsync | fclose
deriving Repr, DecidableEq, Inhabited

structure WriteFileOut where
  ret : Bool
  cfg : Config
  /-- the file's content when every step up to and including `fclose` succeeded -/
  fileBytes : Option Bytes
  calls : List IOCall
deriving Repr, Inhabited

def writeFile (bufLen : Nat) (c : Config) (io : IOFaults) : WriteFileOut :=
  let ioErr := c.setError ERR_FILE_IO (some Generated.IO_ERROR_TEXT)
  if !io.openOk then { ret := false, cfg := ioErr, fileBytes := none, calls := [.fopen] }
  else if !io.writeOk then
    { ret := false, cfg := ioErr, fileBytes := none, calls := [.fopen, .write, .fflush, .fclose] }
  else if c.opt OPT_FSYNC && !io.fsyncOk then
    { ret := false, cfg := ioErr, fileBytes := none, calls := [.fopen, .write, .fflush, .fsync, .fclose] }
  else if !io.closeOk then
    { ret := false, cfg := ioErr, fileBytes := none,
      calls := [.fopen, .write, .fflush] ++ (if c.opt OPT_FSYNC then [.fsync] else []) ++ [.fclose] }
  else
    { ret := true, cfg := c.setError ERR_NONE none, fileBytes := some (c.write bufLen),
      calls := [.fopen, .write, .fflush] ++ (if c.opt OPT_FSYNC then [.fsync] else []) ++ [.fclose] }

/-- `config_write_file` never touches the settings, the options or the destructor -/
theorem writeFile_root (bufLen : Nat) (c : Config) (io : IOFaults) :
    (writeFile bufLen c io).cfg.root = c.root := by
  unfold writeFile Config.setError; repeat' split
  all_goals rfl

theorem writeFile_destructor (bufLen : Nat) (c : Config) (io : IOFaults) :
    (writeFile bufLen c io).cfg.destructor = c.destructor := by
  unfold writeFile Config.setError; repeat' split
  all_goals rfl

/-- Can `fopen(path, "wt")` succeed in this world?  The path must not be a
directory, and its directory part (if any) must exist. -/
def World.canCreate (w : World) (path : Bytes) : Bool :=
  let isDir (p : Bytes) : Bool := w.files.any (fun e => e.1 == p && e.2.isNone)
  if path.isEmpty || isDir path then false
  else
    let rev := path.reverse
    let dirRev := (rev.dropWhile (· != 47)).drop 1
    if path.contains 47 then isDir dirRev.reverse || dirRev.isEmpty else true

end Libconfig
