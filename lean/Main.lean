import LibconfigModel.Read
import LibconfigModel.Writer
import LibconfigModel.WF
/-
  Line-protocol driver: one operation per line on stdin, one canonical line on
  stdout.  The C harness (harness/drv_api.c) executes the same lines on the real
  library; tools/check.py diffs the two streams.
-/
open Libconfig

structure DState where
  cfg : Config := Config.init
  world : World := {}
  fuel : Nat := 100000000

def hexNib (c : Char) : Option Nat :=
  if '0' ≤ c ∧ c ≤ '9' then some (c.toNat - 48)
  else if 'a' ≤ c ∧ c ≤ 'f' then some (c.toNat - 87)
  else if 'A' ≤ c ∧ c ≤ 'F' then some (c.toNat - 55)
  else none

def unhex (s : String) : Option Bytes :=
  let rec go : List Char → List Nat → Option Bytes
    | [], acc => some acc.reverse
    | [_], _ => none
    | a :: b :: r, acc =>
      match hexNib a, hexNib b with
      | some x, some y => go r ((x * 16 + y) :: acc)
      | _, _ => none
  if s == "" || s == "=" then some [] else go s.toList []

/-- `-` = NULL, `=` = empty string, otherwise hex -/
def unhexOpt (s : String) : Option (Option Bytes) :=
  if s == "-" then some none
  else if s == "=" then some (some [])
  else (unhex s).map some

def hexDigit (n : Nat) : Char := if n < 10 then Char.ofNat (48 + n) else Char.ofNat (87 + n)

def hex (b : Bytes) : String :=
  if b.isEmpty then "=" else String.ofList (b.flatMap fun c => [hexDigit (c / 16 % 16), hexDigit (c % 16)])

def hexOpt : Option Bytes → String
  | none => "-"
  | some b => hex b

def hex64 (n : Nat) : String :=
  String.ofList ((List.range 16).map fun i => hexDigit (n / 16 ^ (15 - i) % 16))

def parsePath (s : String) : Option Path :=
  if s == "/" then some []
  else
    let parts := (s.splitOn "/").drop 1
    parts.mapM (·.toNat?)

def showPath (p : Path) : String :=
  if p.isEmpty then "/" else String.join (p.map fun i => "/" ++ toString i)

def showOptPath : Option Path → String
  | none => "null"
  | some p => showPath p

def showLog (l : List Nat) : String := "[" ++ ",".intercalate (l.map toString) ++ "]"

partial def dumpNode (n : Node) : String :=
  let v :=
    if n.ty == T_INT || n.ty == T_INT64 || n.ty == T_BOOL then toString n.ival
    else if n.ty == T_FLOAT then hex64 n.fval
    else if n.ty == T_STRING then hexOpt n.sval
    else if n.isAggregate then "[" ++ ",".intercalate (n.kids.map dumpNode) ++ "]"
    else "-"
  "(" ++ hexOpt n.name ++ "," ++ toString n.ty ++ "," ++ toString n.fmt ++ "," ++ v ++ "," ++
    toString n.hook ++ "," ++ toString n.line ++ "," ++ hexOpt n.file ++ ")"

def dumpCfg (c : Config) : String :=
  s!"cfg opts={c.options} tab={c.tabWidth} prec={c.floatPrecision} dfmt={c.defaultFormat} " ++
  s!"incdir={hexOpt c.includeDir} dtor={if c.destructor then 1 else 0} hook={c.hook} " ++
  s!"files=[{",".intercalate (c.filenames.map hex)}] root={dumpNode c.root}"

def b2s (b : Bool) : String := if b then "1" else "0"

/-- apply a node-level setter at path `p` -/
def setAt (st : DState) (p : Path) (f : Node → Option Node) : DState × String :=
  match st.cfg.root.get? p with
  | none => (st, "bad-op")
  | some n =>
    match f n with
    | none => (st, "0")
    | some n' => ({ st with cfg := { st.cfg with root := st.cfg.root.modify (fun _ => n') p } }, "1")

def setElemAt (st : DState) (p : Path) (idx : Int) (setter : Node → Option Node) (ty : Nat) : DState × String :=
  match st.cfg.root.get? p with
  | none => (st, "bad-op")
  | some n =>
    match n.setElem setter ty idx with
    | none => (st, "null")
    | some (n', i) =>
      ({ st with cfg := { st.cfg with root := st.cfg.root.modify (fun _ => n') p } }, showPath (p ++ [i]))

def withNode (st : DState) (p : Path) (f : Node → String) : DState × String :=
  match st.cfg.root.get? p with
  | none => (st, "bad-op")
  | some n => (st, f n)

def showOptInt : Option Int → String
  | none => "0"
  | some v => s!"1 {v}"

def showOptFloat : Option Nat → String
  | none => "0"
  | some v => s!"1 {hex64 v}"

def floatUnspec32 (auto : Bool) (n : Node) : Bool := n.ty == T_FLOAT && auto && !floatCastOk32 n.fval
def floatUnspec64 (auto : Bool) (n : Node) : Bool := n.ty == T_FLOAT && auto && !floatCastOk64 n.fval

def typedGet (kind : String) (auto : Bool) (n : Node) : String :=
  match kind with
  | "int" => if floatUnspec32 auto n then "unspec" else showOptInt (n.getInt auto)
  | "int64" => if floatUnspec64 auto n then "unspec" else showOptInt (n.getInt64 auto)
  | "float" => showOptFloat (n.getFloat auto)
  | "bool" => if n.ty == T_BOOL then s!"1 {n.ival}" else "0"
  | "string" => if n.ty == T_STRING then s!"1 {hexOpt n.sval}" else "0"
  | _ => "bad-op"

/-- the plain `config_setting_get_*` functions: 0 / 0.0 / NULL on mismatch -/
def plainGet (kind : String) (auto : Bool) (n : Node) : String :=
  match kind with
  | "int" => if floatUnspec32 auto n then "unspec" else toString ((n.getInt auto).getD 0)
  | "int64" => if floatUnspec64 auto n then "unspec" else toString ((n.getInt64 auto).getD 0)
  | "float" => hex64 ((n.getFloat auto).getD 0)
  | "bool" => toString n.getBool
  | "string" => hexOpt n.getString
  | _ => "bad-op"

def doRead (st : DState) (src : Source) : DState × String :=
  let r := read st.world st.cfg src st.fuel
  let tag := match r.result with
    | .accept => "1"
    | .abort => "0"
    | .exhausted => "0"
    | .crash => "crash"
    | .echo b => s!"echo {b}"
    | .outOfFuel => "out-of-fuel"
  ({ st with cfg := r.cfg }, s!"{tag} {showLog r.dtorLog}")

def step (st : DState) (w : List String) : DState × String :=
  let c := st.cfg
  let auto := c.opt OPT_AUTOCONVERT
  match w with
  | ["init"] => ({ st with cfg := Config.init }, "ok")
  | ["reset_world"] => ({ st with world := {} }, "ok")
  | ["add", p, name, ty] =>
    match parsePath p, unhexOpt name, ty.toInt? with
    | some p, some name, some ty =>
      match c.root.get? p with
      | none => (st, "bad-op")
      | some n =>
        match n.add c.destructor (c.opt OPT_ALLOW_OVERRIDES) name ty with
        | none => (st, "null []")
        | some (n', i, log) =>
          ({ st with cfg := { c with root := c.root.modify (fun _ => n') p } }, s!"{showPath (p ++ [i])} {showLog log}")
    | _, _, _ => (st, "bad-op")
  | ["remove", p, name] =>
    match parsePath p, unhexOpt name with
    | some p, some name =>
      match c.root.get? p with
      | none => (st, "bad-op")
      | some n =>
        match n.remove c.destructor name with
        | none => (st, "0 []")
        | some (n', log) => ({ st with cfg := { c with root := c.root.modify (fun _ => n') p } }, s!"1 {showLog log}")
    | _, _ => (st, "bad-op")
  | ["remove_elem", p, idx] =>
    match parsePath p, idx.toNat? with
    | some p, some idx =>
      match c.root.get? p with
      | none => (st, "bad-op")
      | some n =>
        match n.removeElem c.destructor idx with
        | none => (st, "0 []")
        | some (n', log) => ({ st with cfg := { c with root := c.root.modify (fun _ => n') p } }, s!"1 {showLog log}")
    | _, _ => (st, "bad-op")
  | ["set_int", p, v] =>
    match parsePath p, v.toInt? with
    | some p, some v => setAt st p (fun n => n.setInt auto v)
    | _, _ => (st, "bad-op")
  | ["set_int64", p, v] =>
    match parsePath p, v.toInt? with
    | some p, some v => setAt st p (fun n => n.setInt64 auto v)
    | _, _ => (st, "bad-op")
  | ["set_float", p, v] =>
    match parsePath p, unhex v with
    | some p, some b =>
      let bits := b.foldl (fun a x => a * 256 + x) 0
      match c.root.get? p with
      | none => (st, "bad-op")
      | some n =>
        if auto && ((n.ty == T_INT && !floatCastOk32 bits) || (n.ty == T_INT64 && !floatCastOk64 bits)) then (st, "unspec")
        else setAt st p (fun n => n.setFloat auto bits)
    | _, _ => (st, "bad-op")
  | ["set_bool", p, v] =>
    match parsePath p, v.toInt? with
    | some p, some v => setAt st p (fun n => n.setBool v)
    | _, _ => (st, "bad-op")
  | ["set_string", p, v] =>
    match parsePath p, unhexOpt v with
    | some p, some s => setAt st p (fun n => n.setString s)
    | _, _ => (st, "bad-op")
  | ["set_format", p, f] =>
    match parsePath p, f.toNat? with
    | some p, some f => setAt st p (fun n => n.setFormat f)
    | _, _ => (st, "bad-op")
  | ["set_hook", p, h] =>
    match parsePath p, h.toNat? with
    | some p, some h =>
      match c.root.get? p with
      | none => (st, "bad-op")
      | some _ => ({ st with cfg := { c with root := c.root.modify (fun n => { n with hook := h }) p } }, "ok")
    | _, _ => (st, "bad-op")
  | ["set_int_elem", p, idx, v] =>
    match parsePath p, idx.toInt?, v.toInt? with
    | some p, some idx, some v => setElemAt st p idx (fun n => n.setInt auto v) T_INT
    | _, _, _ => (st, "bad-op")
  | ["set_int64_elem", p, idx, v] =>
    match parsePath p, idx.toInt?, v.toInt? with
    | some p, some idx, some v => setElemAt st p idx (fun n => n.setInt64 auto v) T_INT64
    | _, _, _ => (st, "bad-op")
  | ["set_float_elem", p, idx, v] =>
    match parsePath p, idx.toInt?, unhex v with
    | some p, some idx, some b =>
      let bits := b.foldl (fun a x => a * 256 + x) 0
      let unspec := match c.root.get? p with
        | some n =>
          if idx < 0 then false else
          match getElem n idx.toNat with
          | some e => auto && ((e.ty == T_INT && !floatCastOk32 bits) || (e.ty == T_INT64 && !floatCastOk64 bits))
          | none => false
        | none => false
      if unspec then (st, "unspec") else setElemAt st p idx (fun n => n.setFloat auto bits) T_FLOAT
    | _, _, _ => (st, "bad-op")
  | ["set_bool_elem", p, idx, v] =>
    match parsePath p, idx.toInt?, v.toInt? with
    | some p, some idx, some v => setElemAt st p idx (fun n => n.setBool v) T_BOOL
    | _, _, _ => (st, "bad-op")
  | ["set_string_elem", p, idx, v] =>
    match parsePath p, idx.toInt?, unhexOpt v with
    | some p, some idx, some s => setElemAt st p idx (fun n => n.setString s) T_STRING
    | _, _, _ => (st, "bad-op")
  | ["get", kind, p] =>
    match parsePath p with
    | some p => withNode st p (plainGet kind auto)
    | none => (st, "bad-op")
  | ["get_elem_val", kind, p, idx] =>
    -- config_setting_get_*_elem
    match parsePath p, idx.toInt? with
    | some p, some idx =>
      withNode st p fun n =>
        let e := if idx < 0 then getElem n (idx + 4294967296).toNat else getElem n idx.toNat
        match e with
        | none => (match kind with | "float" => hex64 0 | "string" => "-" | _ => "0")
        | some e =>
          match kind with
          | "bool" => toString (if e.ty == T_BOOL then e.ival else 0)
          | "string" => hexOpt (if e.ty == T_STRING then e.sval else none)
          | _ => plainGet kind auto e
    | _, _ => (st, "bad-op")
  | ["lookup_val", kind, p, name] =>
    -- config_setting_lookup_*
    match parsePath p, unhexOpt name with
    | some p, some name =>
      withNode st p fun n =>
        match name with
        | none => "0"
        | some nm =>
          match getMember n nm with
          | none => "0"
          | some (_, m) => typedGet kind auto m
    | _, _ => (st, "bad-op")
  | ["clookup_val", kind, path] =>
    -- config_lookup_*
    match unhex path with
    | some path =>
      match lookupFrom c.root path with
      | none => (st, "0")
      | some q =>
        match c.root.get? q with
        | none => (st, "0")
        | some m => (st, typedGet kind auto m)
    | none => (st, "bad-op")
  | ["lookup", p, path] =>
    match parsePath p, unhex path with
    | some p, some path =>
      withNode st p fun n => showOptPath ((lookupFrom n path).map (p ++ ·))
    | _, _ => (st, "bad-op")
  | ["get_elem", p, idx] =>
    match parsePath p, idx.toNat? with
    | some p, some idx => withNode st p fun n => showOptPath ((getElem n idx).map fun _ => p ++ [idx])
    | _, _ => (st, "bad-op")
  | ["get_member", p, name] =>
    match parsePath p, unhexOpt name with
    | some p, some name =>
      withNode st p fun n =>
        match name with
        | none => "null"
        | some nm => showOptPath ((getMember n nm).map fun (i, _) => p ++ [i])
    | _, _ => (st, "bad-op")
  | ["length", p] =>
    match parsePath p with
    | some p => withNode st p fun n => toString n.length
    | none => (st, "bad-op")
  | ["index", p] =>
    match parsePath p with
    | some p => withNode st p fun _ => toString (indexOfPath p)
    | none => (st, "bad-op")
  | ["get_format", p] =>
    match parsePath p with
    | some p => withNode st p fun n => toString (effFormat c n)
    | none => (st, "bad-op")
  | ["info", p] =>
    -- type, name, is_root, is_scalar, is_aggregate, is_group/array/list/number, source line/file, hook
    match parsePath p with
    | some p => withNode st p fun n =>
        s!"{n.ty} {hexOpt n.name} {b2s p.isEmpty} {b2s (isScalarTy n.ty)} {b2s n.isAggregate} {n.line} {hexOpt n.file} {n.hook}"
    | none => (st, "bad-op")
  | ["set_options", n] =>
    match n.toNat? with
    | some n => ({ st with cfg := { c with options := n % 4294967296 } }, "ok")
    | none => (st, "bad-op")
  | ["set_option", o, f] =>
    match o.toNat?, f.toNat? with
    | some o, some f => ({ st with cfg := c.setOption o (f != 0) }, "ok")
    | _, _ => (st, "bad-op")
  | ["get_option", o] =>
    match o.toNat? with
    | some o => (st, b2s (c.opt o))
    | none => (st, "bad-op")
  | ["set_tab_width", n] =>
    match n.toNat? with
    | some n => ({ st with cfg := c.setTabWidth n }, "ok")
    | none => (st, "bad-op")
  | ["set_float_precision", n] =>
    match n.toNat? with
    | some n => ({ st with cfg := { c with floatPrecision := n } }, "ok")
    | none => (st, "bad-op")
  | ["set_default_format", n] =>
    match n.toNat? with
    | some n => ({ st with cfg := { c with defaultFormat := n } }, "ok")
    | none => (st, "bad-op")
  | ["set_include_dir", d] =>
    match unhexOpt d with
    | some d => ({ st with cfg := { c with includeDir := d } }, "ok")
    | none => (st, "bad-op")
  | ["set_include_fn", n] =>
    match n.toNat? with
    | some n => ({ st with cfg := { c with includeFn := n } }, "ok")
    | none => (st, "bad-op")
  | ["set_destructor", n] =>
    match n.toNat? with
    | some n => ({ st with cfg := { c with destructor := n != 0 } }, "ok")
    | none => (st, "bad-op")
  | ["set_config_hook", n] =>
    match n.toNat? with
    | some n => ({ st with cfg := { c with hook := n } }, "ok")
    | none => (st, "bad-op")
  | ["clear"] =>
    let (c', log) := c.clear
    ({ st with cfg := c' }, s!"ok {showLog log}")
  | ["destroy"] =>
    -- config_destroy followed by config_init
    ({ st with cfg := Config.init }, s!"ok {showLog (destroyLog c.destructor c.root)}")
  | ["read_string", s] =>
    match unhex s with
    | some s => doRead st (.string s)
    | none => (st, "bad-op")
  | ["read_stream", s] =>
    match unhex s with
    | some s => doRead st (.stream s)
    | none => (st, "bad-op")
  | ["read_file", p] =>
    match unhex p with
    | some p => doRead st (.file p)
    | none => (st, "bad-op")
  | ["mkfile", p, content] =>
    match unhex p, unhex content with
    | some p, some content =>
      ({ st with world := { files := (p, some content) :: st.world.files.filter (·.1 != p) } }, "ok")
    | _, _ => (st, "bad-op")
  | ["mkdir", p] =>
    match unhex p with
    | some p => ({ st with world := { files := (p, none) :: st.world.files.filter (·.1 != p) } }, "ok")
    | none => (st, "bad-op")
  | ["rmfile", p] =>
    match unhex p with
    | some p => ({ st with world := { files := st.world.files.filter (·.1 != p) } }, "ok")
    | none => (st, "bad-op")
  | ["write"] => (st, hex (c.write Generated.FLOAT_BUF_SIZE))
  | ["err"] => (st, s!"{c.errType} {hexOpt c.errText} {hexOpt c.errFile} {c.errLine}")
  | ["dump"] => (st, dumpCfg c)
  | ["wf"] => (st, if c.wfb then "wf ok" else "wf FAIL")
  | ["lookup_all"] => (st, if lookupAllFrom 64 c.root then "lookup_all ok" else "lookup_all FAIL")
  | _ => (st, "bad-op")

partial def loop (h : IO.FS.Stream) (out : IO.FS.Stream) (st : DState) : IO Unit := do
  let line ← h.getLine
  if line.isEmpty then return ()
  let ws := (line.trimAscii.toString.splitOn " ").filter (· != "")
  if ws.isEmpty then loop h out st
  else
    let (st', o) := step st ws
    out.putStrLn o
    loop h out st'

def main : IO Unit := do
  let out ← IO.getStdout
  loop (← IO.getStdin) out {}
  out.flush
